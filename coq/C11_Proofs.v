(* C11_Proofs: the listener under accept faults. *)
From Coq Require Import List ZArith Lia Bool Arith.
From Muduo Require Import Gen_C11 C11_Model.
Import ListNotations.
Local Open Scope Z_scope.

Lemma zmem_in x l : zmem x l = true <-> In x l.
Proof.
  unfold zmem. rewrite existsb_exists. split.
  - intros (y & Hy & E). apply Z.eqb_eq in E. subst. exact Hy.
  - intros H. exists x. split; [exact H|apply Z.eqb_refl].
Qed.

(* the classes the property lists as transient are not fatal (checked against the generated table) *)
Lemma listed_accept_faults_expected :
  forallb (fun e => match accept_class e with Expected => true | Fatal => false end)
          [errno_EAGAIN; errno_ECONNABORTED; errno_EINTR; errno_EMFILE] = true.
Proof. vm_compute. reflexivity. Qed.

Lemma accept_transient a e :
  dead a = false -> accept_class e = Expected -> e <> errno_EMFILE ->
  handleRead a (AErr e) = (a, []).
Proof.
  intros Hd Hc He. unfold handleRead. rewrite Hd, Hc.
  destruct (Z.eqb_spec e errno_EMFILE) as [E|E]; [contradiction|]. reflexivity.
Qed.

Lemma valve_present : acceptor_has_emfile_valve = true.
Proof. vm_compute. reflexivity. Qed.

Lemma emfile_expected : accept_class errno_EMFILE = Expected.
Proof. vm_compute. reflexivity. Qed.

Lemma emfile_closes_pending a n :
  dead a = false -> pendq a = S n ->
  handleRead a (AErr errno_EMFILE) =
  (mkAcc n true (handed a) (S (valved a)) (open_fds a) false, [ValveClosed]).
Proof.
  intros Hd Hp. unfold handleRead. rewrite Hd, emfile_expected, Z.eqb_refl, valve_present, Hp.
  reflexivity.
Qed.

Lemma emfile_nothing_pending a :
  dead a = false -> pendq a = O -> handleRead a (AErr errno_EMFILE) = (a, []).
Proof.
  intros Hd Hp. unfold handleRead. rewrite Hd, emfile_expected, Z.eqb_refl, valve_present, Hp.
  reflexivity.
Qed.

Lemma starve_pendq a n : dead a = false ->
  pendq (starve a n) = (pendq a - n)%nat /\ dead (starve a n) = false /\
  handed (starve a n) = handed a /\ open_fds (starve a n) = open_fds a /\
  (valved (starve a n) = valved a + Nat.min n (pendq a))%nat.
Proof.
  revert a. induction n as [|n IH]; intros a Hd.
  - cbn [starve]. repeat split; try lia; assumption.
  - cbn [starve]. destruct (pendq a) as [|m] eqn:Hp.
    + rewrite (emfile_nothing_pending a Hd Hp). cbn [fst].
      destruct (IH a Hd) as (H1 & H2 & H3 & H4 & H5). rewrite Hp in *. repeat split; try assumption; lia.
    + rewrite (emfile_closes_pending a m Hd Hp). cbn [fst].
      destruct (IH (mkAcc m true (handed a) (S (valved a)) (open_fds a) false) eq_refl) as (H1 & H2 & H3 & H4 & H5).
      cbn [pendq handed open_fds valved] in *. repeat split; try assumption; lia.
Qed.

(* with n connections pending and the shortage persisting, n dispatches empty the queue, so a
   level-triggered listener stops being ready: the loop does not spin *)
Lemma emfile_no_spin a : dead a = false -> pendq (starve a (pendq a)) = O.
Proof. intros Hd. destruct (starve_pendq a (pendq a) Hd) as (H & _). lia. Qed.

Lemma handleRead_no_abort_on_expected a r :
  dead a = false ->
  (match r with AOk => True | AErr e => accept_class e = Expected end) ->
  dead (fst (handleRead a r)) = false /\ ~ In Abort (snd (handleRead a r)).
Proof.
  intros Hd Hr. unfold handleRead. rewrite Hd.
  assert (Hag : accept_class errno_EAGAIN = Expected) by (vm_compute; reflexivity).
  destruct r as [|e].
  - destruct (pendq a) as [|m].
    + rewrite Hag. destruct (errno_EAGAIN =? errno_EMFILE) eqn:E; cbn; [|auto].
      vm_compute in E. discriminate.
    + cbn. split; [reflexivity|intros [H|[]]; discriminate].
  - rewrite Hr. destruct ((e =? errno_EMFILE) && acceptor_has_emfile_valve).
    + destruct (pendq a); cbn; [auto|split; [reflexivity|intros [H|[]]; discriminate]].
    + cbn. auto.
Qed.

(* handing over exactly the pending connections: nothing is accepted that was not pending,
   every pending connection ends handed over or closed, none twice *)
Lemma conservation ops a : dead a = false ->
  let a' := fst (arun a ops) in
  dead a' = false ->
  (pendq a' + handed a' + valved a' =
   pendq a + handed a + valved a + length (filter (fun o => match o with Connect => true | _ => false end) ops))%nat
  /\ open_fds a' = open_fds a.
Proof.
  revert a. induction ops as [|o ops IH]; intros a Hd a' Hd'.
  - cbn in *. subst a'. split; lia.
  - subst a'. cbn [arun] in *. destruct (astep a o) as [a1 e1] eqn:E1.
    destruct (arun a1 ops) as [a2 e2] eqn:E2. cbn [fst] in *.
    assert (Hd1 : dead a1 = false).
    { destruct (dead a1) eqn:D; [|reflexivity].
      (* once dead, always dead *)
      assert (Hs : forall l b, dead b = true -> dead (fst (arun b l)) = true).
      { induction l as [|x l IHl]; intros b Hb; [exact Hb|].
        cbn [arun]. destruct (astep b x) as [b1 f1] eqn:Eb. destruct (arun b1 l) as [b2 f2] eqn:Eb2.
        cbn [fst]. specialize (IHl b1). rewrite Eb2 in IHl. cbn [fst] in IHl. apply IHl.
        destruct x; cbn [astep] in Eb.
        - injection Eb as <- _. exact Hb.
        - unfold handleRead in Eb. rewrite Hb in Eb. injection Eb as <- _. exact Hb. }
      specialize (Hs ops a1 D). rewrite E2 in Hs. cbn [fst] in Hs. congruence. }
    specialize (IH a1 Hd1). rewrite E2 in IH. cbn [fst] in IH. specialize (IH Hd').
    destruct IH as [IH1 IH2]. destruct o as [|r]; cbn [astep filter length] in *.
    + injection E1 as <- _. cbn [client_connects pendq handed valved open_fds] in *. split; lia.
    + unfold handleRead in E1. rewrite Hd in E1.
      destruct r as [|e].
      * destruct (pendq a) as [|m] eqn:Hp.
        -- destruct (accept_class errno_EAGAIN).
           ++ destruct ((errno_EAGAIN =? errno_EMFILE) && acceptor_has_emfile_valve);
                rewrite ?Hp in E1; injection E1 as <- _; split; lia.
           ++ injection E1 as <- _. cbn in Hd1. discriminate.
        -- injection E1 as <- _. cbn [pendq handed valved open_fds pred] in *. split; lia.
      * destruct (accept_class e).
        -- destruct ((e =? errno_EMFILE) && acceptor_has_emfile_valve).
           ++ destruct (pendq a) as [|m] eqn:Hp; injection E1 as <- _;
                cbn [pendq handed valved open_fds] in *; split; lia.
           ++ injection E1 as <- _. split; lia.
        -- injection E1 as <- _. cbn in Hd1. discriminate.
Qed.

Lemma poll_fault_iterates e : poll_iteration (PErr e) = (0%nat, true).
Proof. reflexivity. Qed.

(* connect: the listed transient classes are not in the give-up group *)
Lemma listed_connect_faults_classified :
  zmem errno_EINPROGRESS connect_proceed = true /\
  zmem errno_ECONNREFUSED connect_retry = true /\
  zmem errno_ENETUNREACH connect_retry = true /\
  zmem errno_EINPROGRESS connect_giveup = false /\
  zmem errno_ECONNREFUSED connect_giveup = false /\
  zmem errno_ENETUNREACH connect_giveup = false.
Proof. vm_compute. repeat split; reflexivity. Qed.

(* ---- the poll call, from the regenerated guards of EPollPoller::poll / PollPoller::poll ------- *)
(* what epoll_wait / poll returns for the model's poll_res: (return value, errno) *)
Definition poll_ret (r : poll_res) : Z * Z :=
  match r with PReady n => (Z.of_nat n, 0) | PErr e => (-1, e) end.

(* Poller::poll re-assembled from its guards:
     if (numEvents > 0) fillActiveChannels(numEvents, ..); else if (numEvents == 0) ; else { if (savedErrno != EINTR) LOG_SYSERR; }
   result: (channels handed to the loop, the loop goes on, an error line is logged) *)
Definition poll_src (some none log : Z -> bool) (r : poll_res) : nat * bool * bool :=
  let '(n, err) := poll_ret r in
  if some n then (Z.to_nat n, true, false)
  else if none n then (0%nat, true, false)
  else (0%nat, true, log err).

Lemma poll_src_generic some none log :
  (forall n, some (Z.of_nat n) = (0 <? n)%nat) -> some (-1) = false -> none (-1) = false ->
  forall r, fst (poll_src some none log r) = poll_iteration r.
Proof.
  intros Hs He Hn [n|e]; unfold poll_src, poll_ret, poll_iteration.
  - rewrite Hs. destruct n as [|n]; cbn [Nat.ltb Nat.leb].
    + destruct (none (Z.of_nat 0)); reflexivity.
    + rewrite Nat2Z.id. reflexivity.
  - rewrite He, Hn. reflexivity.
Qed.

Lemma some_test_nat n : (Z.of_nat n >? 0) = (0 <? n)%nat.
Proof.
  destruct (Nat.ltb_spec 0 n) as [E|E].
  - apply Z.gtb_lt. lia.
  - assert (n = 0%nat) by lia. subst. reflexivity.
Qed.

(* both back-ends: an interrupted (or otherwise failed) poll call hands no channel to the loop and
   the loop goes on; EINTR is not even logged; no branch of the error path fills channels, quits
   or aborts *)
Lemma poll_is_source :
  (forall r, fst (poll_src epoll_poll_some_test epoll_poll_none_test epoll_poll_log_test r) = poll_iteration r) /\
  (forall r, fst (poll_src ppoll_poll_some_test ppoll_poll_none_test ppoll_poll_log_test r) = poll_iteration r) /\
  snd (poll_src epoll_poll_some_test epoll_poll_none_test epoll_poll_log_test (PErr errno_EINTR)) = false /\
  snd (poll_src ppoll_poll_some_test ppoll_poll_none_test ppoll_poll_log_test (PErr errno_EINTR)) = false /\
  epoll_poll_fills_only_when_some = true /\ epoll_poll_log_test_in_error_branch = true /\
  ppoll_poll_fills_only_when_some = true /\ ppoll_poll_log_test_in_error_branch = true.
Proof.
  split; [|split].
  - apply poll_src_generic; [intros n; apply some_test_nat|reflexivity|reflexivity].
  - apply poll_src_generic; [intros n; apply some_test_nat|reflexivity|reflexivity].
  - repeat split; reflexivity.
Qed.

(* ---- connect faults: the socket of an attempt is closed exactly once or watched ---------------- *)
Definition attempt_ok (t : nat * nat * nat) : bool :=
  let '(cg, rt, cl) := t in
  let closes := (cl + rt * connector_retry_closes + cg * connector_connecting_closes)%nat in
  let watched := ((0 <? cg)%nat && connector_connecting_watches)%bool in
  (((closes =? 1)%nat && negb watched) || ((closes =? 0)%nat && watched))%bool.

Lemma connect_group_in e l : In (connect_group_of e l) (map snd l ++ [connect_default_group]).
Proof.
  induction l as [|[labels t] r IH]; cbn [connect_group_of map app].
  - left. reflexivity.
  - destruct (zmem e labels); [left; reflexivity|right; exact IH].
Qed.

Lemma all_groups_ok : forallb attempt_ok (map snd connect_groups ++ [connect_default_group]) = true.
Proof. vm_compute. reflexivity. Qed.

(* for EVERY errno (0 = success included) the one socket the attempt created is either closed
   exactly once and not watched, or not closed and handed to a channel that watches it: never
   leaked, never closed twice, never closed and watched *)
Lemma connect_fault_no_leak e :
  at_created (connect_attempt e) = 1%nat /\
  ((at_closes (connect_attempt e) = 1%nat /\ at_watched (connect_attempt e) = false) \/
   (at_closes (connect_attempt e) = 0%nat /\ at_watched (connect_attempt e) = true)).
Proof.
  split; [unfold connect_attempt; destruct (connect_group_of e connect_groups) as [[cg rt] cl]; reflexivity|].
  pose proof (proj1 (forallb_forall _ _) all_groups_ok _ (connect_group_in e connect_groups)) as H.
  unfold connect_attempt. destruct (connect_group_of e connect_groups) as [[cg rt] cl].
  cbn [at_closes at_watched]. unfold attempt_ok in H.
  apply orb_prop in H as [H|H]; apply andb_prop in H as [H1 H2]; apply Nat.eqb_eq in H1.
  - left. apply negb_true_iff in H2. auto.
  - right. auto.
Qed.

(* the listed transient connect faults: refused / unreachable close the socket and arm exactly one
   retry; in-progress (and an interrupted connect) is watched for writability, nothing closed *)
Lemma connect_listed_faults :
  connect_attempt errno_ECONNREFUSED = mkAttempt 1 1 false 1 /\
  connect_attempt errno_ENETUNREACH = mkAttempt 1 1 false 1 /\
  connect_attempt errno_EINPROGRESS = mkAttempt 1 0 true 0 /\
  connect_attempt errno_EINTR = mkAttempt 1 0 true 0 /\
  connect_attempt 0 = mkAttempt 1 0 true 0 /\
  sockets_connect_is_plain = true /\ connector_retry_all_closes = 1%nat.
Proof. vm_compute. repeat split; reflexivity. Qed.

(* ---- Acceptor: guards, one accept per dispatch, the idleFd_ protocol ---------------------------- *)
Lemma acceptor_guards :
  (forall fd, acceptor_ok_test (Z.of_nat fd) = true) /\ acceptor_ok_test (-1) = false /\
  (forall e, acceptor_emfile_test e = (e =? errno_EMFILE)) /\
  (forall b, acceptor_has_cb_test b = b) /\
  acceptor_handleRead_loops = 0%nat /\ acceptor_accepts_outside_valve = 1%nat /\
  acceptor_listen_then_enable = true /\ acceptor_dtor_closes_idle = true.
Proof.
  repeat split; try reflexivity.
  intros fd. unfold acceptor_ok_test. apply Z.geb_le. lia.
Qed.

(* the EMFILE branch of the current source, run statement by statement on a listener whose spare
   descriptor is valid: the spare descriptor is valid again, nothing is leaked, exactly one pending
   connection (if there is one) was taken and closed - which is what C11_Model.handleRead does *)
Lemma valve_protocol_is_model a :
  dead a = false -> idle_ok a = true ->
  let v := run_valve (mkValve IdleNull (pendq a) 0 0) acceptor_valve_protocol in
  v_idle v = IdleNull /\ v_leaked v = 0%nat /\
  fst (handleRead a (AErr errno_EMFILE)) =
    mkAcc (v_pend v) true (handed a) (valved a + v_closed v) (open_fds a) false.
Proof.
  intros Hd Hi. destruct a as [p i h vl o d]. cbn [dead idle_ok pendq handed valved open_fds] in *. subst.
  destruct p as [|n].
  - rewrite emfile_nothing_pending by reflexivity. vm_compute. rewrite Nat.add_0_r. auto.
  - rewrite (emfile_closes_pending _ n) by reflexivity. cbn [fst].
    unfold run_valve, acceptor_valve_protocol. cbn [fold_left valve_step Z.eqb Pos.eqb v_idle v_pend v_closed v_leaked].
    cbn. rewrite Nat.add_1_r. auto.
Qed.

Lemma connect_attempt_unfold : forall e,
  connect_attempt e =
  let '(cg, rt, cl) := connect_group_of e connect_groups in
  mkAttempt connect_creates_sockets
            (cl + rt * connector_retry_closes + cg * connector_connecting_closes)
            ((0 <? cg)%nat && connector_connecting_watches)
            rt.
Proof. reflexivity. Qed.

Lemma valve_step_unfold : forall v code,
  valve_step v code =
  let lost := match v_idle v with IdleClosed => 0%nat | _ => 1%nat end in
  if code =? 1 then
    mkValve IdleClosed (v_pend v) (match v_idle v with IdleConn => S (v_closed v) | _ => v_closed v end) (v_leaked v)
  else if code =? 2 then
    match v_pend v with
    | O => mkValve IdleClosed O (v_closed v) (v_leaked v + lost)
    | S n => mkValve IdleConn n (v_closed v) (v_leaked v + lost)
    end
  else if code =? 3 then mkValve IdleNull (v_pend v) (v_closed v) (v_leaked v + lost)
  else v.
Proof. reflexivity. Qed.
