(* C11_Proofs: the listener under accept faults. *)
From Coq Require Import List ZArith Lia Bool Arith.
From Muduo Require Import Gen_C11 C11_Model.
Import ListNotations.
Local Open Scope Z_scope.

Lemma zmem_in x l : zmem x l = true <-> In x l.
Proof.
  unfold zmem. rewrite existsb_exists. split.
  - intros (y & Hy & E). apply Z.eqb_eq in E. subst. exact Hy.
  - intros H. exists x. split; [exact H|apply Z.eqb_refl].
Qed.

(* the classes the property lists as transient are not fatal (checked against the generated table) *)
Lemma listed_accept_faults_expected :
  forallb (fun e => match accept_class e with Expected => true | Fatal => false end)
          [errno_EAGAIN; errno_ECONNABORTED; errno_EINTR; errno_EMFILE] = true.
Proof. vm_compute. reflexivity. Qed.

Lemma accept_transient a e :
  dead a = false -> accept_class e = Expected -> e <> errno_EMFILE ->
  handleRead a (AErr e) = (a, []).
Proof.
  intros Hd Hc He. unfold handleRead. rewrite Hd, Hc.
  destruct (Z.eqb_spec e errno_EMFILE) as [E|E]; [contradiction|]. reflexivity.
Qed.

Lemma valve_present : acceptor_has_emfile_valve = true.
Proof. vm_compute. reflexivity. Qed.

Lemma emfile_expected : accept_class errno_EMFILE = Expected.
Proof. vm_compute. reflexivity. Qed.

(* the EMFILE branch of the CURRENT source, run statement by statement from a valid spare descriptor:
   one pending connection (if any) is taken and closed, the spare descriptor ends on /dev/null again,
   no descriptor number is overwritten while open.  Everything below about EMFILE follows from this
   computation on the regenerated [acceptor_valve_protocol]; dropping or reordering a statement of the
   branch breaks it. *)
Lemma valve_run_current p :
  run_valve (mkValve IdleNull p 0 0) acceptor_valve_protocol =
  mkValve IdleNull (pred p) (Nat.min 1 p) 0.
Proof. destruct p as [|n]; reflexivity. Qed.

(* ... and from an invalid one (not reachable: see spare_invariant) it is restored, too *)
Lemma valve_run_current_closed p :
  run_valve (mkValve IdleClosed p 0 0) acceptor_valve_protocol =
  mkValve IdleNull (pred p) (Nat.min 1 p) 0.
Proof. destruct p as [|n]; reflexivity. Qed.

Lemma handleRead_emfile a : dead a = false -> idle_ok a = true ->
  handleRead a (AErr errno_EMFILE) =
  (mkAcc (pred (pendq a)) true (handed a) (valved a + Nat.min 1 (pendq a)) (open_fds a - 1 + 1) false,
   repeat ValveClosed (Nat.min 1 (pendq a))).
Proof.
  intros Hd Hi. unfold handleRead. rewrite Hd, emfile_expected, Z.eqb_refl, valve_present, Hi.
  cbn [andb]. rewrite valve_run_current. cbn [v_idle v_pend v_closed v_leaked]. rewrite Nat.add_0_r. reflexivity.
Qed.

Lemma emfile_closes_pending a n :
  dead a = false -> idle_ok a = true -> (0 < open_fds a)%nat -> pendq a = S n ->
  handleRead a (AErr errno_EMFILE) =
  (mkAcc n true (handed a) (S (valved a)) (open_fds a) false, [ValveClosed]).
Proof.
  intros Hd Hi Ho Hp. rewrite (handleRead_emfile a Hd Hi), Hp. cbn [pred Nat.min repeat].
  replace (open_fds a - 1 + 1)%nat with (open_fds a) by lia. rewrite Nat.add_1_r. reflexivity.
Qed.

Lemma emfile_nothing_pending a :
  dead a = false -> idle_ok a = true -> (0 < open_fds a)%nat -> pendq a = O ->
  handleRead a (AErr errno_EMFILE) = (a, []).
Proof.
  intros Hd Hi Ho Hp. rewrite (handleRead_emfile a Hd Hi), Hp. cbn [pred Nat.min repeat].
  replace (open_fds a - 1 + 1)%nat with (open_fds a) by lia. rewrite Nat.add_0_r.
  destruct a; cbn in *; subst; reflexivity.
Qed.

(* the spare descriptor is valid (and counted) in every state the listener reaches *)
Definition spare_ok (a : acc) : Prop := idle_ok a = true /\ (0 < open_fds a)%nat.

Lemma starve_pendq a n : dead a = false -> spare_ok a ->
  pendq (starve a n) = (pendq a - n)%nat /\ dead (starve a n) = false /\
  handed (starve a n) = handed a /\ open_fds (starve a n) = open_fds a /\
  idle_ok (starve a n) = true /\
  (valved (starve a n) = valved a + Nat.min n (pendq a))%nat.
Proof.
  revert a. induction n as [|n IH]; intros a Hd [Hi Ho].
  - cbn [starve]. repeat split; try lia; assumption.
  - cbn [starve]. destruct (pendq a) as [|m] eqn:Hp.
    + rewrite (emfile_nothing_pending a Hd Hi Ho Hp). cbn [fst].
      destruct (IH a Hd (conj Hi Ho)) as (H1 & H2 & H3 & H4 & H5 & H6). rewrite Hp in *. repeat split; try assumption; lia.
    + rewrite (emfile_closes_pending a m Hd Hi Ho Hp). cbn [fst].
      destruct (IH (mkAcc m true (handed a) (S (valved a)) (open_fds a) false) eq_refl (conj eq_refl Ho)) as (H1 & H2 & H3 & H4 & H5 & H6).
      cbn [pendq handed open_fds valved] in *. repeat split; try assumption; lia.
Qed.

(* with n connections pending and the shortage persisting, n dispatches empty the queue, so a
   level-triggered listener stops being ready: the loop does not spin *)
Lemma emfile_no_spin a : dead a = false -> spare_ok a -> pendq (starve a (pendq a)) = O.
Proof. intros Hd Hs. destruct (starve_pendq a (pendq a) Hd Hs) as (H & _). lia. Qed.

Lemma handleRead_no_abort_on_expected a r :
  dead a = false ->
  (match r with AOk => True | AErr e => accept_class e = Expected end) ->
  dead (fst (handleRead a r)) = false /\ ~ In Abort (snd (handleRead a r)).
Proof.
  intros Hd Hr. unfold handleRead. rewrite Hd.
  assert (Hag : accept_class errno_EAGAIN = Expected) by (vm_compute; reflexivity).
  assert (Hrep : forall n, ~ In Abort (repeat ValveClosed n)).
  { intros n H. apply repeat_spec in H. discriminate. }
  destruct r as [|e].
  - destruct (pendq a) as [|m].
    + rewrite Hag. destruct (errno_EAGAIN =? errno_EMFILE) eqn:E; cbn; [|auto].
      vm_compute in E. discriminate.
    + cbn. split; [reflexivity|intros [H|[]]; discriminate].
  - rewrite Hr. destruct ((e =? errno_EMFILE) && acceptor_has_emfile_valve).
    + cbn [fst snd dead]. split; [reflexivity|apply Hrep].
    + cbn. auto.
Qed.

(* one step of the listener: connections conserved, the spare descriptor stays valid, the census
   stays what it was *)
Lemma astep_conserves a o : dead a = false -> spare_ok a ->
  let a' := fst (astep a o) in
  dead a' = false ->
  spare_ok a' /\ open_fds a' = open_fds a /\
  (pendq a' + handed a' + valved a' =
   pendq a + handed a + valved a + match o with Connect => 1 | _ => 0 end)%nat.
Proof.
  intros Hd [Hi Ho] a' Hd'. subst a'. destruct o as [|r]; cbn [astep] in *.
  - cbn [fst client_connects pendq handed valved open_fds idle_ok]. unfold spare_ok. cbn. repeat split; try assumption; lia.
  - destruct r as [|e].
    + unfold handleRead in *. rewrite Hd in *. destruct (pendq a) as [|m] eqn:Hp.
      * destruct (accept_class errno_EAGAIN) eqn:Hc; [|cbn in Hd'; discriminate].
        assert (E : (errno_EAGAIN =? errno_EMFILE) = false) by (vm_compute; reflexivity).
        rewrite E. cbn [andb fst]. unfold spare_ok. repeat split; try assumption; lia.
      * cbn [fst pendq handed valved open_fds idle_ok pred]. unfold spare_ok. cbn [idle_ok open_fds].
        repeat split; try assumption; lia.
    + destruct (Z.eqb_spec e errno_EMFILE) as [->|Hne].
      * rewrite (handleRead_emfile a Hd Hi) in *. cbn [fst pendq handed valved open_fds idle_ok] in *.
        unfold spare_ok. cbn [idle_ok open_fds]. repeat split; try lia;
          destruct (pendq a); cbn [pred Nat.min]; lia.
      * unfold handleRead in *. rewrite Hd in *. destruct (accept_class e); [|cbn in Hd'; discriminate].
        apply Z.eqb_neq in Hne. rewrite Hne. cbn [andb fst]. unfold spare_ok. repeat split; try assumption; lia.
Qed.

Lemma dead_stays l : forall b, dead b = true -> dead (fst (arun b l)) = true.
Proof.
  induction l as [|x l IHl]; intros b Hb; [exact Hb|].
  cbn [arun]. destruct (astep b x) as [b1 f1] eqn:Eb. destruct (arun b1 l) as [b2 f2] eqn:Eb2.
  cbn [fst]. specialize (IHl b1). rewrite Eb2 in IHl. cbn [fst] in IHl. apply IHl.
  destruct x; cbn [astep] in Eb.
  - injection Eb as <- _. exact Hb.
  - unfold handleRead in Eb. rewrite Hb in Eb. injection Eb as <- _. exact Hb.
Qed.

(* handing over exactly the pending connections: nothing is accepted that was not pending,
   every pending connection ends handed over or closed, none twice; the spare descriptor is valid
   after every history and the listener holds as many descriptors as before: none leaked.  (The two
   descriptor conjuncts are computed through the regenerated EMFILE branch, see handleRead.) *)
Lemma conservation ops a : dead a = false -> spare_ok a ->
  let a' := fst (arun a ops) in
  dead a' = false ->
  (pendq a' + handed a' + valved a' =
   pendq a + handed a + valved a + length (filter (fun o => match o with Connect => true | _ => false end) ops))%nat
  /\ open_fds a' = open_fds a /\ idle_ok a' = true.
Proof.
  revert a. induction ops as [|o ops IH]; intros a Hd Hs a' Hd'.
  - cbn in *. subst a'. destruct Hs. repeat split; try lia; assumption.
  - subst a'. cbn [arun] in *. destruct (astep a o) as [a1 e1] eqn:E1.
    destruct (arun a1 ops) as [a2 e2] eqn:E2. cbn [fst] in *.
    assert (Hd1 : dead a1 = false).
    { destruct (dead a1) eqn:D; [|reflexivity].
      pose proof (dead_stays ops a1 D) as Hs'. rewrite E2 in Hs'. cbn [fst] in Hs'. congruence. }
    pose proof (astep_conserves a o Hd Hs) as C. rewrite E1 in C. cbn [fst] in C.
    destruct (C Hd1) as (S1 & O1 & P1).
    specialize (IH a1 Hd1 S1). rewrite E2 in IH. cbn [fst] in IH. destruct (IH Hd') as (I1 & I2 & I3).
    repeat split; [|congruence|exact I3].
    destruct o; cbn [filter length]; lia.
Qed.

(* connect: the listed transient classes are not in the give-up group *)
Lemma listed_connect_faults_classified :
  zmem errno_EINPROGRESS connect_proceed = true /\
  zmem errno_ECONNREFUSED connect_retry = true /\
  zmem errno_ENETUNREACH connect_retry = true /\
  zmem errno_EINPROGRESS connect_giveup = false /\
  zmem errno_ECONNREFUSED connect_giveup = false /\
  zmem errno_ENETUNREACH connect_giveup = false.
Proof. vm_compute. repeat split; reflexivity. Qed.

(* the poll call and the loop: C11_ProofsLoop.v *)

(* ---- connect faults: the socket of an attempt is closed exactly once or watched ---------------- *)
Definition attempt_ok (t : nat * nat * nat) : bool :=
  let '(cg, rt, cl) := t in
  let closes := (cl + rt * connector_retry_closes + cg * connector_connecting_closes)%nat in
  let watched := ((0 <? cg)%nat && connector_connecting_watches)%bool in
  (((closes =? 1)%nat && negb watched) || ((closes =? 0)%nat && watched))%bool.

Lemma connect_group_in e l : In (connect_group_of e l) (map snd l ++ [connect_default_group]).
Proof.
  induction l as [|[labels t] r IH]; cbn [connect_group_of map app].
  - left. reflexivity.
  - destruct (zmem e labels); [left; reflexivity|right; exact IH].
Qed.

Lemma all_groups_ok : forallb attempt_ok (map snd connect_groups ++ [connect_default_group]) = true.
Proof. vm_compute. reflexivity. Qed.

(* for EVERY errno (0 = success included) the one socket the attempt created is either closed
   exactly once and not watched, or not closed and handed to a channel that watches it: never
   leaked, never closed twice, never closed and watched *)
Lemma connect_fault_no_leak e :
  at_created (connect_attempt e) = 1%nat /\
  ((at_closes (connect_attempt e) = 1%nat /\ at_watched (connect_attempt e) = false) \/
   (at_closes (connect_attempt e) = 0%nat /\ at_watched (connect_attempt e) = true)).
Proof.
  split; [unfold connect_attempt; destruct (connect_group_of e connect_groups) as [[cg rt] cl]; reflexivity|].
  pose proof (proj1 (forallb_forall _ _) all_groups_ok _ (connect_group_in e connect_groups)) as H.
  unfold connect_attempt. destruct (connect_group_of e connect_groups) as [[cg rt] cl].
  cbn [at_closes at_watched]. unfold attempt_ok in H.
  apply orb_prop in H as [H|H]; apply andb_prop in H as [H1 H2]; apply Nat.eqb_eq in H1.
  - left. apply negb_true_iff in H2. auto.
  - right. auto.
Qed.

(* the listed transient connect faults: refused / unreachable close the socket and arm exactly one
   retry; in-progress (and an interrupted connect) is watched for writability, nothing closed *)
Lemma connect_listed_faults :
  connect_attempt errno_ECONNREFUSED = mkAttempt 1 1 false 1 /\
  connect_attempt errno_ENETUNREACH = mkAttempt 1 1 false 1 /\
  connect_attempt errno_EINPROGRESS = mkAttempt 1 0 true 0 /\
  connect_attempt errno_EINTR = mkAttempt 1 0 true 0 /\
  connect_attempt 0 = mkAttempt 1 0 true 0 /\
  sockets_connect_is_plain = true /\ connector_retry_all_closes = 1%nat.
Proof. vm_compute. repeat split; reflexivity. Qed.

(* ---- Acceptor: guards, one accept per dispatch, the idleFd_ protocol ---------------------------- *)
Lemma acceptor_guards :
  (forall fd, acceptor_ok_test (Z.of_nat fd) = true) /\ acceptor_ok_test (-1) = false /\
  (forall e, acceptor_emfile_test e = (e =? errno_EMFILE)) /\
  (forall b, acceptor_has_cb_test b = b) /\
  acceptor_handleRead_loops = 0%nat /\ acceptor_accepts_outside_valve = 1%nat /\
  acceptor_listen_then_enable = true /\ acceptor_dtor_closes_idle = true.
Proof.
  repeat split; try reflexivity.
  intros fd. unfold acceptor_ok_test. apply Z.geb_le. lia.
Qed.

(* the EMFILE branch of the current source, run statement by statement on a listener whose spare
   descriptor is valid: the spare descriptor is valid again, nothing is leaked, exactly one pending
   connection (if there is one) was taken and closed - and C11_Model.handleRead, which runs the same
   statements, therefore leaves the census and the spare descriptor as they were *)
Lemma valve_protocol_is_model a :
  dead a = false -> idle_ok a = true -> (0 < open_fds a)%nat ->
  let v := run_valve (mkValve IdleNull (pendq a) 0 0) acceptor_valve_protocol in
  v_idle v = IdleNull /\ v_leaked v = 0%nat /\ (v_pend v + v_closed v = pendq a)%nat /\ (v_closed v <= 1)%nat /\
  fst (handleRead a (AErr errno_EMFILE)) =
    mkAcc (v_pend v) true (handed a) (valved a + v_closed v) (open_fds a) false.
Proof.
  intros Hd Hi Ho. cbv zeta. rewrite valve_run_current. cbn [v_idle v_leaked v_pend v_closed].
  rewrite (handleRead_emfile a Hd Hi). cbn [fst].
  replace (open_fds a - 1 + 1)%nat with (open_fds a) by lia.
  repeat split; destruct (pendq a); cbn [pred Nat.min]; lia.
Qed.

Lemma connect_attempt_unfold : forall e,
  connect_attempt e =
  let '(cg, rt, cl) := connect_group_of e connect_groups in
  mkAttempt connect_creates_sockets
            (cl + rt * connector_retry_closes + cg * connector_connecting_closes)
            ((0 <? cg)%nat && connector_connecting_watches)
            rt.
Proof. reflexivity. Qed.

Lemma valve_step_unfold : forall v code,
  valve_step v code =
  let lost := match v_idle v with IdleClosed => 0%nat | _ => 1%nat end in
  if code =? 1 then
    mkValve IdleClosed (v_pend v) (match v_idle v with IdleConn => S (v_closed v) | _ => v_closed v end) (v_leaked v)
  else if code =? 2 then
    match v_pend v with
    | O => mkValve IdleClosed O (v_closed v) (v_leaked v + lost)
    | S n => mkValve IdleConn n (v_closed v) (v_leaked v + lost)
    end
  else if code =? 3 then mkValve IdleNull (v_pend v) (v_closed v) (v_leaked v + lost)
  else v.
Proof. reflexivity. Qed.
