(* C17_Tid: the per-thread tid cache of CurrentThread (C17_Model: tidc, cacheTid, tid_call, the
   atfork child handler interpreted from its regenerated statements, lineage).  Proved: for every
   history of forks and thread starts, every line a thread logs carries the "%5d " rendering of
   ITS OWN kernel thread id.  The handler enters through an abstract interpretation of its
   statement list (af_resets), evaluated on Gen_C17.afterFork_steps: a handler that sets
   t_cachedTid without re-rendering t_tidString, or is not registered, fails here. *)
From Coq Require Import List ZArith Lia Bool Arith NArith.
From Coq.Strings Require Import Byte.
From Muduo Require Import Base_Bytes Gen_Consts Gen_C17 C17_Model C17_Proofs.
Import ListNotations.
Local Open Scope Z_scope.

(* ---- PROOFS -------------------------------------------------------------------------------------- *)
Definition ktid_ok (k : Z) : Prop := 0 < k < 2 ^ 31.
Definition hop_ok (h : hop) : Prop := match h with HLog => True | HFork k | HSpawn k => ktid_ok k end.

Lemma tid_gen_side :
  (forall k, mini_printf tid_format [k] = tid_text k) /\ (12 < Z.to_nat tid_string_size)%nat /\
  cachedTid_init = 0 /\ atfork_child_registered = true /\ cacheTid_shape_ok = true /\ tid_shape_ok = true.
Proof.
  assert (P : parse_fmt tid_format = [PDec (Some x20) 5; PLit x20]) by (vm_compute; reflexivity).
  split; [intros k; unfold mini_printf; rewrite P; reflexivity|].
  split; [apply Nat.ltb_lt; vm_compute; reflexivity|]. repeat split; reflexivity.
Qed.

Lemma tid_text_length k : ktid_ok k -> (length (tid_text k) <= 12)%nat.
Proof.
  intros [H0 H1]. unfold tid_text, fmt_d, pad. rewrite !app_length, repeat_length. cbn [length].
  pose proof (convert_length k 10 ltac:(lia) ltac:(change (10 ^ Z.of_nat 10) with 10000000000; lia)) as L.
  destruct (Z.ltb_spec k 0); lia.
Qed.

(* the cache is empty, or holds this thread's kernel tid together with its rendering *)
Definition good (k : Z) (c : tidc) : Prop :=
  cachedTid c = 0 \/
  (cachedTid c = k /\ tidString c = tid_text k /\ tidStringLength c = Z.of_nat (length (tid_text k))).

Lemma cacheTid_zero k c : ktid_ok k -> cachedTid c = 0 ->
  cacheTid k c = mkTidc k (tid_text k) (Z.of_nat (length (tid_text k))).
Proof.
  intros Hk Hz. destruct tid_gen_side as [Hf [Hs _]]. unfold cacheTid. rewrite Hz. cbn [Z.eqb].
  rewrite Hf. f_equal. apply firstn_all2. pose proof (tid_text_length k Hk).
  set (n := Z.to_nat tid_string_size) in *. lia.
Qed.

Lemma tid_call_good k c : ktid_ok k -> good k c ->
  good k (tid_call k c) /\ cachedTid (tid_call k c) <> 0 /\
  firstn (Z.to_nat (tidStringLength (tid_call k c))) (tidString (tid_call k c)) = tid_text k.
Proof.
  intros Hk [Hz|[Hc [Hs Hl]]]; unfold tid_call.
  - rewrite Hz. cbn [Z.eqb]. rewrite cacheTid_zero by assumption. cbn [cachedTid tidString tidStringLength].
    split; [right; auto|]. split; [unfold ktid_ok in Hk; lia|]. rewrite Nat2Z.id. apply firstn_all.
  - destruct (Z.eqb_spec (cachedTid c) 0) as [E|E]; [unfold ktid_ok in Hk; lia|].
    split; [right; auto|]. split; [exact E|]. rewrite Hl, Hs, Nat2Z.id. apply firstn_all.
Qed.

(* abstract interpretation of the handler's steps: what is known about the cache afterwards *)
Inductive absc := AUnknown | AZero | AGood.
Definition abs_step (a : absc) (st : af_step) : absc :=
  match st with
  | AfZeroTid => AZero
  | AfSetTid => match a with AGood => AGood | _ => AUnknown end
  | AfCallTid | AfCacheTid => match a with AUnknown => AUnknown | _ => AGood end
  | AfOther => a
  end.
Definition af_resets (steps : list af_step) : bool :=
  match fold_left abs_step steps AUnknown with AUnknown => false | _ => true end.
Definition conc (k : Z) (a : absc) (c : tidc) : Prop :=
  match a with
  | AUnknown => True
  | AZero => cachedTid c = 0
  | AGood => cachedTid c = k /\ tidString c = tid_text k /\ tidStringLength c = Z.of_nat (length (tid_text k))
  end.

Lemma abs_step_sound k a c st : ktid_ok k -> conc k a c -> conc k (abs_step a st) (af_step_run k c st).
Proof.
  intros Hk H. destruct st; cbn [abs_step af_step_run].
  - reflexivity.
  - destruct a; cbn [conc] in *; auto. destruct H as [H1 [H2 H3]]. cbn [cachedTid tidString tidStringLength]. auto.
  - destruct a; cbn [conc] in *; auto.
    + unfold tid_call. rewrite H. cbn [Z.eqb]. rewrite cacheTid_zero by assumption. cbn. auto.
    + destruct H as [H1 [H2 H3]]. unfold tid_call. destruct (Z.eqb_spec (cachedTid c) 0); [unfold ktid_ok in Hk; lia|]. auto.
  - destruct a; cbn [conc] in *; auto.
    + rewrite cacheTid_zero by assumption. cbn. auto.
    + destruct H as [H1 [H2 H3]]. unfold cacheTid. destruct (Z.eqb_spec (cachedTid c) 0); [unfold ktid_ok in Hk; lia|]. auto.
  - exact H.
Qed.

Lemma fold_sound k steps : ktid_ok k -> forall a c, conc k a c ->
  conc k (fold_left abs_step steps a) (fold_left (af_step_run k) steps c).
Proof.
  intros Hk. induction steps as [|st r IH]; intros a c H; cbn [fold_left]; [exact H|].
  apply IH. apply abs_step_sound; assumption.
Qed.

Lemma after_fork_good k c : af_resets afterFork_steps = true -> ktid_ok k -> good k (after_fork k c).
Proof.
  intros Hr Hk. unfold af_resets in Hr. pose proof (fold_sound k afterFork_steps Hk AUnknown c I) as S.
  unfold after_fork. destruct (fold_left abs_step afterFork_steps AUnknown); [discriminate|left; exact S|right; exact S].
Qed.

(* the handler of the source resets the cache (closed by computation on the regenerated steps) *)
Lemma afterFork_resets : af_resets afterFork_steps = true.
Proof. vm_compute. reflexivity. Qed.

Lemma tidc0_good k : good k tidc0.
Proof. left. destruct tid_gen_side as [_ [_ [H _]]]. exact H. Qed.

(* every thread of every process, whatever its history of forks and thread starts: each line it
   logs carries the rendering of ITS OWN kernel thread id *)
Lemma lineage_true h : forall k c, ktid_ok k -> good k c -> Forall hop_ok h ->
  Forall (fun p => snd p = tid_text (fst p)) (lineage k c h).
Proof.
  induction h as [|x r IH]; intros k c Hk Hg Hh; cbn [lineage]; [constructor|].
  inversion Hh as [|? ? Hx Hr]; subst.
  destruct x as [|k'|k'].
  - destruct (tid_call_good k c Hk Hg) as [G [_ T]]. constructor; [exact T|]. apply IH; assumption.
  - cbn [hop_ok] in Hx. destruct tid_gen_side as [_ [_ [_ [Hreg _]]]]. rewrite Hreg.
    apply IH; [exact Hx| |exact Hr]. apply after_fork_good; [exact afterFork_resets|exact Hx].
  - cbn [hop_ok] in Hx. apply IH; [exact Hx|apply tidc0_good|exact Hr].
Qed.
