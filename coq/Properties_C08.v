(* Properties_C08: thread-safe API is free of data races; loop-confined API fails fast off-thread.
   What Coq carries is the DISCIPLINE (lockset / loop confinement / publication), not the C++ memory
   model: the theorems are about the abstract trace semantics of C08_Model.  The tie to /repo is
   (T) the access summaries regenerated from the clang AST on every run (Gen_C08.v) checked against the
   committed protection table by [discipline_ok] (closed by vm_compute below), and (C) the
   ThreadSanitizer / fail-fast scenario suite of bin/check C08 on the real classes. *)
From Coq Require Import List String ZArith Bool Arith Lia.
From Muduo Require Import C08_Model C08_Proofs Gen_C08.
Import ListNotations.
Open Scope list_scope.

(* In every well-formed trace (mutual exclusion, only the holder releases, threads live between spawn and
   join) in which each plain access respects the protection class of its location -
     LoopConfined L: performed by the owner thread of loop L;  Guarded m: with m held;
     Atomic: never accessed plainly;  ThreadLocal: one thread only;
     ImmutableAfterPublish: writes by the publisher before its hand-off, foreign accesses hb-after it -
   any two accesses to the same location by different threads, at least one a write, are ordered by
   happens-before (program order, release->acquire of the same mutex, enqueue->run of the same functor,
   spawn/join, atomic store->load).  For ALL traces. *)
Theorem C08_discipline_sound : forall cls owner tr,
  wf_trace tr -> respects cls owner tr ->
  forall i j ti tj l ki kj, i < j ->
    nth_error tr i = Some (EAcc ti l ki) -> nth_error tr j = Some (EAcc tj l kj) ->
    ti <> tj -> (ki = W \/ kj = W) -> hb tr i j.
Proof. exact discipline_sound. Qed.
Print Assumptions C08_discipline_sound.

Theorem C08_discipline_no_race : forall cls owner tr,
  wf_trace tr -> respects cls owner tr ->
  forall i j, conflicting tr i j -> hb tr i j \/ hb tr j i.
Proof. exact discipline_no_race. Qed.
Print Assumptions C08_discipline_no_race.

(* The same with "m held" replaced by what a MutexLockGuard scope gives thread-locally: the access lies
   between the thread's own acquire of m and its next release of m. *)
Theorem C08_scoped_discipline_sound : forall cls owner tr,
  wf_trace tr -> locally_disciplined cls owner tr ->
  forall i j, conflicting tr i j -> hb tr i j \/ hb tr j i.
Proof. exact scoped_discipline_sound. Qed.
Print Assumptions C08_scoped_discipline_sound.

(* lock history facts the proof rests on *)
Theorem C08_holder_acquired_and_held_since : forall tr m u n, locks_after tr n m = Some u ->
  exists b, b < n /\ nth_error tr b = Some (EAcq u m) /\ forall x, b < x <= n -> locks_after tr x m = Some u.
Proof. exact held_since. Qed.
Print Assumptions C08_holder_acquired_and_held_since.

(* the hand-offs that publish: queueInLoop -> doPendingFunctors, thread start, a mutex-guarded queue *)
Theorem C08_publish_by_enqueue : forall tr p q r j t0 u l f e,
  nth_error tr p = Some (EPublish t0 l) -> nth_error tr q = Some (EEnq t0 f) -> p < q ->
  nth_error tr r = Some (ERun u f) -> q < r ->
  nth_error tr j = Some e -> thread_of e = u -> r < j -> hb tr p j.
Proof. exact publish_by_enqueue. Qed.
Print Assumptions C08_publish_by_enqueue.

Theorem C08_publish_by_spawn : forall tr p q j t0 u l e,
  nth_error tr p = Some (EPublish t0 l) -> nth_error tr q = Some (ESpawn t0 u) -> p < q ->
  nth_error tr j = Some e -> thread_of e = u -> q < j -> hb tr p j.
Proof. exact publish_by_spawn. Qed.
Print Assumptions C08_publish_by_spawn.

Theorem C08_publish_by_mutex : forall tr p q r j t0 u l m e,
  nth_error tr p = Some (EPublish t0 l) -> nth_error tr q = Some (ERel t0 m) -> p < q ->
  nth_error tr r = Some (EAcq u m) -> q < r ->
  nth_error tr j = Some e -> thread_of e = u -> r < j -> hb tr p j.
Proof. exact publish_by_mutex. Qed.
Print Assumptions C08_publish_by_mutex.

(* A method whose first action is assertInLoopThread aborts on every call from a thread other than the
   owner before doing anything else - in particular before touching any field. *)
Theorem C08_confined_fail_fast : forall owner t L rest,
  t <> owner L ->
  run_body owner t (ACheck L :: rest) = [EAbort t] /\
  forall t' l k, ~ In (EAcc t' l k) (run_body owner t (ACheck L :: rest)).
Proof. intros; split; [now apply confined_fail_fast | intros; now apply confined_fail_fast_no_access]. Qed.
Print Assumptions C08_confined_fail_fast.

(* ... and whatever it does to a field, it does on the owner loop's thread. *)
Theorem C08_checked_body_on_owner : forall owner t L rest t' l k,
  In (EAcc t' l k) (run_body owner t (ACheck L :: rest)) -> t' = owner L.
Proof. exact checked_body_on_owner. Qed.
Print Assumptions C08_checked_body_on_owner.

(* Soundness of the static per-access judgement: if [access_ok] accepts a summarised access (class of the
   member from the table, context and lock set from the AST), the event block the access stands for is
   locally disciplined - confined: only the owner thread ever performs it (a foreign thread aborts first);
   guarded m: it sits inside the thread's own acquire/release bracket of m. *)
Theorem C08_static_access_sound : forall (mu : string -> mutex) (lo : string -> loc) owner L t d pc ctx locks f k,
  (ctx = XLoop \/ ctx = XAny) ->
  access_ok d pc ctx locks k = true ->
  let evs := run_body owner t (emit_access L ctx (map mu locks) (lo f) k) in
  match pc with
  | PLoopConfined => forall t' l' k', In (EAcc t' l' k') evs -> t' = owner L
  | PGuarded m => evs = [EAbort t] \/
                  exists pre mid post, evs = pre ++ EAcq t (mu m) :: mid ++ EAcc t (lo f) k :: post /\ ~ In (ERel t (mu m)) mid
  | PImmutable => k = R
  | PAtomic => exists dd, d = Some dd /\ fd_atomic dd = true
  | PThreadLocal => exists dd, d = Some dd /\ fd_tls dd = true
  | PSync => True
  end.
Proof. exact static_access_sound. Qed.
Print Assumptions C08_static_access_sound.

Theorem C08_checked_summaries_sound : forall T S wv, discipline_ok S T wv = true ->
  forall e, In e (all_eff T S) -> (e_ctx e = XLoop \/ e_ctx e = XAny) ->
    (exists w, In w wv /\ v_class w = e_class e /\ v_what w = a_field (e_acc e)) \/
    (exists pc, class_of T (e_class e) (a_field (e_acc e)) = Some pc /\
                access_ok (decl_of (t_decls T) (e_class e) (a_field (e_acc e))) pc (e_ctx e) (e_locks e) (a_kind (e_acc e)) = true).
Proof. exact checked_summaries_sound. Qed.
Print Assumptions C08_checked_summaries_sound.

(* THE generated-fact obligation: on the summaries regenerated from /repo's current sources, every violation of
   the committed table is one of the recorded findings (table_waivers = F-11/F-4, findings/C08.md).
   "partial": the full statement - no violation at all - is false on the pinned tree because of those flags. *)
Theorem C08_pinned_summaries_disciplined_partial : discipline_ok summaries table table_waivers = true.
Proof. vm_compute. reflexivity. Qed.
Print Assumptions C08_pinned_summaries_disciplined_partial.

(* The generated-fact obligations cover what the property text names.  Any-thread operations: each has the contract
   `any` in the committed table and a summary extracted from the current sources, i.e. it is a root of the analysis
   (TcpServer::start is documented thread-safe but fails fast off-thread - F-12 - and is listed with the confined
   operations of the fail-fast suite instead; BlockingQueue/BoundedBlockingQueue are header templates, summarised
   from the instantiation harness/C08_templates.cc; the LOG_* macros are Logger's constructor/destructor). *)
Theorem C08_named_anythread_ops_covered :
  forallb (anythread_op_covered table summaries) named_anythread_ops = true.
Proof. vm_compute. reflexivity. Qed.
Print Assumptions C08_named_anythread_ops_covered.

(* Confined operations: loop(), updateChannel/removeChannel, pool start / getNextLoop / getLoopForHash,
   connectEstablished / connectDestroyed have `assertInLoopThread()` as their first statement in the current sources
   (no waiver) - so by C08_confined_fail_fast a call from any thread but the owner ends in abort before any member is
   touched.  The forked children of bin/check C08 (one per operation) observe the SIGABRT. *)
Theorem C08_named_confined_ops_fail_fast :
  forallb (confined_op_failfast table summaries table_waivers) named_confined_ops = true.
Proof. vm_compute. reflexivity. Qed.
Print Assumptions C08_named_confined_ops_fail_fast.

Theorem C08_failfast_checked : forall T S wv, discipline_ok S T wv = true ->
  forall m, In m S -> contract_of T (m_class m) (m_name m) = Some (CLoop FFDirect) ->
    m_check_first m = true \/
    exists w, In w wv /\ v_class w = m_class m /\ v_site w = m_name m /\ v_kind w = "nofailfast"%string.
Proof. exact failfast_checked. Qed.
Print Assumptions C08_failfast_checked.

(* Teardown.  A destructor that joined the object's thread is ordered after everything that thread did (this is what
   the `teardown` contract of the table rests on) ... *)
Theorem C08_teardown_after_join : forall tr q t u i j a b,
  wf_trace tr -> nth_error tr q = Some (EJoin t u) ->
  nth_error tr i = Some a -> thread_of a = u ->
  nth_error tr j = Some b -> thread_of b = t -> q < j ->
  hb tr i j.
Proof. exact teardown_after_join. Qed.
Print Assumptions C08_teardown_after_join.

(* ... and one that did not is not: the object's thread updates a mutex's bookkeeping inside its last critical
   section, the destructor destroys the mutex without join and without the lock - a well-formed trace with a
   conflicting pair unordered by happens-before (~EventLoopThread after its unlocked read of loop_ returned NULL). *)
Theorem C08_teardown_without_join_refuted :
  exists tr i j, wf_trace tr /\ conflicting tr i j /\ ~ hb tr i j /\ ~ hb tr j i /\
                 (forall q t u, nth_error tr q <> Some (EJoin t u)).
Proof. exact teardown_without_join_races. Qed.
Print Assumptions C08_teardown_without_join_refuted.

(* the static teardown rule is part of the obligation: a synchronisation member destroyed while the object's thread
   may still use it is a recorded finding *)
Theorem C08_teardown_checked : forall T S wv, discipline_ok S T wv = true ->
  forall m d f ln, In m S -> m_dtor m = Some d -> In (f, ln) (d_destroys d) ->
    mem f (unjoined_uses (thread_roots T S (m_class m)) (d_paths d)) = true ->
    exists w, In w wv /\ v_class w = m_class m /\ v_site w = m_name m /\ v_what w = f /\ v_kind w = "destroy"%string.
Proof. exact teardown_checked. Qed.
Print Assumptions C08_teardown_checked.

(* The teardown rule is path-sensitive over the destructor's paths (its calls on `this` inlined): a destructor all of whose
   paths execute join() exposes nothing; a path that skips join() on the strength of a member the thread itself writes
   exposes what the thread still uses after that write. *)
Theorem C08_all_paths_joined_safe : forall thr paths,
  forallb (fun p => fst p) paths = true -> unjoined_uses thr paths = [].
Proof. exact all_paths_joined_safe. Qed.
Print Assumptions C08_all_paths_joined_safe.

Theorem C08_skipped_path_exposes_tail : forall thr paths gs g t x,
  In (false, gs) paths -> gs <> [] -> In g gs -> thread_writes thr g = true -> In t thr -> In x (tail_after t g) ->
  mem x (unjoined_uses thr paths) = true.
Proof. exact skipped_path_exposes_tail. Qed.
Print Assumptions C08_skipped_path_exposes_tail.

(* Use after release (F-4).  An atomic exit flag orders what precedes its store before the owner's teardown - not what
   follows it: the caller of quit() stores the flag (hb-before the owner's destruction of the object: hb tr 0 2) and then
   still uses the object; that use and the destruction are a conflicting pair unordered by happens-before. *)
Theorem C08_use_after_release_refuted :
  exists tr i j, wf_trace tr /\ conflicting tr i j /\ ~ hb tr i j /\ ~ hb tr j i /\ hb tr 0 2.
Proof. exact use_after_release_races. Qed.
Print Assumptions C08_use_after_release_refuted.

(* the static rule is part of the obligation: whatever an any-thread method uses after storing an exit flag of its class
   (lib/C08_table.txt: exitflag EventLoop quit_) is a recorded finding *)
Theorem C08_useafter_checked : forall T S wv, discipline_ok S T wv = true ->
  forall m g f, In m S -> contract_of T (m_class m) (m_name m) = Some CAny ->
    In (m_class m, g) (t_exitflags T) -> In f (assoc_tail g (m_tails m)) ->
    exists w, In w wv /\ v_class w = m_class m /\ v_site w = m_name m /\ v_what w = f /\ v_kind w = "useafter"%string.
Proof. exact useafter_checked. Qed.
Print Assumptions C08_useafter_checked.

(* Borrowed captures.  The enqueue of a functor orders what the poster did BEFORE it ahead of the functor's run
   (C08_publish_by_enqueue: an owned copy is safe; here hb tr 0 3) - not what the poster does after the post returns:
   rewriting / freeing memory the functor only borrowed (a StringPiece's bytes, a raw pointer, the raw `this`) and the
   functor's read are a conflicting pair unordered by happens-before. *)
Theorem C08_borrowed_after_post_refuted :
  exists tr i j, wf_trace tr /\ conflicting tr i j /\ ~ hb tr i j /\ ~ hb tr j i /\ hb tr 0 3.
Proof. exact borrowed_after_post_races. Qed.
Print Assumptions C08_borrowed_after_post_refuted.

(* the static rule is part of the obligation: on its cross-thread branch a root method binds only owned copies into the
   functors it posts (no StringPiece / raw pointer / std::ref; no raw `this` of a shared_ptr-managed class unless the
   table justifies it) - or that is a recorded finding *)
Theorem C08_borrow_checked : forall T S wv, discipline_ok S T wv = true ->
  forall m k pa kind, In m S -> contract_of T (m_class m) (m_name m) = Some k ->
    In pa (m_postargs m) -> borrow_kind T (m_class m) (m_name m) pa (ctx_of_contract k) = Some kind ->
    exists w, In w wv /\ v_class w = m_class m /\ v_site w = m_name m /\ v_what w = pa_callee pa /\ v_kind w = kind.
Proof. exact borrow_checked. Qed.
Print Assumptions C08_borrow_checked.

(* Registered callbacks: a callback set on an object whose lifetime is a shared_ptr reference count (it can outlive the
   registering object and fires on its own loop thread) must not capture the registering object's raw `this` - or that is a
   recorded finding / a justified table entry. *)
Theorem C08_callback_checked : forall T S wv, discipline_ok S T wv = true ->
  forall m ra, In m S -> In ra (m_regargs m) -> mem (ra_target ra) (t_shared T) = true ->
    lookup3 (m_class m) (m_name m) (ra_callee ra) (t_lifetime_ok T) = false ->
    (seqb (ra_kind ra) "this" || seqb (ra_kind ra) "member") = true ->
    exists w, In w wv /\ v_class w = m_class m /\ v_site w = m_name m /\ v_what w = ra_callee ra /\
              v_kind w = "rawthis-callback"%string.
Proof. exact callback_checked. Qed.
Print Assumptions C08_callback_checked.

(* Static storage.  A variable with static storage duration is ONE location shared by all objects and all threads:
   if the class given to that one location is respected, accesses made through different objects by different threads are
   ordered (C08_static_storage_sound, for all traces); treating it like a per-object member - "confined to the loop of the
   object it is reached through" - allows a race (C08_static_per_object_confinement_refuted: Buffer::readFd's extrabuf or
   AppendFile's buffer made static). *)
Theorem C08_static_storage_sound : forall cls owner tr addr v,
  wf_trace tr -> respects cls owner tr -> shared_static addr v ->
  forall o1 o2 i j ti tj ki kj, i < j ->
    nth_error tr i = Some (EAcc ti (addr o1 v) ki) -> nth_error tr j = Some (EAcc tj (addr o2 v) kj) ->
    ti <> tj -> (ki = W \/ kj = W) -> hb tr i j.
Proof. exact static_storage_sound. Qed.
Print Assumptions C08_static_storage_sound.

Theorem C08_static_per_object_confinement_refuted :
  exists (tr : trace) (addr : nat -> nat -> loc) (owner_of_obj : nat -> tid) v i j,
    shared_static addr v /\ wf_trace tr /\
    nth_error tr i = Some (EAcc (owner_of_obj 1) (addr 1 v) W) /\
    nth_error tr j = Some (EAcc (owner_of_obj 2) (addr 2 v) W) /\
    conflicting tr i j /\ ~ hb tr i j /\ ~ hb tr j i.
Proof. exact static_per_object_confinement_races. Qed.
Print Assumptions C08_static_per_object_confinement_refuted.

(* THE generated-fact obligation for static storage: every object the compiler places in a writable data section of
   muduo/base, muduo/net, muduo/net/poller (inventory regenerated from the ELF symbol tables of the current sources) has a
   class in the committed table and lives up to it - a new static variable fails this until someone classifies it. *)
Theorem C08_static_storage_checked : static_violations table = [].
Proof. vm_compute. reflexivity. Qed.
Print Assumptions C08_static_storage_checked.

Theorem C08_static_checked : forall T S wv, discipline_ok S T wv = true ->
  forall sv, In sv (t_statics T) ->
    (exists c, lookup1 (sv_name sv) (t_static_classes T) = Some c /\ static_ok sv c = true) \/
    (exists w, In w wv /\ v_class w = "static"%string /\ v_what w = sv_name sv).
Proof. exact static_checked. Qed.
Print Assumptions C08_static_checked.

Example C08_ex_static_inventory_nontrivial : Nat.leb 20 (List.length static_inventory) = true.
Proof. vm_compute. reflexivity. Qed.

(* every recorded finding is still present (a waiver that no longer matches anything must be removed) - NOT a theorem:
   a repaired tree must not raise an alarm; bin/check reports stale waivers as a note. *)

(* The recorded flag pattern is a race in the model: without a protection class there is a well-formed trace
   with two conflicting accesses unordered by happens-before (foreign read of state_, loop-thread write). *)
Theorem C08_unsynchronised_flag_refuted :
  exists tr i j, wf_trace tr /\ conflicting tr i j /\ ~ hb tr i j /\ ~ hb tr j i.
Proof. exact f11_races. Qed.
Print Assumptions C08_unsynchronised_flag_refuted.

(* ---- non-vacuity *)
Example C08_ex_guarded_trace_is_wf_and_respects :
  wf_trace ex_guarded /\ respects ex_cls ex_owner ex_guarded /\ conflicting ex_guarded 1 4.
Proof. exact ex_guarded_ok. Qed.

Example C08_ex_summaries_nontrivial :
  Nat.leb 300 (List.length (all_eff table summaries)) && Nat.leb 100 (List.length summaries)
  && Nat.leb 10 (List.length table_waivers) = true.
Proof. vm_compute. reflexivity. Qed.

Example C08_ex_fail_fast_owner_proceeds :
  run_body (fun _ => 7) 7 [ACheck 0; AAccess 3 W] = [EAcc 7 3 W] /\
  run_body (fun _ => 7) 8 [ACheck 0; AAccess 3 W] = [EAbort 8].
Proof. split; reflexivity. Qed.
