(* Conn_GenTie: the write path of TcpConnection.cc as it stands in /repo NOW, tied to Conn_Model.
   Gen_Conn.v is regenerated on every run from the clang AST of the current source: every guard
   expression (if-conditions) of sendInLoop / handleWrite / shutdownInLoop, the integer argument
   expressions the streams depend on (remaining = len - nwrote, append(data+nwrote, remaining),
   retrieve(n), the size given to the high-water callback) and a few structure facts.
   This file
     (1) proves each generated guard equal to the test Conn_Model performs, under the embedding of
         the model's nat / N / cstate / errno into the C++ integers (tie_* lemmas);
     (2) re-assembles sendInLoop, handleWrite and shutdownInLoop FROM THE GENERATED PIECES,
         following the control flow of the C++ text ([sendInLoop_src] etc.), and proves them equal
         to the model functions for all states, blocks and kernel answers ([*_is_source]).
   Flipping a comparison, dropping a conjunct, testing another state constant, changing
   retrieve(n) or the append offset in the source changes Gen_Conn.v and breaks (1)/(2) directly.
   Companion files: Conn_GenTieLife.v (send / shutdown / forceClose / destroy), Conn_GenTieRead.v
   (handleRead, startRead / stopRead). *)
From Coq Require Import List ZArith Lia Bool Arith NArith.
From Coq Require Import ZifyBool ZifyNat ZifyN.
From Coq.Strings Require Import Byte.
From Muduo Require Import Gen_Consts Gen_Conn Gen_C11 Conn_Model.
Import ListNotations.

Arguments Nat.min : simpl never.

Definition st_code (s : cstate) : Z :=
  match s with
  | Disconnected => TcpConnection_kDisconnected
  | Connecting => TcpConnection_kConnecting
  | Connected => TcpConnection_kConnected
  | Disconnecting => TcpConnection_kDisconnecting
  end.

Lemma st_code_inj a b : st_code a = st_code b -> a = b.
Proof. destruct a, b; vm_compute; intros H; try reflexivity; discriminate. Qed.

Lemma st_code_eqb a b : Z.eqb (st_code a) (st_code b) = cstate_eqb a b.
Proof. destruct a, b; vm_compute; reflexivity. Qed.

Definition errno_code (e : errno) : Z :=
  match e with
  | EAGAIN => errno_EAGAIN | EINTR => errno_EINTR | EPIPE => errno_EPIPE
  | ECONNRESET => errno_ECONNRESET | EOTHER => errno_ENOBUFS
  end.

(* ---- sendInLoop: guard by guard ---------------------------------------------------------- *)
Lemma tie_state_test c :
  sendInLoop_state_test TcpConnection_kDisconnected (st_code (st c)) = cstate_eqb (st c) Disconnected.
Proof. unfold sendInLoop_state_test. apply (st_code_eqb (st c) Disconnected). Qed.

Lemma tie_direct_test c :
  sendInLoop_direct_test (writing c) (Z.of_nat (length (outb c))) =
  (negb (writing c) && (length (outb c) =? 0))%bool.
Proof.
  unfold sendInLoop_direct_test. f_equal.
  destruct (Nat.eqb_spec (length (outb c)) 0) as [E|E]; [rewrite E; reflexivity|].
  apply Z.eqb_neq. lia.
Qed.

Lemma tie_write_ok_test_ok n : sendInLoop_write_ok_test (Z.of_nat n) = true.
Proof. unfold sendInLoop_write_ok_test. apply Z.geb_le. lia. Qed.

Lemma tie_write_ok_test_err : sendInLoop_write_ok_test (-1) = false.
Proof. reflexivity. Qed.

(* the kernel's answer as the C++ sees it: nwrote >= 0 with remaining = len - nwrote, or -1/errno *)
Lemma tie_wc_test (has : bool) (len nwrote : nat) : nwrote <= len ->
  sendInLoop_wc_test has (Z.of_nat (len - nwrote)) = ((len - nwrote =? 0) && has)%bool.
Proof.
  intros H. unfold sendInLoop_wc_test. f_equal.
  destruct (Nat.eqb_spec (len - nwrote) 0) as [E|E]; [rewrite E; reflexivity|].
  apply Z.eqb_neq. lia.
Qed.

Lemma tie_fatal_test e : sendInLoop_fatal_test (errno_code e) = is_fatal e.
Proof. destruct e; vm_compute; reflexivity. Qed.

(* EWOULDBLOCK is the one error that is not even logged *)
Lemma tie_wouldblock e : sendInLoop_not_wouldblock_test (errno_code e) = match e with EAGAIN => false | _ => true end.
Proof. destruct e; vm_compute; reflexivity. Qed.

(* a fatal errno is never EWOULDBLOCK, so nesting the fatal test inside the logging test loses nothing *)
Lemma tie_fatal_nested e :
  (sendInLoop_not_wouldblock_test (errno_code e) && sendInLoop_fatal_test (errno_code e))%bool = is_fatal e.
Proof. destruct e; vm_compute; reflexivity. Qed.

Lemma tie_queue_test (fatal : bool) (remaining : nat) :
  sendInLoop_queue_test fatal (Z.of_nat remaining) = (negb fatal && (0 <? remaining))%bool.
Proof.
  unfold sendInLoop_queue_test. f_equal.
  destruct (Nat.ltb_spec 0 remaining) as [E|E].
  - apply Z.gtb_lt. lia.
  - assert (remaining = 0) by lia. subst. reflexivity.
Qed.

(* the upward-crossing test, C13's anchor *)
Definition model_hwm_test (mark : N) (old remaining : nat) (has : bool) : bool :=
  ((mark <=? N.of_nat (old + remaining))%N && (N.of_nat old <? mark)%N && has)%bool.

Lemma tie_hwm_test mark old remaining has :
  sendInLoop_hwm_test has (Z.of_N mark) (Z.of_nat old) (Z.of_nat remaining) =
  model_hwm_test mark old remaining has.
Proof.
  unfold sendInLoop_hwm_test, model_hwm_test. f_equal. f_equal.
  - destruct (N.leb_spec mark (N.of_nat (old + remaining))) as [E|E].
    + apply Z.geb_le. lia.
    + rewrite Z.geb_leb. apply Z.leb_gt. lia.
  - destruct (N.ltb_spec (N.of_nat old) mark) as [E|E].
    + apply Z.ltb_lt. lia.
    + apply Z.ltb_ge. lia.
Qed.

Lemma tie_enable_test c : sendInLoop_enable_test (writing c) = negb (writing c).
Proof. reflexivity. Qed.

(* the argument expressions *)
Lemma tie_remaining_expr (len nwrote : nat) : nwrote <= len ->
  sendInLoop_remaining_expr (Z.of_nat len) (Z.of_nat nwrote) = Z.of_nat (len - nwrote).
Proof. intros H. unfold sendInLoop_remaining_expr. lia. Qed.

Lemma tie_append_from (nwrote : Z) : sendInLoop_append_from 0 nwrote = nwrote.
Proof. unfold sendInLoop_append_from. lia. Qed.

Lemma tie_append_len (remaining : Z) : sendInLoop_append_len remaining = remaining.
Proof. reflexivity. Qed.

Lemma tie_hwm_arg (old remaining : nat) :
  Z.to_nat (sendInLoop_hwm_arg (Z.of_nat old) (Z.of_nat remaining)) = old + remaining.
Proof. unfold sendInLoop_hwm_arg. lia. Qed.

Lemma tie_write_len (len : Z) : sendInLoop_write_len len = len.
Proof. reflexivity. Qed.

Lemma tie_error_resets_nwrote : sendInLoop_error_resets_nwrote = true.
Proof. reflexivity. Qed.

(* the model's sendInLoop queues FHighWater exactly under model_hwm_test (and the queue test) *)
Lemma sendInLoop_uses_hwm_test c d k :
  cstate_eqb (st c) Disconnected = false ->
  let direct := (negb (writing c) && (length (outb c) =? 0))%bool in
  let '(nwrote, fatal, wrote_ok) :=
    if direct then
      match effective c k with
      | Err e => (0, is_fatal e, false)
      | k' => (match taken k' (length d) with Some n => n | None => 0 end, false, true)
      end
    else (0, false, false) in
  let remaining := length d - nwrote in
  let p1 := if (wrote_ok && (remaining =? 0) && has_wc c)%bool then pending c ++ [FWriteComplete] else pending c in
  pending (fst (sendInLoop c d k)) =
  if (negb fatal && (0 <? remaining) && model_hwm_test (hwm c) (length (outb c)) remaining (has_hwm c))%bool
  then p1 ++ [FHighWater (length (outb c) + remaining)] else p1.
Proof.
  intros Hs. unfold sendInLoop, model_hwm_test. rewrite Hs.
  destruct (negb (writing c) && (length (outb c) =? 0))%bool.
  - destruct (effective c k) as [n| |e]; cbn [fst pending]; rewrite ?andb_assoc; reflexivity.
  - cbn [fst pending]. rewrite ?andb_assoc. reflexivity.
Qed.

(* ---- sendInLoop re-assembled from the generated pieces ----------------------------------- *)
(* what sockets::write returns for a scripted kernel answer: (return value, errno) *)
Definition write_result (k : kres) (len : nat) : Z * Z :=
  match k with
  | Accept n => (Z.of_nat (Nat.min n len), 0%Z)
  | AcceptAll => (Z.of_nat len, 0%Z)
  | Err e => ((-1)%Z, errno_code e)
  end.

(* TcpConnection::sendInLoop(const void* data, size_t len), statement by statement:
     ssize_t nwrote = 0; size_t remaining = len; bool faultError = false;
     if (state_ == kDisconnected) { LOG_WARN; return; }
     if (!isWriting() && readableBytes() == 0) {
       nwrote = write(fd, data, len);
       if (nwrote >= 0) { remaining = len - nwrote; if (remaining == 0 && wc_) queue(wc_); }
       else { nwrote = 0; if (errno != EWOULDBLOCK) { LOG_SYSERR; if (errno == EPIPE || errno == ECONNRESET) faultError = true; } } }
     if (!faultError && remaining > 0) {
       oldLen = readableBytes();
       if (oldLen + remaining >= mark && oldLen < mark && hw_) queue(hw_, oldLen + remaining);
       append(data + nwrote, remaining); if (!isWriting()) enableWriting(); } *)
Definition sendInLoop_src (c : conn) (d : list byte) (k : kres) : conn * list event :=
  if sendInLoop_state_test TcpConnection_kDisconnected (st_code (st c)) then (c, [EvGiveUp]) else
  let len := Z.of_nat (length d) in
  let old := Z.of_nat (length (outb c)) in
  let '(nwrote, remaining, faultError, p1, evs) :=
    if sendInLoop_direct_test (writing c) old then
      let '(ret, err) := write_result (effective c k) (Z.to_nat (sendInLoop_write_len len)) in
      if sendInLoop_write_ok_test ret then
        let rem := sendInLoop_remaining_expr len ret in
        (ret, rem, false,
         if sendInLoop_wc_test (has_wc c) rem then pending c ++ [FWriteComplete] else pending c,
         @nil event)
      else
        ((if sendInLoop_error_resets_nwrote then 0 else ret)%Z, len,
         (sendInLoop_not_wouldblock_test err && sendInLoop_fatal_test err)%bool,
         pending c,
         if sendInLoop_not_wouldblock_test err then [EvErrorLogged] else [])
    else (0%Z, len, false, pending c, []) in
  let wire' := wire c ++ firstn (Z.to_nat nwrote) d in
  let acc' := if faultError then accepted c else accepted c ++ d in
  if sendInLoop_queue_test faultError remaining then
    let p2 := if sendInLoop_hwm_test (has_hwm c) (Z.of_N (hwm c)) old remaining
              then p1 ++ [FHighWater (Z.to_nat (sendInLoop_hwm_arg old remaining))] else p1 in
    (mkConn (st c)
            (outb c ++ firstn (Z.to_nat (sendInLoop_append_len remaining))
                              (skipn (Z.to_nat (sendInLoop_append_from 0 nwrote)) d))
            (inb c)
            (if sendInLoop_enable_test (writing c) then true else writing c)
            (rd_chan c) (rd_flag c) (registered c) (hwm c) (has_wc c) (has_hwm c)
            wire' (fin c) p2 (chk c) (delayed c) acc'
            (consumed c) (delivered c) (enq c) (ran c) (ups c) (downs c), evs)
  else
    (mkConn (st c) (outb c) (inb c) (writing c)
            (rd_chan c) (rd_flag c) (registered c) (hwm c) (has_wc c) (has_hwm c)
            wire' (fin c) p1 (chk c) (delayed c) acc'
            (consumed c) (delivered c) (enq c) (ran c) (ups c) (downs c), evs).

Lemma firstn_rest {A} (l : list A) n : n <= length l -> firstn (length l - n) (skipn n l) = skipn n l.
Proof. intros H. apply firstn_all2. rewrite skipn_length. lia. Qed.

Lemma if_negb_true (b : bool) : (if negb b then true else b) = true.
Proof. destruct b; reflexivity. Qed.

(* the tail of sendInLoop (everything after the direct-write block), model side, for a block of
   which [nw] bytes were written: shared by the three cases of the proof below *)
Lemma sendInLoop_src_tail c (d : list byte) (nw : nat) (fatal : bool) (p1 : list functor) (evs : list event) : nw <= length d ->
  (let remaining := Z.of_nat (length d - nw) in
   let old := Z.of_nat (length (outb c)) in
   let wire' := wire c ++ firstn (Z.to_nat (Z.of_nat nw)) d in
   let acc' := if fatal then accepted c else accepted c ++ d in
   if sendInLoop_queue_test fatal remaining then
     let p2 := if sendInLoop_hwm_test (has_hwm c) (Z.of_N (hwm c)) old remaining
               then p1 ++ [FHighWater (Z.to_nat (sendInLoop_hwm_arg old remaining))] else p1 in
     (mkConn (st c)
             (outb c ++ firstn (Z.to_nat (sendInLoop_append_len remaining))
                               (skipn (Z.to_nat (sendInLoop_append_from 0 (Z.of_nat nw))) d))
             (inb c)
             (if sendInLoop_enable_test (writing c) then true else writing c)
             (rd_chan c) (rd_flag c) (registered c) (hwm c) (has_wc c) (has_hwm c)
             wire' (fin c) p2 (chk c) (delayed c) acc'
             (consumed c) (delivered c) (enq c) (ran c) (ups c) (downs c), evs)
   else
     (mkConn (st c) (outb c) (inb c) (writing c)
             (rd_chan c) (rd_flag c) (registered c) (hwm c) (has_wc c) (has_hwm c)
             wire' (fin c) p1 (chk c) (delayed c) acc'
             (consumed c) (delivered c) (enq c) (ran c) (ups c) (downs c), evs)) =
  (let remaining := length d - nw in
   let queue := (negb fatal && (0 <? remaining))%bool in
   let old := length (outb c) in
   let p2 := if (queue && (hwm c <=? N.of_nat (old + remaining))%N && (N.of_nat old <? hwm c)%N && has_hwm c)%bool
             then p1 ++ [FHighWater (old + remaining)] else p1 in
   (mkConn (st c)
           (if queue then outb c ++ skipn nw d else outb c)
           (inb c)
           (if queue then true else writing c)
           (rd_chan c) (rd_flag c) (registered c) (hwm c) (has_wc c) (has_hwm c)
           (wire c ++ firstn nw d) (fin c) p2 (chk c) (delayed c)
           (if fatal then accepted c else accepted c ++ d)
           (consumed c) (delivered c) (enq c) (ran c) (ups c) (downs c), evs)).
Proof.
  intros Hle. cbv zeta.
  rewrite tie_queue_test, tie_hwm_test, tie_hwm_arg, tie_append_len, tie_append_from, !Nat2Z.id.
  unfold model_hwm_test.
  destruct (negb fatal && (0 <? length d - nw))%bool eqn:Eq; cbn [andb].
  - rewrite tie_enable_test, if_negb_true, firstn_rest by exact Hle. reflexivity.
  - reflexivity.
Qed.

Theorem sendInLoop_is_source : forall c d k, sendInLoop_src c d k = sendInLoop c d k.
Proof.
  intros c d k. unfold sendInLoop_src, sendInLoop.
  rewrite tie_state_test. destruct (cstate_eqb (st c) Disconnected); [reflexivity|].
  rewrite tie_direct_test, tie_write_len, Nat2Z.id.
  destruct (negb (writing c) && (length (outb c) =? 0))%bool.
  - destruct (effective c k) as [n| |e]; cbn [write_result taken].
    + (* Accept n *)
      rewrite tie_write_ok_test_ok.
      assert (Hle : Nat.min n (length d) <= length d) by lia.
      rewrite (tie_remaining_expr _ _ Hle), (tie_wc_test _ _ _ Hle).
      rewrite (sendInLoop_src_tail c d (Nat.min n (length d)) false _ [] Hle).
      cbv zeta. cbn [andb negb]. reflexivity.
    + (* AcceptAll *)
      rewrite tie_write_ok_test_ok.
      assert (Hle : length d <= length d) by lia.
      rewrite (tie_remaining_expr _ _ Hle), (tie_wc_test _ _ _ Hle).
      rewrite (sendInLoop_src_tail c d (length d) false _ [] Hle).
      cbv zeta. cbn [andb negb]. reflexivity.
    + (* Err e *)
      rewrite tie_write_ok_test_err, tie_error_resets_nwrote, tie_fatal_nested, tie_wouldblock.
      assert (Hle : 0 <= length d) by lia.
      change 0%Z with (Z.of_nat 0).
      replace (Z.of_nat (length d)) with (Z.of_nat (length d - 0)) by (f_equal; lia).
      rewrite (sendInLoop_src_tail c d 0 (is_fatal e) _ _ Hle).
      cbv zeta. cbn [andb negb]. destruct e; reflexivity.
  - assert (Hle : 0 <= length d) by lia.
    change 0%Z with (Z.of_nat 0).
    replace (Z.of_nat (length d)) with (Z.of_nat (length d - 0)) by (f_equal; lia).
    rewrite (sendInLoop_src_tail c d 0 false _ _ Hle).
    cbv zeta. cbn [andb negb]. reflexivity.
Qed.

(* ---- shutdownInLoop ------------------------------------------------------------------------ *)
Lemma tie_shutdown_test c : shutdownInLoop_notwriting_test (writing c) = negb (writing c).
Proof. reflexivity. Qed.

Lemma tie_shutdown_shuts_write : shutdownInLoop_shuts_write = true.
Proof. reflexivity. Qed.

(* if (!channel_->isWriting()) socket_->shutdownWrite(); *)
Definition shutdownInLoop_src (c : conn) : conn * list event :=
  if shutdownInLoop_notwriting_test (writing c) then
    (mkConn (st c) (outb c) (inb c) (writing c) (rd_chan c) (rd_flag c) (registered c) (hwm c) (has_wc c)
            (has_hwm c) (wire c) (if shutdownInLoop_shuts_write then true else fin c) (pending c) (chk c)
            (delayed c) (accepted c) (consumed c) (delivered c) (enq c) (ran c) (ups c) (downs c),
     if shutdownInLoop_shuts_write then [EvFin] else [])
  else (c, []).

Theorem shutdownInLoop_is_source : forall c, shutdownInLoop_src c = shutdownInLoop c.
Proof.
  intros c. unfold shutdownInLoop_src, shutdownInLoop. rewrite tie_shutdown_test, tie_shutdown_shuts_write.
  destruct (writing c); reflexivity.
Qed.

(* ---- handleWrite --------------------------------------------------------------------------- *)
Lemma tie_progress_test n : handleWrite_progress_test (Z.of_nat n) = (0 <? n).
Proof.
  unfold handleWrite_progress_test. destruct (Nat.ltb_spec 0 n) as [E|E].
  - apply Z.gtb_lt. lia.
  - assert (n = 0) by lia. subst. reflexivity.
Qed.

Lemma tie_progress_test_err : handleWrite_progress_test (-1) = false.
Proof. reflexivity. Qed.

Lemma tie_emptied_test (l : list byte) : handleWrite_emptied_test (Z.of_nat (length l)) = (length l =? 0).
Proof.
  unfold handleWrite_emptied_test. destruct (Nat.eqb_spec (length l) 0) as [E|E]; [rewrite E; reflexivity|].
  apply Z.eqb_neq. lia.
Qed.

Lemma tie_disconnecting_test c :
  handleWrite_disconnecting_test TcpConnection_kDisconnecting (st_code (st c)) = cstate_eqb (st c) Disconnecting.
Proof. unfold handleWrite_disconnecting_test. apply (st_code_eqb (st c) Disconnecting). Qed.

Lemma tie_writing_test c : handleWrite_writing_test (writing c) = writing c.
Proof. reflexivity. Qed.

Lemma tie_wc2_test c : handleWrite_wc2_test (has_wc c) = has_wc c.
Proof. reflexivity. Qed.

Lemma tie_retrieve_arg (n : Z) : handleWrite_retrieve_arg n = n.
Proof. reflexivity. Qed.

Lemma tie_disables_before_shutdown : handleWrite_disables_before_shutdown = true.
Proof. reflexivity. Qed.

(* TcpConnection::handleWrite():
     if (isWriting()) {
       n = write(fd, peek(), readableBytes());
       if (n > 0) { retrieve(n);
         if (readableBytes() == 0) { disableWriting(); if (wc_) queue(wc_); if (state_ == kDisconnecting) shutdownInLoop(); } }
       else LOG_SYSERR; }
     else LOG_TRACE *)
Definition handleWrite_src (c : conn) (k : kres) : conn * list event :=
  if handleWrite_writing_test (writing c) then
    let '(ret, _) := write_result (effective c k) (length (outb c)) in
    if handleWrite_progress_test ret then
      let n := Z.to_nat (handleWrite_retrieve_arg ret) in
      let out' := skipn n (outb c) in
      let emptied := handleWrite_emptied_test (Z.of_nat (length out')) in
      let c1 := mkConn (st c) out' (inb c)
                       (if emptied then (if handleWrite_disables_before_shutdown then false else true) else true)
                       (rd_chan c) (rd_flag c) (registered c) (hwm c) (has_wc c) (has_hwm c)
                       (wire c ++ firstn (Z.to_nat ret) (outb c)) (fin c)
                       (if (emptied && handleWrite_wc2_test (has_wc c))%bool then pending c ++ [FWriteComplete] else pending c)
                       (chk c) (delayed c) (accepted c) (consumed c) (delivered c) (enq c) (ran c)
                       (ups c) (downs c) in
      if (emptied && handleWrite_disconnecting_test TcpConnection_kDisconnecting (st_code (st c)))%bool
      then shutdownInLoop_src c1 else (c1, [])
    else (c, [EvErrorLogged])
  else (c, []).

Theorem handleWrite_is_source : forall c k, handleWrite_src c k = handleWrite c k.
Proof.
  intros c k. unfold handleWrite_src, handleWrite.
  rewrite tie_writing_test. destruct (writing c); [|reflexivity].
  destruct (effective c k) as [n| |e]; cbn [write_result taken].
  - rewrite tie_progress_test, tie_retrieve_arg, Nat2Z.id.
    destruct (0 <? Nat.min n (length (outb c))); [|reflexivity].
    rewrite tie_emptied_test, tie_disconnecting_test, tie_wc2_test, tie_disables_before_shutdown,
      shutdownInLoop_is_source.
    destruct (length (skipn (Nat.min n (length (outb c))) (outb c)) =? 0); reflexivity.
  - rewrite tie_progress_test, tie_retrieve_arg, Nat2Z.id.
    destruct (0 <? length (outb c)); [|reflexivity].
    rewrite tie_emptied_test, tie_disconnecting_test, tie_wc2_test, tie_disables_before_shutdown,
      shutdownInLoop_is_source.
    destruct (length (skipn (length (outb c)) (outb c)) =? 0); reflexivity.
  - rewrite tie_progress_test_err. reflexivity.
Qed.

(* ---- the facts Properties_C13 / C01 / C11 quote ------------------------------------------- *)
(* the crossing test of the source, in the model's own terms *)
Theorem source_crossing_test : forall mark old remaining has,
  sendInLoop_hwm_test has (Z.of_N mark) (Z.of_nat old) (Z.of_nat remaining) =
  ((mark <=? N.of_nat (old + remaining))%N && (N.of_nat old <? mark)%N && has)%bool.
Proof. exact tie_hwm_test. Qed.

(* the errno classification of the direct write: EWOULDBLOCK silent, EPIPE / ECONNRESET fatal,
   everything else logged and treated as "nothing written" *)
Theorem source_write_errno_classes : forall e,
  sendInLoop_fatal_test (errno_code e) = is_fatal e /\
  sendInLoop_not_wouldblock_test (errno_code e) = (match e with EAGAIN => false | _ => true end) /\
  (is_fatal e = true <-> e = EPIPE \/ e = ECONNRESET) /\
  errno_code EAGAIN = errno_EWOULDBLOCK.
Proof.
  intros e. split; [apply tie_fatal_test|]. split; [apply tie_wouldblock|]. split.
  - destruct e; cbn; intuition discriminate.
  - reflexivity.
Qed.
