(* Conn_GenTie: the guard expressions of TcpConnection.cc, regenerated from the clang AST of
   /repo's current source (Gen_Conn), coincide with the tests Conn_Model performs.  Two lemmas
   per guard: (1) the model function literally uses the named test ([reflexivity] after
   unfolding), (2) the generated expression equals the named test under the embedding of the
   model's nat / N / cstate into the C++ integers.  Flipping a comparison, dropping a conjunct
   or testing another state in the source breaks (2). *)
From Coq Require Import List ZArith Lia Bool Arith NArith.
From Coq Require Import ZifyBool ZifyNat ZifyN.
From Coq.Strings Require Import Byte.
From Muduo Require Import Gen_Consts Gen_Conn Gen_C11 Conn_Model.
Import ListNotations.

Definition st_code (s : cstate) : Z :=
  match s with
  | Disconnected => TcpConnection_kDisconnected
  | Connecting => TcpConnection_kConnecting
  | Connected => TcpConnection_kConnected
  | Disconnecting => TcpConnection_kDisconnecting
  end.

Lemma st_code_inj a b : st_code a = st_code b -> a = b.
Proof. destruct a, b; vm_compute; intros H; try reflexivity; discriminate. Qed.

Lemma st_code_eqb a b : Z.eqb (st_code a) (st_code b) = cstate_eqb a b.
Proof. destruct a, b; vm_compute; reflexivity. Qed.

Definition errno_code (e : errno) : Z :=
  match e with
  | EAGAIN => errno_EAGAIN | EINTR => errno_EINTR | EPIPE => errno_EPIPE
  | ECONNRESET => errno_ECONNRESET | EOTHER => errno_ENOBUFS
  end.

(* ---- sendInLoop ---------------------------------------------------------------------- *)
Lemma tie_state_test c :
  sendInLoop_state_test TcpConnection_kDisconnected (st_code (st c)) = cstate_eqb (st c) Disconnected.
Proof. unfold sendInLoop_state_test. apply (st_code_eqb (st c) Disconnected). Qed.

Lemma tie_direct_test c :
  sendInLoop_direct_test (writing c) (Z.of_nat (length (outb c))) =
  (negb (writing c) && (length (outb c) =? 0))%bool.
Proof.
  unfold sendInLoop_direct_test. f_equal.
  destruct (Nat.eqb_spec (length (outb c)) 0) as [E|E]; [rewrite E; reflexivity|].
  apply Z.eqb_neq. lia.
Qed.

(* the kernel's answer as the C++ sees it: nwrote >= 0 with remaining = len - nwrote, or -1/errno *)
Lemma tie_wc_test (has : bool) (len nwrote : nat) : nwrote <= len ->
  sendInLoop_wc_test has (Z.of_nat (len - nwrote)) = ((len - nwrote =? 0) && has)%bool.
Proof.
  intros H. unfold sendInLoop_wc_test. f_equal.
  destruct (Nat.eqb_spec (len - nwrote) 0) as [E|E]; [rewrite E; reflexivity|].
  apply Z.eqb_neq. lia.
Qed.

Lemma tie_fatal_test e : sendInLoop_fatal_test (errno_code e) = is_fatal e.
Proof. destruct e; vm_compute; reflexivity. Qed.

(* EWOULDBLOCK is the one error that is not even logged *)
Lemma tie_wouldblock e : sendInLoop_not_wouldblock_test (errno_code e) = match e with EAGAIN => false | _ => true end.
Proof. destruct e; vm_compute; reflexivity. Qed.

Lemma tie_queue_test (fatal : bool) (remaining : nat) :
  sendInLoop_queue_test fatal (Z.of_nat remaining) = (negb fatal && (0 <? remaining))%bool.
Proof.
  unfold sendInLoop_queue_test. f_equal.
  destruct (Nat.ltb_spec 0 remaining) as [E|E].
  - apply Z.gtb_lt. lia.
  - assert (remaining = 0) by lia. subst. reflexivity.
Qed.

(* the upward-crossing test, C13's anchor *)
Definition model_hwm_test (mark : N) (old remaining : nat) (has : bool) : bool :=
  ((mark <=? N.of_nat (old + remaining))%N && (N.of_nat old <? mark)%N && has)%bool.

Lemma tie_hwm_test mark old remaining has :
  sendInLoop_hwm_test has (Z.of_N mark) (Z.of_nat old) (Z.of_nat remaining) =
  model_hwm_test mark old remaining has.
Proof.
  unfold sendInLoop_hwm_test, model_hwm_test. f_equal. f_equal.
  - destruct (N.leb_spec mark (N.of_nat (old + remaining))) as [E|E].
    + apply Z.geb_le. lia.
    + rewrite Z.geb_leb. apply Z.leb_gt. lia.
  - destruct (N.ltb_spec (N.of_nat old) mark) as [E|E].
    + apply Z.ltb_lt. lia.
    + apply Z.ltb_ge. lia.
Qed.

(* the model's sendInLoop queues FHighWater exactly under model_hwm_test (and the queue test) *)
Lemma sendInLoop_uses_hwm_test c d k :
  cstate_eqb (st c) Disconnected = false ->
  let direct := (negb (writing c) && (length (outb c) =? 0))%bool in
  let '(nwrote, fatal, wrote_ok) :=
    if direct then
      match effective c k with
      | Err e => (0, is_fatal e, false)
      | k' => (match taken k' (length d) with Some n => n | None => 0 end, false, true)
      end
    else (0, false, false) in
  let remaining := length d - nwrote in
  let p1 := if (wrote_ok && (remaining =? 0) && has_wc c)%bool then pending c ++ [FWriteComplete] else pending c in
  pending (fst (sendInLoop c d k)) =
  if (negb fatal && (0 <? remaining) && model_hwm_test (hwm c) (length (outb c)) remaining (has_hwm c))%bool
  then p1 ++ [FHighWater (length (outb c) + remaining)] else p1.
Proof.
  intros Hs. unfold sendInLoop, model_hwm_test. rewrite Hs.
  destruct (negb (writing c) && (length (outb c) =? 0))%bool.
  - destruct (effective c k) as [n| |e]; cbn [fst pending]; rewrite ?andb_assoc; reflexivity.
  - cbn [fst pending]. rewrite ?andb_assoc. reflexivity.
Qed.

(* ---- handleWrite --------------------------------------------------------------------- *)
Lemma tie_progress_test n : handleWrite_progress_test (Z.of_nat n) = (0 <? n).
Proof.
  unfold handleWrite_progress_test. destruct (Nat.ltb_spec 0 n) as [E|E].
  - apply Z.gtb_lt. lia.
  - assert (n = 0) by lia. subst. reflexivity.
Qed.

Lemma tie_emptied_test (l : list byte) : handleWrite_emptied_test (Z.of_nat (length l)) = (length l =? 0).
Proof.
  unfold handleWrite_emptied_test. destruct (Nat.eqb_spec (length l) 0) as [E|E]; [rewrite E; reflexivity|].
  apply Z.eqb_neq. lia.
Qed.

Lemma tie_disconnecting_test c :
  handleWrite_disconnecting_test TcpConnection_kDisconnecting (st_code (st c)) = cstate_eqb (st c) Disconnecting.
Proof. unfold handleWrite_disconnecting_test. apply (st_code_eqb (st c) Disconnecting). Qed.

Lemma tie_writing_test c : handleWrite_writing_test (writing c) = writing c.
Proof. reflexivity. Qed.

Lemma tie_shutdown_test c : shutdownInLoop_notwriting_test (writing c) = negb (writing c).
Proof. reflexivity. Qed.

(* ---- life cycle ------------------------------------------------------------------------ *)
Lemma tie_destroy_state_test c :
  connectDestroyed_destroy_state_test TcpConnection_kConnected TcpConnection_kDisconnecting (st_code (st c)) = closable c.
Proof.
  unfold connectDestroyed_destroy_state_test, closable.
  change TcpConnection_kConnected with (st_code Connected).
  change TcpConnection_kDisconnecting with (st_code Disconnecting).
  rewrite !st_code_eqb. reflexivity.
Qed.

Lemma tie_forceclose_state_test c :
  forceCloseInLoop_forceclose_state_test TcpConnection_kConnected TcpConnection_kDisconnecting (st_code (st c)) = closable c.
Proof.
  unfold forceCloseInLoop_forceclose_state_test, closable.
  change TcpConnection_kConnected with (st_code Connected).
  change TcpConnection_kDisconnecting with (st_code Disconnecting).
  rewrite !st_code_eqb. reflexivity.
Qed.

Lemma tie_startread_test c :
  startReadInLoop_startread_test (rd_chan c) TcpConnection_kDisconnected (rd_flag c) (st_code (st c)) =
  (negb (cstate_eqb (st c) Disconnected) && (negb (rd_flag c) || negb (rd_chan c)))%bool.
Proof.
  unfold startReadInLoop_startread_test. change TcpConnection_kDisconnected with (st_code Disconnected).
  rewrite st_code_eqb. reflexivity.
Qed.

Lemma tie_stopread_test c :
  stopReadInLoop_stopread_test (rd_chan c) TcpConnection_kDisconnected (rd_flag c) (st_code (st c)) =
  (negb (cstate_eqb (st c) Disconnected) && (rd_flag c || rd_chan c))%bool.
Proof.
  unfold stopReadInLoop_stopread_test. change TcpConnection_kDisconnected with (st_code Disconnected).
  rewrite st_code_eqb. reflexivity.
Qed.

(* the model's startReadInLoop / stopReadInLoop act exactly under those tests *)
Lemma startRead_uses_test c :
  startReadInLoop c =
  if startReadInLoop_startread_test (rd_chan c) TcpConnection_kDisconnected (rd_flag c) (st_code (st c))
  then set_reading c true true else c.
Proof. rewrite tie_startread_test. reflexivity. Qed.

Lemma stopRead_uses_test c :
  stopReadInLoop c =
  if stopReadInLoop_stopread_test (rd_chan c) TcpConnection_kDisconnected (rd_flag c) (st_code (st c))
  then set_reading c false false else c.
Proof. rewrite tie_stopread_test. reflexivity. Qed.
