(* C12_Proofs: the statements exported to Properties_C12.v, assembled from C12_Hyg (socket hygiene, all histories),
   C12_Trace (trace automaton, all histories) and the witnesses of the findings. *)
From Coq Require Import List ZArith Lia Bool Arith.
From Muduo Require Import Gen_Consts Gen_C12 C12_Model C12_Hyg C12_Trace.
Import ListNotations.
Local Open Scope Z_scope.

(* a history all of whose executed steps satisfy a contract c (rejected ops did not happen) *)
Fixpoint admissible_with (c : st -> op -> bool) (s : st) (l : list op) : Prop :=
  match l with
  | [] => True
  | o :: r =>
      match step s o with
      | Rejected => admissible_with c s r
      | Fault => c s o = true
      | Ok s' _ => c s o = true /\ admissible_with c s' r
      end
  end.
Fixpoint admissible_b (c : st -> op -> bool) (s : st) (l : list op) : bool :=
  match l with
  | [] => true
  | o :: r =>
      match step s o with
      | Rejected => admissible_b c s r
      | Fault => c s o
      | Ok s' _ => c s o && admissible_b c s' r
      end
  end.
Lemma admissible_b_ok c l : forall s, admissible_b c s l = true -> admissible_with c s l.
Proof.
  induction l as [|o r IH]; intros s; cbn [admissible_b admissible_with]; auto.
  destruct (step s o) as [s' ev| |]; auto.
  intros H. apply andb_prop in H. destruct H. split; auto.
Qed.
Ltac adm := apply admissible_b_ok; vm_compute; reflexivity.
Ltac runs := vm_compute; reflexivity.
Definition admissible := admissible_with contract.
Definition text_admissible := admissible_with text_contract.

Definition REF := ConnectResult ECONNREFUSED.

(* ---- F-10: connect; (refused); stop; connect inside the back-off window *)
Definition w_f10 : list op := [REF; Connect; Stop; RunPending; Connect; TimerFire].
Definition w_f10_chains : list op := [REF; Connect; Stop; RunPending; REF; Connect].
Definition w_f10b : list op := [REF; Connect; Stop; RunPending; TimerFire; REF; Connect].

Lemma stop_then_connect_refuted :
  (* what the property text allows, yet the stale retry timer fires into the new attempt: Fault *)
  (text_admissible init w_f10 /\ run init w_f10 = None) /\
  (* two retry timers pending, and the new cycle's first retry is armed with 1000 ms *)
  (text_admissible init w_f10_chains /\
   exists s ev, run init w_f10_chains = Some (s, ev) /\ length (filter is_retry_timer (timers s)) = 2%nat /\
                In (EvArm 1000) ev /\ ~ backoff_ok 0 ev) /\
  (* even after the stale timer has expired the delay is not back at 500 *)
  (text_admissible init w_f10b /\
   exists s ev, run init w_f10b = Some (s, ev) /\ timers s <> [] /\ ~ backoff_ok 0 ev /\
                (* the only conjunct of `idle` that fails at the second connect is the delay *)
                exists s1 ev1, run init [REF; Connect; Stop; RunPending; TimerFire; REF] = Some (s1, ev1) /\
                               quiet s1 = true /\ idle s1 = false).
Proof.
  split; [|split].
  - split; [adm|runs].
  - split; [adm|].
    eexists _, _. split; [runs|]. split; [reflexivity|]. split; [cbn; auto 20|].
    cbn. intros H. decompose [and] H. discriminate.
  - split; [adm|].
    eexists _, _. split; [runs|]. split; [discriminate|]. split.
    + cbn. intros H. decompose [and] H. discriminate.
    + eexists _, _. split; [runs|]. split; reflexivity.
Qed.

(* ---- F-16: state_ stays kConnected *)
Definition w_f16 : list op := [Connect; EvWritable 0 false; RunPending; Down; RunPending; Connect].
Lemma reconnect_refuted : text_admissible init w_f16 /\ run init w_f16 = None.
Proof. split; [adm|runs]. Qed.

(* ---- F-17: connect() while resetChannel is still queued *)
Definition w_f17 : list op := [Connect; Stop; RunPending; Connect].
Lemma connect_in_teardown_iteration_refuted : text_admissible init w_f17 /\ run init w_f17 = None.
Proof. split; [adm|runs]. Qed.

(* ---- F-18: ~TcpClient with a connection while a Connector functor is queued *)
Definition w_f18a : list op := [Connect; EvWritable 0 false; Destroy].
Definition w_f18b : list op := [Connect; EvWritable 0 false; RunPending; Stop; Destroy; RunPending].
Lemma destroy_connected_refuted :
  (text_admissible init w_f18a /\ run init w_f18a = None) /\ (text_admissible init w_f18b /\ run init w_f18b = None).
Proof. split; (split; [adm|runs]). Qed.

(* ---- F-13: ~TcpClient on a foreign thread, cut at its mutex acquisitions *)
Definition w_f13a : list op := [EnableRetry; Connect; EvWritable 0 false; RunPending; XDestroyRead; Down; XDestroyRest].
Definition w_f13b : list op := [Connect; EvWritable 0 false; RunPending; XDestroyRead; XDestroyRest; Down].
Definition w_f13c : list op := [Connect; XDestroyInWrite].
Lemma foreign_destroy_refuted :
  (text_admissible init w_f13a /\ run init w_f13a = None) /\ (text_admissible init w_f13b /\ run init w_f13b = None) /\
  (text_admissible init w_f13c /\ run init w_f13c = None).
Proof. split; [|split]; (split; [adm|runs]). Qed.

(* ---- the environment contract `timely` is needed *)
Lemma stalled_loop_refuted :
  run init [Destroy; TimerFire; RunPending] = None /\ run init [Connect; EvError; TimerFire] = None.
Proof. split; vm_compute; reflexivity. Qed.

(* ---- non-vacuity: admissible histories that exercise every mechanism *)
Definition ex_backoff : list op :=
  [REF; Connect; REF; TimerFire; REF; TimerFire; TimerFire; EvWritable ETIMEDOUT false; RunPending; TimerFire; EvWritable 0 false; RunPending].
Definition ex_retry_cycle : list op :=
  [EnableRetry; Connect; EvWritable 0 false; RunPending; Down; RunPending; EvWritable 0 false; RunPending; Disconnect; Down; RunPending; Destroy; RunPending; TimerFire].
Definition ex_foreign : list op :=
  [XConnectFlags; XConnectEnq; RunPending; EvWritable 0 false; RunPending; UserHold; XDisconnectFlag; XDisconnectRest; RunPending;
   XStopFlags; XStopEnq; RunPending; Destroy; Down; RunPending; UserRelease].
Lemma examples_admissible :
  (admissible init ex_backoff /\ exists s ev, run init ex_backoff = Some (s, ev) /\ connection s = Some 0%nat /\
      filter (fun e => match e with EvArm _ => true | _ => false end) ev = [EvArm 500; EvArm 1000; EvArm 2000; EvArm 4000]) /\
  (admissible init ex_retry_cycle /\ exists s ev, run init ex_retry_cycle = Some (s, ev) /\ k_dead s = true /\
      socks s = [HandedClosed 1; HandedClosed 1]) /\
  (admissible init ex_foreign /\ exists s ev, run init ex_foreign = Some (s, ev) /\ k_dead s = true /\ socks s = [HandedClosed 1]).
Proof.
  split; [|split]; (split; [adm|]); eexists _, _; (split; [runs|]); split; reflexivity.
Qed.

(* ------------------------------------------------------------------ every cycle of an admissible history starts with the initial delay *)
From Muduo Require Import C12_Inv.

Definition c500 (e : event) : Prop := forall d, e = EvCycle d -> d = 500.
Definition evall (m : M) : Prop := match m with Some (_, ev) => Forall c500 ev | None => True end.
Lemma evall_bind m f : evall m -> (forall s, evall (f s)) -> evall (bind m f).
Proof.
  unfold evall, bind. destruct m as [[s e]|]; auto. intros H F. specialize (F s). destruct (f s) as [[s' e']|]; auto.
  apply Forall_app. auto.
Qed.
Lemma evall_ret s : evall (ret s).
Proof. constructor. Qed.
Ltac c5 := repeat (constructor; [intros ? ?; try discriminate|]); try constructor.
Lemma evall_some s ev : Forall c500 ev -> evall (Some (s, ev)).
Proof. auto. Qed.

Lemma do_close_ev s i : evall (do_close s i).
Proof. unfold do_close. cbn. c5. Qed.
Lemma retry_ev s i : evall (retry s i).
Proof. unfold retry. apply evall_bind; [apply do_close_ev|]. intros s1. cbn. destruct (k_connect s1); cbn; c5. Qed.
Lemma connecting_ev s i : evall (connecting s i).
Proof. unfold connecting. cbn. destruct (k_chan s); cbn; auto; c5. Qed.
Lemma connect_ev s : evall (connect_ s).
Proof.
  unfold connect_. cbn [kq set_socks].
  destruct (kq s) as [|e r]; (apply evall_bind; [cbn; c5|]); intros s1;
    destruct (classify _); auto using connecting_ev, retry_ev, do_close_ev, evall_ret.
Qed.
Lemma startInLoop_ev s : evall (startInLoop s).
Proof. unfold startInLoop. destruct (negb _); cbn; auto. destruct (k_connect s); [apply connect_ev|apply evall_ret]. Qed.
Lemma restart_ev s : evall (restart s).
Proof.
  unfold restart. apply evall_bind; [|intros; apply startInLoop_ev]. cbn. constructor; [intros ? ?; discriminate|].
  constructor; [|constructor]. intros d [= <-]. exact G_init_delay.
Qed.
Lemma newConnection_ev s i : evall (newConnection s i).
Proof. unfold newConnection. destruct (negb (alive s)); cbn; auto; c5. Qed.
Lemma removeConnection_ev s c : evall (removeConnection s c).
Proof.
  unfold removeConnection. destruct (negb (alive s)); cbn; auto. destruct (connection s); cbn; auto. destruct (negb _); cbn; auto.
  destruct (_ && _); [apply restart_ev|apply evall_ret].
Qed.
Lemma handleClose_ev s c : evall (handleClose s c).
Proof.
  unfold handleClose. destruct (nth_error (conns s) c) as [o|]; cbn [evall]; auto.
  apply evall_bind; [cbn; c5|]. intros s1. destruct (ccb o); [apply removeConnection_ev|apply evall_ret].
Qed.
Lemma handleWrite_ev s e b : evall (handleWrite s e b).
Proof.
  unfold handleWrite. destruct (kstate_eqb (k_state s) KConnecting).
  - destruct (removeAndResetChannel s) as [[s1 i]|]; cbn [evall]; auto.
    destruct (negb _); [apply retry_ev|]. destruct b; [apply retry_ev|]. cbn. destruct (k_connect s1); [apply newConnection_ev|apply do_close_ev].
  - destruct (kstate_eqb _ _); cbn; auto; constructor.
Qed.
Lemma handleError_ev s : evall (handleError s).
Proof.
  unfold handleError. destruct (kstate_eqb _ _); [|apply evall_ret].
  destruct (removeAndResetChannel s) as [[s1 i]|]; cbn [evall]; auto. apply retry_ev.
Qed.
Lemma stopInLoop_ev s : evall (stopInLoop s).
Proof.
  unfold stopInLoop. destruct (kstate_eqb _ _); [|apply evall_ret].
  destruct (removeAndResetChannel _) as [[s1 i]|]; cbn [evall]; auto. apply retry_ev.
Qed.
Lemma conn_shutdown_ev s c b : evall (conn_shutdown s c b).
Proof.
  unfold conn_shutdown. destruct (nth_error (conns s) c) as [o|]; cbn [evall]; auto.
  destruct (cst o); try apply evall_ret. destruct b; cbn; c5.
Qed.
Lemma gc_from_ev n : forall c s, evall (gc_from n c s).
Proof.
  induction n as [|n IH]; intros c s; cbn [gc_from]; [apply evall_ret|].
  destruct (nth_error (conns s) c) as [o|]; [|apply evall_ret]. destruct (_ && _); [|apply IH].
  destruct (cst o); cbn [evall]; auto. destruct (creg o); cbn [evall]; auto.
  apply evall_bind; [cbn; c5|]. intros; apply IH.
Qed.
Lemma finish_ev m : evall m -> evall (finish m).
Proof.
  intros H. unfold finish. apply evall_bind; [apply evall_bind; auto; intros; apply gc_from_ev|].
  intros s. unfold settle. destruct (_ && _ && _ && _); [|apply evall_ret]. destruct (k_chan s); cbn; auto; constructor.
Qed.
Lemma fire_all_ev l : forall s, evall (fire_all l s).
Proof.
  induction l as [|t r IH]; intros s; cbn [fire_all]; [apply evall_ret|].
  apply evall_bind; [|intros; apply IH]. unfold fire. destruct (snd t); [apply startInLoop_ev|apply evall_ret].
Qed.
Lemma destroy_rest_ev s snap b : evall (destroy_rest s snap b).
Proof. unfold destroy_rest. destruct snap as [[c|] u]; destruct b; cbn; c5. Qed.

(* the one place that depends on the invariant: startInLoop queued by a foreign connect() *)
Lemma run_functor_ev s f r : Inv s -> pending s = f :: r -> evall (run_functor (set_pending s r) f).
Proof.
  intros (K & _) Hp. destruct f; cbn [run_functor].
  - destruct (k_dead _); cbn [evall]; auto. apply evall_bind; [|intros; apply startInLoop_ev].
    cbn. constructor; [|constructor]. intros d [= <-].
    destruct K as [_ _ _ _ _ _ _ Kxc _ _]. destruct Kxc as [_ Dl]; [right; rewrite Hp, nstart_cons; cbn; lia|].
    rewrite Dl. exact G_init_delay.
  - destruct (k_dead _); cbn [evall]; auto. apply stopInLoop_ev.
  - destruct (k_dead _); cbn [evall]; auto. constructor.
  - destruct (nth_error _ c) as [o|]; cbn [evall]; auto. destruct (c_live _); cbn; c5.
  - destruct (nth_error _ c) as [o|]; cbn [evall]; auto. destruct (c_live _); [apply handleClose_ev|apply evall_ret].
  - apply evall_ret.
  - destruct (nth_error _ c) as [o|]; cbn [evall]; auto. destruct (calive o); cbn; auto; c5.
  - cbn. c5.
Qed.
Lemma run_one_ev s : Inv s -> evall (run_one s).
Proof.
  intros I. unfold run_one. destruct (pending s) as [|f r] eqn:Hp; [apply evall_ret|]. apply finish_ev. apply run_functor_ev; auto.
Qed.
Lemma run_n_ev n : forall s, Inv s -> evall (run_n n s).
Proof.
  induction n as [|n IH]; intros s I; cbn [run_n]; [apply evall_ret|].
  pose proof (run_one_I s I) as W. pose proof (run_one_ev s I) as E.
  unfold evall, bind in *. destruct (run_one s) as [[s1 e1]|]; auto. cbn in W. specialize (IH s1 W).
  destruct (run_n n s1) as [[s2 e2]|]; auto. apply Forall_app. auto.
Qed.

Lemma step_core_ev s o : Inv s -> contract s o = true -> match step_core s o with Some m => evall m | None => True end.
Proof.
  intros I Hc. destruct o; cbn [step_core].
  - destruct (negb _); auto. apply evall_bind; [|intros; apply startInLoop_ev].
    cbn. constructor; [intros ? ?; discriminate|]. constructor; [|constructor]. intros d [= <-].
    cbn in Hc. unfold idle in Hc. apply andb_prop in Hc. destruct Hc as [_ Hc]. apply Z.eqb_eq in Hc. rewrite Hc. exact G_init_delay.
  - destruct (negb _); auto. destruct (connection _); [apply conn_shutdown_ev|apply evall_ret].
  - destruct (negb _); auto. cbn. c5.
  - destruct (negb _); auto. apply evall_ret.
  - destruct (_ || _ || _ || _); auto. apply destroy_rest_ev.
  - destruct (_ || _); auto. cbn. c5.
  - destruct (_ || _); auto. apply evall_ret.
  - destruct (_ || _); auto. cbn. c5.
  - destruct (_ || _); auto. apply evall_ret.
  - destruct (_ || _); auto. apply evall_ret.
  - destruct (_ || _); auto. destruct (connection _); [apply conn_shutdown_ev|apply evall_ret].
  - discriminate.
  - discriminate.
  - discriminate.
  - apply evall_ret.
  - destruct (k_chan s) as [[i [|]]|]; auto. destruct (k_dead s); auto. apply handleWrite_ev.
  - destruct (k_chan s) as [[i [|]]|]; auto. destruct (k_dead s); auto. apply handleError_ev.
  - destruct (min_due _); auto.  apply fire_all_ev.
  - apply evall_bind; [apply run_n_ev; auto|]. intros; apply evall_ret.
  - destruct (pending s); auto. apply run_one_ev; auto.
  - destruct (find_down _ _ _); auto. apply handleClose_ev.
  - destruct (negb _); auto. destruct (connection s); auto. destruct (find_user _ _); auto. apply evall_ret.
  - destruct (find_user _ _); auto. destruct (nth_error _ _); auto. apply evall_ret.
  - destruct (_ || _ || _); auto. unfold loop_end. cbn [k_chan set_timers set_pending]. destruct (k_chan s); [exact Logic.I|apply evall_ret].
Qed.

Lemma step_ev s o s' ev : Inv s -> contract s o = true -> step s o = Ok s' ev -> Forall c500 ev.
Proof.
  intros I Hc. unfold step. pose proof (step_core_ev s o I Hc) as W.
  destruct (step_core s o) as [m|]; [|discriminate]. apply finish_ev in W.
  destruct (finish m) as [[s1 e1]|]; [|discriminate]. intros [= _ <-]. exact W.
Qed.

(* ------------------------------------------------------------------ the theorems about admissible histories *)
Lemma admissible_run l : forall s, Inv s -> admissible s l ->
  exists s' ev, run s l = Some (s', ev) /\ Inv s' /\ Forall c500 ev.
Proof.
  induction l as [|o r IH]; intros s I A; cbn [run].
  - exists s, []. auto.
  - unfold admissible in A. cbn [admissible_with] in A.
    destruct (step s o) as [s1 e1| |] eqn:E.
    + destruct A as [Hc A]. pose proof (step_I s o I Hc) as W. rewrite E in W.
      pose proof (step_ev _ _ _ _ I Hc E) as F1.
      destruct (IH s1 W A) as (s' & ev & R & I' & F2). exists s', (e1 ++ ev). rewrite R. split; [reflexivity|split; [exact I'|apply Forall_app; auto]].
    + apply IH; auto.
    + pose proof (step_I s o I A) as W. rewrite E in W. destruct W.
Qed.

(* no step of an admissible history faults: no assert fails, nothing is called through a dangling pointer *)
Theorem no_fault : forall l, admissible init l -> run init l <> None.
Proof. intros l A. destruct (admissible_run l init Inv_init A) as (s & ev & R & _). congruence. Qed.

Theorem backoff_admissible : forall l s ev, admissible init l -> run init l = Some (s, ev) -> backoff_ok 0 ev.
Proof.
  intros l s ev A R. destruct (admissible_run l init Inv_init A) as (s' & ev' & R' & _ & F). rewrite R in R'. injection R' as <- <-.
  apply (arms_closed_form ev 0%nat).
  - intros d Hd. rewrite Forall_forall in F. apply (F _ Hd d eq_refl).
  - apply (trace_backoff_shape _ _ _ R).
Qed.

(* ------------------------------------------------------------------ states reached by admissible histories *)
Definition reachable (s : st) : Prop := exists l ev, admissible init l /\ run init l = Some (s, ev).
Lemma reachable_Inv s : reachable s -> Inv s.
Proof.
  intros (l & ev & A & R). destruct (admissible_run l init Inv_init A) as (s' & ev' & R' & I & _). rewrite R in R'. injection R' as <- <-. exact I.
Qed.

(* one more admissible op from a reachable state never faults *)
Theorem step_safe : forall s o, reachable s -> contract s o = true -> step s o <> Fault.
Proof.
  intros s o Hr Hc. pose proof (step_I s o (reachable_Inv _ Hr) Hc) as W. destruct (step s o); congruence.
Qed.

(* destruction on the loop thread: nothing is left behind once the queue and the timers have drained
   and the user holds no connection *)
Theorem destroyed_quiescent : forall s, reachable s ->
  alive s = false -> pending s = [] -> timers s = [] -> (forall c o, nth_error (conns s) c = Some o -> cuser o = 0%nat) ->
  k_dead s = true /\ k_chan s = None /\ connection s = None /\
  (forall c o, nth_error (conns s) c = Some o -> calive o = false /\ nth_error (socks s) (csock o) = Some (HandedClosed 1)) /\
  (forall i x, nth_error (socks s) i = Some x -> x = Closed 1 \/ x = HandedClosed 1).
Proof.
  intros s Hr A P T U. pose proof Hr as (l & ev & Ad & R). destruct (reachable_Inv _ Hr) as (K & Kd & St & C & Cr & X).
  assert (Dd : k_dead s = true) by (apply St; auto).
  destruct K as [_ _ _ _ _ _ Kkd _ _ _]. destruct (Kkd Dd) as (_ & _ & Hc & _).
  destruct C as [D C]. destruct C as [_ Cde _ _ _ _ _ _ _ _ _ _].
  assert (Dead : forall c o, nth_error (conns s) c = Some o -> calive o = false).
  { intros c o Ho. destruct (calive o) eqn:Al; auto. pose proof (Cr _ _ Ho Al) as Z. unfold refsC in Z.
    rewrite (Cde A), Ho, (U _ _ Ho), P in Z. cbn in Z. lia. }
  split; [exact Dd|split; [exact Hc|split; [exact (Cde A)|split]]].
  - intros c o H. split; [apply (Dead _ _ H)|]. destruct (conn_sockets _ _ _ R _ _ H) as [Hs _]. rewrite (Dead _ _ H) in Hs. exact Hs.
  - intros i x H. destruct (hygiene_all_histories _ _ _ R _ _ H) as [[_ E]|[E|[E|E]]]; auto; [congruence|].
    subst x. destruct (handed_has_owner _ _ _ R i (or_introl H)) as (c & o & Ho & Hi).
    destruct (conn_sockets _ _ _ R _ _ Ho) as [Hs _]. rewrite (Dead _ _ Ho), Hi in Hs. congruence.
Qed.

(* ------------------------------------------------------------------ what `finish` adds to a step: only ~TcpConnection closing its descriptor *)
Definition is_connclose (e : event) : Prop := exists i, e = EvConnClose i.
Lemma gc_from_events n : forall c s s' ev, gc_from n c s = Some (s', ev) -> Forall is_connclose ev.
Proof.
  induction n as [|n IH]; intros c s s' ev; cbn [gc_from].
  - intros [= _ <-]. constructor.
  - destruct (nth_error (conns s) c) as [o|]; [|intros [= _ <-]; constructor].
    destruct (_ && _); [|apply IH]. destruct (cst o); try discriminate. destruct (creg o); [discriminate|].
    unfold bind. destruct (gc_from n (S c) _) as [[s2 e2]|] eqn:G; [|discriminate]. intros [= _ <-]. cbn.
    constructor; [eexists; reflexivity|eapply IH; eauto].
Qed.
Lemma finish_events m s' ev' : finish m = Some (s', ev') ->
  exists s1 ev1 g, m = Some (s1, ev1) /\ ev' = ev1 ++ g /\ Forall is_connclose g.
Proof.
  unfold finish, bind. destruct m as [[s1 ev1]|]; [|discriminate].
  unfold gc. destruct (gc_from _ _ s1) as [[s2 e2]|] eqn:G; [|discriminate].
  unfold settle. destruct (_ && _ && _ && _).
  - destruct (k_chan s2); [discriminate|]. cbn. intros [= _ <-]. exists s1, ev1, e2. rewrite app_nil_r. repeat split; auto. eapply gc_from_events; eauto.
  - cbn. intros [= _ <-]. exists s1, ev1, e2. rewrite app_nil_r. repeat split; auto. eapply gc_from_events; eauto.
Qed.
Lemma step_events s o s' ev : step s o = Ok s' ev ->
  exists s1 ev1 g, step_core s o = Some (Some (s1, ev1)) /\ ev = ev1 ++ g /\ Forall is_connclose g.
Proof.
  unfold step. destruct (step_core s o) as [m|]; [|discriminate]. destruct (finish m) as [[s2 e2]|] eqn:F; [|discriminate].
  intros [= _ <-]. destruct (finish_events _ _ _ F) as (s1 & ev1 & g & -> & E & H). exists s1, ev1, g. auto.
Qed.

(* ------------------------------------------------------------------ the reconnect decision *)
Lemma bind_some_events s0 e0 f s' ev : bind (Some (s0, e0)) f = Some (s', ev) -> exists rest, ev = e0 ++ rest.
Proof. unfold bind. destruct (f s0) as [[s2 e2]|]; [|discriminate]. intros [= _ <-]. eauto. Qed.
Lemma bind_some_inv s0 e0 f s' ev : bind (Some (s0, e0)) f = Some (s', ev) -> exists rest, f s0 = Some (s', rest) /\ ev = e0 ++ rest.
Proof. unfold bind. destruct (f s0) as [[s2 e2]|]; [|discriminate]. intros [= <- <-]. eauto. Qed.
Lemma connect_events s s' ev : connect_ s = Some (s', ev) -> exists i e rest, ev = EvAttempt i e :: rest.
Proof.
  unfold connect_. cbn [kq set_socks]. destruct (kq s) as [|e r]; intros H; apply bind_some_events in H; destruct H as (rest & ->); cbn; eauto.
Qed.
Lemma restart_events s s' ev : restart s = Some (s', ev) -> exists i e rest, ev = EvWant :: EvCycle 500 :: EvAttempt i e :: rest.
Proof.
  unfold restart, bind. cbn [k_delay set_k_connect set_k_delay]. unfold startInLoop. cbn [k_state set_k_connect set_k_delay set_k_state kstate_eqb negb k_connect].
  match goal with |- context [connect_ ?X] => destruct (connect_ X) as [[s2 e2]|] eqn:E end; [|discriminate].
  intros [= _ <-]. destruct (connect_events _ _ _ E) as (i & e & rest & ->). rewrite G_init_delay. cbn. eauto.
Qed.

Theorem retry_policy : forall s s' ev c o, reachable s ->
  find_down (conns s) 0 None = Some c -> nth_error (conns s) c = Some o -> ccb o = CbClient ->
  step s Down = Ok s' ev ->
  (c_retry s && c_connect s = true -> exists i e rest, ev = EvDown c :: EvWant :: EvCycle 500 :: EvAttempt i e :: rest) /\
  (c_retry s && c_connect s = false -> exists g, ev = EvDown c :: g /\ Forall is_connclose g).
Proof.
  intros s s' ev c o Hr Hf Ho Hb Hst.
  destruct (reachable_Inv _ Hr) as (K & Kd & St & [D C] & Cr & X).
  destruct (find_down_spec _ _ _ _ Hf) as [E|(o' & Ho' & _ & Ha & Hg & Hl & _)]; [discriminate|]. rewrite Nat.sub_0_r, Ho in Ho'. injection Ho' as <-.
  destruct C as [_ _ _ Ccb _ _ _ _ _ _ _ _]. destruct (Ccb _ _ Ho Ha Hl Hb) as [Al Cn].
  destruct (step_events _ _ _ _ Hst) as (s1 & ev1 & g & Hcore & -> & Hg').
  cbn [step_core] in Hcore. rewrite Hf in Hcore. injection Hcore as Hcore.
  unfold handleClose in Hcore. rewrite Ho, Hb in Hcore. apply bind_some_inv in Hcore. destruct Hcore as (rest & Hcore & ->).
  unfold removeConnection in Hcore. cbn [alive setc set_conns connection] in Hcore. rewrite Al, Cn, Nat.eqb_refl in Hcore. cbn [negb] in Hcore.
  cbn [c_retry c_connect enq set_pending set_connection setc set_conns] in Hcore.
  destruct (c_retry s && c_connect s); split; try discriminate; intros _.
  - destruct (restart_events _ _ _ Hcore) as (i & e & rest' & ->). cbn. eauto.
  - cbn in Hcore. injection Hcore as _ <-. cbn. eauto.
Qed.

(* ------------------------------------------------------------------ disconnect() = shutdown() of the current connection, nothing else *)
Theorem disconnect_graceful : forall s c o, user_api_ok s = true -> connection s = Some c ->
  nth_error (conns s) c = Some o -> cst o = CConnected ->
  exists s1, step_core s Disconnect = Some (Some (s1, [EvFin c])) /\
    nth_error (conns s1) c = Some (c_set_fin true (c_set_st CDisconnecting o)) /\
    connection s1 = Some c /\ c_connect s1 = false /\ pending s1 = pending s /\ timers s1 = timers s /\
    k_state s1 = k_state s /\ k_chan s1 = k_chan s /\ k_connect s1 = k_connect s /\ socks s1 = socks s /\
    (forall c', c' <> c -> nth_error (conns s1) c' = nth_error (conns s) c').
Proof.
  intros s c o U Hcn Ho Hs. cbn [step_core]. rewrite U. cbn [negb connection set_c_connect]. rewrite Hcn.
  unfold conn_shutdown. cbn [conns set_c_connect]. rewrite Ho, Hs. eexists. split; [reflexivity|]. cbn.
  rewrite nth_error_upd_same, nth_error_upd_same, Ho. cbn. repeat split; auto.
  intros c' Ne. rewrite !nth_error_upd_other; auto.
Qed.

(* an attempt that completes after stop() is closed, not handed over (first half of stop_silences is trace_silent) *)
Theorem completes_after_stop_is_closed : forall s i, k_chan s = Some (i, true) -> k_state s = KConnecting ->
  k_dead s = false -> k_connect s = false ->
  exists s1, step_core s (EvWritable 0 false) = Some (Some (s1, [EvClose i])) /\
    nth_error (socks s1) i = option_map close_state (nth_error (socks s) i) /\ connection s1 = connection s /\ conns s1 = conns s.
Proof.
  intros s i Hc Hs Hd Hk. cbn [step_core]. rewrite Hc, Hd. unfold handleWrite, removeAndResetChannel. rewrite Hs, Hc. cbn. rewrite Hk. cbn.
  eexists. split; [reflexivity|]. cbn. rewrite nth_error_upd_same. auto.
Qed.
