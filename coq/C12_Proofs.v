(* C12_Proofs: the statements exported to Properties_C12.v, assembled from C12_Hyg (socket hygiene, all histories),
   C12_Trace (trace automaton, all histories) and the witnesses of the findings. *)
From Coq Require Import List ZArith Lia Bool Arith.
From Muduo Require Import Gen_Consts Gen_C12 C12_Model C12_Hyg C12_Trace.
Import ListNotations.
Local Open Scope Z_scope.

(* a history all of whose executed steps satisfy a contract c (rejected ops did not happen) *)
Fixpoint admissible_with (c : st -> op -> bool) (s : st) (l : list op) : Prop :=
  match l with
  | [] => True
  | o :: r =>
      match step s o with
      | Rejected => admissible_with c s r
      | Fault => c s o = true
      | Ok s' _ => c s o = true /\ admissible_with c s' r
      end
  end.
Fixpoint admissible_b (c : st -> op -> bool) (s : st) (l : list op) : bool :=
  match l with
  | [] => true
  | o :: r =>
      match step s o with
      | Rejected => admissible_b c s r
      | Fault => c s o
      | Ok s' _ => c s o && admissible_b c s' r
      end
  end.
Lemma admissible_b_ok c l : forall s, admissible_b c s l = true -> admissible_with c s l.
Proof.
  induction l as [|o r IH]; intros s; cbn [admissible_b admissible_with]; auto.
  destruct (step s o) as [s' ev| |]; auto.
  intros H. apply andb_prop in H. destruct H. split; auto.
Qed.
Ltac adm := apply admissible_b_ok; vm_compute; reflexivity.
Ltac runs := vm_compute; reflexivity.
Definition admissible := admissible_with contract.
Definition text_admissible := admissible_with text_contract.

Definition REF := ConnectResult ECONNREFUSED.

(* ---- F-10: connect; (refused); stop; connect inside the back-off window *)
Definition w_f10 : list op := [REF; Connect; Stop; RunPending; Connect; TimerFire].
Definition w_f10_chains : list op := [REF; Connect; Stop; RunPending; REF; Connect].
Definition w_f10b : list op := [REF; Connect; Stop; RunPending; TimerFire; REF; Connect].

Lemma stop_then_connect_refuted :
  (* what the property text allows, yet the stale retry timer fires into the new attempt: Fault *)
  (text_admissible init w_f10 /\ run init w_f10 = None) /\
  (* two retry timers pending, and the new cycle's first retry is armed with 1000 ms *)
  (text_admissible init w_f10_chains /\
   exists s ev, run init w_f10_chains = Some (s, ev) /\ length (filter is_retry_timer (timers s)) = 2%nat /\
                In (EvArm 1000) ev /\ ~ backoff_ok 0 ev) /\
  (* even after the stale timer has expired the delay is not back at 500 *)
  (text_admissible init w_f10b /\
   exists s ev, run init w_f10b = Some (s, ev) /\ timers s <> [] /\ ~ backoff_ok 0 ev /\
                (* the only conjunct of `idle` that fails at the second connect is the delay *)
                exists s1 ev1, run init [REF; Connect; Stop; RunPending; TimerFire; REF] = Some (s1, ev1) /\
                               quiet s1 = true /\ idle s1 = false).
Proof.
  split; [|split].
  - split; [adm|runs].
  - split; [adm|].
    eexists _, _. split; [runs|]. split; [reflexivity|]. split; [cbn; auto 20|].
    cbn. intros H. decompose [and] H. discriminate.
  - split; [adm|].
    eexists _, _. split; [runs|]. split; [discriminate|]. split.
    + cbn. intros H. decompose [and] H. discriminate.
    + eexists _, _. split; [runs|]. split; reflexivity.
Qed.

(* ---- F-16: state_ stays kConnected *)
Definition w_f16 : list op := [Connect; EvWritable 0 false; RunPending; Down; RunPending; Connect].
Lemma reconnect_refuted : text_admissible init w_f16 /\ run init w_f16 = None.
Proof. split; [adm|runs]. Qed.

(* ---- F-17: connect() while resetChannel is still queued *)
Definition w_f17 : list op := [Connect; Stop; RunPending; Connect].
Lemma connect_in_teardown_iteration_refuted : text_admissible init w_f17 /\ run init w_f17 = None.
Proof. split; [adm|runs]. Qed.

(* ---- F-18: ~TcpClient with a connection while a Connector functor is queued *)
Definition w_f18a : list op := [Connect; EvWritable 0 false; Destroy].
Definition w_f18b : list op := [Connect; EvWritable 0 false; RunPending; Stop; Destroy; RunPending].
Lemma destroy_connected_refuted :
  (text_admissible init w_f18a /\ run init w_f18a = None) /\ (text_admissible init w_f18b /\ run init w_f18b = None).
Proof. split; (split; [adm|runs]). Qed.

(* ---- F-13: ~TcpClient on a foreign thread, cut at its mutex acquisitions *)
Definition w_f13a : list op := [EnableRetry; Connect; EvWritable 0 false; RunPending; XDestroyRead; Down; XDestroyRest].
Definition w_f13b : list op := [Connect; EvWritable 0 false; RunPending; XDestroyRead; XDestroyRest; Down].
Lemma foreign_destroy_refuted :
  (text_admissible init w_f13a /\ run init w_f13a = None) /\ (text_admissible init w_f13b /\ run init w_f13b = None).
Proof. split; (split; [adm|runs]). Qed.

(* ---- the environment contract `timely` is needed *)
Lemma stalled_loop_refuted :
  run init [Destroy; TimerFire; RunPending] = None /\ run init [Connect; EvError; TimerFire] = None.
Proof. split; vm_compute; reflexivity. Qed.

(* ---- non-vacuity: admissible histories that exercise every mechanism *)
Definition ex_backoff : list op :=
  [REF; Connect; REF; TimerFire; REF; TimerFire; TimerFire; EvWritable ETIMEDOUT false; RunPending; TimerFire; EvWritable 0 false; RunPending].
Definition ex_retry_cycle : list op :=
  [EnableRetry; Connect; EvWritable 0 false; RunPending; Down; RunPending; EvWritable 0 false; RunPending; Disconnect; Down; RunPending; Destroy; RunPending; TimerFire].
Definition ex_foreign : list op :=
  [XConnectFlags; XConnectEnq; RunPending; EvWritable 0 false; RunPending; UserHold; XDisconnectFlag; XDisconnectRest; RunPending;
   XStopFlags; XStopEnq; RunPending; Destroy; Down; RunPending; UserRelease].
Lemma examples_admissible :
  (admissible init ex_backoff /\ exists s ev, run init ex_backoff = Some (s, ev) /\ connection s = Some 0%nat /\
      filter (fun e => match e with EvArm _ => true | _ => false end) ev = [EvArm 500; EvArm 1000; EvArm 2000; EvArm 4000]) /\
  (admissible init ex_retry_cycle /\ exists s ev, run init ex_retry_cycle = Some (s, ev) /\ k_dead s = true /\
      socks s = [HandedClosed 1; HandedClosed 1]) /\
  (admissible init ex_foreign /\ exists s ev, run init ex_foreign = Some (s, ev) /\ k_dead s = true /\ socks s = [HandedClosed 1]).
Proof.
  split; [|split]; (split; [adm|]); eexists _, _; (split; [runs|]); split; reflexivity.
Qed.
