(* Properties_C12: a client connects once per cycle, retries with back-off, obeys stop/disconnect, keeps its
   sockets in order and can be destroyed at any point.
   Only statements, closed by [exact], with Print Assumptions and non-vacuity examples.
   The model (C12_Model: Connector + client side of TcpClient + the TcpConnection life cycle it touches) is tied to
   muduo/net/Connector.cc, TcpClient.cc by bin/check C12 (differential execution, regenerated facts Gen_C12/Gen_Consts). *)
From Coq Require Import List ZArith Lia Bool Arith.
From Muduo Require Import Gen_Consts Gen_C12 C12_Model C12_Hyg C12_Trace C12_Inv C12_Proofs C12_Loop C12_Progress.
Import ListNotations.
Local Open Scope Z_scope.

(* ---- regenerated facts the theorems rest on (G): both constants, the update expression, the errno table *)
Theorem C12_gen_backoff_facts :
  Connector_kInitRetryDelayMs = 500 /\ Connector_kMaxRetryDelayMs = 30000 /\
  (forall d, Connector_retry_next d = Z.min (2 * d) 30000) /\ Connector_retry_arms_before_update = true.
Proof. exact (conj G_init_delay (conj G_max_delay (conj G_retry_next G_arms_before_update))). Qed.
Print Assumptions C12_gen_backoff_facts.

(* the guards of the four anchored decisions (connect only if connect_, re-arm only if connect_, hand over only if connect_,
   reconnect iff retry_ && connect_), translated from the current source, are the tests the model makes *)
Theorem C12_gen_guards :
  (forall s, startInLoop s = startInLoop_src s) /\
  (forall s i, retry s i = retry_src s i) /\
  (forall s e b, handleWrite s e b = handleWrite_src s e b) /\
  (forall s c, removeConnection s c = removeConnection_src s c).
Proof. exact G_guards. Qed.
Print Assumptions C12_gen_guards.

Theorem C12_connect_classify :
  map classify [0; EINPROGRESS; EINTR; EISCONN] = [ActConnecting; ActConnecting; ActConnecting; ActConnecting] /\
  map classify [EAGAIN; EADDRINUSE; EADDRNOTAVAIL; ECONNREFUSED; ENETUNREACH] = [ActRetry; ActRetry; ActRetry; ActRetry; ActRetry] /\
  map classify [EACCES; EPERM; EAFNOSUPPORT; EALREADY; EBADF; EFAULT; ENOTSOCK] = [ActClose; ActClose; ActClose; ActClose; ActClose; ActClose; ActClose] /\
  map classify [ETIMEDOUT; EHOSTUNREACH; ECONNRESET; ENOBUFS; 12345] = [ActClose; ActClose; ActClose; ActClose; ActClose].
Proof. exact G_classify. Qed.
Print Assumptions C12_connect_classify.

Theorem C12_connect_never_drops_a_socket : forall e, classify e <> ActLeak.
Proof. exact classify_no_leak. Qed.
Print Assumptions C12_connect_never_drops_a_socket.

(* ---- socket hygiene: ALL histories (a Fault ends a history: run = None) *)
Theorem C12_socket_hygiene : forall l s ev, run init l = Some (s, ev) ->
  forall i x, nth_error (socks s) i = Some x ->
    (x = Open /\ k_chan s = Some (i, true)) \/ x = HandedOver \/ x = HandedClosed 1 \/ x = Closed 1.
Proof. exact hygiene_all_histories. Qed.
Print Assumptions C12_socket_hygiene.

Theorem C12_socket_hygiene_quiescent : forall l s ev, run init l = Some (s, ev) -> k_chan s = None ->
  forall i x, nth_error (socks s) i = Some x -> x = HandedOver \/ x = HandedClosed 1 \/ x = Closed 1.
Proof. exact hygiene_quiescent. Qed.
Print Assumptions C12_socket_hygiene_quiescent.

Theorem C12_handed_socket_has_owner : forall l s ev, run init l = Some (s, ev) ->
  forall i, nth_error (socks s) i = Some HandedOver \/ nth_error (socks s) i = Some (HandedClosed 1) ->
  exists c o, nth_error (conns s) c = Some o /\ csock o = i.
Proof. exact handed_has_owner. Qed.
Print Assumptions C12_handed_socket_has_owner.

Theorem C12_connection_owns_its_socket : forall l s ev, run init l = Some (s, ev) ->
  forall c o, nth_error (conns s) c = Some o ->
    nth_error (socks s) (csock o) = Some (if calive o then HandedOver else HandedClosed 1) /\
    (forall c' o', nth_error (conns s) c' = Some o' -> csock o' = csock o -> c' = c).
Proof. exact conn_sockets. Qed.
Print Assumptions C12_connection_owns_its_socket.

(* ---- the trace of every history is accepted by the specification automaton *)
Theorem C12_trace_accepted : forall l s ev, run init l = Some (s, ev) ->
  exists a, spec_run spec0 ev = Some a /\ sp_want a = k_connect s /\ sp_exp a = k_delay s.
Proof. exact trace_accepted. Qed.
Print Assumptions C12_trace_accepted.

(* back-off: in a cycle that began with delay d0 the retry timers are armed with d0, min(2 d0, 30000), ... *)
Theorem C12_backoff_shape : forall l s ev, run init l = Some (s, ev) -> arms_ok 500 ev.
Proof. exact trace_backoff_shape. Qed.
Print Assumptions C12_backoff_shape.

(* one connection per cycle; after it came up no attempt until the next cycle (start() or restart()) *)
Theorem C12_one_up_per_cycle : forall l s ev, run init l = Some (s, ev) -> cycle_ok true ev.
Proof. exact trace_cycle. Qed.
Print Assumptions C12_one_up_per_cycle.

(* after stop() nothing is handed over, reported or re-armed until the next start()/restart() *)
Theorem C12_stop_silences : forall l s ev, run init l = Some (s, ev) -> silent_ok false ev.
Proof. exact trace_silent. Qed.
Print Assumptions C12_stop_silences.

(* ---- histories under the hypothesis the property states, made precise (C12_Model.contract):
        connect() only when Idle (state kDisconnected, no channel, no connection, no other connect() in flight,
        no retry timer pending, delay at its initial value); timers `timely`;
        ~TcpClient on the loop thread, with a connection only while no functor of the Connector is queued;
        the user does not drop the last reference of a connection that is still up (release_ok).
        `admissible init l`: every executed step of l satisfies the contract (rejected ops did not happen). *)

(* destroy_safe_on_loop / crash freedom: no step of an admissible history is a Fault, i.e. no assert of
   Connector / TcpClient / TcpConnection / Channel fails and nothing is called through a pointer to a destroyed
   Connector, TcpClient (newConnection, removeConnection) or TcpConnection (shutdownInLoop) *)
Theorem C12_destroy_safe_on_loop : forall l, admissible init l -> run init l <> None.
Proof. exact no_fault. Qed.
Print Assumptions C12_destroy_safe_on_loop.

Theorem C12_step_safe : forall s o, reachable s -> contract s o = true -> step s o <> Fault.
Proof. exact step_safe. Qed.
Print Assumptions C12_step_safe.

(* ... and leaves nothing behind: once the functor queue and the timer queue have drained and the user holds no
   connection, the Connector is gone, every connection object is destroyed and has closed its descriptor, and EVERY socket
   ever created has been closed exactly once (by the connector, or by the connection it was handed to) *)
Theorem C12_destroy_no_leak : forall s, reachable s ->
  alive s = false -> pending s = [] -> timers s = [] -> (forall c o, nth_error (conns s) c = Some o -> cuser o = 0%nat) ->
  k_dead s = true /\ k_chan s = None /\ connection s = None /\
  (forall c o, nth_error (conns s) c = Some o -> calive o = false /\ nth_error (socks s) (csock o) = Some (HandedClosed 1)) /\
  (forall i x, nth_error (socks s) i = Some x -> x = Closed 1 \/ x = HandedClosed 1).
Proof. exact destroyed_quiescent. Qed.
Print Assumptions C12_destroy_no_leak.

(* back-off: every cycle starts at 500 ms and the k-th failed attempt of a cycle arms min(500 * 2^k, 30000) ms *)
Theorem C12_backoff : forall l s ev, admissible init l -> run init l = Some (s, ev) -> backoff_ok 0 ev.
Proof. exact backoff_admissible. Qed.
Print Assumptions C12_backoff.

(* reconnect iff retry_ && connect_: when the client's connection goes down, restart() (new cycle at 500 ms, new
   attempt in the same step) exactly when both flags are set; otherwise the step reports DOWN and nothing else *)
Theorem C12_retry_policy : forall s s' ev c o, reachable s ->
  find_down (conns s) 0 None = Some c -> nth_error (conns s) c = Some o -> ccb o = CbClient ->
  step s Down = Ok s' ev ->
  (c_retry s && c_connect s = true -> exists i e rest, ev = EvDown c :: EvWant :: EvCycle 500 :: EvAttempt i e :: rest) /\
  (c_retry s && c_connect s = false -> exists g, ev = EvDown c :: g /\ Forall is_connclose g).
Proof. exact retry_policy. Qed.
Print Assumptions C12_retry_policy.

(* disconnect() half-closes the current connection and touches nothing else (C03: shutdown()) *)
Theorem C12_disconnect_graceful : forall s c o, user_api_ok s = true -> connection s = Some c ->
  nth_error (conns s) c = Some o -> cst o = CConnected ->
  exists s1, step_core s Disconnect = Some (Some (s1, [EvFin c])) /\
    nth_error (conns s1) c = Some (c_set_fin true (c_set_st CDisconnecting o)) /\
    connection s1 = Some c /\ c_connect s1 = false /\ pending s1 = pending s /\ timers s1 = timers s /\
    k_state s1 = k_state s /\ k_chan s1 = k_chan s /\ k_connect s1 = k_connect s /\ socks s1 = socks s /\
    (forall c', c' <> c -> nth_error (conns s1) c' = nth_error (conns s) c').
Proof. exact disconnect_graceful. Qed.
Print Assumptions C12_disconnect_graceful.

(* an attempt that completes after stop() is closed, not handed over *)
Theorem C12_stop_closes_completing_attempt : forall s i, k_chan s = Some (i, true) -> k_state s = KConnecting ->
  k_dead s = false -> k_connect s = false ->
  exists s1, step_core s (EvWritable 0 false) = Some (Some (s1, [EvClose i])) /\
    nth_error (socks s1) i = option_map close_state (nth_error (socks s) i) /\ connection s1 = connection s /\ conns s1 = conns s.
Proof. exact completes_after_stop_is_closed. Qed.
Print Assumptions C12_stop_closes_completing_attempt.

(* ---- the environment contract `timely` derived from a live event loop.
        lcontract since s o: as `contract`, but for TimerFire / RunPending only `live`: nothing is queued, or the loop did not
        sleep (a timer is already due) and the functor queue was last run less than Bq = 498 ms ago; `since` is the time from
        which on everything queued was queued (threaded through the history, not part of the state). *)
Theorem C12_timely_derived : forall s q, lreachable s q -> min_due (timers s) <> None -> live q s true = true -> timely s = true.
Proof. exact timely_derived. Qed.
Print Assumptions C12_timely_derived.

Theorem C12_live_loop_admissible : forall l s q, Inv s -> Tinv s q -> ladmissible q s l -> admissible s l.
Proof. exact ladmissible_admissible. Qed.
Print Assumptions C12_live_loop_admissible.

Theorem C12_destroy_safe_live_loop : forall l, ladmissible 0 init l -> run init l <> None.
Proof. exact no_fault_live_loop. Qed.
Print Assumptions C12_destroy_safe_live_loop.

Example C12_live_loop_examples :
  (ladmissible 0 init ex_backoff /\ ladmissible 0 init ex_retry_cycle /\ ladmissible 0 init ex_foreign) /\
  (~ ladmissible 0 init [Destroy; TimerFire; RunPending] /\ ~ ladmissible 0 init [Connect; EvError; TimerFire]).
Proof. exact (conj live_loop_examples stalled_not_live). Qed.

(* ---- progress halves (the trace theorems above are safety: they constrain an event IF it occurs) *)

(* a failed attempt (SO_ERROR, self-connect, POLLERR) closes the socket and, iff connect_ is set, arms the retry timer with the
   current delay for now + delay in that very step and doubles the delay (capped) *)
Theorem C12_failed_attempt_arms : forall s i o, reachable s -> k_chan s = Some (i, true) -> k_dead s = false -> is_failure o ->
  exists s' ev, step s o = Ok s' ev /\ In (EvClose i) ev /\ k_state s' = KDisconnected /\
    (k_connect s = true -> In (EvArm (k_delay s)) ev /\ timers s' = timers s ++ [(now s + k_delay s, TRetry)] /\
                           k_delay s' = Z.min (2 * k_delay s) 30000) /\
    (k_connect s = false -> timers s' = timers s /\ forall d, ~ In (EvArm d) ev).
Proof. exact failed_attempt_arms. Qed.
Print Assumptions C12_failed_attempt_arms.

Theorem C12_refused_connect_arms : forall s e r, k_state s = KDisconnected -> k_connect s = true -> kq s = e :: r -> classify e = ActRetry ->
  exists s', startInLoop s = Some (s', [EvAttempt (length (socks s)) e; EvClose (length (socks s)); EvArm (k_delay s)]) /\
             timers s' = timers s ++ [(now s + k_delay s, TRetry)] /\ k_delay s' = Z.min (2 * k_delay s) 30000 /\ k_state s' = KDisconnected.
Proof. exact refused_connect_arms. Qed.
Print Assumptions C12_refused_connect_arms.

(* the expiry of the retry timer with connect_ set creates a new socket and attempts to connect *)
Theorem C12_timer_fires_attempt : forall s d, reachable s -> timely s = true -> In (d, TRetry) (timers s) ->
  (forall t0, min_due (timers s) = Some t0 -> d <= Z.max (now s) t0) -> k_connect s = true ->
  exists s' ev e, step s TimerFire = Ok s' ev /\ In (EvAttempt (length (socks s)) e) ev.
Proof. exact timer_fires_attempt. Qed.
Print Assumptions C12_timer_fires_attempt.

(* a completing attempt (writable, SO_ERROR 0, not a self-connect) with connect_ set reports the connection in that step *)
Theorem C12_success_reports_up : forall s i, reachable s -> k_chan s = Some (i, true) -> k_dead s = false -> k_connect s = true ->
  exists s' g, step s (EvWritable 0 false) = Ok s' ([EvHandOver i; EvUp (length (conns s))] ++ g) /\ Forall is_connclose g /\
    connection s' = Some (length (conns s)) /\ k_state s' = KConnected /\ length (conns s') = S (length (conns s)).
Proof. exact success_reports_up. Qed.
Print Assumptions C12_success_reports_up.

(* exactly one: whenever the environment lets an attempt succeed while the connection is wanted (visible hypotheses: the
   history so far is admissible, a channel is registered, connect_ is set, and the next event is the successful completion),
   the current cycle has exactly one UP (ups_after 0 = number of UPs since the last cycle start) *)
Theorem C12_exactly_one_up : forall l s0 ev0 i, admissible init l -> run init l = Some (s0, ev0) ->
  k_chan s0 = Some (i, true) -> k_dead s0 = false -> k_connect s0 = true ->
  exists s ev, run init (l ++ [EvWritable 0 false]) = Some (s, ev) /\ ups_after 0 ev = 1%nat /\
               connection s = Some (length (conns s0)) /\ admissible init (l ++ [EvWritable 0 false]).
Proof. exact exactly_one_up. Qed.
Print Assumptions C12_exactly_one_up.

(* ---- the findings: what the property text allows and the code does not survive *)
Theorem C12_stop_then_connect_refuted :
  (text_admissible init w_f10 /\ run init w_f10 = None) /\
  (text_admissible init w_f10_chains /\
   exists s ev, run init w_f10_chains = Some (s, ev) /\ length (filter is_retry_timer (timers s)) = 2%nat /\
                In (EvArm 1000) ev /\ ~ backoff_ok 0 ev) /\
  (text_admissible init w_f10b /\
   exists s ev, run init w_f10b = Some (s, ev) /\ timers s <> [] /\ ~ backoff_ok 0 ev /\
                exists s1 ev1, run init [REF; Connect; Stop; RunPending; TimerFire; REF] = Some (s1, ev1) /\
                               quiet s1 = true /\ idle s1 = false).
Proof. exact stop_then_connect_refuted. Qed.
Print Assumptions C12_stop_then_connect_refuted.

Theorem C12_reconnect_refuted : text_admissible init w_f16 /\ run init w_f16 = None.
Proof. exact reconnect_refuted. Qed.
Print Assumptions C12_reconnect_refuted.

Theorem C12_connect_in_teardown_iteration_refuted : text_admissible init w_f17 /\ run init w_f17 = None.
Proof. exact connect_in_teardown_iteration_refuted. Qed.
Print Assumptions C12_connect_in_teardown_iteration_refuted.

Theorem C12_destroy_connected_refuted :
  (text_admissible init w_f18a /\ run init w_f18a = None) /\ (text_admissible init w_f18b /\ run init w_f18b = None).
Proof. exact destroy_connected_refuted. Qed.
Print Assumptions C12_destroy_connected_refuted.

Theorem C12_foreign_destroy_refuted :
  (text_admissible init w_f13a /\ run init w_f13a = None) /\ (text_admissible init w_f13b /\ run init w_f13b = None) /\
  (text_admissible init w_f13c /\ run init w_f13c = None).
Proof. exact foreign_destroy_refuted. Qed.
Print Assumptions C12_foreign_destroy_refuted.

(* the user drops the last reference of a connection that ~TcpClient left to him while it is still up *)
Theorem C12_release_after_destroy_refuted : text_admissible init w_release /\ run init w_release = None.
Proof. exact release_after_destroy_refuted. Qed.
Print Assumptions C12_release_after_destroy_refuted.

Theorem C12_stalled_loop_refuted :
  run init [Destroy; TimerFire; RunPending] = None /\ run init [Connect; EvError; TimerFire] = None.
Proof. exact stalled_loop_refuted. Qed.
Print Assumptions C12_stalled_loop_refuted.

(* ---- non-vacuity: admissible histories through every mechanism *)
Example C12_examples :
  (admissible init ex_backoff /\ exists s ev, run init ex_backoff = Some (s, ev) /\ connection s = Some 0%nat /\
      filter (fun e => match e with EvArm _ => true | _ => false end) ev = [EvArm 500; EvArm 1000; EvArm 2000; EvArm 4000]) /\
  (admissible init ex_retry_cycle /\ exists s ev, run init ex_retry_cycle = Some (s, ev) /\ k_dead s = true /\
      socks s = [HandedClosed 1; HandedClosed 1]) /\
  (admissible init ex_foreign /\ exists s ev, run init ex_foreign = Some (s, ev) /\ k_dead s = true /\ socks s = [HandedClosed 1]).
Proof. exact examples_admissible. Qed.
