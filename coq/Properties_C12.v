(* Properties_C12: a client connects once per cycle, retries with back-off, obeys stop/disconnect, keeps its
   sockets in order and can be destroyed at any point.
   Only statements, closed by [exact], with Print Assumptions and non-vacuity examples.
   The model (C12_Model: Connector + client side of TcpClient + the TcpConnection life cycle it touches) is tied to
   muduo/net/Connector.cc, TcpClient.cc by bin/check C12 (differential execution, regenerated facts Gen_C12/Gen_Consts). *)
From Coq Require Import List ZArith Lia Bool Arith.
From Muduo Require Import Gen_Consts Gen_C12 C12_Model C12_Hyg C12_Trace C12_Proofs.
Import ListNotations.
Local Open Scope Z_scope.

(* ---- regenerated facts the theorems rest on (G): both constants, the update expression, the errno table *)
Theorem C12_gen_backoff_facts :
  Connector_kInitRetryDelayMs = 500 /\ Connector_kMaxRetryDelayMs = 30000 /\
  (forall d, Connector_retry_next d = Z.min (2 * d) 30000) /\ Connector_retry_arms_before_update = true.
Proof. exact (conj G_init_delay (conj G_max_delay (conj G_retry_next G_arms_before_update))). Qed.
Print Assumptions C12_gen_backoff_facts.

Theorem C12_connect_classify :
  map classify [0; EINPROGRESS; EINTR; EISCONN] = [ActConnecting; ActConnecting; ActConnecting; ActConnecting] /\
  map classify [EAGAIN; EADDRINUSE; EADDRNOTAVAIL; ECONNREFUSED; ENETUNREACH] = [ActRetry; ActRetry; ActRetry; ActRetry; ActRetry] /\
  map classify [EACCES; EPERM; EAFNOSUPPORT; EALREADY; EBADF; EFAULT; ENOTSOCK] = [ActClose; ActClose; ActClose; ActClose; ActClose; ActClose; ActClose] /\
  map classify [ETIMEDOUT; EHOSTUNREACH; ECONNRESET; ENOBUFS; 12345] = [ActClose; ActClose; ActClose; ActClose; ActClose].
Proof. exact G_classify. Qed.
Print Assumptions C12_connect_classify.

Theorem C12_connect_never_drops_a_socket : forall e, classify e <> ActLeak.
Proof. exact classify_no_leak. Qed.
Print Assumptions C12_connect_never_drops_a_socket.

(* ---- socket hygiene: ALL histories (a Fault ends a history: run = None) *)
Theorem C12_socket_hygiene : forall l s ev, run init l = Some (s, ev) ->
  forall i x, nth_error (socks s) i = Some x ->
    (x = Open /\ k_chan s = Some (i, true)) \/ x = HandedOver \/ x = HandedClosed 1 \/ x = Closed 1.
Proof. exact hygiene_all_histories. Qed.
Print Assumptions C12_socket_hygiene.

Theorem C12_socket_hygiene_quiescent : forall l s ev, run init l = Some (s, ev) -> k_chan s = None ->
  forall i x, nth_error (socks s) i = Some x -> x = HandedOver \/ x = HandedClosed 1 \/ x = Closed 1.
Proof. exact hygiene_quiescent. Qed.
Print Assumptions C12_socket_hygiene_quiescent.

Theorem C12_connection_owns_its_socket : forall l s ev, run init l = Some (s, ev) ->
  forall c o, nth_error (conns s) c = Some o ->
    nth_error (socks s) (csock o) = Some (if calive o then HandedOver else HandedClosed 1) /\
    (forall c' o', nth_error (conns s) c' = Some o' -> csock o' = csock o -> c' = c).
Proof. exact conn_sockets. Qed.
Print Assumptions C12_connection_owns_its_socket.

(* ---- the trace of every history is accepted by the specification automaton *)
Theorem C12_trace_accepted : forall l s ev, run init l = Some (s, ev) ->
  exists a, spec_run spec0 ev = Some a /\ sp_want a = k_connect s /\ sp_exp a = k_delay s.
Proof. exact trace_accepted. Qed.
Print Assumptions C12_trace_accepted.

(* back-off: in a cycle that began with delay d0 the retry timers are armed with d0, min(2 d0, 30000), ... *)
Theorem C12_backoff_shape : forall l s ev, run init l = Some (s, ev) -> arms_ok 500 ev.
Proof. exact trace_backoff_shape. Qed.
Print Assumptions C12_backoff_shape.

(* one connection per cycle; after it came up no attempt until the next cycle (start() or restart()) *)
Theorem C12_one_up_per_cycle : forall l s ev, run init l = Some (s, ev) -> cycle_ok true ev.
Proof. exact trace_cycle. Qed.
Print Assumptions C12_one_up_per_cycle.

(* after stop() nothing is handed over, reported or re-armed until the next start()/restart() *)
Theorem C12_stop_silences : forall l s ev, run init l = Some (s, ev) -> silent_ok false ev.
Proof. exact trace_silent. Qed.
Print Assumptions C12_stop_silences.

(* ---- the findings: what the property text allows and the code does not survive *)
Theorem C12_stop_then_connect_refuted :
  (text_admissible init w_f10 /\ run init w_f10 = None) /\
  (text_admissible init w_f10_chains /\
   exists s ev, run init w_f10_chains = Some (s, ev) /\ length (filter is_retry_timer (timers s)) = 2%nat /\
                In (EvArm 1000) ev /\ ~ backoff_ok 0 ev) /\
  (text_admissible init w_f10b /\
   exists s ev, run init w_f10b = Some (s, ev) /\ timers s <> [] /\ ~ backoff_ok 0 ev /\
                exists s1 ev1, run init [REF; Connect; Stop; RunPending; TimerFire; REF] = Some (s1, ev1) /\
                               quiet s1 = true /\ idle s1 = false).
Proof. exact stop_then_connect_refuted. Qed.
Print Assumptions C12_stop_then_connect_refuted.

Theorem C12_reconnect_refuted : text_admissible init w_f16 /\ run init w_f16 = None.
Proof. exact reconnect_refuted. Qed.
Print Assumptions C12_reconnect_refuted.

Theorem C12_connect_in_teardown_iteration_refuted : text_admissible init w_f17 /\ run init w_f17 = None.
Proof. exact connect_in_teardown_iteration_refuted. Qed.
Print Assumptions C12_connect_in_teardown_iteration_refuted.

Theorem C12_destroy_connected_refuted :
  (text_admissible init w_f18a /\ run init w_f18a = None) /\ (text_admissible init w_f18b /\ run init w_f18b = None).
Proof. exact destroy_connected_refuted. Qed.
Print Assumptions C12_destroy_connected_refuted.

Theorem C12_foreign_destroy_refuted :
  (text_admissible init w_f13a /\ run init w_f13a = None) /\ (text_admissible init w_f13b /\ run init w_f13b = None).
Proof. exact foreign_destroy_refuted. Qed.
Print Assumptions C12_foreign_destroy_refuted.

Theorem C12_stalled_loop_refuted :
  run init [Destroy; TimerFire; RunPending] = None /\ run init [Connect; EvError; TimerFire] = None.
Proof. exact stalled_loop_refuted. Qed.
Print Assumptions C12_stalled_loop_refuted.

(* ---- non-vacuity: admissible histories through every mechanism *)
Example C12_examples :
  (admissible init ex_backoff /\ exists s ev, run init ex_backoff = Some (s, ev) /\ connection s = Some 0%nat /\
      filter (fun e => match e with EvArm _ => true | _ => false end) ev = [EvArm 500; EvArm 1000; EvArm 2000; EvArm 4000]) /\
  (admissible init ex_retry_cycle /\ exists s ev, run init ex_retry_cycle = Some (s, ev) /\ k_dead s = true /\
      socks s = [HandedClosed 1; HandedClosed 1]) /\
  (admissible init ex_foreign /\ exists s ev, run init ex_foreign = Some (s, ev) /\ k_dead s = true /\ socks s = [HandedClosed 1]).
Proof. exact examples_admissible. Qed.
