(* Properties_C12: a client connects once per cycle, retries with back-off, obeys stop/disconnect, keeps its
   sockets in order and can be destroyed at any point.
   Only statements, closed by [exact], with Print Assumptions and non-vacuity examples.
   The model (C12_Model: Connector + client side of TcpClient + the TcpConnection life cycle it touches) is tied to
   muduo/net/Connector.cc, TcpClient.cc by bin/check C12 (differential execution, regenerated facts Gen_C12/Gen_Consts). *)
From Coq Require Import List ZArith Lia Bool Arith.
From Muduo Require Import Gen_Consts Gen_C12 C12_Model C12_Hyg C12_Trace C12_Inv C12_Proofs C12_Loop C12_Progress C12_LoopEnd C12_Chain.
Import ListNotations.
Local Open Scope Z_scope.

(* ---- regenerated facts the theorems rest on (G): both constants, the update expression, the errno table *)
Theorem C12_gen_backoff_facts :
  Connector_kInitRetryDelayMs = 500 /\ Connector_kMaxRetryDelayMs = 30000 /\
  (forall d, Connector_retry_next d = Z.min (2 * d) 30000) /\ Connector_retry_arms_before_update = true.
Proof. exact (conj G_init_delay (conj G_max_delay (conj G_retry_next G_arms_before_update))). Qed.
Print Assumptions C12_gen_backoff_facts.

(* the guards of the four anchored decisions (connect only if connect_, re-arm only if connect_, hand over only if connect_,
   reconnect iff retry_ && connect_), translated from the current source, are the tests the model makes *)
Theorem C12_gen_guards :
  (forall s, startInLoop s = startInLoop_src s) /\
  (forall s i, retry s i = retry_src s i) /\
  (forall s e b, handleWrite s e b = handleWrite_src s e b) /\
  (forall s c, removeConnection s c = removeConnection_src s c).
Proof. exact G_guards. Qed.
Print Assumptions C12_gen_guards.

Theorem C12_connect_classify :
  map classify [0; EINPROGRESS; EINTR; EISCONN] = [ActConnecting; ActConnecting; ActConnecting; ActConnecting] /\
  map classify [EAGAIN; EADDRINUSE; EADDRNOTAVAIL; ECONNREFUSED; ENETUNREACH] = [ActRetry; ActRetry; ActRetry; ActRetry; ActRetry] /\
  map classify [EACCES; EPERM; EAFNOSUPPORT; EALREADY; EBADF; EFAULT; ENOTSOCK] = [ActClose; ActClose; ActClose; ActClose; ActClose; ActClose; ActClose] /\
  map classify [ETIMEDOUT; EHOSTUNREACH; ECONNRESET; ENOBUFS; 12345] = [ActClose; ActClose; ActClose; ActClose; ActClose].
Proof. exact G_classify. Qed.
Print Assumptions C12_connect_classify.

Theorem C12_connect_never_drops_a_socket : forall e, classify e <> ActLeak.
Proof. exact classify_no_leak. Qed.
Print Assumptions C12_connect_never_drops_a_socket.

(* ---- socket hygiene: ALL histories (a Fault ends a history: run = None) *)
Theorem C12_socket_hygiene : forall l s ev, run init l = Some (s, ev) ->
  forall i x, nth_error (socks s) i = Some x ->
    (x = Open /\ k_chan s = Some (i, true)) \/ x = HandedOver \/ x = HandedClosed 1 \/ x = Closed 1.
Proof. exact hygiene_all_histories. Qed.
Print Assumptions C12_socket_hygiene.

Theorem C12_socket_hygiene_quiescent : forall l s ev, run init l = Some (s, ev) -> k_chan s = None ->
  forall i x, nth_error (socks s) i = Some x -> x = HandedOver \/ x = HandedClosed 1 \/ x = Closed 1.
Proof. exact hygiene_quiescent. Qed.
Print Assumptions C12_socket_hygiene_quiescent.

Theorem C12_handed_socket_has_owner : forall l s ev, run init l = Some (s, ev) ->
  forall i, nth_error (socks s) i = Some HandedOver \/ nth_error (socks s) i = Some (HandedClosed 1) ->
  exists c o, nth_error (conns s) c = Some o /\ csock o = i.
Proof. exact handed_has_owner. Qed.
Print Assumptions C12_handed_socket_has_owner.

Theorem C12_connection_owns_its_socket : forall l s ev, run init l = Some (s, ev) ->
  forall c o, nth_error (conns s) c = Some o ->
    nth_error (socks s) (csock o) = Some (if calive o then HandedOver else HandedClosed 1) /\
    (forall c' o', nth_error (conns s) c' = Some o' -> csock o' = csock o -> c' = c).
Proof. exact conn_sockets. Qed.
Print Assumptions C12_connection_owns_its_socket.

(* ---- the trace of every history is accepted by the specification automaton *)
Theorem C12_trace_accepted : forall l s ev, run init l = Some (s, ev) ->
  exists a, spec_run spec0 ev = Some a /\ sp_want a = k_connect s /\ sp_exp a = k_delay s.
Proof. exact trace_accepted. Qed.
Print Assumptions C12_trace_accepted.

(* back-off: in a cycle that began with delay d0 the retry timers are armed with d0, min(2 d0, 30000), ... *)
Theorem C12_backoff_shape : forall l s ev, run init l = Some (s, ev) -> arms_ok 500 ev.
Proof. exact trace_backoff_shape. Qed.
Print Assumptions C12_backoff_shape.

(* one connection per cycle; after it came up no attempt until the next cycle (start() or restart()) *)
Theorem C12_one_up_per_cycle : forall l s ev, run init l = Some (s, ev) -> cycle_ok true ev.
Proof. exact trace_cycle. Qed.
Print Assumptions C12_one_up_per_cycle.

(* after stop() nothing is handed over, reported or re-armed until the next start()/restart() *)
Theorem C12_stop_silences : forall l s ev, run init l = Some (s, ev) -> silent_ok false ev.
Proof. exact trace_silent. Qed.
Print Assumptions C12_stop_silences.

(* ---- NAMING: the theorems below that end in `_partial` hold for `admissible` histories / `reachable` states only, i.e. under
        `contract`, whose clauses (Idle, destroy_ok, release_ok, loop_outlives_cleanup, no foreign destruction) are the negations of
        the recorded findings F-10/F-16/F-17, F-18, F-24, F-28, F-13: the faithful model falsifies the property text without them
        (the `_refuted` theorems at the end).  The satellite and progress theorems quantified over `reachable` / `admissible`
        (C12_loop_end_no_leak, C12_destroy_then_loop_end_safe, C12_drained_loop_outlives_cleanup, C12_failed_attempt_*,
        C12_timer_fires_attempt*, C12_success_reports_up, C12_exactly_one_up, C12_retry_chain) are partial in the same sense; their
        statements show the hypothesis. *)
(* ---- histories under the hypothesis the property states, made precise (C12_Model.contract):
        connect() only when Idle (state kDisconnected, no channel, no connection, no other connect() in flight,
        no retry timer pending, delay at its initial value); timers `timely`;
        ~TcpClient on the loop thread, with a connection only while no functor of the Connector is queued;
        the user does not drop the last reference of a connection that is still up (release_ok).
        `admissible init l`: every executed step of l satisfies the contract (rejected ops did not happen). *)

(* ... and (REVIEW_E E-2) the EventLoop outlives the client's cleanup: `LoopEnd` (EventLoop::~EventLoop after the loop has stopped
   for good: queued functors and timers are destroyed UNRUN) only in a state in which nothing that is dropped was still
   needed (`loop_outlives_cleanup`).  The clause of `contract` for LoopEnd, spelled out: *)
Theorem C12_contract_loop_end_clause : forall s,
  contract s LoopEnd = loop_outlives_cleanup s /\
  (loop_outlives_cleanup s = true <->
   k_chan s = None /\ forall c o, nth_error (conns s) c = Some o -> conn_done o = true).
Proof. exact (fun s => conj eq_refl (loop_outlives_spec s)). Qed.
Print Assumptions C12_contract_loop_end_clause.

(* on reachable states on which LoopEnd is not Rejected the hypothesis is EXACTLY "LoopEnd does not fault" (REVIEW_F F-5): for this op
   the clause is the negation of the fault condition, and C12_destroy_safe_on_loop_partial / C12_step_safe_partial say nothing about
   LoopEnd beyond it.  The content is: C12_drained_loop_outlives_cleanup (when it holds), C12_loop_end_no_leak (what it gives),
   C12_destroy_then_loop_end_safe (which clients may be destroyed together with their loop) *)
Theorem C12_loop_outlives_cleanup_exact : forall s, reachable s -> step_core s LoopEnd <> None ->
  (loop_outlives_cleanup s = true <-> step s LoopEnd <> Fault).
Proof. exact loop_outlives_exact. Qed.
Print Assumptions C12_loop_outlives_cleanup_exact.

(* destroy_safe_on_loop / crash freedom: no step of an admissible history is a Fault, i.e. no assert of
   Connector / TcpClient / TcpConnection / Channel fails and nothing is called through a pointer to a destroyed
   Connector, TcpClient (newConnection, removeConnection) or TcpConnection (shutdownInLoop).
   `admissible` includes loop_outlives_cleanup at every LoopEnd (C12_contract_loop_end_clause); that this hypothesis cannot
   be dropped: C12_loop_outlives_cleanup_refuted, C12_destroy_then_loop_end_refuted *)
Theorem C12_destroy_safe_on_loop_partial : forall l, admissible init l -> run init l <> None.
Proof. exact no_fault. Qed.
Print Assumptions C12_destroy_safe_on_loop_partial.

Theorem C12_step_safe_partial : forall s o, reachable s -> contract s o = true -> step s o <> Fault.
Proof. exact step_safe. Qed.
Print Assumptions C12_step_safe_partial.

(* ... and leaves nothing behind: once the functor queue and the timer queue have drained and the user holds no
   connection, the Connector is gone, every connection object is destroyed and has closed its descriptor, and EVERY socket
   ever created has been closed exactly once (by the connector, or by the connection it was handed to) *)
Theorem C12_destroy_no_leak_partial : forall s, reachable s ->
  alive s = false -> pending s = [] -> timers s = [] -> (forall c o, nth_error (conns s) c = Some o -> cuser o = 0%nat) ->
  k_dead s = true /\ k_chan s = None /\ connection s = None /\
  (forall c o, nth_error (conns s) c = Some o -> calive o = false /\ nth_error (socks s) (csock o) = Some (HandedClosed 1)) /\
  (forall i x, nth_error (socks s) i = Some x -> x = Closed 1 \/ x = HandedClosed 1).
Proof. exact destroyed_quiescent. Qed.
Print Assumptions C12_destroy_no_leak_partial.

(* the hypotheses `pending s = []`, `timers s = []` of C12_destroy_no_leak_partial say that the loop kept running until everything
   ~TcpClient queued had run; they imply loop_outlives_cleanup, so the EventLoop may be destroyed then *)
Theorem C12_drained_loop_outlives_cleanup : forall s, reachable s -> alive s = false -> drained s = true ->
  (forall c o, nth_error (conns s) c = Some o -> cuser o = 0%nat) -> loop_outlives_cleanup s = true.
Proof. exact drained_outlives. Qed.
Print Assumptions C12_drained_loop_outlives_cleanup.

(* ~EventLoop under the hypothesis: the step is not a Fault and leaves nothing behind (Connector gone, every connection object
   destroyed with its descriptor closed, every socket ever created closed exactly once) *)
Theorem C12_loop_end_no_leak : forall s s' ev, reachable s -> loop_outlives_cleanup s = true -> step s LoopEnd = Ok s' ev ->
  k_dead s' = true /\ k_chan s' = None /\ pending s' = [] /\ timers s' = [] /\
  (forall c o, nth_error (conns s') c = Some o -> calive o = false /\ nth_error (socks s') (csock o) = Some (HandedClosed 1)) /\
  (forall i x, nth_error (socks s') i = Some x -> x = Closed 1 \/ x = HandedClosed 1).
Proof. exact loop_end_no_leak. Qed.
Print Assumptions C12_loop_end_no_leak.

(* which client states make `~TcpClient; ~EventLoop` (scope exit, nothing run in between) safe: no connection, no channel
   (no attempt in progress, no resetChannel queued), no connection object still waiting for connectDestroyed, no user reference
   - i.e. an idle, a stopped-and-drained, or a backing-off client.  stopInLoop, the 1 s timer and a pending retry timer are
   dropped unrun, harmlessly *)
Theorem C12_destroy_then_loop_end_safe : forall s, reachable s ->
  user_api_ok s = true -> xc s = false -> xs s = false -> xd s = false ->
  connection s = None -> loop_outlives_cleanup s = true ->
  (forall c o, nth_error (conns s) c = Some o -> cuser o = 0%nat) ->
  exists s1 ev1 s2 ev2, step s Destroy = Ok s1 ev1 /\ contract s Destroy = true /\
    loop_outlives_cleanup s1 = true /\ step s1 LoopEnd = Ok s2 ev2 /\
    k_dead s2 = true /\ pending s2 = [] /\ timers s2 = [] /\
    (forall c o, nth_error (conns s2) c = Some o -> calive o = false) /\
    (forall i x, nth_error (socks s2) i = Some x -> x = Closed 1 \/ x = HandedClosed 1).
Proof. exact destroy_then_loop_end_safe. Qed.
Print Assumptions C12_destroy_then_loop_end_safe.

(* back-off: every cycle starts at 500 ms and the k-th failed attempt of a cycle arms min(500 * 2^k, 30000) ms *)
Theorem C12_backoff_partial : forall l s ev, admissible init l -> run init l = Some (s, ev) -> backoff_ok 0 ev.
Proof. exact backoff_admissible. Qed.
Print Assumptions C12_backoff_partial.

(* reconnect iff retry_ && connect_: when the client's connection goes down, restart() (new cycle at 500 ms, new
   attempt in the same step) exactly when both flags are set; otherwise the step reports DOWN and nothing else *)
Theorem C12_retry_policy_partial : forall s s' ev c o, reachable s ->
  find_down (conns s) 0 None = Some c -> nth_error (conns s) c = Some o -> ccb o = CbClient ->
  step s Down = Ok s' ev ->
  (c_retry s && c_connect s = true -> exists i e rest, ev = EvDown c :: EvWant :: EvCycle 500 :: EvAttempt i e :: rest) /\
  (c_retry s && c_connect s = false -> exists g, ev = EvDown c :: g /\ Forall is_connclose g).
Proof. exact retry_policy. Qed.
Print Assumptions C12_retry_policy_partial.

(* disconnect() half-closes the current connection and touches nothing else (C03: shutdown()) *)
Theorem C12_disconnect_graceful : forall s c o, user_api_ok s = true -> connection s = Some c ->
  nth_error (conns s) c = Some o -> cst o = CConnected ->
  exists s1, step_core s Disconnect = Some (Some (s1, [EvFin c])) /\
    nth_error (conns s1) c = Some (c_set_fin true (c_set_st CDisconnecting o)) /\
    connection s1 = Some c /\ c_connect s1 = false /\ pending s1 = pending s /\ timers s1 = timers s /\
    k_state s1 = k_state s /\ k_chan s1 = k_chan s /\ k_connect s1 = k_connect s /\ socks s1 = socks s /\
    (forall c', c' <> c -> nth_error (conns s1) c' = nth_error (conns s) c').
Proof. exact disconnect_graceful. Qed.
Print Assumptions C12_disconnect_graceful.

(* an attempt that completes after stop() is closed, not handed over *)
Theorem C12_stop_closes_completing_attempt : forall s i, k_chan s = Some (i, true) -> k_state s = KConnecting ->
  k_dead s = false -> k_connect s = false ->
  exists s1, step_core s (EvWritable 0 false) = Some (Some (s1, [EvClose i])) /\
    nth_error (socks s1) i = option_map close_state (nth_error (socks s) i) /\ connection s1 = connection s /\ conns s1 = conns s.
Proof. exact completes_after_stop_is_closed. Qed.
Print Assumptions C12_stop_closes_completing_attempt.

(* ---- the environment contract `timely` derived from a live event loop.
        lcontract since s o: as `contract`, but for TimerFire / RunPending only `live`: nothing is queued, or the loop did not
        sleep (a timer is already due) and the functor queue was last run less than Bq = 498 ms ago; `since` is the time from
        which on everything queued was queued (threaded through the history, not part of the state). *)
Theorem C12_timely_derived : forall s q, lreachable s q -> min_due (timers s) <> None -> live q s true = true -> timely s = true.
Proof. exact timely_derived. Qed.
Print Assumptions C12_timely_derived.

Theorem C12_live_loop_admissible : forall l s q, Inv s -> Tinv s q -> ladmissible q s l -> admissible s l.
Proof. exact ladmissible_admissible. Qed.
Print Assumptions C12_live_loop_admissible.

Theorem C12_destroy_safe_live_loop_partial : forall l, ladmissible 0 init l -> run init l <> None.
Proof. exact no_fault_live_loop. Qed.
Print Assumptions C12_destroy_safe_live_loop_partial.

Example C12_live_loop_examples :
  (ladmissible 0 init ex_backoff /\ ladmissible 0 init ex_retry_cycle /\ ladmissible 0 init ex_foreign) /\
  (~ ladmissible 0 init [Destroy; TimerFire; RunPending] /\ ~ ladmissible 0 init [Connect; EvError; TimerFire]).
Proof. exact (conj live_loop_examples stalled_not_live). Qed.

(* ---- progress halves (the trace theorems above are safety: they constrain an event IF it occurs) *)

(* a failed attempt (SO_ERROR, self-connect, POLLERR) closes the socket and, iff connect_ is set, arms the retry timer with the
   current delay for now + delay in that very step and doubles the delay (capped) *)
Theorem C12_failed_attempt_arms : forall s i o, reachable s -> k_chan s = Some (i, true) -> k_dead s = false -> is_failure o ->
  exists s' ev, step s o = Ok s' ev /\ In (EvClose i) ev /\ k_state s' = KDisconnected /\
    (k_connect s = true -> In (EvArm (k_delay s)) ev /\ timers s' = timers s ++ [(now s + k_delay s, TRetry)] /\
                           k_delay s' = Z.min (2 * k_delay s) 30000) /\
    (k_connect s = false -> timers s' = timers s /\ forall d, ~ In (EvArm d) ev).
Proof. exact failed_attempt_arms. Qed.
Print Assumptions C12_failed_attempt_arms.

Theorem C12_refused_connect_arms : forall s e r, k_state s = KDisconnected -> k_connect s = true -> kq s = e :: r -> classify e = ActRetry ->
  exists s', startInLoop s = Some (s', [EvAttempt (length (socks s)) e; EvClose (length (socks s)); EvArm (k_delay s)]) /\
             timers s' = timers s ++ [(now s + k_delay s, TRetry)] /\ k_delay s' = Z.min (2 * k_delay s) 30000 /\ k_state s' = KDisconnected.
Proof. exact refused_connect_arms. Qed.
Print Assumptions C12_refused_connect_arms.

(* the expiry of the retry timer with connect_ set creates a new socket and attempts to connect *)
Theorem C12_timer_fires_attempt : forall s d, reachable s -> timely s = true -> In (d, TRetry) (timers s) ->
  (forall t0, min_due (timers s) = Some t0 -> d <= Z.max (now s) t0) -> k_connect s = true ->
  exists s' ev e, step s TimerFire = Ok s' ev /\ In (EvAttempt (length (socks s)) e) ev.
Proof. exact timer_fires_attempt. Qed.
Print Assumptions C12_timer_fires_attempt.

(* a completing attempt (writable, SO_ERROR 0, not a self-connect) with connect_ set reports the connection in that step *)
Theorem C12_success_reports_up : forall s i, reachable s -> k_chan s = Some (i, true) -> k_dead s = false -> k_connect s = true ->
  exists s' g, step s (EvWritable 0 false) = Ok s' ([EvHandOver i; EvUp (length (conns s))] ++ g) /\ Forall is_connclose g /\
    connection s' = Some (length (conns s)) /\ k_state s' = KConnected /\ length (conns s') = S (length (conns s)).
Proof. exact success_reports_up. Qed.
Print Assumptions C12_success_reports_up.

(* exactly one: whenever the environment lets an attempt succeed while the connection is wanted (visible hypotheses: the
   history so far is admissible, a channel is registered, connect_ is set, and the next event is the successful completion),
   the current cycle has exactly one UP (ups_after 0 = number of UPs since the last cycle start) *)
Theorem C12_exactly_one_up : forall l s0 ev0 i, admissible init l -> run init l = Some (s0, ev0) ->
  k_chan s0 = Some (i, true) -> k_dead s0 = false -> k_connect s0 = true ->
  exists s ev, run init (l ++ [EvWritable 0 false]) = Some (s, ev) /\ ups_after 0 ev = 1%nat /\
               connection s = Some (length (conns s0)) /\ admissible init (l ++ [EvWritable 0 false]).
Proof. exact exactly_one_up. Qed.
Print Assumptions C12_exactly_one_up.

(* ---- the progress halves with their whole post-state, so that they chain (REVIEW_E E-7) *)

(* a failed attempt that is wanted: events, timer, delay, and what the next steps need (channel unregistered with resetChannel
   queued, state kDisconnected, kernel script / clock / client untouched) *)
Theorem C12_failed_attempt_state : forall s i o, reachable s -> k_chan s = Some (i, true) -> k_dead s = false -> k_connect s = true -> is_failure o ->
  exists s' g, step s o = Ok s' ([EvClose i; EvArm (k_delay s)] ++ g) /\ Forall is_connclose g /\ contract s o = true /\
    k_state s' = KDisconnected /\ k_chan s' = Some (i, false) /\ pending s' = pending s ++ [FResetChannel] /\
    timers s' = timers s ++ [(now s + k_delay s, TRetry)] /\ k_delay s' = Z.min (2 * k_delay s) 30000 /\
    k_connect s' = true /\ k_dead s' = false /\ kq s' = kq s /\ now s' = now s + 1 /\ alive s' = true /\
    length (conns s') = length (conns s) /\ length (socks s') = length (socks s) /\ connection s' = None.
Proof. exact failed_attempt_state. Qed.
Print Assumptions C12_failed_attempt_state.

(* the loop's next functor batch runs the queued resetChannel and nothing else changes *)
Theorem C12_reset_batch_state : forall s, reachable s -> alive s = true -> k_dead s = false -> pending s = [FResetChannel] ->
  exists s' g, step s RunPending = Ok s' g /\ Forall is_connclose g /\
    k_chan s' = None /\ pending s' = [] /\ k_state s' = k_state s /\ timers s' = timers s /\ k_delay s' = k_delay s /\
    k_connect s' = k_connect s /\ k_dead s' = false /\ kq s' = kq s /\ now s' = now s + 1 /\ alive s' = true /\
    length (conns s') = length (conns s) /\ length (socks s') = length (socks s) /\ connection s' = connection s.
Proof. exact reset_batch_state. Qed.
Print Assumptions C12_reset_batch_state.

(* the link: "attempt started => state kConnecting with a registered channel on exactly that socket" (when ::connect proceeds),
   i.e. the premise of C12_success_reports_up / C12_failed_attempt_arms / C12_exactly_one_up; the step ends at max(now, d) + 1 *)
Theorem C12_timer_fires_attempt_state : forall s d, reachable s -> In (d, TRetry) (timers s) -> pending s = [] ->
  k_connect s = true -> k_dead s = false -> next_connect_proceeds s ->
  exists s' g e, step s TimerFire = Ok s' ([EvAttempt (length (socks s)) e] ++ g) /\ Forall is_connclose g /\ contract s TimerFire = true /\
    classify e = ActConnecting /\
    k_state s' = KConnecting /\ k_chan s' = Some (length (socks s), true) /\ k_connect s' = true /\ k_dead s' = false /\
    now s' = Z.max (now s) d + 1 /\ timers s' = [] /\ pending s' = [] /\ k_delay s' = k_delay s /\
    length (conns s') = length (conns s) /\ connection s' = connection s.
Proof. exact timer_fires_attempt_state. Qed.
Print Assumptions C12_timer_fires_attempt_state.

(* the chain: a wanted attempt in progress fails (o); the loop runs its functor batch; the environment fires the retry timer the failure
   armed and then lets the new attempt succeed.  Then: the extended history is admissible; the failure armed the current delay d; the new
   attempt was started by the step that set the clock to exactly (time of the failure) + d; its socket is the one handed over; the
   cycle has exactly one UP; the connection is the client's. *)
Theorem C12_retry_chain : forall l s0 ev0 i o, admissible init l -> run init l = Some (s0, ev0) ->
  k_chan s0 = Some (i, true) -> k_dead s0 = false -> k_connect s0 = true -> pending s0 = [] -> 2 <= k_delay s0 ->
  next_connect_proceeds s0 -> is_failure o ->
  let h := [o; RunPending; TimerFire; EvWritable 0 false] in
  exists s ev e g1 g2 g3 g4,
    run init (l ++ h) = Some (s, ev0 ++ ev) /\ admissible init (l ++ h) /\
    ev = ([EvClose i; EvArm (k_delay s0)] ++ g1) ++ g2 ++ ([EvAttempt (length (socks s0)) e] ++ g3) ++
         ([EvHandOver (length (socks s0)); EvUp (length (conns s0))] ++ g4) /\
    Forall is_connclose (g1 ++ g2 ++ g3 ++ g4) /\
    ups_after 0 (ev0 ++ ev) = 1%nat /\ connection s = Some (length (conns s0)) /\
    (exists s3 ev3, run init (l ++ [o; RunPending; TimerFire]) = Some (s3, ev0 ++ ev3) /\ now s3 = now s0 + k_delay s0 + 1 /\
                    k_state s3 = KConnecting /\ k_chan s3 = Some (length (socks s0), true) /\
                    k_delay s3 = Z.min (2 * k_delay s0) 30000).
Proof. exact retry_chain. Qed.
Print Assumptions C12_retry_chain.

(* its hypothesis on the delay holds (with 500) in every state of a live-loop history *)
Theorem C12_delay_at_least_500 : forall s q, lreachable s q -> 500 <= k_delay s.
Proof. exact delay_at_least_500. Qed.
Print Assumptions C12_delay_at_least_500.

Example C12_retry_chain_example : exists s0 ev0, admissible init [Connect] /\ run init [Connect] = Some (s0, ev0) /\
  k_chan s0 = Some (0%nat, true) /\ k_dead s0 = false /\ k_connect s0 = true /\ pending s0 = [] /\ 2 <= k_delay s0 /\
  next_connect_proceeds s0 /\ is_failure EvError.
Proof. exact retry_chain_example. Qed.

(* ---- the findings: what the property text allows and the code does not survive *)
Theorem C12_stop_then_connect_refuted :
  (text_admissible init w_f10 /\ run init w_f10 = None) /\
  (text_admissible init w_f10_chains /\
   exists s ev, run init w_f10_chains = Some (s, ev) /\ length (filter is_retry_timer (timers s)) = 2%nat /\
                In (EvArm 1000) ev /\ ~ backoff_ok 0 ev) /\
  (text_admissible init w_f10b /\
   exists s ev, run init w_f10b = Some (s, ev) /\ timers s <> [] /\ ~ backoff_ok 0 ev /\
                exists s1 ev1, run init [REF; Connect; Stop; RunPending; TimerFire; REF] = Some (s1, ev1) /\
                               quiet s1 = true /\ idle s1 = false).
Proof. exact stop_then_connect_refuted. Qed.
Print Assumptions C12_stop_then_connect_refuted.

Theorem C12_reconnect_refuted : text_admissible init w_f16 /\ run init w_f16 = None.
Proof. exact reconnect_refuted. Qed.
Print Assumptions C12_reconnect_refuted.

Theorem C12_connect_in_teardown_iteration_refuted : text_admissible init w_f17 /\ run init w_f17 = None.
Proof. exact connect_in_teardown_iteration_refuted. Qed.
Print Assumptions C12_connect_in_teardown_iteration_refuted.

Theorem C12_destroy_connected_refuted :
  (text_admissible init w_f18a /\ run init w_f18a = None) /\ (text_admissible init w_f18b /\ run init w_f18b = None).
Proof. exact destroy_connected_refuted. Qed.
Print Assumptions C12_destroy_connected_refuted.

Theorem C12_foreign_destroy_refuted :
  (text_admissible init w_f13a /\ run init w_f13a = None) /\ (text_admissible init w_f13b /\ run init w_f13b = None) /\
  (text_admissible init w_f13c /\ run init w_f13c = None).
Proof. exact foreign_destroy_refuted. Qed.
Print Assumptions C12_foreign_destroy_refuted.

(* the user drops the last reference of a connection that ~TcpClient left to him while it is still up *)
Theorem C12_release_after_destroy_refuted : text_admissible init w_release /\ run init w_release = None.
Proof. exact release_after_destroy_refuted. Qed.
Print Assumptions C12_release_after_destroy_refuted.

(* REVIEW_E E-2 (candidate finding, key client-destroyed-then-loop-destroyed): `EventLoop loop; TcpClient client(&loop, ..); ..
   loop.loop(); }` - ~TcpClient then ~EventLoop with nothing run in between (or one functor batch only).  Each witness satisfies
   every hypothesis the theorems had before (contract_any_loop_end) and everything the property text asks for, its prefix is
   admissible, the state before LoopEnd violates loop_outlives_cleanup, and LoopEnd is a Fault:
   connected (assert in ~TcpConnection), connecting (assert in ~Connector), connected + one batch (assert in ~Channel),
   peer closed in the last iteration (~Channel), failed attempt with resetChannel queued (~Connector) *)
Theorem C12_destroy_then_loop_end_refuted :
  e2_witness w_e2_connected /\ e2_witness w_e2_connecting /\ e2_witness w_e2_one_batch /\
  e2_witness w_e2_peer_closed /\ e2_witness w_e2_reset_queued.
Proof. exact destroy_then_loop_end_refuted. Qed.
Print Assumptions C12_destroy_then_loop_end_refuted.

(* the hypothesis loop_outlives_cleanup is needed: without it crash freedom is false *)
Theorem C12_loop_outlives_cleanup_refuted :
  exists l, admissible_with contract_any_loop_end init l /\ run init l = None.
Proof. exact loop_outlives_cleanup_refuted. Qed.
Print Assumptions C12_loop_outlives_cleanup_refuted.

Theorem C12_stalled_loop_refuted :
  run init [Destroy; TimerFire; RunPending] = None /\ run init [Connect; EvError; TimerFire] = None.
Proof. exact stalled_loop_refuted. Qed.
Print Assumptions C12_stalled_loop_refuted.

(* ---- non-vacuity: admissible histories through every mechanism *)
Example C12_examples :
  (admissible init ex_backoff /\ exists s ev, run init ex_backoff = Some (s, ev) /\ connection s = Some 0%nat /\
      filter (fun e => match e with EvArm _ => true | _ => false end) ev = [EvArm 500; EvArm 1000; EvArm 2000; EvArm 4000]) /\
  (admissible init ex_retry_cycle /\ exists s ev, run init ex_retry_cycle = Some (s, ev) /\ k_dead s = true /\
      socks s = [HandedClosed 1; HandedClosed 1]) /\
  (admissible init ex_foreign /\ exists s ev, run init ex_foreign = Some (s, ev) /\ k_dead s = true /\ socks s = [HandedClosed 1]).
Proof. exact examples_admissible. Qed.

(* ~TcpClient then ~EventLoop for an idle client, a client backing off, and after two functor batches: admissible, everything closed *)
Example C12_loop_end_examples :
  (admissible init w_e2_idle /\ exists s ev, run init w_e2_idle = Some (s, ev) /\ k_dead s = true /\ pending s = [] /\ timers s = []) /\
  (admissible init w_e2_backoff /\ exists s ev, run init w_e2_backoff = Some (s, ev) /\ k_dead s = true /\ socks s = [Closed 1]) /\
  (admissible init w_e2_drained /\ exists s ev, run init w_e2_drained = Some (s, ev) /\ k_dead s = true /\ socks s = [HandedClosed 1]).
Proof. exact loop_end_examples. Qed.
