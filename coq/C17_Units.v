(* C17_Units: formatSI / formatIEC (C17_Model, LogStream.cc:102-203).
   The model computes the binary64 operations of the code exactly, in Z: int64 -> double
   (to_double), the IEEE quotient by the unit (div_double), printf's correctly rounded %.<p>f
   (fixed_scaled), all three through the one primitive [rne] = round to nearest, ties to even, of
   a rational.  Proved here, for ALL n: rne is monotone on rationals, hence each of the three
   operations is monotone, hence the number printed (scaled by 10^p) is monotone in n for a fixed
   format; the test of every rung is antitone in n; so the width of every n of a rung is bounded
   by the width at the last n of the rung, which is computed for every rung of the REGENERATED
   ladders (Gen_C17).  Accuracy: error analysis of the three roundings in exact arithmetic. *)
From Coq Require Import List ZArith Lia Bool Arith NArith.
From Coq.Strings Require Import Byte.
From Muduo Require Import Base_Bytes Gen_Consts Gen_C17 C17_Model C17_Proofs.
Import ListNotations.
Local Open Scope Z_scope.

(* ====================================================================== *)
(* 1. round to nearest, ties to even                                       *)
(* ====================================================================== *)

(* within half a unit; exactly half a unit away only towards an even integer *)
Lemma rne_spec num den : 0 < den ->
  - den <= 2 * (rne num den * den - num) <= den /\
  (Z.abs (2 * (rne num den * den - num)) = den -> Z.even (rne num den) = true).
Proof.
  intros Hd. unfold rne, rhe.
  pose proof (Z.div_mod num den ltac:(lia)) as E.
  pose proof (Z.mod_pos_bound num den Hd) as Hr.
  set (q := num / den) in *. set (r := num mod den) in *.
  destruct (Z.ltb_spec (2 * r) den) as [H1|H1].
  { split; [lia|]. intros Ha. exfalso. lia. }
  destruct (Z.ltb_spec den (2 * r)) as [H2|H2].
  { split; [lia|]. intros Ha. exfalso. lia. }
  destruct (Z.even q) eqn:Ev.
  { split; [lia|]. intros _. exact Ev. }
  split; [lia|]. intros _.
  replace (q + 1) with (Z.succ q) by lia. rewrite Z.even_succ, <- Z.negb_even, Ev. reflexivity.
Qed.

(* monotone on rationals: n1/d1 <= n2/d2 *)
Lemma rne_mono n1 d1 n2 d2 : 0 < d1 -> 0 < d2 -> n1 * d2 <= n2 * d1 -> rne n1 d1 <= rne n2 d2.
Proof.
  intros H1 H2 Hle.
  destruct (rne_spec n1 d1 H1) as [B1 T1]. destruct (rne_spec n2 d2 H2) as [B2 T2].
  set (z1 := rne n1 d1) in *. set (z2 := rne n2 d2) in *.
  destruct (Z_le_gt_dec z1 z2) as [|Hgt]; [assumption|exfalso].
  assert (P : 0 < d1 * d2) by (apply Z.mul_pos_pos; lia).
  (* z1 d1 d2 - d1 d2 / 2 <= n1 d2 <= n2 d1 <= z2 d1 d2 + d1 d2 / 2, and z2 + 1 <= z1 *)
  assert (A1 : 2 * (z1 * d1 - n1) * d2 <= d1 * d2) by (apply Z.mul_le_mono_nonneg_r; lia).
  assert (A2 : - d2 * d1 <= 2 * (z2 * d2 - n2) * d1) by (apply Z.mul_le_mono_nonneg_r; lia).
  assert (A3 : (z2 + 1) * (d1 * d2) <= z1 * (d1 * d2)) by (apply Z.mul_le_mono_nonneg_r; lia).
  assert (E3 : z1 = z2 + 1).
  { assert (z1 * (d1 * d2) <= (z2 + 1) * (d1 * d2)) by lia.
    assert (z1 <= z2 + 1) by (apply (Z.mul_le_mono_pos_r _ _ (d1 * d2)); lia). lia. }
  assert (E1 : 2 * (z1 * d1 - n1) * d2 = d1 * d2) by (subst z1; lia).
  assert (E2 : 2 * (z2 * d2 - n2) * d1 = - d2 * d1) by (rewrite E3 in *; lia).
  assert (F1 : 2 * (z1 * d1 - n1) = d1) by (apply (Z.mul_cancel_r _ _ d2); lia).
  assert (F2 : 2 * (z2 * d2 - n2) = - d2) by (apply (Z.mul_cancel_r _ _ d1); lia).
  assert (V1 : Z.even z1 = true) by (apply T1; lia).
  assert (V2 : Z.even z2 = true) by (apply T2; lia).
  rewrite E3 in V1. replace (z2 + 1) with (Z.succ z2) in V1 by lia.
  rewrite Z.even_succ, <- Z.negb_even, V2 in V1. discriminate.
Qed.

Lemma rne_eq n1 d1 n2 d2 : 0 < d1 -> 0 < d2 -> n1 * d2 = n2 * d1 -> rne n1 d1 = rne n2 d2.
Proof. intros H1 H2 E. apply Z.le_antisymm; apply rne_mono; lia. Qed.

Lemma rne_exact z den : 0 < den -> rne (z * den) den = z.
Proof.
  intros Hd. unfold rne, rhe. rewrite Z.div_mul, Z.mod_mul by lia.
  destruct (Z.ltb_spec (2 * 0) den); [reflexivity|lia].
Qed.

Lemma rne_one z : rne z 1 = z.
Proof. rewrite <- (Z.mul_1_r z) at 1. apply rne_exact. lia. Qed.

Lemma rne_nonneg num den : 0 < den -> 0 <= num -> 0 <= rne num den.
Proof.
  intros Hd Hn. rewrite <- (rne_exact 0 den Hd). apply rne_mono; lia.
Qed.

(* ====================================================================== *)
(* 2. static_cast<double>(int64)                                           *)
(* ====================================================================== *)

Lemma to_double_small s : s < 2 ^ 53 -> to_double s = s.
Proof. intros H. unfold to_double. destruct (Z.ltb_spec s (2 ^ 53)); [reflexivity|lia]. Qed.

(* s >= 2^53: with L = floor(log2 s) and p = 2^(L-52) (the spacing of doubles in [2^L, 2^(L+1)]) *)
Lemma to_double_big s : 2 ^ 53 <= s ->
  53 <= Z.log2 s /\ 0 < 2 ^ (Z.log2 s - 52) /\
  to_double s = rne s (2 ^ (Z.log2 s - 52)) * 2 ^ (Z.log2 s - 52) /\
  2 ^ Z.log2 s <= s < 2 ^ (Z.log2 s + 1) /\
  2 ^ Z.log2 s <= to_double s <= 2 ^ (Z.log2 s + 1) /\
  2 * Z.abs (to_double s - s) <= 2 ^ (Z.log2 s - 52).
Proof.
  intros Hs.
  assert (H0 : 0 < s) by lia.
  pose proof (Z.log2_spec s H0) as [Hlo Hhi].
  assert (HL : 53 <= Z.log2 s) by (apply Z.log2_le_pow2; lia).
  set (L := Z.log2 s) in *. replace (Z.succ L) with (L + 1) in Hhi by lia.
  assert (Hp : 0 < 2 ^ (L - 52)) by (apply Z.pow_pos_nonneg; lia).
  assert (E52 : 2 ^ L = 2 ^ 52 * 2 ^ (L - 52)) by (rewrite <- Z.pow_add_r by lia; f_equal; lia).
  assert (E53 : 2 ^ (L + 1) = 2 ^ 53 * 2 ^ (L - 52)) by (rewrite <- Z.pow_add_r by lia; f_equal; lia).
  set (p := 2 ^ (L - 52)) in *.
  assert (Et : to_double s = rne s p * p).
  { unfold to_double. destruct (Z.ltb_spec s (2 ^ 53)); [lia|]. reflexivity. }
  assert (M1 : 2 ^ 52 <= rne s p).
  { rewrite <- (rne_exact (2 ^ 52) p Hp). apply rne_mono; try lia. apply Z.mul_le_mono_nonneg_r; lia. }
  assert (M2 : rne s p <= 2 ^ 53).
  { rewrite <- (rne_exact (2 ^ 53) p Hp). apply rne_mono; try lia. apply Z.mul_le_mono_nonneg_r; lia. }
  repeat split; try assumption; try lia.
  - rewrite Et, E52. apply Z.mul_le_mono_nonneg_r; lia.
  - rewrite Et, E53. apply Z.mul_le_mono_nonneg_r; lia.
  - rewrite Et. destruct (rne_spec s p Hp) as [B _]. lia.
Qed.

Lemma to_double_mono s1 s2 : s1 <= s2 -> to_double s1 <= to_double s2.
Proof.
  intros Hle.
  destruct (Z_lt_le_dec s2 (2 ^ 53)) as [H2|H2].
  { rewrite !to_double_small by lia. exact Hle. }
  destruct (to_double_big s2 H2) as [HL2 [Hp2 [E2 [B2 [M2 _]]]]].
  assert (P53 : 2 ^ 53 <= 2 ^ Z.log2 s2) by (apply Z.pow_le_mono_r; lia).
  destruct (Z_lt_le_dec s1 (2 ^ 53)) as [H1|H1].
  { rewrite (to_double_small s1) by lia. lia. }
  destruct (to_double_big s1 H1) as [HL1 [Hp1 [E1 [B1 [M1 _]]]]].
  assert (HL : Z.log2 s1 <= Z.log2 s2) by (apply Z.log2_le_mono; exact Hle).
  destruct (Z.eq_dec (Z.log2 s1) (Z.log2 s2)) as [EL|NL].
  - rewrite E1, E2, EL. apply Z.mul_le_mono_nonneg_r; [lia|].
    apply rne_mono; try lia. apply Z.mul_le_mono_nonneg_r; lia.
  - assert (2 ^ (Z.log2 s1 + 1) <= 2 ^ Z.log2 s2) by (apply Z.pow_le_mono_r; lia). lia.
Qed.

Lemma to_double_nonneg s : 0 <= s -> 0 <= to_double s.
Proof. intros H. change 0 with (to_double 0) at 1. apply to_double_mono. exact H. Qed.

(* ====================================================================== *)
(* 3. the IEEE quotient                                                     *)
(* ====================================================================== *)

Definition epos (e : Z) : Z := Z.max e 0.
Definition eneg (e : Z) : Z := Z.max (- e) 0.

(* div_double a b = (m, e): m is the quotient (a/b) / 2^e rounded, and (a/b) / 2^e lies in
   [2^52, 2^53) -- written without negative powers: a * 2^eneg e over b * 2^epos e *)
Lemma div_double_canon a b : 0 < a -> 0 < b ->
  forall m e, div_double a b = (m, e) ->
  m = rne (a * 2 ^ eneg e) (b * 2 ^ epos e) /\ 0 < b * 2 ^ epos e /\
  2 ^ 52 * (b * 2 ^ epos e) <= a * 2 ^ eneg e < 2 ^ 53 * (b * 2 ^ epos e).
Proof.
  intros Ha Hb m e E. unfold div_double in E.
  destruct (Z.leb_spec a 0) as [|_]; [lia|].
  pose proof (Z.log2_spec a Ha) as [A1 A2]. pose proof (Z.log2_spec b Hb) as [B1 B2].
  pose proof (Z.log2_nonneg a) as NA. pose proof (Z.log2_nonneg b) as NB.
  set (La := Z.log2 a) in *. set (Lb := Z.log2 b) in *.
  rewrite Z.pow_succ_r in A2, B2 by lia.
  assert (EQ : forall x y, 0 <= x -> 0 <= y -> 53 + Lb + x = La + y -> 2 ^ 53 * 2 ^ Lb * 2 ^ x = 2 ^ La * 2 ^ y).
  { intros x y Hx Hy Exy. rewrite <- !Z.pow_add_r by lia. f_equal. lia. }
  set (PA := 2 ^ La) in *. set (PB := 2 ^ Lb) in *.
  set (k := 53 + Lb - La) in *.
  destruct (Z.leb_spec 0 k) as [Hk|Hk].
  - (* a/b < 2^53: scale a up *)
    assert (HP : 0 < 2 ^ k) by (apply Z.pow_pos_nonneg; lia).
    pose proof (EQ 0 k ltac:(lia) Hk ltac:(unfold k; lia)) as Q. rewrite Z.pow_0_r, Z.mul_1_r in Q.
    set (P := 2 ^ k) in *.
    assert (L1 : PA * P <= a * P) by (apply Z.mul_le_mono_nonneg_r; lia).
    assert (L2 : a * P < 2 * PA * P) by (apply Z.mul_lt_mono_pos_r; lia).
    destruct (Z.ltb_spec (a * P) (2 ^ 53 * b)) as [Hq|Hq]; apply pair_equal_spec in E; destruct E as [<- <-].
    + assert (En : eneg (- k) = k) by (unfold eneg; lia).
      assert (Ep : epos (- k) = 0) by (unfold epos; lia).
      rewrite En, Ep. fold P. rewrite Z.pow_0_r, Z.mul_1_r. repeat split; lia.
    + destruct (Z.eq_dec k 0) as [K0|K0].
      * assert (En : eneg (1 - k) = 0) by (unfold eneg; lia).
        assert (Ep : epos (1 - k) = 1) by (unfold epos; lia).
        assert (P1 : P = 1) by (unfold P; rewrite K0; reflexivity).
        rewrite En, Ep, Z.pow_0_r, Z.pow_1_r, Z.mul_1_r. rewrite P1, Z.mul_1_r in *.
        repeat split; try lia. f_equal. lia.
      * assert (En : eneg (1 - k) = k - 1) by (unfold eneg; lia).
        assert (Ep : epos (1 - k) = 0) by (unfold epos; lia).
        assert (P2 : P = 2 * 2 ^ (k - 1)).
        { unfold P. rewrite <- Z.pow_succ_r by lia. f_equal. lia. }
        rewrite En, Ep, Z.pow_0_r, Z.mul_1_r.
        assert (HP' : 0 < 2 ^ (k - 1)) by (apply Z.pow_pos_nonneg; lia).
        set (P' := 2 ^ (k - 1)) in *.
        repeat split; try lia. apply rne_eq; lia.
  - (* a/b >= 2^53: scale b up *)
    assert (HP : 0 < 2 ^ (- k)) by (apply Z.pow_pos_nonneg; lia).
    pose proof (EQ (- k) 0 ltac:(lia) ltac:(lia) ltac:(unfold k; lia)) as Q. rewrite Z.pow_0_r, Z.mul_1_r in Q.
    set (P := 2 ^ (- k)) in *.
    assert (L1 : PB * P <= b * P) by (apply Z.mul_le_mono_nonneg_r; lia).
    assert (L2 : b * P < 2 * PB * P) by (apply Z.mul_lt_mono_pos_r; lia).
    destruct (Z.ltb_spec a (2 ^ 53 * (b * P))) as [Hq|Hq]; apply pair_equal_spec in E; destruct E as [<- <-].
    + assert (En : eneg (- k) = 0) by (unfold eneg; lia).
      assert (Ep : epos (- k) = - k) by (unfold epos; lia).
      rewrite En, Ep. fold P. rewrite Z.pow_0_r, Z.mul_1_r. repeat split; lia.
    + assert (En : eneg (1 - k) = 0) by (unfold eneg; lia).
      assert (Ep : epos (1 - k) = 1 - k) by (unfold epos; lia).
      assert (P2 : 2 ^ (1 - k) = 2 * P).
      { unfold P. rewrite <- Z.pow_succ_r by lia. f_equal. lia. }
      rewrite En, Ep, P2, Z.pow_0_r, Z.mul_1_r. repeat split; try lia. f_equal. lia.
Qed.

Lemma mant_range A B : 0 < B -> 2 ^ 52 * B <= A < 2 ^ 53 * B -> 2 ^ 52 <= rne A B <= 2 ^ 53.
Proof.
  intros HB [H1 H2]. split.
  - rewrite <- (rne_exact (2 ^ 52) B HB). apply rne_mono; try lia. apply Z.mul_le_mono_nonneg_r; lia.
  - rewrite <- (rne_exact (2 ^ 53) B HB). apply rne_mono; try lia. apply Z.mul_le_mono_nonneg_r; lia.
Qed.

(* the same bounds with both sides scaled by a common power of two *)
Lemma canon_shift a b e S : eneg e <= S ->
  2 ^ 52 * (b * 2 ^ epos e) <= a * 2 ^ eneg e < 2 ^ 53 * (b * 2 ^ epos e) ->
  2 ^ 52 * (b * 2 ^ (S + e)) <= a * 2 ^ S < 2 ^ 53 * (b * 2 ^ (S + e)).
Proof.
  intros HS [H1 H2].
  assert (Hn : 0 <= eneg e) by (unfold eneg; lia). assert (Hp : 0 <= epos e) by (unfold epos; lia).
  assert (E1 : 2 ^ S = 2 ^ eneg e * 2 ^ (S - eneg e)) by (rewrite <- Z.pow_add_r by lia; f_equal; lia).
  assert (E2 : 2 ^ (S + e) = 2 ^ epos e * 2 ^ (S - eneg e)).
  { rewrite <- Z.pow_add_r by lia. f_equal. unfold epos, eneg in *. lia. }
  assert (HT : 0 < 2 ^ (S - eneg e)) by (apply Z.pow_pos_nonneg; lia).
  rewrite E1, E2. set (T := 2 ^ (S - eneg e)) in *.
  apply (Z.mul_le_mono_nonneg_r _ _ T) in H1; [|lia].
  apply (Z.mul_lt_mono_pos_r T) in H2; [|lia].
  lia.
Qed.

(* monotone in the dividend: a1 <= a2 gives m1 * 2^e1 <= m2 * 2^e2, stated as e1 <= e2 and
   m1 <= m2 * 2^(e2 - e1) *)
Lemma div_double_mono a1 a2 b m1 e1 m2 e2 : 0 < a1 -> a1 <= a2 -> 0 < b ->
  div_double a1 b = (m1, e1) -> div_double a2 b = (m2, e2) ->
  e1 <= e2 /\ m1 <= m2 * 2 ^ (e2 - e1) /\ 2 ^ 52 <= m1 /\ 2 ^ 52 <= m2.
Proof.
  intros Ha1 Hle Hb E1 E2.
  destruct (div_double_canon a1 b Ha1 Hb _ _ E1) as [M1 [D1 C1]].
  destruct (div_double_canon a2 b ltac:(lia) Hb _ _ E2) as [M2 [D2 C2]].
  pose proof (mant_range _ _ D1 C1) as R1. pose proof (mant_range _ _ D2 C2) as R2.
  rewrite <- M1 in R1. rewrite <- M2 in R2.
  assert (A : e1 <= e2).
  { destruct (Z_le_gt_dec e1 e2) as [|Hgt]; [assumption|exfalso].
    set (S := Z.max (eneg e1) (eneg e2)).
    pose proof (canon_shift a1 b e1 S ltac:(unfold S; lia) C1) as [S1 _].
    pose proof (canon_shift a2 b e2 S ltac:(unfold S; lia) C2) as [_ S2].
    assert (HS2 : 0 <= S + e2) by (unfold S, eneg; lia).
    assert (HPS : 0 < 2 ^ S) by (apply Z.pow_pos_nonneg; unfold S, eneg; lia).
    assert (HP2 : 0 < 2 ^ (S + e2)) by (apply Z.pow_pos_nonneg; lia).
    assert (G : 2 * 2 ^ (S + e2) <= 2 ^ (S + e1)).
    { rewrite <- Z.pow_succ_r by lia. apply Z.pow_le_mono_r; lia. }
    assert (G' : b * (2 * 2 ^ (S + e2)) <= b * 2 ^ (S + e1)) by (apply Z.mul_le_mono_nonneg_l; lia).
    assert (G'' : a1 * 2 ^ S <= a2 * 2 ^ S) by (apply Z.mul_le_mono_nonneg_r; lia).
    lia. }
  split; [exact A|]. split; [|lia].
  destruct (Z.eq_dec e1 e2) as [Ee|Ne].
  - subst e2. rewrite Z.sub_diag, Z.pow_0_r, Z.mul_1_r. rewrite M1, M2.
    apply rne_mono; try lia.
    assert (0 < 2 ^ eneg e1) by (apply Z.pow_pos_nonneg; unfold eneg; lia).
    apply Z.mul_le_mono_nonneg_r; [lia|]. apply Z.mul_le_mono_nonneg_r; lia.
  - assert (G : 2 ^ 1 <= 2 ^ (e2 - e1)) by (apply Z.pow_le_mono_r; lia).
    assert (G' : 2 ^ 52 * 2 ^ 1 <= m2 * 2 ^ (e2 - e1)) by (apply Z.mul_le_mono_nonneg; lia).
    lia.
Qed.

(* ====================================================================== *)
(* 4. printf %.<p>f                                                         *)
(* ====================================================================== *)

Lemma fixed_scaled_mono p m1 e1 m2 e2 : 0 <= p ->
  e1 <= e2 -> m1 <= m2 * 2 ^ (e2 - e1) ->
  fixed_scaled p (m1, e1) <= fixed_scaled p (m2, e2).
Proof.
  intros Hp He Hm. unfold fixed_scaled.
  assert (HT : 0 < 10 ^ p) by (apply Z.pow_pos_nonneg; lia).
  set (T := 10 ^ p) in *.
  assert (HD : 0 < 2 ^ (e2 - e1)) by (apply Z.pow_pos_nonneg; lia).
  assert (Hm' : m1 * T <= m2 * 2 ^ (e2 - e1) * T) by (apply Z.mul_le_mono_nonneg_r; lia).
  destruct (Z.leb_spec 0 e1) as [H1|H1]; destruct (Z.leb_spec 0 e2) as [H2|H2]; try lia.
  - assert (E : 2 ^ e2 = 2 ^ (e2 - e1) * 2 ^ e1) by (rewrite <- Z.pow_add_r by lia; f_equal; lia).
    assert (HP : 0 < 2 ^ e1) by (apply Z.pow_pos_nonneg; lia).
    rewrite E. apply (Z.mul_le_mono_nonneg_r _ _ (2 ^ e1)) in Hm'; lia.
  - assert (E : 2 ^ (e2 - e1) = 2 ^ e2 * 2 ^ (- e1)) by (rewrite <- Z.pow_add_r by lia; f_equal; lia).
    assert (HP : 0 < 2 ^ (- e1)) by (apply Z.pow_pos_nonneg; lia).
    rewrite <- (rne_one (m2 * T * 2 ^ e2)). apply rne_mono; try lia.
    all: rewrite E in Hm'; lia.
  - assert (E : 2 ^ (- e1) = 2 ^ (e2 - e1) * 2 ^ (- e2)) by (rewrite <- Z.pow_add_r by lia; f_equal; lia).
    assert (HP1 : 0 < 2 ^ (- e1)) by (apply Z.pow_pos_nonneg; lia).
    assert (HP2 : 0 < 2 ^ (- e2)) by (apply Z.pow_pos_nonneg; lia).
    apply rne_mono; try lia.
    all: rewrite E; apply (Z.mul_le_mono_nonneg_r _ _ (2 ^ (- e2))) in Hm'; lia.
Qed.

Lemma fixed_scaled_nonneg p m e : 0 <= p -> 0 <= m -> 0 <= fixed_scaled p (m, e).
Proof.
  intros Hp Hm. unfold fixed_scaled.
  assert (HT : 0 < 10 ^ p) by (apply Z.pow_pos_nonneg; lia).
  assert (0 <= m * 10 ^ p) by (apply Z.mul_nonneg_nonneg; lia).
  destruct (Z.leb_spec 0 e).
  - apply Z.mul_nonneg_nonneg; [assumption|]. apply Z.pow_nonneg. lia.
  - apply rne_nonneg; [apply Z.pow_pos_nonneg; lia|assumption].
Qed.

(* ---- the number printed for n with a fixed format, scaled by 10^p -------------------------- *)

Definition scaled (p d n : Z) : Z := fixed_scaled p (div_double (to_double n) d).

Lemma scaled_nonneg p d n : 0 <= p -> 0 < d -> 0 <= n -> 0 <= scaled p d n.
Proof.
  intros Hp Hd Hn. unfold scaled. pose proof (to_double_nonneg n Hn) as Hx.
  destruct (div_double (to_double n) d) as [m e] eqn:E.
  apply fixed_scaled_nonneg; [exact Hp|].
  destruct (Z.eq_dec (to_double n) 0) as [Z0|NZ].
  - rewrite Z0 in E. cbn in E. apply pair_equal_spec in E. lia.
  - destruct (div_double_canon (to_double n) d ltac:(lia) Hd _ _ E) as [M [D C]].
    pose proof (mant_range _ _ D C). lia.
Qed.

Lemma scaled_mono p d n1 n2 : 0 <= p -> 0 < d -> 0 <= n1 <= n2 -> scaled p d n1 <= scaled p d n2.
Proof.
  intros Hp Hd [H0 Hle].
  pose proof (to_double_mono _ _ Hle) as Hx. pose proof (to_double_nonneg n1 H0) as Hx0.
  destruct (Z.eq_dec (to_double n1) 0) as [Z0|NZ].
  - replace (scaled p d n1) with 0; [apply scaled_nonneg; lia|].
    unfold scaled. rewrite Z0. cbn. lia.
  - unfold scaled.
    destruct (div_double (to_double n1) d) as [m1 e1] eqn:E1.
    destruct (div_double (to_double n2) d) as [m2 e2] eqn:E2.
    assert (Hpos : 0 < to_double n1) by lia.
    destruct (div_double_mono _ _ _ _ _ _ _ Hpos Hx Hd E1 E2) as [He [Hm _]].
    apply fixed_scaled_mono; assumption.
Qed.

(* ---- the text: its length grows with the number printed ------------------------------------- *)

Lemma convert_len_mono a b : 0 <= a <= b -> (length (convert a) <= length (convert b))%nat.
Proof.
  intros [Ha Hab].
  destruct (convert_exact b) as [ds [E [Hne [Hd [Hv _]]]]].
  assert (Hb : b <? 0 = false) by (apply Z.ltb_ge; lia). rewrite Hb in E. cbn [app] in E.
  rewrite E.
  assert (Hlt : b < 10 ^ Z.of_nat (length ds)).
  { rewrite <- (rev_involutive ds), num_value_rev in Hv. rewrite Z.abs_eq in Hv by lia.
    rewrite <- Hv, <- (rev_length ds).
    apply (val_lsd_lt 10 dec_char dec_val); [lia|exact dec_val_char|apply Forall_rev; exact Hd]. }
  assert (Hk : (1 <= length ds)%nat) by (destruct ds; [congruence|cbn; lia]).
  pose proof (convert_length a (length ds) Hk ltac:(rewrite Z.abs_eq by lia; lia)) as L.
  assert (Ha' : a <? 0 = false) by (apply Z.ltb_ge; lia). rewrite Ha' in L. lia.
Qed.

Lemma fixed_text_length p x : 0 <= p -> 0 <= fixed_scaled p x ->
  length (fixed_text p x) =
  (length (convert (fixed_scaled p x / 10 ^ p)%Z) + (if (p =? 0)%Z then 0 else 1 + Z.to_nat p))%nat.
Proof.
  intros Hp Hk. unfold fixed_text. set (k := fixed_scaled p x) in *.
  destruct (Z.eqb_spec p 0) as [->|Hp0]; [lia|].
  rewrite !app_length, repeat_length. cbn [length].
  assert (HT : 0 < 10 ^ p) by (apply Z.pow_pos_nonneg; lia).
  pose proof (Z.mod_pos_bound k (10 ^ p) HT) as Hm.
  assert (L : (length (convert (k mod 10 ^ p)) <= Z.to_nat p)%nat).
  { pose proof (convert_length (k mod 10 ^ p) (Z.to_nat p) ltac:(lia)
                  ltac:(rewrite Z2Nat.id, Z.abs_eq by lia; lia)) as L.
    assert (Hf : k mod 10 ^ p <? 0 = false) by (apply Z.ltb_ge; lia). rewrite Hf in L. lia. }
  lia.
Qed.

Definition fmt_ok (f : rung_fmt) : bool :=
  match f with RInt => true | RFix p d _ => (0 <=? p) && (0 <? d) end.

Lemma render_len_mono f n m : fmt_ok f = true -> 0 <= n <= m ->
  (length (render f n) <= length (render f m))%nat.
Proof.
  intros Hf [Hn Hnm]. destruct f as [|p d u]; cbn [render].
  - apply convert_len_mono. lia.
  - cbn [fmt_ok] in Hf. apply andb_prop in Hf. destruct Hf as [Hp Hd].
    apply Z.leb_le in Hp. apply Z.ltb_lt in Hd.
    rewrite !app_length. apply Nat.add_le_mono_r.
    pose proof (scaled_nonneg p d n Hp Hd Hn) as K1. pose proof (scaled_nonneg p d m Hp Hd ltac:(lia)) as K2.
    pose proof (scaled_mono p d n m Hp Hd ltac:(lia)) as K.
    unfold scaled in *. rewrite !fixed_text_length by assumption.
    apply Nat.add_le_mono_r. apply convert_len_mono.
    assert (HT : 0 < 10 ^ p) by (apply Z.pow_pos_nonneg; lia).
    split; [apply Z.div_pos; lia|apply Z.div_le_mono; lia].
Qed.

(* ====================================================================== *)
(* 5. the ladders: every rung is bounded by its last n                     *)
(* ====================================================================== *)

Definition test (t : rung_test) (n : Z) : bool :=
  match t with
  | OnInt num den => n * den <? num
  | OnDouble num den => to_double n * den <? num
  | Else => true
  end.

(* the first n of the 2201 integers around c that fails the test.  (A test made on double(n)
   changes its answer within 512 of the bound c, doubles below 2^63 being at most 1024 apart; if
   the search finds nothing the rung is reported as not covered, never as covered.) *)
Definition first_false (t : rung_test) (c : Z) : option Z :=
  find (fun n => negb (test t n)) (map (fun i => c - 1100 + Z.of_nat i) (seq 0 2201)).

(* an integer that no n passing the test exceeds *)
Definition rung_last (t : rung_test) : option Z :=
  match t with
  | OnInt num den => if 0 <? den then Some ((num - 1) / den) else None
  | OnDouble num den =>
      if 0 <? den then
        match first_false t (- ((- num) / den)) with Some n0 => Some (n0 - 1) | None => None end
      else None
  | Else => Some (2 ^ 63 - 1)
  end.

Lemma rung_last_ok t m n : rung_last t = Some m -> 0 <= n < 2 ^ 63 -> test t n = true -> n <= m.
Proof.
  intros E Hn Ht. destruct t as [num den|num den|]; cbn [rung_last] in E.
  - destruct (Z.ltb_spec 0 den) as [Hd|]; [|discriminate]. injection E as <-.
    cbn [test] in Ht. apply Z.ltb_lt in Ht. apply Z.div_le_lower_bound; lia.
  - destruct (Z.ltb_spec 0 den) as [Hd|]; [|discriminate].
    destruct (first_false (OnDouble num den) (- (- num / den))) as [n0|] eqn:F; [|discriminate].
    injection E as <-. unfold first_false in F. apply find_some in F. destruct F as [_ F].
    apply negb_true_iff in F. cbn [test] in F, Ht. apply Z.ltb_ge in F. apply Z.ltb_lt in Ht.
    destruct (Z_lt_le_dec n n0) as [|Hge]; [lia|exfalso].
    pose proof (to_double_mono _ _ Hge) as Hm.
    assert (to_double n0 * den <= to_double n * den) by (apply Z.mul_le_mono_nonneg_r; lia). lia.
  - injection E as <-. lia.
Qed.

Definition rung_ok (w : nat) (r : rung_test * rung_fmt) : bool :=
  fmt_ok (snd r) &&
  match rung_last (fst r) with
  | Some m => (length (render (snd r) (Z.max 0 (Z.min m (2 ^ 63 - 1)))) <=? w)%nat
  | None => false
  end.

Definition is_else (r : rung_test * rung_fmt) : bool := match fst r with Else => true | _ => false end.

Lemma rung_ok_use w t f n : rung_ok w (t, f) = true -> 0 <= n < 2 ^ 63 -> test t n = true ->
  (length (render f n) <= w)%nat.
Proof.
  intros Hok Hn Ht. unfold rung_ok in Hok. cbn [fst snd] in Hok.
  apply andb_prop in Hok. destruct Hok as [Hf Hm].
  destruct (rung_last t) as [m|] eqn:E; [|discriminate]. apply Nat.leb_le in Hm.
  pose proof (rung_last_ok t m n E Hn Ht) as Hle.
  pose proof (render_len_mono f n (Z.max 0 (Z.min m (2 ^ 63 - 1))) Hf ltac:(lia)). lia.
Qed.

(* every n of the domain is rendered by a rung whose test it passes *)
Lemma ladder_width w l : forallb (rung_ok w) l = true -> existsb is_else l = true ->
  forall n, 0 <= n < 2 ^ 63 -> (length (render (select n l) n) <= w)%nat.
Proof.
  induction l as [|[t f] r IH]; intros Hok He n Hn; [discriminate He|].
  cbn [forallb] in Hok. apply andb_prop in Hok. destruct Hok as [H1 H2].
  pose proof (rung_ok_use w t f n H1 Hn) as Key.
  destruct t as [num den|num den|]; cbn [select].
  - destruct (n * den <? num) eqn:T; [apply Key; exact T|apply IH; [exact H2|exact He|exact Hn]].
  - destruct (to_double n * den <? num) eqn:T; [apply Key; exact T|apply IH; [exact H2|exact He|exact Hn]].
  - apply Key. reflexivity.
Qed.

(* ---- the regenerated ladders ------------------------------------------------------------------- *)

Lemma si_ladder_ok : forallb (rung_ok 5) si_ladder = true /\ existsb is_else si_ladder = true.
Proof. vm_compute. split; reflexivity. Qed.

Lemma iec_ladder_ok : forallb (rung_ok 6) iec_ladder = true /\ existsb is_else iec_ladder = true.
Proof. vm_compute. split; reflexivity. Qed.

Lemma si_width n : 0 <= n < 2 ^ 63 -> (length (formatSI n) <= 5)%nat.
Proof.
  intros Hn. unfold formatSI.
  exact (ladder_width 5 si_ladder (proj1 si_ladder_ok) (proj2 si_ladder_ok) n Hn).
Qed.

Lemma iec_width n : 0 <= n < 2 ^ 63 -> (length (formatIEC n) <= 6)%nat.
Proof.
  intros Hn. unfold formatIEC.
  exact (ladder_width 6 iec_ladder (proj1 iec_ladder_ok) (proj2 iec_ladder_ok) n Hn).
Qed.

(* F-9 (fixed by af480e4: the 10.0P..99.9P rung is chosen on the double): with every test of the
   regenerated ladder made on the integer -- the ladder as it was before the fix -- the eight
   integers 99949999999999992..99949999999999999, which convert to 9.995e16, print "100.0P".
   If the fix is lost, si_ladder itself is that ladder and si_ladder_ok no longer checks. *)
Definition on_int (r : rung_test * rung_fmt) : rung_test * rung_fmt :=
  match r with (OnDouble num den, f) => (OnInt num den, f) | _ => r end.
Definition f9_range : list Z := map (fun i => 99949999999999992 + Z.of_nat i) (seq 0 8).

Lemma si_on_int_refuted :
  forallb (fun n => match render (select n (map on_int si_ladder)) n with
                    | [x31; x30; x30; x2e; x30; x50] => true | _ => false end) f9_range = true.
Proof. vm_compute. reflexivity. Qed.

Lemma f9_fixed :
  forallb (fun n => match formatSI n with [x31; x30; x30; x50] => true | _ => false end) f9_range = true /\
  formatSI 99949999999999991 = [x39; x39; x2e; x39; x50].
Proof. vm_compute. split; reflexivity. Qed.

(* ---- the lower end of every rung: three significant digits ------------------------------------ *)

(* an integer that every n FAILING the test has reached *)
Definition rung_first_after (t : rung_test) : option Z :=
  match t with
  | OnInt num den => if 0 <? den then Some (- ((- num) / den)) else None
  | OnDouble num den =>
      if 0 <? den then
        match first_false t (- ((- num) / den)) with
        | Some n0 => if test t (n0 - 1) then Some n0 else None
        | None => None
        end
      else None
  | Else => None
  end.

Lemma rung_first_after_ok t lo n : rung_first_after t = Some lo -> test t n = false -> lo <= n.
Proof.
  intros E Ht. destruct t as [num den|num den|]; cbn [rung_first_after] in E; [| |discriminate].
  - destruct (Z.ltb_spec 0 den) as [Hd|]; [|discriminate]. injection E as <-.
    cbn [test] in Ht. apply Z.ltb_ge in Ht.
    assert (- n <= - num / den) by (apply Z.div_le_lower_bound; lia). lia.
  - destruct (Z.ltb_spec 0 den) as [Hd|]; [|discriminate].
    destruct (first_false (OnDouble num den) (- (- num / den))) as [n0|]; [|discriminate].
    destruct (test (OnDouble num den) (n0 - 1)) eqn:T; [|discriminate]. injection E as <-.
    cbn [test] in Ht, T. apply Z.ltb_ge in Ht. apply Z.ltb_lt in T.
    destruct (Z_le_gt_dec n0 n) as [|Hlt]; [assumption|exfalso].
    pose proof (to_double_mono n (n0 - 1) ltac:(lia)) as Hm.
    assert (to_double n * den <= to_double (n0 - 1) * den) by (apply Z.mul_le_mono_nonneg_r; lia). lia.
Qed.

(* at the first n of the rung (clipped to the domain) the number printed, scaled, is >= 100:
   1.00 / 10.0 / 100 units; a rung that starts at or above 2^63 is never selected *)
Definition sig_ok (f : rung_fmt) (lo : Z) : bool :=
  match f with
  | RInt => true
  | RFix p d _ => fmt_ok f && ((2 ^ 63 <=? lo) || (100 <=? scaled p d (Z.max 0 lo)))
  end.

Fixpoint ladder_lo_ok (lo : Z) (l : list (rung_test * rung_fmt)) : bool :=
  match l with
  | [] => true
  | (t, f) :: r =>
      sig_ok f lo &&
      match rung_first_after t with
      | Some lo' => ladder_lo_ok (Z.max lo lo') r
      | None => match t with Else => true | _ => false end
      end
  end.

Definition sig_low (f : rung_fmt) (n : Z) : Prop :=
  match f with RInt => True | RFix p d _ => 100 <= scaled p d n end.

Lemma sig_ok_use f lo n : sig_ok f lo = true -> lo <= n -> 0 <= n < 2 ^ 63 -> sig_low f n.
Proof.
  intros H Hlo Hn. destruct f as [|p d u]; cbn [sig_low]; [exact I|].
  cbn [sig_ok] in H. apply andb_prop in H. destruct H as [Hf H].
  pose proof Hf as Hf'. cbn [fmt_ok] in Hf'. apply andb_prop in Hf'. destruct Hf' as [Hp Hd].
  apply Z.leb_le in Hp. apply Z.ltb_lt in Hd.
  apply orb_prop in H. destruct H as [H|H]; [apply Z.leb_le in H; lia|].
  apply Z.leb_le in H.
  pose proof (scaled_mono p d (Z.max 0 lo) n Hp Hd ltac:(lia)). lia.
Qed.

Lemma ladder_lower l : forall lo, ladder_lo_ok lo l = true ->
  forall n, lo <= n -> 0 <= n < 2 ^ 63 -> sig_low (select n l) n.
Proof.
  induction l as [|[t f] r IH]; intros lo Hok n Hlo Hn; [exact I|].
  cbn [ladder_lo_ok] in Hok. apply andb_prop in Hok. destruct Hok as [H1 H2].
  pose proof (sig_ok_use f lo n H1 Hlo Hn) as Key.
  assert (Next : test t n = false -> sig_low (select n r) n).
  { intros T. destruct (rung_first_after t) as [lo'|] eqn:E.
    - pose proof (rung_first_after_ok t lo' n E T). apply (IH (Z.max lo lo')); [exact H2|lia|exact Hn].
    - destruct t; [discriminate H2|discriminate H2|discriminate T]. }
  destruct t as [num den|num den|]; cbn [select].
  - destruct (n * den <? num) eqn:T; [exact Key|apply Next; exact T].
  - destruct (to_double n * den <? num) eqn:T; [exact Key|apply Next; exact T].
  - exact Key.
Qed.

(* the upper end: never more than 1023 (four digits only for 1000..1023) *)
Definition sig_hi_ok (r : rung_test * rung_fmt) : bool :=
  match snd r, rung_last (fst r) with
  | RInt, Some m => Z.min m (2 ^ 63 - 1) <=? 1023
  | RFix p d _, Some m => fmt_ok (snd r) && (scaled p d (Z.max 0 (Z.min m (2 ^ 63 - 1))) <=? 1023)
  | _, None => false
  end.
Definition sig_high (f : rung_fmt) (n : Z) : Prop :=
  match f with RInt => n <= 1023 | RFix p d _ => scaled p d n <= 1023 end.

Lemma ladder_upper l : forallb sig_hi_ok l = true -> existsb is_else l = true ->
  forall n, 0 <= n < 2 ^ 63 -> sig_high (select n l) n.
Proof.
  induction l as [|[t f] r IH]; intros Hok He n Hn; [discriminate He|].
  cbn [forallb] in Hok. apply andb_prop in Hok. destruct Hok as [H1 H2].
  assert (Key : test t n = true -> sig_high f n).
  { intros T. unfold sig_hi_ok in H1. cbn [fst snd] in H1.
    destruct (rung_last t) as [m|] eqn:E; [|destruct f; discriminate].
    pose proof (rung_last_ok t m n E Hn T) as Hle.
    destruct f as [|p d u]; cbn [sig_high].
    - apply Z.leb_le in H1. lia.
    - apply andb_prop in H1. destruct H1 as [Hf H1]. apply Z.leb_le in H1.
      cbn [fmt_ok] in Hf. apply andb_prop in Hf. destruct Hf as [Hp Hd].
      apply Z.leb_le in Hp. apply Z.ltb_lt in Hd.
      pose proof (scaled_mono p d n (Z.max 0 (Z.min m (2 ^ 63 - 1))) Hp Hd ltac:(lia)). lia. }
  destruct t as [num den|num den|]; cbn [select].
  - destruct (n * den <? num) eqn:T; [apply Key; exact T|apply IH; [exact H2|exact He|exact Hn]].
  - destruct (to_double n * den <? num) eqn:T; [apply Key; exact T|apply IH; [exact H2|exact He|exact Hn]].
  - apply Key. reflexivity.
Qed.

Lemma ladders_significant :
  (ladder_lo_ok 0 si_ladder = true /\ forallb sig_hi_ok si_ladder = true) /\
  (ladder_lo_ok 0 iec_ladder = true /\ forallb sig_hi_ok iec_ladder = true).
Proof. vm_compute. repeat split. Qed.

(* every n: the number printed with a unit has three significant digits (100..999 scaled), or is
   1000..1023 at the top of a %.0f rung; without a unit n <= 1023 is printed as it is *)
Lemma si_significant n : 0 <= n < 2 ^ 63 -> sig_low (select n si_ladder) n /\ sig_high (select n si_ladder) n.
Proof.
  intros Hn. split.
  - exact (ladder_lower si_ladder 0 (proj1 (proj1 ladders_significant)) n (proj1 Hn) Hn).
  - exact (ladder_upper si_ladder (proj2 (proj1 ladders_significant)) (proj2 si_ladder_ok) n Hn).
Qed.
Lemma iec_significant n : 0 <= n < 2 ^ 63 -> sig_low (select n iec_ladder) n /\ sig_high (select n iec_ladder) n.
Proof.
  intros Hn. split.
  - exact (ladder_lower iec_ladder 0 (proj1 (proj2 ladders_significant)) n (proj1 Hn) Hn).
  - exact (ladder_upper iec_ladder (proj2 (proj2 ladders_significant)) (proj2 iec_ladder_ok) n Hn).
Qed.

(* ====================================================================== *)
(* 6. accuracy: three roundings, in exact arithmetic                       *)
(* ====================================================================== *)

(* int64 -> double: relative error at most 2^-53 *)
Lemma to_double_error n : 0 <= n -> 2 ^ 53 * Z.abs (to_double n - n) <= n.
Proof.
  intros Hn. destruct (Z_lt_le_dec n (2 ^ 53)) as [H|H].
  - rewrite to_double_small by exact H. rewrite Z.sub_diag. cbn [Z.abs]. lia.
  - destruct (to_double_big n H) as [HL [Hp [_ [[B1 _] [_ Er]]]]].
    assert (E52 : 2 ^ Z.log2 n = 2 ^ 52 * 2 ^ (Z.log2 n - 52)) by (rewrite <- Z.pow_add_r by lia; f_equal; lia).
    lia.
Qed.

Lemma accuracy_combine N T P d n x m k :
  0 < N -> 0 < T -> 0 < d -> 0 <= n -> 0 <= x ->
  2 * Z.abs (k * N - m * T * P) <= N ->
  2 * Z.abs (m * (d * P) - x * N) <= d * P ->
  2 ^ 52 * (d * P) <= x * N ->
  2 ^ 53 * Z.abs (x - n) <= n ->
  2 ^ 53 * Z.abs (k * d - n * T) <= 2 ^ 52 * d + 3 * (n * T).
Proof.
  intros HN HT Hd Hn Hx H1 H2 H3 H4.
  set (U := k * N - m * T * P) in *. set (V := m * (d * P) - x * N) in *. set (W := x - n) in *.
  assert (I : N * (k * d - n * T) = d * U + T * V + T * N * W) by (unfold U, V, W; ring).
  assert (J : Z.abs (N * (k * d - n * T)) <= d * Z.abs U + T * Z.abs V + T * N * Z.abs W).
  { rewrite I. eapply Z.le_trans; [apply Z.abs_triangle|].
    eapply Z.le_trans; [apply Z.add_le_mono_r; apply Z.abs_triangle|].
    rewrite !Z.abs_mul, (Z.abs_eq d), (Z.abs_eq T), (Z.abs_eq N) by lia. lia. }
  pose proof (Z.abs_nonneg U) as PU. pose proof (Z.abs_nonneg V) as PV. pose proof (Z.abs_nonneg W) as PW.
  set (aU := Z.abs U) in *. set (aV := Z.abs V) in *. set (aW := Z.abs W) in *.
  assert (K1 : d * (2 * aU) <= d * N) by (apply Z.mul_le_mono_nonneg_l; lia).
  assert (K2 : T * (2 * aV) <= T * (d * P)) by (apply Z.mul_le_mono_nonneg_l; lia).
  assert (TN : 0 < T * N) by (apply Z.mul_pos_pos; lia).
  assert (K3 : T * N * (2 ^ 53 * aW) <= T * N * n) by (apply Z.mul_le_mono_nonneg_l; lia).
  assert (K4 : T * (2 ^ 52 * (d * P)) <= T * (x * N)) by (apply Z.mul_le_mono_nonneg_l; lia).
  assert (X2 : x <= 2 * n) by (unfold aW, W in *; lia).
  assert (K5 : T * N * x <= T * N * (2 * n)) by (apply Z.mul_le_mono_nonneg_l; lia).
  rewrite Z.abs_mul, (Z.abs_eq N) in J by lia.
  set (Y := Z.abs (k * d - n * T)) in *.
  apply (Z.mul_le_mono_pos_l _ _ N HN). lia.
Qed.

Lemma scaled_accuracy p d n : 0 <= p -> 0 < d -> 0 <= n ->
  2 ^ 53 * Z.abs (scaled p d n * d - n * 10 ^ p) <= 2 ^ 52 * d + 3 * (n * 10 ^ p).
Proof.
  intros Hp Hd Hn.
  assert (HT : 0 < 10 ^ p) by (apply Z.pow_pos_nonneg; lia).
  pose proof (to_double_error n Hn) as H4. pose proof (to_double_nonneg n Hn) as Hx.
  unfold scaled. set (x := to_double n) in *.
  destruct (Z.eq_dec x 0) as [Z0|NZ].
  - rewrite Z0 in *. cbn [div_double Z.leb Z.compare fixed_scaled].
    assert (N0 : n = 0) by lia. rewrite N0.
    replace (0 * 10 ^ p * 2 ^ 0 * d - 0 * 10 ^ p) with 0 by ring. cbn [Z.abs]. lia.
  - destruct (div_double x d) as [m e] eqn:E.
    destruct (div_double_canon x d ltac:(lia) Hd _ _ E) as [M [D C]].
    destruct (rne_spec (x * 2 ^ eneg e) (d * 2 ^ epos e) D) as [R _]. rewrite <- M in R.
    assert (HN : 0 < 2 ^ eneg e) by (apply Z.pow_pos_nonneg; unfold eneg; lia).
    apply (accuracy_combine (2 ^ eneg e) (10 ^ p) (2 ^ epos e) d n x m); try assumption; try lia.
    unfold fixed_scaled. destruct (Z.leb_spec 0 e) as [He|He].
    + assert (En : eneg e = 0) by (unfold eneg; lia). assert (Ep : epos e = e) by (unfold epos; lia).
      rewrite En, Ep, Z.pow_0_r, Z.mul_1_r, Z.sub_diag. cbn [Z.abs]. lia.
    + assert (En : eneg e = - e) by (unfold eneg; lia). assert (Ep : epos e = 0) by (unfold epos; lia).
      rewrite En, Ep, Z.pow_0_r, Z.mul_1_r.
      destruct (rne_spec (m * 10 ^ p) (2 ^ (- e)) ltac:(apply Z.pow_pos_nonneg; lia)) as [R' _]. lia.
Qed.

(* ---- the characters are the decimal numeral of that number ------------------------------------- *)

(* [txt] is k / 10^p written with exactly p decimals: canonical integer part, '.', p digits *)
Definition fixed_numeral (txt : list byte) (p k : Z) : Prop :=
  exists ip fr, txt = ip ++ (if p =? 0 then [] else x2e :: fr) /\
    canonical_dec ip (k / 10 ^ p) /\
    (p = 0 \/ (length fr = Z.to_nat p /\ Forall (is_digit 10 dec_char) fr /\
               num_value 10 dec_val fr = k mod 10 ^ p)).

Lemma num_value_zeros j l : num_value 10 dec_val (repeat x30 j ++ l) = num_value 10 dec_val l.
Proof.
  unfold num_value. rewrite fold_left_app. f_equal.
  induction j as [|j IH]; [reflexivity|]. cbn [repeat fold_left].
  change (10 * 0 + dec_val x30) with 0. exact IH.
Qed.

Lemma fixed_text_numeral p x : 0 <= p -> 0 <= fixed_scaled p x ->
  fixed_numeral (fixed_text p x) p (fixed_scaled p x).
Proof.
  intros Hp Hk. unfold fixed_text, fixed_numeral. set (k := fixed_scaled p x) in *.
  assert (HT : 0 < 10 ^ p) by (apply Z.pow_pos_nonneg; lia).
  assert (Hip : 0 <= k / 10 ^ p) by (apply Z.div_pos; lia).
  destruct (convert_exact (k / 10 ^ p)) as [ip [Eip Cip]].
  assert (Hs : k / 10 ^ p <? 0 = false) by (apply Z.ltb_ge; lia).
  rewrite Hs in Eip. cbn [app] in Eip. rewrite Z.abs_eq in Cip by lia.
  destruct (Z.eqb_spec p 0) as [P0|P0].
  - exists ip, []. rewrite app_nil_r. repeat split; try apply Cip; auto.
  - pose proof (Z.mod_pos_bound k (10 ^ p) HT) as Hm.
    destruct (convert_exact (k mod 10 ^ p)) as [fp [Efp Cfp]].
    assert (Hs' : k mod 10 ^ p <? 0 = false) by (apply Z.ltb_ge; lia).
    rewrite Hs' in Efp. cbn [app] in Efp. rewrite Z.abs_eq in Cfp by lia.
    destruct Cfp as [Nf [Df [Vf _]]].
    assert (L : (length (convert (k mod 10 ^ p)) <= Z.to_nat p)%nat).
    { pose proof (convert_length (k mod 10 ^ p) (Z.to_nat p) ltac:(lia)
                    ltac:(rewrite Z2Nat.id, Z.abs_eq by lia; lia)) as L.
      rewrite Hs' in L. lia. }
    exists ip, (repeat x30 (Z.to_nat p - length (convert (k mod 10 ^ p))) ++ convert (k mod 10 ^ p)).
    split; [rewrite Eip; reflexivity|]. split; [exact Cip|]. right. split; [|split].
    + rewrite app_length, repeat_length. lia.
    + apply Forall_app. split; [|rewrite Efp; exact Df].
      apply Forall_forall. intros c Hc. apply repeat_spec in Hc. subst c.
      exists 0. split; [lia|reflexivity].
    + rewrite num_value_zeros, Efp. exact Vf.
Qed.

(* what the property text asks of one rendering: the decimal numeral of n itself on the plain
   rung; otherwise <numeral of k with p decimals> <unit> where k / 10^p * d is within half a unit
   of the last printed digit (d / 10^p / 2) plus 3 * 2^-53 * n of n.  The second term is the
   effect of the two binary64 roundings (conversion and division) before printf's rounding. *)
Definition rendered_ok (f : rung_fmt) (txt : list byte) (n : Z) : Prop :=
  match f with
  | RInt => canonical_dec txt n
  | RFix p d u => exists k body, txt = body ++ u /\ fixed_numeral body p k /\ 0 <= k /\
      2 ^ 53 * Z.abs (k * d - n * 10 ^ p) <= 2 ^ 52 * d + 3 * (n * 10 ^ p)
  end.

Lemma render_ok f n : fmt_ok f = true -> 0 <= n -> rendered_ok f (render f n) n.
Proof.
  intros Hf Hn. destruct f as [|p d u]; cbn [render rendered_ok].
  - destruct (convert_exact n) as [ds [E C]].
    assert (Hs : n <? 0 = false) by (apply Z.ltb_ge; lia). rewrite Hs in E. cbn [app] in E.
    rewrite Z.abs_eq in C by lia. rewrite E. exact C.
  - cbn [fmt_ok] in Hf. apply andb_prop in Hf. destruct Hf as [Hp Hd].
    apply Z.leb_le in Hp. apply Z.ltb_lt in Hd.
    pose proof (scaled_nonneg p d n Hp Hd Hn) as K.
    exists (scaled p d n), (fixed_text p (div_double (to_double n) d)).
    split; [reflexivity|]. split; [apply fixed_text_numeral; assumption|]. split; [exact K|].
    apply scaled_accuracy; assumption.
Qed.

Lemma select_fmt_ok w l n : forallb (rung_ok w) l = true -> fmt_ok (select n l) = true.
Proof.
  induction l as [|[t f] r IH]; intros Hok; [reflexivity|].
  cbn [forallb] in Hok. apply andb_prop in Hok. destruct Hok as [H1 H2].
  unfold rung_ok in H1. cbn [fst snd] in H1. apply andb_prop in H1. destruct H1 as [Hf _].
  destruct t as [num den|num den|]; cbn [select].
  - destruct (n * den <? num); [exact Hf|apply IH; exact H2].
  - destruct (to_double n * den <? num); [exact Hf|apply IH; exact H2].
  - exact Hf.
Qed.

Lemma si_accurate n : 0 <= n < 2 ^ 63 -> rendered_ok (select n si_ladder) (formatSI n) n.
Proof.
  intros Hn. unfold formatSI. apply render_ok; [|lia].
  exact (select_fmt_ok 5 si_ladder n (proj1 si_ladder_ok)).
Qed.

Lemma iec_accurate n : 0 <= n < 2 ^ 63 -> rendered_ok (select n iec_ladder) (formatIEC n) n.
Proof.
  intros Hn. unfold formatIEC. apply render_ok; [|lia].
  exact (select_fmt_ok 6 iec_ladder n (proj1 iec_ladder_ok)).
Qed.

(* the unit letters of the regenerated ladders name their divisors *)
Definition unit_table_si : list (Z * list byte) :=
  [(10 ^ 3, [x6b]); (10 ^ 6, [x4d]); (10 ^ 9, [x47]); (10 ^ 12, [x54]); (10 ^ 15, [x50]); (10 ^ 18, [x45])].
Definition unit_table_iec : list (Z * list byte) :=
  [(2 ^ 10, [x4b; x69]); (2 ^ 20, [x4d; x69]); (2 ^ 30, [x47; x69]); (2 ^ 40, [x54; x69]); (2 ^ 50, [x50; x69]);
   (2 ^ 60, [x45; x69])].
Definition bytes_eqb (a b : list byte) : bool :=
  (length a =? length b)%nat && forallb (fun p => Byte.eqb (fst p) (snd p)) (combine a b).
Definition units_in (tab : list (Z * list byte)) (l : list (rung_test * rung_fmt)) : bool :=
  forallb (fun r => match snd r with
                    | RInt => true
                    | RFix p d u => existsb (fun e => (fst e =? d) && bytes_eqb (snd e) u) tab
                    end) l.
Lemma units_named : units_in unit_table_si si_ladder = true /\ units_in unit_table_iec iec_ladder = true.
Proof. vm_compute. split; reflexivity. Qed.

(* the bound of scaled_accuracy cannot be tightened to half a unit of the last digit alone:
   9145000000000001 (above 2^53, doubles are 2 apart) converts to 9145000000000000, the quotient
   by 1e15 is the double just below 9.145, and %.2f prints 9.14 although n / 1e15 > 9.145 *)
Lemma half_unit_alone_refuted :
  select 9145000000000001 si_ladder = RFix 2 (10 ^ 15) [x50] /\
  formatSI 9145000000000001 = [x39; x2e; x31; x34; x50] /\
  10 ^ 15 < 2 * Z.abs (914 * 10 ^ 15 - 9145000000000001 * 10 ^ 2).
Proof. vm_compute. repeat split. Qed.
