(* years 2200..2500 *)
From Coq Require Import List ZArith Bool.
From Muduo Require Import Gen_C20 C20_Calendar C20_SweepDefs.
Local Open Scope Z_scope.
Lemma sweep_ymd_2 : forallb (chk_year c1970) (zs 2200 301) = true.
Proof. vm_cast_no_check (eq_refl true). Qed.
