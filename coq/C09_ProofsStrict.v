(* C09_ProofsStrict (review B-1, B-5):
   1. the clause "a disabled or removed channel is never called" read STRICTLY (at the moment of every
      call) is false of EventLoop::loop(): witnesses on both back-ends, for a channel disabled by another
      channel's callback and for a channel that disabled and removed ITSELF in an earlier callback of the
      same handleEvent;  the precise positive statement: every callback of an iteration belongs to a
      channel that was registered, subscribed and ready when THAT iteration polled -- a channel that is
      off when an iteration polls gets no callback in it (so: never in a later iteration);
   2. PollPoller reports no channel twice (NoDup), as EPollPoller. *)
From Coq Require Import List ZArith NArith Lia Bool Arith Permutation.
From Muduo Require Import Gen_Consts Gen_C09 C09_Model C09_Proofs C09_ProofsPoll C09_ProofsLoop C09_Witness.
Import ListNotations.

(* ---- 1. the strict text -------------------------------------------------------------------------------- *)
(* [off sp c]: c is destroyed, not registered with the loop, or has no interest enabled *)
Definition off (sp : spec) (c : nat) : Prop := forall s, sp c = Some s -> s_reg s = false \/ s_ev s = 0%N.

(* the interest map at the moment the callback that follows the prefix [pre] of the log is invoked *)
Definition at_call (h : handlers) (sp : spec) (pre : list (nat * cb)) : spec := spec_run sp (batch_ops h pre).

(* the strict reading of the clause on the callback log of one iteration *)
Definition never_called_when_off (h : handlers) (sp : spec) (log : list (nat * cb)) : Prop :=
  forall pre c k post, log = pre ++ (c, k) :: post -> ~ off (at_call h sp pre) c.

Lemma off_not_reported : forall sp ready c r, off sp c -> ~ spec_reports sp ready c r.
Proof. intros sp ready c r H. apply not_reported_when_off. exact H. Qed.

Lemma in_callbacks_g : forall runs act c k, In (c, k) (callbacks_g runs act) ->
  exists r, In (c, r) act /\ runs c = true /\ In k (dispatch r).
Proof.
  intros runs act c k H. unfold callbacks_g in H. apply in_flat_map in H.
  destruct H as [[c0 r] [HI HM]]. cbn [fst snd] in HM. apply in_map_iff in HM.
  destruct HM as [k0 [E HK]]. injection E as <- <-.
  exists r. split; [exact HI|]. destruct (runs c0); [split; [reflexivity|exact HK]|contradiction].
Qed.

Section Partial.
Variable S : Type.
Variable step : S -> op -> res (S * active).
Variable reach : S -> spec -> Prop.
Hypothesis step_ok : forall st sp o, reach st sp -> sguard sp o ->
  exists st' act, step st o = Ok (st', act) /\ reach st' (spec_step sp o).
Hypothesis poll_sound : forall st sp ready choice st' act, reach st sp ->
  step st (Poll ready choice) = Ok (st', act) ->
  reach st' sp /\ forall c r, In (c, r) act -> spec_reports sp ready c r.

Lemma never_called_partial_gen : forall h runs st sp ready choice st1 act,
  reach st sp -> step st (Poll ready choice) = Ok (st1, act) ->
  batch_ok h (map fst act) sp (callbacks_g runs act) ->
  exists st', loop_iter S step h runs st ready choice = Ok (st', act, callbacks_g runs act) /\
    reach st' (spec_run sp (batch_ops h (callbacks_g runs act))) /\
    (forall c k, In (c, k) (callbacks_g runs act) ->
       exists r, In (c, r) act /\ In k (dispatch r) /\ spec_reports sp ready c r) /\
    (forall c, off sp c -> forall k, ~ In (c, k) (callbacks_g runs act)).
Proof.
  intros h runs st sp ready choice st1 act R E H.
  destruct (poll_sound _ _ _ _ _ _ R E) as [R1 SND].
  destruct (loop_iter_ok S step reach step_ok h runs st sp ready choice st1 act E R1 H) as [st' [E' R']].
  exists st'. split; [exact E'|]. split; [exact R'|]. split.
  - intros c k HI. destruct (in_callbacks_g _ _ _ _ HI) as [r [A [_ B]]].
    exists r. split; [exact A|]. split; [exact B|]. apply SND. exact A.
  - intros c HO k HI. destruct (in_callbacks_g _ _ _ _ HI) as [r [A _]].
    exact (off_not_reported sp ready c r HO (SND c r A)).
Qed.
End Partial.

Lemma disabled_never_called_partial_E : forall h runs st sp ready choice st1 act,
  reachEC st sp -> ep_step_current st (Poll ready choice) = Ok (st1, act) ->
  batch_ok h (map fst act) sp (callbacks_g runs act) ->
  exists st', ep_loop_iter h runs st ready choice = Ok (st', act, callbacks_g runs act) /\
    reachEC st' (spec_run sp (batch_ops h (callbacks_g runs act))) /\
    (forall c k, In (c, k) (callbacks_g runs act) ->
       exists r, In (c, r) act /\ In k (dispatch r) /\ spec_reports sp ready c r) /\
    (forall c, off sp c -> forall k, ~ In (c, k) (callbacks_g runs act)).
Proof.
  intros. eapply (never_called_partial_gen ep ep_step_current reachEC ep_step_reach ep_poll_sound); eassumption.
Qed.

Lemma disabled_never_called_partial_P : forall h runs st sp ready choice st1 act,
  reachPC st sp -> pp_step_current st (Poll ready choice) = Ok (st1, act) ->
  batch_ok h (map fst act) sp (callbacks_g runs act) ->
  exists st', pp_loop_iter_current h runs st ready choice = Ok (st', act, callbacks_g runs act) /\
    reachPC st' (spec_run sp (batch_ops h (callbacks_g runs act))) /\
    (forall c k, In (c, k) (callbacks_g runs act) ->
       exists r, In (c, r) act /\ In k (dispatch r) /\ spec_reports sp ready c r) /\
    (forall c, off sp c -> forall k, ~ In (c, k) (callbacks_g runs act)).
Proof.
  intros. eapply (never_called_partial_gen pp pp_step_current reachPC pp_step_reach); try eassumption.
  intros st0 sp0 ready0 choice0 st' act0 R E. destruct (pp_poll_sound _ _ _ _ _ _ R E) as [A B].
  split; [exact A|]. intros c r HI. now apply B.
Qed.

(* "never in a LATER iteration", spelled out over two consecutive iterations: a channel that is off
   when the first iteration's batch ends gets no callback in the next iteration (whatever is ready,
   whatever the kernel picks, whatever the callbacks of that iteration do) *)
Lemma off_not_called_next_iteration_E : forall h runs st sp ready choice st1 act,
  reachEC st sp -> ep_step_current st (Poll ready choice) = Ok (st1, act) ->
  batch_ok h (map fst act) sp (callbacks_g runs act) ->
  exists st', ep_loop_iter h runs st ready choice = Ok (st', act, callbacks_g runs act) /\
    forall h2 runs2 ready2 choice2 st2 act2,
      ep_step_current st' (Poll ready2 choice2) = Ok (st2, act2) ->
      batch_ok h2 (map fst act2) (spec_run sp (batch_ops h (callbacks_g runs act))) (callbacks_g runs2 act2) ->
      exists st3, ep_loop_iter h2 runs2 st' ready2 choice2 = Ok (st3, act2, callbacks_g runs2 act2) /\
        forall c, off (spec_run sp (batch_ops h (callbacks_g runs act))) c ->
          forall k, ~ In (c, k) (callbacks_g runs2 act2).
Proof.
  intros h runs st sp ready choice st1 act R E H.
  destruct (disabled_never_called_partial_E h runs st sp ready choice st1 act R E H) as [st' [E' [R' _]]].
  exists st'. split; [exact E'|]. intros h2 runs2 ready2 choice2 st2 act2 E2 H2.
  destruct (disabled_never_called_partial_E h2 runs2 st' _ ready2 choice2 st2 act2 R' E2 H2) as [st3 [E3 [_ [_ N]]]].
  exists st3. split; [exact E3|exact N].
Qed.

Lemma off_not_called_next_iteration_P : forall h runs st sp ready choice st1 act,
  reachPC st sp -> pp_step_current st (Poll ready choice) = Ok (st1, act) ->
  batch_ok h (map fst act) sp (callbacks_g runs act) ->
  exists st', pp_loop_iter_current h runs st ready choice = Ok (st', act, callbacks_g runs act) /\
    forall h2 runs2 ready2 choice2 st2 act2,
      pp_step_current st' (Poll ready2 choice2) = Ok (st2, act2) ->
      batch_ok h2 (map fst act2) (spec_run sp (batch_ops h (callbacks_g runs act))) (callbacks_g runs2 act2) ->
      exists st3, pp_loop_iter_current h2 runs2 st' ready2 choice2 = Ok (st3, act2, callbacks_g runs2 act2) /\
        forall c, off (spec_run sp (batch_ops h (callbacks_g runs act))) c ->
          forall k, ~ In (c, k) (callbacks_g runs2 act2).
Proof.
  intros h runs st sp ready choice st1 act R E H.
  destruct (disabled_never_called_partial_P h runs st sp ready choice st1 act R E H) as [st' [E' [R' _]]].
  exists st'. split; [exact E'|]. intros h2 runs2 ready2 choice2 st2 act2 E2 H2.
  destruct (disabled_never_called_partial_P h2 runs2 st' _ ready2 choice2 st2 act2 R' E2 H2) as [st3 [E3 [_ [_ N]]]].
  exists st3. split; [exact E3|exact N].
Qed.

(* ---- witnesses ---------------------------------------------------------------------------------------- *)
(* (a) cross-channel: C09_Witness.w_two / h_stale: 0 and 1 readable, 0's read callback disables 1.
   (b) same channel: 0 subscribes to reading and writing, descriptor readable and writable; its read
       callback disables all and removes the channel; the write callback of the same handleEvent runs *)
Definition w_rw : list op := [New 0 0; Upd UEnableR 0; Upd UEnableW 0].
Definition h_self : handlers :=
  fun c k => match c, k with 0, CbRead => [Upd UDisableAll 0; Remove 0] | _, _ => [] end.
Definition readyINOUT : nat -> N := fun _ => N.lor POLLIN POLLOUT.

Lemma w_rw_ok : hist_ok any_hist spec0 w_rw.
Proof.
  unfold w_rw, any_hist.
  hstep; [reflexivity|exact I|].
  hstep; [guard_upd|exact I|].
  hstep; [guard_upd|exact I|].
  exact I.
Qed.

Lemma batch_ok_cross : batch_ok h_stale [0; 1] (spec_run spec0 w_two) [(0, CbRead); (1, CbRead)].
Proof.
  cbn [batch_ok fst snd h_stale]. split; [|split; exact I].
  cbn [cb_ops_ok]. split; [reflexivity|]. split; [|exact I].
  eexists. split; [reflexivity|]. left. reflexivity.
Qed.

Lemma batch_ok_self : batch_ok h_self [0] (spec_run spec0 w_rw) [(0, CbRead); (0, CbWrite)].
Proof.
  cbn [batch_ok fst snd h_self]. split; [|split; exact I].
  cbn [cb_ops_ok]. split; [reflexivity|]. split.
  { eexists. split; [reflexivity|]. left. reflexivity. }
  split; [reflexivity|]. split; [|exact I].
  eexists. split; [reflexivity|]. split; reflexivity.
Qed.

Lemma off_cross : off (at_call h_stale (spec_run spec0 w_two) [(0, CbRead)]) 1.
Proof. intros s H. vm_compute in H. injection H as <-. right. reflexivity. Qed.

Lemma off_self : off (at_call h_self (spec_run spec0 w_rw) [(0, CbRead)]) 0.
Proof. intros s H. vm_compute in H. injection H as <-. left. reflexivity. Qed.

Lemma strict_fails_cross : ~ never_called_when_off h_stale (spec_run spec0 w_two) [(0, CbRead); (1, CbRead)].
Proof. intros N. exact (N [(0, CbRead)] 1 CbRead [] eq_refl off_cross). Qed.

Lemma strict_fails_self : ~ never_called_when_off h_self (spec_run spec0 w_rw) [(0, CbRead); (0, CbWrite)].
Proof. intros N. exact (N [(0, CbRead)] 0 CbWrite [] eq_refl off_self). Qed.

(* epoll *)
Lemma disabled_never_called_refuted_E :
  (exists st act log st', reachEC st (spec_run spec0 w_two) /\ batch_ok h_stale (map fst act) (spec_run spec0 w_two) log /\
     ep_loop_iter h_stale all_run st readyIN [] = Ok (st', act, log) /\
     ~ never_called_when_off h_stale (spec_run spec0 w_two) log) /\
  (exists st act log st', reachEC st (spec_run spec0 w_rw) /\ batch_ok h_self (map fst act) (spec_run spec0 w_rw) log /\
     ep_loop_iter h_self all_run st readyINOUT [] = Ok (st', act, log) /\
     ~ never_called_when_off h_self (spec_run spec0 w_rw) log).
Proof.
  split.
  - destruct (run_reachEC w_two ep_init spec0 reachEC_init w_two_ok) as [st0 [outs [E R]]].
    vm_compute in E. injection E as <- <-.
    eexists _, [(0, POLLIN); (1, POLLIN)], [(0, CbRead); (1, CbRead)], _.
    split; [exact R|]. split; [exact batch_ok_cross|]. split; [vm_compute; reflexivity|exact strict_fails_cross].
  - destruct (run_reachEC w_rw ep_init spec0 reachEC_init w_rw_ok) as [st0 [outs [E R]]].
    vm_compute in E. injection E as <- <-.
    eexists _, [(0, N.lor POLLIN POLLOUT)], [(0, CbRead); (0, CbWrite)], _.
    split; [exact R|]. split; [exact batch_ok_self|]. split; [vm_compute; reflexivity|exact strict_fails_self].
Qed.

(* poll *)
Lemma disabled_never_called_refuted_P :
  (exists st act log st', reachPC st (spec_run spec0 w_two) /\ batch_ok h_stale (map fst act) (spec_run spec0 w_two) log /\
     pp_loop_iter_current h_stale all_run st readyIN [] = Ok (st', act, log) /\
     ~ never_called_when_off h_stale (spec_run spec0 w_two) log) /\
  (exists st act log st', reachPC st (spec_run spec0 w_rw) /\ batch_ok h_self (map fst act) (spec_run spec0 w_rw) log /\
     pp_loop_iter_current h_self all_run st readyINOUT [] = Ok (st', act, log) /\
     ~ never_called_when_off h_self (spec_run spec0 w_rw) log).
Proof.
  split.
  - destruct (run_reachPC w_two pp_init spec0 reachPC_init w_two_ok) as [st0 [outs [E R]]].
    vm_compute in E. injection E as <- <-.
    eexists _, [(0, POLLIN); (1, POLLIN)], [(0, CbRead); (1, CbRead)], _.
    split; [exact R|]. split; [exact batch_ok_cross|]. split; [vm_compute; reflexivity|exact strict_fails_cross].
  - destruct (run_reachPC w_rw pp_init spec0 reachPC_init w_rw_ok) as [st0 [outs [E R]]].
    vm_compute in E. injection E as <- <-.
    eexists _, [(0, N.lor POLLIN POLLOUT)], [(0, CbRead); (0, CbWrite)], _.
    split; [exact R|]. split; [exact batch_ok_self|]. split; [vm_compute; reflexivity|exact strict_fails_self].
Qed.

(* the same witnesses, one iteration later: the channel that was called while off is NOT called again *)
Lemma stale_confined_to_iteration :
  (exists st0 outs st1 st2, ep_run_current ep_init w_rw = Ok (st0, outs) /\
     ep_loop_iter h_self all_run st0 readyINOUT [] = Ok (st1, [(0, N.lor POLLIN POLLOUT)], [(0, CbRead); (0, CbWrite)]) /\
     ep_loop_iter h_self all_run st1 readyINOUT [] = Ok (st2, [], [])) /\
  (exists st0 outs st1 st2, pp_run_current pp_init w_rw = Ok (st0, outs) /\
     pp_loop_iter_current h_self all_run st0 readyINOUT [] = Ok (st1, [(0, N.lor POLLIN POLLOUT)], [(0, CbRead); (0, CbWrite)]) /\
     pp_loop_iter_current h_self all_run st1 readyINOUT [] = Ok (st2, [], [])).
Proof. split; vm_compute; eexists _, _, _, _; repeat split. Qed.

(* ---- 2. PollPoller reports no channel twice (review B-5) --------------------------------------------- *)
Lemma pfds_nodup : forall ri st sp, InvP ri st sp -> NoDup (p_pfds st).
Proof.
  intros ri st sp I. apply NoDup_nth_error. intros i j Hi E.
  assert (Hj : j < length (p_pfds st)).
  { apply nth_error_Some. rewrite <- E. apply nth_error_Some. exact Hi. }
  destruct (owner ri st sp i I Hi) as [c1 [ch1 [s1 [O1 [P1 [F1 [_ [R1 [X1 [N1 _]]]]]]]]]].
  destruct (owner ri st sp j I Hj) as [c2 [ch2 [s2 [O2 [P2 [F2 [_ [R2 [X2 [N2 _]]]]]]]]]].
  rewrite N1, N2 in E. assert (E' : slot ch1 = slot ch2) by congruence. apply slot_fd in E'.
  assert (c1 = c2) by (eapply (regP_unique ri); eauto; congruence). subst c2.
  assert (ch1 = ch2) by congruence. subst ch2. lia.
Qed.

Lemma pp_fill_nodup : forall ri st sp ready, InvP ri st sp -> forall l act,
  (forall p, In p l -> exists c ch s, p_objs st c = Some ch /\ sp c = Some s /\ fd ch = s_fd s /\
                                       events ch = s_ev s /\ s_reg s = true /\ p = slot ch) ->
  NoDup l -> pp_fill st ready l = Ok act -> NoDup (map fst act).
Proof.
  intros ri st sp ready I. induction l as [|p t IH]; intros act OW ND E.
  - cbn in E. injection E as <-. constructor.
  - assert (OWt : forall p0, In p0 t -> exists c ch s, p_objs st c = Some ch /\ sp c = Some s /\ fd ch = s_fd s /\
                                       events ch = s_ev s /\ s_reg s = true /\ p0 = slot ch).
    { intros p0 H0. apply OW. now right. }
    inversion ND as [|p' t' NI NDt]; subst.
    destruct (pp_fill_gen ri st sp ready I t OWt) as [actt [Et IFF]].
    cbn [pp_fill] in E.
    destruct (N.eqb (if Z.ltb (p_fd p) 0 then 0%N else revents_of ready (Z.to_nat (p_fd p)) (p_ev p)) 0) eqn:Z0.
    + eapply IH; eauto.
    + destruct (p_map st (Z.to_nat (p_fd p))) as [c|] eqn:Hm; [|discriminate].
      destruct (p_objs st c) as [ch|] eqn:Ho; [|discriminate].
      destruct (Z.eqb_spec (Z.of_nat (fd ch)) (p_fd p)) as [EF|]; [|discriminate].
      rewrite Et in E. cbn [bind] in E. injection E as <-.
      cbn [map fst]. constructor; [|eapply IH; eauto].
      intros HIN. apply in_map_iff in HIN. destruct HIN as [[c0 r0] [E0 HI0]]. cbn [fst] in E0. subst c0.
      apply IFF in HI0. destruct HI0 as [s [B1 [B2 [B3 [B4 _]]]]].
      (* the head entry is the slot of the registered channel on that descriptor: c itself *)
      destruct (OW p (or_introl eq_refl)) as [c' [ch' [s' [Ho' [Hs' [Efd' [Eev' [R' EP]]]]]]]].
      assert (NZ : events ch' <> 0%N).
      { intros Z. subst p. unfold slot in Z0. cbn [p_fd] in Z0. rewrite (proj2 (N.eqb_eq _ _) Z) in Z0.
        assert (L : Z.ltb (neg_fd (fd ch')) 0 = true) by (apply Z.ltb_lt; unfold neg_fd; lia).
        rewrite L in Z0. cbn in Z0. discriminate. }
      assert (PF : p_fd p = Z.of_nat (fd ch')).
      { subst p. unfold slot. cbn [p_fd]. destruct (N.eqb_spec (events ch') 0); [contradiction|reflexivity]. }
      rewrite PF, Nat2Z.id in Hm.
      assert (Hm' : p_map st (fd ch') = Some c').
      { apply (ip_map _ _ _ I). exists s'. repeat split; auto. }
      assert (c' = c) by congruence. subst c'.
      assert (s' = s) by congruence. subst s'.
      apply NI. replace p with (mkPfd (Z.of_nat (s_fd s)) (s_ev s)); [exact B4|].
      subst p. unfold slot. destruct (N.eqb_spec (events ch') 0); [contradiction|]. congruence.
Qed.

Lemma pp_poll_nodup : forall st sp ready choice st' act, reachPC st sp ->
  pp_step_current st (Poll ready choice) = Ok (st', act) -> NoDup (map fst act).
Proof.
  intros st sp ready choice st' act R E. pose proof (reachPC_inv _ _ R) as I.
  rewrite pp_step_current_eq in E. cbn [pp_step] in E.
  destruct (pp_fill st ready (p_pfds st)) as [a| |] eqn:F; cbn [bind] in E; try discriminate.
  injection E as _ <-.
  eapply (pp_fill_nodup true st sp ready I (p_pfds st)); [|eapply pfds_nodup; exact I|exact F].
  intros p HI. apply In_nth_error in HI. destruct HI as [i Hi].
  assert (i < length (p_pfds st)) by (apply nth_error_Some; congruence).
  destruct (owner true st sp i I H) as [c [ch [s [O1 [O2 [O3 [O4 [O5 [O6 [O7 _]]]]]]]]]].
  exists c, ch, s. repeat split; auto. congruence.
Qed.

(* with the set-level agreement: the same channels, each once -- the two back-ends report the same
   multiset (a permutation of each other) when the epoll result array is not filled *)
Lemma nodup_fst_nodup : forall (l : list (nat * N)), NoDup (map fst l) -> NoDup l.
Proof.
  induction l as [|[c r] t IH]; intros H; [constructor|].
  cbn [map fst] in H. inversion H as [|x y NI ND]; subst. constructor; [|apply IH; exact ND].
  intros HI. apply NI. apply in_map_iff. exists (c, r). split; [reflexivity|exact HI].
Qed.

(* both back-ends, same history: the same MULTISET of reports (each channel once on either side), and
   -- when epoll's result array is not filled -- the same multiset of callbacks *)
Lemma backends_agree_multiset : forall stE stP sp ready choiceE choiceP,
  reachEC stE sp -> reachPC stP sp ->
  exists actP stE' actE,
    pp_step_current stP (Poll ready choiceP) = Ok (stP, actP) /\
    ep_step_current stE (Poll ready choiceE) = Ok (stE', actE) /\
    NoDup (map fst actP) /\ NoDup (map fst actE) /\
    Permutation actP (ep_full stE ready) /\
    (length (ep_full stE ready) <= e_cap stE ->
       Permutation actP actE /\ Permutation (callbacks actP) (callbacks actE)).
Proof.
  intros stE stP sp ready choiceE choiceP RE RP.
  destruct (backends_agree_current stE stP sp ready choiceE choiceP RE RP)
    as [actP [stE' [actE [EP [EE [_ [IFF _]]]]]]].
  exists actP, stE', actE. split; [exact EP|]. split; [exact EE|].
  pose proof (pp_poll_nodup _ _ _ _ _ _ RP EP) as NDP.
  destruct (reachEC_refines stE sp RE (Poll ready choiceE)) as [A _].
  destruct (A Logic.I) as [st2 [act2 [E2 [_ [_ [_ [NDF [[rest HP] [LEN _]]]]]]]]].
  rewrite EE in E2. injection E2 as <- <-.
  assert (NDE : NoDup (map fst actE)).
  { assert (P2 : Permutation (map fst (ep_full stE ready)) (map fst actE ++ map fst rest)).
    { rewrite <- map_app. apply Permutation_map. exact HP. }
    assert (N2 : NoDup (map fst actE ++ map fst rest)) by (eapply Permutation_NoDup; [exact P2|exact NDF]).
    clear - N2. induction (map fst actE) as [|x l IH]; [constructor|].
    cbn [app] in N2. inversion N2 as [|y z NI ND]; subst. constructor; [|apply IH; exact ND].
    intros HI. apply NI. apply in_or_app. now left. }
  assert (PF : Permutation actP (ep_full stE ready)).
  { apply NoDup_Permutation; [apply nodup_fst_nodup; exact NDP|apply nodup_fst_nodup; exact NDF|].
    intros [c r]. apply IFF. }
  split; [exact NDP|]. split; [exact NDE|]. split; [exact PF|].
  intros FIT. rewrite Nat.min_l in LEN by exact FIT.
  assert (rest = []).
  { apply Permutation_length in HP. rewrite app_length in HP. destruct rest; [reflexivity|cbn in HP; lia]. }
  subst rest. rewrite app_nil_r in HP.
  assert (PE : Permutation actP actE) by (eapply Permutation_trans; eassumption).
  split; [exact PE|]. unfold callbacks. apply Permutation_flat_map. exact PE.
Qed.
