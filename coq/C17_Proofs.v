(* C17_Proofs: lemmas about C17_Model (digit generation, FixedBuffer bounds, Logger line,
   level gate, basename).  The formatSI/formatIEC ladders are in C17_Units.v. *)
From Coq Require Import List ZArith Lia Bool Arith NArith.
From Coq.Strings Require Import Byte.
From Muduo Require Import Base_Bytes Gen_Consts Gen_C17 C17_Model.
Import ListNotations.
Local Open Scope Z_scope.

(* ====================================================================== *)
(* 1. Positional numerals (specification side, independent of the tables)  *)
(* ====================================================================== *)

(* the character printf uses for digit d: decimal, and upper-case hexadecimal *)
Definition dec_char (d : Z) : byte := byte_of_Z (48 + d).
Definition dec_val (c : byte) : Z := Z_of_byte c - 48.
Definition hex_char (d : Z) : byte := if d <? 10 then byte_of_Z (48 + d) else byte_of_Z (55 + d).
Definition hex_val (c : byte) : Z := if Z_of_byte c <? 58 then Z_of_byte c - 48 else Z_of_byte c - 55.

Lemma dec_val_char d : 0 <= d < 10 -> dec_val (dec_char d) = d.
Proof. intros H. unfold dec_val, dec_char. rewrite Z_of_byte_of_Z; lia. Qed.

Lemma hex_val_char d : 0 <= d < 16 -> hex_val (hex_char d) = d.
Proof.
  intros H. unfold hex_val, hex_char.
  destruct (Z.ltb_spec d 10) as [Hd|Hd]; rewrite Z_of_byte_of_Z by lia;
    [destruct (Z.ltb_spec (48 + d) 58)|destruct (Z.ltb_spec (55 + d) 58)]; lia.
Qed.

Section Numeral.
  Variable B : Z.
  Variable dchar : Z -> byte.
  Variable dval : byte -> Z.
  Hypothesis HB : 2 <= B.
  Hypothesis Hval : forall d, 0 <= d < B -> dval (dchar d) = d.

  Definition is_digit (c : byte) : Prop := exists d, 0 <= d < B /\ c = dchar d.

  (* value of a digit list, least significant digit first *)
  Fixpoint val_lsd (l : list byte) : Z :=
    match l with
    | [] => 0
    | c :: r => dval c + B * val_lsd r
    end.

  (* value of a numeral as written (most significant digit first): Horner, as atoi does *)
  Definition num_value (l : list byte) : Z := fold_left (fun a c => B * a + dval c) l 0.

  Lemma num_value_rev l : num_value (rev l) = val_lsd l.
  Proof.
    unfold num_value. rewrite <- fold_left_rev_right, rev_involutive.
    induction l as [|c r IH]; cbn [fold_right val_lsd]; [reflexivity|]. rewrite IH. lia.
  Qed.

  Lemma val_lsd_nonneg l : Forall is_digit l -> 0 <= val_lsd l.
  Proof.
    induction 1 as [|c r [d [Hd ->]] _ IH]; cbn [val_lsd]; [lia|]. rewrite Hval by lia. nia.
  Qed.

  (* no superfluous most-significant zero: the last digit (LSD first) is not 0 *)
  Definition trimmed (l : list byte) : Prop := l = [] \/ last l x00 <> dchar 0.

  Lemma trimmed_tail c r : trimmed (c :: r) -> trimmed r.
  Proof.
    intros [H|H]; [discriminate|]. destruct r as [|c' r']; [left; reflexivity|right].
    exact H.
  Qed.

  Lemma val_lsd_pos l : Forall is_digit l -> l <> [] -> last l x00 <> dchar 0 -> 0 < val_lsd l.
  Proof.
    induction 1 as [|c r [d [Hd ->]] Hr IH]; intros Hne Hlast; [congruence|].
    cbn [val_lsd]. rewrite Hval by lia.
    destruct r as [|c' r'].
    - cbn [last] in Hlast. cbn [val_lsd]. assert (d <> 0) by (intros ->; congruence). lia.
    - assert (0 < val_lsd (c' :: r')) by (apply IH; [discriminate|exact Hlast]). nia.
  Qed.

  (* trimmed digit lists are determined by their value *)
  Lemma trimmed_unique l1 : forall l2,
    Forall is_digit l1 -> Forall is_digit l2 -> trimmed l1 -> trimmed l2 ->
    val_lsd l1 = val_lsd l2 -> l1 = l2.
  Proof.
    induction l1 as [|c1 r1 IH]; intros l2 H1 H2 T1 T2 Hv.
    - destruct l2 as [|c2 r2]; [reflexivity|].
      destruct T2 as [T2|T2]; [discriminate|].
      pose proof (val_lsd_pos _ H2 ltac:(discriminate) T2) as Hp. cbn [val_lsd] in Hv, Hp. lia.
    - destruct l2 as [|c2 r2].
      + destruct T1 as [T1|T1]; [discriminate|].
        pose proof (val_lsd_pos _ H1 ltac:(discriminate) T1) as Hp. cbn [val_lsd] in Hv, Hp. lia.
      + inversion H1 as [|? ? [d1 [Hd1 ->]] Hr1]; subst.
        inversion H2 as [|? ? [d2 [Hd2 ->]] Hr2]; subst.
        cbn [val_lsd] in Hv. rewrite !Hval in Hv by lia.
        pose proof (val_lsd_nonneg _ Hr1) as N1. pose proof (val_lsd_nonneg _ Hr2) as N2.
        assert (Hd : d1 = d2 /\ val_lsd r1 = val_lsd r2).
        { set (v1 := val_lsd r1) in *. set (v2 := val_lsd r2) in *.
          destruct (Z.lt_trichotomy v1 v2) as [L|[E|L]]; [exfalso|split; [rewrite E in Hv|]; lia|exfalso].
          - assert (B * (v1 + 1) <= B * v2) by (apply Z.mul_le_mono_nonneg_l; lia). lia.
          - assert (B * (v2 + 1) <= B * v1) by (apply Z.mul_le_mono_nonneg_l; lia). lia. }
        destruct Hd as [-> Hr]. f_equal.
        apply IH; auto; eapply trimmed_tail; eassumption.
  Qed.

  (* k digits denote a value below B^k *)
  Lemma val_lsd_lt l : Forall is_digit l -> val_lsd l < B ^ Z.of_nat (length l).
  Proof.
    induction 1 as [|c r [d [Hd ->]] Hr IH]; cbn [val_lsd length]; [cbn; lia|].
    rewrite Hval by lia. rewrite Nat2Z.inj_succ, Z.pow_succ_r by lia.
    assert (B * (val_lsd r + 1) <= B * B ^ Z.of_nat (length r)) by (apply Z.mul_le_mono_nonneg_l; lia).
    lia.
  Qed.

  (* ---- the digit loop of convert / convertHex ---------------------------- *)
  Variable tab : Z -> byte.
  Variable signed : bool.   (* may the loop see negative values *)
  Hypothesis Htab : forall lsd, (if signed then - B else -1) < lsd < B -> tab lsd = dchar (Z.abs lsd).

  Lemma abs_quot i : Z.abs (Z.quot i B) = Z.abs i / B.
  Proof.
    rewrite <- Z.quot_abs by lia. rewrite (Z.abs_eq B) by lia.
    apply Z.quot_div_nonneg; lia.
  Qed.
  Lemma abs_rem i : Z.abs (Z.rem i B) = Z.abs i mod B.
  Proof.
    rewrite <- Z.rem_abs_l by lia. apply Z.rem_mod_nonneg; lia.
  Qed.

  Lemma conv_loop_ok fuel : forall i,
    (1 <= fuel)%nat -> Z.abs i < 2 ^ Z.of_nat fuel -> (signed = false -> 0 <= i) ->
    exists ds, conv_loop tab B fuel i = Some ds /\ ds <> [] /\ Forall is_digit ds /\
               val_lsd ds = Z.abs i /\ (last ds x00 = dchar 0 -> ds = [dchar 0]).
  Proof.
    induction fuel as [|f IH]; intros i Hf Hi Hs.
    - lia.
    - cbn [conv_loop].
      pose proof (abs_quot i) as Hq. pose proof (abs_rem i) as Hr.
      assert (Hm : 0 <= Z.abs i mod B < B) by (apply Z.mod_pos_bound; lia).
      assert (Hlsd : tab (Z.rem i B) = dchar (Z.abs i mod B)).
      { rewrite <- Hr. apply Htab. destruct signed.
        - lia.
        - assert (0 <= i) by auto. assert (0 <= Z.rem i B) by (apply Z.rem_nonneg; lia). lia. }
      assert (Hdm : Z.abs i = B * (Z.abs i / B) + Z.abs i mod B) by (apply Z.div_mod; lia).
      destruct (Z.eqb_spec (Z.quot i B) 0) as [E|E].
      + exists [tab (Z.rem i B)]. rewrite Hlsd.
        assert (Z.abs i / B = 0) by (rewrite <- Hq, E; reflexivity).
        split; [reflexivity|]. split; [discriminate|]. split.
        { constructor; [exists (Z.abs i mod B); split; [lia|reflexivity]|constructor]. }
        split.
        { cbn [val_lsd]. rewrite Hval by lia. lia. }
        cbn [last]. intros Hz. f_equal.
        assert (Z.abs i mod B = 0); [|congruence].
        rewrite <- (Hval (Z.abs i mod B)) by lia. rewrite Hz. apply Hval. lia.
      + assert (Hlt : Z.abs (Z.quot i B) < 2 ^ Z.of_nat f).
        { rewrite Hq. replace (Z.of_nat (S f)) with (Z.of_nat f + 1) in Hi by lia.
          rewrite Z.pow_add_r in Hi by lia. change (2 ^ 1) with 2 in Hi.
          assert (Z.abs i / B <= Z.abs i / 2) by (apply Z.div_le_compat_l; lia).
          assert (Z.abs i / 2 < 2 ^ Z.of_nat f) by (apply Z.div_lt_upper_bound; lia). lia. }
        assert (Hs' : signed = false -> 0 <= Z.quot i B).
        { intros Hsg. apply Z.quot_pos; [auto|lia]. }
        assert (Hf' : (1 <= f)%nat).
        { destruct f as [|f']; [|lia]. exfalso. cbn in Hlt. apply E. lia. }
        destruct (IH _ Hf' Hlt Hs') as [r [Er [Hne [Hdig [Hv Hl]]]]].
        rewrite Er. exists (tab (Z.rem i B) :: r). rewrite Hlsd.
        split; [reflexivity|]. split; [discriminate|]. split.
        { constructor; [exists (Z.abs i mod B); split; [lia|reflexivity]|exact Hdig]. }
        split.
        { cbn [val_lsd]. rewrite Hval by lia. rewrite Hv, Hq. lia. }
        intros Hz. exfalso. destruct r as [|c r']; [congruence|].
        cbn [last] in Hz. specialize (Hl Hz). rewrite Hl in Hv. cbn [val_lsd] in Hv.
        rewrite Hval in Hv by lia. lia.
  Qed.

  (* number of digits: |i| < B^k gives at most k digits *)
  Lemma conv_loop_length fuel : forall i k ds,
    conv_loop tab B fuel i = Some ds -> (1 <= k)%nat -> Z.abs i < B ^ Z.of_nat k ->
    (length ds <= k)%nat.
  Proof.
    induction fuel as [|f IH]; intros i k ds E Hk Hi; [discriminate|].
    cbn [conv_loop] in E. pose proof (abs_quot i) as Hq.
    destruct (Z.eqb_spec (Z.quot i B) 0) as [E0|E0].
    - injection E as <-. cbn. lia.
    - destruct (conv_loop tab B f (Z.quot i B)) as [r|] eqn:Er; [|discriminate].
      injection E as <-. cbn [length].
      destruct k as [|k]; [lia|]. destruct k as [|k].
      + (* |i| < B: the quotient is 0 *)
        exfalso. change (Z.of_nat 1) with 1 in Hi. rewrite Z.pow_1_r in Hi.
        assert (Z.abs i / B = 0) by (apply Z.div_small; lia). lia.
      + assert ((length r <= S k)%nat); [|lia].
        apply (IH _ _ _ Er); [lia|]. rewrite Hq.
        replace (Z.of_nat (S (S k))) with (Z.of_nat (S k) + 1) in Hi by lia.
        rewrite Z.pow_add_r, Z.pow_1_r in Hi by lia.
        apply Z.div_lt_upper_bound; lia.
  Qed.
End Numeral.

Lemma fuel_enough v : Z.abs v < 2 ^ Z.of_nat (conv_fuel v).
Proof.
  unfold conv_fuel. rewrite Nat2Z.inj_succ, Z2Nat.id by apply Z.log2_nonneg.
  destruct (Z.eq_dec v 0) as [->|Hv]; [cbn; lia|].
  apply Z.log2_spec. lia.
Qed.

(* ---- side conditions on the regenerated tables (closed by computation) ---- *)

Lemma dec_table_ok lsd : -10 < lsd < 10 -> zero_at lsd = dec_char (Z.abs lsd).
Proof.
  intros H.
  assert (C : lsd = -9 \/ lsd = -8 \/ lsd = -7 \/ lsd = -6 \/ lsd = -5 \/ lsd = -4 \/ lsd = -3 \/
              lsd = -2 \/ lsd = -1 \/ lsd = 0 \/ lsd = 1 \/ lsd = 2 \/ lsd = 3 \/ lsd = 4 \/
              lsd = 5 \/ lsd = 6 \/ lsd = 7 \/ lsd = 8 \/ lsd = 9) by lia.
  repeat (destruct C as [->|C]; [vm_compute; reflexivity|]). subst lsd. vm_compute. reflexivity.
Qed.

Lemma hex_table_ok lsd : -1 < lsd < 16 -> hex_at lsd = hex_char (Z.abs lsd).
Proof.
  intros H.
  assert (C : lsd = 0 \/ lsd = 1 \/ lsd = 2 \/ lsd = 3 \/ lsd = 4 \/ lsd = 5 \/ lsd = 6 \/ lsd = 7 \/
              lsd = 8 \/ lsd = 9 \/ lsd = 10 \/ lsd = 11 \/ lsd = 12 \/ lsd = 13 \/ lsd = 14 \/
              lsd = 15) by lia.
  repeat (destruct C as [->|C]; [vm_compute; reflexivity|]). subst lsd. vm_compute. reflexivity.
Qed.

(* ---- canonical numerals ---------------------------------------------------- *)

(* [l] is the canonical base-B numeral of n >= 0: digits only, at least one, value n, and no
   leading zero except for "0" itself *)
Definition canonical (B : Z) (dchar : Z -> byte) (dval : byte -> Z) (l : list byte) (n : Z) : Prop :=
  l <> [] /\ Forall (is_digit B dchar) l /\ num_value B dval l = n /\
  (hd x00 l = dchar 0 -> l = [dchar 0]).

Definition canonical_dec := canonical 10 dec_char dec_val.
Definition canonical_hex := canonical 16 hex_char hex_val.

Lemma hd_rev (l : list byte) : hd x00 (rev l) = last l x00.
Proof.
  induction l as [|c r _] using rev_ind; [reflexivity|].
  rewrite rev_app_distr, last_last. reflexivity.
Qed.

Lemma canonical_of_lsd B dchar dval ds n :
  2 <= B -> ds <> [] -> Forall (is_digit B dchar) ds -> val_lsd B dval ds = n ->
  (last ds x00 = dchar 0 -> ds = [dchar 0]) ->
  canonical B dchar dval (rev ds) n.
Proof.
  intros HB Hne Hd Hv Hl. repeat split.
  - intros E. apply Hne. rewrite <- (rev_involutive ds), E. reflexivity.
  - apply Forall_rev. exact Hd.
  - rewrite num_value_rev. exact Hv.
  - rewrite hd_rev. intros H. rewrite (Hl H). reflexivity.
Qed.

Lemma canonical_unique B dchar dval :
  2 <= B -> (forall d, 0 <= d < B -> dval (dchar d) = d) ->
  forall l1 l2 n, canonical B dchar dval l1 n -> canonical B dchar dval l2 n -> l1 = l2.
Proof.
  intros HB Hval l1 l2 n [N1 [D1 [V1 Z1]]] [N2 [D2 [V2 Z2]]].
  assert (Hz : forall l, l <> [] -> Forall (is_digit B dchar) l -> (hd x00 l = dchar 0 -> l = [dchar 0]) ->
               num_value B dval l = 0 -> l = [dchar 0]).
  { intros l Nl Dl Zl Vl. apply Zl.
    destruct (byte_dec_bl (hd x00 l) (dchar 0)) as []; [|reflexivity].
    destruct (Byte.eqb (hd x00 l) (dchar 0)) eqn:E; [reflexivity|exfalso].
    rewrite <- (rev_involutive l), num_value_rev in Vl.
    assert (0 < val_lsd B dval (rev l)); [|lia].
    apply (val_lsd_pos B dchar dval HB Hval).
    - apply Forall_rev; exact Dl.
    - intros E'. apply Nl. rewrite <- (rev_involutive l), E'. reflexivity.
    - rewrite <- hd_rev, rev_involutive. intros H. rewrite H in E.
      rewrite (byte_dec_lb eq_refl) in E. discriminate. }
  destruct (Z.eq_dec n 0) as [->|Hn].
  - rewrite (Hz l1), (Hz l2); auto.
  - rewrite <- (rev_involutive l1), <- (rev_involutive l2). f_equal.
    assert (T : forall l, l <> [] -> (hd x00 l = dchar 0 -> l = [dchar 0]) -> num_value B dval l = n ->
                trimmed dchar (rev l)).
    { intros l Nl Zl Vl. right. rewrite <- hd_rev, rev_involutive. intros H.
      rewrite (Zl H) in Vl. unfold num_value in Vl. cbn in Vl. rewrite Hval in Vl by lia. lia. }
    apply (trimmed_unique B dchar dval HB Hval); try (apply Forall_rev; assumption); auto.
    rewrite <- !num_value_rev, !rev_involutive. congruence.
Qed.

(* ---- convert / convertHex are exact ---------------------------------------- *)

Lemma convert_exact v : exists ds,
  convert v = (if v <? 0 then [x2d] else []) ++ ds /\ canonical_dec ds (Z.abs v).
Proof.
  destruct (conv_loop_ok 10 dec_char dec_val ltac:(lia) dec_val_char zero_at true
              ltac:(intros; apply dec_table_ok; lia) (conv_fuel v) v ltac:(unfold conv_fuel; lia) (fuel_enough v) ltac:(discriminate))
    as [ds [E [Hne [Hd [Hv Hl]]]]].
  exists (rev ds). split.
  - unfold convert, convert_opt. rewrite E, rev_app_distr.
    destruct (v <? 0); reflexivity.
  - apply canonical_of_lsd; auto. lia.
Qed.

Lemma convertHex_exact v : 0 <= v -> canonical_hex (convertHex v) v.
Proof.
  intros Hv0.
  destruct (conv_loop_ok 16 hex_char hex_val ltac:(lia) hex_val_char hex_at false
              ltac:(intros; apply hex_table_ok; lia) (conv_fuel v) v ltac:(unfold conv_fuel; lia) (fuel_enough v) ltac:(intros; exact Hv0))
    as [ds [E [Hne [Hd [Hv Hl]]]]].
  unfold convertHex, convertHex_opt. rewrite E.
  rewrite Z.abs_eq in Hv by lia. apply canonical_of_lsd; auto. lia.
Qed.

Lemma convert_length v k :
  (1 <= k)%nat -> Z.abs v < 10 ^ Z.of_nat k ->
  (length (convert v) <= k + (if (v <? 0)%Z then 1 else 0))%nat.
Proof.
  intros Hk Hv. unfold convert, convert_opt.
  destruct (conv_loop zero_at 10 (conv_fuel v) v) as [ds|] eqn:E; [|cbn; lia].
  pose proof (conv_loop_length 10 ltac:(lia) zero_at _ _ _ _ E Hk Hv) as HL.
  rewrite rev_length, app_length. destruct (v <? 0); cbn [length]; lia.
Qed.

Lemma convert_nonempty v : (1 <= length (convert v))%nat.
Proof.
  destruct (convert_exact v) as [ds [E [Hne _]]]. rewrite E, app_length.
  destruct ds; [congruence|cbn [length]; lia].
Qed.

Lemma convertHex_length v k :
  (1 <= k)%nat -> Z.abs v < 16 ^ Z.of_nat k -> (length (convertHex v) <= k)%nat.
Proof.
  intros Hk Hv. unfold convertHex, convertHex_opt.
  destruct (conv_loop hex_at 16 (conv_fuel v) v) as [ds|] eqn:E; [|cbn; lia].
  rewrite rev_length. exact (conv_loop_length 16 ltac:(lia) hex_at _ _ _ _ E Hk Hv).
Qed.

(* ====================================================================== *)
(* 2. FixedBuffer: every store inside data_, only whole items are left out *)
(* ====================================================================== *)

(* side conditions on the regenerated constants, closed by computation: changing
   kMaxNumericSize / kSmallBuffer in the source re-runs these *)
Lemma kmax_holds_integer : (21 <= kMaxNumericSize)%nat.   (* 20 characters + NUL *)
Proof. vm_compute. repeat constructor. Qed.
Lemma kmax_holds_double : (25 <= kMaxNumericSize)%nat.    (* 24 characters (3.4) + NUL *)
Proof. vm_compute. repeat constructor. Qed.
Lemma ksmall_holds_numeric : (kMaxNumericSize <= kSmallBuffer)%nat.
Proof. apply Nat.leb_le. vm_compute. reflexivity. Qed.
Lemma ksmall_pos : (1 <= kSmallBuffer)%nat.
Proof. apply Nat.leb_le. vm_compute. reflexivity. Qed.
Lemma klarge_pos : (1 <= kLargeBuffer)%nat.
Proof. apply Nat.leb_le. vm_compute. reflexivity. Qed.

(* the generated guards are the model's guards *)
Lemma append_fits_gen a l : Gen_C17.append_fits (Z.of_nat a) (Z.of_nat l) = append_fits a l.
Proof.
  unfold Gen_C17.append_fits, append_fits. rewrite Z.gtb_ltb.
  destruct (Z.ltb_spec (Z.of_nat l) (Z.of_nat a)), (Nat.ltb_spec l a); try reflexivity; lia.
Qed.
Lemma integer_fits_gen a : Gen_C17.integer_fits (Z.of_nat a) = numeric_fits a.
Proof.
  unfold Gen_C17.integer_fits, numeric_fits, kMaxNumericSize. rewrite Z.geb_leb.
  destruct (Z.leb_spec LogStream_kMaxNumericSize (Z.of_nat a)),
           (Nat.leb_spec (Z.to_nat LogStream_kMaxNumericSize) a); try reflexivity; lia.
Qed.
Lemma pointer_fits_gen a : Gen_C17.pointer_fits (Z.of_nat a) = numeric_fits a.
Proof.
  unfold Gen_C17.pointer_fits, numeric_fits, kMaxNumericSize. rewrite Z.geb_leb.
  destruct (Z.leb_spec LogStream_kMaxNumericSize (Z.of_nat a)),
           (Nat.leb_spec (Z.to_nat LogStream_kMaxNumericSize) a); try reflexivity; lia.
Qed.
Lemma double_fits_gen a : Gen_C17.double_fits (Z.of_nat a) = numeric_fits a.
Proof.
  unfold Gen_C17.double_fits, numeric_fits, kMaxNumericSize. rewrite Z.geb_leb.
  destruct (Z.leb_spec LogStream_kMaxNumericSize (Z.of_nat a)),
           (Nat.leb_spec (Z.to_nat LogStream_kMaxNumericSize) a); try reflexivity; lia.
Qed.
Lemma double_format_gen : Gen_C17.double_format_is_12g = true.
Proof. reflexivity. Qed.

(* LogStream.h operators, Fmt and strerror_tl as regenerated: operator<<(bool) appends "1" / "0";
   operator<<(const char* ) appends "(null)" for NULL; char / C string / string / StringPiece /
   Buffer / Fmt append exactly their bytes; Fmt holds snprintf's text in char buf_[32], asserts
   length < sizeof buf_ and is restricted to arithmetic types; strerror_tl returns the result of
   strerror_r(savedErrno, t_errnobuf, sizeof t_errnobuf) *)
Lemma stream_ops_gen :
  bool_true_text = [x31] /\ bool_false_text = [x30] /\ null_text_gen = [x28;x6e;x75;x6c;x6c;x29] /\
  append_ops_shape_ok = true /\ Fmt_length_assert_is_lt = true /\ Fmt_shape_ok = true /\
  (1 <= Fmt_buf_size <= Z.of_nat kMaxNumericSize) /\ strerror_tl_shape_ok = true.
Proof. repeat (split; [reflexivity|]). split; [split; apply Z.leb_le; vm_compute; reflexivity|reflexivity]. Qed.

(* a Fmt item is a value iff its text passed the constructor's assert *)
Lemma fmt_item_ok s : item_ok (IFmt s) = true <-> (Z.of_nat (length s) < Fmt_buf_size).
Proof. cbn [item_ok]. apply Z.ltb_lt. Qed.

Lemma int_text_length t v : item_ok (IInt t v) = true -> (1 <= length (convert v) <= 20)%nat.
Proof.
  cbn [item_ok]. intros H. apply andb_prop in H. destruct H as [Hlo Hhi].
  apply Z.leb_le in Hlo. apply Z.ltb_lt in Hhi.
  split; [apply convert_nonempty|].
  destruct (Z.ltb_spec v 0) as [Hneg|Hpos].
  - (* negative: at most 2^63 < 10^19, so 19 digits and the sign *)
    assert (Hb : - 2 ^ 63 <= v) by (destruct t; cbn [ity_lo] in Hlo; lia).
    pose proof (convert_length v 19 ltac:(lia) ltac:(change (10 ^ Z.of_nat 19) with 10000000000000000000; lia)) as L.
    destruct (Z.ltb_spec v 0); lia.
  - assert (Hb : v < 2 ^ 64) by (destruct t; cbn [ity_hi] in Hhi; lia).
    pose proof (convert_length v 20 ltac:(lia) ltac:(change (10 ^ Z.of_nat 20) with 100000000000000000000; lia)) as L.
    destruct (Z.ltb_spec v 0); lia.
Qed.

Lemma ptr_text_length p : item_ok (IPtr p) = true -> (length (convertHex p) <= 16)%nat.
Proof.
  cbn [item_ok]. intros H. apply andb_prop in H. destruct H as [Hlo Hhi].
  apply Z.leb_le in Hlo. apply Z.ltb_lt in Hhi.
  apply convertHex_length; [lia|]. change (16 ^ Z.of_nat 16) with (2 ^ 64). lia.
Qed.

Section Bounds.
  Variable fmt_g : Z -> list byte.
  (* 3.4: snprintf("%.12g") yields at most 24 characters *)
  Hypothesis fmt_g_len : forall d, (length (fmt_g d) <= 24)%nat.

  Definition inv (b : fbuf) : Prop := (flen b < cap b)%nat.   (* room for a NUL at the cursor *)

  Lemma poke_ok b bytes adv :
    (flen b + length bytes <= cap b)%nat -> (adv <= length bytes)%nat ->
    poke b bytes adv = Ok (mkF (cap b) (data b ++ firstn adv bytes)).
  Proof.
    intros H1 H2. unfold poke.
    destruct (Nat.leb_spec (flen b + length bytes) (cap b)); [|lia].
    destruct (Nat.leb_spec adv (length bytes)); [|lia]. reflexivity.
  Qed.

  Lemma firstn_app_all (s t : list byte) : firstn (length s) (s ++ t) = s.
  Proof. apply firstn_app_exact. Qed.

  (* one insertion: never a fault; the cursor stays strictly inside; the item is either
     appended whole or left out, exactly as [fits] says *)
  Lemma put_ok b it :
    inv b -> item_ok it = true ->
    exists b', put fmt_g b it = Ok b' /\ cap b' = cap b /\ inv b' /\
               data b' = if fits fmt_g (cap b) (flen b) it then data b ++ item_text fmt_g it else data b.
  Proof.
    intros Hinv Hok. unfold put. rewrite Hok. cbn [negb].
    pose proof kmax_holds_integer as K21. pose proof kmax_holds_double as K25.
    unfold inv in *.
    assert (App : forall s, exists b', append b s = Ok b' /\ cap b' = cap b /\ (flen b' < cap b')%nat /\
                   data b' = if append_fits (cap b - flen b) (length s) then data b ++ s else data b).
    { intros s. unfold append, avail. unfold append_fits.
      destruct (Nat.ltb_spec (length s) (cap b - flen b)) as [Hf|Hf].
      - rewrite poke_ok by lia. eexists; split; [reflexivity|]. cbn [cap data]. unfold flen. cbn [data].
        rewrite firstn_all, app_length. unfold flen in *. repeat split; lia.
      - exists b. repeat split; auto. }
    assert (Num : forall s, (length s <= 24)%nat ->
                   exists b', put_numeric b s = Ok b' /\ cap b' = cap b /\ (flen b' < cap b')%nat /\
                   data b' = if numeric_fits (cap b - flen b) then data b ++ s else data b).
    { intros s Hs. unfold put_numeric, avail, numeric_fits.
      destruct (Nat.leb_spec kMaxNumericSize (cap b - flen b)) as [Hf|Hf].
      - rewrite poke_ok by (rewrite ?app_length; cbn [length]; lia).
        eexists; split; [reflexivity|]. cbn [cap data]. unfold flen. cbn [data].
        rewrite firstn_app_all, app_length. unfold flen in *. repeat split; lia.
      - exists b. repeat split; auto. }
    unfold fits.
    destruct it as [v|c|s|s|t v|p|d|s]; cbn [is_numeric item_text].
    - apply App.
    - apply App.
    - apply App.
    - apply App.
    - apply Num. pose proof (int_text_length t v Hok). lia.
    - apply Num. pose proof (ptr_text_length p Hok). cbn [length]. lia.
    - (* double *)
      pose proof (fmt_g_len d) as Hd.
      unfold put_double, avail, numeric_fits.
      destruct (Nat.leb_spec kMaxNumericSize (cap b - flen b)) as [Hf|Hf].
      + rewrite (firstn_all2 (n := kMaxNumericSize - 1)) by lia.
        rewrite poke_ok by (rewrite ?app_length; cbn [length]; lia).
        eexists; split; [reflexivity|]. cbn [cap data]. unfold flen. cbn [data].
        rewrite firstn_app_all, app_length. unfold flen in *. repeat split; lia.
      + exists b. repeat split; auto.
    - apply App.
  Qed.

  Lemma put_no_fault b it : inv b -> put fmt_g b it <> Fault.
  Proof.
    intros Hinv. destruct (item_ok it) eqn:Hok.
    - destruct (put_ok b it Hinv Hok) as [b' [E _]]. rewrite E. discriminate.
    - unfold put. rewrite Hok. discriminate.
  Qed.

  Lemma debugString_ok b : inv b -> debugString b = Ok b.
  Proof.
    intros Hinv. unfold debugString. unfold inv in Hinv.
    rewrite poke_ok by (cbn [length]; lia). cbn [firstn]. rewrite app_nil_r. destruct b; reflexivity.
  Qed.

  Lemma run_ok items : forall b,
    inv b -> Forall (fun it => item_ok it = true) items ->
    exists b', run fmt_g b items = Ok b' /\ cap b' = cap b /\ inv b' /\
               data b' = kept fmt_g (cap b) (data b) items.
  Proof.
    induction items as [|it r IH]; intros b Hinv Hok.
    - exists b. repeat split; auto.
    - inversion Hok as [|? ? Hit Hr]; subst.
      destruct (put_ok b it Hinv Hit) as [b1 [E [Hc [Hi Hd]]]].
      cbn [run kept]. rewrite E.
      destruct (IH b1 Hi Hr) as [b' [E' [Hc' [Hi' Hd']]]].
      exists b'. rewrite E'. repeat split; auto; [congruence|].
      rewrite Hd', Hc. unfold flen in Hd. 
      destruct (fits fmt_g (cap b) (length (data b)) it); rewrite Hd; reflexivity.
  Qed.

  Lemma run_no_fault items : forall b, inv b -> run fmt_g b items <> Fault.
  Proof.
    induction items as [|it r IH]; intros b Hinv; cbn [run]; [discriminate|].
    destruct (item_ok it) eqn:Hok.
    - destruct (put_ok b it Hinv Hok) as [b1 [E [_ [Hi _]]]]. rewrite E. apply IH. exact Hi.
    - unfold put. rewrite Hok. cbn [negb]. discriminate.
  Qed.

  (* what is kept is the concatenation of a subsequence of the items' texts *)
  Inductive subseq {A : Type} : list A -> list A -> Prop :=
  | sub_nil : subseq [] []
  | sub_keep x l1 l2 : subseq l1 l2 -> subseq (x :: l1) (x :: l2)
  | sub_drop x l1 l2 : subseq l1 l2 -> subseq l1 (x :: l2).

  Lemma kept_subseq c items : forall acc,
    exists ks, subseq ks items /\ kept fmt_g c acc items = acc ++ concat (map (item_text fmt_g) ks).
  Proof.
    induction items as [|it r IH]; intros acc.
    - exists []. split; [constructor|]. cbn. rewrite app_nil_r. reflexivity.
    - cbn [kept]. destruct (fits fmt_g c (length acc) it).
      + destruct (IH (acc ++ item_text fmt_g it)) as [ks [Hs E]].
        exists (it :: ks). split; [constructor; exact Hs|].
        rewrite E. cbn [map concat]. rewrite <- app_assoc. reflexivity.
      + destruct (IH acc) as [ks [Hs E]]. exists ks. split; [constructor; exact Hs|exact E].
  Qed.

  (* when everything fits nothing is left out *)
  Definition total_len (items : list item) : nat := length (concat (map (item_text fmt_g) items)).

  Lemma kept_all c items : forall acc,
    (length acc + total_len items + kMaxNumericSize <= c)%nat ->
    kept fmt_g c acc items = acc ++ concat (map (item_text fmt_g) items).
  Proof.
    pose proof kmax_holds_integer as K21.
    induction items as [|it r IH]; intros acc H.
    - cbn. rewrite app_nil_r. reflexivity.
    - unfold total_len in H. cbn [map concat] in H. rewrite app_length in H.
      cbn [kept].
      assert (F : fits fmt_g c (length acc) it = true).
      { unfold fits, numeric_fits, append_fits. destruct (is_numeric it).
        - apply Nat.leb_le. lia.
        - apply Nat.ltb_lt. lia. }
      rewrite F, IH.
      + cbn [map concat]. rewrite <- app_assoc. reflexivity.
      + rewrite app_length. unfold total_len. lia.
  Qed.
End Bounds.

(* ====================================================================== *)
(* 3. Logger: line shape, level gate, basename                              *)
(* ====================================================================== *)

Lemma pad_length c w s : (length s <= w)%nat -> length (pad c w s) = w.
Proof. intros H. unfold pad. rewrite app_length, repeat_length. lia. Qed.

Lemma fmt_d_length c w v : (1 <= w)%nat -> 0 <= v < 10 ^ Z.of_nat w -> length (fmt_d c w v) = w.
Proof.
  intros Hw Hv. unfold fmt_d. apply pad_length.
  pose proof (convert_length v w Hw ltac:(lia)) as L.
  destruct (Z.ltb_spec v 0); lia.
Qed.

Definition dt_ok (d : datetime) : Prop :=
  1000 <= dt_year d <= 9999 /\ 0 <= dt_month d <= 99 /\ 0 <= dt_day d <= 99 /\
  0 <= dt_hour d <= 99 /\ 0 <= dt_minute d <= 99 /\ 0 <= dt_second d <= 99.

Lemma time_text_length d : dt_ok d -> length (time_text d) = 17%nat.
Proof.
  intros [Hy [Hmo [Hd [Hh [Hmi Hs]]]]]. unfold time_text.
  rewrite !app_length.
  rewrite (fmt_d_length x20 4) by (try lia; change (10 ^ Z.of_nat 4) with 10000; lia).
  rewrite !(fmt_d_length x30 2) by (try lia; change (10 ^ Z.of_nat 2) with 100; lia).
  reflexivity.
Qed.

Lemma level_name_length l : length (level_name l) = 6%nat.
Proof. destruct l; vm_compute; reflexivity. Qed.

(* ---- Logger::Impl::formatTime: the regenerated formats, lengths and buffer sizes ----------- *)

(* what the formats and lengths of the source must be for the line to have the promised shape;
   closed by computation on Gen_C17 (an edited format, length, branch or refresh test re-runs it) *)
Lemma logger_time_gen :
  cache_refresh_is_ne = true /\
  (forall d, mini_printf time_format (dt_fields d) = time_text d) /\
  (forall us, mini_printf us_format_zone [us] = [x2e] ++ fmt_d x30 6 us ++ [x20]) /\
  (forall us, mini_printf us_format_utc [us] = [x2e] ++ fmt_d x30 6 us ++ [x5a; x20]) /\
  time_len_zone = 17 /\ time_len_utc = 17 /\ us_len_zone = 8 /\ us_len_utc = 9 /\
  (17 < Z.to_nat Logging_t_time_size)%nat /\ (1 <= Z.to_nat Logging_errnobuf_size)%nat.
Proof.
  assert (P1 : parse_fmt time_format =
               [PDec (Some x20) 4; PDec (Some x30) 2; PDec (Some x30) 2; PLit x20; PDec (Some x30) 2; PLit x3a;
                PDec (Some x30) 2; PLit x3a; PDec (Some x30) 2]) by (vm_compute; reflexivity).
  assert (P2 : parse_fmt us_format_zone = [PLit x2e; PDec (Some x30) 6; PLit x20]) by (vm_compute; reflexivity).
  assert (P3 : parse_fmt us_format_utc = [PLit x2e; PDec (Some x30) 6; PLit x5a; PLit x20]) by (vm_compute; reflexivity).
  split; [reflexivity|]. unfold mini_printf. rewrite P1, P2, P3.
  split; [intros d; unfold time_text, dt_fields; cbn [render_pieces app]; rewrite app_nil_r; reflexivity|].
  split; [intros us; reflexivity|].
  split; [intros us; reflexivity|]. repeat (split; [reflexivity|]).
  split; apply Nat.ltb_lt; vm_compute; reflexivity.
Qed.

(* formatTime as the property text reads it (the specification side) *)
Definition format_time_spec (th : tls) (r : logreq) : tls * list item :=
  let th' := if lq_seconds r =? lastSecond th then th
             else mkTLS (lq_seconds r) (time_text (lq_dt r)) in
  let us := [x2e] ++ fmt_d x30 6 (lq_micros r) ++ (if lq_zone r then [x20] else [x5a; x20]) in
  (th', [IStr (firstn 17 (t_time th')); IStr us]).

Lemma cached_time_text_eq d : dt_ok d -> cached_time_text d = time_text d.
Proof.
  intros Hd. destruct logger_time_gen as [_ [Ht [_ [_ [_ [_ [_ [_ [Hs _]]]]]]]]].
  unfold cached_time_text. rewrite Ht. apply firstn_all2. rewrite time_text_length by exact Hd.
  set (n := Z.to_nat Logging_t_time_size) in *. lia.
Qed.

Lemma format_time_eq th r : dt_ok (lq_dt r) -> 0 <= lq_micros r < 1000000 ->
  format_time th r = format_time_spec th r.
Proof.
  intros Hd Hus. destruct logger_time_gen as [_ [_ [Hz [Hu [L1 [L2 [L3 [L4 _]]]]]]]].
  unfold format_time, format_time_spec. rewrite cached_time_text_eq by exact Hd.
  assert (L6 : length (fmt_d x30 6 (lq_micros r)) = 6%nat).
  { apply fmt_d_length; [lia|]. change (10 ^ Z.of_nat 6) with 1000000. lia. }
  destruct (lq_zone r).
  - rewrite L1, L3, Hz. f_equal. f_equal. f_equal. f_equal. apply firstn_all2.
    rewrite !app_length, L6. cbn. lia.
  - rewrite L2, L4, Hu. f_equal. f_equal. f_equal. f_equal. apply firstn_all2.
    rewrite !app_length, L6. cbn. lia.
Qed.

Lemma format_time_fst th r : dt_ok (lq_dt r) ->
  fst (format_time th r) = if lq_seconds r =? lastSecond th then th
                           else mkTLS (lq_seconds r) (time_text (lq_dt r)).
Proof. intros Hd. unfold format_time. cbn [fst]. rewrite cached_time_text_eq by exact Hd. reflexivity. Qed.

Lemma level_order :
  level_num TRACE < level_num DEBUG < level_num INFO /\
  level_num INFO < level_num WARN < level_num ERROR /\ level_num ERROR < level_num FATAL.
Proof. vm_compute. repeat split. Qed.

(* the generated gates (the `if` in front of each LOG_* macro) are the model's *)
Lemma gates_gen cfg :
  gate_LOG_TRACE (level_num cfg) = macro_emits LOG_TRACE cfg /\
  gate_LOG_DEBUG (level_num cfg) = macro_emits LOG_DEBUG cfg /\
  gate_LOG_INFO (level_num cfg) = macro_emits LOG_INFO cfg /\
  gate_LOG_WARN (level_num cfg) = macro_emits LOG_WARN cfg /\
  gate_LOG_ERROR (level_num cfg) = macro_emits LOG_ERROR cfg /\
  gate_LOG_FATAL (level_num cfg) = macro_emits LOG_FATAL cfg /\
  gate_LOG_SYSERR (level_num cfg) = macro_emits LOG_SYSERR cfg /\
  gate_LOG_SYSFATAL (level_num cfg) = macro_emits LOG_SYSFATAL cfg.
Proof. repeat split; reflexivity. Qed.

Lemma level_gate m cfg :
  macro_emits m cfg = (level_num WARN <=? level_num (macro_level m)) || (level_num cfg <=? level_num (macro_level m)).
Proof. destruct m, cfg; vm_compute; reflexivity. Qed.

(* ---- basename -------------------------------------------------------------- *)

Lemma basename_snoc p c :
  basename (p ++ [c]) = if Byte.eqb c x2f then [] else basename p ++ [c].
Proof. unfold basename. rewrite fold_left_app. reflexivity. Qed.

Lemma basename_spec p :
  exists pre, p = pre ++ basename p /\ ~ In x2f (basename p) /\
              (pre = [] \/ exists q, pre = q ++ [x2f]).
Proof.
  induction p as [|c p IH] using rev_ind.
  - exists []. repeat split; auto.
  - destruct IH as [pre [E [Hn Hp]]]. rewrite basename_snoc.
    destruct (Byte.eqb c x2f) eqn:Ec.
    + apply byte_dec_bl in Ec. subst c. exists (p ++ [x2f]). rewrite app_nil_r.
      repeat split; auto. right. exists p. reflexivity.
    + exists pre. split; [rewrite app_assoc, <- E; reflexivity|]. split; [|exact Hp].
      intros Hin. apply in_app_or in Hin. destruct Hin as [Hin|[Hin|[]]]; [auto|].
      subst c. rewrite (byte_dec_lb eq_refl) in Ec. discriminate.
Qed.

(* ---- the emitted line ------------------------------------------------------ *)

Section Line.
  Variable fmt_g : Z -> list byte.
  Hypothesis fmt_g_len : forall d, (length (fmt_g d) <= 24)%nat.

  Definition errno_text (r : logreq) : list byte :=
    match lq_errno r with
    | Some (e, txt) => until_nul txt ++ [x20;x28;x65;x72;x72;x6e;x6f;x3d] ++ convert e ++ [x29;x20]
    | None => []
    end.
  Definition func_text (r : logreq) : list byte :=
    match lq_func r with Some f => until_nul f ++ [x20] | None => [] end.
  Definition zone_mark (r : logreq) : list byte := if lq_zone r then [x20] else [x5a; x20].

  (* 'YYYYMMDD HH:MM:SS' '.' uuuuuu ['Z'] ' ' tid ' ' LEVEL [errno text] [func ' '] message
     " - " basename ':' line '\n' *)
  Definition line_text (r : logreq) : list byte :=
    time_text (lq_dt r) ++ [x2e] ++ fmt_d x30 6 (lq_micros r) ++ zone_mark r ++
    tid_text (lq_tid r) ++ level_name (lq_level r) ++ errno_text r ++ func_text r ++
    concat (map (item_text fmt_g) (lq_msg r)) ++
    [x20;x2d;x20] ++ basename (until_nul (lq_path r)) ++ [x3a] ++ convert (lq_line r) ++ [x0a].

  (* the per-thread cache holds the text of the second it is labelled with *)
  Definition cache_coherent (th : tls) (r : logreq) : Prop :=
    lq_seconds r = lastSecond th -> firstn 17 (t_time th) = time_text (lq_dt r).

  Definition req_ok (r : logreq) : Prop :=
    dt_ok (lq_dt r) /\
    Forall (fun it => item_ok it = true) (lq_msg r) /\
    (match lq_errno r with Some (e, _) => - 2 ^ 31 <= e < 2 ^ 31 | None => True end) /\
    - 2 ^ 31 <= lq_line r < 2 ^ 31 /\
    0 <= lq_micros r < 1000000.       (* time % 1000000 of a time stamp at or after the epoch *)

  Lemma int_ok v : - 2 ^ 31 <= v < 2 ^ 31 -> item_ok (IInt TInt v) = true.
  Proof.
    intros H. cbn [item_ok ity_lo ity_hi]. apply andb_true_intro. split; [apply Z.leb_le|apply Z.ltb_lt]; lia.
  Qed.

  Lemma items_text th r :
    cache_coherent th r -> dt_ok (lq_dt r) -> 0 <= lq_micros r < 1000000 ->
    concat (map (item_text fmt_g) (snd (prefix_items th r) ++ lq_msg r ++ suffix_items r)) = line_text r.
  Proof.
    intros Hc Hdt Hus. unfold prefix_items. rewrite format_time_eq by assumption.
    unfold format_time_spec, line_text, suffix_items, errno_text, func_text, zone_mark.
    assert (Ht : firstn 17 (t_time (if lq_seconds r =? lastSecond th then th
                                    else mkTLS (lq_seconds r) (time_text (lq_dt r)))) = time_text (lq_dt r)).
    { destruct (Z.eqb_spec (lq_seconds r) (lastSecond th)) as [E|E]; [exact (Hc E)|].
      cbn [t_time]. apply firstn_all2. rewrite time_text_length by exact Hdt. lia. }
    cbn [snd]. rewrite !map_app, !concat_app. cbn [map concat item_text app].
    rewrite Ht. rewrite (firstn_all2 (n := 6)) by (rewrite level_name_length; lia).
    destruct (lq_errno r) as [[e txt]|]; destruct (lq_func r) as [f|];
      cbn [map concat item_text app]; rewrite ?app_nil_r;
      repeat (rewrite <- ?app_assoc; cbn [app]); reflexivity.
  Qed.

  Lemma items_ok th r : req_ok r ->
    Forall (fun it => item_ok it = true) (snd (prefix_items th r) ++ lq_msg r ++ suffix_items r).
  Proof.
    intros [Hdt [Hm [He [Hl Hus]]]]. unfold prefix_items. rewrite format_time_eq by assumption.
    unfold format_time_spec, suffix_items. cbn [snd].
    repeat first [apply Forall_nil | apply Forall_cons | (apply Forall_app; split)];
      try reflexivity; try assumption; try (apply int_ok; assumption).
    - destruct (lq_errno r) as [[e txt]|];
        repeat first [apply Forall_nil | apply Forall_cons]; try reflexivity. apply int_ok; exact He.
    - destruct (lq_func r); repeat first [apply Forall_nil | apply Forall_cons]; reflexivity.
  Qed.

  Lemma line_shape th r :
    cache_coherent th r -> req_ok r ->
    (length (line_text r) + kMaxNumericSize <= kSmallBuffer)%nat ->
    exists b, snd (log_line fmt_g th r) = Ok b /\ data b = line_text r /\ inv b.
  Proof.
    intros Hc Hok Hfit. unfold log_line.
    destruct (prefix_items th r) as [th' pre] eqn:Ep. cbn [snd].
    pose proof (items_text th r Hc (proj1 Hok) (proj2 (proj2 (proj2 (proj2 Hok))))) as Ht.
    pose proof (items_ok th r Hok) as Hi.
    rewrite Ep in Ht, Hi. cbn [snd] in Ht, Hi.
    assert (Hinv : inv (empty kSmallBuffer)) by (unfold inv, empty, flen; cbn; pose proof ksmall_pos; lia).
    destruct (run_ok fmt_g fmt_g_len _ _ Hinv Hi) as [b [E [Hcap [Hb Hd]]]].
    exists b. split; [exact E|]. split; [|exact Hb].
    rewrite Hd. cbn [cap data empty]. rewrite kept_all.
    - cbn [app]. exact Ht.
    - unfold total_len. rewrite Ht. cbn [length]. lia.
  Qed.

  (* the cache left behind is labelled with this line's second and holds its text *)
  Lemma cache_after th r :
    cache_coherent th r -> dt_ok (lq_dt r) ->
    let th' := fst (log_line fmt_g th r) in
    lastSecond th' = lq_seconds r /\ firstn 17 (t_time th') = time_text (lq_dt r).
  Proof.
    intros Hc Hdt. pose proof (format_time_fst th r Hdt) as Hf.
    unfold log_line, prefix_items. destruct (format_time th r) as [th1 tm]. cbn [fst] in *. subst th1.
    destruct (Z.eqb_spec (lq_seconds r) (lastSecond th)) as [E|E]; cbn [fst lastSecond t_time].
    - split; [congruence|exact (Hc E)].
    - split; [reflexivity|]. apply firstn_all2. rewrite time_text_length by exact Hdt. lia.
  Qed.

  (* ---- a thread logging a sequence of lines: the per-thread second cache ------------------- *)

  Fixpoint log_lines (th : tls) (rs : list logreq) : list (res fbuf) :=
    match rs with
    | [] => []
    | r :: rest => snd (log_line fmt_g th r) :: log_lines (fst (log_line fmt_g th r)) rest
    end.

  (* the zone is not changed while the thread logs: the broken-down time of every line is ONE
     function F of its second (toUtcTime, or toLocalTime of the one configured zone); no line is
     stamped with second 0 of the epoch (the zero-initialised cache is labelled 0) *)
  Definition line_ok (F : Z -> datetime) (r : logreq) : Prop :=
    req_ok r /\ lq_dt r = F (lq_seconds r) /\ lq_seconds r <> 0 /\
    (length (line_text r) + kMaxNumericSize <= kSmallBuffer)%nat.
  Definition cache_for (F : Z -> datetime) (th : tls) : Prop :=
    lastSecond th <> 0 -> firstn 17 (t_time th) = time_text (F (lastSecond th)).

  Lemma cache_for_tls0 F : cache_for F tls0.
  Proof. intros H. exfalso. apply H. reflexivity. Qed.

  Lemma lines_shape F rs : forall th, cache_for F th -> Forall (line_ok F) rs ->
    Forall2 (fun r out => exists b, out = Ok b /\ data b = line_text r) rs (log_lines th rs).
  Proof.
    induction rs as [|r rest IH]; intros th Hc Hok; cbn [log_lines]; [constructor|].
    inversion Hok as [|? ? [Hr [Hd [Hs Hfit]]] Hrest]; subst.
    assert (Hcoh : cache_coherent th r).
    { intros E. rewrite Hd, E. apply Hc. rewrite <- E. exact Hs. }
    constructor.
    - destruct (line_shape th r Hcoh Hr Hfit) as [b [E [D _]]]. exists b. split; assumption.
    - apply IH; [|exact Hrest]. destruct (cache_after th r Hcoh (proj1 Hr)) as [L T].
      intros _. rewrite T, L, Hd. reflexivity.
  Qed.

  (* ---- how long a line is: every field bounded, the errno text by strerror_tl's buffer --------- *)

  Lemma pad_length_max c w s : length (pad c w s) = Nat.max w (length s).
  Proof. unfold pad. rewrite app_length, repeat_length. lia. Qed.

  Lemma int32_text_length v : - 2 ^ 31 <= v < 2 ^ 31 -> (length (convert v) <= 11)%nat.
  Proof.
    intros H. pose proof (convert_length v 10 ltac:(lia) ltac:(change (10 ^ Z.of_nat 10) with 10000000000; lia)) as L.
    destruct (v <? 0); lia.
  Qed.

  Lemma line_text_length r : req_ok r ->
    length (line_text r) =
    (17 + 1 + 6 + (if lq_zone r then 1 else 2) + length (tid_text (lq_tid r)) + 6 + length (errno_text r) +
     length (func_text r) + total_len fmt_g (lq_msg r) + 3 + length (basename (until_nul (lq_path r))) + 1 +
     length (convert (lq_line r)) + 1)%nat.
  Proof.
    intros [Hdt [_ [_ [_ Hus]]]]. unfold line_text, total_len, zone_mark.
    rewrite !app_length, time_text_length by exact Hdt.
    rewrite (fmt_d_length x30 6) by (try lia; change (10 ^ Z.of_nat 6) with 1000000; lia).
    rewrite level_name_length. destruct (lq_zone r); cbn [length]; lia.
  Qed.

  (* strerror_tl returns a C string held in t_errnobuf (Gen_C17.Logging_errnobuf_size bytes): at most
     size - 1 characters.  With thread ids below 10^7 (kernel limit 2^22) the fields other than
     function name, message and base name take at most 76 + size characters. *)
  Lemma line_fits r : req_ok r -> 0 <= lq_tid r < 10 ^ 7 ->
    (match lq_errno r with Some (_, txt) => (length (until_nul txt) < Z.to_nat Logging_errnobuf_size)%nat | None => True end) ->
    (length (func_text r) + total_len fmt_g (lq_msg r) + length (basename (until_nul (lq_path r))) +
     (76 + Z.to_nat Logging_errnobuf_size) + kMaxNumericSize <= kSmallBuffer)%nat ->
    (length (line_text r) + kMaxNumericSize <= kSmallBuffer)%nat.
  Proof.
    intros Hok Htid Herr Hfit. rewrite line_text_length by exact Hok.
    destruct Hok as [_ [_ [He [Hl _]]]].
    assert (T : (length (tid_text (lq_tid r)) <= 8)%nat).
    { unfold tid_text, fmt_d. rewrite app_length, pad_length_max. cbn [length].
      pose proof (convert_length (lq_tid r) 7 ltac:(lia) ltac:(change (10 ^ Z.of_nat 7) with (10 ^ 7); lia)) as L.
      destruct (Z.ltb_spec (lq_tid r) 0); lia. }
    assert (E : (length (errno_text r) <= Z.to_nat Logging_errnobuf_size + 20)%nat).
    { unfold errno_text. destruct (lq_errno r) as [[e txt]|]; [|cbn [length]; lia].
      rewrite !app_length. cbn [length]. pose proof (int32_text_length e He). lia. }
    pose proof (int32_text_length (lq_line r) Hl) as L.
    set (S := Z.to_nat Logging_errnobuf_size) in *.
    destruct (lq_zone r); lia.
  Qed.
End Line.

(* formatSI / formatIEC: see C17_Units.v *)
