(* C12_Loop: the environment contract `timely` of the theorems is DERIVED from a more primitive one about the event
   loop: the loop does not sleep in poll while functors are queued, and it runs its functor queue at least every
   Bq = 498 ms while something is queued.  `since` is the virtual time from which on every queued functor was queued
   (the time of the last RunPending, or of the step that found the queue empty); it is threaded through the history,
   it is not part of the model state. *)
From Coq Require Import List ZArith Lia Bool Arith.
From Muduo Require Import Gen_Consts Gen_C12 C12_Model C12_Hyg C12_Trace C12_Inv C12_Proofs.
Import ListNotations.
Local Open Scope Z_scope.

Definition Bq : Z := 498.

(* the loop is live at a TimerFire / RunPending: nothing queued, or no clock jump (a timer is already due) and the queue
   was last run less than Bq ms ago *)
Definition live (since : Z) (s : st) (timer : bool) : bool :=
  match pending s with
  | [] => true
  | _ => (if timer then match min_due (timers s) with Some t0 => t0 <=? now s | None => true end else true)
         && (now s - since <=? Bq)
  end.
Definition lcontract (since : Z) (s : st) (o : op) : bool :=
  match o with
  | TimerFire => live since s true
  | RunPending => live since s false
  | _ => contract s o
  end.
Definition is_RunPending (o : op) : bool := match o with RunPending => true | _ => false end.
Definition since_next (since : Z) (s s' : st) (o : op) : Z :=
  match pending s with [] => now s' - 1 | _ => if is_RunPending o then now s' - 1 else since end.

Fixpoint ladmissible (since : Z) (s : st) (l : list op) : Prop :=
  match l with
  | [] => True
  | o :: r =>
      match step s o with
      | Rejected => ladmissible since s r
      | Fault => lcontract since s o = true
      | Ok s' _ => lcontract since s o = true /\ ladmissible (since_next since s s' o) s' r
      end
  end.

(* ------------------------------------------------------------------ the timing invariant *)
Record Tinv (s : st) (q : Z) : Prop := {
  t_delay : 500 <= k_delay s;
  t_since : q <= now s;
  t_retry : count_rc (pending s) <> 0%nat -> forall d, In (d, TRetry) (timers s) -> q + 500 <= d;
  t_hack_ex : alive s = false -> k_dead s = false -> has_k (pending s) = true -> exists d, In (d, THack) (timers s);
  t_hack_a : alive s = false -> k_dead s = false -> In FStop (pending s) \/ nstart (pending s) <> 0%nat ->
             forall d, In (d, THack) (timers s) -> q + 1000 <= d;
  t_hack_b : alive s = false -> k_dead s = false -> count_rc (pending s) <> 0%nat ->
             forall d, In (d, THack) (timers s) -> q + 1000 - Bq <= d
}.

Lemma min_due_in l t0 : min_due l = Some t0 -> exists k, In (t0, k) l.
Proof.
  revert t0. induction l as [|[d k] r IH]; cbn; [discriminate|]. intros t0.
  destruct (min_due r) as [m|] eqn:E.
  - intros [= <-]. destruct (Z.min_spec d m) as [[_ ->]|[_ ->]]; [eauto|]. destruct (IH m eq_refl) as (k' & H); eauto.
  - intros [= <-]. eauto.
Qed.
Lemma count_rc_existsb q : count_rc q = 0%nat -> existsb is_FReset q = false.
Proof.
  unfold count_rc. induction q as [|f r IH]; cbn; auto. destruct (is_FReset f); cbn; [discriminate|auto].
Qed.
Lemma has_k_cases q : has_k q = true -> In FStop q \/ nstart q <> 0%nat \/ count_rc q <> 0%nat.
Proof.
  unfold has_k, nstart, count_rc. induction q as [|f r IH]; cbn; [discriminate|].
  intros H. apply orb_prop in H. destruct H as [H|H].
  - destruct f; cbn in *; try discriminate; auto; try (right; left; lia); try (right; right; lia).
  - destruct (IH H) as [A|[A|A]]; auto.
    + right. left. destruct (is_FStart f); cbn; lia.
    + right. right. destruct (is_FReset f); cbn; lia.
Qed.
Lemma all_retry_no_hack s d : alive s = true -> Kinv s -> In (d, THack) (timers s) -> False.
Proof.
  intros A K H. destruct K as [_ _ _ _ _ Khk _ _ _ _]. specialize (Khk A). unfold nretry in Khk.
  pose proof (filter_all _ _ Khk _ H) as Z. discriminate.
Qed.

(* the derivation: with the invariant, a live loop is `timely` *)
Lemma live_timely s q : Inv s -> Tinv s q -> min_due (timers s) <> None -> live q s true = true -> timely s = true.
Proof.
  intros (K & Kd & St & C & Cr & X) T Hm L. unfold timely, live in *.
  destruct (pending s) as [|f r] eqn:Hp; [cbn; destruct (alive s); reflexivity|]. rewrite <- Hp in *.
  destruct (min_due (timers s)) as [t0|] eqn:Em; [|congruence].
  apply andb_prop in L. destruct L as [L1 L2]. apply Z.leb_le in L1. apply Z.leb_le in L2.
  destruct T as [Td Ts Tr Te Ta Tb].
  assert (Hd : k_dead s = false).
  { destruct (k_dead s) eqn:E; auto. destruct K as [_ _ _ _ _ _ Kkd _ _ _]. destruct (Kkd E) as (_ & T0 & _). rewrite T0 in Em. discriminate. }
  assert (Hrc : count_rc (pending s) = 0%nat).
  { destruct (count_rc (pending s)) eqn:E; auto. exfalso.
    destruct (min_due_in _ _ Em) as (k & Hk). destruct k.
    - specialize (Tr ltac:(congruence) _ Hk). unfold Bq in *. lia.
    - destruct (alive s) eqn:A; [eapply all_retry_no_hack; eauto|].
      specialize (Tb eq_refl Hd ltac:(congruence) _ Hk). unfold Bq in *. lia. }
  rewrite (count_rc_existsb _ Hrc). cbn [negb andb].
  destruct (alive s) eqn:A; [reflexivity|]. cbn [orb]. rewrite existsb_has_k.
  destruct (has_k (pending s)) eqn:Hk; [|reflexivity]. cbn [negb orb].
  destruct (Te eq_refl Hd eq_refl) as (d & Hdk). apply existsb_exists. exists (d, THack). split; auto. cbn.
  apply Z.ltb_lt. rewrite Z.max_l by lia.
  destruct (has_k_cases _ Hk) as [P|[P|P]]; [| |congruence].
  - specialize (Ta eq_refl Hd (or_introl P) _ Hdk). unfold Bq in *. lia.
  - specialize (Ta eq_refl Hd (or_intror P) _ Hdk). unfold Bq in *. lia.
Qed.

(* ------------------------------------------------------------------ what the functions do to clock, timers, delay, queue *)
Definition newretry (t0 : Z) (newt : list (Z * tkind)) : Prop := forall t, In t newt -> snd t = TRetry /\ t0 + 500 <= fst t.
Definition teff (s s' : st) : Prop :=
  now s' = now s /\ alive s' = alive s /\ k_dead s' = k_dead s /\
  (500 <= k_delay s -> 500 <= k_delay s' /\ exists newt, timers s' = timers s ++ newt /\ newretry (now s) newt) /\
  exists app, pending s' = pending s ++ app /\ has_k app = false.
Definition teffM (s : st) (m : M) : Prop := match m with Some (s', _) => teff s s' | None => True end.

Lemma has_k_app q q' : has_k (q ++ q') = has_k q || has_k q'.
Proof. unfold has_k. apply existsb_app. Qed.
Lemma teff_refl s : teff s s.
Proof.
  unfold teff. split; [auto|]. split; [auto|]. split; [auto|]. split.
  - intros D. split; auto. exists []. rewrite app_nil_r. split; auto. intros t [].
  - exists []. rewrite app_nil_r. auto.
Qed.
Lemma teff_trans s1 s2 s3 : teff s1 s2 -> teff s2 s3 -> teff s1 s3.
Proof.
  intros (A1 & A2 & A3 & A4 & (p1 & A5 & A6)) (B1 & B2 & B3 & B4 & (p2 & B5 & B6)). unfold teff.
  split; [congruence|]. split; [congruence|]. split; [congruence|]. split.
  - intros D. destruct (A4 D) as (D2 & n1 & T1 & N1). destruct (B4 D2) as (D3 & n2 & T2 & N2). split; auto.
    exists (n1 ++ n2). rewrite T2, T1, app_assoc. split; auto. intros t Hi. apply in_app_or in Hi. destruct Hi as [Hi|Hi]; auto.
    rewrite A1 in N2. auto.
  - exists (p1 ++ p2). rewrite B5, A5, app_assoc, has_k_app, A6, B6. auto.
Qed.
Lemma teffM_bind s m f : teffM s m -> (forall s1, teff s s1 -> teffM s1 (f s1)) -> teffM s (bind m f).
Proof.
  unfold teffM, bind. destruct m as [[s1 e1]|]; auto. intros H F. specialize (F s1 H). destruct (f s1) as [[s2 e2]|]; auto.
  eapply teff_trans; eauto.
Qed.
(* a state that differs only in fields the timing invariant does not look at *)
Definition tsame (s s' : st) : Prop :=
  now s' = now s /\ alive s' = alive s /\ k_dead s' = k_dead s /\ k_delay s' = k_delay s /\ timers s' = timers s /\ pending s' = pending s.
Lemma tsame_teff s s' : tsame s s' -> teff s s'.
Proof.
  intros (A & B & C & D & E & F). unfold teff. rewrite A, B, C, D, E, F. split; [auto|]. split; [auto|]. split; [auto|]. split.
  - intros D0. split; auto. exists []. rewrite app_nil_r. split; auto. intros t [].
  - exists []. rewrite app_nil_r. auto.
Qed.
Lemma teff_mk s s' newt app :
  now s' = now s -> alive s' = alive s -> k_dead s' = k_dead s -> (500 <= k_delay s -> 500 <= k_delay s') ->
  timers s' = timers s ++ newt -> (500 <= k_delay s -> newretry (now s) newt) -> pending s' = pending s ++ app -> has_k app = false -> teff s s'.
Proof.
  intros A B C D E F G H. unfold teff. split; [auto|]. split; [auto|]. split; [auto|]. split.
  - intros D0. split; auto. exists newt. auto.
  - exists app. auto.
Qed.
Ltac ts := apply tsame_teff; unfold tsame; cbn; repeat split; auto.

Lemma retry_teff s i : teffM s (retry s i).
Proof.
  unfold retry, do_close. cbn -[Connector_retry_next]. destruct (k_connect s); [|ts].
  apply (teff_mk _ _ [(now s + k_delay s, TRetry)] []); cbn; auto; try (rewrite app_nil_r; auto).
  - rewrite G_retry_next. lia.
  - intros D t [<-|[]]. cbn. split; auto. lia.
Qed.
Lemma startInLoop_teff s : teffM s (startInLoop s).
Proof.
  unfold startInLoop. destruct (negb _); [exact I|]. destruct (k_connect s); [|apply teff_refl].
  unfold connect_. cbn [kq set_socks].
  assert (X : forall e s0, tsame s s0 ->
     teffM s (bind (Some (s0, [EvAttempt (length (socks s)) e]))
       (fun s1 => match classify e with
                  | ActConnecting => connecting s1 (length (socks s)) | ActRetry => retry s1 (length (socks s))
                  | ActClose => do_close s1 (length (socks s)) | ActLeak => ret s1 end))).
  { intros e s0 T0. apply teffM_bind; [apply tsame_teff; auto|]. intros s1 T1. destruct (classify e).
    - unfold connecting. cbn. destruct (k_chan s1); [exact I|]. ts.
    - apply retry_teff.
    - unfold do_close. ts.
    - apply teff_refl. }
  destruct (kq s) as [|e r]; apply X; unfold tsame; cbn; auto 10.
Qed.
Lemma restart_teff s : teffM s (restart s).
Proof.
  unfold restart. apply teffM_bind; [|intros; apply startInLoop_teff].
  apply (teff_mk _ _ [] []); cbn; auto; try (rewrite app_nil_r; auto).
  - rewrite G_init_delay. lia.
  - intros _ t [].
Qed.
Lemma teffM_pre s s1 m : teff s s1 -> teffM s1 m -> teffM s m.
Proof. unfold teffM. destruct m as [[s2 e2]|]; auto. intros. eapply teff_trans; eauto. Qed.
Lemma teff_enq s f : is_kfunctor f = false -> teff s (enq s f).
Proof.
  intros Hf. apply (teff_mk _ _ [] [f]); cbn; auto; try (rewrite app_nil_r; auto).
  - intros _ t [].
  - unfold has_k. cbn. rewrite Hf. reflexivity.
Qed.
Lemma teff_set_connection s v : teff s (set_connection s v).
Proof. ts. Qed.
Lemma handleClose_teff s c : teffM s (handleClose s c).
Proof.
  unfold handleClose. destruct (nth_error (conns s) c) as [o|]; [|exact I].
  apply teffM_bind; [ts|]. intros s1 T1. destruct (ccb o).
  - unfold removeConnection. destruct (negb _); [exact I|]. destruct (connection s1); [|exact I]. destruct (negb _); [exact I|].
    assert (E : teff s1 (enq (set_connection s1 None) (FConnDestroyed c))).
    { eapply teff_trans; [apply teff_set_connection|apply teff_enq; reflexivity]. }
    destruct (_ && _).
    + eapply teffM_pre; [exact E|apply restart_teff].
    + exact E.
  - apply (teff_enq s1). reflexivity.
Qed.
Lemma conn_shutdown_teff s c b : teffM s (conn_shutdown s c b).
Proof.
  unfold conn_shutdown. destruct (nth_error (conns s) c) as [o|]; [|exact I]. destruct (cst o); try apply teff_refl.
  destruct b; [ts|]. apply (teff_mk _ _ [] [FShutdown c]); cbn; auto; try (rewrite app_nil_r; auto). intros _ t [].
Qed.
Lemma gc_from_teff n : forall c s, teffM s (gc_from n c s).
Proof.
  induction n as [|n IH]; intros c s; cbn [gc_from]; [apply teff_refl|].
  destruct (nth_error (conns s) c) as [o|]; [|apply teff_refl]. destruct (_ && _); [|apply IH].
  destruct (cst o); try exact I. destruct (creg o); [exact I|]. apply teffM_bind; [ts|]. intros; apply IH.
Qed.

(* ------------------------------------------------------------------ transferring the timing invariant *)
(* no functor of the Connector is in q' that is not in q *)
Definition ksub (q' q : list functor) : Prop :=
  (count_rc q' <> 0%nat -> count_rc q <> 0%nat) /\ (In FStop q' -> In FStop q) /\ (nstart q' <> 0%nat -> nstart q <> 0%nat) /\
  (has_k q' = true -> has_k q = true).
Lemma has_k_false_parts app : has_k app = false -> count_rc app = 0%nat /\ nstart app = 0%nat /\ ~ In FStop app.
Proof. intros H. repeat split; [apply has_k_count_rc|apply has_k_nstart|apply has_k_no_stop]; auto. Qed.
Lemma ksub_app q app : has_k app = false -> ksub (q ++ app) q.
Proof.
  intros H. destruct (has_k_false_parts _ H) as (A & B & C). unfold ksub. rewrite count_rc_app, A, has_k_app, H, orb_false_r, Nat.add_0_r.
  repeat split; auto.
  - intros Hi. apply in_app_or in Hi. tauto.
  - unfold nstart in *. rewrite filter_app, app_length, B, Nat.add_0_r. auto.
Qed.
Lemma ksub_refl q : ksub q q.
Proof. unfold ksub. tauto. Qed.
Lemma ksub_trans a b c : ksub a b -> ksub b c -> ksub a c.
Proof. unfold ksub. tauto. Qed.
Lemma ksub_pop f r : ksub r (f :: r).
Proof.
  unfold ksub. rewrite count_rc_cons, nstart_cons, has_k_cons. repeat split.
  - destruct (is_FReset f); lia.
  - intros H. right. auto.
  - destruct (is_FStart f); lia.
  - intros ->. apply orb_true_r.
Qed.
Lemma ksub_nil q : ksub q [] -> count_rc q = 0%nat /\ ~ In FStop q /\ nstart q = 0%nat /\ has_k q = false.
Proof.
  intros (A & B & C & D). repeat split.
  - destruct (count_rc q); auto. exfalso. apply A; auto.
  - intros H. destruct (B H).
  - destruct (nstart q); auto. exfalso. apply C; auto.
  - destruct (has_k q); auto. discriminate D; auto.
Qed.

Lemma Tinv_transfer s q s1 q1 newt :
  Tinv s q -> now s <= now s1 -> 500 <= k_delay s1 -> (alive s1 = false -> alive s = false) -> (k_dead s1 = false -> k_dead s = false) ->
  timers s1 = timers s ++ newt -> newretry (now s) newt -> ksub (pending s1) (pending s) ->
  (q1 = q \/ (pending s = [] /\ q1 <= now s1)) -> Tinv s1 q1.
Proof.
  intros [Td Ts Tr Te Ta Tb] Hn Hd Ha Hk Ht Hnew Hsub Hq.
  assert (Hold : forall d k, In (d, k) (timers s1) -> In (d, k) (timers s) \/ (k = TRetry /\ now s + 500 <= d)).
  { intros d k Hi. rewrite Ht in Hi. apply in_app_or in Hi. destruct Hi as [Hi|Hi]; auto. right. destruct (Hnew _ Hi). auto. }
  destruct Hq as [->|[Hp Hq]].
  - destruct Hsub as (S1 & S2 & S3 & S4). split; auto; try lia.
    + intros C d Hi. destruct (Hold _ _ Hi) as [Ho|[_ Ho]]; [apply Tr; auto|lia].
    + intros A D H. destruct (Te (Ha A) (Hk D) (S4 H)) as (d & Hi). exists d. rewrite Ht. apply in_or_app. auto.
    + intros A D H d Hi. destruct (Hold _ _ Hi) as [Ho|[E _]]; [|discriminate]. apply (Ta (Ha A) (Hk D)); auto. tauto.
    + intros A D H d Hi. destruct (Hold _ _ Hi) as [Ho|[E _]]; [|discriminate]. apply (Tb (Ha A) (Hk D)); auto.
  - rewrite Hp in Hsub. destruct (ksub_nil _ Hsub) as (N1 & N2 & N3 & N4). split; auto; try congruence; try tauto; try (intros A D [H|H]; tauto).
Qed.

Lemma teff_Tinv s q s1 q1 : Tinv s q -> teff s s1 -> (q1 = q \/ (pending s = [] /\ q1 <= now s1)) -> Tinv s1 q1.
Proof.
  intros T (A1 & A2 & A3 & A4 & (app & A5 & A6)) Hq. destruct (A4 (t_delay _ _ T)) as (D & newt & Ht & Hn).
  eapply Tinv_transfer; eauto; try lia; try congruence. rewrite A5. apply ksub_app; auto.
Qed.

Lemma nretry_0_no s d : nretry s = 0%nat -> ~ In (d, TRetry) (timers s).
Proof.
  unfold nretry. intros H Hi. assert (In (d, TRetry) (filter is_retry_timer (timers s))) by (apply filter_In; auto).
  destruct (filter is_retry_timer (timers s)); [auto|discriminate].
Qed.

(* ---- finish: only ~TcpConnection / ~Connector *)
Definition tsame' (s s' : st) : Prop :=
  now s' = now s /\ alive s' = alive s /\ k_delay s' = k_delay s /\ timers s' = timers s /\ pending s' = pending s /\
  (k_dead s' = false -> k_dead s = false).
Lemma gc_from_tsame n : forall c s s' ev, gc_from n c s = Some (s', ev) -> tsame s s'.
Proof.
  induction n as [|n IH]; intros c s s' ev; cbn [gc_from]; [intros [= <- _]; unfold tsame; auto 10|].
  destruct (nth_error (conns s) c) as [o|]; [|intros [= <- _]; unfold tsame; auto 10]. destruct (_ && _); [|apply IH].
  destruct (cst o); try discriminate. destruct (creg o); [discriminate|]. intros H. apply bind_some_inv' in H. destruct H as (rest & H & _).
  apply IH in H. unfold tsame in *. cbn in H. exact H.
Qed.
Lemma finish_t m s' ev' : finish m = Some (s', ev') -> exists s0 ev0, m = Some (s0, ev0) /\ tsame' s0 s'.
Proof.
  unfold finish, bind. destruct m as [[s0 ev0]|]; [|discriminate]. unfold gc. destruct (gc_from _ _ s0) as [[s1 e1]|] eqn:G; [|discriminate].
  apply gc_from_tsame in G. destruct G as (G1 & G2 & G3 & G4 & G5 & G6). unfold settle. destruct (_ && _ && _ && _).
  - destruct (k_chan s1); [discriminate|]. cbn. intros [= <- _]. exists s0, ev0. split; auto. unfold tsame'. cbn. repeat split; auto. discriminate.
  - cbn. intros [= <- _]. exists s0, ev0. split; auto. unfold tsame'. repeat split; auto. congruence.
Qed.
Lemma Tinv_tsame' s q s' q1 : Tinv s q -> tsame' s s' -> (q1 = q \/ (pending s = [] /\ q1 <= now s')) -> Tinv s' q1.
Proof.
  intros T (A & B & C & D & E & F) Hq. eapply (Tinv_transfer s q s' q1 []); eauto; try lia; try congruence.
  - rewrite C. apply T.
  - rewrite app_nil_r. auto.
  - intros t [].
  - rewrite E. apply ksub_refl.
Qed.

(* ---- the three places where resetChannel is queued (state kConnecting, registered channel) *)
Definition reff (s s' : st) : Prop :=
  now s' = now s /\ alive s' = alive s /\ k_dead s' = k_dead s /\
  (500 <= k_delay s -> 500 <= k_delay s' /\ exists newt, timers s' = timers s ++ newt /\ newretry (now s) newt) /\
  exists app, pending s' = pending s ++ FResetChannel :: app /\ has_k app = false.
Lemma reff_of_teff s s0 s1 :
  now s0 = now s -> alive s0 = alive s -> k_dead s0 = k_dead s -> k_delay s0 = k_delay s -> timers s0 = timers s ->
  pending s0 = pending s ++ [FResetChannel] -> teff s0 s1 -> reff s s1.
Proof.
  intros E1 E2 E3 E4 E5 E6 (A1 & A2 & A3 & A4 & (app & A5 & A6)). unfold reff. rewrite <- E1, <- E2, <- E3, <- E4, <- E5.
  split; [auto|]. split; [auto|]. split; [auto|]. split; [exact A4|]. exists app. rewrite A5, E6, <- app_assoc. auto.
Qed.
Lemma reff_wrap s s0 m :
  now s0 = now s -> alive s0 = alive s -> k_dead s0 = k_dead s -> k_delay s0 = k_delay s -> timers s0 = timers s ->
  pending s0 = pending s ++ [FResetChannel] -> teffM s0 m -> match m with Some (s1, _) => reff s s1 | None => True end.
Proof. intros E1 E2 E3 E4 E5 E6 T. destruct m as [[s1 e]|]; auto. eapply reff_of_teff; eauto. Qed.
Lemma handleWrite_reff s e b i : k_chan s = Some (i, true) -> k_state s = KConnecting ->
  match handleWrite s e b with Some (s1, _) => reff s s1 | None => True end.
Proof.
  intros Hc Hs. unfold handleWrite, removeAndResetChannel. rewrite Hs, Hc. cbn [kstate_eqb].
  assert (R : match retry (enq (set_k_chan s (Some (i, false))) FResetChannel) i with Some (s1, _) => reff s s1 | None => True end).
  { apply (reff_wrap s (enq (set_k_chan s (Some (i, false))) FResetChannel)); try reflexivity. apply retry_teff. }
  destruct (negb _); [exact R|]. destruct b; [exact R|]. cbn. destruct (k_connect s).
  - unfold newConnection. cbn. destruct (negb (alive s)); [exact I|]. unfold reff. cbn.
    split; [auto|]. split; [auto|]. split; [auto|]. split; [|exists []; auto].
    intros D. split; auto. exists []. rewrite app_nil_r. split; auto. intros t [].
  - unfold do_close, reff. cbn. split; [auto|]. split; [auto|]. split; [auto|]. split; [|exists []; auto].
    intros D. split; auto. exists []. rewrite app_nil_r. split; auto. intros t [].
Qed.
Lemma handleError_reff s i : k_chan s = Some (i, true) -> k_state s = KConnecting ->
  match handleError s with Some (s1, _) => reff s s1 | None => True end.
Proof.
  intros Hc Hs. unfold handleError, removeAndResetChannel. rewrite Hs, Hc. cbn [kstate_eqb].
  apply (reff_wrap s (enq (set_k_chan s (Some (i, false))) FResetChannel)); try reflexivity. apply retry_teff.
Qed.
Lemma stopInLoop_reff s i : k_chan s = Some (i, true) -> k_state s = KConnecting ->
  match stopInLoop s with Some (s1, _) => reff s s1 | None => True end.
Proof.
  intros Hc Hs. unfold stopInLoop, removeAndResetChannel. rewrite Hs. cbn [kstate_eqb].
  change (k_chan (set_k_state s KDisconnected)) with (k_chan s). rewrite Hc.
  apply (reff_wrap s (enq (set_k_chan (set_k_state s KDisconnected) (Some (i, false))) FResetChannel)); try reflexivity. apply retry_teff.
Qed.

(* the invariant across such a step; `extra` = a stopInLoop that was dequeued just before (RunOne / RunPending) *)
Lemma reff_Tinv s0 s q s1 q1 i (extra : bool) :
  Kinv s -> (if extra then True else Kdc s) -> k_chan s = Some (i, true) ->
  Tinv s0 q -> (if extra then In FStop (pending s0) else s0 = s) -> ksub (pending s) (pending s0) ->
  now s = now s0 -> alive s = alive s0 -> k_dead s = k_dead s0 -> k_delay s = k_delay s0 -> timers s = timers s0 ->
  reff s s1 -> (q1 = q \/ (pending s0 = [] /\ q1 <= now s1)) -> Tinv s1 q1.
Proof.
  intros K Kd Hc T Hex Hsub E1 E2 E3 E4 E5 (A1 & A2 & A3 & A4 & (app & A5 & A6)) Hq.
  destruct (connecting_facts _ _ K Hc) as (Hs & Hrc & Hcn & Hr & Hx & Hn).
  destruct T as [Td Ts Tr Te Ta Tb]. rewrite E4 in A4. destruct (A4 Td) as (D1 & newt & Ht & Hnew).
  destruct (has_k_false_parts _ A6) as (P1 & P2 & P3).
  assert (Hold : forall d k, In (d, k) (timers s1) -> (k = THack /\ In (d, k) (timers s0)) \/ (k = TRetry /\ now s0 + 500 <= d)).
  { intros d k Hi. rewrite Ht in Hi. apply in_app_or in Hi. destruct Hi as [Hi|Hi].
    - destruct k; [exfalso; eapply nretry_0_no; eauto|]. rewrite <- E5. auto.
    - right. destruct (Hnew _ Hi). cbn in *. split; auto. lia. }
  (* when the client is gone a stopInLoop is (was) queued in s0 *)
  assert (Hstop : alive s1 = false -> k_dead s1 = false -> In FStop (pending s0)).
  { intros A D. destruct extra; auto. subst s0. apply Kd; congruence. }
  assert (Hq' : alive s1 = false -> k_dead s1 = false -> q1 = q).
  { intros A D. destruct Hq as [?|[Hp _]]; auto. specialize (Hstop A D). rewrite Hp in Hstop. destruct Hstop. }
  assert (Hfs : In FStop (pending s1) -> In FStop (pending s0)).
  { rewrite A5. intros Hi. apply in_app_or in Hi. destruct Hi as [Hi|[Hi|Hi]]; [apply Hsub; auto|discriminate|tauto]. }
  assert (Hns : nstart (pending s1) <> 0%nat -> nstart (pending s0) <> 0%nat).
  { rewrite A5. unfold nstart. rewrite filter_app, app_length. cbn. unfold nstart in P2. rewrite P2, Nat.add_0_r. apply Hsub. }
  assert (Q1 : q1 <= now s1) by (destruct Hq as [->|[_ ?]]; lia).
  assert (Q2 : q1 <= now s0 + 0 \/ q1 = q) by (destruct Hq as [->|[_ ?]]; auto; left; lia).
  split; auto; try lia.
  - intros _ d Hi. destruct (Hold _ _ Hi) as [[E _]|[_ L]]; [discriminate|]. destruct Hq as [->|[_ ?]]; lia.
  - intros A D _. assert (A0 : alive s0 = false) by congruence. assert (D0 : k_dead s0 = false) by congruence.
    specialize (Hstop A D). destruct (Te A0 D0) as (d & Hi).
    + unfold has_k. apply existsb_exists. exists FStop. auto.
    + exists d. rewrite Ht, E5. apply in_or_app. auto.
  - intros A D H d Hi. rewrite (Hq' A D). destruct (Hold _ _ Hi) as [[_ Ho]|[E _]]; [|discriminate].
    apply (Ta ltac:(congruence) ltac:(congruence)); auto; destruct H; auto.
  - intros A D _ d Hi. rewrite (Hq' A D). destruct (Hold _ _ Hi) as [[_ Ho]|[E _]]; [|discriminate].
    pose proof (Ta ltac:(congruence) ltac:(congruence) (or_introl (Hstop A D)) _ Ho). unfold Bq. lia.
Qed.

(* ------------------------------------------------------------------ one functor *)
Lemma Tinv_pop s q f r s0 : Tinv s q -> pending s = f :: r -> tsame s (set_pending s0 (pending s)) -> pending s0 = r -> Tinv s0 q.
Proof.
  intros T Hp (A & B & C & D & E & _) Hr. cbn in *. eapply (Tinv_transfer s q s0 q []); eauto; try lia; try congruence.
  - rewrite D. apply T.
  - rewrite app_nil_r. auto.
  - intros t [].
  - rewrite Hr, Hp. apply ksub_pop.
Qed.

(* what the batch lemma needs to know about one functor *)
Definition eff2 (s s' : st) : Prop :=
  (pending s = [] /\ s' = s) \/
  exists f r app newt, pending s = f :: r /\ pending s' = r ++ app /\ ~ In FStop app /\ nstart app = 0%nat /\
    (count_rc app <> 0%nat -> f = FStop /\ nretry s = 0%nat) /\
    timers s' = timers s ++ newt /\ newretry (now s) newt /\ now s' = now s /\ alive s' = alive s /\ (k_dead s' = false -> k_dead s = false).

Lemma teff_eff2 s f r s0 s1 s' : 500 <= k_delay s -> pending s = f :: r -> tsame s (set_pending s0 (pending s)) -> pending s0 = r ->
  teff s0 s1 -> tsame' s1 s' -> eff2 s s'.
Proof.
  intros D Hp (A & B & C & D0 & E & _) Hr (A1 & A2 & A3 & A4 & (app & A5 & A6)) (B1 & B2 & B3 & B4 & B5 & B6). cbn in *.
  rewrite D0 in A4. destruct (A4 D) as (_ & newt & Ht & Hn). destruct (has_k_false_parts _ A6) as (P1 & P2 & P3).
  right. exists f, r, app, newt. split; [exact Hp|]. split; [rewrite B5, A5, Hr; auto|]. split; [auto|]. split; [auto|].
  split; [intros Z; congruence|]. split; [rewrite B4, Ht, E; auto|]. split; [rewrite <- A; auto|]. split; [congruence|]. split; [congruence|].
  intros Z. rewrite <- C, <- A3. auto.
Qed.

Lemma run_one_T s q s' ev : Inv s -> Tinv s q -> run_one s = Some (s', ev) -> Tinv s' q /\ eff2 s s'.
Proof.
  intros (K & Kd & St & C & Cr & X) T. unfold run_one. destruct (pending s) as [|f r] eqn:Hp.
  - intros [= <- _]. split; auto. left. auto.
  - intros H. apply finish_t in H. destruct H as (s1 & ev1 & H & TS).
    set (s0 := set_pending s r) in *.
    assert (TS0 : tsame s (set_pending s0 (pending s))) by (unfold tsame; cbn; auto 10).
    assert (T0 : Tinv s0 q) by (eapply Tinv_pop; eauto).
    assert (D : 500 <= k_delay s) by apply T.
    assert (G : forall m, m = Some (s1, ev1) -> teffM s0 m -> Tinv s' q /\ eff2 s s').
    { intros m -> TE. cbn in TE. split.
      - eapply Tinv_tsame'; [|exact TS|auto]. eapply teff_Tinv; eauto.
      - eapply teff_eff2; eauto. }
    destruct f; cbn [run_functor] in H.
    + destruct (k_dead s0); [discriminate|]. apply (G _ H). apply teffM_bind; [apply teff_refl|]. intros s2 T2.
      pose proof (startInLoop_teff s2) as Z. unfold teffM in *. destruct (startInLoop s2) as [[s3 e3]|]; auto.
    + destruct (k_dead s0) eqn:Hd; [discriminate|].
      destruct (Kinv_pop _ _ _ K Hp eq_refl eq_refl) as [K0 _]. fold s0 in K0.
      destruct (kstate_eqb (k_state s0) KConnecting) eqn:Es.
      * assert (Hs : k_state s0 = KConnecting) by (destruct (k_state s0); cbn in Es; congruence).
        pose proof K0 as K0'. destruct K0' as [Kch _ _ _ _ _ _ _ _ _].
        destruct (k_chan s0) as [[i [|]]|] eqn:Hc; try (destruct Kch; congruence).
        pose proof (stopInLoop_reff s0 i Hc Hs) as R. rewrite H in R.
        destruct (connecting_facts _ _ K0 Hc) as (_ & _ & _ & Hr0 & _).
        split.
        -- eapply Tinv_tsame'; [|exact TS|auto].
           eapply (reff_Tinv s s0 q s1 q i true); eauto; try reflexivity.
           ++ rewrite Hp. left. reflexivity.
           ++ subst s0. cbn. rewrite Hp. apply ksub_pop.
        -- destruct R as (R1 & R2 & R3 & R4 & (app & R5 & R6)). destruct (R4 D) as (_ & newt & Ht & Hn).
           destruct TS as (B1 & B2 & B3 & B4 & B5 & B6). destruct (has_k_false_parts _ R6) as (P1 & P2 & P3).
           right. exists FStop, r, (FResetChannel :: app), newt.
           split; [exact Hp|]. split; [rewrite B5, R5; reflexivity|]. split; [intros [E|E]; [discriminate|tauto]|].
           split; [rewrite nstart_cons; cbn; auto|]. split; [intros _; split; auto|].
           split; [rewrite B4, Ht; reflexivity|]. split; [exact Hn|]. split; [rewrite B1, R1; reflexivity|]. split; [rewrite B2, R2; reflexivity|].
           intros Z. specialize (B6 Z). rewrite R3 in B6. exact B6.
      * unfold stopInLoop in H. rewrite Es in H. apply (G _ H). apply teff_refl.
    + destruct (k_dead s0); [discriminate|]. apply (G _ H). ts.
    + destruct (nth_error (conns s0) c) as [o|]; [|discriminate]. destruct (c_live (cst o)); apply (G _ H); ts.
    + destruct (nth_error (conns s0) c) as [o|]; [|discriminate]. destruct (c_live (cst o)).
      * apply (G _ H). apply handleClose_teff.
      * apply (G _ H). apply teff_refl.
    + apply (G _ H). ts.
    + destruct (nth_error (conns s0) c) as [o|]; [|discriminate]. destruct (calive o); [|discriminate]. apply (G _ H). ts.
    + exfalso. destruct C as [_ C]. destruct C as [Cna _ _ _ _ _ _ _ _ _ _ _ _]. specialize (Cna (FAddHack due)). rewrite Hp in Cna.
      specialize (Cna (or_introl eq_refl)). discriminate.
Qed.

(* ------------------------------------------------------------------ a whole batch *)
Definition batchfacts (n : nat) (s s1 : st) : Prop :=
  exists apps newt, pending s1 = skipn n (pending s) ++ apps /\ ~ In FStop apps /\ nstart apps = 0%nat /\
    (count_rc apps <> 0%nat -> In FStop (firstn n (pending s)) /\ nretry s = 0%nat) /\
    timers s1 = timers s ++ newt /\ newretry (now s) newt /\ now s1 = now s /\ alive s1 = alive s /\ (k_dead s1 = false -> k_dead s = false).

Lemma nretry_app s s' newt : timers s' = timers s ++ newt -> (nretry s <= nretry s')%nat.
Proof. unfold nretry. intros ->. rewrite filter_app, app_length. lia. Qed.

Lemma run_n_T n : forall s q s1 ev, Inv s -> Tinv s q -> (n <= length (pending s))%nat -> run_n n s = Some (s1, ev) ->
  Inv s1 /\ Tinv s1 q /\ batchfacts n s s1.
Proof.
  induction n as [|n IH]; intros s q s1 ev I T Hn; cbn [run_n].
  - intros [= <- _]. split; auto. split; auto. exists [], []. rewrite !app_nil_r. cbn [skipn firstn].
    split; [reflexivity|]. split; [tauto|]. split; [reflexivity|]. split; [intros Z; exfalso; apply Z; reflexivity|].
    split; [reflexivity|]. split; [intros t []|]. split; [reflexivity|]. split; [reflexivity|auto].
  - pose proof (run_one_I s I) as W. unfold bind. destruct (run_one s) as [[s2 e2]|] eqn:E; [|discriminate]. cbn in W.
    destruct (run_n n s2) as [[s3 e3]|] eqn:E2; [|discriminate]. intros [= <- _].
    destruct (run_one_T _ _ _ _ I T E) as [T2 F2].
    destruct F2 as [[Hp ->]|(f & r & app & newt & Hp & Hp2 & F1 & F2 & F3 & F4 & F5 & F6 & F7 & F8)].
    + rewrite Hp in Hn. cbn in Hn. lia.
    + rewrite Hp in Hn. cbn in Hn. assert (Hn2 : (n <= length r)%nat) by lia.
      destruct (IH s2 q s3 e3 W T2 ltac:(rewrite Hp2, app_length; lia) E2) as (I3 & T3 & (apps & newt2 & B1 & B2 & B3 & B4 & B5 & B6 & B7 & B8 & B9)).
      split; auto. split; auto. exists (app ++ apps), (newt ++ newt2). rewrite Hp. cbn [skipn firstn].
      rewrite Hp2, skipn_app in B1. replace (n - length r)%nat with 0%nat in B1 by lia. cbn [skipn] in B1.
      split; [rewrite B1, <- app_assoc; reflexivity|].
      split; [intros Hi; apply in_app_or in Hi; tauto|].
      split; [unfold nstart in *; rewrite filter_app, app_length; lia|].
      split.
      * rewrite count_rc_app. intros Z. destruct (count_rc app) eqn:Ca.
        -- destruct (B4 ltac:(lia)) as [Hi Hr]. split.
           ++ right. rewrite Hp2, firstn_app in Hi. replace (n - length r)%nat with 0%nat in Hi by lia. cbn in Hi. rewrite app_nil_r in Hi. exact Hi.
           ++ pose proof (nretry_app _ _ _ F4). lia.
        -- destruct (F3 ltac:(congruence)) as [-> Hr]. split; auto. left. reflexivity.
      * split; [rewrite B5, F4, <- app_assoc; reflexivity|].
        split; [|split; [congruence|split; [congruence|auto]]].
        intros t Hi. apply in_app_or in Hi. destruct Hi as [Hi|Hi]; auto. rewrite F6 in B6. auto.
Qed.

Lemma batch_Tinv s q s1 : Inv s -> Tinv s q -> Tinv s1 q -> batchfacts (length (pending s)) s s1 ->
  (pending s <> [] -> now s - q <= Bq) -> Tinv s1 (now s).
Proof.
  intros I T [Td Ts Tr Te Ta Tb] (apps & newt & B1 & B2 & B3 & B4 & B5 & B6 & B7 & B8 & Hkd) Hlive.
  rewrite skipn_all, firstn_all in *. cbn [app] in B1.
  assert (Hold : forall d k, In (d, k) (timers s1) -> In (d, k) (timers s) \/ (k = TRetry /\ now s + 500 <= d)).
  { intros d k Hi. rewrite B5 in Hi. apply in_app_or in Hi. destruct Hi as [Hi|Hi]; auto. right. destruct (B6 _ Hi). auto. }
  split; auto; try lia.
  - rewrite B1. intros Z d Hi. destruct (B4 Z) as [_ Hr]. destruct (Hold _ _ Hi) as [Ho|[_ Ho]]; auto. exfalso. eapply nretry_0_no; eauto.
  - rewrite B1. intros A D [H|H]; tauto.
  - rewrite B1. intros A D Z d Hi. destruct (B4 Z) as [Hs _]. destruct (Hold _ _ Hi) as [Ho|[E _]]; [|discriminate].
    destruct T as [_ _ _ _ Ta0 _]. pose proof (Ta0 ltac:(congruence) (Hkd D) (or_introl Hs) _ Ho).
    assert (pending s <> []) by (intros E; rewrite E in Hs; destruct Hs). specialize (Hlive H0). lia.
Qed.

(* ------------------------------------------------------------------ timers *)
Lemma fire_all_teff l : forall s, teffM s (fire_all l s).
Proof.
  induction l as [|t r IH]; intros s; cbn [fire_all]; [apply teff_refl|].
  apply teffM_bind; [|intros; apply IH]. unfold fire. destruct (snd t); [apply startInLoop_teff|apply teff_refl].
Qed.

(* ------------------------------------------------------------------ one op *)
Lemma lcontract_contract s q o : Inv s -> Tinv s q -> lcontract q s o = true -> step_core s o <> None -> contract s o = true.
Proof.
  intros I T L Hs. destruct o; cbn in *; auto.
  destruct (min_due (timers s)) eqn:E; [|exfalso; apply Hs; reflexivity]. apply (live_timely s q); auto; rewrite E; discriminate.
Qed.

Lemma Tinv_alive s q s1 q1 : Tinv s q -> alive s1 = true -> now s1 = now s -> k_delay s1 = k_delay s -> timers s1 = timers s ->
  count_rc (pending s1) = count_rc (pending s) -> (q1 = q \/ (pending s = [] /\ q1 <= now s1)) -> Tinv s1 q1.
Proof.
  intros [Td Ts Tr Te Ta Tb] A N D Tm C Hq. split; try congruence.
  - destruct Hq as [->|[_ ?]]; lia.
  - rewrite C, Tm. destruct Hq as [->|[Hp _]]; auto. rewrite Hp. intros Z. exfalso. apply Z. reflexivity.
Qed.

Definition qnext (q : Z) (s s1 : st) (o : op) : Z :=
  match pending s with [] => now s1 | _ => if is_RunPending o then now s1 else q end.
Lemma qnext_ok q s s1 o : is_RunPending o = false -> now s <= now s1 -> qnext q s s1 o = q \/ (pending s = [] /\ qnext q s s1 o <= now s1).
Proof. intros H N. unfold qnext. rewrite H. destruct (pending s); [right; split; auto; lia|auto]. Qed.

Lemma some_inj {A} (a b : A) : Some a = Some b -> a = b.
Proof. congruence. Qed.

Lemma core_T s q o s1 ev1 : Inv s -> Tinv s q -> lcontract q s o = true ->
  step_core s o = Some (Some (s1, ev1)) -> Tinv s1 (qnext q s s1 o).
Proof.
  intros I T L H. pose proof I as (K & Kd & St & C & Cr & X).
  assert (TE : forall sf, tsame s sf -> forall m e, m = Some (s1, e) -> teffM sf m -> is_RunPending o = false -> Tinv s1 (qnext q s s1 o)).
  { intros sf TS m e -> TM R. cbn in TM. assert (teff s s1) by (eapply teff_trans; [apply tsame_teff; eauto|auto]).
    eapply teff_Tinv; eauto. apply qnext_ok; auto. destruct H0 as (N & _). lia. }
  assert (TS0 : tsame s s) by (unfold tsame; auto 10).
  destruct o; cbn [step_core] in H.
  - (* Connect *) destruct (negb (user_api_ok s)); [discriminate|]. apply some_inj in H. apply bind_some_inv' in H. destruct H as (rest & H & _).
    eapply (TE (set_k_connect (set_c_connect s true) true)); [unfold tsame; cbn; auto 10|exact H|apply startInLoop_teff|reflexivity].
  - destruct (negb (user_api_ok s)); [discriminate|]. apply some_inj in H.
    destruct (connection (set_c_connect s false)).
    + eapply (TE (set_c_connect s false)); [unfold tsame; cbn; auto 10|exact H|apply conn_shutdown_teff|reflexivity].
    + eapply (TE (set_c_connect s false)); [unfold tsame; cbn; auto 10|exact H|apply teff_refl|reflexivity].
  - (* Stop *) destruct (negb (user_api_ok s)) eqn:U; [discriminate|]. apply negb_false_true in U. destruct (api_ok _ U) as [Al _].
    injection H as <- _. apply (Tinv_alive s q); auto; try (apply qnext_ok; auto; cbn; lia); cbn; auto.
    rewrite count_rc_snoc. cbn. lia.
  - destruct (negb (user_api_ok s)); [discriminate|]. apply some_inj in H. eapply (TE (set_c_retry s true)); [unfold tsame; cbn; auto 10|exact H|apply teff_refl|reflexivity].
  - (* Destroy *)
    destruct (negb (user_api_ok s) || xc s || xs s || xd s) eqn:U; [discriminate|].
    apply orb_false_elim in U. destruct U as [U _]. apply orb_false_elim in U. destruct U as [U _]. apply orb_false_elim in U. destruct U as [U _].
    apply negb_false_true in U. destruct (api_ok _ U) as [Al _]. apply some_inj in H.
    assert (NoHack : forall d, ~ In (d, THack) (timers s)) by (intros d Hi; eapply all_retry_no_hack; eauto).
    destruct T as [Td Ts Tr Te Ta Tb].
    unfold destroy_rest in H. destruct (connection s) as [c|] eqn:Hcn.
    + cbn in L. unfold destroy_ok in L. rewrite Hcn in L. cbn in L. rewrite existsb_has_k in L.
      assert (Hk : has_k (pending s) = false) by (destruct (has_k (pending s)); auto; discriminate).
      destruct (has_k_false_parts _ Hk) as (P1 & P2 & P3).
      assert (Hs1 : now s1 = now s /\ k_delay s1 = k_delay s /\ timers s1 = timers s /\ exists app, pending s1 = pending s ++ app /\ has_k app = false).
      { destruct (refs s c =? 1)%nat; injection H as <- _; cbn.
        - unfold conn_forceClose. cbn. destruct (nth_error _ c) as [o|]; [destruct (c_live (cst o))|]; cbn; repeat split; auto;
            try (exists []; rewrite app_nil_r; auto; fail). exists [FForceClose c]. auto.
        - repeat split; auto. exists []. rewrite app_nil_r. auto. }
      destruct Hs1 as (N1 & D1 & T1 & (app & Pp & Hka)). destruct (has_k_false_parts _ Hka) as (A1 & A2 & A3).
      assert (Hk1 : has_k (pending s1) = false) by (rewrite Pp, has_k_app, Hk, Hka; reflexivity).
      destruct (has_k_false_parts _ Hk1) as (R1 & R2 & R3).
      assert (Q : qnext q s s1 Destroy = q \/ (pending s = [] /\ qnext q s s1 Destroy <= now s1)) by (apply qnext_ok; auto; lia).
      split; try lia; try congruence; try (destruct Q as [->|[_ ?]]; lia); try (intros _ _ [Z|Z]; tauto).
    + injection H as <- _.
      match goal with |- Tinv ?S _ => set (S1 := S); set (q1 := qnext q s S1 Destroy) end.
      assert (Q : q1 = q \/ (pending s = [] /\ q1 <= now s)).
      { destruct (qnext_ok q s S1 Destroy eq_refl) as [E|[E1 E2]]; [subst S1; cbn; lia|left; exact E|right; split; [exact E1|exact E2]]. }
      clearbody q1. subst S1. split; cbn.
      * exact Td.
      * destruct Q as [->|[_ Q]]; lia.
      * rewrite count_rc_snoc. cbn. rewrite Nat.add_0_r. intros Z d Hi. apply in_app_or in Hi. destruct Hi as [Hi|[Hi|[]]]; [|discriminate].
        destruct Q as [->|[Hp _]]; [auto|]. rewrite Hp in Z. exfalso. apply Z. reflexivity.
      * intros _ _ _. exists (now s + 1000). apply in_or_app. right. left. reflexivity.
      * intros _ _ _ d Hi. apply in_app_or in Hi. destruct Hi as [Hi|[Hi|[]]]; [destruct (NoHack _ Hi)|]. injection Hi as <-.
        destruct Q as [->|[_ Q]]; lia.
      * intros _ _ _ d Hi. apply in_app_or in Hi. destruct Hi as [Hi|[Hi|[]]]; [destruct (NoHack _ Hi)|]. injection Hi as <-.
        destruct Q as [->|[_ Q]]; unfold Bq; lia.
  - destruct (_ || _); [discriminate|]. apply some_inj in H. eapply (TE (set_xc (set_k_connect (set_c_connect s true) true) true)); [unfold tsame; cbn; auto 10|exact H|apply teff_refl|reflexivity].
  - (* XConnectEnq *) destruct (negb (user_api_ok s) || negb (xc s)) eqn:U; [discriminate|]. apply orb_false_elim in U. destruct U as [U _].
    apply negb_false_true in U. destruct (api_ok _ U) as [Al _]. injection H as <- _. apply (Tinv_alive s q); auto; try (apply qnext_ok; auto; cbn; lia); cbn; auto.
    rewrite count_rc_snoc. cbn. lia.
  - destruct (_ || _); [discriminate|]. apply some_inj in H. eapply (TE (set_xs (set_k_connect (set_c_connect s false) false) true)); [unfold tsame; cbn; auto 10|exact H|apply teff_refl|reflexivity].
  - (* XStopEnq *) destruct (negb (user_api_ok s) || negb (xs s)) eqn:U; [discriminate|]. apply orb_false_elim in U. destruct U as [U _].
    apply negb_false_true in U. destruct (api_ok _ U) as [Al _]. injection H as <- _. apply (Tinv_alive s q); auto; try (apply qnext_ok; auto; cbn; lia); cbn; auto.
    rewrite count_rc_snoc. cbn. lia.
  - destruct (_ || _); [discriminate|]. apply some_inj in H. eapply (TE (set_xd (set_c_connect s false) true)); [unfold tsame; cbn; auto 10|exact H|apply teff_refl|reflexivity].
  - destruct (_ || _); [discriminate|]. apply some_inj in H. destruct (connection (set_xd s false)).
    + eapply (TE (set_xd s false)); [unfold tsame; cbn; auto 10|exact H|apply conn_shutdown_teff|reflexivity].
    + eapply (TE (set_xd s false)); [unfold tsame; cbn; auto 10|exact H|apply teff_refl|reflexivity].
  - discriminate.
  - discriminate.
  - discriminate.
  - apply some_inj in H. eapply (TE (set_kq s (kq s ++ [e]))); [unfold tsame; cbn; auto 10|exact H|apply teff_refl|reflexivity].
  - (* EvWritable *)
    destruct (k_chan s) as [[i [|]]|] eqn:Hc; try discriminate. destruct (k_dead s); [discriminate|]. apply some_inj in H.
    destruct (connecting_facts _ _ K Hc) as (Hs & _).
    pose proof (handleWrite_reff s err selfc i Hc Hs) as R. rewrite H in R.
    eapply (reff_Tinv s s q s1 _ i false); eauto; try apply ksub_refl. apply qnext_ok; auto. destruct R as (N & _). lia.
  - (* EvError *)
    destruct (k_chan s) as [[i [|]]|] eqn:Hc; try discriminate. destruct (k_dead s); [discriminate|]. apply some_inj in H.
    destruct (connecting_facts _ _ K Hc) as (Hs & _).
    pose proof (handleError_reff s i Hc Hs) as R. rewrite H in R.
    eapply (reff_Tinv s s q s1 _ i false); eauto; try apply ksub_refl. apply qnext_ok; auto. destruct R as (N & _). lia.
  - (* TimerFire *)
    destruct (min_due (timers s)) as [t0|] eqn:Em; [|discriminate]. apply some_inj in H.
    set (now' := Z.max (now s) t0) in *.
    set (s0 := set_now (set_timers s (filter (fun t => now' <? fst t) (timers s))) now') in *.
    assert (Tm : timely s = true) by (apply (live_timely s q); auto; congruence).
    unfold timely in Tm. apply andb_prop in Tm. destruct Tm as [Tm1 _].
    assert (Hrc : count_rc (pending s) = 0%nat) by (apply existsb_count_rc; destruct (existsb is_FReset (pending s)); auto; discriminate).
    match type of H with fire_all ?l _ = _ => pose proof (fire_all_teff l s0) as F end. rewrite H in F. cbn in F.
    destruct T as [Td Ts Tr Te Ta Tb].
    assert (N1 : now s1 = now') by (destruct F as (N & _); rewrite N; reflexivity).
    assert (Cs : (pending s = [] /\ qnext q s s1 TimerFire = now') \/
                 (pending s <> [] /\ qnext q s s1 TimerFire = q /\ now' = now s /\ now s - q <= Bq)).
    { unfold qnext. cbn [is_RunPending]. rewrite N1. cbn in L. unfold live in L. destruct (pending s); [left; auto|right].
      rewrite Em in L. apply andb_prop in L. destruct L as [L1 L2]. apply Z.leb_le in L1. apply Z.leb_le in L2.
      split; [discriminate|]. split; auto. split; auto. unfold now'. lia. }
    assert (T0 : Tinv s0 (qnext q s s1 TimerFire)).
    { destruct Cs as [[Hp ->]|(Hp & -> & Nn & Lq)]; split; cbn.
      - exact Td.
      - lia.
      - rewrite Hp. intros Z. exfalso. apply Z. reflexivity.
      - rewrite Hp. intros _ _ Z. discriminate Z.
      - rewrite Hp. intros _ _ [[]|Z]. exfalso. apply Z. reflexivity.
      - rewrite Hp. intros _ _ Z. exfalso. apply Z. reflexivity.
      - exact Td.
      - lia.
      - rewrite Hrc. intros Z. exfalso. apply Z. reflexivity.
      - intros A D Hk. destruct (Te A D Hk) as (d & Hi). exists d. apply filter_In. split; auto. cbn.
        apply Z.ltb_lt. destruct (has_k_cases _ Hk) as [P|[P|P]]; [| |congruence].
        + pose proof (Ta A D (or_introl P) _ Hi). unfold Bq in *. lia.
        + pose proof (Ta A D (or_intror P) _ Hi). unfold Bq in *. lia.
      - intros A D P d Hi. apply filter_In in Hi. destruct Hi as [Hi _]. apply (Ta A D P _ Hi).
      - intros A D P d Hi. apply filter_In in Hi. destruct Hi as [Hi _]. apply (Tb A D P _ Hi). }
    eapply teff_Tinv; eauto.
  - (* RunPending *)
    apply some_inj in H. unfold bind in H. destruct (run_n (length (pending s)) s) as [[s2 e2]|] eqn:E; [|discriminate]. cbn in H. injection H as <- _.
    destruct (run_n_T _ _ _ _ _ I T (Nat.le_refl _) E) as (I2 & T2 & BF).
    assert (N2 : now s2 = now s) by (destruct BF as (apps & newt & _ & _ & _ & _ & _ & _ & B7 & _); exact B7).
    assert (Hlive : pending s <> [] -> now s - q <= Bq).
    { intros Hne. cbn in L. unfold live in L. destruct (pending s); [congruence|]. apply Z.leb_le in L. exact L. }
    pose proof (batch_Tinv s q s2 I T T2 BF Hlive) as T3.
    assert (Q : qnext q s (set_conns s2 (map (c_set_fresh false) (conns s2))) RunPending = now s) by (unfold qnext; cbn; rewrite N2; destruct (pending s); reflexivity).
    rewrite Q. eapply teff_Tinv; [exact T3| |left; reflexivity]. ts.
  - (* RunOne *)
    destruct (pending s) eqn:Hp; [discriminate|]. apply some_inj in H. destruct (run_one_T _ _ _ _ I T H) as [T1 _].
    unfold qnext. rewrite Hp. exact T1.
  - (* Down *)
    destruct (find_down _ _ _); [|discriminate]. apply some_inj in H. eapply (TE s); [exact TS0|exact H|apply handleClose_teff|reflexivity].
  - destruct (negb (user_api_ok s)); [discriminate|]. destruct (connection s); [|discriminate]. destruct (find_user _ _); [discriminate|].
    apply some_inj in H. eapply (TE (setc s n (c_set_user 1%nat))); [unfold tsame; cbn; auto 10|exact H|apply teff_refl|reflexivity].
  - destruct (find_user _ _) as [c|]; [|discriminate]. destruct (nth_error _ _); [|discriminate].
    apply some_inj in H. eapply (TE (setc s c (c_set_user 0%nat))); [unfold tsame; cbn; auto 10|exact H|apply teff_refl|reflexivity].
  - (* LoopEnd: nothing is queued, no timer is left *)
    destruct (_ || _ || _); [discriminate|]. apply some_inj in H. unfold loop_end in H. cbn [k_chan set_timers set_pending] in H.
    destruct (k_chan s); [discriminate|]. injection H as <- _.
    match goal with |- Tinv ?S _ => set (S1 := S); set (q1 := qnext q s S1 LoopEnd) end.
    assert (Q : q1 = q \/ (pending s = [] /\ q1 <= now s)).
    { destruct (qnext_ok q s S1 LoopEnd eq_refl) as [E|[E1 E2]]; [subst S1; cbn; lia|left; exact E|right; split; [exact E1|exact E2]]. }
    clearbody q1. subst S1. destruct T as [Td Ts Tr Te Ta Tb]. split; cbn.
    + exact Td.
    + destruct Q as [->|[_ Q]]; lia.
    + intros Z. exfalso. apply Z. reflexivity.
    + intros _ _ Z. discriminate Z.
    + intros _ _ [[]|Z]. exfalso. apply Z. reflexivity.
    + intros _ _ Z. exfalso. apply Z. reflexivity.
Qed.

(* ------------------------------------------------------------------ along a history *)
Lemma Tinv_step s q o s' ev : Inv s -> Tinv s q -> lcontract q s o = true -> step s o = Ok s' ev -> Tinv s' (since_next q s s' o).
Proof.
  intros I T L. unfold step. destruct (step_core s o) as [m|] eqn:Hc; [|discriminate].
  destruct (finish m) as [[s2 e2]|] eqn:F; [|discriminate]. intros [= <- _].
  destruct (finish_t _ _ _ F) as (s1 & e1 & -> & TS).
  pose proof (core_T _ _ _ _ _ I T L Hc) as T1.
  assert (E : since_next q s (set_now s2 (now s2 + 1)) o = qnext q s s1 o).
  { unfold since_next, qnext. cbn. destruct TS as (N & _). rewrite N. replace (now s1 + 1 - 1) with (now s1) by lia. reflexivity. }
  rewrite E. assert (T2 : Tinv s2 (qnext q s s1 o)) by (eapply Tinv_tsame'; eauto).
  eapply (Tinv_transfer s2 _ _ _ []); [exact T2| | | | | | | |left; reflexivity]; cbn; auto; try lia;
    try apply T2; try (rewrite app_nil_r; auto); try (intros t []); try apply ksub_refl.
Qed.

Lemma Tinv_init : Tinv init 0.
Proof.
  split; cbn; try lia; try discriminate; try (rewrite G_init_delay; lia); try (intros Z; exfalso; apply Z; reflexivity);
    try (intros _ _ [[]|Z]; exfalso; apply Z; reflexivity).
Qed.

(* a history that is admissible for the live loop is admissible in the sense of the theorems: `timely` is derived *)
Lemma ladmissible_admissible l : forall s q, Inv s -> Tinv s q -> ladmissible q s l -> admissible s l.
Proof.
  induction l as [|o r IH]; intros s q I T A; cbn; auto. unfold admissible. cbn [ladmissible admissible_with] in *.
  destruct (step s o) as [s1 e1| |] eqn:E.
  - destruct A as [L A]. assert (Hc : contract s o = true).
    { apply (lcontract_contract s q); auto. unfold step in E. destruct (step_core s o); congruence. }
    split; auto. pose proof (step_I s o I Hc) as W. rewrite E in W.
    apply (IH s1 (since_next q s s1 o)); auto. eapply Tinv_step; eauto.
  - apply (IH s q); auto.
  - apply (lcontract_contract s q); auto. unfold step in E. destruct (step_core s o); congruence.
Qed.

Theorem no_fault_live_loop : forall l, ladmissible 0 init l -> run init l <> None.
Proof. intros l A. apply no_fault. eapply ladmissible_admissible; eauto using Inv_init, Tinv_init. Qed.

(* states reached by histories of the live loop, with the time since which everything queued was queued *)
Definition lreachable (s : st) (q : Z) : Prop := Inv s /\ Tinv s q.
Theorem timely_derived : forall s q, lreachable s q -> min_due (timers s) <> None -> live q s true = true -> timely s = true.
Proof. intros s q [I T]. apply live_timely; auto. Qed.

(* ------------------------------------------------------------------ non-vacuity *)
Fixpoint ladmissible_b (since : Z) (s : st) (l : list op) : bool :=
  match l with
  | [] => true
  | o :: r =>
      match step s o with
      | Rejected => ladmissible_b since s r
      | Fault => lcontract since s o
      | Ok s' _ => lcontract since s o && ladmissible_b (since_next since s s' o) s' r
      end
  end.
Lemma ladmissible_b_ok l : forall q s, ladmissible_b q s l = true -> ladmissible q s l.
Proof.
  induction l as [|o r IH]; intros q s; cbn [ladmissible_b ladmissible]; auto.
  destruct (step s o) as [s' ev| |]; auto. intros H. apply andb_prop in H. destruct H. split; auto.
Qed.
Lemma live_loop_examples : ladmissible 0 init ex_backoff /\ ladmissible 0 init ex_retry_cycle /\ ladmissible 0 init ex_foreign.
Proof. split; [|split]; apply ladmissible_b_ok; vm_compute; reflexivity. Qed.
Lemma ladmissible_b_complete l : forall q s, ladmissible q s l -> ladmissible_b q s l = true.
Proof.
  induction l as [|o r IH]; intros q s; cbn [ladmissible_b ladmissible]; auto.
  destruct (step s o) as [s' ev| |]; auto. intros [H1 H2]. rewrite H1. cbn. auto.
Qed.
(* ... and the stalled loop is what it excludes *)
Lemma stalled_not_live : ~ ladmissible 0 init [Destroy; TimerFire; RunPending] /\ ~ ladmissible 0 init [Connect; EvError; TimerFire].
Proof. split; intros H; apply ladmissible_b_complete in H; vm_compute in H; discriminate H. Qed.
