(* C20_Cex: counterexample search INSIDE Coq for the calendar sweeps.  No proofs, no dependency
   on any proof: when a change to Date.cc / Date.h makes a sweep lemma of C20_SweepA*/B* fail,
   this file still compiles (against the regenerated Gen_C20) and bin/check evaluates
   [cex_jdn] / [cex_ymd] with vm_compute to obtain the first failing day, which it then
   replays on the C++.  On the unchanged tree both evaluate to [None]. *)
From Coq Require Import List ZArith Bool Arith.
From Muduo Require Import Gen_C20 C20_Calendar C20_SweepDefs.
Import ListNotations.
Local Open Scope Z_scope.

Fixpoint find_first (f : Z -> bool) (l : list Z) : option Z :=
  match l with
  | [] => None
  | x :: r => if f x then find_first f r else Some x
  end.

(* sweep A (C20_SweepA1/A2): first Julian day number j in range with
   getYearMonthDay j invalid, or getJulianDayNumber (getYearMonthDay j) <> j, or an int overflow;
   reported with what the generated functions compute there *)
Definition report_jdn (j : Z) : Z * (Z * Z * Z) * Z :=
  let ymd := getYearMonthDay j in
  (j, ymd, getJulianDayNumber (fst (fst ymd)) (snd (fst ymd)) (snd ymd)).

(* (the lists are parameters: a [match] on a closed scrutinee would be evaluated by Coq when the
   definition is elaborated) *)
Definition cex_jdn_in (blocks : list Z) : option (Z * (Z * Z * Z) * Z) :=
  match find_first chk_block blocks with
  | None => None
  | Some q =>
    match find_first (fun r => chk_jdn (jdn_first + 1000 * q + r)) (zs 0 1000) with
    | None => None
    | Some r => Some (report_jdn (jdn_first + 1000 * q + r))
    end
  end.
Definition cex_jdn := cex_jdn_in (zs 0 220).

(* sweep B (C20_SweepB1/B2): first valid date (y, m, d) whose day number is not
   jdn_first + (days since 1900-01-01 by the leap rule), or does not map back, or whose weekDay
   is wrong; reported as (y, m, d), expected day number, computed day number, what the computed
   number maps back to, weekDay of it, expected weekday *)
Definition report_ymd (y m d cnt : Z) : (Z * Z * Z) * Z * Z * (Z * Z * Z) * Z * Z :=
  let j := getJulianDayNumber y m d in
  ((y, m, d), jdn_first + cnt, j, getYearMonthDay j, weekDay j, (4 + (cnt - c1970)) mod 7).

Definition chk_day (y m mb d : Z) : bool :=
  if d <=? days_in_month y m then chk_ymd c1970 y m d (mb + (d - 1)) else true.

Definition chk_month (y base m : Z) : bool :=
  forallb (chk_day y m (base + days_before_month y m)) (zs 1 31).

Definition cex_ymd_in (years : list Z) : option ((Z * Z * Z) * Z * Z * (Z * Z * Z) * Z * Z) :=
  match find_first (chk_year c1970) years with
  | None => None
  | Some y =>
    match find_first (chk_month y (days_before_year y)) (zs 1 12) with
    | None => None
    | Some m =>
      match find_first (chk_day y m (days_before_year y + days_before_month y m)) (zs 1 31) with
      | None => None
      | Some d => Some (report_ymd y m d (days_before_year y + days_before_month y m + (d - 1)))
      end
    end
  end.
Definition cex_ymd := cex_ymd_in (zs 1900 601).
