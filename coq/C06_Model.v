(* C06_Model: TimerModel, the executable model of muduo::net::TimerQueue shared by C06 and C07
   (DESIGN.md section 5, C06/C07).  Mirrors muduo/net/TimerQueue.cc branch by branch:
     timers    = timers_        std::set<pair<Timestamp,Timer*>>  sorted by (deadline, address)
     active    = activeTimers_  std::set<pair<Timer*,int64_t>>    sorted by (address, sequence)
     canceling = cancelingTimers_, calling = callingExpiredTimers_
     heap      = the live Timer objects (address -> sequence_, expiration_, interval); every
                 dereference the code performs goes through [deref], which yields [Fault] on a
                 dead address; every [assert] of the source yields [Fault] when violated
     armed     = absolute instant at which the timerfd becomes readable (None = disarmed or the
                 expiration has been read); arm_at = instant of the last successful settime
     next_seq  = Timer::s_numCreated_ (never reused); clk = the (virtual) gettimeofday clock
     pending   = EventLoop::pendingFunctors_ : the timer functors queued by foreign threads
                 (addTimerInLoop / cancelInLoop) and user functors that perform loop-thread ops
     inflight  = Timer objects a foreign thread has allocated in addTimer (new Timer, sequence read:
                 the id is known) but not yet handed to the loop (before its queueInLoop)
   Foreign-thread calls are sequences of micro-steps that interleave freely with the loop thread
   (DESIGN 3.2): addTimer = CFNew ; CFEnq (CFAdd = both with nothing in between), cancel = CFCancel;
   each micro-step is atomic in the code (the atomic counter / the mutex-guarded push_back).
   Time is integer microseconds.  No proofs in this file. *)
From Coq Require Import List ZArith Bool.
From Muduo Require Import Gen_Consts Gen_C06.
Import ListNotations.
Local Open Scope Z_scope.

(* ---------------------------------------------------------------- ordered sets of pairs *)
Definition key := (Z * Z)%type.
Definition klt (x y : key) : bool :=
  (fst x <? fst y) || ((fst x =? fst y) && (snd x <? snd y)).
Definition keq (x y : key) : bool := (fst x =? fst y) && (snd x =? snd y).

(* std::set::insert: None = already present (result.second == false) *)
Fixpoint kinsert (x : key) (l : list key) : option (list key) :=
  match l with
  | [] => Some [x]
  | y :: r =>
      if klt x y then Some (x :: l)
      else if keq x y then None
      else match kinsert x r with Some r' => Some (y :: r') | None => None end
  end.
(* std::set::erase(key): None = not found (returns 0) *)
Fixpoint kerase (x : key) (l : list key) : option (list key) :=
  match l with
  | [] => None
  | y :: r =>
      if keq x y then Some r
      else match kerase x r with Some r' => Some (y :: r') | None => None end
  end.
Definition kmem (x : key) (l : list key) : bool := existsb (keq x) l.
Definition kadd (x : key) (l : list key) : list key :=
  match kinsert x l with Some l' => l' | None => l end.
(* lower_bound(sentry): the maximal prefix of elements < sentry, and the rest *)
Fixpoint ksplit (s : key) (l : list key) : list key * list key :=
  match l with
  | [] => ([], [])
  | y :: r => if klt y s then let (a, b) := ksplit s r in (y :: a, b) else ([], l)
  end.

(* ---------------------------------------------------------------- the heap of Timer objects *)
Record tobj := mkT { o_seq : Z; o_exp : Z; o_iv : Z }.
(* The interval field encodes Timer::repeat_ and the delta Timer::restart adds:
     o_iv <  0 : repeat_ = false (runAt / runAfter, or an interval <= 0.0)
     o_iv >= 0 : repeat_ = true (interval > 0.0) and o_iv = the delta addTime(now, interval_) adds, i.e.
                 static_cast<int64_t>(interval_ * kMicroSecondsPerSecond) microseconds -- which is 0 for an
                 interval below one microsecond: such a repeater is re-inserted under the batch instant itself *)
Definition o_repeat (o : tobj) : bool := 0 <=? o_iv o.
Definition heap_t := list (Z * tobj).
Fixpoint hget (a : Z) (h : heap_t) : option tobj :=
  match h with [] => None | (b, o) :: r => if a =? b then Some o else hget a r end.
Fixpoint hdel (a : Z) (h : heap_t) : heap_t :=
  match h with [] => [] | (b, o) :: r => if a =? b then hdel a r else (b, o) :: hdel a r end.
Definition hput (a : Z) (o : tobj) (h : heap_t) : heap_t := (a, o) :: hdel a h.

(* ---------------------------------------------------------------- state, ops, events *)
(* what a timer callback / a user functor (or the loop thread between two loop events) may do, and the
   micro-steps of foreign threads that may land in between *)
Inductive cbop :=
| CTick (d : Z)                     (* virtual time passes *)
| CAdd (when iv addr : Z)           (* runAt/runAfter/runEvery on the loop thread; addr = the allocator's choice *)
| CCancel (addr seq : Z)            (* cancel(TimerId(addr, seq)) on the loop thread *)
| CFAdd (when iv addr : Z)          (* a foreign thread's add, no other step in between: CFNew ; CFEnq *)
| CFCancel (addr seq : Z)           (* a foreign thread's cancel: queueInLoop(cancelInLoop(id)) *)
| CFNew (when iv addr : Z)          (* foreign addTimer, 1st micro-step: new Timer + timer->sequence(): the id is known *)
| CFEnq (addr : Z)                  (* foreign addTimer, 2nd micro-step: queueInLoop(addTimerInLoop(timer)) *)
| CQueue (cs : list cbop).          (* queueInLoop of a user functor that performs cs on the loop thread *)
Inductive pfun := PAdd (addr : Z) | PCancel (addr seq : Z) | PUser (cs : list cbop).

Record state := mkS {
  heap : heap_t; timers : list key; active : list key; canceling : list key;
  calling : bool; armed : option Z; arm_at : Z; next_seq : Z; clk : Z; pending : list pfun;
  inflight : list Z }.

Definition init (clk0 : Z) : state := mkS [] [] [] [] false None 0 0 clk0 [] [].

Definition set_heap st h := mkS h (timers st) (active st) (canceling st) (calling st) (armed st) (arm_at st) (next_seq st) (clk st) (pending st) (inflight st).
Definition set_sets st t a := mkS (heap st) t a (canceling st) (calling st) (armed st) (arm_at st) (next_seq st) (clk st) (pending st) (inflight st).
Definition set_canceling st c := mkS (heap st) (timers st) (active st) c (calling st) (armed st) (arm_at st) (next_seq st) (clk st) (pending st) (inflight st).
Definition set_calling st b := mkS (heap st) (timers st) (active st) (canceling st) b (armed st) (arm_at st) (next_seq st) (clk st) (pending st) (inflight st).
Definition set_arm st a t := mkS (heap st) (timers st) (active st) (canceling st) (calling st) a t (next_seq st) (clk st) (pending st) (inflight st).
Definition set_seq st n := mkS (heap st) (timers st) (active st) (canceling st) (calling st) (armed st) (arm_at st) n (clk st) (pending st) (inflight st).
Definition set_clk st c := mkS (heap st) (timers st) (active st) (canceling st) (calling st) (armed st) (arm_at st) (next_seq st) c (pending st) (inflight st).
Definition set_pending st p := mkS (heap st) (timers st) (active st) (canceling st) (calling st) (armed st) (arm_at st) (next_seq st) (clk st) p (inflight st).
Definition set_inflight st l := mkS (heap st) (timers st) (active st) (canceling st) (calling st) (armed st) (arm_at st) (next_seq st) (clk st) (pending st) l.

Inductive op :=
| Cb (c : cbop)
| Fire (script : list (list cbop))  (* TimerQueue::handleRead at the current clock; script = per expired timer, in batch order, what its callback does *)
| RunPending.                       (* EventLoop::doPendingFunctors *)

Inductive event :=
| ERun (seq dl now t : Z)     (* callback of timer seq, filed under deadline dl, batch sampled now, ran at clock t *)
| EArm (at_ rel : Z)          (* timerfd_settime(it_value = rel us) issued at clock at_ *)
| EAdd (seq addr when iv : Z) (* an add returned TimerId(addr, seq) *)
| ERejected.                  (* a callback op whose precondition fails (skipped) *)

Inductive result (A : Type) : Type := Ok (a : A) | Rejected | Fault.
Arguments Ok {A} a. Arguments Rejected {A}. Arguments Fault {A}.
Definition bind {A B} (r : result A) (f : A -> result B) : result B :=
  match r with Ok a => f a | Rejected => Rejected | Fault => Fault end.
Notation "' p <- r ;; k" := (bind r (fun x => match x with p => k end)) (at level 61, p pattern, r at next level, right associativity).
Notation "x <- r ;; k" := (bind r (fun x => k)) (at level 61, r at next level, right associativity).

Definition PTR_MAX : Z := 18446744073709551615.     (* UINTPTR_MAX *)
Definition K : Z := Timestamp_kMicroSecondsPerSecond.

(* checked dereference of a Timer* *)
Definition deref (st : state) (a : Z) : result tobj :=
  match hget a (heap st) with Some o => Ok o | None => Fault end.
Definition assert (b : bool) : result unit := if b then Ok tt else Fault.
Definition sizes_agree (st : state) : bool := Nat.eqb (length (timers st)) (length (active st)).

(* ---------------------------------------------------------------- timerfd *)
(* kernel: it_value = 0 disarms, a negative field is EINVAL (nothing changes), otherwise the
   timer is (re)armed relative to now and any pending expiration is cleared *)
Definition settime (st : state) (rel : Z) : state :=
  if rel =? 0 then set_arm st None (arm_at st)
  else if rel <? 0 then st
  else set_arm st (Some (clk st + rel)) (clk st).
(* detail::howMuchTimeFromNow, result in us: tv_sec * K + tv_nsec / 1000 *)
Definition how_much (st : state) (when : Z) : Z :=
  let us := when - clk st in
  let us := if us <? TimerQueue_floor_cmp then TimerQueue_floor_val else us in
  Z.quot us K * K + Z.quot (Z.rem us K * 1000) 1000.
Definition reset_timerfd (st : state) (when : Z) : state * list event :=
  let rel := how_much st when in (settime st rel, [EArm (clk st) rel]).
(* readTimerfd: reading consumes the expiration if the timerfd has expired *)
Definition consume (st : state) : state :=
  match armed st with
  | Some a => if a <=? clk st then set_arm st None (arm_at st) else st
  | None => st
  end.

(* ---------------------------------------------------------------- TimerQueue members *)
(* TimerQueue::insert *)
Definition insert (st : state) (addr : Z) : result (state * bool) :=
  _ <- assert (sizes_agree st) ;;
  o <- deref st addr ;;                                  (* timer->expiration(), ->sequence() *)
  let when := o_exp o in
  let earliest := match timers st with [] => true | (d, _) :: _ => when <? d end in
  match kinsert (when, addr) (timers st), kinsert (addr, o_seq o) (active st) with
  | Some t', Some a' => Ok (set_sets st t' a', earliest)
  | _, _ => Fault                                        (* assert(result.second) *)
  end.

(* TimerQueue::addTimerInLoop *)
Definition add_in_loop (st : state) (addr : Z) : result (state * list event) :=
  '(st1, earliest) <- insert st addr ;;
  if earliest then
    o <- deref st1 addr ;;
    Ok (reset_timerfd st1 (o_exp o))
  else Ok (st1, []).

(* TimerQueue::cancelInLoop *)
Definition cancel_in_loop (st : state) (a s : Z) : result state :=
  _ <- assert (sizes_agree st) ;;
  if kmem (a, s) (active st) then
    o <- deref st a ;;                                   (* it->first->expiration() *)
    match kerase (o_exp o, a) (timers st), kerase (a, s) (active st) with
    | Some t', Some a' => Ok (set_heap (set_sets st t' a') (hdel a (heap st)))   (* delete it->first *)
    | _, _ => Fault                                      (* assert(n == 1) *)
    end
  else if calling st then Ok (set_canceling st (kadd (a, s) (canceling st)))
  else Ok st.

(* new Timer(cb, when, interval): the allocator (environment) may return any address that is
   not live -- reuse of freed addresses allowed; sequence_ = s_numCreated_.incrementAndGet() *)
Definition alloc (st : state) (when iv addr : Z) : result (state * Z) :=
  if (0 <? addr) && (addr <? PTR_MAX) && (0 <? when)
     && match hget addr (heap st) with None => true | Some _ => false end
  then let s := next_seq st + 1 in
       Ok (set_seq (set_heap st ((addr, mkT s when iv) :: heap st)) s, s)
  else Rejected.

Fixpoint zmem (a : Z) (l : list Z) : bool := match l with [] => false | b :: r => (a =? b) || zmem a r end.
Fixpoint zremove (a : Z) (l : list Z) : list Z :=
  match l with [] => [] | b :: r => if a =? b then r else b :: zremove a r end.

Definition cb_step (st : state) (c : cbop) : result (state * list event) :=
  match c with
  | CTick d => if d <? 0 then Rejected else Ok (set_clk st (clk st + d), [])
  | CAdd when iv addr =>
      '(st1, s) <- alloc st when iv addr ;;
      '(st2, ev) <- add_in_loop st1 addr ;;               (* runInLoop: executed at once on the loop thread *)
      Ok (st2, ev ++ [EAdd s addr when iv])
  | CCancel a s =>
      st1 <- cancel_in_loop st a s ;; Ok (st1, [])
  | CFAdd when iv addr =>
      '(st1, s) <- alloc st when iv addr ;;
      Ok (set_pending st1 (pending st1 ++ [PAdd addr]), [EAdd s addr when iv])
  | CFCancel a s => Ok (set_pending st (pending st ++ [PCancel a s]), [])
  | CFNew when iv addr =>
      '(st1, s) <- alloc st when iv addr ;;
      Ok (set_inflight st1 (inflight st1 ++ [addr]), [EAdd s addr when iv])
  | CFEnq addr =>
      if zmem addr (inflight st)
      then Ok (set_pending (set_inflight st (zremove addr (inflight st))) (pending st ++ [PAdd addr]), [])
      else Rejected
  | CQueue cs => Ok (set_pending st (pending st ++ [PUser cs]), [])
  end.

(* the body of one callback: a rejected op is skipped *)
Fixpoint cb_run (st : state) (cs : list cbop) : result (state * list event) :=
  match cs with
  | [] => Ok (st, [])
  | c :: r =>
      match cb_step st c with
      | Ok (st1, e1) => '(st2, e2) <- cb_run st1 r ;; Ok (st2, e1 ++ e2)
      | Rejected => '(st2, e2) <- cb_run st r ;; Ok (st2, ERejected :: e2)
      | Fault => Fault
      end
  end.

(* getExpired: erase the expired entries from activeTimers_ *)
Fixpoint unactivate (st : state) (ex : list key) (act : list key) : result (list key) :=
  match ex with
  | [] => Ok act
  | (d, a) :: r =>
      o <- deref st a ;;                                  (* it.second->sequence() *)
      match kerase (a, o_seq o) act with
      | Some act' => unactivate st r act'
      | None => Fault                                     (* assert(n == 1) *)
      end
  end.

(* handleRead: for (it : expired) it.second->run() *)
Fixpoint run_cbs (st : state) (ex : list key) (script : list (list cbop)) (now : Z)
  : result (state * list event) :=
  match ex with
  | [] => Ok (st, [])
  | (d, a) :: r =>
      o <- deref st a ;;                                  (* it.second->run() *)
      '(st1, e1) <- cb_run st (hd [] script) ;;
      '(st2, e2) <- run_cbs st1 r (tl script) now ;;
      Ok (st2, ERun (o_seq o) d now (clk st) :: e1 ++ e2)
  end.

(* TimerQueue::reset, the loop over expired *)
Fixpoint reset_loop (st : state) (ex : list key) (now : Z) : result state :=
  match ex with
  | [] => Ok st
  | (d, a) :: r =>
      o <- deref st a ;;                                  (* ->sequence(), ->repeat() *)
      if o_repeat o && negb (kmem (a, o_seq o) (canceling st)) then
        let st1 := set_heap st (hput a (mkT (o_seq o) (now + o_iv o) (o_iv o)) (heap st)) in   (* restart(now) *)
        '(st2, _) <- insert st1 a ;;
        reset_loop st2 r now
      else reset_loop (set_heap st (hdel a (heap st))) r now   (* delete it.second *)
  end.

(* TimerQueue::handleRead *)
Definition fire (st0 : state) (script : list (list cbop)) : result (state * list event) :=
  let now := clk st0 in
  let st := consume st0 in                                (* readTimerfd *)
  _ <- assert (sizes_agree st) ;;
  let sentry := (now, PTR_MAX) in                         (* Entry sentry(now, UINTPTR_MAX) *)
  let (ex, rest) := ksplit sentry (timers st) in
  _ <- assert (match rest with [] => true | (d, _) :: _ => now <? d end) ;;
  act <- unactivate st ex (active st) ;;
  let st := set_sets st rest act in
  _ <- assert (sizes_agree st) ;;
  let st := set_canceling (set_calling st true) [] in
  '(st, evs) <- run_cbs st ex script now ;;
  let st := set_calling st false in
  st <- reset_loop st ex now ;;
  match timers st with
  | [] => Ok (st, evs)
  | (_, a) :: _ =>
      o <- deref st a ;;                                  (* timers_.begin()->second->expiration() *)
      if 0 <? o_exp o                                     (* nextExpire.valid() *)
      then let (st', e) := reset_timerfd st (o_exp o) in Ok (st', evs ++ e)
      else Ok (st, evs)
  end.

(* EventLoop::doPendingFunctors: the timer functors and user functors (whose ops, and the foreign
   micro-steps landing between two functors, are given by their script) *)
Fixpoint run_functors (st : state) (fs : list pfun) : result (state * list event) :=
  match fs with
  | [] => Ok (st, [])
  | PAdd a :: r =>
      '(st1, e1) <- add_in_loop st a ;; '(st2, e2) <- run_functors st1 r ;; Ok (st2, e1 ++ e2)
  | PCancel a s :: r =>
      st1 <- cancel_in_loop st a s ;; run_functors st1 r
  | PUser cs :: r =>
      '(st1, e1) <- cb_run st cs ;; '(st2, e2) <- run_functors st1 r ;; Ok (st2, e1 ++ e2)
  end.

Definition step (st : state) (o : op) : result (state * list event) :=
  match o with
  | Cb c => cb_step st c
  | Fire script => fire st script
  | RunPending => run_functors (set_pending st []) (pending st)
  end.

Fixpoint run (st : state) (ops : list op) : result (state * list event) :=
  match ops with
  | [] => Ok (st, [])
  | o :: r => '(st1, e1) <- step st o ;; '(st2, e2) <- run st1 r ;; Ok (st2, e1 ++ e2)
  end.

(* TimerQueue::~TimerQueue: delete every timer still in timers_ (double delete or a dead
   address = Fault); returns the number of objects freed *)
Fixpoint destroy_loop (h : heap_t) (ts : list key) : result nat :=
  match ts with
  | [] => Ok O
  | (_, a) :: r =>
      match hget a h with
      | Some _ => n <- destroy_loop (hdel a h) r ;; Ok (S n)
      | None => Fault
      end
  end.
Definition destroy (st : state) : result nat := destroy_loop (heap st) (timers st).
