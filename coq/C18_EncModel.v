(* C18_EncModel: the encoder side of ProtobufCodecLite and the decoder loop run over the
   C10 Buffer model (coq/C10_Model.v) instead of over a plain byte list:
     fillEmptyBuffer / serializeToBuffer (ProtobufCodecLite.cc:42-56, 104-142),
     onMessage (58-97) with every access through Buffer's own members
     (readableBytes, peekInt32, peek()+offset reads, retrieve),
     the error path: defaultErrorCallback (176-186) shuts the connection down -- a step of a
     small connection record, not a convention of the driver -- while TcpConnection keeps
     delivering what still arrives (the codec itself keeps no "abandoned" flag).
   No proofs in this file. *)
From Coq Require Import List ZArith Lia Bool Arith NArith.
From Coq.Strings Require Import Byte.
From Muduo Require Import Base_Bytes Gen_Consts C10_Model C18_Model.
Import ListNotations.

Definition hdr_len : nat := Z.to_nat kHeaderLen.
Definition cks_len : nat := Z.to_nat kChecksumLen.

Section Enc.
  Variable msg : Type.
  Variable parse : list byte -> option msg.   (* parseFromBuffer *)
  Variable ser : msg -> list byte.            (* ByteSize + SerializeWithCachedSizesToArray *)
  Variable tag : list byte.

  (* serializeToBuffer: byte_size = message.ByteSize(); buf->ensureWritableBytes(byte_size +
     kChecksumLen); the serializer writes byte_size bytes at beginWrite(); hasWritten(byte_size) *)
  Definition serializeToBuffer (m : msg) (b : buf) : res (buf * nat) :=
    let p := ser m in
    let byte_size := length p in
    b1 <- ensureWritable (byte_size + cks_len) b ;;
    b2 <- hasWrittenBytes p b1 ;;
    Ok (b2, byte_size).

  (* fillEmptyBuffer(buf, message) *)
  Definition fillEmptyBuffer (m : msg) (b : buf) : res buf :=
    if readableBytes b =? 0 then                             (* assert(buf->readableBytes() == 0) *)
      b1 <- append tag b ;;                                   (* buf->append(tag_) *)
      r <- serializeToBuffer m b1 ;;
      let b2 := fst r in
      let byte_size := snd r in
      d <- toStringPiece b2 ;;                                (* checksum(buf->peek(), readableBytes()) *)
      b3 <- appendInt W32 (checksum32 d) b2 ;;                (* buf->appendInt32(checkSum) *)
      if readableBytes b3 =? length tag + byte_size + cks_len then
        (* len = hostToNetwork32(static_cast<int32_t>(readableBytes())); prepend(&len, sizeof len) *)
        prepend (be_encode 4 (Z.of_nat (readableBytes b3))) b3
      else Fault
    else Rejected.

  (* ---- onMessage over the Buffer model --------------------------------------------- *)
  (* bytes [peek()+off, peek()+off+len): in bounds iff inside the readable region *)
  Definition peek_at (b : buf) (off len : Z) : option (list byte) :=
    if (0 <=? off)%Z && (0 <=? len)%Z && (off + len <=? Z.of_nat (readableBytes b))%Z
    then C10_Model.read_at (store b) (ridx b + Z.to_nat off) (Z.to_nat len) else None.

  Definition validateChecksum_buf (b : buf) (off len : Z) : option bool :=
    match peek_at b (off + len - kChecksumLen) 4, peek_at b off (len - kChecksumLen) with
    | Some tr, Some body => Some (checksum32 body =? be_decode_signed tr)%Z
    | _, _ => None
    end.

  Definition parse_frame_buf (b : buf) (off len : Z) : pres msg :=
    match validateChecksum_buf b off len with
    | None => PFault msg
    | Some false => PErr msg kCheckSumError
    | Some true =>
        match peek_at b off (Z.of_nat (length tag)) with
        | None => PFault msg
        | Some t =>
            if bytes_eqb t tag then
              match peek_at b (off + Z.of_nat (length tag))
                              (len - kChecksumLen - Z.of_nat (length tag)) with
              | None => PFault msg
              | Some p => match parse p with Some m => POk msg m | None => PErr msg kParseError end
              end
            else PErr msg kUnknownMessageType
        end
    end.

  Inductive bstep : Type :=
  | BWait                                   (* break: not enough bytes *)
  | BEmit (m : msg) (b' : buf)              (* messageCallback_, retrieve(kHeaderLen+len), continue *)
  | BStop (e : cevent msg).                 (* errorCallback_ (or a fault), break *)

  Definition cstep_buf (b : buf) : bstep :=
    if (Z.of_nat (readableBytes b) >=? kMinMessageLen tag + kHeaderLen)%Z then
      match peekInt W32 b with                                       (* buf->peekInt32() *)
      | Ok len =>
          if length_bad tag len then BStop (CErr kInvalidLength)
          else if (Z.of_nat (readableBytes b) >=? kHeaderLen + len)%Z then
            match parse_frame_buf b kHeaderLen len with
            | PFault _ => BStop CFault
            | PErr _ e => BStop (CErr e)
            | POk _ m =>
                match retrieveUntil (kHeaderLen + len)%Z b with      (* buf->retrieve(kHeaderLen+len) *)
                | Ok b' => BEmit m b'
                | _ => BStop CFault
                end
            end
          else BWait
      | _ => BStop CFault
      end
    else BWait.

  (* the while loop; fuel = readableBytes + 1 *)
  Fixpoint onMessage_buf (fuel : nat) (b : buf) : list (cevent msg) * buf * bool (* out of fuel *) :=
    match fuel with
    | O => ([], b, true)
    | S f =>
        match cstep_buf b with
        | BWait => ([], b, false)
        | BEmit m b' => let '(evs, b2, oof) := onMessage_buf f b' in (CMsg m :: evs, b2, oof)
        | BStop e => ([e], b, false)
        end
    end.

  (* ---- the connection as far as the codec is concerned --------------------------------
     TcpConnection::handleRead appends what arrived to inputBuffer_ and calls the message
     callback (= onMessage) as long as the connection object lives, also after shutdown():
     shutdown() closes the write side only.  defaultErrorCallback: if (conn && connected())
     conn->shutdown(). *)
  Record conn : Type := mkConn {
    c_in : buf;              (* inputBuffer_ *)
    c_connected : bool;      (* state_ == kConnected *)
    c_shutdowns : nat        (* how often shutdown() took effect (kConnected -> kDisconnecting) *)
  }.

  Definition default_error_callback (c : conn) : conn :=
    if c_connected c then mkConn (c_in c) false (S (c_shutdowns c)) else c.

  Definition is_err (e : cevent msg) : bool := match e with CErr _ => true | _ => false end.

  (* one delivery from the socket: append, onMessage, the error callback for every error event *)
  Definition deliver (c : conn) (chunk : list byte) : res (list (cevent msg) * conn) :=
    b1 <- append chunk (c_in c) ;;
    let '(evs, b2, oof) := onMessage_buf (S (readableBytes b1)) b1 in
    if oof then Fault else
    let c1 := mkConn b2 (c_connected c) (c_shutdowns c) in
    Ok (evs, if existsb is_err evs then default_error_callback c1 else c1).

  Fixpoint deliver_all (c : conn) (chunks : list (list byte)) : res (list (list (cevent msg)) * conn) :=
    match chunks with
    | [] => Ok ([], c)
    | ch :: rest =>
        r <- deliver c ch ;;
        r2 <- deliver_all (snd r) rest ;;
        Ok (fst r :: fst r2, snd r2)
    end.

  Definition conn0 (initial : nat) : conn := mkConn (new_buf initial) true 0.

  (* the same deliveries on the list-level decoder of C18_Model, but WITHOUT the abandoned
     flag: the loop is run on every delivery (what the real codec does) *)
  Definition live_feed (d : list byte) (chunk : list byte) : list (cevent msg) * list byte :=
    let '(evs, st) := C18_Model.run (cstep msg parse tag) (S (length (d ++ chunk))) tt (d ++ chunk) in
    (evs, d_buf st).
End Enc.
Arguments BWait {msg}.
Arguments BEmit {msg} m b'.
Arguments BStop {msg} e.
