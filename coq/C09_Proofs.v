(* C09_Proofs: common lemmas, the epoll back-end invariant and refinement, dispatch, growth bound. *)
From Coq Require Import List ZArith NArith Lia Bool Arith Permutation.
From Muduo Require Import Gen_Consts Gen_C09 C09_Model.
Import ListNotations.

(* ---- generated constants: the facts the proofs need, closed by computation ---------------- *)
Lemma kNone0 : kNoneEvent = 0%N. Proof. reflexivity. Qed.
Lemma kNew_m1 : kNew = (-1)%Z. Proof. reflexivity. Qed.
Lemma kconst_distinct : kNew <> kAdded /\ kNew <> kDeleted /\ kAdded <> kDeleted.
Proof. repeat split; discriminate. Qed.
Lemma grow_factor_ge2 : 2 <= grow_factor. Proof. vm_compute. lia. Qed.
Lemma init_cap_pos : 0 < kInitEventListSize. Proof. vm_compute. lia. Qed.
Lemma grow_factor_Z : Z.of_nat grow_factor = EPollPoller_grow_factor. Proof. reflexivity. Qed.
Lemma init_cap_Z : Z.of_nat kInitEventListSize = EPollPoller_kInitEventListSize. Proof. reflexivity. Qed.

Lemma upd_eq : forall A (m : nat -> option A) k v, upd m k v k = v.
Proof. intros. unfold upd. now rewrite Nat.eqb_refl. Qed.
Lemma upd_neq : forall A (m : nat -> option A) k v x, x <> k -> upd m k v x = m x.
Proof. intros. unfold upd. destruct (Nat.eqb_spec x k); congruence. Qed.

(* ---- relation between a Channel object and its abstract entry ------------------------------ *)
Definition rel_obj (ok : chan -> sch -> Prop) (o : option chan) (s : option sch) : Prop :=
  match o, s with
  | None, None => True
  | Some ch, Some s => fd ch = s_fd s /\ events ch = s_ev s /\ added ch = s_reg s /\ ok ch s
  | _, _ => False
  end.

Lemma rel_obj_some : forall ok o s, rel_obj ok o (Some s) ->
  exists ch, o = Some ch /\ fd ch = s_fd s /\ events ch = s_ev s /\ added ch = s_reg s /\ ok ch s.
Proof. intros ok [ch|] s H; cbn in H; [eauto|contradiction]. Qed.
Lemma rel_obj_none : forall ok o, rel_obj ok o None -> o = None.
Proof. intros ok [ch|] H; cbn in H; [contradiction|auto]. Qed.
Lemma rel_obj_some_l : forall ok ch s, rel_obj ok (Some ch) s ->
  exists s', s = Some s' /\ fd ch = s_fd s' /\ events ch = s_ev s' /\ added ch = s_reg s' /\ ok ch s'.
Proof. intros ok ch [s|] H; cbn in H; [eauto|contradiction]. Qed.

(* ---- kernel interest list ------------------------------------------------------------------- *)
Lemma klookup_none : forall l f, klookup l f = None <-> ~ In f (map k_fd l).
Proof.
  induction l as [|k t IH]; intros f; cbn; [tauto|].
  destruct (Nat.eqb_spec (k_fd k) f) as [E|E].
  - split; [discriminate|]. intros H. exfalso. apply H. now left.
  - rewrite IH. tauto.
Qed.
Lemma klookup_some : forall l f k, klookup l f = Some k -> In k l /\ k_fd k = f.
Proof.
  induction l as [|k0 t IH]; intros f k; cbn; [discriminate|].
  destruct (Nat.eqb_spec (k_fd k0) f) as [E|E].
  - intros H. injection H as <-. auto.
  - intros H. apply IH in H. tauto.
Qed.
Lemma klookup_in : forall l k, NoDup (map k_fd l) -> In k l -> klookup l (k_fd k) = Some k.
Proof.
  induction l as [|k0 t IH]; intros k ND HI; cbn in *; [contradiction|].
  inversion ND as [|x y Hn ND']; subst.
  destruct HI as [->|HI].
  - now rewrite Nat.eqb_refl.
  - destruct (Nat.eqb_spec (k_fd k0) (k_fd k)) as [E|E].
    + exfalso. apply Hn. rewrite E. now apply in_map.
    + auto.
Qed.
Lemma kmod_keys : forall l f ev c, map k_fd (kmod l f ev c) = map k_fd l.
Proof.
  intros. unfold kmod. rewrite map_map. apply map_ext. intros k.
  destruct (Nat.eqb_spec (k_fd k) f); cbn; congruence.
Qed.
Lemma kmod_in : forall l f ev c k, In k (kmod l f ev c) <->
  (In k l /\ k_fd k <> f) \/ (k = mkKent f ev c /\ In f (map k_fd l)).
Proof.
  intros. unfold kmod. rewrite in_map_iff. split.
  - intros [k0 [E HI]]. destruct (Nat.eqb_spec (k_fd k0) f) as [E2|E2].
    + right. split; [auto|]. rewrite <- E2. now apply in_map.
    + left. subst. auto.
  - intros [[HI E]|[E HI]].
    + exists k. split; [|auto]. destruct (Nat.eqb_spec (k_fd k) f); congruence.
    + apply in_map_iff in HI. destruct HI as [k0 [E2 HI]]. exists k0. split; [|auto].
      destruct (Nat.eqb_spec (k_fd k0) f); congruence.
Qed.
Lemma kdel_in : forall l f k, In k (kdel l f) <-> In k l /\ k_fd k <> f.
Proof.
  intros. unfold kdel. rewrite filter_In.
  destruct (Nat.eqb_spec (k_fd k) f); cbn; intuition congruence.
Qed.
Lemma kdel_nodup : forall l f, NoDup (map k_fd l) -> NoDup (map k_fd (kdel l f)).
Proof.
  induction l as [|k t IH]; intros f ND; cbn; [constructor|].
  inversion ND as [|x y Hn ND']; subst.
  destruct (Nat.eqb_spec (k_fd k) f); cbn; [now apply IH|].
  constructor; [|now apply IH].
  intros HI. apply in_map_iff in HI. destruct HI as [k' [E HI]].
  apply kdel_in in HI. apply Hn. rewrite <- E. apply in_map. tauto.
Qed.
Lemma kent_eq : forall k f ev c, k_fd k = f -> k_ev k = ev -> k_cid k = c -> k = mkKent f ev c.
Proof. intros [a b d]; cbn; intros; subst; auto. Qed.

(* ---- pick ------------------------------------------------------------------------------------ *)
Lemma take_nth_perm : forall A i (l : list A) x l', take_nth i l = Some (x, l') -> Permutation l (x :: l').
Proof.
  induction i as [|i IH]; intros [|y t] x l' H; cbn in H; try discriminate.
  - injection H as <- <-. apply Permutation_refl.
  - destruct (take_nth i t) as [[z t']|] eqn:E; [|discriminate].
    injection H as <- <-. apply IH in E.
    eapply perm_trans; [apply perm_skip; exact E|apply perm_swap].
Qed.
Lemma take_nth_some : forall A i (l : list A), i < length l -> exists x l', take_nth i l = Some (x, l').
Proof.
  induction i as [|i IH]; intros [|y t] H; cbn in *; try lia; eauto.
  destruct (IH t) as [x [l' E]]; [lia|]. rewrite E. eauto.
Qed.
(* whatever the kernel chooses: k entries (if that many are ready), all of them ready ones, none twice *)
Lemma pick_spec : forall A k choice (l : list A), k <= length l ->
  exists rest, Permutation l (pick k choice l ++ rest) /\ length (pick k choice l) = k.
Proof.
  induction k as [|k IH]; intros choice l Hk; cbn [pick].
  - exists l. split; [apply Permutation_refl|reflexivity].
  - destruct l as [|a t]; [cbn in Hk; lia|].
    destruct (take_nth_some A (hd 0 choice mod length (a :: t)) (a :: t)) as [x [l' E]].
    { apply Nat.mod_upper_bound. cbn. lia. }
    rewrite E. pose proof (take_nth_perm _ _ _ _ _ E) as HP.
    assert (HL : length (a :: t) = S (length l')).
    { apply Permutation_length in HP. exact HP. }
    destruct (IH (tl choice) l') as [rest [HP' HL']]; [cbn in *; lia|].
    exists rest. split; [|cbn; now rewrite HL'].
    eapply perm_trans; [exact HP|]. cbn. now apply perm_skip.
Qed.
Lemma pick_all : forall A k choice (l : list A), k = length l -> Permutation l (pick k choice l).
Proof.
  intros A k choice l Hk. destruct (pick_spec A k choice l) as [rest [HP HL]]; [lia|].
  assert (rest = []).
  { apply Permutation_length in HP. rewrite app_length in HP. destruct rest; [auto|cbn in HP; lia]. }
  subst. now rewrite app_nil_r in HP.
Qed.

(* ---- the epoll invariant (histories without a redundant disable) ----------------------------- *)
Definition idx_okE (ch : chan) (s : sch) : Prop :=
  (added ch = false /\ index ch = kNew) \/
  (added ch = true /\ events ch <> 0%N /\ index ch = kAdded) \/
  (added ch = true /\ events ch = 0%N /\ index ch = kDeleted).

Record InvE (st : ep) (sp : spec) : Prop := {
  ie_obj : forall c, rel_obj idx_okE (e_objs st c) (sp c);
  ie_map : forall f c, e_map st f = Some c <-> exists s, sp c = Some s /\ s_reg s = true /\ s_fd s = f;
  ie_nodup : NoDup (map k_fd (e_kern st));
  ie_kern : forall k, In k (e_kern st) <->
      exists s, sp (k_cid k) = Some s /\ s_reg s = true /\ s_ev s <> 0%N /\ k_fd k = s_fd s /\ k_ev k = s_ev s;
  ie_kerr : e_kerr st = 0;
  ie_cap : 0 < e_cap st;
  ie_capmin : kInitEventListSize <= e_cap st      (* events_ never shrinks below its initial size *)
}.

Lemma invE_init : InvE ep_init spec0.
Proof.
  constructor; cbn; intros; auto.
  - split; [discriminate|]. intros [s [H _]]. discriminate.
  - constructor.
  - split; [contradiction|]. intros [s [H _]]. discriminate.
  - apply init_cap_pos.
Qed.

Lemma reg_unique : forall st sp c1 c2 s1 s2, InvE st sp ->
  sp c1 = Some s1 -> s_reg s1 = true -> sp c2 = Some s2 -> s_reg s2 = true -> s_fd s1 = s_fd s2 -> c1 = c2.
Proof.
  intros st sp c1 c2 s1 s2 I H1 R1 H2 R2 E.
  assert (A : e_map st (s_fd s1) = Some c1) by (apply (ie_map _ _ I); eauto).
  assert (B : e_map st (s_fd s1) = Some c2) by (apply (ie_map _ _ I); eauto).
  congruence.
Qed.

Lemma klookup_taken : forall st sp f k, InvE st sp -> klookup (e_kern st) f = Some k ->
  exists s, sp (k_cid k) = Some s /\ s_reg s = true /\ s_ev s <> 0%N /\ s_fd s = f /\ k_ev k = s_ev s.
Proof.
  intros st sp f k I H. apply klookup_some in H. destruct H as [HI E].
  apply (ie_kern _ _ I) in HI. destruct HI as [s [A [B [C [D F]]]]].
  exists s. repeat split; auto; congruence.
Qed.

Lemma NoDup_app_end : forall (l : list nat) x, NoDup l -> ~ In x l -> NoDup (l ++ [x]).
Proof.
  induction l as [|a t IH]; intros x ND NI; cbn.
  - constructor; [tauto|constructor].
  - inversion ND; subst. constructor.
    + rewrite in_app_iff. cbn in *. intuition.
    + apply IH; auto. cbn in NI. tauto.
Qed.

Ltac zeqb :=
  repeat match goal with
  | |- context [Z.eqb ?a ?a] => rewrite (Z.eqb_refl a)
  | H : ?a <> ?b |- context [Z.eqb ?a ?b] => rewrite (proj2 (Z.eqb_neq a b) H)
  end.

(* the hypothesis the OLD shape of EPollPoller::updateChannel (se = false, before a5a0563) needs *)
Definition eextra (se : bool) (sp : spec) (o : op) : Prop := se = false -> sclean sp o.
Lemma eextra_true : forall sp o, eextra true sp o.
Proof. intros sp o H. discriminate. Qed.

Section Epoll.
Variable se : bool.

(* ---- EPollPoller::updateChannel / removeChannel: one equation per branch ---------------------- *)
Lemma epu_new : forall st c ch, e_objs st c = Some ch -> index ch = kNew ->
  e_map st (fd ch) = None -> klookup (e_kern st) (fd ch) = None -> se && isNone ch = false ->
  ep_updateChannel se c st =
  Ok (mkEp (upd (e_objs st) c (Some (set_index ch kAdded))) (upd (e_map st) (fd ch) (Some c))
           (e_kern st ++ [mkKent (fd ch) (events ch) c]) (e_cap st) (e_kerr st)).
Proof.
  intros st c ch Ho Hi Hm Hk HS. unfold ep_updateChannel. rewrite Ho, Hi, Z.eqb_refl. cbn [orb].
  rewrite Hm. cbn [bind]. rewrite HS. unfold ep_ctl. cbn [e_kern ep_set_objs ep_set_map fd set_index].
  rewrite Hk. reflexivity.
Qed.
(* a5a0563: a new channel whose interest is empty is recorded in channels_ and marked kDeleted *)
Lemma epu_new_empty : forall st c ch, e_objs st c = Some ch -> index ch = kNew ->
  e_map st (fd ch) = None -> se = true -> isNone ch = true ->
  ep_updateChannel se c st =
  Ok (mkEp (upd (e_objs st) c (Some (set_index ch kDeleted))) (upd (e_map st) (fd ch) (Some c))
           (e_kern st) (e_cap st) (e_kerr st)).
Proof.
  intros st c ch Ho Hi Hm HS HN. unfold ep_updateChannel. rewrite Ho, Hi, Z.eqb_refl. cbn [orb].
  rewrite Hm. cbn [bind]. rewrite HS, HN. reflexivity.
Qed.
Lemma epu_deleted : forall st c ch, e_objs st c = Some ch -> index ch = kDeleted ->
  e_map st (fd ch) = Some c -> klookup (e_kern st) (fd ch) = None -> se && isNone ch = false ->
  ep_updateChannel se c st =
  Ok (mkEp (upd (e_objs st) c (Some (set_index ch kAdded))) (e_map st)
           (e_kern st ++ [mkKent (fd ch) (events ch) c]) (e_cap st) (e_kerr st)).
Proof.
  intros st c ch Ho Hi Hm Hk HS. unfold ep_updateChannel. rewrite Ho, Hi.
  destruct kconst_distinct as [_ [D1 D2]].
  rewrite (proj2 (Z.eqb_neq kDeleted kNew)) by congruence. rewrite Z.eqb_refl. cbn [orb].
  rewrite Hm, Nat.eqb_refl. cbn [bind]. rewrite HS. unfold ep_ctl. cbn [e_kern ep_set_objs fd set_index].
  rewrite Hk. reflexivity.
Qed.
(* a5a0563: a kDeleted channel whose interest is still empty stays as it is *)
Lemma epu_deleted_empty : forall st c ch, e_objs st c = Some ch -> index ch = kDeleted ->
  e_map st (fd ch) = Some c -> se = true -> isNone ch = true ->
  ep_updateChannel se c st =
  Ok (mkEp (upd (e_objs st) c (Some (set_index ch kDeleted))) (e_map st) (e_kern st) (e_cap st) (e_kerr st)).
Proof.
  intros st c ch Ho Hi Hm HS HN. unfold ep_updateChannel. rewrite Ho, Hi.
  destruct kconst_distinct as [_ [D1 D2]].
  rewrite (proj2 (Z.eqb_neq kDeleted kNew)) by congruence. rewrite Z.eqb_refl. cbn [orb].
  rewrite Hm, Nat.eqb_refl. cbn [bind]. rewrite HS, HN. reflexivity.
Qed.
Lemma epu_added : forall st c ch k0, e_objs st c = Some ch -> index ch = kAdded ->
  e_map st (fd ch) = Some c -> klookup (e_kern st) (fd ch) = Some k0 ->
  ep_updateChannel se c st =
  if isNone ch
  then Ok (mkEp (upd (e_objs st) c (Some (set_index ch kDeleted))) (e_map st) (kdel (e_kern st) (fd ch)) (e_cap st) (e_kerr st))
  else Ok (mkEp (e_objs st) (e_map st) (kmod (e_kern st) (fd ch) (events ch) c) (e_cap st) (e_kerr st)).
Proof.
  intros st c ch k0 Ho Hi Hm Hk. unfold ep_updateChannel. rewrite Ho, Hi.
  destruct kconst_distinct as [D0 [D1 D2]].
  rewrite (proj2 (Z.eqb_neq kAdded kNew)) by congruence.
  rewrite (proj2 (Z.eqb_neq kAdded kDeleted)) by congruence. cbn [orb].
  rewrite Hm, Nat.eqb_refl, Z.eqb_refl. cbn [andb].
  unfold ep_ctl. rewrite Hk. destruct (isNone ch); reflexivity.
Qed.
Lemma epr_deleted : forall st c ch, e_objs st c = Some ch -> index ch = kDeleted -> isNone ch = true ->
  e_map st (fd ch) = Some c ->
  ep_removeChannel c st =
  Ok (mkEp (upd (e_objs st) c (Some (mkChan (fd ch) (events ch) kNew false))) (upd (e_map st) (fd ch) None)
           (e_kern st) (e_cap st) (e_kerr st)).
Proof.
  intros st c ch Ho Hi Hn Hm. unfold ep_removeChannel. rewrite Ho, Hn. cbn [negb].
  rewrite Hm, Nat.eqb_refl, Hi.
  destruct kconst_distinct as [D0 [D1 D2]].
  rewrite (proj2 (Z.eqb_neq kDeleted kAdded)) by congruence. rewrite Z.eqb_refl. cbn [orb bind].
  reflexivity.
Qed.

Opaque kNew kAdded kDeleted kNoneEvent kReadEvent kWriteEvent grow_factor kInitEventListSize.

Lemma isNone_iff : forall ch, isNone ch = true <-> events ch = 0%N.
Proof. intros. unfold isNone. rewrite kNone0. apply N.eqb_eq. Qed.
Lemma isNone_false : forall ch, events ch <> 0%N -> isNone ch = false.
Proof. intros ch H. destruct (isNone ch) eqn:E; [apply isNone_iff in E; contradiction|auto]. Qed.

(* an unregistered channel whose descriptor nobody holds: nothing in the map, nothing in the kernel *)
Lemma free_fd : forall st sp f, InvE st sp -> ~ fd_taken sp f ->
  e_map st f = None /\ klookup (e_kern st) f = None.
Proof.
  intros st sp f I NT. split.
  - destruct (e_map st f) as [c0|] eqn:E; [|auto]. exfalso. apply NT.
    apply (ie_map _ _ I) in E. destruct E as [s [A [B C]]]. exists c0, s. auto.
  - destruct (klookup (e_kern st) f) as [k|] eqn:E; [|auto]. exfalso. apply NT.
    destruct (klookup_taken _ _ _ _ I E) as [s [A [B [C [D _]]]]]. exists (k_cid k), s. auto.
Qed.

Section EpollUpd.
Variables (st : ep) (sp : spec) (u : uop) (c : nat) (s : sch) (ch : chan).
Hypothesis I : InvE st sp.
Hypothesis Hs : sp c = Some s.
Hypothesis Ho : e_objs st c = Some ch.
Hypothesis Efd : fd ch = s_fd s.
Hypothesis Eev : events ch = s_ev s.
Hypothesis Ead : added ch = s_reg s.
Let ev' := apply_uop u (s_ev s).
Let ch' := mkChan (fd ch) ev' (index ch) true.
Let st0 := ep_set_objs st (upd (e_objs st) c (Some ch')).
Let sp' := upd sp c (Some (mkSch (s_fd s) ev' true (s_rm s))).

(* preservation of the invariant when c's entry becomes registered with ev' <> 0 and a kernel entry
   (fd, ev', c) is the only change to the kernel list (append, or replacement) *)
Lemma invE_after_add : forall objs' kern' map',
  objs' c = Some (mkChan (fd ch) ev' kAdded true) -> (forall c0, c0 <> c -> objs' c0 = e_objs st c0) ->
  ev' <> 0%N ->
  (s_reg s = true \/ ~ fd_taken sp (s_fd s)) ->
  (forall f c0, map' f = Some c0 <-> (e_map st f = Some c0 /\ f <> s_fd s) \/ (f = s_fd s /\ c0 = c)) ->
  NoDup (map k_fd kern') ->
  (forall k, In k kern' <-> (In k (e_kern st) /\ k_fd k <> s_fd s) \/ k = mkKent (s_fd s) ev' c) ->
  InvE (mkEp objs' map' kern' (e_cap st) (e_kerr st)) sp'.
Proof.
  intros objs' kern' map' Hoc Hoo Hev G Hmap ND Hk. constructor; cbn [e_objs e_map e_kern e_cap e_kerr].
  - intros c0. unfold sp'. destruct (Nat.eq_dec c0 c) as [->|N].
    + rewrite Hoc, upd_eq. cbn. repeat split; auto. right. left. cbn. auto.
    + rewrite Hoo, upd_neq by auto. apply (ie_obj _ _ I).
  - intros f c0. rewrite Hmap. unfold sp'. split.
    + intros [[A B]|[-> ->]].
      * apply (ie_map _ _ I) in A. destruct A as [s0 [A1 [A2 A3]]].
        assert (c0 <> c) by (intros ->; congruence).
        exists s0. rewrite upd_neq by auto. auto.
      * rewrite upd_eq. eexists. split; [reflexivity|]. cbn. auto.
    + intros [s0 [A1 [A2 A3]]]. destruct (Nat.eq_dec c0 c) as [->|N].
      * rewrite upd_eq in A1. injection A1 as <-. cbn in A3. right. auto.
      * rewrite upd_neq in A1 by auto. left. split; [apply (ie_map _ _ I); exists s0; auto|].
        intros ->. destruct G as [G|G].
        -- apply N. eapply reg_unique; eauto.
        -- apply G. exists c0, s0. auto.
  - exact ND.
  - intros k. rewrite Hk. unfold sp'. split.
    + intros [[A B]|EK]; [|subst k].
      * apply (ie_kern _ _ I) in A. destruct A as [s0 [A1 [A2 [A3 [A4 A5]]]]].
        assert (k_cid k <> c).
        { intros E. rewrite E in A1. assert (s0 = s) by congruence. subst s0. congruence. }
        exists s0. rewrite upd_neq by auto. auto.
      * cbn. rewrite upd_eq. eexists. split; [reflexivity|]. cbn. auto.
    + intros [s0 [A1 [A2 [A3 [A4 A5]]]]]. destruct (Nat.eq_dec (k_cid k) c) as [E|N].
      * rewrite E, upd_eq in A1. injection A1 as <-. cbn in *. right. now apply kent_eq.
      * rewrite upd_neq in A1 by auto. left. split; [apply (ie_kern _ _ I); exists s0; auto|].
        rewrite A4. intros E. destruct G as [G|G].
        -- apply N. eapply reg_unique; eauto.
        -- apply G. exists (k_cid k), s0. auto.
  - apply (ie_kerr _ _ I).
  - apply (ie_cap _ _ I).
  - apply (ie_capmin _ _ I).
Qed.

(* a5a0563: c becomes / stays registered with an EMPTY interest: recorded in channels_, index kDeleted,
   nothing in the kernel's set *)
Lemma invE_after_empty : forall objs' map',
  objs' c = Some (mkChan (fd ch) ev' kDeleted true) -> (forall c0, c0 <> c -> objs' c0 = e_objs st c0) ->
  ev' = 0%N ->
  (s_reg s = true \/ ~ fd_taken sp (s_fd s)) ->
  (s_reg s = false \/ s_ev s = 0%N) ->
  (forall f c0, map' f = Some c0 <-> (e_map st f = Some c0 /\ f <> s_fd s) \/ (f = s_fd s /\ c0 = c)) ->
  InvE (mkEp objs' map' (e_kern st) (e_cap st) (e_kerr st)) sp'.
Proof.
  intros objs' map' Hoc Hoo Hev G OFF Hmap. constructor; cbn [e_objs e_map e_kern e_cap e_kerr].
  - intros c0. unfold sp'. destruct (Nat.eq_dec c0 c) as [->|N].
    + rewrite Hoc, upd_eq. cbn. repeat split; auto. right. right. cbn. auto.
    + rewrite Hoo, upd_neq by auto. apply (ie_obj _ _ I).
  - intros f c0. rewrite Hmap. unfold sp'. split.
    + intros [[A B]|[-> ->]].
      * apply (ie_map _ _ I) in A. destruct A as [s0 [A1 [A2 A3]]].
        assert (c0 <> c) by (intros ->; congruence).
        exists s0. rewrite upd_neq by auto. auto.
      * rewrite upd_eq. eexists. split; [reflexivity|]. cbn. auto.
    + intros [s0 [A1 [A2 A3]]]. destruct (Nat.eq_dec c0 c) as [->|N].
      * rewrite upd_eq in A1. injection A1 as <-. cbn in A3. right. auto.
      * rewrite upd_neq in A1 by auto. left. split; [apply (ie_map _ _ I); exists s0; auto|].
        intros ->. destruct G as [G|G].
        -- apply N. eapply reg_unique; eauto.
        -- apply G. exists c0, s0. auto.
  - apply (ie_nodup _ _ I).
  - intros k. rewrite (ie_kern _ _ I). unfold sp'. split.
    + intros [s0 [A1 [A2 [A3 [A4 A5]]]]].
      assert (k_cid k <> c).
      { intros E. rewrite E in A1. assert (s0 = s) by congruence. subst s0. destruct OFF; congruence. }
      exists s0. rewrite upd_neq by auto. auto.
    + intros [s0 [A1 [A2 [A3 [A4 A5]]]]]. destruct (Nat.eq_dec (k_cid k) c) as [E|N].
      * rewrite E, upd_eq in A1. injection A1 as <-. cbn in A3. contradiction.
      * rewrite upd_neq in A1 by auto. eauto 10.
  - apply (ie_kerr _ _ I).
  - apply (ie_cap _ _ I).
  - apply (ie_capmin _ _ I).
Qed.
End EpollUpd.

Lemma upd_upd_eq : forall A (m : nat -> option A) k v w, upd (upd m k v) k w k = w.
Proof. intros. apply upd_eq. Qed.
Lemma upd_upd_neq : forall A (m : nat -> option A) k v w x, x <> k -> upd (upd m k v) k w x = m x.
Proof. intros. now rewrite !upd_neq. Qed.

Lemma ep_upd_ok : forall st sp u c, InvE st sp -> sguard sp (Upd u c) -> eextra se sp (Upd u c) ->
  exists st', ep_step se st (Upd u c) = Ok (st', []) /\ InvE st' (spec_step sp (Upd u c)).
Proof.
  intros st sp u c I [s [Hs G]] CL0.
  assert (CL : se = false -> apply_uop u (s_ev s) = 0%N -> s_reg s = true /\ s_ev s <> 0%N).
  { intros F. exact (CL0 F s Hs). }
  assert (SED : se = true \/ se = false) by (destruct (Bool.bool_dec se true) as [X|X]; [auto|right; now apply not_true_is_false]).
  pose proof (ie_obj _ _ I c) as RO. rewrite Hs in RO. apply rel_obj_some in RO.
  destruct RO as [ch [Ho [Efd [Eev [Ead OK]]]]].
  cbn [ep_step spec_step]. rewrite Ho, Hs, Eev.
  set (ev' := apply_uop u (s_ev s)) in *.
  set (ch' := mkChan (fd ch) ev' (index ch) true).
  set (st0 := ep_set_objs st (upd (e_objs st) c (Some ch'))).
  assert (Ho0 : e_objs st0 c = Some ch') by (unfold st0; cbn; apply upd_eq).
  destruct OK as [[A1 A2]|[[A1 [A2 A3]]|[A1 [A2 A3]]]].
  - (* kNew: not registered *)
    assert (R : s_reg s = false) by congruence.
    destruct G as [G|G]; [congruence|].
    destruct (free_fd _ _ _ I G) as [Fm Fk]. rewrite <- Efd in Fm, Fk.
    assert (MAPNEW : forall f c0, upd (e_map st) (fd ch) (Some c) f = Some c0 <->
              (e_map st f = Some c0 /\ f <> s_fd s) \/ (f = s_fd s /\ c0 = c)).
    { intros f c0. rewrite Efd. unfold upd. destruct (Nat.eqb_spec f (s_fd s)) as [->|N].
      * rewrite Efd in Fm. rewrite Fm. split; [intros H; injection H as <-; auto|].
        intros [[H _]|[_ ->]]; [discriminate|auto].
      * split; [auto|]. intros [[H _]|[H _]]; [auto|contradiction]. }
    destruct (N.eq_dec ev' 0) as [Z0|Hev].
    { (* the update leaves the interest empty on a channel that is not registered *)
      destruct SED as [SE|SE]; [|exfalso; destruct (CL SE Z0); congruence].
      assert (HN : isNone ch' = true) by (apply isNone_iff; exact Z0).
      rewrite (epu_new_empty st0 c ch' Ho0 A2 Fm SE HN). cbn [bind]. eexists. split; [reflexivity|].
      subst ch' st0. cbn [fd events e_objs e_map e_kern e_cap e_kerr ep_set_objs set_index index added].
      eapply (invE_after_empty st sp u c s ch I Hs Efd); auto.
      + apply upd_eq.
      + intros c0 N. now apply upd_upd_neq. }
    assert (HSE : se && isNone ch' = false) by (rewrite (isNone_false ch' Hev); apply andb_false_r).
    rewrite (epu_new st0 c ch' Ho0 A2 Fm Fk HSE). cbn [bind]. eexists. split; [reflexivity|].
    subst ch' st0. cbn [fd events e_objs e_map e_kern e_cap e_kerr ep_set_objs set_index index added].
    eapply (invE_after_add st sp u c s ch I Hs Efd); auto.
    + apply upd_eq.
    + intros c0 N. now apply upd_upd_neq.
    + rewrite map_app. cbn. apply NoDup_app_end; [apply (ie_nodup _ _ I)|]. now apply klookup_none.
    + intros k. rewrite in_app_iff. cbn. rewrite Efd. split.
      * intros [H|[H|[]]]; [left; split; auto|right; auto].
        intros E. apply klookup_none in Fk. apply Fk. rewrite Efd, <- E. now apply in_map.
      * intros [[H _]|H]; auto.
  - (* kAdded: registered with a non-empty interest: MOD or DEL *)
    assert (R : s_reg s = true) by congruence.
    assert (Hm : e_map st (fd ch) = Some c). { apply (ie_map _ _ I). exists s. auto. }
    assert (HI : In (mkKent (fd ch) (events ch) c) (e_kern st)).
    { apply (ie_kern _ _ I). cbn. exists s. repeat split; auto; congruence. }
    pose proof (klookup_in _ _ (ie_nodup _ _ I) HI) as Hk. cbn [k_fd] in Hk.
    rewrite (epu_added st0 c ch' _ Ho0 A3 Hm Hk). cbn [bind].
    destruct (N.eq_dec ev' 0) as [Z|NZ].
    + (* becomes empty: EPOLL_CTL_DEL, kDeleted *)
      assert (HN : isNone ch' = true) by (apply isNone_iff; exact Z). rewrite HN.
      eexists. split; [reflexivity|].
      subst ch' st0. cbn [fd events e_objs e_map e_kern e_cap e_kerr ep_set_objs set_index index added].
      constructor; cbn [e_objs e_map e_kern e_cap e_kerr].
      * intros c0. destruct (Nat.eq_dec c0 c) as [->|N].
        -- rewrite !upd_eq. cbn. repeat split; auto. right. right. cbn. auto.
        -- rewrite upd_upd_neq, upd_neq by auto. apply (ie_obj _ _ I).
      * intros f c0. rewrite (ie_map _ _ I). split; intros [s0 [B1 [B2 B3]]].
        -- destruct (Nat.eq_dec c0 c) as [->|N].
           ++ rewrite upd_eq. eexists. split; [reflexivity|]. cbn. split; auto. congruence.
           ++ rewrite upd_neq by auto. eauto.
        -- destruct (Nat.eq_dec c0 c) as [->|N].
           ++ rewrite upd_eq in B1. injection B1 as <-. cbn in *. eauto.
           ++ rewrite upd_neq in B1 by auto. eauto.
      * apply kdel_nodup, (ie_nodup _ _ I).
      * intros k. rewrite kdel_in, (ie_kern _ _ I). split.
        -- intros [[s0 [B1 [B2 [B3 [B4 B5]]]]] NE].
           assert (k_cid k <> c). { intros E. rewrite E in B1. assert (s0 = s) by congruence. subst. congruence. }
           exists s0. rewrite upd_neq by auto. auto.
        -- intros [s0 [B1 [B2 [B3 [B4 B5]]]]]. destruct (Nat.eq_dec (k_cid k) c) as [E|N].
           ++ rewrite E, upd_eq in B1. injection B1 as <-. cbn in B3. contradiction.
           ++ rewrite upd_neq in B1 by auto. split; [exists s0; auto|].
              rewrite B4, Efd. intros E. apply N. eapply reg_unique; eauto.
      * apply (ie_kerr _ _ I).
      * apply (ie_cap _ _ I).
      * apply (ie_capmin _ _ I).
    + (* stays non-empty: EPOLL_CTL_MOD *)
      rewrite (isNone_false ch' NZ). eexists. split; [reflexivity|].
      subst ch' st0. cbn [fd events e_objs e_map e_kern e_cap e_kerr ep_set_objs set_index index added].
      eapply (invE_after_add st sp u c s ch I Hs Efd); auto.
      * rewrite upd_eq. now rewrite A3.
      * intros c0 N. now apply upd_neq.
      * intros f c0. rewrite <- Efd. split.
        -- intros H. destruct (Nat.eq_dec f (fd ch)) as [->|N]; [right; split; congruence|left; auto].
        -- intros [[H _]|[-> ->]]; auto.
      * rewrite kmod_keys. apply (ie_nodup _ _ I).
      * intros k. rewrite kmod_in, Efd. split.
        -- intros [H|[H _]]; auto.
        -- intros [H|H]; [auto|]. right. split; [auto|]. rewrite <- Efd.
           change (fd ch) with (k_fd (mkKent (fd ch) (events ch) c)). now apply in_map.
  - (* kDeleted: registered with an empty interest: the update re-adds *)
    assert (R : s_reg s = true) by congruence.
    assert (Hm : e_map st (fd ch) = Some c). { apply (ie_map _ _ I). exists s. auto. }
    assert (MAPSAME : forall f c0, e_map st f = Some c0 <->
              (e_map st f = Some c0 /\ f <> s_fd s) \/ (f = s_fd s /\ c0 = c)).
    { intros f c0. rewrite <- Efd. split.
      * intros H. destruct (Nat.eq_dec f (fd ch)) as [->|N]; [right; split; congruence|left; auto].
      * intros [[H _]|[-> ->]]; auto. }
    destruct (N.eq_dec ev' 0) as [Z0|Hev].
    { (* a redundant disable: the channel stays recorded, not in the epoll set *)
      destruct SED as [SE|SE]; [|exfalso; destruct (CL SE Z0); congruence].
      assert (HN : isNone ch' = true) by (apply isNone_iff; exact Z0).
      rewrite (epu_deleted_empty st0 c ch' Ho0 A3 Hm SE HN). cbn [bind]. eexists. split; [reflexivity|].
      subst ch' st0. cbn [fd events e_objs e_map e_kern e_cap e_kerr ep_set_objs set_index index added].
      eapply (invE_after_empty st sp u c s ch I Hs Efd); auto.
      + apply upd_eq.
      + intros c0 N. now apply upd_upd_neq.
      + right. congruence. }
    assert (HSE : se && isNone ch' = false) by (rewrite (isNone_false ch' Hev); apply andb_false_r).
    assert (Fk : klookup (e_kern st) (fd ch) = None).
    { destruct (klookup (e_kern st) (fd ch)) as [k|] eqn:E; [|auto]. exfalso.
      destruct (klookup_taken _ _ _ _ I E) as [s0 [B1 [B2 [B3 [B4 _]]]]].
      assert (k_cid k = c) by (eapply reg_unique; eauto; congruence). subst c.
      assert (s0 = s) by congruence. subst. congruence. }
    rewrite (epu_deleted st0 c ch' Ho0 A3 Hm Fk HSE). cbn [bind]. eexists. split; [reflexivity|].
    subst ch' st0. cbn [fd events e_objs e_map e_kern e_cap e_kerr ep_set_objs set_index index added].
    eapply (invE_after_add st sp u c s ch I Hs Efd); auto.
    + apply upd_eq.
    + intros c0 N. now apply upd_upd_neq.
    + rewrite map_app. cbn. apply NoDup_app_end; [apply (ie_nodup _ _ I)|]. now apply klookup_none.
    + intros k. rewrite in_app_iff. cbn. rewrite Efd. split.
      * intros [H|[H|[]]]; [left; split; auto|right; auto].
        intros E. apply klookup_none in Fk. apply Fk. rewrite Efd, <- E. now apply in_map.
      * intros [[H _]|H]; auto.
Qed.

Lemma ep_remove_ok : forall st sp c, InvE st sp -> sguard sp (Remove c) ->
  exists st', ep_step se st (Remove c) = Ok (st', []) /\ InvE st' (spec_step sp (Remove c)).
Proof.
  intros st sp c I [s [Hs [R Z]]].
  pose proof (ie_obj _ _ I c) as RO. rewrite Hs in RO. apply rel_obj_some in RO.
  destruct RO as [ch [Ho [Efd [Eev [Ead OK]]]]].
  assert (Hm : e_map st (fd ch) = Some c). { apply (ie_map _ _ I). exists s. auto. }
  assert (HN : isNone ch = true) by (apply isNone_iff; congruence).
  destruct OK as [[A1 A2]|[[A1 [A2 A3]]|[A1 [A2 A3]]]]; [congruence|congruence|].
  cbn [ep_step spec_step]. rewrite (epr_deleted st c ch Ho A3 HN Hm), Hs. cbn [bind].
  eexists. split; [reflexivity|].
  constructor; cbn [e_objs e_map e_kern e_cap e_kerr].
  - intros c0. destruct (Nat.eq_dec c0 c) as [->|N].
    + rewrite !upd_eq. cbn. repeat split; auto. left. cbn. auto.
    + rewrite !upd_neq by auto. apply (ie_obj _ _ I).
  - intros f c0. unfold upd at 1. destruct (Nat.eqb_spec f (fd ch)) as [->|N].
    + split; [discriminate|]. intros [s0 [B1 [B2 B3]]]. destruct (Nat.eq_dec c0 c) as [->|N].
      * rewrite upd_eq in B1. injection B1 as <-. discriminate.
      * rewrite upd_neq in B1 by auto. exfalso. apply N. eapply reg_unique; eauto. congruence.
    + rewrite (ie_map _ _ I). split; intros [s0 [B1 [B2 B3]]].
      * assert (c0 <> c). { intros ->. assert (s0 = s) by congruence. subst. congruence. }
        exists s0. rewrite upd_neq by auto. auto.
      * destruct (Nat.eq_dec c0 c) as [->|N2].
        -- rewrite upd_eq in B1. injection B1 as <-. discriminate.
        -- rewrite upd_neq in B1 by auto. eauto.
  - apply (ie_nodup _ _ I).
  - intros k. rewrite (ie_kern _ _ I). split; intros [s0 [B1 [B2 [B3 [B4 B5]]]]].
    + assert (k_cid k <> c). { intros E. rewrite E in B1. assert (s0 = s) by congruence. subst. congruence. }
      exists s0. rewrite upd_neq by auto. auto.
    + destruct (Nat.eq_dec (k_cid k) c) as [E|N].
      * rewrite E, upd_eq in B1. injection B1 as <-. discriminate.
      * rewrite upd_neq in B1 by auto. eauto 10.
  - apply (ie_kerr _ _ I).
  - apply (ie_cap _ _ I).
  - apply (ie_capmin _ _ I).
Qed.

(* changing an unregistered object (construct / destroy) touches neither the map nor the kernel *)
Lemma invE_unreg : forall st sp c o s,
  InvE st sp -> (forall s0, sp c = Some s0 -> s_reg s0 = false) ->
  rel_obj idx_okE o s -> (forall s1, s = Some s1 -> s_reg s1 = false) ->
  InvE (ep_set_objs st (upd (e_objs st) c o)) (upd sp c s).
Proof.
  intros st sp c o s I U RO U'. constructor; cbn [e_objs e_map e_kern e_cap e_kerr ep_set_objs].
  - intros c0. destruct (Nat.eq_dec c0 c) as [->|N].
    + now rewrite !upd_eq.
    + rewrite !upd_neq by auto. apply (ie_obj _ _ I).
  - intros f c0. rewrite (ie_map _ _ I). split; intros [s0 [B1 [B2 B3]]].
    + assert (c0 <> c). { intros ->. apply U in B1. congruence. }
      exists s0. rewrite upd_neq by auto. auto.
    + destruct (Nat.eq_dec c0 c) as [->|N].
      * rewrite upd_eq in B1. apply U' in B1. congruence.
      * rewrite upd_neq in B1 by auto. eauto.
  - apply (ie_nodup _ _ I).
  - intros k. rewrite (ie_kern _ _ I). split; intros [s0 [B1 [B2 [B3 [B4 B5]]]]].
    + assert (k_cid k <> c). { intros E. rewrite E in B1. apply U in B1. congruence. }
      exists s0. rewrite upd_neq by auto. auto.
    + destruct (Nat.eq_dec (k_cid k) c) as [E|N].
      * rewrite E, upd_eq in B1. apply U' in B1. congruence.
      * rewrite upd_neq in B1 by auto. eauto 10.
  - apply (ie_kerr _ _ I).
  - apply (ie_cap _ _ I).
  - apply (ie_capmin _ _ I).
Qed.

Lemma ep_new_ok : forall st sp c f, InvE st sp -> sguard sp (New c f) ->
  exists st', ep_step se st (New c f) = Ok (st', []) /\ InvE st' (spec_step sp (New c f)).
Proof.
  intros st sp c f I G. cbn in G.
  pose proof (ie_obj _ _ I c) as RO. rewrite G in RO. apply rel_obj_none in RO.
  cbn [ep_step spec_step]. rewrite RO. eexists. split; [reflexivity|].
  apply invE_unreg; auto.
  - intros s0 H. congruence.
  - cbn. rewrite kNone0. repeat split. left. cbn. rewrite kNew_m1. auto.
  - intros s1 H. injection H as <-. reflexivity.
Qed.

Lemma ep_del_ok : forall st sp c, InvE st sp -> sguard sp (Del c) ->
  exists st', ep_step se st (Del c) = Ok (st', []) /\ InvE st' (spec_step sp (Del c)).
Proof.
  intros st sp c I [s [Hs R]].
  pose proof (ie_obj _ _ I c) as RO. rewrite Hs in RO. apply rel_obj_some in RO.
  destruct RO as [ch [Ho [Efd [Eev [Ead OK]]]]].
  cbn [ep_step spec_step]. rewrite Ho. replace (added ch) with false by congruence.
  eexists. split; [reflexivity|].
  apply invE_unreg; auto.
  - intros s0 H. congruence.
  - cbn. auto.
  - intros s1 H. discriminate.
Qed.

(* ---- Poll under epoll -------------------------------------------------------------------------- *)
Lemma ep_full_in : forall st sp ready c r, InvE st sp ->
  (In (c, r) (ep_full st ready) <-> spec_reports sp ready c r).
Proof.
  intros st sp ready c r I. unfold ep_full, spec_reports. rewrite in_flat_map. split.
  - intros [k [HI H]]. apply (ie_kern _ _ I) in HI. destruct HI as [s [B1 [B2 [B3 [B4 B5]]]]].
    unfold revents_of in H. destruct (N.eqb_spec (N.land (ready (k_fd k)) (N.lor (k_ev k) EHN)) 0) as [E|E];
      [contradiction|]. destruct H as [H|[]]. injection H as <- <-.
    exists s. rewrite <- B4, <- B5. repeat split; auto. congruence.
  - intros [s [B1 [B2 [B3 [B4 B5]]]]]. exists (mkKent (s_fd s) (s_ev s) c). split.
    + apply (ie_kern _ _ I). cbn. exists s. auto.
    + cbn. unfold revents_of. rewrite <- B4. destruct (N.eqb_spec r 0); [contradiction|]. now left.
Qed.

Lemma ep_full_nodup : forall st sp ready, InvE st sp -> NoDup (map fst (ep_full st ready)).
Proof.
  intros st sp ready I.
  assert (H : forall l, NoDup (map k_fd l) -> (forall k, In k l -> In k (e_kern st)) ->
          NoDup (map fst (flat_map (fun k => let r := revents_of ready (k_fd k) (k_ev k) in
                                             if N.eqb r 0 then [] else [(k_cid k, r)]) l))).
  { induction l as [|k t IH]; intros ND Sub; cbn; [constructor|].
    inversion ND as [|x y Hn ND']; subst.
    assert (IHt : NoDup (map fst (flat_map (fun k => let r := revents_of ready (k_fd k) (k_ev k) in
                                             if N.eqb r 0 then [] else [(k_cid k, r)]) t))).
    { apply IH; auto. intros k0 H0. apply Sub. now right. }
    destruct (N.eqb (revents_of ready (k_fd k) (k_ev k)) 0); cbn; [exact IHt|].
    constructor; [|exact IHt].
    intros HI. apply in_map_iff in HI. destruct HI as [[c0 r0] [E HI]]. cbn in E. subst c0.
    apply in_flat_map in HI. destruct HI as [k2 [HI2 H2]].
    destruct (N.eqb (revents_of ready (k_fd k2) (k_ev k2)) 0); [contradiction|].
    destruct H2 as [H2|[]]. injection H2 as E2 _.
    assert (K1 : In k (e_kern st)) by (apply Sub; now left).
    assert (K2 : In k2 (e_kern st)) by (apply Sub; now right).
    apply (ie_kern _ _ I) in K1. apply (ie_kern _ _ I) in K2.
    destruct K1 as [s1 [B1 [_ [_ [B4 _]]]]]. destruct K2 as [s2 [C1 [_ [_ [C4 _]]]]].
    rewrite E2 in C1. assert (s1 = s2) by congruence. subst.
    apply Hn. rewrite B4, <- C4. now apply in_map. }
  apply H; [apply (ie_nodup _ _ I)|auto].
Qed.

Lemma ep_fill_ok_full : forall st sp ready cr, InvE st sp -> In cr (ep_full st ready) -> ep_fill_ok st cr = true.
Proof.
  intros st sp ready [c r] I HI. apply (ep_full_in _ _ _ _ _ I) in HI.
  destruct HI as [s [B1 [B2 _]]]. unfold ep_fill_ok. cbn [fst].
  pose proof (ie_obj _ _ I c) as RO. rewrite B1 in RO. apply rel_obj_some in RO.
  destruct RO as [ch [Ho [Efd _]]]. rewrite Ho.
  assert (Hm : e_map st (fd ch) = Some c). { apply (ie_map _ _ I). exists s. auto. }
  rewrite Hm. apply Nat.eqb_refl.
Qed.

Definition ep_next_cap (st : ep) (nfull : nat) : nat :=
  if Nat.leb (e_cap st) nfull then grow_factor * e_cap st else e_cap st.

Lemma ep_poll_ok : forall st sp ready choice, InvE st sp ->
  exists act rest,
    ep_step se st (Poll ready choice) =
      Ok (mkEp (e_objs st) (e_map st) (e_kern st) (ep_next_cap st (length (ep_full st ready))) (e_kerr st), act) /\
    Permutation (ep_full st ready) (act ++ rest) /\
    length act = Nat.min (length (ep_full st ready)) (e_cap st).
Proof.
  intros st sp ready choice I. cbn [ep_step]. unfold ep_poll.
  set (full := ep_full st ready). set (n := Nat.min (length full) (e_cap st)).
  destruct (pick_spec _ n choice full) as [rest [HP HL]]; [unfold n; lia|].
  exists (pick n choice full), rest.
  assert (F : forallb (ep_fill_ok st) (pick n choice full) = true).
  { apply forallb_forall. intros cr HI. eapply ep_fill_ok_full; eauto.
    eapply Permutation_in; [apply Permutation_sym; exact HP|]. apply in_or_app. now left. }
  rewrite F. split; [|split; auto].
  f_equal. f_equal. f_equal. unfold ep_next_cap. pose proof (ie_cap _ _ I) as CP.
  destruct (Nat.leb_spec (e_cap st) (length full)) as [L|L].
  - assert (n = e_cap st) by (unfold n; lia). rewrite H, Nat.eqb_refl.
    destruct (Nat.ltb_spec 0 (e_cap st)); [reflexivity|lia].
  - assert (n = length full) by (unfold n; lia).
    destruct (Nat.eqb_spec n (e_cap st)); [lia|]. now rewrite andb_false_r.
Qed.

Lemma invE_cap : forall st sp cap, InvE st sp -> e_cap st <= cap ->
  InvE (mkEp (e_objs st) (e_map st) (e_kern st) cap (e_kerr st)) sp.
Proof. intros st sp cap I H. destruct I. constructor; auto; cbn [e_cap] in *; lia. Qed.

Lemma ep_next_cap_ge : forall st n, e_cap st <= ep_next_cap st n.
Proof.
  intros. unfold ep_next_cap. pose proof grow_factor_ge2. destruct (Nat.leb (e_cap st) n); nia.
Qed.
Lemma ep_next_cap_pos : forall st n, 0 < e_cap st -> 0 < ep_next_cap st n.
Proof. intros st n H. pose proof (ep_next_cap_ge st n). lia. Qed.

(* a violated precondition of the Channel API is rejected, whatever else *)
Lemma ep_rejected : forall st sp o, InvE st sp -> ~ sguard sp o -> ep_step se st o = Rejected.
Proof.
  intros st sp o I NG. destruct o as [c f|c|u c|c|ready choice]; cbn in NG.
  - cbn [ep_step]. pose proof (ie_obj _ _ I c) as RO.
    destruct (sp c) as [s|] eqn:Hs; [|congruence].
    apply rel_obj_some in RO. destruct RO as [ch [Ho _]]. now rewrite Ho.
  - cbn [ep_step]. pose proof (ie_obj _ _ I c) as RO.
    destruct (sp c) as [s|] eqn:Hs.
    + apply rel_obj_some in RO. destruct RO as [ch [Ho [_ [_ [Ead _]]]]]. rewrite Ho.
      destruct (added ch) eqn:A; [auto|]. exfalso. apply NG. exists s. split; congruence.
    + apply rel_obj_none in RO. now rewrite RO.
  - cbn [ep_step]. pose proof (ie_obj _ _ I c) as RO.
    destruct (sp c) as [s|] eqn:Hs.
    + apply rel_obj_some in RO. destruct RO as [ch [Ho [Efd [Eev [Ead OK]]]]]. rewrite Ho.
      destruct (s_reg s) eqn:R. { exfalso. apply NG. exists s. auto. }
      destruct OK as [[A1 A2]|[[A1 _]|[A1 _]]]; [|congruence|congruence].
      destruct (e_map st (fd ch)) as [c0|] eqn:Hm.
      * unfold ep_updateChannel. cbn [e_objs ep_set_objs]. rewrite upd_eq. cbn [index fd].
        rewrite A2, Z.eqb_refl. cbn [orb e_map ep_set_objs fd]. rewrite Hm. reflexivity.
      * exfalso. apply NG. exists s. split; [auto|]. right. intros [c0 [s0 [B1 [B2 B3]]]].
        assert (e_map st (fd ch) = Some c0). { apply (ie_map _ _ I). exists s0. repeat split; auto. congruence. }
        congruence.
    + apply rel_obj_none in RO. now rewrite RO.
  - cbn [ep_step]. unfold ep_removeChannel. pose proof (ie_obj _ _ I c) as RO.
    destruct (sp c) as [s|] eqn:Hs.
    + apply rel_obj_some in RO. destruct RO as [ch [Ho [Efd [Eev [Ead OK]]]]]. rewrite Ho.
      destruct (isNone ch) eqn:HN; [|reflexivity]. cbn [negb].
      apply isNone_iff in HN.
      destruct (e_map st (fd ch)) as [c0|] eqn:Hm; [|reflexivity].
      destruct (Nat.eqb_spec c0 c) as [->|N]; [|reflexivity].
      exfalso. apply NG. apply (ie_map _ _ I) in Hm. destruct Hm as [s0 [B1 [B2 B3]]].
      assert (s0 = s) by congruence. subst. exists s. repeat split; auto. congruence.
    + apply rel_obj_none in RO. now rewrite RO.
  - exfalso. apply NG. exact Logic.I.
Qed.

(* ---- reachability and the refinement statement for epoll ------------------------------------- *)
Inductive reachE : ep -> spec -> Prop :=
| reachE_init : reachE ep_init spec0
| reachE_step : forall st sp o st' act, reachE st sp -> sguard sp o -> eextra se sp o ->
    ep_step se st o = Ok (st', act) -> reachE st' (spec_step sp o).

Lemma ep_step_ok : forall st sp o, InvE st sp -> sguard sp o -> eextra se sp o ->
  exists st' act, ep_step se st o = Ok (st', act) /\ InvE st' (spec_step sp o).
Proof.
  intros st sp o I G CL. destruct o as [c f|c|u c|c|ready choice].
  - destruct (ep_new_ok _ _ _ _ I G) as [st' [E I']]. eauto.
  - destruct (ep_del_ok _ _ _ I G) as [st' [E I']]. eauto.
  - destruct (ep_upd_ok _ _ _ _ I G CL) as [st' [E I']]. eauto.
  - destruct (ep_remove_ok _ _ _ I G) as [st' [E I']]. eauto.
  - destruct (ep_poll_ok _ _ ready choice I) as [act [rest [E _]]]. eexists _, _. split; [exact E|].
    cbn [spec_step]. apply invE_cap; auto. apply ep_next_cap_ge.
Qed.

Lemma reachE_inv : forall st sp, reachE st sp -> InvE st sp.
Proof.
  induction 1 as [|st sp o st' act R IH G CL E]; [apply invE_init|].
  destruct (ep_step_ok _ _ _ IH G CL) as [st2 [act2 [E2 I2]]]. congruence.
Qed.

Lemma reachE_refines : forall st sp, reachE st sp ->
  forall o,
    (sguard sp o -> eextra se sp o ->
       exists st' act, ep_step se st o = Ok (st', act) /\ reachE st' (spec_step sp o) /\
         e_kerr st' = 0 /\
         match o with
         | Poll ready choice =>
             (* what the kernel had ready is exactly what the interest map says; the reported list is a
                duplicate-free part of it with min(n, cap) entries; the array grows when filled *)
             (forall c r, In (c, r) (ep_full st ready) <-> spec_reports sp ready c r) /\
             NoDup (map fst (ep_full st ready)) /\
             (exists rest, Permutation (ep_full st ready) (act ++ rest)) /\
             length act = Nat.min (length (ep_full st ready)) (e_cap st) /\
             e_cap st' = ep_next_cap st (length (ep_full st ready)) /\
             e_objs st' = e_objs st /\ e_map st' = e_map st /\ e_kern st' = e_kern st
         | _ => act = []
         end) /\
    (~ sguard sp o -> ep_step se st o = Rejected).
Proof.
  intros st sp R o. pose proof (reachE_inv _ _ R) as I. split.
  - intros G CL. destruct (ep_step_ok _ _ _ I G CL) as [st' [act [E I']]].
    exists st', act. split; [exact E|]. split; [econstructor; eauto|]. split; [apply (ie_kerr _ _ I')|].
    destruct o as [c f|c|u c|c|ready choice].
    + destruct (ep_new_ok _ _ _ _ I G) as [st2 [E2 _]]. congruence.
    + destruct (ep_del_ok _ _ _ I G) as [st2 [E2 _]]. congruence.
    + destruct (ep_upd_ok _ _ _ _ I G CL) as [st2 [E2 _]]. congruence.
    + destruct (ep_remove_ok _ _ _ I G) as [st2 [E2 _]]. congruence.
    + destruct (ep_poll_ok _ _ ready choice I) as [act2 [rest [E2 [HP HL]]]].
      rewrite E2 in E. injection E as <- <-.
      split; [intros; now apply ep_full_in|]. split; [eapply ep_full_nodup; eauto|].
      split; [eauto|]. split; [auto|]. cbn. auto.
  - apply ep_rejected; auto.
Qed.

(* no history meeting the preconditions (and free of redundant disables) faults or makes epoll_ctl fail *)
Lemma reachE_no_fault : forall st sp o, reachE st sp -> eextra se sp o -> ep_step se st o <> Fault.
Proof.
  intros st sp o R CL. pose proof (reachE_inv _ _ R) as I.
  assert (D : sguard sp o \/ ~ sguard sp o).
  { destruct o as [c f|c|u c|c|ready choice]; cbn.
    - destruct (sp c); [right; discriminate|left; auto].
    - destruct (sp c) as [s|]; [|right; intros [s [H _]]; discriminate].
      destruct (s_reg s) eqn:E; [right; intros [s0 [H H2]]; congruence|left; eauto].
    - (* decided by what the model does *)
      destruct (ep_step se st (Upd u c)) eqn:E.
      + destruct (sp c) as [s|] eqn:Hs.
        * destruct (s_reg s) eqn:Rg; [left; eauto|].
          pose proof (ie_obj _ _ I c) as RO. rewrite Hs in RO. apply rel_obj_some in RO.
          destruct RO as [ch [Ho [Efd [Eev [Ead OK]]]]].
          destruct (e_map st (fd ch)) as [c0|] eqn:Hm.
          -- right. intros [s0 [H [H2|H2]]]; [congruence|]. apply H2.
             apply (ie_map _ _ I) in Hm. destruct Hm as [s1 [B1 [B2 B3]]].
             exists c0, s1. repeat split; auto. congruence.
          -- left. exists s. split; [auto|]. right. intros [c0 [s0 [B1 [B2 B3]]]].
             assert (e_map st (fd ch) = Some c0). { apply (ie_map _ _ I). exists s0. repeat split; auto. congruence. }
             congruence.
        * right. intros [s [H _]]. discriminate.
      + right. intros G. destruct (ep_upd_ok _ _ _ _ I G CL) as [st2 [E2 _]]. congruence.
      + right. intros G. destruct (ep_upd_ok _ _ _ _ I G CL) as [st2 [E2 _]]. congruence.
    - destruct (sp c) as [s|]; [|right; intros [s [H _]]; discriminate].
      destruct (s_reg s) eqn:E; [|right; intros [s0 [H [H2 _]]]; congruence].
      destruct (N.eq_dec (s_ev s) 0); [left; eauto|right; intros [s0 [H [_ H3]]]; congruence].
    - left. exact Logic.I. }
  destruct D as [G|NG].
  - destruct (ep_step_ok _ _ _ I G CL) as [st' [act [E _]]]. congruence.
  - rewrite (ep_rejected _ _ _ I NG). discriminate.
Qed.

End Epoll.

(* ---- dispatch ------------------------------------------------------------------------------------ *)
Lemma has_true : forall r m, has r m = true <-> N.land r m <> 0%N.
Proof. intros. unfold has. destruct (N.eqb_spec (N.land r m) 0); cbn; intuition congruence. Qed.

Lemma dispatch_sound : forall r,
  (In CbRead (dispatch r) <-> N.land r (N.lor POLLIN (N.lor POLLPRI POLLRDHUP)) <> 0%N) /\
  (In CbWrite (dispatch r) <-> N.land r POLLOUT <> 0%N) /\
  (In CbClose (dispatch r) <-> N.land r POLLHUP <> 0%N /\ N.land r POLLIN = 0%N) /\
  (In CbError (dispatch r) <-> N.land r (N.lor POLLERR POLLNVAL) <> 0%N).
Proof.
  intros r. unfold dispatch. rewrite <- !has_true.
  assert (HI : N.land r POLLIN = 0%N <-> has r POLLIN = false).
  { unfold has. destruct (N.eqb_spec (N.land r POLLIN) 0); cbn; intuition congruence. }
  rewrite HI.
  destruct (has r POLLHUP), (has r POLLIN), (has r (N.lor POLLERR POLLNVAL)),
    (has r (N.lor POLLIN (N.lor POLLPRI POLLRDHUP))), (has r POLLOUT); cbn;
    repeat split; intros; repeat match goal with H : _ \/ _ |- _ => destruct H | H : _ /\ _ |- _ => destruct H end;
    try discriminate; try contradiction; auto 6.
Qed.

(* the callbacks of one channel always come in the order close, error, read, write *)
Lemma dispatch_order : forall r, exists a b c d : bool,
  dispatch r = (if a then [CbClose] else []) ++ (if b then [CbError] else []) ++
               (if c then [CbRead] else []) ++ (if d then [CbWrite] else []).
Proof. intros r. unfold dispatch. eexists _, _, _, _. reflexivity. Qed.

(* a reported condition that the kernel only reports on request was requested and holds *)
Lemma reported_requested : forall a e m, N.land EHN m = 0%N ->
  N.land (N.land a (N.lor e EHN)) m <> 0%N -> N.land e m <> 0%N /\ N.land a m <> 0%N.
Proof.
  intros a e m H0 H.
  assert (E : N.land (N.land a (N.lor e EHN)) m = N.land a (N.land e m)).
  { rewrite <- N.land_assoc. f_equal. rewrite N.land_lor_distr_l, H0. apply N.lor_0_r. }
  rewrite E in H. split; intros Z; apply H.
  - rewrite Z. apply N.land_0_r.
  - rewrite (N.land_comm e m), N.land_assoc, Z. apply N.land_0_l.
Qed.
Lemma reported_holds : forall a e m, N.land (N.land a (N.lor e EHN)) m <> 0%N -> N.land a m <> 0%N.
Proof.
  intros a e m H Z. apply H. rewrite <- N.land_assoc, (N.land_comm (N.lor e EHN) m), N.land_assoc, Z.
  apply N.land_0_l.
Qed.

(* ---- growth bound --------------------------------------------------------------------------------- *)
Section EpollGrowth.
Variable se : bool.
Lemma ep_full_kern : forall st st' ready, e_kern st' = e_kern st -> ep_full st' ready = ep_full st ready.
Proof. intros. unfold ep_full. now rewrite H. Qed.

Lemma ep_polls_grow : forall choices st sp ready,
  InvE st sp ->
  length (ep_full st ready) < e_cap st * 2 ^ length choices ->
  exists st' outs, ep_run se st (map (Poll ready) choices) = Ok (st', outs) /\
     InvE st' sp /\ e_kern st' = e_kern st /\ length (ep_full st ready) < e_cap st'.
Proof.
  induction choices as [|ch t IH]; intros st sp ready I H.
  - cbn [length Nat.pow] in H. rewrite Nat.mul_1_r in H. cbn [map ep_run]. exists st, []. split; [reflexivity|]. split; [exact I|]. split; [reflexivity|exact H].
  - cbn [map ep_run length] in *.
    destruct (ep_poll_ok se _ _ ready ch I) as [act [rest [E _]]]. rewrite E. cbn [bind fst snd].
    set (st1 := mkEp (e_objs st) (e_map st) (e_kern st) (ep_next_cap st (length (ep_full st ready))) (e_kerr st)).
    assert (I1 : InvE st1 sp). { apply invE_cap; auto. apply ep_next_cap_ge. }
    assert (F1 : ep_full st1 ready = ep_full st ready) by (apply ep_full_kern; reflexivity).
    destruct (IH st1 sp ready I1) as [st' [outs [E' [I' [K' C']]]]].
    { rewrite F1. unfold st1. cbn [e_cap]. unfold ep_next_cap. pose proof grow_factor_ge2 as G2.
      pose proof (ie_cap _ _ I) as CP.
      assert (P : 0 < 2 ^ length t) by (apply Nat.neq_0_lt_0, Nat.pow_nonzero; lia).
      cbn [Nat.pow] in H. remember (2 ^ length t) as p. remember (e_cap st) as cp.
      remember (length (ep_full st ready)) as n.
      destruct (Nat.leb_spec cp n).
      - assert (2 * cp * p <= grow_factor * cp * p).
        { apply Nat.mul_le_mono_r. apply Nat.mul_le_mono_r. exact G2. }
        lia.
      - assert (cp * 1 <= cp * p) by (apply Nat.mul_le_mono_l; lia). lia. }
    rewrite E'. cbn [bind fst snd]. eexists _, _. split; [reflexivity|].
    rewrite F1 in C'. split; [exact I'|]. split; [|exact C']. rewrite K'. reflexivity.
Qed.

(* every ready channel is reported by the poll that follows: the array is larger than their number *)
Lemma ep_polls_report_all : forall choices choice st sp ready,
  InvE st sp ->
  length (ep_full st ready) < e_cap st * 2 ^ length choices ->
  exists st' outs st'' act, ep_run se st (map (Poll ready) choices) = Ok (st', outs) /\
     ep_step se st' (Poll ready choice) = Ok (st'', act) /\ Permutation (ep_full st ready) act.
Proof.
  intros choices choice st sp ready I H.
  destruct (ep_polls_grow choices st sp ready I H) as [st' [outs [E [I' [K C]]]]].
  destruct (ep_poll_ok se st' sp ready choice I') as [act [rest [E2 [HP HL]]]].
  rewrite (ep_full_kern st st' ready K) in HP, HL.
  exists st', outs. eexists _, act. split; [exact E|]. split; [exact E2|].
  assert (rest = []).
  { apply Permutation_length in HP. rewrite app_length, HL in HP. destruct rest; [auto|cbn in HP; lia]. }
  subst. now rewrite app_nil_r in HP.
Qed.

(* from ANY reachable state the array has at least its initial (generated) size *)
Lemma reachE_polls_report_all : forall choices choice st sp ready,
  reachE se st sp ->
  length (ep_full st ready) < kInitEventListSize * 2 ^ length choices ->
  exists st' outs st'' act, ep_run se st (map (Poll ready) choices) = Ok (st', outs) /\
     ep_step se st' (Poll ready choice) = Ok (st'', act) /\ Permutation (ep_full st ready) act.
Proof.
  intros choices choice st sp ready R H. pose proof (reachE_inv se _ _ R) as I.
  apply (ep_polls_report_all choices choice st sp ready I).
  pose proof (ie_capmin _ _ I) as CM.
  assert (kInitEventListSize * 2 ^ length choices <= e_cap st * 2 ^ length choices) by (apply Nat.mul_le_mono_r; exact CM).
  lia.
Qed.

End EpollGrowth.

(* ---- the generated growth guard of EPollPoller::poll (Gen_C09, translated from the AST) ------------ *)
Lemma ep_grow_link : forall n cap,
  Z.of_nat (if Nat.ltb 0 n && Nat.eqb n cap then grow_factor * cap else cap) =
  if EPollPoller_poll_grow_guard (Z.of_nat n) (Z.of_nat cap)
  then EPollPoller_poll_new_size (Z.of_nat cap) else Z.of_nat cap.
Proof.
  intros n cap. unfold EPollPoller_poll_grow_guard, EPollPoller_poll_new_size.
  pose proof grow_factor_Z as GZ. unfold EPollPoller_grow_factor in GZ.
  destruct (Nat.ltb_spec 0 n), (Nat.eqb_spec n cap); cbn [andb];
    repeat match goal with
    | |- context [Z.gtb ?a ?b] => destruct (Z.gtb_spec a b)
    | |- context [Z.geb ?a ?b] => destruct (Z.geb_spec a b)
    | |- context [Z.ltb ?a ?b] => destruct (Z.ltb_spec a b)
    | |- context [Z.leb ?a ?b] => destruct (Z.leb_spec a b)
    | |- context [Z.eqb ?a ?b] => destruct (Z.eqb_spec a b)
    end; cbn [andb orb negb]; try rewrite Nat2Z.inj_mul; nia.
Qed.

(* what EPollPoller::poll does to events_.size(): exactly the generated guard on numEvents = the number
   of entries epoll_wait returned *)
Lemma ep_poll_cap_generated : forall se st ready choice st' act,
  ep_step se st (Poll ready choice) = Ok (st', act) ->
  Z.of_nat (e_cap st') =
  if EPollPoller_poll_grow_guard (Z.of_nat (length act)) (Z.of_nat (e_cap st))
  then EPollPoller_poll_new_size (Z.of_nat (e_cap st)) else Z.of_nat (e_cap st).
Proof.
  intros se st ready choice st' act E. cbn [ep_step] in E. unfold ep_poll in E.
  set (full := ep_full st ready) in *. set (n := Nat.min (length full) (e_cap st)) in *.
  destruct (forallb (ep_fill_ok st) (pick n choice full)); [|discriminate].
  injection E as <- <-. cbn [e_cap].
  destruct (pick_spec _ n choice full) as [rest [_ HL]]; [unfold n; lia|].
  rewrite HL. apply ep_grow_link.
Qed.

(* ---- the generated dispatch of Channel::handleEventWithGuard and the tie_ guard -------------------- *)
(* the function translated from the if-statements of Channel.cc IS the model's dispatch: a mask edited
   in Channel.cc changes Gen_C09 and breaks this lemma *)
Lemma dispatch_link : forall r, map cb_of_code (Channel_handleEventWithGuard_calls r) = dispatch r.
Proof.
  intros r. unfold Channel_handleEventWithGuard_calls, dispatch, Channel_has, has.
  change (N.lor POLLERR POLLNVAL) with 40%N.
  change (N.lor POLLIN (N.lor POLLPRI POLLRDHUP)) with 8195%N.
  change POLLHUP with 16%N. change POLLIN with 1%N. change POLLOUT with 4%N.
  repeat match goal with
  | |- context [N.eqb (N.land r ?m) 0] => destruct (N.eqb (N.land r m) 0)
  end; reflexivity.
Qed.

Lemma tie_link : forall tied alive, Channel_handleEvent_runs tied alive = handle_runs tied alive.
Proof. intros [|] [|]; reflexivity. Qed.
Lemma tie_guard_is_lock : Channel_handleEvent_guard_is_tie_lock = true.
Proof. reflexivity. Qed.

(* Channel::handleEvent in terms of the two generated functions *)
Lemma handle_event_generated : forall tied alive r,
  handle_event tied alive r =
  if Channel_handleEvent_runs tied alive then map cb_of_code (Channel_handleEventWithGuard_calls r) else [].
Proof. intros. unfold handle_event. now rewrite tie_link, dispatch_link. Qed.

(* a tied channel whose owner is gone runs no callback at all; otherwise exactly dispatch *)
Lemma handle_event_tie : forall tied alive r,
  (tied = true -> alive = false -> handle_event tied alive r = []) /\
  (tied = false \/ alive = true -> handle_event tied alive r = dispatch r).
Proof.
  intros tied alive r. unfold handle_event, handle_runs. split.
  - intros -> ->. reflexivity.
  - intros [->| ->]; [reflexivity|]. destruct tied; reflexivity.
Qed.

(* ---- the epoll back-end of the CURRENT tree (F-14 fixed, a5a0563): preconditions only -------------------
   The generated fact says EPollPoller::updateChannel ADDs a channel only when its interest is not empty
   and otherwise just records it (kDeleted); reverting the fix flips the fact and breaks this lemma. *)
Lemma add_skips_current : EPollPoller_add_skips_empty_interest = true.
Proof. reflexivity. Qed.

Lemma ep_step_current_eq : forall st o, ep_step_current st o = ep_step true st o.
Proof. intros. unfold ep_step_current. now rewrite add_skips_current. Qed.
Lemma ep_run_current_eq : forall ops st, ep_run_current st ops = ep_run true st ops.
Proof. intros. unfold ep_run_current. now rewrite add_skips_current. Qed.

Inductive reachEC : ep -> spec -> Prop :=
| reachEC_init : reachEC ep_init spec0
| reachEC_step : forall st sp o st' act, reachEC st sp -> sguard sp o ->
    ep_step_current st o = Ok (st', act) -> reachEC st' (spec_step sp o).

Lemma reachEC_reachE : forall st sp, reachEC st sp -> reachE true st sp.
Proof.
  induction 1 as [|st sp o st' act R IH G E]; [constructor|].
  rewrite ep_step_current_eq in E. econstructor; eauto. apply eextra_true.
Qed.
Lemma reachE_reachEC : forall st sp, reachE true st sp -> reachEC st sp.
Proof.
  induction 1 as [|st sp o st' act R IH G _ E]; [constructor|].
  econstructor; eauto; now rewrite ep_step_current_eq.
Qed.
Lemma reachEC_inv : forall st sp, reachEC st sp -> InvE st sp.
Proof. intros st sp R. apply (reachE_inv true). now apply reachEC_reachE. Qed.

(* for ALL histories meeting the documented preconditions of the Channel API *)
Lemma reachEC_refines : forall st sp, reachEC st sp ->
  forall o,
    (sguard sp o ->
       exists st' act, ep_step_current st o = Ok (st', act) /\ reachEC st' (spec_step sp o) /\
         e_kerr st' = 0 /\
         match o with
         | Poll ready choice =>
             (forall c r, In (c, r) (ep_full st ready) <-> spec_reports sp ready c r) /\
             NoDup (map fst (ep_full st ready)) /\
             (exists rest, Permutation (ep_full st ready) (act ++ rest)) /\
             length act = Nat.min (length (ep_full st ready)) (e_cap st) /\
             e_cap st' = ep_next_cap st (length (ep_full st ready)) /\
             e_objs st' = e_objs st /\ e_map st' = e_map st /\ e_kern st' = e_kern st
         | _ => act = []
         end) /\
    (~ sguard sp o -> ep_step_current st o = Rejected).
Proof.
  intros st sp R o. pose proof (reachEC_reachE _ _ R) as RE.
  destruct (reachE_refines true st sp RE o) as [A B]. split.
  - intros G. destruct (A G (eextra_true _ _)) as [st' [act [E [R' M]]]].
    exists st', act. rewrite ep_step_current_eq. split; [exact E|]. split; [now apply reachE_reachEC|exact M].
  - intros NG. rewrite ep_step_current_eq. now apply B.
Qed.

Lemma reachEC_no_fault : forall st sp o, reachEC st sp -> ep_step_current st o <> Fault.
Proof.
  intros st sp o R. rewrite ep_step_current_eq.
  apply (reachE_no_fault true st sp o (reachEC_reachE _ _ R) (eextra_true _ _)).
Qed.

Definition no_extra : spec -> op -> Prop := fun _ _ => True.

Lemma run_reachEC : forall ops st sp, reachEC st sp -> hist_ok no_extra sp ops ->
  exists st' outs, ep_run_current st ops = Ok (st', outs) /\ reachEC st' (spec_run sp ops).
Proof.
  induction ops as [|o t IH]; intros st sp R H.
  - exists st, []. split; [reflexivity|exact R].
  - destruct H as [G [_ H]].
    destruct (reachEC_refines st sp R o) as [A _]. destruct (A G) as [st1 [act [E [R1 _]]]].
    destruct (IH st1 (spec_step sp o) R1 H) as [st' [outs [E' R']]].
    unfold ep_run_current in *. cbn [ep_run]. unfold ep_step_current in E. rewrite E. cbn [bind fst snd].
    rewrite E'. cbn [bind fst snd]. eexists _, _. split; [reflexivity|exact R'].
Qed.

Lemma reachEC_polls_report_all : forall choices choice st sp ready,
  reachEC st sp ->
  length (ep_full st ready) < kInitEventListSize * 2 ^ length choices ->
  exists st' outs st'' act, ep_run_current st (map (Poll ready) choices) = Ok (st', outs) /\
     ep_step_current st' (Poll ready choice) = Ok (st'', act) /\ Permutation (ep_full st ready) act.
Proof.
  intros choices choice st sp ready R H.
  destruct (reachE_polls_report_all true choices choice st sp ready (reachEC_reachE _ _ R) H)
    as [st' [outs [st'' [act [A [B C]]]]]].
  exists st', outs, st'', act. rewrite ep_run_current_eq, ep_step_current_eq. auto.
Qed.

Lemma ep_polls_grow_current : forall choices st sp ready,
  InvE st sp ->
  length (ep_full st ready) < e_cap st * 2 ^ length choices ->
  exists st' outs, ep_run_current st (map (Poll ready) choices) = Ok (st', outs) /\
     InvE st' sp /\ e_kern st' = e_kern st /\ length (ep_full st ready) < e_cap st'.
Proof. intros. rewrite ep_run_current_eq. now apply ep_polls_grow. Qed.
