(* C05_EltProofs: EventLoopThread (C05_Model.estep) over all schedules: start-up handshake,
   destructor termination, lifetime of the stack-allocated loop. *)
From Coq Require Import List Bool Arith Lia.
Import ListNotations.
From Muduo Require Import C04_Model C04_Proofs C05_Model C05_Proofs.

Inductive ereach (es : eshape) (sh : shape) (scr : scripts) (e0 : elt) : elt -> Prop :=
| ereach0 : ereach es sh scr e0 e0
| ereachS : forall e lab e', ereach es sh scr e0 e -> estep es sh scr e lab = Some e' -> ereach es sh scr e0 e'.

Lemma erun_ereach : forall es sh scr labs e0 e, erun es sh scr e0 labs = Some e -> ereach es sh scr e0 e.
Proof.
  intros es sh scr labs e0 e H.
  assert (G : forall labs a b, ereach es sh scr e0 a -> erun es sh scr a labs = Some b -> ereach es sh scr e0 b).
  { induction labs0 as [|l r IH]; cbn; intros a b Ha Hr.
    - injection Hr as <-; exact Ha.
    - destruct (estep es sh scr a l) eqn:E; [|discriminate]. eapply IH; [|exact Hr]. econstructor; eauto. }
  eapply G; [constructor|exact H].
Qed.

(* case analysis of one step *)
Ltac einv H :=
  unfold estep, owner_step, child_step, with_ls, with_eo, with_ec, with_mtx in H;
  repeat match type of H with
         | context [match ?x with _ => _ end] => destruct x eqn:?; try discriminate; try congruence
         end;
  try (injection H as <-).

(* every step leaves the loop alone or is a step of the LoopModel (never a poll time-out) *)
Lemma estep_ls : forall es sh scr e lab e', estep es sh scr e lab = Some e' ->
  ls e' = ls e \/ exists l, l <> TSpur /\ step sh scr (ls e) l = Some (ls e').
Proof.
  intros es sh scr e lab e' H. destruct lab; einv H; cbn [ls]; auto;
    right; eexists; (split; [|eassumption]); discriminate.
Qed.

Lemma ereach_reach : forall es sh scr cb uacts e, ereach es sh scr (einit cb uacts) e ->
  reach sh scr (init cb [] [uacts; [AQuit]]) (ls e).
Proof.
  intros es sh scr cb uacts e R. induction R as [|e lab e' R IH H]; [constructor|].
  destruct (estep_ls _ _ _ _ _ _ H) as [->|(l & NL & S)]; [exact IH|]. econstructor; eauto.
Qed.

(* ---------------------------------------------------------------- the control skeleton *)
Definition c_ptr (c : cpc) : bool := match c with CUnlock1 | CLoop | CLock2 | CClear => true | _ => false end.
Definition c_alive (c : cpc) : bool :=
  match c with CNone | CStart | CCons | CExited => false | _ => true end.
Definition c_holds (c : cpc) : bool := match c with CPublish | CUnlock1 | CClear | CUnlock2 => true | _ => false end.
Definition o_holds (o : opc) : bool := match o with OTest | OUnlock => true | _ => false end.
Definition mtx_of (o : opc) (c : cpc) : option bool :=
  if o_holds o then Some true else if c_holds c then Some false else None.
Definition c_unstarted (c : cpc) : bool := match c with CNone | CStart => true | _ => false end.
Definition c_none (c : cpc) : bool := match c with CNone => true | _ => false end.
Definition o_init (o : opc) : bool := match o with OInit => true | _ => false end.
Definition c_after (c : cpc) : bool :=
  match c with CLock2 | CClear | CUnlock2 | CDestroy | CExited => true | _ => false end.
Definition c_published (c : cpc) : bool :=
  match c with CNone | CStart | CCons | CCallback | CLock1 | CPublish => false | _ => true end.
Definition c_pre (c : cpc) : bool :=
  match c with CStart | CCons | CCallback | CLock1 | CPublish => true | _ => false end.
Definition o_after_user (o : opc) : bool := match o with ODtor | OQuit | OJoin | ODone => true | _ => false end.
Definition o_startup (o : opc) : bool :=
  match o with OInit | OLatch | OLock | OTest | OWait | OUnlock => true | _ => false end.

Definition E1 (e : elt) : Prop :=
  ptr e = c_ptr (ec e) /\ alive e = c_alive (ec e) /\ mtx e = mtx_of (eo e) (ec e) /\
  o_holds (eo e) && c_holds (ec e) = false /\ tidpub e = negb (c_unstarted (ec e)) /\
  o_init (eo e) = c_none (ec e).

Lemma E1_step : forall es sh scr e lab e', tf_clears es = true -> E1 e -> estep es sh scr e lab = Some e' -> E1 e'.
Proof.
  intros es sh scr e lab e' TC (A1 & A2 & A3 & A4 & A5 & A6) H. unfold E1, mtx_free in *.
  destruct lab; einv H; cbn [ls eo ec ptr got alive mtx signalled tidpub uaf_user uaf_dtor] in *;
    repeat match goal with H : eo e = _ |- _ => rewrite H in * end;
    repeat match goal with H : ec e = _ |- _ => rewrite H in * end;
    repeat match goal with H : _ && _ = true |- _ => apply andb_true_iff in H as [? ?] end;
    repeat match goal with H : mtx_free e = _ |- _ => unfold mtx_free in H; rewrite A3 in H end;
    try (destruct (ec e); cbn in *; try discriminate; repeat split; try congruence; fail);
    try (destruct (eo e); cbn in *; try discriminate; repeat split; try congruence; fail).
Qed.

Lemma E1_reach : forall es sh scr cb uacts e, tf_clears es = true -> ereach es sh scr (einit cb uacts) e -> E1 e.
Proof.
  intros es sh scr cb uacts e TC R. induction R as [|e lab e' R IH H].
  - cbn. repeat split.
  - eapply E1_step; eauto.
Qed.

Lemma ereach_reach_t : forall es sh scr cb uacts e, ereach es sh scr (einit cb uacts) e ->
  reach_t sh scr (init cb [] [uacts; [AQuit]]) (ls e).
Proof. intros. apply reach_reach_t. eapply ereach_reach; eauto. Qed.

(* ---------------------------------------------------------------- handshake facts *)
Definition c_gone (c : cpc) : bool := match c with CDestroy | CExited => true | _ => false end.

Definition E2 (es : eshape) (e : elt) : Prop :=
  (c_after (ec e) = true -> returned (log (sg (ls e))) = true) /\
  (got e = Some true -> c_published (ec e) = true) /\
  (sl_while es = true -> got e <> Some false) /\
  (sl_while es = true -> eo e = OUnlock -> ptr e = true) /\
  (tf_notifies es = true -> eo e = OWait -> signalled e = false -> c_pre (ec e) = true \/ c_gone (ec e) = true).

Lemma E2_step : forall es sh scr e lab e', tf_clears es = true ->
  E1 e -> J4 (ls e) -> E2 es e -> estep es sh scr e lab = Some e' -> E2 es e'.
Proof.
  intros es sh scr e lab e' TC (A1 & A2 & A3 & A4 & A5 & A6) [_ J] (B1 & B2 & B3 & B4 & B5) H. unfold E2, mtx_free in *.
  destruct lab; einv H; cbn [ls eo ec ptr got alive mtx signalled tidpub uaf_user uaf_dtor] in *;
    repeat match goal with H : eo e = _ |- _ => rewrite H in * end;
    repeat match goal with H : ec e = _ |- _ => rewrite H in * end;
    repeat match goal with H : _ && _ = true |- _ => apply andb_true_iff in H as [? ?] end;
    repeat match goal with H : mtx_free e = _ |- _ => unfold mtx_free in H; rewrite A3 in H end;
    repeat match goal with
           | H : step _ _ (ls e) _ = Some ?l |- _ =>
               let M := fresh "M" in pose proof (proj2 (step_mono _ _ _ _ _ H)) as M; clear H
           end;
    repeat split; intros;
    try discriminate; try congruence; auto;
    try (destruct (ec e); cbn in *; try discriminate; try congruence; auto; fail);
    try (destruct (eo e); cbn in *; try discriminate; try congruence; auto; fail).
  - rewrite H in H1. destruct (signalled e); discriminate.
  - apply J. reflexivity.
Qed.

Lemma E2_reach : forall es sh scr cb uacts e, tf_clears es = true -> ereach es sh scr (einit cb uacts) e -> E2 es e.
Proof.
  intros es sh scr cb uacts e TC R. induction R as [|e lab e' R IH H].
  - cbn. repeat split; intros; try discriminate; auto.
  - eapply E2_step; eauto; [eapply E1_reach; eauto|]. eapply J4_reach. eapply ereach_reach_t; eauto.
Qed.

(* ---------------------------------------------------------------- the owner's code on the loop *)
Definition E3 (es : eshape) (e : elt) : Prop :=
  exists c0 c1, fcode (ls e) = [c0; c1] /\
    (o_after_user (eo e) = true -> c0 = []) /\
    (dtor_quits es = true -> eo e = OJoin -> c1 = []) /\
    (o_startup (eo e) = true \/ eo e = OUser \/ eo e = ODtor -> c1 = [MQuitStore]) /\
    (c1 = [MQuitStore] \/ (quit_called (log (sg (ls e))) = true /\ (c1 = [MQuitWake] \/ c1 = []))).

Lemma E3_step : forall es sh scr e lab e', E3 es e -> estep es sh scr e lab = Some e' -> E3 es e'.
Proof.
  intros es sh scr e lab e' (c0 & c1 & F & K1 & K2 & K3 & K4) H. unfold E3, fcode_at in *.
  destruct lab; einv H; cbn [ls eo ec ptr got alive mtx signalled tidpub uaf_user uaf_dtor] in *;
    repeat match goal with H : eo e = _ |- _ => rewrite H in * end;
    unfold fcode_at in *;
    repeat match goal with H : nth _ (fcode (ls e)) [] = _ |- _ => rewrite F in H; cbn in H end;
    try (exists c0, c1; repeat split; intros; try discriminate; auto;
         repeat match goal with H : _ \/ _ |- _ => destruct H end; try discriminate; auto; fail).
  all: match goal with
       | H : step _ _ _ (TF ?i) = Some ?l |- _ =>
           destruct (step_TF_frame _ _ _ _ _ H) as (_ & _ & _ & m' & rest & g' & c' & N & E & SG & FC);
           pose proof (proj1 (step_mono _ _ _ _ _ H)) as M
       | H : step _ _ _ ?lab = Some ?l |- _ =>
           pose proof (step_loop_frame _ _ _ lab _ ltac:(auto) H) as FC;
           pose proof (proj1 (step_mono _ _ _ _ _ H)) as M
       end.
  all: try (rewrite FC, F; exists c0, c1; repeat split; intros; try discriminate; auto;
            destruct K4 as [K4|[K4 K5]]; auto; fail).
  - (* user code: thread 0 *)
    rewrite F in N. cbn in N. injection N as ->. rewrite FC, F. cbn. exists c', c1.
    repeat split; intros; try discriminate; auto.
  - (* the destructor's quit(): thread 1 *)
    rewrite F in N. cbn in N. injection N as ->. rewrite FC, F. cbn.
    destruct K4 as [K4|[K4 [K5|K5]]]; try discriminate.
    + injection K4 as -> ->. cbn in E. injection E as <- <-. exists c0, [MQuitWake].
      repeat split; intros; try discriminate; auto;
        try (repeat match goal with H : _ \/ _ |- _ => destruct H end; discriminate).
      right. split; [|auto]. rewrite SG. cbn. rewrite quit_called_app. cbn. apply orb_true_r.
    + injection K5 as -> ->.
      assert (C' : c' = []) by (cbn in E; destruct (qwake sh false); injection E as <- <-; reflexivity).
      subst c'. exists c0, []. repeat split; intros; try discriminate; auto;
        try (repeat match goal with H : _ \/ _ |- _ => destruct H end; discriminate).
Qed.

Lemma E3_reach : forall es sh scr cb uacts e, ereach es sh scr (einit cb uacts) e -> E3 es e.
Proof.
  intros es sh scr cb uacts e R. induction R as [|e lab e' R IH H].
  - cbn. eexists _, _. split; [reflexivity|]. repeat split; intros; try discriminate; auto.
  - eapply E3_step; eauto.
Qed.

(* startLoop() has returned: its result was taken *)
Definition o_returned (o : opc) : bool :=
  match o with OUnlock | OUser | ODtor | OQuit | OJoin | ODone => true | _ => false end.
Definition E5 (es : eshape) (e : elt) : Prop :=
  o_returned (eo e) = true -> exists b, got e = Some b.

Lemma E5_step : forall es sh scr e lab e', E1 e -> E5 es e -> estep es sh scr e lab = Some e' -> E5 es e'.
Proof.
  intros es sh scr e lab e' (A1 & A2 & A3 & A4 & A5 & A6) B H. unfold E5 in *.
  destruct lab; einv H; cbn [ls eo ec ptr got alive mtx signalled tidpub uaf_user uaf_dtor] in *;
    repeat match goal with H : eo e = _ |- _ => rewrite H in * end;
    intros; try discriminate; eauto.
Qed.

Lemma E5_reach : forall es sh scr cb uacts e, tf_clears es = true -> ereach es sh scr (einit cb uacts) e -> E5 es e.
Proof.
  intros es sh scr cb uacts e TC R. induction R as [|e lab e' R IH H].
  - intros X; discriminate.
  - eapply E5_step; eauto. eapply E1_reach; eauto.
Qed.

(* ---------------------------------------------------------------- startLoop(): the handshake *)
Lemma step_code_defined : forall sh scr s m r, code_ctx (pc s) = true -> lcode s = m :: r ->
  exists s', step sh scr s TLoop = Some s'.
Proof.
  intros sh scr [g p lc ln fc] m r CC LC. cbn in CC, LC. subst lc. unfold step. cbn [sg pc lcode lnext fcode].
  destruct (exec_mop sh scr 0 true m r g) eqn:E.
  destruct p as [ | | | [|] | | [|? ?] | | ]; try discriminate; eexists; reflexivity.
Qed.

Lemma child_unconditional : forall es sh scr e, c_holds (ec e) = true -> exists e', estep es sh scr e EC = Some e'.
Proof.
  intros es sh scr e H. unfold estep, child_step. destruct (ec e); try discriminate; eexists; reflexivity.
Qed.

Theorem startloop_handshake : forall es sh scr cb uacts e,
  ereach es sh scr (einit cb uacts) e -> tf_clears es = true -> sl_while es = true ->
  (* what startLoop() returns is not null, and when it is taken the loop exists *)
  (forall b, got e = Some b -> b = true) /\
  (eo e = OUnlock -> ptr e = true /\ alive e = true) /\
  (* no lost notification: while nobody has ended the loop, an owner that waits unsignalled has a
     child that has not yet published (and will notify) *)
  (tf_notifies es = true -> returned (log (sg (ls e))) = false ->
   eo e = OWait -> signalled e = false -> c_pre (ec e) = true) /\
  (* and the pair is never blocked during start-up *)
  (tf_notifies es = true -> returned (log (sg (ls e))) = false -> o_startup (eo e) = true ->
   exists lab e', (lab = EO \/ lab = EC) /\ estep es sh scr e lab = Some e').
Proof.
  intros es sh scr cb uacts e R TC SW.
  pose proof (E1_reach _ _ _ _ _ _ TC R) as (A1 & A2 & A3 & A4 & A5 & A6).
  pose proof (E2_reach _ _ _ _ _ _ TC R) as (B1 & B2 & B3 & B4 & B5).
  assert (W : tf_notifies es = true -> returned (log (sg (ls e))) = false ->
              eo e = OWait -> signalled e = false -> c_pre (ec e) = true).
  { intros TN NR OW SG. destruct (B5 TN OW SG) as [X|X]; [exact X|].
    rewrite B1 in NR; [discriminate|]. destruct (ec e); try discriminate; reflexivity. }
  split; [|split; [|split; [exact W|]]].
  - intros [|] G; [reflexivity|]. exfalso. apply (B3 SW). exact G.
  - intros OU. pose proof (B4 SW OU) as P. split; [exact P|].
    rewrite A2. rewrite A1 in P. destruct (ec e); try discriminate; reflexivity.
  - intros TN NR ST. unfold mtx_free in *.
    destruct (eo e) eqn:HO; try discriminate.
    + (* OInit *) exists EO. unfold estep, owner_step. rewrite HO. cbn in A6.
      destruct (ec e); try discriminate. eexists; split; [left; reflexivity|reflexivity].
    + (* OLatch *) destruct (tidpub e) eqn:TP.
      * exists EO. unfold estep, owner_step. rewrite HO, TP. eexists; split; [left; reflexivity|reflexivity].
      * exists EC. unfold estep, child_step. cbn in A6. destruct (ec e); try discriminate.
        eexists; split; [right; reflexivity|reflexivity].
    + (* OLock *) destruct (c_holds (ec e)) eqn:CH.
      * destruct (child_unconditional es sh scr e CH) as [e' X]. exists EC, e'. auto.
      * exists EO. unfold estep, owner_step, mtx_free. rewrite HO, A3. unfold mtx_of. rewrite CH. cbn.
        eexists; split; [left; reflexivity|reflexivity].
    + (* OTest *) exists EO. unfold estep, owner_step. rewrite HO. destruct (ptr e); eexists; split; try reflexivity; auto.
    + (* OWait *) destruct (signalled e) eqn:SG.
      * destruct (c_holds (ec e)) eqn:CH.
        -- destruct (child_unconditional es sh scr e CH) as [e' X]. exists EC, e'. auto.
        -- exists EO. unfold estep, owner_step, mtx_free. rewrite HO, SG, A3. unfold mtx_of. rewrite CH. cbn.
           rewrite SW. eexists; split; [left; reflexivity|reflexivity].
      * pose proof (W TN NR eq_refl eq_refl) as CP. exists EC. unfold estep, child_step, mtx_free.
        rewrite A3. unfold mtx_of. cbn.
        destruct (ec e) eqn:HC; try discriminate; cbn; try (eexists; split; [right; reflexivity|reflexivity]).
        destruct (pc (ls e)) eqn:PC; try (eexists; split; [right; reflexivity|reflexivity]).
        destruct (lcode (ls e)) eqn:LC; try (eexists; split; [right; reflexivity|reflexivity]).
        destruct (exec_mop sh scr 0 true m l (sg (ls e))). eexists; split; [right; reflexivity|reflexivity].
    + (* OUnlock *) exists EO. unfold estep, owner_step. rewrite HO. eexists; split; [left; reflexivity|reflexivity].
Qed.

(* ---------------------------------------------------------------- ~EventLoopThread terminates *)
(* the whole destructor: exiting_ = true; the unlocked read; quit(); join.  Whenever the owner is
   inside it, some thread can step: the owner itself, or -- while it waits in join() -- the child,
   which is never stuck in a poll that only the time-out could end. *)
Theorem dtor_terminates : forall es sh scr cb uacts e,
  ereach es sh scr (einit cb uacts) e -> tf_clears es = true ->
  resets_on_entry sh = false -> qwake_ok sh = true -> dtor_quits es = true ->
  (eo e = ODtor \/ eo e = OQuit -> exists e', estep es sh scr e EO = Some e') /\
  (eo e = OJoin -> ec e = CExited -> exists e', estep es sh scr e EO = Some e' /\ eo e' = ODone) /\
  (eo e = OJoin -> ec e <> CExited ->
   exists lab e', (lab = EC \/ lab = ECRead) /\ estep es sh scr e lab = Some e').
Proof.
  intros es sh scr cb uacts e R TC RE QW DQ.
  pose proof (E1_reach _ _ _ _ _ _ TC R) as (A1 & A2 & A3 & A4 & A5 & A6).
  pose proof (E3_reach _ _ _ _ _ _ R) as (c0 & c1 & F & K1 & K2 & K3 & K4).
  pose proof (ereach_reach_t _ _ _ _ _ _ R) as RT.
  split; [|split].
  - intros [HO|HO]; unfold estep, owner_step; rewrite HO.
    + destruct (ptr e); [rewrite DQ|]; eexists; reflexivity.
    + unfold fcode_at. rewrite F. cbn. destruct c1 as [|m r]; [eexists; reflexivity|].
      unfold step. rewrite F. cbn. destruct (exec_mop sh scr 2 false m r (sg (ls e))). eexists; reflexivity.
  - intros HO HC. unfold estep, owner_step. rewrite HO, HC. eexists; split; reflexivity.
  - intros HO NE. unfold mtx_free in *.
    assert (MF : c_holds (ec e) = false -> mtx e = None).
    { intros X. rewrite A3, HO. unfold mtx_of. rewrite X. reflexivity. }
    destruct (ec e) eqn:HC; try congruence;
      try (exists EC; unfold estep, child_step, mtx_free; rewrite HC, ?MF by reflexivity;
           eexists; split; [left; reflexivity|reflexivity]; fail).
    + (* CNone *) rewrite HO in A6. discriminate.
    + (* CCallback *) exists EC. unfold estep, child_step. rewrite HC.
      destruct (pc (ls e)) eqn:PC; try (eexists; split; [left; reflexivity|reflexivity]).
      destruct (lcode (ls e)) eqn:LC; try (eexists; split; [left; reflexivity|reflexivity]).
      destruct (step_code_defined sh scr (ls e) _ _ ltac:(rewrite PC; reflexivity) LC) as [s' X].
      rewrite X. eexists; split; [left; reflexivity|reflexivity].
    + (* CLoop: the child is inside loop() *)
      pose proof (J4_reach _ _ _ _ _ RT) as [LN J].
      destruct (pc (ls e)) eqn:PC.
      * (* LPre *) exists EC. unfold estep, child_step. rewrite HC, PC.
        destruct (lcode (ls e)) eqn:LC.
        -- unfold step. rewrite PC, LC. eexists; split; [left; reflexivity|reflexivity].
        -- destruct (step_code_defined sh scr (ls e) _ _ ltac:(rewrite PC; reflexivity) LC) as [s' X].
           rewrite X. eexists; split; [left; reflexivity|reflexivity].
      * (* LTest *)
        destruct (loop_thread_progress sh scr (ls e) ltac:(rewrite PC; reflexivity) ltac:(rewrite PC; discriminate))
          as (lab & s' & [L|L] & X); subst lab.
        -- exists EC. unfold estep, child_step. rewrite HC, PC, X. eexists; split; [left; reflexivity|reflexivity].
        -- exists ECRead. unfold estep. rewrite HC, X. eexists; split; [right; reflexivity|reflexivity].
      * (* LPoll: the destructor's quit() has made the wake-up descriptor readable *)
        assert (PR : poll_ready (sg (ls e)) = true).
        { assert (C0 : c0 = []) by (apply K1; rewrite HO; reflexivity).
          assert (C1 : c1 = []) by (apply K2; auto). subst c0 c1.
          destruct K4 as [K4|[QC _]]; [discriminate|].
          assert (NR : returned (log (sg (ls e))) = false).
          { destruct (returned (log (sg (ls e)))) eqn:X; [|reflexivity]. destruct J as [J' _]. specialize (J' eq_refl). discriminate J'. }
          assert (QS : quit_since_ret (log (sg (ls e))) = true).
          { unfold quit_since_ret. rewrite (qsr_no_ret _ _ NR), QC. reflexivity. }
          pose proof (J2_reach _ _ _ _ _ _ RE RT QS) as Q.
          destruct (J3_reach _ _ _ _ _ _ QW RT Q PC) as [X|X].
          - unfold poll_ready. replace (0 <? evfd (sg (ls e))) with true by (symmetry; apply Nat.ltb_lt; exact X).
            reflexivity.
          - unfold midquit in X. rewrite F in X. discriminate. }
        destruct (loop_thread_progress sh scr (ls e) ltac:(rewrite PC; reflexivity) ltac:(intros _; exact PR))
          as (lab & s' & [L|L] & X); subst lab.
        -- exists EC. unfold estep, child_step. rewrite HC, PC, X. eexists; split; [left; reflexivity|reflexivity].
        -- exists ECRead. unfold estep. rewrite HC, X. eexists; split; [right; reflexivity|reflexivity].
      * (* LHandle *)
        destruct (loop_thread_progress sh scr (ls e) ltac:(rewrite PC; reflexivity) ltac:(rewrite PC; discriminate))
          as (lab & s' & [L|L] & X); subst lab.
        -- exists EC. unfold estep, child_step. rewrite HC, PC, X. eexists; split; [left; reflexivity|reflexivity].
        -- exists ECRead. unfold estep. rewrite HC, X. eexists; split; [right; reflexivity|reflexivity].
      * (* LSwap *)
        destruct (loop_thread_progress sh scr (ls e) ltac:(rewrite PC; reflexivity) ltac:(rewrite PC; discriminate))
          as (lab & s' & [L|L] & X); subst lab.
        -- exists EC. unfold estep, child_step. rewrite HC, PC, X. eexists; split; [left; reflexivity|reflexivity].
        -- exists ECRead. unfold estep. rewrite HC, X. eexists; split; [right; reflexivity|reflexivity].
      * (* LRun *)
        destruct (loop_thread_progress sh scr (ls e) ltac:(rewrite PC; reflexivity) ltac:(rewrite PC; discriminate))
          as (lab & s' & [L|L] & X); subst lab.
        -- exists EC. unfold estep, child_step. rewrite HC, PC, X. eexists; split; [left; reflexivity|reflexivity].
        -- exists ECRead. unfold estep. rewrite HC, X. eexists; split; [right; reflexivity|reflexivity].
      * (* LExit *) exists EC. unfold estep, child_step. rewrite HC, PC. unfold step. rewrite PC.
        destruct (lcode (ls e)); eexists; split; [left; reflexivity|reflexivity|left; reflexivity|reflexivity].
      * (* LDone *) exists EC. unfold estep, child_step. rewrite HC, PC, LN. eexists; split; [left; reflexivity|reflexivity].
Qed.

(* ---------------------------------------------------------------- refutations (witness schedules) *)
(* F-3 in the handshake model: any shape that clears quit_ on entry of loop().  The child has
   published its loop but not yet entered loop() when the owner destroys the EventLoopThread: the
   destructor's quit() is overwritten by loop()'s reset; the owner waits in join(), the child in
   poll: no thread can step. *)
Definition hang_labels_wake : list elabel :=
  [EO; EC; EO; EC; EC; EC; EC; EC; EO; EO; EO; EO; EO; EO; EO; EO; EC; EC; EC; ECRead; EC; EC; EC; EC].
Definition hang_labels_nowake : list elabel :=
  [EO; EC; EO; EC; EC; EC; EC; EC; EO; EO; EO; EO; EO; EO; EO; EO; EC; EC].

Definition no_scripts : scripts := fun _ => [].

Ltac hang_witness L :=
  eexists; split;
  [ eapply erun_ereach with (labs := L); vm_compute; reflexivity
  | vm_compute; repeat split; intros []; reflexivity ].

Lemma dtor_hang_witness_pinned :
  exists e, ereach pinned_eshape pinned_shape no_scripts (einit [] []) e /\ eo e = OJoin /\ ec e = CLoop /\
            quit_called (log (sg (ls e))) = true /\ (forall lab, estep pinned_eshape pinned_shape no_scripts e lab = None).
Proof. hang_witness hang_labels_wake. Qed.

Lemma dtor_hang_witness_F2 :
  exists e, ereach pinned_eshape repaired_F2_shape no_scripts (einit [] []) e /\ eo e = OJoin /\ ec e = CLoop /\
            quit_called (log (sg (ls e))) = true /\
            (forall lab, estep pinned_eshape repaired_F2_shape no_scripts e lab = None).
Proof. hang_witness hang_labels_wake. Qed.

(* F-4: the destructor's quit() stores quit_; the child (about to enter loop(), or just back at
   the while test) sees it, leaves loop(), clears loop_ and destroys the stack EventLoop; the
   destructor's quit() then continues with isInLoopThread()/wakeup() on the destroyed object. *)
Definition f4_labels : list elabel :=
  [EO; EC; EO; EC; EC; EC; EC; EC; EO; EO; EO; EO; EO; EO; EC; EC; EC; EC; EC; EC; EC; EC; EO].

Lemma f4_witness :
  exists e, ereach pinned_eshape fixed_shape no_scripts (einit [] []) e /\ uaf_dtor e = true /\ alive e = false /\
            eo e = OQuit /\ ec e = CExited.
Proof.
  eexists. split.
  - eapply erun_ereach with (labs := f4_labels). vm_compute. reflexivity.
  - vm_compute. auto.
Qed.

(* ---------------------------------------------------------------- what is safe (partial of F-4) *)
(* nobody but the destructor quits the loop (no quit() in the thread-init callback, the user code
   or any functor / callback script): then user code never touches a destroyed loop, and the
   destructor's quit() can do so only in its second half (isInLoopThread()/wakeup(), after the store
   of quit_): its store always hits a live loop. *)
Definition E4 (e : elt) : Prop :=
  uaf_user e = false /\ (uaf_dtor e = true -> fcode_at (ls e) 1 = []).

Lemma alive_while_unquit : forall es sh scr cb uacts e,
  ereach es sh scr (einit cb uacts) e -> tf_clears es = true -> sl_while es = true ->
  o_returned (eo e) = true -> quit_called (log (sg (ls e))) = false -> alive e = true.
Proof.
  intros es sh scr cb uacts e R TC SW OR NQ.
  pose proof (E1_reach _ _ _ _ _ _ TC R) as (A1 & A2 & A3 & A4 & A5 & A6).
  pose proof (E2_reach _ _ _ _ _ _ TC R) as (B1 & B2 & B3 & B4 & B5).
  pose proof (E5_reach _ _ _ _ _ _ TC R OR) as [b G].
  pose proof (J1_reach _ _ _ _ _ _ (ereach_reach_t _ _ _ _ _ _ R)) as [_ JR].
  assert (b = true) by (destruct b; [reflexivity|exfalso; apply (B3 SW); exact G]). subst b.
  specialize (B2 G). rewrite A2.
  destruct (c_after (ec e)) eqn:CA.
  - specialize (B1 eq_refl). rewrite JR in NQ by (right; exact B1). discriminate.
  - destruct (ec e); try discriminate; reflexivity.
Qed.

Theorem uaf_only_in_quit_wakeup : forall es sh scr cb uacts e,
  (forall t, qfree_acts (scr t) = true) -> qfree_acts cb = true -> qfree_acts uacts = true ->
  tf_clears es = true -> sl_while es = true ->
  ereach es sh scr (einit cb uacts) e -> E4 e.
Proof.
  intros es sh scr cb uacts e QS QC QU TC SW R. induction R as [|e lab e' R [U1 U2] H].
  - split; [reflexivity|]. intros X; discriminate.
  - pose proof (E3_reach _ _ _ _ _ _ R) as (c0 & c1 & F & K1 & K2 & K3 & K4).
    pose proof (J5_reach _ _ _ _ _ QS QC QU (ereach_reach_t _ _ _ _ _ _ R)) as (_ & _ & d0 & d1 & F' & _ & Q5).
    rewrite F in F'. injection F' as <- <-.
    pose proof (alive_while_unquit _ _ _ _ _ _ R TC SW) as AL.
    unfold E4, fcode_at in *. rewrite F in U2. cbn in U2.
    destruct lab; einv H; cbn [ls eo ec ptr got alive mtx signalled tidpub uaf_user uaf_dtor] in *;
      unfold fcode_at in *;
      repeat match goal with H : nth _ (fcode (ls e)) [] = _ |- _ => rewrite F in H; cbn in H end;
      try (rewrite F; cbn; split; assumption).
    all: match goal with
         | H : step _ _ _ (TF ?i) = Some ?l |- _ =>
             destruct (step_TF_frame _ _ _ _ _ H) as (_ & _ & _ & m' & rest & g' & c' & N & E & SG & FC)
         | H : step _ _ _ ?lab = Some ?l |- _ =>
             pose proof (step_loop_frame _ _ _ lab _ ltac:(auto) H) as FC
         end.
    all: try (rewrite FC, F; cbn; split; assumption).
    + (* user code *)
      assert (C1 : c1 = [MQuitStore]) by (apply K3; right; left; reflexivity).
      destruct Q5 as [[_ NQ]|[X|X]]; try congruence.
      rewrite AL by (try reflexivity; assumption).
      rewrite FC, F. cbn. rewrite U1. split; [reflexivity|exact U2].
    + (* the destructor's quit() *)
      rewrite F in N. cbn in N. injection N as ->. rewrite FC, F. cbn.
      split; [exact U1|]. destruct Q5 as [[C1 NQ]|[C1|C1]]; try discriminate.
      * (* the store: the loop is alive *)
        rewrite AL by (try reflexivity; assumption).
        cbn. rewrite orb_false_r. intros X. specialize (U2 X). congruence.
      * (* the wake-up half *)
        injection C1 as -> ->. intros _. cbn in E. destruct (qwake sh false); injection E as <- <-; reflexivity.
Qed.

(* ---------------------------------------------------------------- loop_ is cleared when the thread function ends *)
(* threadFunc clears loop_ under the mutex: a destructor that starts after the loop has been
   destroyed (the loop was quit by somebody else and the thread function has returned) finds
   loop_ == NULL and touches nothing *)
Theorem dtor_skips_destroyed_loop : forall es sh scr cb uacts e,
  ereach es sh scr (einit cb uacts) e -> tf_clears es = true -> sl_while es = true ->
  eo e = ODtor -> alive e = false ->
  ptr e = false /\ estep es sh scr e EO = Some (with_eo e ODone).
Proof.
  intros es sh scr cb uacts e R TC SW HO AL.
  pose proof (E1_reach _ _ _ _ _ _ TC R) as (A1 & A2 & A3 & A4 & A5 & A6).
  pose proof (E2_reach _ _ _ _ _ _ TC R) as (B1 & B2 & B3 & B4 & B5).
  pose proof (E5_reach _ _ _ _ _ _ TC R) as G. unfold E5 in G. rewrite HO in G. destruct (G eq_refl) as [b Gb].
  assert (b = true) by (destruct b; [reflexivity|exfalso; apply (B3 SW); exact Gb]). subst b.
  specialize (B2 Gb).
  assert (P : ptr e = false).
  { rewrite A1. rewrite A2 in AL. destruct (ec e); try discriminate; reflexivity. }
  split; [exact P|]. unfold estep, owner_step. rewrite HO, P. reflexivity.
Qed.

(* REFUTED for a threadFunc that does not clear loop_: the user quits the loop, the thread function
   returns and the stack EventLoop is destroyed; only then the EventLoopThread is destroyed: the
   destructor still sees loop_ != NULL and its quit() STORES into the destroyed loop *)
Definition noclear_eshape : eshape := mkEShape true true true true false.
Definition stale_labels : list elabel :=
  [EO; EC; EO; EC; EC; EC; EC; EC; EO; EO; EO; EC; EC; EO; EO; EC; ECRead; EC; EC; EC; EC; EC; EC; EC; EO; EO; EO].

Lemma stale_ptr_witness :
  exists e0 e, ereach noclear_eshape fixed_shape no_scripts (einit [] [AQuit]) e0 /\
    eo e0 = ODtor /\ ec e0 = CExited /\ alive e0 = false /\ ptr e0 = true /\
    ereach noclear_eshape fixed_shape no_scripts (einit [] [AQuit]) e /\
    uaf_dtor e = true /\ fcode_at (ls e) 1 = [MQuitWake].
Proof.
  eexists. eexists. split; [eapply erun_ereach with (labs := firstn 25 stale_labels); vm_compute; reflexivity|].
  split; [vm_compute; reflexivity|]. split; [vm_compute; reflexivity|]. split; [vm_compute; reflexivity|].
  split; [vm_compute; reflexivity|].
  split; [eapply erun_ereach with (labs := stale_labels); vm_compute; reflexivity|].
  split; vm_compute; reflexivity.
Qed.
