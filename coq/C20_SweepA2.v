(* days jdn_first + [110000, 220000) *)
From Coq Require Import List ZArith Bool.
From Muduo Require Import Gen_C20 C20_Calendar C20_SweepDefs.
Local Open Scope Z_scope.
Lemma sweep_jdn_2 : forallb chk_block (zs 110 110) = true.
Proof. vm_cast_no_check (eq_refl true). Qed.
