(* C05_Termination: bounded termination of the loop thread after quit().  Once quit_ is set and the
   loop thread is inside the while loop of loop() (and, if it sits in poll, something is ready --
   C05_quit_ends_loop), EVERY step of the loop thread strictly decreases the measure M; as the loop
   thread can always step (C05_loop_thread_progress) it reaches the exit of the while loop after at
   most M s of its own steps, whatever it chooses -- provided user code terminates: the hypothesis is
   a finite cost assignment for the functor / callback scripts (it exists exactly when inline
   runInLoop() chains are finite; a task may re-queue itself: what is queued during the drain is not
   run in this iteration). *)
From Coq Require Import List Bool Arith Lia.
Import ListNotations.
From Muduo Require Import C04_Model C04_Proofs C05_Proofs.

Section Costs.
Variable scr : scripts.
Variable wr : nat -> nat.   (* cost of running task t during the drain *)
Variable wh : nat -> nat.   (* cost of running script t from an I/O / timer callback *)

Definition mwr (m : mop) : nat :=
  match m with MQueue _ => 2 | MWakeTest => 1 | MExec t => 1 + wr t | MQuitStore => 2 | MQuitWake => 1 | MOffer _ => 1 end.
(* during event handling a queued task is run by this iteration's drain *)
Definition mwh (m : mop) : nat :=
  match m with MQueue t => 3 + wr t | MWakeTest => 1 | MExec t => 1 + wh t | MQuitStore => 2 | MQuitWake => 1 | MOffer _ => 1 end.
Fixpoint CW (f : mop -> nat) (c : list mop) : nat := match c with [] => 0 | m :: r => f m + CW f r end.
Fixpoint BW (b : list nat) : nat := match b with [] => 0 | t :: r => 1 + wr t + BW r end.

Definition costs_ok : Prop :=
  (forall t, CW mwr (expand_all true (scr t)) <= wr t) /\
  (forall t, CW mwh (expand_all true (scr t)) <= wh t).

Definition M (s : st) : nat :=
  match pc s with
  | LTest => 1
  | LRun b => CW mwr (lcode s) + BW b + 2
  | LSwap => BW (pending (sg s)) + 3
  | LHandle wk => CW mwh (lcode s) + (if wk then 1 else 0) + BW (pending (sg s)) + 4
  | LPoll => match evq (sg s) with k :: _ => wh k | [] => 0 end + BW (pending (sg s)) + 7
  | _ => 0
  end.

Lemma CW_app : forall f a b, CW f (a ++ b) = CW f a + CW f b.
Proof. induction a as [|m a IH]; cbn; intros; [reflexivity|]. rewrite IH. lia. Qed.
Lemma BW_app : forall a b, BW (a ++ b) = BW a + BW b.
Proof. induction a as [|m a IH]; cbn; intros; [reflexivity|]. rewrite IH. lia. Qed.

Lemma exec_mop_weight : forall sh who m rest g g' c', costs_ok ->
  exec_mop sh scr who true m rest g = (g', c') ->
  CW mwr c' < CW mwr (m :: rest) /\
  CW mwh c' + BW (pending g') < CW mwh (m :: rest) + BW (pending g) /\
  evq g' = evq g \/ (exists k, m = MOffer k).
Proof.
  intros sh who m rest g g' c' [C1 C2] H. unfold exec_mop in H.
  destruct m;
    [ | destruct (wake sh true (calling g) (looping g)) | | | destruct (qwake sh true) | ];
    injection H as <- <-; cbn [pending evq CW mwr mwh];
    try (left; repeat split; lia).
  - left. rewrite BW_app. cbn. repeat split; lia.
  - left. rewrite !CW_app. specialize (C1 t). specialize (C2 t). repeat split; lia.
  - right. eauto.
Qed.
End Costs.

(* runs of the loop thread on its own, each step taken from inside the while loop *)
Inductive lrun (sh : shape) (scr : scripts) : nat -> st -> st -> Prop :=
| lrun0 : forall s, lrun sh scr 0 s s
| lrunS : forall n s lab s' s'', active (pc s) = true -> (lab = TLoop \/ lab = TRead) ->
    step sh scr s lab = Some s' -> lrun sh scr n s' s'' -> lrun sh scr (S n) s s''.

Lemma loop_step_decreases : forall sh scr wr wh s lab s', costs_ok scr wr wh ->
  (lab = TLoop \/ lab = TRead) -> step sh scr s lab = Some s' ->
  quit (sg s) = true -> active (pc s) = true ->
  M wr wh s' < M wr wh s.
Proof.
  intros sh scr wr wh s lab s' CO L H Q AC.
  destruct (step_cases _ _ _ _ _ H) as [(i & m & rest & g' & c' & -> & N & E & ->) |
                                        [(m & rest & g' & c' & -> & CC & LC & E & ->) | C]].
  - destruct L; discriminate.
  - destruct (exec_mop_weight scr wr wh _ _ _ _ _ _ _ CO E) as [(W1 & W2 & _)|[k ->]].
    + unfold M. cbn [pc lcode sg]. rewrite LC. destruct (pc s); try discriminate; try lia.
    + unfold exec_mop in E. injection E as <- <-. unfold M. cbn [pc lcode sg pending]. rewrite LC.
      destruct (pc s); try discriminate; cbn; lia.
  - destruct CO as [C1 C2].
    inversion C; subst; unfold M; cbn [pc lcode sg set_flags pending evq];
      match goal with H : pc s = _ |- _ => rewrite H in AC |- * end; try discriminate; try congruence;
      repeat match goal with H : lcode s = _ |- _ => rewrite H end;
      repeat match goal with H : evq (sg s) = _ |- _ => rewrite H end;
      cbn [CW BW]; try lia;
      try (destruct (0 <? evfd (sg s)); lia);
      try match goal with |- context [CW (mwh _ _) (expand_all true (scr ?k))] => specialize (C2 k); destruct (0 <? evfd (sg s)); lia end;
      try match goal with |- context [CW (mwr _) (expand_all true (scr ?k))] => specialize (C1 k); lia end.
Qed.

Lemma no_poll_again : forall sh scr s lab s', (lab = TLoop \/ lab = TRead) -> step sh scr s lab = Some s' ->
  quit (sg s) = true -> active (pc s) = true -> pc s' <> LPoll.
Proof.
  intros sh scr s lab s' L H Q AC.
  destruct (step_cases _ _ _ _ _ H) as [(i & m & rest & g' & c' & -> & N & E & ->) |
                                        [(m & rest & g' & c' & -> & CC & LC & E & ->) | C]].
  - destruct L; discriminate.
  - cbn [pc]. intros X. rewrite X in CC. discriminate.
  - inversion C; subst; cbn [pc]; try discriminate. congruence.
Qed.

Theorem quit_returns_bounded : forall sh scr wr wh, costs_ok scr wr wh -> forall s,
  quit (sg s) = true -> active (pc s) = true -> (pc s = LPoll -> poll_ready (sg s) = true) ->
  (* every run of the loop thread inside the while loop is at most M s steps long ... *)
  (forall n s', lrun sh scr n s s' -> n <= M wr wh s) /\
  (* ... and one of them reaches the exit of the while loop (no other thread moves) *)
  (exists n s', lrun sh scr n s s' /\ pc s' = LExit /\ fcode s' = fcode s).
Proof.
  intros sh scr wr wh CO.
  assert (A : forall n s s', quit (sg s) = true -> lrun sh scr n s s' -> n <= M wr wh s).
  { induction n as [|n IH]; intros s s' Q R; [lia|].
    inversion R as [|n0 ? lab s1 ? AC L ST R']; subst.
    pose proof (loop_step_decreases _ _ _ _ _ _ _ CO L ST Q AC) as D.
    destruct (no_new_iteration _ _ _ _ _ ST Q AC) as [X|(AC' & Q' & _)].
    - inversion R' as [|? ? ? ? ? AC2 _ _ _]; subst; [lia|]. rewrite X in AC2. discriminate.
    - specialize (IH s1 s' Q' R'). lia. }
  assert (B : forall k s, M wr wh s <= k -> quit (sg s) = true -> active (pc s) = true ->
                          (pc s = LPoll -> poll_ready (sg s) = true) ->
                          exists n s', lrun sh scr n s s' /\ pc s' = LExit /\ fcode s' = fcode s).
  { induction k as [|k IH]; intros s HM Q AC PR.
    - destruct (loop_thread_progress sh scr s AC PR) as (lab & s1 & L & ST).
      pose proof (loop_step_decreases _ _ _ _ _ _ _ CO L ST Q AC). lia.
    - destruct (loop_thread_progress sh scr s AC PR) as (lab & s1 & L & ST).
      pose proof (loop_step_decreases _ _ _ _ _ _ _ CO L ST Q AC) as D.
      pose proof (step_loop_frame _ _ _ _ _ L ST) as F.
      destruct (no_new_iteration _ _ _ _ _ ST Q AC) as [X|(AC' & Q' & _)].
      + exists 1, s1. split; [econstructor; eauto; constructor|]. auto.
      + destruct (IH s1 ltac:(lia) Q' AC') as (n & s' & R & X & F').
        * intros P. exfalso. eapply no_poll_again; eauto.
        * exists (S n), s'. split; [econstructor; eauto|]. split; [exact X|congruence]. }
  intros s Q AC PR. split; [intros n s' R; eapply A; eauto|eapply B; eauto].
Qed.
