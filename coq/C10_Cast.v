(* C10_Cast: the int casts of toStringPiece() / shrink() (review B-3).
   C10_Model.step ignores them; C10_Model.step_c models them.  Here:
   - below 2^31 readable bytes the two coincide, so every theorem about [step] is a theorem
     about [step_c] under the STATED bound (refines_fifo_cast);
   - at 2^31 <= readable < 2^32 toStringPiece / shrink are not FIFO operations (negative length);
   - at 2^32 <= readable < 2^32 + 2^31 shrink silently keeps only the first readable - 2^32 bytes;
   - a legal history reaching 2^31 readable bytes exists (symbolically: the list is never computed). *)
From Coq Require Import List ZArith Lia Bool Arith NArith.
From Coq.Strings Require Import Byte.
From Muduo Require Import Base_Bytes Gen_Consts C10_Model C10_Proofs.
Import ListNotations.

Local Notation Zn := Z.of_nat.
Local Open Scope Z_scope.

Definition two31 : Z := 2 ^ 31.
Definition two32 : Z := 2 ^ 32.

Lemma int_cast_id z : 0 <= z < two31 -> int_cast z = z.
Proof.
  unfold two31, int_cast, int_bits. intros H. change (32 - 1) with 31.
  rewrite Z.mod_small by (change (2 ^ 32) with 4294967296; change (2 ^ 31) with 2147483648 in H; lia).
  destruct (Z.ltb_spec z (2 ^ 31)); [reflexivity|lia].
Qed.

Lemma int_cast_neg z : two31 <= z < two32 -> int_cast z = z - two32 /\ int_cast z < 0.
Proof.
  unfold two31, two32, int_cast, int_bits. change (32 - 1) with 31.
  change (2 ^ 32) with 4294967296; change (2 ^ 31) with 2147483648. intros H.
  rewrite Z.mod_small by lia.
  destruct (Z.ltb_spec z 2147483648); lia.
Qed.

Lemma int_cast_wrap z : two32 <= z < two32 + two31 -> int_cast z = z - two32.
Proof.
  unfold two31, two32, int_cast, int_bits. change (32 - 1) with 31.
  change (2 ^ 32) with 4294967296; change (2 ^ 31) with 2147483648. intros H.
  replace (z mod 4294967296) with (z - 4294967296).
  2:{ apply Z.mod_unique with 1; lia. }
  destruct (Z.ltb_spec (z - 4294967296) 2147483648); lia.
Qed.

Lemma int_cast_examples :
  int_cast 2147483647 = 2147483647 /\ int_cast 2147483648 = -2147483648 /\
  int_cast 4294967295 = -1 /\ int_cast 4294967301 = 5.
Proof. vm_compute. repeat split. Qed.

(* ---- below the bound the cast is invisible ---------------------------------------------- *)
Lemma toStringPiece_c_eq b : Zn (readableBytes b) < two31 -> toStringPiece_c b = toStringPiece b.
Proof.
  intros H. unfold toStringPiece_c, toStringPiece, toStringPiece_len.
  rewrite int_cast_id by lia.
  destruct (Z.ltb_spec (Zn (readableBytes b)) 0); [lia|]. now rewrite Nat2Z.id.
Qed.

Lemma shrink_c_eq r b : Zn (readableBytes b) < two31 -> shrink_c r b = shrink r b.
Proof.
  intros H. unfold shrink_c, shrink, toStringPiece_len.
  rewrite int_cast_id by lia.
  destruct (Z.ltb_spec (Zn (readableBytes b)) 0); [lia|]. now rewrite Nat2Z.id.
Qed.

Lemma step_c_eq st o : Zn (readableBytes (fst st)) < two31 -> step_c st o = step st o.
Proof.
  intros H. destruct o; try reflexivity; cbn [step_c step].
  - now rewrite toStringPiece_c_eq.
  - now rewrite shrink_c_eq.
Qed.

(* ops other than the two never see the cast, whatever the size *)
Lemma step_c_other st o : o <> ToStringPiece -> (forall r, o <> Shrink r) -> step_c st o = step st o.
Proof. intros H1 H2. destruct o; try reflexivity; [congruence|exfalso; eapply H2; reflexivity]. Qed.

(* the refinement theorem for the faithful step, under the stated bound *)
Lemma refines_fifo_cast st s : reach st s -> Zn (length (fst s)) < two31 ->
  readable (fst st) = fst s /\ readable (snd st) = snd s /\
  forall o,
    if guard (fst st) o then
      exists st', step_c st o = Ok (st', snd (spec_step s (fst st) o)) /\
                  reach st' (fst (spec_step s (fst st) o))
    else step_c st o = Rejected.
Proof.
  intros Hr Hb. destruct (refines_fifo st s Hr) as (H1 & H2 & H3).
  pose proof (sizes_consistent st s Hr) as (_ & _ & HL & _).
  split; [exact H1|]. split; [exact H2|]. intros o. rewrite step_c_eq by lia. apply H3.
Qed.

Lemma in_bounds_cast st s o : reach st s -> Zn (length (fst s)) < two31 -> step_c st o <> Fault.
Proof.
  intros Hr Hb. pose proof (sizes_consistent st s Hr) as (_ & _ & HL & _).
  rewrite step_c_eq by lia. eapply in_bounds; eassumption.
Qed.

(* ---- beyond the bound ------------------------------------------------------------------- *)
Lemma beyond_int_negative st s r : reach st s -> two31 <= Zn (length (fst s)) < two32 ->
  step_c st ToStringPiece = Fault /\ step_c st (Shrink r) = Fault.
Proof.
  intros Hr Hb. pose proof (sizes_consistent st s Hr) as (_ & _ & HL & _).
  cbn [step_c]. unfold toStringPiece_c, shrink_c, toStringPiece_len.
  destruct (int_cast_neg (Zn (readableBytes (fst st)))) as [_ Hneg]; [lia|].
  destruct (Z.ltb_spec (int_cast (Zn (readableBytes (fst st)))) 0); [|lia].
  split; reflexivity.
Qed.

Lemma beyond_int_truncates st s r : reach st s ->
  two32 <= Zn (length (fst s)) < two32 + two31 ->
  let k := Z.to_nat (Zn (length (fst s)) - two32) in
  exists st', step_c st (Shrink r) = Ok (st', OUnit) /\
    readable (fst st') = firstn k (fst s) /\ (k < length (fst s))%nat /\
    step_c st ToStringPiece = Ok (st, OBytes (firstn k (fst s))).
Proof.
  intros Hr Hb k. pose proof (reach_inv st s Hr) as [HI HI2].
  pose proof (inv_sizes _ _ HI) as (S1 & S2 & S3 & S4).
  assert (Hk : int_cast (Zn (readableBytes (fst st))) = Zn k).
  { rewrite int_cast_wrap by lia. unfold k. rewrite Z2Nat.id; lia. }
  assert (Hkl : (k < length (fst s))%nat).
  { unfold k. apply Nat2Z.inj_lt. rewrite Z2Nat.id by lia.
    unfold two32. change (2 ^ 32) with 4294967296. lia. }
  assert (Hpeek : peekBytes k (fst st) = Ok (firstn k (fst s))) by (apply peekBytes_ok; [exact HI|lia]).
  cbn [step_c]. unfold shrink_c, toStringPiece_c, toStringPiece_len. rewrite Hk.
  destruct (Z.ltb_spec (Zn k) 0); [lia|]. rewrite Nat2Z.id.
  assert (Hread : read_at (store (fst st)) (ridx (fst st)) k = Some (firstn k (fst s))).
  { unfold peekBytes in Hpeek. destruct (Nat.leb_spec k (readableBytes (fst st))); [|lia].
    destruct (read_at (store (fst st)) (ridx (fst st)) k); cbn [mem] in Hpeek; [congruence|discriminate]. }
  rewrite Hread, Hpeek. cbn [mem bind].
  destruct (ensureWritable_ok (readableBytes (fst st) + r) (new_buf kInitialSize) [] (new_buf_inv _))
    as (o1 & -> & HI1 & _). cbn [bind].
  destruct (append_ok (firstn k (fst s)) o1 [] HI1) as (b' & E & HI'). cbn [app] in HI'.
  exists (b', snd st). unfold on_fst. rewrite E. cbn [bind].
  split; [reflexivity|]. split; [apply inv_readable; exact HI'|]. split; [exact Hkl|reflexivity].
Qed.

(* a legal history reaches a buffer with N readable bytes, for ANY N: one append on a fresh buffer.
   N stays symbolic (the 2^31-element list is never built). *)
Lemma reach_size (N : nat) : exists st s, reach st s /\ length (fst s) = N.
Proof.
  destruct (refines_fifo _ _ (reach_init 0 0)) as (_ & _ & H).
  specialize (H (Append (repeat x00 N))). cbn [guard] in H.
  destruct H as (st' & _ & Hr').
  eexists st', _. split; [exact Hr'|].
  cbn [spec_step fst snd app]. apply repeat_length.
Qed.

(* the strict property text ("unbounded": shrink keeps the content, toStringPiece is the content,
   for every legal history) is false of the faithful step *)
Lemma shrink_keeps_content_refuted :
  exists st s r, reach st s /\ step_c st (Shrink r) = Fault /\ step_c st ToStringPiece = Fault.
Proof.
  destruct (reach_size (Z.to_nat two31)) as (st & s & Hr & HL).
  exists st, s, 0%nat. split; [exact Hr|].
  apply and_comm. apply (beyond_int_negative st s 0%nat Hr). rewrite HL, Z2Nat.id by (unfold two31; lia).
  unfold two31, two32. change (2 ^ 32) with 4294967296; change (2 ^ 31) with 2147483648. lia.
Qed.

Lemma shrink_truncates_refuted :
  exists st s r st', reach st s /\ step_c st (Shrink r) = Ok (st', OUnit) /\
    (length (readable (fst st')) < length (readable (fst st)))%nat.
Proof.
  destruct (reach_size (Z.to_nat (two32 + 5))) as (st & s & Hr & HL).
  assert (HZ : Zn (length (fst s)) = two32 + 5).
  { rewrite HL, Z2Nat.id; [reflexivity|]. unfold two32. change (2 ^ 32) with 4294967296. lia. }
  destruct (beyond_int_truncates st s 0%nat Hr) as (st' & E & Hc & Hk & _).
  { rewrite HZ. unfold two31, two32. change (2 ^ 32) with 4294967296; change (2 ^ 31) with 2147483648. lia. }
  exists st, s, 0%nat, st'. split; [exact Hr|]. split; [exact E|].
  destruct (refines_fifo st s Hr) as (H1 & _). rewrite Hc, H1, firstn_length. lia.
Qed.
