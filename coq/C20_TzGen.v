(* C20_TzGen: TimeZone::toLocalTime / fromLocalTime over the finders GENERATED from
   TimeZone::Data::findLocalTime (Gen_C20Tz, symbolic execution of the C++ by lib/gen_C20.py).
   No proofs: this is what the extracted model runs, so the model follows the source as it is
   now; C20_TzLink proves the generated finders equal to the hand-written find_utc / find_local
   of C20_Model, about which the lookup and round-trip theorems are proved. *)
From Coq Require Import List ZArith Bool Arith.
From Muduo Require Import Gen_C20 C20_Model Gen_C20Tz.
Local Open Scope Z_scope.

(* TimeZone::toLocalTime(seconds, &utcOffset): local = data_->findLocalTime(seconds);
   BreakTime(seconds + local->utcOffset), *utcOffset = local->utcOffset *)
Definition toLocalTime_g (tb : tzdata) (t : Z) : DateTime * Z :=
  let off := off_of tb (findLocalTime_utc tb t) in (break_utc (t + off), off).

(* TimeZone::fromLocalTime(localtime, postTransition): local = data_->findLocalTime(localtime,
   postTransition); fromUtcTime(localtime) - local->utcOffset *)
Definition fromLocalTime_g (tb : tzdata) (dt : DateTime) (post : bool) : Z :=
  fromUtc dt - off_of tb (findLocalTime_local tb dt post).
