(* Conn_Race: foreign close requests (shutdown / forceClose / forceCloseWithDelay called on a thread
   other than the loop thread) with their plain load, plain store and hand-off as separate steps
   (the x-machine of Conn_Model).
   - the race: the loop thread closes the connection between a request's load and its store; the
     store then overwrites kDisconnected with kDisconnecting and a second DOWN follows (witnesses);
   - what survives every interleaving: the stream invariants (C01);
   - what holds under the hypothesis "at its store a request's state test still passes" (no
     loop-thread state change between load and store; in particular: adjacent load and store, or a
     call on the loop thread): the whole invariant of the base machine, no assertion, one DOWN;
   - adjacent micro-steps are the atomic ops XShutdown / ForceClose / ForceCloseDelay. *)
From Coq Require Import List ZArith Lia Bool Arith NArith.
From Coq.Strings Require Import Byte.
From Muduo Require Import Conn_Model Conn_Proofs Conn_Trace.
Import ListNotations.

Arguments Nat.min : simpl never.
Arguments N.leb : simpl never.
Arguments N.ltb : simpl never.
Arguments N.of_nat : simpl never.

Lemma xrun_cons x o ops x' e : xrun x (o :: ops) = Ok (x', e) ->
  exists x1 e1 e2, xstep x o = Ok (x1, e1) /\ xrun x1 ops = Ok (x', e2) /\ e = e1 ++ e2.
Proof.
  cbn [xrun]. destruct (xstep x o) as [[x1 e1]| |] eqn:E1; try discriminate.
  destruct (xrun x1 ops) as [[x2 e2]| |] eqn:E2; try discriminate.
  intros H. injection H as <- <-. eauto 7.
Qed.

(* ---- rereg changes nothing in the reachable states of the base machine ---------------------- *)
Lemma set_registered_id c : registered c = true -> set_registered c true = c.
Proof. destruct c. cbn. intros ->. reflexivity. Qed.

Lemma rereg_fields c c' :
  st (rereg c c') = st c' /\ outb (rereg c c') = outb c' /\ inb (rereg c c') = inb c' /\
  writing (rereg c c') = writing c' /\ rd_chan (rereg c c') = rd_chan c' /\ rd_flag (rereg c c') = rd_flag c' /\
  hwm (rereg c c') = hwm c' /\ has_wc (rereg c c') = has_wc c' /\ has_hwm (rereg c c') = has_hwm c' /\
  wire (rereg c c') = wire c' /\ fin (rereg c c') = fin c' /\ pending (rereg c c') = pending c' /\
  chk (rereg c c') = chk c' /\ delayed (rereg c c') = delayed c' /\ accepted (rereg c c') = accepted c' /\
  consumed (rereg c c') = consumed c' /\ delivered (rereg c c') = delivered c' /\ enq (rereg c c') = enq c' /\
  ran (rereg c c') = ran c' /\ ups (rereg c c') = ups c' /\ downs (rereg c c') = downs c'.
Proof.
  unfold rereg. destruct (registered c && negb (registered c')); [repeat split|].
  destruct (negb (Bool.eqb (writing c) (writing c')) || negb (Bool.eqb (rd_chan c) (rd_chan c'))
            || negb (downs c =? downs c')); repeat split.
Qed.

(* a step of the base machine from a state satisfying its invariant either leaves the channel
   registered, or is the Channel::remove() of connectDestroyed, or touches neither interest nor
   the DOWN count *)
Lemma step_registered c o c' e : Inv c -> step c o = Ok (c', e) ->
  registered c' = true \/ (registered c = true /\ registered c' = false) \/
  (writing c' = writing c /\ rd_chan c' = rd_chan c /\ downs c' = downs c).
Proof.
  intros HI H. pose proof (step_inv c o c' e HI H) as HI'.
  destruct (registered c') eqn:Er'; [left; reflexivity|right].
  destruct (registered c) eqn:Er; [left; split; reflexivity|right].
  (* the channel was not registered and still is not: the connection is not up, before or after *)
  assert (Hnu : ~ up c) by (intros Hu; rewrite (i_reg c HI Hu) in Er; discriminate).
  assert (Hnu' : ~ up c') by (intros Hu; rewrite (i_reg c' HI' Hu) in Er'; discriminate).
  destruct (i_idle c HI Hnu) as [Hw Hr]. destruct (i_idle c' HI' Hnu') as [Hw' Hr'].
  rewrite Hw, Hr, Hw', Hr'. split; [reflexivity|]. split; [reflexivity|].
  destruct (step_updown c o c' e H) as [_ Hd].
  pose proof (i_updown c HI) as Hu. pose proof (i_updown c' HI') as Hu'.
  apply not_up in Hnu. apply not_up in Hnu'.
  destruct Hnu as [E|E]; destruct Hnu' as [E'|E']; rewrite E in Hu; rewrite E' in Hu'; try lia.
  (* Connecting -> Disconnected: impossible in one step *)
  exfalso. step_cases H; projs'; try lia; try congruence; st_norm; try congruence.
Qed.

Lemma rereg_id c o c' e : Inv c -> step c o = Ok (c', e) -> rereg c c' = c'.
Proof.
  intros HI H. unfold rereg.
  destruct (step_registered c o c' e HI H) as [Hr|[[Hr Hr']|(Hw & Hrd & Hd)]].
  - rewrite Hr, andb_false_r.
    destruct (negb (Bool.eqb (writing c) (writing c')) || negb (Bool.eqb (rd_chan c) (rd_chan c'))
              || negb (downs c =? downs c')); [apply set_registered_id, Hr|reflexivity].
  - rewrite Hr, Hr'. reflexivity.
  - rewrite Hw, Hrd, Hd, !eqb_reflx, Nat.eqb_refl. cbn.
    destruct (registered c && negb (registered c')); reflexivity.
Qed.

(* so, on a state whose base component satisfies the invariant, a Base op of the x-machine is the
   op of the base machine *)
Theorem xstep_base c reqs tm o : Inv c ->
  xstep (mkX c reqs tm) (Base o) =
  if (match o with RunOne _ => timer_due tm | _ => false end) then Rejected else
  match step c o with
  | Ok (c', e) => Ok (mkX c' reqs (xtimers_after c o tm), e)
  | Rejected => Rejected
  | Fault => Fault
  end.
Proof.
  intros HI. cbn [xstep xbase xreqs xtimers].
  destruct (match o with RunOne _ => timer_due tm | _ => false end); [reflexivity|].
  destruct (step c o) as [[c' e]| |] eqn:E; try reflexivity.
  rewrite (rereg_id c o c' e HI E). reflexivity.
Qed.

(* ---- the stream invariants survive every interleaving -------------------------------------- *)
Record InvS (c : conn) : Prop := {
  s_stream : wire c ++ outb c = accepted c;
  s_inbound : consumed c ++ inb c = delivered c;
  s_fifo : ran c ++ sends_of (pending c) = enq c
}.

Lemma Inv_InvS c : Inv c -> InvS c.
Proof. intros HI. constructor; [apply (i_stream c HI)|apply (i_inbound c HI)|apply (i_fifo c HI)]. Qed.

Lemma sends_of_one f : (forall t d, f <> FSend t d) -> forall l, sends_of (l ++ [f]) = sends_of l.
Proof.
  intros Hf l. rewrite sends_of_app. destruct f; cbn; rewrite ?app_nil_r; try reflexivity.
  exfalso. eapply Hf. reflexivity.
Qed.

(* for EVERY state of the base machine, reachable or not *)
Lemma step_invS c o c' e : InvS c -> step c o = Ok (c', e) -> InvS c'.
Proof.
  intros [Hs Hi Hf] H.
  assert (Hst : wire c' ++ outb c' = accepted c').
  { rewrite (step_accepted c o c' e H). unfold block_taken.
    destruct (send_of c o) as [[[d k] p]|] eqn:Es.
    - destruct (step_send c o c' e d k p H Es) as (_ & -> & -> & _). rewrite send_fatal_eq.
      destruct (s_fatal c k) eqn:Ef.
      + destruct (s_fatal_true c d k Ef) as (-> & -> & _). cbn [firstn]. rewrite !app_nil_r. exact Hs.
      + rewrite (s_outb_nf c d k Ef). apply stream_step; [exact Hs|apply s_outb_or].
    - rewrite app_nil_r. unfold send_of in Es.
      step_cases H; rw_in Es; try discriminate Es; projs'; try exact Hs.
      all: try (rewrite <- app_assoc, firstn_skipn; exact Hs).
      all: st_norm; try congruence. }
  assert (Hin : consumed c' ++ inb c' = delivered c').
  { destruct (step_inbound c o c' e H) as (-> & -> & -> & _).
    destruct o; rewrite ?app_nil_r; try exact Hi.
    - rewrite app_assoc, Hi. reflexivity.
    - rewrite <- app_assoc, firstn_skipn. exact Hi. }
  assert (Hff : ran c' ++ sends_of (pending c') = enq c').
  { destruct (step_enq_ran c o c' e H) as [-> ->]. unfold enq_of, ran_of.
    step_cases H; rw_conds; projs'; rewrite ?app_nil_r, ?sends_of_app, ?s_q_sends, ?app_nil_r; cbn [sends_of flat_map app];
      rewrite ?app_nil_r; try exact Hf.
    all: try (rewrite <- Hf, Epend; cbn [sends_of flat_map app]; rewrite <- ?app_assoc; reflexivity).
    all: try (rewrite <- Hf, ?sends_of_app; cbn [sends_of flat_map app]; rewrite ?app_nil_r, <- ?app_assoc; reflexivity).
    all: try (rewrite app_assoc, Hf; reflexivity).
    all: destruct (h_empty c k && has_wc c); cbn [sends_of flat_map app]; rewrite ?app_nil_r; exact Hf. }
  constructor; assumption.
Qed.

Lemma rereg_invS c c' : InvS c' -> InvS (rereg c c').
Proof.
  intros [Hs Hi Hf].
  destruct (rereg_fields c c') as (_ & Ho & Hib & _ & _ & _ & _ & _ & _ & Hw & _ & Hp & _ & _ & Ha & Hc & Hd & He & Hr & _).
  constructor; rewrite ?Ho, ?Hib, ?Hw, ?Hp, ?Ha, ?Hc, ?Hd, ?He, ?Hr; assumption.
Qed.

(* inversion of the steps of the x-machine *)
Lemma xstep_Base_inv x b x' e : xstep x (Base b) = Ok (x', e) ->
  exists c', step (xbase x) b = Ok (c', e) /\
    x' = mkX (rereg (xbase x) c') (xreqs x) (xtimers_after (xbase x) b (xtimers x)).
Proof.
  cbn [xstep]. destruct (match b with RunOne _ => timer_due (xtimers x) | _ => false end); [discriminate|].
  destruct (step (xbase x) b) as [[c' e']| |]; try discriminate.
  intros H. injection H as <- <-. eauto.
Qed.

Lemma xstep_XCheck_inv x t r x' e : xstep x (XCheck t r) = Ok (x', e) ->
  st (xbase x) <> Connecting /\ find_req t (xreqs x) = None /\ e = [] /\
  x' = mkX (xbase x) (mkReq t r (creq_test r (st (xbase x))) false :: xreqs x) (xtimers x).
Proof.
  cbn [xstep]. destruct (cstate_eqb (st (xbase x)) Connecting) eqn:Ec; [discriminate|].
  destruct (find_req t (xreqs x)); [discriminate|]. intros H. injection H as <- <-.
  apply cstate_eqb_false in Ec. auto.
Qed.

Lemma xstep_XSet_inv x t x' e : xstep x (XSet t) = Ok (x', e) ->
  exists q, find_req t (xreqs x) = Some q /\ rq_stored q = false /\ e = [] /\
    x' = mkX (if rq_passed q then set_st (xbase x) Disconnecting else xbase x)
             (mkReq t (rq_kind q) (rq_passed q) true :: drop_req t (xreqs x)) (xtimers x).
Proof.
  cbn [xstep]. destruct (find_req t (xreqs x)) as [q|]; [|discriminate].
  destruct (rq_stored q) eqn:Es; [discriminate|]. intros H. injection H as <- <-. eauto.
Qed.

Lemma xstep_XEnq_inv x t x' e : xstep x (XEnq t) = Ok (x', e) ->
  exists q, find_req t (xreqs x) = Some q /\ rq_stored q = true /\ e = [] /\
    x' = mkX (if rq_passed q && negb (is_delay (rq_kind q)) then creq_enqueue (rq_kind q) (xbase x) else xbase x)
             (drop_req t (xreqs x))
             (if rq_passed q && is_delay (rq_kind q) then xtimers x ++ [length (pending (xbase x))] else xtimers x).
Proof.
  cbn [xstep]. destruct (find_req t (xreqs x)) as [q|]; [|discriminate].
  destruct (rq_stored q) eqn:Es; [|discriminate]. intros H. injection H as <- <-. eauto.
Qed.

Lemma xstep_XRunTimer_inv x x' e : xstep x XRunTimer = Ok (x', e) ->
  exists r, xtimers x = 0 :: r /\ e = [] /\ x' = mkX (creq_enqueue RForceCloseDelay (xbase x)) (xreqs x) r.
Proof.
  cbn [xstep]. destruct (xtimers x) as [|[|n] r]; try discriminate. intros H. injection H as <- <-. eauto.
Qed.

Lemma creq_enqueue_invS r c : InvS c -> InvS (creq_enqueue r c).
Proof.
  intros [Hs Hi Hf]. destruct r; constructor;
    cbn [creq_enqueue set_pending wire outb accepted consumed inb delivered ran pending enq]; try assumption.
  - rewrite sends_of_one by discriminate. exact Hf.
  - rewrite sends_of_one by discriminate. exact Hf.
Qed.

Lemma xstep_invS x o x' e : InvS (xbase x) -> xstep x o = Ok (x', e) -> InvS (xbase x').
Proof.
  intros HS H. destruct o as [b|t r|t|t|].
  - apply xstep_Base_inv in H as (c' & E & ->). cbn [xbase].
    apply rereg_invS. eapply step_invS; eassumption.
  - apply xstep_XCheck_inv in H as (_ & _ & _ & ->). exact HS.
  - apply xstep_XSet_inv in H as (q & _ & _ & _ & ->). cbn [xbase]. destruct (rq_passed q); [|exact HS].
    destruct HS as [Hs Hi Hf]. constructor; cbn [set_st wire outb accepted consumed inb delivered ran pending enq]; assumption.
  - apply xstep_XEnq_inv in H as (q & _ & _ & _ & ->). cbn [xbase].
    destruct (rq_passed q && negb (is_delay (rq_kind q))); [apply creq_enqueue_invS|]; exact HS.
  - apply xstep_XRunTimer_inv in H as (r & _ & _ & ->). cbn [xbase]. apply creq_enqueue_invS, HS.
Qed.

(* C01's stream equations hold after EVERY history of the x-machine, racy or not: what the peer
   read ++ backlog = the blocks sendInLoop took; consumed ++ input buffer = delivered; foreign
   sends FIFO.  (The racy store touches only state_.) *)
Theorem xrun_streams : forall ops x x' e, InvS (xbase x) -> xrun x ops = Ok (x', e) -> InvS (xbase x').
Proof.
  induction ops as [|o ops IH]; intros x x' e HS H.
  - cbn in H. injection H as <- _. exact HS.
  - apply xrun_cons in H as (x1 & e1 & e2 & H1 & H2 & _).
    eapply IH; [|exact H2]. eapply xstep_invS; eassumption.
Qed.

(* ---- the hypothesis: at its store a request's state test still passes ----------------------- *)
Definition set_ok (x : xconn) (o : xop) : Prop :=
  match o with
  | XSet t =>
      match find_req t (xreqs x) with
      | Some q => rq_passed q = true -> rq_stored q = false -> creq_test (rq_kind q) (st (xbase x)) = true
      | None => True
      end
  | _ => True
  end.

Fixpoint race_free (x : xconn) (ops : list xop) : Prop :=
  match ops with
  | [] => True
  | o :: r => set_ok x o /\ match xstep x o with Ok (x1, _) => race_free x1 r | _ => True end
  end.

(* a request whose store has been executed with a passed test: the state is Disconnecting or
   Disconnected, for good *)
Definition stored_ok (x : xconn) : Prop :=
  forall q, In q (xreqs x) -> rq_passed q = true -> rq_stored q = true ->
    st (xbase x) = Disconnecting \/ st (xbase x) = Disconnected.

Record XInv (x : xconn) : Prop := { xi_inv : Inv (xbase x); xi_stored : stored_ok x }.

Lemma xinit_inv mark wc hw : XInv (xinit mark wc hw).
Proof. constructor; [apply init_inv|intros q []]. Qed.

Lemma find_req_in t l q : find_req t l = Some q -> In q l /\ rq_thread q = t.
Proof.
  induction l as [|a l IH]; cbn; [discriminate|].
  destruct (rq_thread a =? t) eqn:E.
  - intros H. injection H as ->. apply Nat.eqb_eq in E. auto.
  - intros H. destruct (IH H). auto.
Qed.

Lemma drop_req_in t l q : In q (drop_req t l) -> In q l.
Proof. unfold drop_req. intros H. apply filter_In in H. tauto. Qed.

Lemma step_closed_stays c o c' e : step c o = Ok (c', e) ->
  st c = Disconnecting \/ st c = Disconnected -> st c' = Disconnecting \/ st c' = Disconnected.
Proof.
  intros H Hs. step_cases H; auto; st_norm; try (destruct Hs; congruence).
Qed.

Lemma creq_test_up r s : creq_test r s = true -> s = Connected \/ s = Disconnecting.
Proof. destruct r, s; cbn; intros H; try discriminate; auto. Qed.

Lemma creq_enqueue_inv r c : Inv c -> st c = Disconnecting \/ st c = Disconnected -> Inv (creq_enqueue r c).
Proof.
  intros HI Hs.
  assert (Hc : st c <> Connecting) by (destruct Hs as [E|E]; rewrite E; discriminate).
  assert (Hn : st c <> Connected) by (destruct Hs as [E|E]; rewrite E; discriminate).
  destruct r; cbn [creq_enqueue].
  - apply set_pending_inv; [exact HI|exact Hc| | |].
    + rewrite sends_of_app. cbn. apply app_nil_r.
    + left. rewrite destroys_app. cbn. apply Nat.add_0_r.
    + intros _. exact Hn.
  - apply set_pending_inv; [exact HI|exact Hc| | |].
    + rewrite sends_of_app. cbn. apply app_nil_r.
    + left. rewrite destroys_app. cbn. apply Nat.add_0_r.
    + intros H. apply in_app_or in H as [H|[H|[]]]; [apply (i_shut c HI H)|discriminate].
  - apply (set_aux_inv c (chk c) (S (delayed c)) HI).
Qed.

Lemma creq_enqueue_st r c : st (creq_enqueue r c) = st c.
Proof. destruct r; reflexivity. Qed.

Lemma xstep_xinv x o x' e : XInv x -> set_ok x o -> xstep x o = Ok (x', e) -> XInv x'.
Proof.
  intros [HI Hst] Hok H. destruct o as [b|t r|t|t|].
  - apply xstep_Base_inv in H as (c' & E & ->).
    rewrite (rereg_id _ _ _ _ HI E). constructor; unfold stored_ok; cbn [xbase xreqs].
    + eapply step_inv; eassumption.
    + intros q Hq Hp Hs. eapply step_closed_stays; [exact E|]. eapply Hst; eassumption.
  - apply xstep_XCheck_inv in H as (_ & _ & _ & ->). constructor; unfold stored_ok; cbn [xbase xreqs].
    + exact HI.
    + intros q [<-|Hq] Hp Hs; [discriminate Hs|]. eapply Hst; eassumption.
  - apply xstep_XSet_inv in H as (q & Ef & Es & _ & ->).
    cbn [set_ok] in Hok. rewrite Ef in Hok.
    destruct (rq_passed q) eqn:Ep.
    + specialize (Hok eq_refl Es). apply creq_test_up in Hok.
      constructor; unfold stored_ok; cbn [xbase xreqs].
      * apply set_st_disc_inv; [exact HI|exact Hok].
      * intros q' _ _ _. left. reflexivity.
    + constructor; unfold stored_ok; cbn [xbase xreqs]; [exact HI|].
      intros q' [<-|Hq] Hp Hs; [discriminate Hp|]. apply drop_req_in in Hq. eapply Hst; eassumption.
  - apply xstep_XEnq_inv in H as (q & Ef & Es & _ & ->).
    destruct (find_req_in _ _ _ Ef) as [Hin _].
    constructor; unfold stored_ok; cbn [xbase xreqs].
    + destruct (rq_passed q) eqn:Ep; cbn [andb]; [|exact HI].
      destruct (negb (is_delay (rq_kind q))); [|exact HI].
      apply creq_enqueue_inv; [exact HI|]. exact (Hst q Hin Ep Es).
    + intros q' Hq Hp' Hs'. apply drop_req_in in Hq.
      replace (st (if rq_passed q && negb (is_delay (rq_kind q)) then creq_enqueue (rq_kind q) (xbase x) else xbase x))
        with (st (xbase x)) by (destruct (rq_passed q && negb (is_delay (rq_kind q))); [rewrite creq_enqueue_st|]; reflexivity).
      eapply Hst; eassumption.
  - apply xstep_XRunTimer_inv in H as (r & _ & _ & ->).
    constructor; unfold stored_ok; cbn [xbase xreqs].
    + apply (set_aux_inv (xbase x) (chk (xbase x)) (S (delayed (xbase x))) HI).
    + intros q Hq Hp Hs. rewrite creq_enqueue_st. eapply Hst; eassumption.
Qed.

Lemma xstep_no_fault x o : XInv x -> xstep x o <> Fault.
Proof.
  intros [HI _] H. destruct o as [b|t r|t|t|]; cbn [xstep] in H.
  - destruct (match b with RunOne _ => timer_due (xtimers x) | _ => false end); [discriminate|].
    destruct (step (xbase x) b) as [[c' e']| |] eqn:E; try discriminate. eapply no_fault; eassumption.
  - destruct (cstate_eqb (st (xbase x)) Connecting); [discriminate|]. destruct (find_req t (xreqs x)); discriminate.
  - destruct (find_req t (xreqs x)) as [q|]; [|discriminate]. destruct (rq_stored q); discriminate.
  - destruct (find_req t (xreqs x)) as [q|]; [|discriminate]. destruct (rq_stored q); discriminate.
  - destruct (xtimers x) as [|[|n] r]; discriminate.
Qed.

Lemma xstep_updown x o x' e : xstep x o = Ok (x', e) ->
  ups (xbase x') = ups (xbase x) + count is_up e /\ downs (xbase x') = downs (xbase x) + count is_down e.
Proof.
  intros H. destruct o as [b|t r|t|t|].
  - apply xstep_Base_inv in H as (c' & E & ->). cbn [xbase].
    destruct (rereg_fields (xbase x) c') as (_ & _ & _ & _ & _ & _ & _ & _ & _ & _ & _ & _ & _ & _ & _ & _ & _ & _ & _ & -> & ->).
    eapply step_updown, E.
  - apply xstep_XCheck_inv in H as (_ & _ & -> & ->). cbn. lia.
  - apply xstep_XSet_inv in H as (q & _ & _ & -> & ->). cbn [xbase]. destruct (rq_passed q); cbn; lia.
  - apply xstep_XEnq_inv in H as (q & _ & _ & -> & ->). cbn [xbase].
    destruct (rq_passed q && negb (is_delay (rq_kind q))); [destruct (rq_kind q)|]; cbn; lia.
  - apply xstep_XRunTimer_inv in H as (r & _ & -> & ->). cbn. lia.
Qed.

Lemma xrun_updown ops : forall x x' e, xrun x ops = Ok (x', e) ->
  ups (xbase x') = ups (xbase x) + count is_up e /\ downs (xbase x') = downs (xbase x) + count is_down e.
Proof.
  induction ops as [|o ops IH]; intros x x' e H.
  - cbn in H. injection H as <- <-. cbn. lia.
  - apply xrun_cons in H as (x1 & e1 & e2 & H1 & H2 & ->).
    destruct (IH x1 x' e2 H2). destruct (xstep_updown x o x1 e1 H1). rewrite !count_app. lia.
Qed.

(* PARTIAL.  Every history of the x-machine in which each request's state test still passes at
   its store - any placement of the loads, stores and hand-offs otherwise - keeps the whole
   invariant of the base machine (so every theorem stated for its reachable states applies),
   never hits an assertion of the C++, and delivers at most one UP and at most one DOWN, the
   DOWN exactly when the connection ends Disconnected *)
Theorem xrun_race_free : forall ops x, XInv x -> race_free x ops ->
  xrun x ops <> Fault /\
  forall x' e, xrun x ops = Ok (x', e) -> XInv x'.
Proof.
  induction ops as [|o ops IH]; intros x HX Hrf.
  - split; [discriminate|]. intros x' e H. cbn in H. injection H as <- _. exact HX.
  - cbn [race_free] in Hrf. destruct Hrf as [Hok Hrest]. cbn [xrun].
    destruct (xstep x o) as [[x1 e1]| |] eqn:E1.
    + pose proof (xstep_xinv x o x1 e1 HX Hok E1) as HX1.
      destruct (IH x1 HX1 Hrest) as [Hnf Hinv].
      split.
      * destruct (xrun x1 ops) as [[x2 e2]| |]; try discriminate. congruence.
      * intros x' e H. destruct (xrun x1 ops) as [[x2 e2]| |] eqn:E2; try discriminate.
        injection H as <- _. eapply Hinv. reflexivity.
    + split; [discriminate|]. intros; discriminate.
    + exfalso. eapply xstep_no_fault; eassumption.
Qed.

Theorem xrun_race_free_once : forall mark wc hw ops x e,
  race_free (xinit mark wc hw) ops -> xrun (xinit mark wc hw) ops = Ok (x, e) ->
  Inv (xbase x) /\ count is_up e <= 1 /\ count is_down e <= count is_up e /\
  (count is_down e = 1 <-> st (xbase x) = Disconnected).
Proof.
  intros mark wc hw ops x e Hrf H.
  destruct (xrun_race_free ops _ (xinit_inv mark wc hw) Hrf) as [_ Hinv].
  destruct (Hinv x e H) as [HI _]. split; [exact HI|].
  destruct (xrun_updown ops _ _ _ H) as [Hu Hd]. cbn in Hu, Hd.
  pose proof (i_updown _ HI) as Hud. destruct (st (xbase x)); split; try split; try lia;
    split; intros; try lia; try discriminate; reflexivity.
Qed.

(* ---- adjacent micro-steps are the atomic ops of the base machine ---------------------------- *)
Lemma drop_req_fresh t l : find_req t l = None -> drop_req t l = l.
Proof.
  unfold drop_req. induction l as [|a l IH]; cbn; [reflexivity|].
  destruct (rq_thread a =? t); [discriminate|]. intros H. cbn. rewrite (IH H). reflexivity.
Qed.

Lemma rereg_same_interest c c' : writing c' = writing c -> rd_chan c' = rd_chan c -> downs c' = downs c ->
  registered c' = registered c -> rereg c c' = c'.
Proof.
  intros Hw Hr Hd Hg. unfold rereg. rewrite Hw, Hr, Hd, Hg, !eqb_reflx, Nat.eqb_refl. cbn.
  destruct (registered c && negb (registered c)); reflexivity.
Qed.

Lemma xstep_check c reqs tm t r : st c <> Connecting -> find_req t reqs = None ->
  xstep (mkX c reqs tm) (XCheck t r) = Ok (mkX c (mkReq t r (creq_test r (st c)) false :: reqs) tm, []).
Proof.
  intros Hc Hf. cbn [xstep xbase xreqs xtimers]. apply cstate_eqb_false in Hc. rewrite Hc, Hf. reflexivity.
Qed.

Lemma drop_req_head t r p b reqs : find_req t reqs = None -> drop_req t (mkReq t r p b :: reqs) = reqs.
Proof.
  intros Hf. unfold drop_req. cbn [filter rq_thread]. rewrite Nat.eqb_refl. cbn [negb].
  apply (drop_req_fresh t reqs Hf).
Qed.

Lemma xstep_set c reqs tm t r p : find_req t reqs = None ->
  xstep (mkX c (mkReq t r p false :: reqs) tm) (XSet t) =
  Ok (mkX (if p then set_st c Disconnecting else c) (mkReq t r p true :: reqs) tm, []).
Proof.
  intros Hf. cbn [xstep xbase xreqs xtimers find_req rq_thread]. rewrite Nat.eqb_refl.
  cbn [rq_stored rq_passed rq_kind]. rewrite (drop_req_head t r p false reqs Hf). reflexivity.
Qed.

Lemma xstep_enq c reqs tm t r p : find_req t reqs = None ->
  xstep (mkX c (mkReq t r p true :: reqs) tm) (XEnq t) =
  Ok (mkX (if p && negb (is_delay r) then creq_enqueue r c else c) reqs
          (if p && is_delay r then tm ++ [length (pending c)] else tm), []).
Proof.
  intros Hf. cbn [xstep xbase xreqs xtimers find_req rq_thread]. rewrite Nat.eqb_refl.
  cbn [rq_stored rq_passed rq_kind]. rewrite (drop_req_head t r p true reqs Hf). reflexivity.
Qed.

Lemma adjacent_run c reqs tm t r : st c <> Connecting -> find_req t reqs = None ->
  xrun (mkX c reqs tm) [XCheck t r; XSet t; XEnq t] =
  Ok (mkX (if creq_test r (st c) then (if is_delay r then set_st c Disconnecting else creq_enqueue r (set_st c Disconnecting)) else c)
          reqs
          (if creq_test r (st c) && is_delay r then tm ++ [length (pending c)] else tm), []).
Proof.
  intros Hc Hf. cbn [xrun]. rewrite (xstep_check c reqs tm t r Hc Hf), (xstep_set c reqs tm t r _ Hf).
  rewrite (xstep_enq _ reqs tm t r _ Hf). destruct (creq_test r (st c)); destruct r; reflexivity.
Qed.

(* a foreign shutdown() / forceClose() whose load, store and hand-off are adjacent IS the atomic op;
   a foreign forceCloseWithDelay() additionally needs the loop to run the queued addTimerInLoop
   (here: at once, nothing else being queued) *)
Theorem adjacent_is_atomic : forall c reqs tm t, st c <> Connecting -> find_req t reqs = None ->
  xrun (mkX c reqs tm) [XCheck t RShutdown; XSet t; XEnq t] = xstep (mkX c reqs tm) (Base XShutdown) /\
  xrun (mkX c reqs tm) [XCheck t RForceClose; XSet t; XEnq t] = xstep (mkX c reqs tm) (Base ForceClose) /\
  (pending c = [] -> tm = [] ->
   xrun (mkX c reqs tm) [XCheck t RForceCloseDelay; XSet t; XEnq t; XRunTimer] = xstep (mkX c reqs tm) (Base ForceCloseDelay) \/
   (creq_test RForceCloseDelay (st c) = false /\
    xrun (mkX c reqs tm) [XCheck t RForceCloseDelay; XSet t; XEnq t] = xstep (mkX c reqs tm) (Base ForceCloseDelay))).
Proof.
  intros c reqs tm t Hc Hf.
  assert (Ec : cstate_eqb (st c) Connecting = false) by (apply cstate_eqb_false, Hc).
  split; [|split].
  - rewrite (adjacent_run c reqs tm t _ Hc Hf).
    cbn [xstep xbase xreqs xtimers xtimers_after]. unfold step. cbn [user_op andb]. rewrite Ec.
    unfold ok. cbn [creq_test creq_enqueue is_delay andb].
    destruct (cstate_eqb (st c) Connected); cbn [andb]; rewrite rereg_same_interest by reflexivity; reflexivity.
  - rewrite (adjacent_run c reqs tm t _ Hc Hf).
    cbn [xstep xbase xreqs xtimers xtimers_after]. unfold step. cbn [user_op andb]. rewrite Ec.
    unfold forceClose, closable, ok. cbn [creq_test creq_enqueue is_delay andb].
    destruct (cstate_eqb (st c) Connected || cstate_eqb (st c) Disconnecting); cbn [andb];
      rewrite rereg_same_interest by reflexivity; reflexivity.
  - intros Hp ->.
    assert (Hb : xstep (mkX c reqs []) (Base ForceCloseDelay) =
                 Ok (mkX (if creq_test RForceCloseDelay (st c) then creq_enqueue RForceCloseDelay (set_st c Disconnecting) else c) reqs [], [])).
    { cbn [xstep xbase xreqs xtimers xtimers_after]. unfold step. cbn [user_op andb]. rewrite Ec.
      unfold closable, ok. cbn [creq_test creq_enqueue].
      destruct (cstate_eqb (st c) Connected || cstate_eqb (st c) Disconnecting);
        rewrite rereg_same_interest by reflexivity; reflexivity. }
    destruct (creq_test RForceCloseDelay (st c)) eqn:Et.
    + left. change [XCheck t RForceCloseDelay; XSet t; XEnq t; XRunTimer]
        with ([XCheck t RForceCloseDelay; XSet t; XEnq t] ++ [XRunTimer]).
      rewrite Hb. cbn [app xrun].
      rewrite (xstep_check c reqs [] t _ Hc Hf), (xstep_set c reqs [] t _ _ Hf), (xstep_enq _ reqs [] t _ _ Hf).
      rewrite Et. cbn [is_delay andb negb app set_st pending]. rewrite Hp. cbn [length xstep xtimers xbase xreqs app].
      reflexivity.
    + right. split; [reflexivity|]. rewrite Hb, (adjacent_run c reqs [] t _ Hc Hf), Et. reflexivity.
Qed.

(* ---- the race: witnesses -------------------------------------------------------------------- *)
(* forceClose() on a foreign thread loads state_ (kConnected), the peer's close is processed by
   the loop thread (DOWN, connectDestroyed queued), the foreign store then overwrites kDisconnected
   with kDisconnecting: connectDestroyed sees an "up" connection and reports DOWN a second time *)
Definition race_ops (r : creq) : list xop :=
  [Base Establish; XCheck 1 r; Base EvReadEOF; XSet 1; XEnq 1; Base (RunOne AcceptAll)].

Lemma race_witness : forall r,
  exists x e, xrun (xinit 1024%N true true) (race_ops r) = Ok (x, e) /\
    count is_down e = 2 /\ count is_up e = 1 /\ downs (xbase x) = 2 /\
    filter (fun ev => is_up ev || is_down ev) e = [EvUp; EvDown; EvDown] /\
    ~ race_free (xinit 1024%N true true) (race_ops r) /\
    InvS (xbase x) /\ ~ Inv (xbase x).
Proof.
  intros r. destruct (xrun (xinit 1024%N true true) (race_ops r)) as [[x e]| |] eqn:E;
    try (destruct r; vm_compute in E; discriminate).
  exists x, e. split; [reflexivity|].
  assert (HS : InvS (xbase x)) by (eapply xrun_streams; [|exact E]; apply Inv_InvS, init_inv).
  destruct r; vm_compute in E; injection E as <- <-; cbn [xbase].
  all: repeat split; try reflexivity; try exact HS.
  all: try (intros H; vm_compute in H; destruct H as (_ & _ & _ & H & _); specialize (H eq_refl eq_refl); discriminate).
  all: intros HI; pose proof (i_updown _ HI) as Hud; cbn in Hud; lia.
Qed.

(* second order of events: the queued connectDestroyed has already run (channel removed) when
   the store lands; the queued forceCloseInLoop then passes its state test and runs handleClose a
   second time on the unregistered connection *)
Definition race_ops2 : list xop :=
  [Base Establish; XCheck 1 RForceClose; Base EvReadEOF; Base (RunOne AcceptAll); XSet 1; XEnq 1;
   Base (RunOne AcceptAll); Base (RunOne AcceptAll)].

Lemma race_witness2 :
  exists x e, xrun (xinit 1024%N true true) race_ops2 = Ok (x, e) /\
    filter (fun ev => is_up ev || is_down ev) e = [EvUp; EvDown; EvDown] /\ downs (xbase x) = 2 /\
    registered (xbase x) = false /\ st (xbase x) = Disconnected.
Proof. vm_compute. eexists _, _. repeat split. Qed.

(* the statement "DOWN exactly once" over all histories of the x-machine is false *)
Lemma down_once_foreign_refuted :
  ~ (forall mark wc hw ops x e, xrun (xinit mark wc hw) ops = Ok (x, e) -> count is_down e <= 1).
Proof.
  intros Hall. destruct (race_witness RForceClose) as (x & e & H & Hd & _).
  specialize (Hall _ _ _ _ _ _ H). lia.
Qed.

(* ---- definitions unfolded for the Properties files ------------------------------------------ *)
Lemma creq_test_unfold : forall r s,
  creq_test r s = match r with
                  | RShutdown => cstate_eqb s Connected
                  | RForceClose | RForceCloseDelay => cstate_eqb s Connected || cstate_eqb s Disconnecting
                  end.
Proof. reflexivity. Qed.

Lemma set_ok_unfold : forall x o,
  set_ok x o =
  match o with
  | XSet t =>
      match find_req t (xreqs x) with
      | Some q => rq_passed q = true -> rq_stored q = false -> creq_test (rq_kind q) (st (xbase x)) = true
      | None => True
      end
  | _ => True
  end.
Proof. reflexivity. Qed.

Lemma race_free_unfold : forall x ops,
  race_free x ops =
  match ops with
  | [] => True
  | o :: r => set_ok x o /\ match xstep x o with Ok (x1, _) => race_free x1 r | _ => True end
  end.
Proof. intros x [|o r]; reflexivity. Qed.

Lemma race_ops_unfold : forall r,
  race_ops r = [Base Establish; XCheck 1 r; Base EvReadEOF; XSet 1; XEnq 1; Base (RunOne AcceptAll)].
Proof. reflexivity. Qed.

Lemma xstep_unfold : forall x o,
  xstep x o =
  match o with
  | Base b =>
      if (match b with RunOne _ => timer_due (xtimers x) | _ => false end) then Rejected
      else
      match step (xbase x) b with
      | Ok (c', e) => Ok (mkX (rereg (xbase x) c') (xreqs x) (xtimers_after (xbase x) b (xtimers x)), e)
      | Rejected => Rejected
      | Fault => Fault
      end
  | XCheck t r =>
      if cstate_eqb (st (xbase x)) Connecting then Rejected
      else match find_req t (xreqs x) with
           | Some _ => Rejected
           | None => Ok (mkX (xbase x) (mkReq t r (creq_test r (st (xbase x))) false :: xreqs x) (xtimers x), [])
           end
  | XSet t =>
      match find_req t (xreqs x) with
      | Some q =>
          if rq_stored q then Rejected
          else Ok (mkX (if rq_passed q then set_st (xbase x) Disconnecting else xbase x)
                       (mkReq t (rq_kind q) (rq_passed q) true :: drop_req t (xreqs x)) (xtimers x), [])
      | None => Rejected
      end
  | XEnq t =>
      match find_req t (xreqs x) with
      | Some q =>
          if rq_stored q
          then Ok (mkX (if rq_passed q && negb (is_delay (rq_kind q)) then creq_enqueue (rq_kind q) (xbase x) else xbase x)
                       (drop_req t (xreqs x))
                       (if rq_passed q && is_delay (rq_kind q) then xtimers x ++ [length (pending (xbase x))] else xtimers x), [])
          else Rejected
      | None => Rejected
      end
  | XRunTimer =>
      match xtimers x with
      | 0 :: r => Ok (mkX (creq_enqueue RForceCloseDelay (xbase x)) (xreqs x) r, [])
      | _ => Rejected
      end
  end.
Proof. intros x [b|t r|t|t|]; reflexivity. Qed.

Lemma xtimers_unfold : forall c o l,
  xtimers_after c o l = (match o with
                         | RunOne _ => match pending c with [] => l | _ :: _ => map pred l end
                         | _ => l
                         end) /\
  timer_due l = (match l with 0 :: _ => true | _ => false end).
Proof. split; reflexivity. Qed.

Lemma race_ops2_unfold :
  race_ops2 = [Base Establish; XCheck 1 RForceClose; Base EvReadEOF; Base (RunOne AcceptAll); XSet 1; XEnq 1;
               Base (RunOne AcceptAll); Base (RunOne AcceptAll)].
Proof. reflexivity. Qed.

(* from the initial state, as equations *)
Theorem xrun_streams_init : forall mark wc hw ops x e,
  xrun (xinit mark wc hw) ops = Ok (x, e) ->
  wire (xbase x) ++ outb (xbase x) = accepted (xbase x) /\
  consumed (xbase x) ++ inb (xbase x) = delivered (xbase x) /\
  ran (xbase x) ++ sends_of (pending (xbase x)) = enq (xbase x).
Proof.
  intros mark wc hw ops x e H.
  destruct (xrun_streams ops (xinit mark wc hw) x e (Inv_InvS _ (init_inv mark wc hw)) H) as [H1 H2 H3]. auto.
Qed.

(* a Base step of the x-machine is the step of the base machine on every field but [registered]:
   the per-step theorems that hold for EVERY state of the base machine (Properties_C13) apply to
   every Base step of every history of the x-machine, racy or not *)
Theorem xstep_base_fields : forall x o x' e, xstep x (Base o) = Ok (x', e) ->
  exists c', step (xbase x) o = Ok (c', e) /\ xreqs x' = xreqs x /\
    st (xbase x') = st c' /\ outb (xbase x') = outb c' /\ inb (xbase x') = inb c' /\
    writing (xbase x') = writing c' /\ rd_chan (xbase x') = rd_chan c' /\ hwm (xbase x') = hwm c' /\
    has_wc (xbase x') = has_wc c' /\ has_hwm (xbase x') = has_hwm c' /\ wire (xbase x') = wire c' /\
    fin (xbase x') = fin c' /\ pending (xbase x') = pending c' /\ downs (xbase x') = downs c'.
Proof.
  intros x o x' e H. apply xstep_Base_inv in H as (c' & E & ->).
  exists c'. split; [exact E|]. cbn [xbase xreqs]. split; [reflexivity|].
  destruct (rereg_fields (xbase x) c') as (H1 & H2 & H3 & H4 & H5 & _ & H7 & H8 & H9 & H10 & H11 & H12 & _ & _ & _ & _ & _ & _ & _ & _ & H21).
  auto 15.
Qed.

(* ---- the whole-history theorems of C01 / C13 / C03 over the x-machine ------------------------ *)
(* the Base steps of a history of the x-machine, as (state before, op, state after) *)
Fixpoint xtrace (x : xconn) (ops : list xop) : list (conn * op * conn) :=
  match ops with
  | [] => []
  | o :: r =>
      match xstep x o with
      | Ok (x1, _) => (match o with Base b => [(xbase x, b, xbase x1)] | _ => [] end) ++ xtrace x1 r
      | _ => []
      end
  end.

Lemma xtrace_cons x o ops x1 e1 : xstep x o = Ok (x1, e1) ->
  xtrace x (o :: ops) = (match o with Base b => [(xbase x, b, xbase x1)] | _ => [] end) ++ xtrace x1 ops.
Proof. intros H. cbn [xtrace]. rewrite H. reflexivity. Qed.

Lemma xtrace_unfold : forall x ops,
  xtrace x ops =
  match ops with
  | [] => []
  | o :: r =>
      match xstep x o with
      | Ok (x1, _) => (match o with Base b => [(xbase x, b, xbase x1)] | _ => [] end) ++ xtrace x1 r
      | _ => []
      end
  end.
Proof. intros x [|o r]; reflexivity. Qed.

(* an X step changes neither the streams, nor the callback functors of the queue, and emits no event *)
Lemma xstep_nonbase x o x' e : xstep x o = Ok (x', e) -> (forall b, o <> Base b) ->
  e = [] /\ accepted (xbase x') = accepted (xbase x) /\ cbs (pending (xbase x')) = cbs (pending (xbase x)).
Proof.
  intros H Hn. destruct o as [b|t r|t|t|]; [exfalso; eapply Hn; reflexivity| | | |].
  - apply xstep_XCheck_inv in H as (_ & _ & -> & ->). auto.
  - apply xstep_XSet_inv in H as (q & _ & _ & -> & ->). cbn [xbase]. destruct (rq_passed q); auto.
  - apply xstep_XEnq_inv in H as (q & _ & _ & -> & ->). cbn [xbase].
    destruct (rq_passed q && negb (is_delay (rq_kind q))); [|auto].
    destruct (rq_kind q); cbn [creq_enqueue set_pending accepted pending]; rewrite ?cbs_app; cbn; rewrite ?app_nil_r; auto.
  - apply xstep_XRunTimer_inv in H as (r & _ & -> & ->). cbn. auto.
Qed.

Lemma xrun_blocks ops : forall x x' e, xrun x ops = Ok (x', e) ->
  accepted (xbase x') = accepted (xbase x) ++ flat_map step_block (xtrace x ops).
Proof.
  induction ops as [|o ops IH]; intros x x' e H.
  - cbn in H. injection H as <- _. cbn. symmetry. apply app_nil_r.
  - apply xrun_cons in H as (x1 & e1 & e2 & H1 & H2 & _).
    rewrite (xtrace_cons x o ops x1 e1 H1), flat_map_app, (IH x1 x' e2 H2).
    destruct o as [b|t r|t|t|].
    + apply xstep_Base_inv in H1 as (c' & Hs & ->). cbn [xbase flat_map].
      destruct (rereg_fields (xbase x) c') as (_ & _ & _ & _ & _ & _ & _ & _ & _ & _ & _ & _ & _ & _ & -> & _).
      rewrite (step_accepted _ _ _ _ Hs). unfold step_block, pre, opx. cbn [fst snd].
      rewrite app_nil_r, <- app_assoc. reflexivity.
    + destruct (xstep_nonbase x _ x1 e1 H1) as (_ & -> & _); [discriminate|]. reflexivity.
    + destruct (xstep_nonbase x _ x1 e1 H1) as (_ & -> & _); [discriminate|]. reflexivity.
    + destruct (xstep_nonbase x _ x1 e1 H1) as (_ & -> & _); [discriminate|]. reflexivity.
    + destruct (xstep_nonbase x _ x1 e1 H1) as (_ & -> & _); [discriminate|]. reflexivity.
Qed.

(* C01 headline over the x-machine, for EVERY history (racy or not): wire ++ backlog = the blocks of
   the sendInLoops of the history, in order *)
Theorem xoutbound_trace : forall mark wc hw ops x e,
  xrun (xinit mark wc hw) ops = Ok (x, e) ->
  wire (xbase x) ++ outb (xbase x) = flat_map step_block (xtrace (xinit mark wc hw) ops).
Proof.
  intros mark wc hw ops x e H.
  destruct (xrun_streams_init mark wc hw ops x e H) as (-> & _).
  apply (xrun_blocks ops _ _ _ H).
Qed.

Lemma cb_due_post_outb c o c1 c2 : outb c2 = outb c1 -> cb_due (c, o, c2) = cb_due (c, o, c1).
Proof.
  intros Ho. unfold cb_due, wc_due, hw_due, pre, opx, post. cbn [fst snd]. rewrite Ho. reflexivity.
Qed.

Lemma xrun_callbacks ops : forall x x' e, xrun x ops = Ok (x', e) ->
  cb_events e ++ cbs (pending (xbase x')) = cbs (pending (xbase x)) ++ flat_map cb_due (xtrace x ops).
Proof.
  induction ops as [|o ops IH]; intros x x' e H.
  - cbn in H. injection H as <- <-. cbn. rewrite app_nil_r. reflexivity.
  - apply xrun_cons in H as (x1 & e1 & e2 & H1 & H2 & ->).
    rewrite (xtrace_cons x o ops x1 e1 H1), flat_map_app, cb_events_app, <- app_assoc, (IH x1 x' e2 H2), !app_assoc.
    f_equal. destruct o as [b|t r|t|t|].
    + destruct (xstep_base_fields x b x1 e1 H1) as (c' & Hs & _ & _ & Ho & _ & _ & _ & _ & _ & _ & _ & _ & Hp & _).
      cbn [flat_map]. rewrite app_nil_r, Hp, (cb_due_post_outb _ _ c' _ Ho). apply step_callbacks, Hs.
    + destruct (xstep_nonbase x _ x1 e1 H1) as (-> & _ & ->); [discriminate|]. cbn. rewrite app_nil_r. reflexivity.
    + destruct (xstep_nonbase x _ x1 e1 H1) as (-> & _ & ->); [discriminate|]. cbn. rewrite app_nil_r. reflexivity.
    + destruct (xstep_nonbase x _ x1 e1 H1) as (-> & _ & ->); [discriminate|]. cbn. rewrite app_nil_r. reflexivity.
    + destruct (xstep_nonbase x _ x1 e1 H1) as (-> & _ & ->); [discriminate|]. cbn. rewrite app_nil_r. reflexivity.
Qed.

(* C13 headline over the x-machine, for EVERY history (racy or not) *)
Theorem xcallbacks_trace : forall mark wc hw ops x e,
  xrun (xinit mark wc hw) ops = Ok (x, e) ->
  cb_events e ++ cbs (pending (xbase x)) = flat_map cb_due (xtrace (xinit mark wc hw) ops).
Proof. intros mark wc hw ops x e H. apply (xrun_callbacks ops _ _ _ H). Qed.

(* C03: in a race-free history, a connection that is up and half-closed has an empty backlog,
   interest off, and everything any sendInLoop of the history took on the wire *)
Theorem xfin_all_on_wire : forall mark wc hw ops x e,
  race_free (xinit mark wc hw) ops -> xrun (xinit mark wc hw) ops = Ok (x, e) ->
  fin (xbase x) = true -> st (xbase x) = Connected \/ st (xbase x) = Disconnecting ->
  outb (xbase x) = [] /\ writing (xbase x) = false /\ st (xbase x) = Disconnecting /\
  wire (xbase x) = flat_map step_block (xtrace (xinit mark wc hw) ops).
Proof.
  intros mark wc hw ops x e Hrf H Hf Hup.
  destruct (xrun_race_free_once mark wc hw ops x e Hrf H) as [HI _].
  destruct (i_fin _ HI Hf) as [Hnc Ho]. specialize (Ho Hup).
  split; [exact Ho|]. split; [apply inv_up_writing_false; assumption|]. split.
  - destruct Hup as [E|E]; [contradiction|exact E].
  - rewrite <- (xoutbound_trace mark wc hw ops x e H), Ho, app_nil_r. reflexivity.
Qed.

(* ---- C03's liveness-within-the-model theorems over race-free histories of the x-machine ------- *)
(* a history without stores is race-free *)
Definition is_xset (o : xop) : bool := match o with XSet _ => true | _ => false end.

Lemma race_free_no_store ops : forall x, forallb (fun o => negb (is_xset o)) ops = true -> race_free x ops.
Proof.
  induction ops as [|o ops IH]; intros x H; [exact I|].
  cbn [forallb] in H. apply andb_prop in H as [Ho Hr]. cbn [race_free]. split.
  - destruct o; try exact I. discriminate Ho.
  - destruct (xstep x o) as [[x1 e1]| |]; try exact I. apply IH, Hr.
Qed.

(* the state a race-free history reaches satisfies the invariant: C03_shutdown_flushes_then_fin
   holds there, and Base ops of the x-machine are the ops it talks about ([xstep_base]) *)
Theorem xshutdown_flushes_then_fin : forall mark wc hw ops x e,
  race_free (xinit mark wc hw) ops -> xrun (xinit mark wc hw) ops = Ok (x, e) ->
  shutdown_flush_spec (xbase x) /\
  forall o, xstep x (Base o) =
    if (match o with RunOne _ => timer_due (xtimers x) | _ => false end) then Rejected else
    match step (xbase x) o with
    | Ok (c', e') => Ok (mkX c' (xreqs x) (xtimers_after (xbase x) o (xtimers x)), e')
    | Rejected => Rejected
    | Fault => Fault
    end.
Proof.
  intros mark wc hw ops x e Hrf H.
  destruct (xrun_race_free_once mark wc hw ops x e Hrf H) as [HI _].
  split; [apply shutdown_flushes_then_fin_inv, HI|].
  intros o. destruct x as [c reqs tm]. apply (xstep_base c reqs tm o HI).
Qed.

(* the loop's task steps: it runs the oldest functor of the real queue - an addTimerInLoop
   ([XRunTimer]) or a functor of [pending] ([Base (RunOne k)]) *)
Definition is_task (o : xop) : bool :=
  match o with XRunTimer => true | Base (RunOne _) => true | _ => false end.
Definition is_runone (o : xop) : bool := match o with Base (RunOne _) => true | _ => false end.

Lemma task_no_store o : is_task o = true -> negb (is_xset o) = true.
Proof. destruct o as [[]| | | |]; cbn; intros H; try discriminate; reflexivity. Qed.

Lemma xstep_task_disconnected x o x' e : is_task o = true -> xstep x o = Ok (x', e) ->
  st (xbase x) = Disconnected -> st (xbase x') = Disconnected.
Proof.
  intros Ht H Hs. destruct o as [b|t r|t|t|]; try discriminate Ht.
  - apply xstep_Base_inv in H as (c' & E & ->). cbn [xbase].
    destruct (rereg_fields (xbase x) c') as (-> & _). eapply step_disconnected_stays; eassumption.
  - apply xstep_XRunTimer_inv in H as (r & _ & _ & ->). cbn [xbase]. rewrite creq_enqueue_st. exact Hs.
Qed.

Lemma xrun_tasks_disconnected ops : forall x x' e, forallb is_task ops = true -> xrun x ops = Ok (x', e) ->
  st (xbase x) = Disconnected -> st (xbase x') = Disconnected.
Proof.
  induction ops as [|o ops IH]; intros x x' e Ht H Hs.
  - cbn in H. injection H as <- _. exact Hs.
  - cbn [forallb] in Ht. apply andb_prop in Ht as [Ho Hr].
    apply xrun_cons in H as (x1 & e1 & e2 & H1 & H2 & _).
    eapply (IH x1 x' e2 Hr H2). eapply xstep_task_disconnected; eassumption.
Qed.

(* a queued forced close is reached by the loop: with FForceClose at position n of the queue, any
   sequence of task steps containing more than n RunOne steps ends Disconnected *)
Lemma xforce_close_reached : forall ops x x' e pre0 post0,
  XInv x -> pending (xbase x) = pre0 ++ FForceClose :: post0 ->
  forallb is_task ops = true -> length pre0 < length (filter is_runone ops) ->
  xrun x ops = Ok (x', e) -> st (xbase x') = Disconnected.
Proof.
  induction ops as [|o ops IH]; intros x x' e pre0 post0 HX Hp Ht Hn H.
  - cbn in Hn. lia.
  - cbn [forallb] in Ht. apply andb_prop in Ht as [Ho Hr].
    apply xrun_cons in H as (x1 & e1 & e2 & H1 & H2 & _).
    assert (HX1 : XInv x1).
    { eapply xstep_xinv; [exact HX| |exact H1]. destruct o as [[]| | | |]; try discriminate Ho; exact I. }
    destruct o as [b|t r|t|t|]; try discriminate Ho.
    + destruct b; try discriminate Ho. cbn [filter is_runone length] in Hn.
      apply xstep_Base_inv in H1 as (c' & E & ->).
      destruct HX as [HI _].
      rewrite (rereg_id _ _ _ _ HI E) in *.
      destruct pre0 as [|f pre1].
      * (* the forced close is the oldest functor *)
        cbn [app] in Hp. eapply (xrun_tasks_disconnected ops _ x' e2 Hr H2). cbn [xbase].
        destruct (st (xbase x)) eqn:Es.
        -- exfalso. eapply inv_pending_not_connecting; [exact HI| |exact Es]. rewrite Hp. discriminate.
        -- destruct (force_close_runs (xbase x) k post0 HI Hp (or_introl Es)) as (cx & Hx & Hd & _). congruence.
        -- destruct (force_close_runs (xbase x) k post0 HI Hp (or_intror Es)) as (cx & Hx & Hd & _). congruence.
        -- rewrite (force_close_late (xbase x) k post0 Hp Es) in E. injection E as <- _. exact Es.
      * cbn [app] in Hp. destruct (runone_pops (xbase x) k f _ c' e1 E Hp) as [extra Hp1].
        rewrite <- app_assoc in Hp1. cbn [app] in Hp1.
        eapply (IH _ x' e2 pre1 (post0 ++ extra) HX1); [exact Hp1|exact Hr| |exact H2].
        cbn [length] in Hn. lia.
    + (* the loop runs a queued addTimerInLoop: the queue of [pending] is untouched *)
      cbn [filter is_runone] in Hn.
      apply xstep_XRunTimer_inv in H1 as (r & _ & _ & ->).
      eapply (IH _ x' e2 pre0 post0 HX1); [|exact Hr|exact Hn|exact H2].
      cbn [xbase creq_enqueue pending]. exact Hp.
Qed.

(* in a state satisfying the invariant exactly one kind of task step is enabled, and it never
   faults nor is refused *)
Theorem loop_task_enabled : forall x, XInv x ->
  (timer_due (xtimers x) = true -> exists x', xstep x XRunTimer = Ok (x', [])) /\
  (timer_due (xtimers x) = false -> forall k, exists x' e, xstep x (Base (RunOne k)) = Ok (x', e)).
Proof.
  intros x [HI _]. split.
  - intros Hd. cbn [xstep]. destruct (xtimers x) as [|[|n] r]; try discriminate Hd. eauto.
  - intros Hd k. cbn [xstep]. rewrite Hd.
    destruct (runone_ok (xbase x) k HI) as (c' & e & -> & _). eauto.
Qed.

(* HEADLINE over the x-machine.  From a state reached by a race-free history in which the
   connection is up: a forced close requested on the loop thread (ForceClose, a firing DelayFire) or
   by a foreign thread (its hand-off XEnq, after its store) leaves FForceClose at the end of the
   queue; then ANY sequence of the loop's task steps that contains more RunOne steps than functors
   were queued before it - whatever the kernel answers, no peer event, the queued addTimerInLoop
   functors interleaved as they come - ends Disconnected, with exactly one DOWN in the whole
   history and none before the request *)
Theorem xforce_close_effective : forall mark wc hw ops0 x e0,
  race_free (xinit mark wc hw) ops0 -> xrun (xinit mark wc hw) ops0 = Ok (x, e0) ->
  forall pre0 post0, pending (xbase x) = pre0 ++ FForceClose :: post0 ->
  forall ops x' e, forallb is_task ops = true -> length pre0 < length (filter is_runone ops) ->
  xrun x ops = Ok (x', e) ->
  st (xbase x') = Disconnected /\ downs (xbase x') = 1 /\ count is_down (e0 ++ e) = 1 /\ count is_up (e0 ++ e) = 1.
Proof.
  intros mark wc hw ops0 x e0 Hrf H0 pre0 post0 Hp ops x' e Ht Hn H.
  destruct (xrun_race_free ops0 _ (xinit_inv mark wc hw) Hrf) as [_ Hinv].
  pose proof (Hinv x e0 H0) as HX.
  assert (Hd : st (xbase x') = Disconnected) by (eapply xforce_close_reached; eassumption).
  assert (Hrf2 : race_free x ops).
  { apply race_free_no_store. clear -Ht. induction ops as [|o ops IH]; [reflexivity|].
    cbn [forallb] in *. apply andb_prop in Ht as [Ho Hr]. rewrite (task_no_store o Ho), (IH Hr). reflexivity. }
  destruct (xrun_race_free ops x HX Hrf2) as [_ Hinv2]. destruct (Hinv2 x' e H) as [HI' _].
  pose proof (i_updown _ HI') as Hud. rewrite Hd in Hud. destruct Hud as [Hu Hdn].
  destruct (xrun_updown ops0 _ _ _ H0) as [Hu0 Hd0]. destruct (xrun_updown ops _ _ _ H) as [Hu1 Hd1].
  cbn in Hu0, Hd0. rewrite !count_app. repeat split; try assumption; lia.
Qed.

(* how the request puts FForceClose at the end of the queue *)
Theorem xforce_close_requests : forall x, XInv x -> st (xbase x) = Connected \/ st (xbase x) = Disconnecting ->
  (exists x1, xstep x (Base ForceClose) = Ok (x1, []) /\ pending (xbase x1) = pending (xbase x) ++ [FForceClose]) /\
  (forall n, delayed (xbase x) = S n ->
     exists x1, xstep x (Base DelayFire) = Ok (x1, []) /\ pending (xbase x1) = pending (xbase x) ++ [FForceClose]) /\
  (forall t q, find_req t (xreqs x) = Some q -> rq_kind q = RForceClose -> rq_passed q = true -> rq_stored q = true ->
     exists x1, xstep x (XEnq t) = Ok (x1, []) /\ pending (xbase x1) = pending (xbase x) ++ [FForceClose]).
Proof.
  intros x [HI _] Hup. destruct x as [c reqs tm]. cbn [xbase xreqs] in *. split; [|split].
  - rewrite (xstep_base c reqs tm ForceClose HI), (force_close_up c Hup). eexists. split; reflexivity.
  - intros n Hd. rewrite (xstep_base c reqs tm DelayFire HI), (delay_fire_up c n Hup Hd). eexists. split; reflexivity.
  - intros t q Hf Hk Hp Hs. cbn [xstep xreqs xbase xtimers]. rewrite Hf, Hs, Hp, Hk. cbn [is_delay negb andb creq_enqueue].
    eexists. split; reflexivity.
Qed.

Theorem force_close_once_foreign_partial : forall mark wc hw ops,
  race_free (xinit mark wc hw) ops ->
  xrun (xinit mark wc hw) ops <> Fault /\
  forall x e, xrun (xinit mark wc hw) ops = Ok (x, e) ->
    Inv (xbase x) /\ count is_up e <= 1 /\ count is_down e <= count is_up e /\
    (count is_down e = 1 <-> st (xbase x) = Disconnected).
Proof.
  intros mark wc hw ops Hrf. split.
  - apply (proj1 (xrun_race_free ops _ (xinit_inv mark wc hw) Hrf)).
  - intros x e H. apply (xrun_race_free_once mark wc hw ops x e Hrf H).
Qed.

Lemma is_task_unfold : forall o,
  is_task o = (match o with XRunTimer => true | Base (RunOne _) => true | _ => false end) /\
  is_runone o = (match o with Base (RunOne _) => true | _ => false end).
Proof. split; reflexivity. Qed.
