(* C12_Progress: the progress halves of "retrying ... after 0.5 s, 1 s, 2 s" and "exactly one established connection":
   a failed attempt with connect_ set DOES arm the retry timer (with the current delay, in that very step), the expiry of
   the timer with connect_ set DOES start a new attempt on a fresh socket, a completing attempt with connect_ set DOES
   report the connection; hence: whenever the environment lets an attempt succeed while the connection is wanted, the
   cycle has exactly one UP.  Also: the hypothesis release_ok is needed (refuted without it). *)
From Coq Require Import List ZArith Lia Bool Arith.
From Muduo Require Import Gen_Consts Gen_C12 C12_Model C12_Hyg C12_Trace C12_Inv C12_Proofs C12_Loop.
Import ListNotations.
Local Open Scope Z_scope.

(* ------------------------------------------------------------------ (i) a failed attempt (re-)arms, iff connect_ *)
Lemma retry_spec s i :
  retry s i = Some (if k_connect s
                    then (set_k_delay (set_timers (set_k_state (set_socks s (upd (socks s) i close_state)) KDisconnected)
                                                  (timers s ++ [(now s + k_delay s, TRetry)])) (Z.min (2 * k_delay s) 30000),
                          [EvClose i; EvArm (k_delay s)])
                    else (set_k_state (set_socks s (upd (socks s) i close_state)) KDisconnected, [EvClose i])).
Proof.
  unfold retry, do_close. cbn -[Connector_retry_next]. destruct (k_connect s); [|reflexivity].
  rewrite G_retry_next. reflexivity.
Qed.

Lemma alive_of_wanted s : Inv s -> k_connect s = true -> k_dead s = false -> alive s = true.
Proof.
  intros (K & _ & St & _) Hk Hd. destruct (alive s) eqn:A; auto. destruct K as [_ _ _ _ Kdk _ _ _ _ _].
  assert (T : timers s <> []) by (intros T; specialize (St A T); congruence). specialize (Kdk A Hd T). congruence.
Qed.

Definition ksame (s s' : st) : Prop :=
  k_state s' = k_state s /\ k_chan s' = k_chan s /\ k_connect s' = k_connect s /\ connection s' = connection s /\
  length (conns s') = length (conns s) /\ length (socks s') = length (socks s).
Lemma gc_from_ksame n : forall c s s' ev, gc_from n c s = Some (s', ev) -> ksame s s'.
Proof.
  induction n as [|n IH]; intros c s s' ev; cbn [gc_from]; [intros [= <- _]; unfold ksame; auto 10|].
  destruct (nth_error (conns s) c) as [o|]; [|intros [= <- _]; unfold ksame; auto 10]. destruct (_ && _); [|apply IH].
  destruct (cst o); try discriminate. destruct (creg o); [discriminate|]. intros H. apply bind_some_inv' in H. destruct H as (rest & H & _).
  apply IH in H. unfold ksame in *. cbn in H. rewrite !length_upd in H. exact H.
Qed.
Lemma finish_ksame m s' ev' : finish m = Some (s', ev') -> exists s0 ev0, m = Some (s0, ev0) /\ ksame s0 s'.
Proof.
  unfold finish, bind. destruct m as [[s0 ev0]|]; [|discriminate]. unfold gc. destruct (gc_from _ _ s0) as [[s1 e1]|] eqn:G; [|discriminate].
  apply gc_from_ksame in G. unfold settle. destruct (_ && _ && _ && _).
  - destruct (k_chan s1); [discriminate|]. cbn. intros [= <- _]. exists s0, ev0. split; auto.
  - cbn. intros [= <- _]. exists s0, ev0. auto.
Qed.

Definition is_failure (o : op) : Prop := o = EvError \/ exists err selfc, o = EvWritable err selfc /\ (err <> 0 \/ selfc = true).

Theorem failed_attempt_arms : forall s i o, reachable s -> k_chan s = Some (i, true) -> k_dead s = false -> is_failure o ->
  exists s' ev, step s o = Ok s' ev /\ In (EvClose i) ev /\ k_state s' = KDisconnected /\
    (k_connect s = true -> In (EvArm (k_delay s)) ev /\ timers s' = timers s ++ [(now s + k_delay s, TRetry)] /\
                           k_delay s' = Z.min (2 * k_delay s) 30000) /\
    (k_connect s = false -> timers s' = timers s /\ forall d, ~ In (EvArm d) ev).
Proof.
  intros s i o Hr Hc Hd Hf. pose proof (reachable_Inv _ Hr) as I. pose proof I as (K & _).
  destruct (connecting_facts _ _ K Hc) as (Hs & _).
  assert (Core : step_core s o = Some (retry (enq (set_k_chan s (Some (i, false))) FResetChannel) i)).
  { destruct Hf as [->|(err & selfc & -> & Hf)]; cbn [step_core]; rewrite Hc, Hd.
    - unfold handleError, removeAndResetChannel. rewrite Hs, Hc. reflexivity.
    - unfold handleWrite, removeAndResetChannel. rewrite Hs, Hc. cbn [kstate_eqb].
      destruct Hf as [Hf| ->]; [apply Z.eqb_neq in Hf; rewrite Hf; reflexivity|]. destruct (negb (err =? 0)); reflexivity. }
  assert (Hct : contract s o = true) by (destruct Hf as [->|(err & selfc & -> & _)]; reflexivity).
  pose proof (step_I s o I Hct) as W. destruct (step s o) as [s' ev| |] eqn:E; [|exfalso|destruct W].
  2:{ unfold step in E. rewrite Core in E. destruct (finish _) as [[? ?]|]; discriminate E. }
  exists s', ev. split; auto.
  unfold step in E. rewrite Core, retry_spec in E. cbn [k_connect enq set_pending set_k_chan] in E.
  destruct (finish _) as [[s2 e2]|] eqn:F; [|discriminate]. injection E as <- <-.
  destruct (finish_events _ _ _ F) as (sa & eva & g & Ea & -> & Hg).
  destruct (finish_t _ _ _ F) as (sb & evb & Eb & (T1 & T2 & T3 & T4 & T5 & T6)).
  destruct (finish_ksame _ _ _ F) as (sc & evc & Ec & (S1 & _)).
  assert (Hgn : forall d, ~ In (EvArm d) g).
  { intros d Hi. rewrite Forall_forall in Hg. destruct (Hg _ Hi) as (j & Ej). discriminate. }
  destruct (k_connect s) eqn:Hk; injection Ea as <- <-; injection Eb as <- _; injection Ec as <- _; cbn in *.
  - split; [left; reflexivity|]. split; [exact S1|]. split; [|discriminate]. intros _. split; [right; left; reflexivity|]. split; auto.
  - split; [left; reflexivity|]. split; [exact S1|]. split; [discriminate|]. intros _. split; auto.
    intros d [Hi|Hi]; [discriminate|]. apply (Hgn d Hi).
Qed.

(* ------------------------------------------------------------------ (iii) a completing attempt with connect_ set reports the connection *)
Theorem success_reports_up : forall s i, reachable s -> k_chan s = Some (i, true) -> k_dead s = false -> k_connect s = true ->
  exists s' g, step s (EvWritable 0 false) = Ok s' ([EvHandOver i; EvUp (length (conns s))] ++ g) /\ Forall is_connclose g /\
    connection s' = Some (length (conns s)) /\ k_state s' = KConnected /\ length (conns s') = S (length (conns s)).
Proof.
  intros s i Hr Hc Hd Hk. pose proof (reachable_Inv _ Hr) as I. pose proof I as (K & _).
  destruct (connecting_facts _ _ K Hc) as (Hs & _). pose proof (alive_of_wanted _ I Hk Hd) as Al.
  pose proof (step_I s (EvWritable 0 false) I eq_refl) as W.
  unfold step in *. cbn [step_core] in *. rewrite Hc, Hd in *.
  unfold handleWrite, removeAndResetChannel in *. rewrite Hs, Hc in *. cbn [kstate_eqb Z.eqb negb] in *.
  cbn [k_connect set_k_state enq set_pending set_k_chan] in *. rewrite Hk in *. unfold newConnection in *.
  cbn [alive set_k_state enq set_pending set_k_chan] in *. rewrite Al in *. cbn [negb] in *.
  destruct (finish _) as [[s2 e2]|] eqn:F; [|destruct W].
  destruct (finish_events _ _ _ F) as (sa & eva & g & Ea & -> & Hg).
  destruct (finish_ksame _ _ _ F) as (sc & evc & Ec & (S1 & S2 & S3 & S4 & S5 & S6)).
  injection Ea as <- <-. injection Ec as <- _. cbn in *.
  exists (set_now s2 (now s2 + 1)), g. split; [reflexivity|]. split; auto. cbn. rewrite S4, S1, S5, app_length. cbn. repeat split; auto. lia.
Qed.

(* ------------------------------------------------------------------ (ii) the expiry of the retry timer with connect_ set starts a new attempt *)
Lemma fire_all_attempt l : forall s s' ev, fire_all l s = Some (s', ev) -> (exists d, In (d, TRetry) l) ->
  k_state s = KDisconnected -> k_connect s = true -> exists e, In (EvAttempt (length (socks s)) e) ev.
Proof.
  induction l as [|[d k] r IH]; intros s s' ev H [d0 Hin] Hs Hk; [destruct Hin|].
  cbn [fire_all] in H. unfold fire in H. cbn [snd] in H. destruct k.
  - unfold bind in H. destruct (startInLoop s) as [[s1 e1]|] eqn:E; [|discriminate].
    destruct (fire_all r s1) as [[s2 e2]|]; [|discriminate]. injection H as _ <-.
    unfold startInLoop in E. rewrite Hs, Hk in E. cbn [kstate_eqb negb] in E.
    destruct (connect_events _ _ _ E) as (i & e & rest & ->).
    assert (i = length (socks s)).
    { unfold connect_ in E. cbn [kq set_socks] in E. destruct (kq s); apply bind_some_inv' in E; destruct E as (rest' & _ & E); cbn in E; congruence. }
    subst i. exists e. left. reflexivity.
  - destruct Hin as [Hin|Hin]; [discriminate|]. cbn in H.
    apply (IH s s' ev); eauto. destruct (fire_all r s) as [[s2 e2]|]; [|discriminate]. cbn in H. rewrite app_nil_l in H || idtac. exact H.
Qed.

Lemma in_insert_due x z m : In x (insert_due z m) <-> x = z \/ In x m.
Proof.
  induction m as [|w m' IHm]; cbn; [intuition|]. destruct (fst z <? fst w); cbn; [intuition|]. rewrite IHm. intuition.
Qed.
Lemma in_sort_due x l : In x l -> In x (sort_due l).
Proof.
  unfold sort_due. induction l as [|y r IH]; cbn; auto. intros [->|H]; apply in_insert_due; auto.
Qed.

Theorem timer_fires_attempt : forall s d, reachable s -> timely s = true -> In (d, TRetry) (timers s) ->
  (forall t0, min_due (timers s) = Some t0 -> d <= Z.max (now s) t0) -> k_connect s = true ->
  exists s' ev e, step s TimerFire = Ok s' ev /\ In (EvAttempt (length (socks s)) e) ev.
Proof.
  intros s d Hr Ht Hin Hdue Hk. pose proof (reachable_Inv _ Hr) as I. pose proof I as (K & _).
  assert (Hct : contract s TimerFire = true) by exact Ht.
  pose proof (step_I s TimerFire I Hct) as W.
  destruct (min_due (timers s)) as [t0|] eqn:Em.
  2:{ exfalso. destruct (timers s); [destruct Hin|]. cbn in Em. destruct p. destruct (min_due l); discriminate. }
  specialize (Hdue t0 eq_refl).
  assert (Hs : k_state s = KDisconnected).
  { destruct K as [_ _ Krt _ _ _ _ _ _ _]. apply Krt. intros Z. eapply nretry_0_no; eauto. }
  unfold step in *. cbn [step_core] in *. rewrite Em in *.
  match type of W with context [finish (fire_all ?l ?s0)] => destruct (fire_all l s0) as [[s1 e1]|] eqn:F end.
  2:{ cbn in W. destruct W. }
  destruct (finish (Some (s1, e1))) as [[s2 e2]|] eqn:Fi; [|destruct W].
  destruct (finish_events _ _ _ Fi) as (sa & eva & g & Ea & -> & _). injection Ea as <- <-.
  destruct (fire_all_attempt _ _ _ _ F) as (e & He); auto.
  - exists d. apply in_sort_due. apply filter_In. split; auto. cbn. apply Z.leb_le. exact Hdue.
  - exists (set_now s2 (now s2 + 1)), (e1 ++ g), e. split; auto. apply in_or_app. left. exact He.
Qed.

(* ------------------------------------------------------------------ exactly one UP in the cycle when the environment lets an attempt succeed *)
(* number of UPs since the last cycle start *)
Fixpoint ups_after (n : nat) (ev : list event) : nat :=
  match ev with
  | [] => n
  | EvCycle _ :: r => ups_after 0 r
  | EvUp _ :: r => ups_after (S n) r
  | _ :: r => ups_after n r
  end.
Lemma cycle_ok_ups ev : forall o n, cycle_ok o ev -> (o = true -> n = 0%nat) -> (n <= 1)%nat -> (ups_after n ev <= 1)%nat.
Proof.
  induction ev as [|e r IH]; intros o n H Ho Hn; cbn in *; auto.
  destruct e; try (apply (IH o n); auto; fail).
  - destruct H as [-> H]. apply (IH true n); auto.
  - destruct H as [-> H]. rewrite (Ho eq_refl). apply (IH false 1%nat); auto. discriminate.
  - apply (IH true 0%nat); auto.
Qed.
Lemma ups_after_app a : forall n b, ups_after n (a ++ b) = ups_after (ups_after n a) b.
Proof. induction a as [|e r IH]; intros n b; cbn; auto. destruct e; auto. Qed.
Lemma ups_after_connclose g : forall n, Forall is_connclose g -> ups_after n g = n.
Proof.
  induction g as [|e r IH]; intros n H; cbn; auto. inversion H as [|? ? [j ->] H2]; subst. apply IH; auto.
Qed.

Lemma run_app l1 : forall s l2, run s (l1 ++ l2) =
  match run s l1 with
  | Some (s1, e1) => match run s1 l2 with Some (s2, e2) => Some (s2, e1 ++ e2) | None => None end
  | None => None
  end.
Proof.
  induction l1 as [|o r IH]; intros s l2; cbn [run app].
  - destruct (run s l2) as [[s2 e2]|]; reflexivity.
  - destruct (step s o) as [s1 e1| |]; [|apply IH|reflexivity]. rewrite IH.
    destruct (run s1 r) as [[s2 e2]|]; [|reflexivity]. destruct (run s2 l2) as [[s3 e3]|]; [|reflexivity]. rewrite app_assoc. reflexivity.
Qed.
Lemma admissible_app l1 : forall s l2, admissible s (l1 ++ l2) -> admissible s l1.
Proof.
  unfold admissible. induction l1 as [|o r IH]; intros s l2; cbn [admissible_with app]; auto.
  destruct (step s o) as [s1 e1| |]; auto. intros [H1 H2]. split; auto. eapply IH; eauto. eapply IH.
Qed.

Lemma admissible_snoc l : forall s s0 ev0 o, admissible s l -> run s l = Some (s0, ev0) -> contract s0 o = true -> admissible s (l ++ [o]).
Proof.
  unfold admissible. induction l as [|o1 r IH]; intros s s0 ev0 o A R Hc; cbn [app admissible_with run] in *.
  - injection R as <- _. destruct (step s o); auto.
  - destruct (step s o1) as [s1 e1| |]; [| |discriminate].
    + destruct A as [A1 A2]. split; auto. destruct (run s1 r) as [[s2 e2]|] eqn:E; [|discriminate]. injection R as <- _. eapply IH; eauto.
    + eapply IH; eauto.
Qed.

Theorem exactly_one_up : forall l s0 ev0 i, admissible init l -> run init l = Some (s0, ev0) ->
  k_chan s0 = Some (i, true) -> k_dead s0 = false -> k_connect s0 = true ->
  exists s ev, run init (l ++ [EvWritable 0 false]) = Some (s, ev) /\ ups_after 0 ev = 1%nat /\
               connection s = Some (length (conns s0)) /\ admissible init (l ++ [EvWritable 0 false]).
Proof.
  intros l s0 ev0 i A R Hc Hd Hk.
  assert (Hr : reachable s0) by (exists l, ev0; auto).
  destruct (success_reports_up s0 i Hr Hc Hd Hk) as (s' & g & St & Hg & Cn & _).
  exists s', (ev0 ++ [EvHandOver i; EvUp (length (conns s0))] ++ g).
  assert (Rn : run init (l ++ [EvWritable 0 false]) = Some (s', ev0 ++ [EvHandOver i; EvUp (length (conns s0))] ++ g)).
  { rewrite run_app, R. cbn [run]. rewrite St. rewrite app_nil_r. reflexivity. }
  split; auto. split; [|split; auto].
  - pose proof (trace_cycle _ _ _ Rn) as C. pose proof (cycle_ok_ups _ true 0%nat C (fun _ => eq_refl) ltac:(lia)) as U.
    rewrite ups_after_app in *. cbn [app ups_after] in *. rewrite ups_after_connclose in * by auto. lia.
  - eapply admissible_snoc; eauto.
Qed.

(* ------------------------------------------------------------------ the hypothesis release_ok is needed *)
Definition w_release : list op := [Connect; EvWritable 0 false; RunPending; UserHold; Destroy; UserRelease].
Lemma release_after_destroy_refuted : text_admissible init w_release /\ run init w_release = None.
Proof. split; [adm|runs]. Qed.

(* (i), third site: ::connect itself answers with an errno of the retry class *)
Theorem refused_connect_arms : forall s e r, k_state s = KDisconnected -> k_connect s = true -> kq s = e :: r -> classify e = ActRetry ->
  exists s', startInLoop s = Some (s', [EvAttempt (length (socks s)) e; EvClose (length (socks s)); EvArm (k_delay s)]) /\
             timers s' = timers s ++ [(now s + k_delay s, TRetry)] /\ k_delay s' = Z.min (2 * k_delay s) 30000 /\ k_state s' = KDisconnected.
Proof.
  intros s e r Hs Hk Hq Hc. unfold startInLoop. rewrite Hs, Hk. cbn [kstate_eqb negb]. unfold connect_. cbn [kq set_socks]. rewrite Hq.
  unfold bind. rewrite Hc, retry_spec. cbn [k_connect set_kq set_socks]. rewrite Hk. eexists. split; [reflexivity|]. cbn. auto.
Qed.
