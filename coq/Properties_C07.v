(* Properties_C07: cancel() stops a timer for good and never disturbs any other timer.
   Same TimerModel as C06 (C06_Model / C06_Proofs) + the add-vs-fire race model (C07_Model).
   Only statements closed by [exact].  Tie to muduo/net/TimerQueue.cc: bin/check C07
   (correspondence on the real TimerQueue, ASan; the forced add-vs-fire schedule on the real code)
   and the generated fact Gen_C07.TimerQueue_addTimer_reads_seq_after_handoff. *)
From Coq Require Import List ZArith Lia Bool.
From Muduo Require Import Gen_Consts Gen_C06 Gen_C07 C06_Model C06_Proofs C06_Hist C06_Order C06_GenTie C06_Marshal C07_Model C07_Proofs C07_Width C07_WidthLink.
Import ListNotations.
Local Open Scope Z_scope.

(* After Cancel id of a registered, not yet expired timer (its id is in activeTimers_) has been
   processed, the timer NEVER runs again, whatever ops follow (adds at the same address, expiries,
   foreign ops, ...), and its sequence number never comes back.  The cancel itself erases it from
   both sets and frees the object (C07_cancel_erases).
   A cancel issued from inside an expiry batch against a member of that same batch (self / sibling
   cancel) is C07_same_batch_cancel below. *)
Theorem C07_cancel_stops : forall c ops st evs a s ops2 st2 evs2,
  run (init c) ops = Ok (st, evs) -> In (a, s) (active st) ->
  run st (Cb (CCancel a s) :: ops2) = Ok (st2, evs2) ->
  (forall dl now t, ~ In (ERun s dl now t) evs2) /\ gone st2 s.
Proof. exact cancel_stops. Qed.
Print Assumptions C07_cancel_stops.

Theorem C07_cancel_erases : forall c ops st evs a s,
  run (init c) ops = Ok (st, evs) -> In (a, s) (active st) ->
  exists st', step st (Cb (CCancel a s)) = Ok (st', []) /\ gone st' s /\ ~ In (a, s) (active st') /\
    (forall d, ~ In (d, a) (timers st')) /\ hget a (heap st') = None.
Proof. exact cancel_active. Qed.
Print Assumptions C07_cancel_erases.

(* An id whose Timer object is dead (it ran as a one-shot, was cancelled, was deleted after a
   same-batch cancel) never runs again and stays dead, for every continuation from ANY state. *)
Theorem C07_dead_id_never_runs : forall st s ops2 st2 evs2, gone st s -> run st ops2 = Ok (st2, evs2) ->
  (forall dl now t, ~ In (ERun s dl now t) evs2) /\ gone st2 s.
Proof. exact dead_stays_dead. Qed.
Print Assumptions C07_dead_id_never_runs.

(* Same-batch cancel.  A timer (repeater or one-shot) that is due in an expiry and whose id is
   cancelled by ANY callback that runs in that expiry -- its own (self-cancel), an earlier or a later
   sibling; i-th group of the script, i < number of due timers -- runs exactly the one invocation
   that was already due (filed under its deadline d), is NOT re-inserted by TimerQueue::reset but
   deleted, and is dead afterwards; by C07_dead_id_never_runs it never runs again. *)
Theorem C07_same_batch_cancel : forall c ops st evs script st' ev d a o i g,
  run (init c) ops = Ok (st, evs) -> fire st script = Ok (st', ev) ->
  In (d, a) (timers st) -> d <= clk st -> hget a (heap st) = Some o ->
  nth_error script i = Some g -> (i < length (due st))%nat -> In (CCancel a (o_seq o)) g ->
  gone st' (o_seq o) /\ ~ In (a, o_seq o) (active st') /\
  (exists t, In (ERun (o_seq o) d (clk st) t) ev) /\ length (runs_of (o_seq o) ev) = 1%nat.
Proof. exact same_batch_cancel. Qed.
Print Assumptions C07_same_batch_cancel.

(* A cancel issued from a foreign thread is a queued functor: when doPendingFunctors runs the batch that
   contains it and the id is registered at that point, the timer is dead afterwards (and no callback runs
   in between); by C07_dead_id_never_runs it never runs again. *)
Theorem C07_foreign_cancel_stops : forall c ops st evs a o st' ev, run (init c) ops = Ok (st, evs) ->
  hget a (heap st) = Some o -> In (o_exp o, a) (timers st) -> In (PCancel a (o_seq o)) (pending st) ->
  step st RunPending = Ok (st', ev) -> gone st' (o_seq o) /\ (forall dl now t, ~ In (ERun (o_seq o) dl now t) ev).
Proof. exact foreign_cancel_stops. Qed.
Print Assumptions C07_foreign_cancel_stops.

(* "cancel() and the add functions may be called from any thread": in the model a foreign add is the
   micro-steps CFNew ; CFEnq and a foreign cancel is CFCancel; they interleave freely with everything.
   (1) Queue discipline: every op other than doPendingFunctors only appends to the functor queue, and
   doPendingFunctors (run_functors, oldest first) leaves exactly what was appended meanwhile. *)
Theorem C07_queue_append_only :
  (forall st c st' ev, cb_step st c = Ok (st', ev) -> exists l, pending st' = pending st ++ l) /\
  (forall cs st st' ev, cb_run st cs = Ok (st', ev) -> exists l, pending st' = pending st ++ l) /\
  (forall fs st st' ev, run_functors st fs = Ok (st', ev) -> exists l, pending st' = pending st ++ l).
Proof. exact (conj cb_step_pending_app (conj cb_run_pending_app run_functors_pending_app)). Qed.
Print Assumptions C07_queue_append_only.

(* (2) FIFO makes add-then-cancel work from any thread: if the hand-off of the add is queued before the
   cancel of its id (same foreign thread: the id is returned after the hand-off; any other thread that
   learnt the id later), the doPendingFunctors that processes the add processes the cancel after it, the
   cancel finds the timer, and the timer is dead without ever having run.  The refuted boundary is
   C07_cancel_before_queued_add_refuted (C07-b): a loop-thread cancel by-passes the queue. *)
Theorem C07_foreign_add_then_cancel : forall c ops st evs l1 l2 a o st' ev, run (init c) ops = Ok (st, evs) ->
  pending st = l1 ++ PAdd a :: l2 -> In (PCancel a (o_seq o)) l2 -> hget a (heap st) = Some o ->
  step st RunPending = Ok (st', ev) ->
  gone st' (o_seq o) /\ (forall dl now t, ~ In (ERun (o_seq o) dl now t) ev).
Proof. exact foreign_add_then_cancel. Qed.
Print Assumptions C07_foreign_add_then_cancel.

(* In one expiry no sequence number runs twice. *)
Theorem C07_once_per_expiry : forall c ops st evs script st' ev s, run (init c) ops = Ok (st, evs) ->
  fire st script = Ok (st', ev) -> (length (runs_of s ev) <= 1)%nat.
Proof. exact fire_once. Qed.
Print Assumptions C07_once_per_expiry.

(* The two tests of TimerQueue::cancelInLoop in the CURRENT sources (regenerated from the clang AST:
   `it != activeTimers_.end()` with it = activeTimers_.find(ActiveTimer(timerId.timer_,
   timerId.sequence_)), `else if (callingExpiredTimers_)`) are the tests the model performs, the
   found branch erases both entries and deletes, the other one records the id in cancelingTimers_;
   reset consults cancelingTimers_ under the key (ptr, sequence) (C06_generated_guards). *)
Theorem C07_generated_guards :
  (forall st a s, cancel_in_loop st a s = cancel_src st a s) /\
  (forall ex st now, reset_loop st ex now = reset_loop_src st ex now) /\
  TimerQueue_cancelInLoop_found_erases_both_deletes = true /\ TimerQueue_cancelInLoop_marks_canceling = true /\
  TimerQueue_reset_then_restart_insert = true /\ TimerQueue_reset_else_delete = true.
Proof. exact (conj cancel_is_source (conj reset_loop_is_source (conj eq_refl (conj eq_refl (conj eq_refl eq_refl))))). Qed.
Print Assumptions C07_generated_guards.

(* The faithful model falsifies the full text in one more situation: a loop-thread cancel(id) that
   is processed while the foreign thread's addTimerInLoop is still queued finds nothing, and the
   timer is registered afterwards and runs (finding C07-b, corpus/C07/cancel_queued_add.case); C07_cancel_stops therefore carries the
   hypothesis "the id is in activeTimers_" (the add has been processed). *)
Definition lost_cancel_ops : list op :=
  [Cb (CFNew 2000 (-1) 10); Cb (CFEnq 10); Cb (CCancel 10 1); RunPending; Cb (CTick 1500); Fire []].
Theorem C07_cancel_before_queued_add_refuted :
  exists ops st evs t, run (init 1000) ops = Ok (st, evs) /\
    In (Cb (CCancel 10 1)) ops /\ In (EAdd 1 10 2000 (-1)) evs /\ In (ERun 1 2000 2500 t) evs.
Proof. exists lost_cancel_ops. vm_compute. do 3 eexists. split; [reflexivity|]. intuition. Qed.
Print Assumptions C07_cancel_before_queued_add_refuted.

(* Another boundary of C07_foreign_add_then_cancel, an artefact of the micro-step model rather than of the API:
   a cancel of the id queued BEFORE the add's hand-off (the id would have to leak out of addTimer between
   `new Timer` and `queueInLoop`; addTimer returns it only afterwards) runs first, finds nothing, and the timer is
   registered and runs.  FIFO protects add-then-cancel exactly when the hand-off is queued first. *)
Definition early_cancel_ops : list op :=
  [Cb (CFNew 2000 (-1) 10); Cb (CFCancel 10 1); Cb (CFEnq 10); RunPending; Cb (CTick 1500); Fire []].
Theorem C07_cancel_before_handoff_refuted :
  exists ops st evs t, run (init 1000) ops = Ok (st, evs) /\
    In (Cb (CFCancel 10 1)) ops /\ In (EAdd 1 10 2000 (-1)) evs /\ In (ERun 1 2000 2500 t) evs.
Proof. exists early_cancel_ops. vm_compute. do 3 eexists. split; [reflexivity|]. intuition. Qed.
Print Assumptions C07_cancel_before_handoff_refuted.

(* Cancelling an id that names no live Timer object -- it already ran, was already cancelled, or is
   the default (NULL, 0) -- is the identity on the whole state and emits nothing, even if the
   address is live again under another sequence number. *)
Theorem C07_stale_cancel_noop : forall c ops st evs a s, run (init c) ops = Ok (st, evs) ->
  (forall o, hget a (heap st) = Some o -> o_seq o <> s) ->
  step st (Cb (CCancel a s)) = Ok (st, []).
Proof. exact stale_cancel_noop. Qed.
Print Assumptions C07_stale_cancel_noop.

(* Every dereference the code performs (expiration() in cancel, run/sequence/repeat/restart over
   the expired vector, insert, the re-arm, the destructor's sweep) targets a live Timer, and no
   assert fails: no op list yields Fault, and the destructor frees exactly the pending timers. *)
Theorem C07_no_dangling : forall c ops,
  run (init c) ops <> Fault /\
  forall st evs, run (init c) ops = Ok (st, evs) -> destroy st = Ok (length (timers st)).
Proof. exact (fun c ops => conj (no_fault c ops) (destroy_ok c ops)). Qed.
Print Assumptions C07_no_dangling.

Theorem C07_seq_unique : forall c ops st evs, run (init c) ops = Ok (st, evs) ->
  (forall a b o p, hget a (heap st) = Some o -> hget b (heap st) = Some p -> o_seq o = o_seq p -> a = b) /\
  (forall a o, hget a (heap st) = Some o -> 0 < o_seq o <= next_seq st).
Proof. exact seq_unique. Qed.
Print Assumptions C07_seq_unique.

(* the model's unbounded sequence numbers are faithful: every place the C++ carries a sequence in
   (Timer::s_numCreated_, Timer::sequence_, TimerId::sequence_, ActiveTimer::second; widths regenerated
   from the current headers) keeps every sequence below 2^63 unchanged, so the counter cannot wrap and
   two live timers cannot get the same sequence (a 32-bit counter breaks this statement) *)
Theorem C07_sequence_width_faithful : forall n, 0 <= n < 2 ^ 63 ->
  swrap Timer_numCreated_bits n = n /\ swrap Timer_sequence_bits n = n /\
  swrap TimerId_sequence_bits n = n /\ swrap TimerQueue_ActiveTimer_sequence_bits n = n.
Proof. exact seq_width_faithful. Qed.
Print Assumptions C07_sequence_width_faithful.
(* hence, in every reachable state whose creation counter is below 2^63, the sequences AS STORED in the C++
   integers identify live timers uniquely (C07_seq_unique carried through the truncation to the real widths) *)
Theorem C07_stored_sequence_unique : forall c ops st evs, run (init c) ops = Ok (st, evs) -> next_seq st < 2 ^ 63 ->
  (forall a o, hget a (heap st) = Some o ->
     swrap Timer_numCreated_bits (o_seq o) = o_seq o /\ swrap Timer_sequence_bits (o_seq o) = o_seq o /\
     swrap TimerId_sequence_bits (o_seq o) = o_seq o /\ swrap TimerQueue_ActiveTimer_sequence_bits (o_seq o) = o_seq o) /\
  (forall a b o p, hget a (heap st) = Some o -> hget b (heap st) = Some p ->
     swrap Timer_sequence_bits (o_seq o) = swrap TimerId_sequence_bits (o_seq p) -> a = b).
Proof. exact (fun c ops st evs H B => conj (stored_seq_faithful c ops st evs H B) (stored_seq_unique c ops st evs H B)). Qed.
Print Assumptions C07_stored_sequence_unique.

(* ---- the id returned by an add (F-7) *)
(* pinned order (sequence() read after the hand-off): a schedule with a use-after-free exists *)
Theorem C07_id_after_handoff_refuted : exists sched, uaf (exec true rs0 sched) = true.
Proof. exact (ex_intro _ witness pinned_order_uaf). Qed.
Print Assumptions C07_id_after_handoff_refuted.
(* pinned order, what remains true: valid if the Timer is still alive at the read, and always when
   addTimer is called on the loop thread itself *)
Theorem C07_returned_id_valid_partial :
  (forall sched, fpc (exec true rs0 sched) = P3 -> uaf (exec true rs0 sched) = false -> got (exec true rs0 sched) = true) /\
  (forall n, let s := exec true rs0 ([true; true; false; true] ++ repeat false n) in
             uaf s = false /\ got s = true /\ fpc s = P3).
Proof. exact (conj pinned_alive_valid pinned_loop_thread_valid). Qed.
Print Assumptions C07_returned_id_valid_partial.
(* repaired order (sequence() read before the hand-off): valid for ALL schedules *)
Theorem C07_returned_id_valid : forall sched,
  uaf (exec false rs0 sched) = false /\ (fpc (exec false rs0 sched) = P3 -> got (exec false rs0 sched) = true).
Proof. exact fixed_order_valid. Qed.
Print Assumptions C07_returned_id_valid.
(* the order the CURRENT sources have (generated fact): refuted if after, valid if before *)
Theorem C07_current_tree : current_verdict current_order.
Proof. exact current_tree. Qed.
Print Assumptions C07_current_tree.

(* non-vacuity: a stale id whose address has been reused by a live timer; the hypothesis of
   C07_stale_cancel_noop holds and the live timer (sequence 2, same address) still runs *)
Definition reuse_ops : list op := [Cb (CAdd 2000 (-1) 10); Cb (CCancel 10 1); Cb (CAdd 2100 (-1) 10)].
Example C07_stale_reuse_nonvacuous :
  match run (init 1000) reuse_ops with
  | Ok (st, _) => hget 10 (heap st) = Some (mkT 2 2100 (-1)) /\
                  step st (Cb (CCancel 10 1)) = Ok (st, []) /\
                  match run st [Cb (CCancel 10 1); Cb (CTick 1100); Fire []] with
                  | Ok (_, evs) => evs = [ERun 2 2100 2100 2100]
                  | _ => False end
  | _ => False
  end.
Proof. vm_compute. auto. Qed.
(* non-vacuity of C07_stored_sequence_unique: a reachable state with a live timer and a counter below 2^63 *)
Example C07_stored_sequence_nonvacuous :
  match run (init 1000) reuse_ops with
  | Ok (st, _) => next_seq st = 2 /\ next_seq st < 2 ^ 63 /\ hget 10 (heap st) = Some (mkT 2 2100 (-1))
  | _ => False
  end.
Proof. vm_compute. auto. Qed.
Example C07_cancel_active_nonvacuous :
  match run (init 1000) [Cb (CAdd 2000 500 10)] with
  | Ok (st, _) => In (10, 1) (active st) /\
      match run st [Cb (CCancel 10 1); Cb (CAdd 2000 500 10); Cb (CTick 1500); Fire []] with
      | Ok (st2, evs2) =>   (* the cancelled repeater never runs; the timer that reused its address does *)
          forallb (fun p => negb (o_seq (snd p) =? 1)) (heap st2) = true /\
          existsb (fun e => match e with ERun 2 _ _ _ => true | _ => false end) evs2 = true /\
          existsb (fun e => match e with ERun 1 _ _ _ => true | _ => false end) evs2 = false
      | _ => False end
  | _ => False end.
Proof. vm_compute. auto. Qed.

(* non-vacuity of C07_same_batch_cancel: two repeaters (seq 1 at address 10, seq 2 at address 20) due in
   the same expiry; the first callback cancels its sibling 2 (which has not run yet) and itself: both
   run the invocation already due, neither is re-inserted, both are dead; nothing runs later *)
Example C07_same_batch_nonvacuous :
  match run (init 1000) [Cb (CAdd 2000 1000 10); Cb (CAdd 2000 1000 20); Cb (CTick 1000)] with
  | Ok (st, _) =>
      In (2000, 10) (timers st) /\ In (2000, 20) (timers st) /\ clk st = 2000 /\ length (due st) = 2%nat /\
      hget 10 (heap st) = Some (mkT 1 2000 1000) /\ hget 20 (heap st) = Some (mkT 2 2000 1000) /\
      match fire st [[CCancel 20 2; CCancel 10 1]; []] with
      | Ok (st', ev) => rlog ev = [(1, 2000, 2000); (2, 2000, 2000)] /\ timers st' = [] /\ heap st' = [] /\
          match run st' [Cb (CTick 5000); Fire []] with Ok (_, ev2) => rlog ev2 = [] | _ => False end
      | _ => False end
  | _ => False end.
Proof. vm_compute. auto 20. Qed.

(* non-vacuity of C07_foreign_cancel_stops: a foreign cancel of a registered repeater *)
Example C07_foreign_cancel_nonvacuous :
  match run (init 1000) [Cb (CAdd 2000 500 10); Cb (CFCancel 10 1)] with
  | Ok (st, _) => hget 10 (heap st) = Some (mkT 1 2000 500) /\ In (2000, 10) (timers st) /\ In (PCancel 10 1) (pending st) /\
      match run st [RunPending; Cb (CTick 5000); Fire []] with Ok (st2, ev2) => rlog ev2 = [] /\ heap st2 = [] | _ => False end
  | _ => False end.
Proof. vm_compute. auto 10. Qed.

(* non-vacuity of C07_foreign_add_then_cancel: add and cancel of the same id queued by a foreign thread,
   another thread's add in between; after doPendingFunctors the timer is gone and the other one runs *)
Example C07_add_then_cancel_nonvacuous :
  match run (init 1000) [Cb (CFNew 2000 500 10); Cb (CFEnq 10); Cb (CFAdd 2100 (-1) 20); Cb (CFCancel 10 1)] with
  | Ok (st, _) => pending st = [] ++ PAdd 10 :: [PAdd 20; PCancel 10 1] /\ hget 10 (heap st) = Some (mkT 1 2000 500) /\
      match run st [RunPending; Cb (CTick 5000); Fire []] with Ok (st2, ev2) => rlog ev2 = [(2, 2100, 6000)] | _ => False end
  | _ => False end.
Proof. vm_compute. auto 10. Qed.
