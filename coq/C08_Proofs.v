(* C08_Proofs: soundness of the discipline of C08_Model.
   - happens-before respects trace order;
   - lock history: a held mutex was acquired by its holder and held continuously since; a change of
     holder goes through a release by the old holder (induction over the trace prefix);
   - main theorem: in a well-formed trace that respects the protection classes, conflicting accesses
     are ordered by happens-before;
   - MutexLockGuard scopes (thread-local brackets) imply "held";
   - method bodies: fail-fast, and the static per-access check is sound for the emitted block. *)
From Coq Require Import List String ZArith Bool Arith Lia.
From Muduo Require Import C08_Model.
Import ListNotations.
Open Scope list_scope.

(* ------------------------------------------------------------------ happens-before *)
Lemma hb_lt : forall tr i j, hb tr i j -> i < j.
Proof. intros tr i j H; induction H; lia. Qed.

Lemma hb_same_thread : forall tr i j a b, i < j -> nth_error tr i = Some a -> nth_error tr j = Some b ->
  thread_of a = thread_of b -> hb tr i j.
Proof. intros; eapply hb_po; eauto. Qed.

(* ------------------------------------------------------------------ lock history *)
Lemma locks_after_S : forall tr n, locks_after tr (S n) = lock_step (locks_after tr n) (nth_error tr n).
Proof. reflexivity. Qed.

Definition wf_locks (tr : trace) : Prop :=
  forall n e, nth_error tr n = Some e -> lock_ok (locks_after tr n) e.

Lemma option_eq_dec_tid : forall (a b : option tid), {a = b} + {a <> b}.
Proof. decide equality; apply Nat.eq_dec. Qed.

(* the current holder acquired the mutex at some earlier position and has held it ever since *)
Lemma held_since : forall tr m u n, locks_after tr n m = Some u ->
  exists b, b < n /\ nth_error tr b = Some (EAcq u m) /\ forall x, b < x <= n -> locks_after tr x m = Some u.
Proof.
  intros tr m u n; induction n as [|n IH]; intros H.
  - discriminate H.
  - rewrite locks_after_S in H. unfold lock_step in H.
    destruct (nth_error tr n) as [e|] eqn:En.
    + destruct e as [t l k|t m0|t m0|t f|t f|t u0|t u0|t l|t l|t l|t l|t];
      try (destruct (IH H) as [b [Hb [Hacq Hr]]]; exists b; split; [lia|split; [exact Hacq|]];
           intros x Hx; destruct (Nat.eq_dec x (S n)) as [->|Hne];
           [rewrite locks_after_S, En; exact H | apply Hr; lia]).
      * (* EAcq t m0 *)
        destruct (Nat.eqb m m0) eqn:Em.
        -- apply Nat.eqb_eq in Em; subst m0. injection H as ->.
           exists n; split; [lia|split; [exact En|]].
           intros x Hx. assert (x = S n) by lia; subst x.
           rewrite locks_after_S, En; cbn [lock_step]. now rewrite Nat.eqb_refl.
        -- destruct (IH H) as [b [Hb [Hacq Hr]]]; exists b; split; [lia|split; [exact Hacq|]].
           intros x Hx; destruct (Nat.eq_dec x (S n)) as [->|Hne].
           ++ rewrite locks_after_S, En; cbn [lock_step]. now rewrite Em.
           ++ apply Hr; lia.
      * (* ERel t m0 *)
        destruct (Nat.eqb m m0) eqn:Em; [discriminate H|].
        destruct (IH H) as [b [Hb [Hacq Hr]]]; exists b; split; [lia|split; [exact Hacq|]].
        intros x Hx; destruct (Nat.eq_dec x (S n)) as [->|Hne].
        -- rewrite locks_after_S, En; cbn [lock_step]. now rewrite Em.
        -- apply Hr; lia.
    + destruct (IH H) as [b [Hb [Hacq Hr]]]; exists b; split; [lia|split; [exact Hacq|]].
      intros x Hx; destruct (Nat.eq_dec x (S n)) as [->|Hne].
      * rewrite locks_after_S, En; exact H.
      * apply Hr; lia.
Qed.

(* if t holds m at i and no longer at i+d, t released it in between *)
Lemma released_between : forall tr m t i, wf_locks tr -> locks_after tr i m = Some t ->
  forall d, locks_after tr (i + d) m <> Some t ->
  exists k, i <= k < i + d /\ nth_error tr k = Some (ERel t m).
Proof.
  intros tr m t i Hwf Hi d; induction d as [|d IH]; intros Hd.
  - rewrite Nat.add_0_r in Hd; contradiction.
  - destruct (option_eq_dec_tid (locks_after tr (i + d) m) (Some t)) as [Heq|Hne].
    2:{ destruct (IH Hne) as [k [Hk Hr]]; exists k; split; [lia|exact Hr]. }
    replace (i + S d) with (S (i + d)) in Hd by lia.
    rewrite locks_after_S in Hd. unfold lock_step in Hd.
    destruct (nth_error tr (i + d)) as [e|] eqn:En; [|contradiction].
    destruct e as [t0 l k|t0 m0|t0 m0|t0 f|t0 f|t0 u0|t0 u0|t0 l|t0 l|t0 l|t0 l|t0]; try contradiction.
    + (* EAcq *) destruct (Nat.eqb m m0) eqn:Em; [|contradiction].
      apply Nat.eqb_eq in Em; subst m0.
      pose proof (Hwf _ _ En) as Hok; cbn [lock_ok] in Hok. rewrite Heq in Hok; discriminate.
    + (* ERel *) destruct (Nat.eqb m m0) eqn:Em; [|contradiction].
      apply Nat.eqb_eq in Em; subst m0.
      pose proof (Hwf _ _ En) as Hok; cbn [lock_ok] in Hok. rewrite Heq in Hok; injection Hok as ->.
      exists (i + d); split; [lia|exact En].
Qed.

(* a thread-local bracket (MutexLockGuard scope) implies "held" in the global lock state *)
Lemma bracket_held : forall tr m t a, wf_locks tr -> nth_error tr a = Some (EAcq t m) ->
  forall d, (forall x, a < x < a + 1 + d -> nth_error tr x <> Some (ERel t m)) ->
  locks_after tr (a + 1 + d) m = Some t.
Proof.
  intros tr m t a Hwf Ha d; induction d as [|d IH]; intros Hno.
  - replace (a + 1 + 0) with (S a) by lia. rewrite locks_after_S, Ha; cbn [lock_step]. now rewrite Nat.eqb_refl.
  - assert (Hprev : locks_after tr (a + 1 + d) m = Some t) by (apply IH; intros x Hx; apply Hno; lia).
    replace (a + 1 + S d) with (S (a + 1 + d)) by lia.
    rewrite locks_after_S. unfold lock_step.
    destruct (nth_error tr (a + 1 + d)) as [e|] eqn:En; [|exact Hprev].
    destruct e as [t0 l k|t0 m0|t0 m0|t0 f|t0 f|t0 u0|t0 u0|t0 l|t0 l|t0 l|t0 l|t0]; try exact Hprev.
    + destruct (Nat.eqb m m0) eqn:Em; [|exact Hprev].
      apply Nat.eqb_eq in Em; subst m0.
      pose proof (Hwf _ _ En) as Hok; cbn [lock_ok] in Hok. rewrite Hprev in Hok; discriminate.
    + destruct (Nat.eqb m m0) eqn:Em; [|exact Hprev].
      apply Nat.eqb_eq in Em; subst m0.
      pose proof (Hwf _ _ En) as Hok; cbn [lock_ok] in Hok. rewrite Hprev in Hok; injection Hok as ->.
      exfalso. apply (Hno (a + 1 + d)); [lia|exact En].
Qed.

(* ------------------------------------------------------------------ the main theorem *)
Lemma guarded_ordered : forall tr m i j ti tj li ki lj kj,
  wf_locks tr -> i < j ->
  nth_error tr i = Some (EAcc ti li ki) -> nth_error tr j = Some (EAcc tj lj kj) ->
  locks_after tr i m = Some ti -> locks_after tr j m = Some tj -> ti <> tj ->
  hb tr i j.
Proof.
  intros tr m i j ti tj li ki lj kj Hwf Hij Hi Hj Hli Hlj Hne.
  destruct (held_since _ _ _ _ Hlj) as [b [Hbj [Hacq Hsince]]].
  (* the acquire of tj lies after i *)
  assert (Hib : i < b).
  { destruct (Nat.lt_trichotomy i b) as [Hlt|[Heq|Hgt]]; [exact Hlt| |].
    - subst b. rewrite Hi in Hacq; discriminate.
    - exfalso. assert (Hx : locks_after tr i m = Some tj) by (apply Hsince; lia).
      rewrite Hli in Hx; injection Hx as Hx; contradiction. }
  (* at b the mutex is free, at i it is held by ti: ti released in between *)
  pose proof (Hwf _ _ Hacq) as Hfree; cbn [lock_ok] in Hfree.
  destruct (released_between tr m ti i Hwf Hli (b - i)) as [k [Hk Hrel]].
  { replace (i + (b - i)) with b by lia. rewrite Hfree; discriminate. }
  assert (Hik : i < k).
  { destruct (Nat.eq_dec i k) as [->|]; [rewrite Hi in Hrel; discriminate|lia]. }
  apply hb_trans with k; [eapply hb_po with (a := EAcc ti li ki) (b := ERel ti m); eauto|].
  apply hb_trans with b.
  - eapply hb_sw with (a := ERel ti m) (b := EAcq tj m); eauto; [lia|unfold sw; cbn; now rewrite Nat.eqb_refl].
  - eapply hb_po with (a := EAcq tj m) (b := EAcc tj lj kj); eauto.
Qed.

Theorem discipline_sound : forall cls owner tr,
  wf_trace tr -> respects cls owner tr ->
  forall i j ti tj l ki kj, i < j ->
    nth_error tr i = Some (EAcc ti l ki) -> nth_error tr j = Some (EAcc tj l kj) ->
    ti <> tj -> (ki = W \/ kj = W) -> hb tr i j.
Proof.
  intros cls owner tr [Hwf _] Hres i j ti tj l ki kj Hij Hi Hj Hne Hw.
  pose proof (Hres _ _ _ _ Hi) as Ri. pose proof (Hres _ _ _ _ Hj) as Rj.
  destruct (cls l) as [L|m| | |] eqn:Hc.
  - (* confined: both on the owner thread *) congruence.
  - eapply guarded_ordered; eauto.
  - contradiction.
  - (* immutable after publish *)
    destruct Hw as [->| ->].
    + (* the earlier access is the write: use the later access's publication witness *)
      destruct Rj as [p [t0 [Hp [Hwr Hrd]]]].
      destruct (Hwr _ _ Hi) as [-> Hip].
      destruct Hrd as [->|Hhb]; [contradiction|].
      apply hb_trans with p; [|exact Hhb].
      eapply hb_po with (a := EAcc t0 l W) (b := EPublish t0 l); eauto.
    + (* the later access is the write: impossible, it would precede the publication the earlier read follows *)
      destruct Ri as [p [t0 [Hp [Hwr Hrd]]]].
      destruct (Hwr _ _ Hj) as [-> Hjp].
      destruct Hrd as [->|Hhb]; [contradiction|].
      apply hb_lt in Hhb. lia.
  - (* thread-local *) exfalso. apply Hne. symmetry. eapply Ri; eauto.
Qed.

(* both orders: any two conflicting accesses are hb-ordered one way or the other *)
Corollary discipline_no_race : forall cls owner tr,
  wf_trace tr -> respects cls owner tr ->
  forall i j, conflicting tr i j -> hb tr i j \/ hb tr j i.
Proof.
  intros cls owner tr Hwf Hres i j [ti [tj [l [ki [kj [Hi [Hj [Hne Hw]]]]]]]].
  destruct (Nat.lt_trichotomy i j) as [Hlt|[Heq|Hgt]].
  - left; eapply discipline_sound; eauto.
  - subst j. rewrite Hi in Hj. assert (ti = tj) by congruence. contradiction.
  - right; eapply discipline_sound with (ti := tj) (tj := ti); eauto. tauto.
Qed.

(* ------------------------------------------------------------------ scoped guards: thread-local form of the discipline *)
Definition locally_disciplined (cls : loc -> pclass_sem) (owner : loopid -> tid) (tr : trace) : Prop :=
  forall n t l k, nth_error tr n = Some (EAcc t l k) ->
    match cls l with
    | LoopConfined L => t = owner L
    | Guarded m => exists a, a < n /\ nth_error tr a = Some (EAcq t m) /\
                             forall x, a < x < n -> nth_error tr x <> Some (ERel t m)
    | Atomic => False
    | ThreadLocal => forall n' t' k', nth_error tr n' = Some (EAcc t' l k') -> t' = t
    | ImmutableAfterPublish =>
        exists p t0, nth_error tr p = Some (EPublish t0 l) /\
          (forall n' t', nth_error tr n' = Some (EAcc t' l W) -> t' = t0 /\ n' < p) /\
          (t = t0 \/ hb tr p n)
    end.

Lemma local_respects : forall cls owner tr, wf_trace tr -> locally_disciplined cls owner tr -> respects cls owner tr.
Proof.
  intros cls owner tr [Hwf _] Hloc n t l k Hn.
  pose proof (Hloc _ _ _ _ Hn) as H.
  destruct (cls l); try exact H.
  destruct H as [a [Han [Hacq Hno]]].
  replace n with (a + 1 + (n - a - 1)) by lia.
  apply bracket_held; [exact Hwf|exact Hacq|].
  intros x Hx; apply Hno; lia.
Qed.

Theorem scoped_discipline_sound : forall cls owner tr,
  wf_trace tr -> locally_disciplined cls owner tr ->
  forall i j, conflicting tr i j -> hb tr i j \/ hb tr j i.
Proof. intros; eapply discipline_no_race; eauto using local_respects. Qed.

(* the hand-off edges that make "reads follow the publication" true *)
Lemma publish_by_enqueue : forall tr p q r j t0 u l f e,
  nth_error tr p = Some (EPublish t0 l) -> nth_error tr q = Some (EEnq t0 f) -> p < q ->
  nth_error tr r = Some (ERun u f) -> q < r ->
  nth_error tr j = Some e -> thread_of e = u -> r < j -> hb tr p j.
Proof.
  intros tr p q r j t0 u l f e Hp Hq Hpq Hr Hqr Hj Hu Hrj.
  apply hb_trans with q; [eapply hb_po with (a := EPublish t0 l) (b := EEnq t0 f); eauto|].
  apply hb_trans with r.
  - eapply hb_sw with (a := EEnq t0 f) (b := ERun u f); eauto. unfold sw; cbn; now rewrite Nat.eqb_refl.
  - eapply hb_po with (a := ERun u f) (b := e); eauto.
Qed.

Lemma publish_by_spawn : forall tr p q j t0 u l e,
  nth_error tr p = Some (EPublish t0 l) -> nth_error tr q = Some (ESpawn t0 u) -> p < q ->
  nth_error tr j = Some e -> thread_of e = u -> q < j -> hb tr p j.
Proof.
  intros tr p q j t0 u l e Hp Hq Hpq Hj Hu Hqj.
  apply hb_trans with q; [eapply hb_po with (a := EPublish t0 l) (b := ESpawn t0 u); eauto|].
  eapply hb_sw with (a := ESpawn t0 u) (b := e); eauto.
  unfold sw. rewrite Hu, Nat.eqb_refl. now rewrite orb_true_r.
Qed.

Lemma publish_by_mutex : forall tr p q r j t0 u l m e,
  nth_error tr p = Some (EPublish t0 l) -> nth_error tr q = Some (ERel t0 m) -> p < q ->
  nth_error tr r = Some (EAcq u m) -> q < r ->
  nth_error tr j = Some e -> thread_of e = u -> r < j -> hb tr p j.
Proof.
  intros tr p q r j t0 u l m e Hp Hq Hpq Hr Hqr Hj Hu Hrj.
  apply hb_trans with q; [eapply hb_po with (a := EPublish t0 l) (b := ERel t0 m); eauto|].
  apply hb_trans with r.
  - eapply hb_sw with (a := ERel t0 m) (b := EAcq u m); eauto. unfold sw; cbn; now rewrite Nat.eqb_refl.
  - eapply hb_po with (a := EAcq u m) (b := e); eauto.
Qed.

(* ------------------------------------------------------------------ method bodies *)
Lemma run_body_thread : forall owner t b e, In e (run_body owner t b) -> thread_of e = t.
Proof.
  intros owner t b; induction b as [|a b IH]; intros e H; [contradiction|].
  destruct a; cbn [run_body] in H;
    try (destruct H as [<-|H]; [reflexivity|now apply IH]).
  destruct (Nat.eqb t (owner L)); [now apply IH|].
  destruct H as [<-|[]]; reflexivity.
Qed.

(* a method whose first action is the thread check aborts on every call from a foreign thread
   before emitting anything else - in particular before touching any field *)
Theorem confined_fail_fast : forall owner t L rest,
  t <> owner L -> run_body owner t (ACheck L :: rest) = [EAbort t].
Proof.
  intros owner t L rest Hne. cbn [run_body].
  destruct (Nat.eqb t (owner L)) eqn:E; [apply Nat.eqb_eq in E; contradiction|reflexivity].
Qed.

Corollary confined_fail_fast_no_access : forall owner t L rest t' l k,
  t <> owner L -> ~ In (EAcc t' l k) (run_body owner t (ACheck L :: rest)).
Proof.
  intros owner t L rest t' l k Hne H. rewrite confined_fail_fast in H by exact Hne.
  destruct H as [H|[]]; discriminate.
Qed.

(* whatever a checked body does to a field, it does on the owner loop's thread *)
Theorem checked_body_on_owner : forall owner t L rest t' l k,
  In (EAcc t' l k) (run_body owner t (ACheck L :: rest)) -> t' = owner L.
Proof.
  intros owner t L rest t' l k H.
  destruct (Nat.eq_dec t (owner L)) as [Heq|Hne].
  - apply run_body_thread in H. cbn in H. congruence.
  - exfalso; eapply confined_fail_fast_no_access; eauto.
Qed.

Lemma run_body_locks : forall owner t ls rest,
  run_body owner t (map ALock ls ++ rest) = map (EAcq t) ls ++ run_body owner t rest.
Proof. intros owner t ls rest; induction ls as [|m ls IH]; [reflexivity|]. cbn. now rewrite IH. Qed.

Lemma run_body_unlocks : forall owner t ls,
  run_body owner t (map AUnlock ls) = map (ERel t) ls.
Proof. intros owner t ls; induction ls as [|m ls IH]; [reflexivity|]. cbn. now rewrite IH. Qed.

(* the block emitted for one summarised access that passes the static check is locally disciplined *)
Definition block_ok (owner : loopid -> tid) (L : loopid) (t : tid) (pcs : pclass_sem) (l : loc) (k : rw) (evs : list event) : Prop :=
  match pcs with
  | LoopConfined L' => L' = L -> forall t' l' k', In (EAcc t' l' k') evs -> t' = owner L
  | Guarded m => evs = [EAbort t] \/
                 exists pre mid post, evs = pre ++ EAcq t m :: mid ++ EAcc t l k :: post /\ ~ In (ERel t m) mid
  | _ => True
  end.

Lemma in_map_eacq_not_rel : forall t m ls, ~ In (ERel t m) (map (EAcq t) ls).
Proof. intros t m ls H. apply in_map_iff in H. destruct H as [x [Hx _]]. discriminate. Qed.

Theorem emitted_block_confined : forall owner L t locks l k t' l' k',
  In (EAcc t' l' k') (run_body owner t (emit_access L XLoop locks l k)) -> t' = owner L.
Proof. intros owner L t locks l k t' l' k' H. unfold emit_access in H. cbn [app] in H. eapply checked_body_on_owner; eauto. Qed.

Theorem emitted_block_guarded : forall owner L t ctx locks l k m,
  In m locks ->
  let evs := run_body owner t (emit_access L ctx locks l k) in
  evs = [EAbort t] \/
  exists pre mid post, evs = pre ++ EAcq t m :: mid ++ EAcc t l k :: post /\ ~ In (ERel t m) mid.
Proof.
  intros owner L t ctx locks l k m Hin evs.
  destruct (in_split _ _ Hin) as [l1 [l2 ->]].
  assert (Hcore : run_body owner t (map ALock (l1 ++ m :: l2) ++ [AAccess l k] ++ map AUnlock (rev (l1 ++ m :: l2)))
                  = map (EAcq t) l1 ++ EAcq t m :: map (EAcq t) l2 ++ EAcc t l k :: map (ERel t) (rev (l1 ++ m :: l2))).
  { rewrite run_body_locks. rewrite map_app. cbn [map]. rewrite <- app_assoc. cbn [app].
    f_equal. f_equal. f_equal. cbn [run_body]. f_equal. apply run_body_unlocks. }
  subst evs. unfold emit_access.
  destruct ctx; cbn [app]; try (right; exists (map (EAcq t) l1), (map (EAcq t) l2), (map (ERel t) (rev (l1 ++ m :: l2)));
                                split; [exact Hcore|apply in_map_eacq_not_rel]).
  cbn [run_body]. destruct (Nat.eqb t (owner L)); [|left; reflexivity].
  right; exists (map (EAcq t) l1), (map (EAcq t) l2), (map (ERel t) (rev (l1 ++ m :: l2))).
  split; [exact Hcore|apply in_map_eacq_not_rel].
Qed.

(* soundness of the static per-access judgement [access_ok] with respect to the emitted block:
   mu / lo interpret member names as mutexes / locations of one object *)
Lemma mem_In : forall x l, mem x l = true -> In x l.
Proof.
  intros x l H. unfold mem in H. apply existsb_exists in H. destruct H as [y [Hy He]].
  unfold seqb in He. apply String.eqb_eq in He. now subst.
Qed.

Theorem static_access_sound : forall (mu : string -> mutex) (lo : string -> loc) owner L t d pc ctx locks f k,
  (ctx = XLoop \/ ctx = XAny) ->
  access_ok d pc ctx locks k = true ->
  let evs := run_body owner t (emit_access L ctx (map mu locks) (lo f) k) in
  match pc with
  | PLoopConfined => forall t' l' k', In (EAcc t' l' k') evs -> t' = owner L
  | PGuarded m => evs = [EAbort t] \/
                  exists pre mid post, evs = pre ++ EAcq t (mu m) :: mid ++ EAcc t (lo f) k :: post /\ ~ In (ERel t (mu m)) mid
  | PImmutable => k = R
  | PAtomic => exists dd, d = Some dd /\ fd_atomic dd = true
  | PThreadLocal => exists dd, d = Some dd /\ fd_tls dd = true
  | PSync => True
  end.
Proof.
  intros mu lo owner L t d pc ctx locks f k Hctx Hok evs.
  destruct pc as [|m| | | |].
  - destruct Hctx as [-> | ->]; cbn in Hok; [|discriminate].
    intros t' l' k' H. eapply emitted_block_confined; eauto.
  - assert (Hm : mem m locks = true) by (destruct Hctx as [-> | ->]; exact Hok).
    apply mem_In in Hm. apply emitted_block_guarded. now apply in_map.
  - assert (H : match d with Some d => fd_atomic d | None => false end = true) by (destruct Hctx as [-> | ->]; exact Hok).
    destruct d as [dd|]; [exists dd; auto|discriminate].
  - assert (H : match k with R => true | W => false end = true) by (destruct Hctx as [-> | ->]; exact Hok).
    destruct k; [reflexivity|discriminate].
  - assert (H : match d with Some d => fd_tls d | None => false end = true) by (destruct Hctx as [-> | ->]; exact Hok).
    destruct d as [dd|]; [exists dd; auto|discriminate].
  - exact I.
Qed.

(* ------------------------------------------------------------------ checker facts *)
Lemma discipline_ok_spec : forall S T wv, discipline_ok S T wv = true ->
  forall v, In v (violations_raw T S) -> exists w, In w wv /\ viol_eqb v w = true.
Proof.
  intros S T wv H v Hv. unfold discipline_ok in H. rewrite forallb_forall in H.
  specialize (H v Hv). apply existsb_exists in H. exact H.
Qed.

Lemma viol_eqb_eq : forall a b, viol_eqb a b = true ->
  v_class a = v_class b /\ v_site a = v_site b /\ v_what a = v_what b /\ v_kind a = v_kind b.
Proof.
  intros a b H. unfold viol_eqb, seqb in H.
  repeat (apply andb_true_iff in H; destruct H as [H ?]).
  repeat split; now apply String.eqb_eq.
Qed.

(* every summarised access reachable from a root either passes the per-access judgement or is a recorded finding *)
Theorem checked_summaries_sound : forall T S wv, discipline_ok S T wv = true ->
  forall e, In e (all_eff T S) -> (e_ctx e = XLoop \/ e_ctx e = XAny) ->
    (exists w, In w wv /\ v_class w = e_class e /\ v_what w = a_field (e_acc e)) \/
    (exists pc, class_of T (e_class e) (a_field (e_acc e)) = Some pc /\
                access_ok (decl_of (t_decls T) (e_class e) (a_field (e_acc e))) pc (e_ctx e) (e_locks e) (a_kind (e_acc e)) = true).
Proof.
  intros T S wv Hok e He Hctx.
  destruct (eff_ok T (all_eff T S) e) eqn:Heff.
  - right. unfold eff_ok in Heff.
    destruct (class_of T (e_class e) (a_field (e_acc e))) as [pc|]; [|discriminate].
    exists pc; split; [reflexivity|].
    destruct Hctx as [Hc|Hc]; rewrite Hc in *; exact Heff.
  - left.
    assert (Hv : exists v, In v (violations_raw T S) /\ v_class v = e_class e /\ v_what v = a_field (e_acc e)).
    { unfold violations_raw, access_violations.
      destruct (class_of T (e_class e) (a_field (e_acc e))) as [pc|] eqn:Hc.
      - set (v := match pc with
                  | PAtomic | PThreadLocal => mkViol (e_class e) (e_meth e) (a_field (e_acc e)) (rw_str (a_kind (e_acc e)))
                  | _ => mkViol (e_class e) (e_site e) (a_field (e_acc e)) (rw_str (a_kind (e_acc e))) end).
        exists v; split; [|destruct pc; split; reflexivity].
        apply in_or_app; left. apply in_flat_map. exists e; split; [exact He|].
        rewrite Heff, Hc. destruct pc; left; reflexivity.
      - exists (mkViol (e_class e) (e_site e) (a_field (e_acc e)) "noclass"); split; [|split; reflexivity].
        apply in_or_app; left. apply in_flat_map. exists e; split; [exact He|].
        rewrite Heff, Hc. left; reflexivity. }
    destruct Hv as [v [Hv [Hvc Hvw]]].
    destruct (discipline_ok_spec _ _ _ Hok v Hv) as [w [Hw Heq]].
    apply viol_eqb_eq in Heq. destruct Heq as [E1 [_ [E3 _]]].
    exists w; split; [exact Hw|]. split; congruence.
Qed.

(* the recorded flag pattern (F-11) really is a race in the model: a foreign thread reads a location the
   loop thread writes, with no synchronisation between them *)
Definition f11_trace : trace := [EAcc 1 0 W; EAcc 2 0 R].

Lemma nth_error_nil_none : forall (A : Type) n, @nth_error A [] n = None.
Proof. intros A n; destruct n; reflexivity. Qed.

Lemma hb_f11_none : forall i j, hb f11_trace i j -> False.
Proof.
  intros i j H. induction H; try assumption.
  - destruct i as [|[|i]]; destruct j as [|[|j]]; cbn in *; try lia; try discriminate;
      try (rewrite nth_error_nil_none in *; discriminate).
    injection H0 as <-. injection H1 as <-. cbn in H2. discriminate.
  - destruct i as [|[|i]]; destruct j as [|[|j]]; cbn in *; try lia; try discriminate;
      try (rewrite nth_error_nil_none in *; discriminate).
    injection H0 as <-. injection H1 as <-. cbn in H2. discriminate.
Qed.

Lemma f11_wf : wf_trace f11_trace.
Proof.
  split.
  - intros n e H. destruct n as [|[|n]]; cbn in H; try (injection H as <-; exact I).
    rewrite nth_error_nil_none in H; discriminate.
  - intros i j a b Ha Hb.
    destruct i as [|[|i]]; cbn in Ha; try (rewrite nth_error_nil_none in Ha; discriminate);
      injection Ha as <-; repeat split; exact I.
Qed.

Lemma f11_races : exists tr i j, wf_trace tr /\ conflicting tr i j /\ ~ hb tr i j /\ ~ hb tr j i.
Proof.
  exists f11_trace, 0, 1. split; [exact f11_wf|]. split.
  - exists 1, 2, 0, W, R. repeat split; try reflexivity; [discriminate|now left].
  - split; intros H; exact (hb_f11_none _ _ H).
Qed.

(* a small disciplined trace: two threads touch location 0 under mutex 0 *)
Definition ex_guarded : trace := [EAcq 1 0; EAcc 1 0 W; ERel 1 0; EAcq 2 0; EAcc 2 0 R; ERel 2 0].
Definition ex_cls (l : loc) : pclass_sem := Guarded 0.
Definition ex_owner (L : loopid) : tid := 1.

Lemma ex_guarded_ok : wf_trace ex_guarded /\ respects ex_cls ex_owner ex_guarded /\ conflicting ex_guarded 1 4.
Proof.
  split; [split|split].
  - intros n e H.
    do 6 (destruct n as [|n]; [cbn in H; injection H as <-; cbn; reflexivity|]).
    cbn in H. rewrite nth_error_nil_none in H; discriminate.
  - intros i j a b Ha Hb.
    do 6 (destruct i as [|i]; [cbn in Ha; injection Ha as <-; repeat split; exact I|]).
    cbn in Ha. rewrite nth_error_nil_none in Ha; discriminate.
  - intros n t l k H.
    do 6 (destruct n as [|n]; [cbn in H; try discriminate; injection H as <- <- <-; cbn; reflexivity|]).
    cbn in H. rewrite nth_error_nil_none in H; discriminate.
  - exists 1, 2, 0, W, R. repeat split; try reflexivity; [discriminate|now left].
Qed.

(* ------------------------------------------------------------------ teardown *)
(* What makes a destructor's accesses (and the destruction of the members themselves) safe against the object's own
   thread is the join: everything the joined thread ever did happens-before everything the joining thread does
   afterwards.  This is the justification of the XTeardown context of the static checker. *)
Theorem teardown_after_join : forall tr q t u i j a b,
  wf_trace tr -> nth_error tr q = Some (EJoin t u) ->
  nth_error tr i = Some a -> thread_of a = u ->
  nth_error tr j = Some b -> thread_of b = t -> q < j ->
  hb tr i j.
Proof.
  intros tr q t u i j a b [_ Hth] Hq Hi Ha Hj Hb Hqj.
  destruct (Hth q i (EJoin t u) a Hq Hi) as [_ [Hjoin _]]. cbn in Hjoin. specialize (Hjoin Ha).
  apply hb_trans with q.
  - eapply hb_sw with (a := a) (b := EJoin t u); eauto.
    unfold sw. rewrite Ha, Nat.eqb_refl. now rewrite orb_true_r.
  - eapply hb_po with (a := EJoin t u) (b := b); eauto; cbn; congruence.
Qed.

(* ... and without the join nothing orders them: thread 2 (the object's thread) updates the bookkeeping of mutex 0
   (location 5 = MutexLock::holder_) inside its last critical section; thread 1 (the destructor) destroys the mutex
   - a write of the same location - without having joined thread 2 and without holding the mutex.  This is
   ~EventLoopThread after its unlocked read of loop_ returned NULL (findings/C08.md). *)
Definition unjoined_trace : trace := [EAcq 2 0; EAcc 2 5 W; ERel 2 0; EAcc 1 5 W].

Lemma hb_unjoined_lt3 : forall i j, hb unjoined_trace i j -> j < 3.
Proof.
  intros i j H. induction H.
  - destruct j as [|[|[|[|j]]]]; try lia.
    + destruct i as [|[|[|i]]]; try lia; cbn in *;
        injection H0 as <-; injection H1 as <-; cbn in H2; discriminate.
    + cbn in H1. rewrite nth_error_nil_none in H1. discriminate.
  - destruct j as [|[|[|[|j]]]]; try lia.
    + destruct i as [|[|[|i]]]; try lia; cbn in *;
        injection H0 as <-; injection H1 as <-; cbn in H2; discriminate.
    + cbn in H1. rewrite nth_error_nil_none in H1. discriminate.
  - assumption.
Qed.

Lemma unjoined_wf : wf_trace unjoined_trace.
Proof.
  split.
  - intros n e H. destruct n as [|[|[|[|n]]]]; cbn in H; try (injection H as <-; cbn; reflexivity).
    rewrite nth_error_nil_none in H; discriminate.
  - intros i j a b Ha Hb.
    destruct i as [|[|[|[|i]]]]; cbn in Ha; try (rewrite nth_error_nil_none in Ha; discriminate);
      injection Ha as <-; repeat split; exact I.
Qed.

Lemma teardown_without_join_races :
  exists tr i j, wf_trace tr /\ conflicting tr i j /\ ~ hb tr i j /\ ~ hb tr j i /\
                 (forall q t u, nth_error tr q <> Some (EJoin t u)).
Proof.
  exists unjoined_trace, 1, 3. split; [exact unjoined_wf|]. split.
  - exists 2, 1, 5, W, W. repeat split; try reflexivity; [discriminate|now left].
  - split; [|split].
    + intros H. apply hb_unjoined_lt3 in H. lia.
    + intros H. apply hb_lt in H. lia.
    + intros q t u H. destruct q as [|[|[|[|q]]]]; cbn in H; try discriminate.
      rewrite nth_error_nil_none in H; discriminate.
Qed.

(* the static teardown rule: every synchronisation member a destructor destroys while the object's thread may still
   use it (no join, or a join conditional on a member the thread itself writes) is a recorded finding *)
Theorem teardown_checked : forall T S wv, discipline_ok S T wv = true ->
  forall m d f ln, In m S -> m_dtor m = Some d -> In (f, ln) (d_destroys d) ->
    mem f (unjoined_uses (thread_roots T S (m_class m)) (d_paths d)) = true ->
    exists w, In w wv /\ v_class w = m_class m /\ v_site w = m_name m /\ v_what w = f /\ v_kind w = "destroy"%string.
Proof.
  intros T S wv Hok m d f ln Hm Hd Hf Hbad.
  assert (Hv : In (mkViol (m_class m) (m_name m) f "destroy") (violations_raw T S)).
  { unfold violations_raw. repeat (apply in_or_app; right).
    unfold teardown_violations. apply in_flat_map. exists m; split; [exact Hm|].
    rewrite Hd. apply in_flat_map. exists (f, ln); split; [exact Hf|].
    cbn [fst]. rewrite Hbad. left; reflexivity. }
  destruct (discipline_ok_spec _ _ _ Hok _ Hv) as [w [Hw Heq]].
  apply viol_eqb_eq in Heq. cbn in Heq. destruct Heq as [E1 [E2 [E3 E4]]].
  exists w; repeat split; auto.
Qed.

(* the fail-fast clause of the static checker: a method with the contract `loop failfast` has the thread check as its
   first statement (so that [confined_fail_fast] applies to its body), or that is a recorded finding *)
Theorem failfast_checked : forall T S wv, discipline_ok S T wv = true ->
  forall m, In m S -> contract_of T (m_class m) (m_name m) = Some (CLoop FFDirect) ->
    m_check_first m = true \/
    exists w, In w wv /\ v_class w = m_class m /\ v_site w = m_name m /\ v_kind w = "nofailfast"%string.
Proof.
  intros T S wv Hok m Hm Hc.
  destruct (m_check_first m) eqn:Hcf; [left; reflexivity|right].
  assert (Hv : In (mkViol (m_class m) (m_name m) "assertInLoopThread" "nofailfast") (violations_raw T S)).
  { unfold violations_raw. apply in_or_app; right. apply in_or_app; right. apply in_or_app; left.
    unfold failfast_violations. apply in_flat_map. exists (m, CLoop FFDirect); split.
    - unfold roots. apply in_flat_map. exists m; split; [exact Hm|]. rewrite Hc. left; reflexivity.
    - rewrite Hcf. left; reflexivity. }
  destruct (discipline_ok_spec _ _ _ Hok _ Hv) as [w [Hw Heq]].
  apply viol_eqb_eq in Heq. cbn in Heq. destruct Heq as [E1 [E2 [E3 E4]]].
  exists w; repeat split; auto.
Qed.

(* ------------------------------------------------------------------ use after release (F-4) *)
(* thread 1 (the caller of quit()) stores the exit flag (atomic location 9) and afterwards still uses the object
   (location 5 = the wake-up descriptor, read by wakeup()); thread 2 (the owner) loads the flag, leaves its loop and
   destroys the object (write of location 5).  The atomic store orders what PRECEDES it before the owner's teardown,
   not what follows it. *)
Definition useafter_trace : trace := [EAtomW 1 9; EAtomR 2 9; EAcc 2 5 W; EAcc 1 5 R].

Lemma hb_useafter_not_2_3 : forall i j, hb useafter_trace i j -> ~ (i = 2 /\ j = 3).
Proof.
  intros i j H. induction H; intros [-> ->].
  - cbn in *. injection H0 as <-. injection H1 as <-. cbn in H2. discriminate.
  - cbn in *. injection H0 as <-. injection H1 as <-. cbn in H2. discriminate.
  - apply hb_lt in H, H0. lia.
Qed.

Lemma useafter_wf : wf_trace useafter_trace.
Proof.
  split.
  - intros n e H. destruct n as [|[|[|[|n]]]]; cbn in H; try (injection H as <-; cbn; exact I).
    rewrite nth_error_nil_none in H; discriminate.
  - intros i j a b Ha Hb.
    destruct i as [|[|[|[|i]]]]; cbn in Ha; try (rewrite nth_error_nil_none in Ha; discriminate);
      injection Ha as <-; repeat split; exact I.
Qed.

Lemma use_after_release_races :
  exists tr i j, wf_trace tr /\ conflicting tr i j /\ ~ hb tr i j /\ ~ hb tr j i /\ hb tr 0 2.
Proof.
  exists useafter_trace, 2, 3. split; [exact useafter_wf|]. split.
  - exists 2, 1, 5, W, R. repeat split; try reflexivity; [discriminate|now left].
  - split; [|split].
    + intros H. exact (hb_useafter_not_2_3 _ _ H (conj eq_refl eq_refl)).
    + intros H. apply hb_lt in H. lia.
    + apply hb_trans with 1.
      * eapply hb_sw with (a := EAtomW 1 9) (b := EAtomR 2 9); [lia|reflexivity|reflexivity|reflexivity].
      * eapply hb_po with (a := EAtomR 2 9) (b := EAcc 2 5 W); [lia|reflexivity|reflexivity|reflexivity].
Qed.

(* the static rule: every member an any-thread method still uses after storing an exit flag is a recorded finding *)
Theorem useafter_checked : forall T S wv, discipline_ok S T wv = true ->
  forall m g f, In m S -> contract_of T (m_class m) (m_name m) = Some CAny ->
    In (m_class m, g) (t_exitflags T) -> In f (assoc_tail g (m_tails m)) ->
    exists w, In w wv /\ v_class w = m_class m /\ v_site w = m_name m /\ v_what w = f /\ v_kind w = "useafter"%string.
Proof.
  intros T S wv Hok m g f Hm Hc Hg Hf.
  assert (Hv : In (mkViol (m_class m) (m_name m) f "useafter") (violations_raw T S)).
  { unfold violations_raw. do 6 (apply in_or_app; right). apply in_or_app; left.
    unfold useafter_violations. apply in_flat_map. exists (m, CAny); split.
    - unfold roots. apply in_flat_map. exists m; split; [exact Hm|]. rewrite Hc. left; reflexivity.
    - apply in_flat_map. exists (m_class m, g); split; [exact Hg|].
      cbn [fst snd]. unfold seqb. rewrite String.eqb_refl. apply in_map_iff. exists f; split; [reflexivity|exact Hf]. }
  destruct (discipline_ok_spec _ _ _ Hok _ Hv) as [w [Hw Heq]].
  apply viol_eqb_eq in Heq. cbn in Heq. destruct Heq as [E1 [E2 [E3 E4]]].
  exists w; repeat split; auto.
Qed.

(* ------------------------------------------------------------------ borrowed captures *)
(* The enqueue of a functor orders what the poster did BEFORE it ahead of the functor's run (publish_by_enqueue) - an
   owned copy made before the post is safe.  What the poster does AFTER the post is not ordered: thread 1 posts functor 7
   that reads location 5 (memory it only borrowed: a StringPiece's bytes, a raw pointer, the raw this), returns and
   rewrites / frees that memory; the loop thread runs the functor. *)
Definition borrowed_trace : trace := [EEnq 1 7; EAcc 1 5 W; ERun 2 7; EAcc 2 5 R].

Lemma hb_borrowed_from1 : forall i j, hb borrowed_trace i j -> i <> 1.
Proof.
  intros i j H. induction H; try assumption; intros ->.
  - destruct j as [|[|[|[|j]]]]; try lia; cbn in *; try (rewrite nth_error_nil_none in *; discriminate);
      injection H0 as <-; injection H1 as <-; cbn in H2; discriminate.
  - destruct j as [|[|[|[|j]]]]; try lia; cbn in *; try (rewrite nth_error_nil_none in *; discriminate);
      injection H0 as <-; injection H1 as <-; cbn in H2; discriminate.
Qed.

Lemma borrowed_wf : wf_trace borrowed_trace.
Proof.
  split.
  - intros n e H. destruct n as [|[|[|[|n]]]]; cbn in H; try (injection H as <-; cbn; exact I).
    rewrite nth_error_nil_none in H; discriminate.
  - intros i j a b Ha Hb.
    destruct i as [|[|[|[|i]]]]; cbn in Ha; try (rewrite nth_error_nil_none in Ha; discriminate);
      injection Ha as <-; repeat split; exact I.
Qed.

Lemma borrowed_after_post_races :
  exists tr i j, wf_trace tr /\ conflicting tr i j /\ ~ hb tr i j /\ ~ hb tr j i /\ hb tr 0 3.
Proof.
  exists borrowed_trace, 1, 3. split; [exact borrowed_wf|]. split.
  - exists 1, 2, 5, W, R. repeat split; try reflexivity; [discriminate|now left].
  - split; [|split].
    + intros H. exact (hb_borrowed_from1 _ _ H eq_refl).
    + intros H. apply hb_lt in H. lia.
    + apply hb_trans with 2.
      * eapply hb_sw with (a := EEnq 1 7) (b := ERun 2 7); [lia|reflexivity|reflexivity|reflexivity].
      * eapply hb_po with (a := ERun 2 7) (b := EAcc 2 5 R); [lia|reflexivity|reflexivity|reflexivity].
Qed.

(* the static rule: a borrowed capture (or an unjustified raw this of a shared class) posted by a root method itself on
   its cross-thread branch is a recorded finding *)
Theorem borrow_checked : forall T S wv, discipline_ok S T wv = true ->
  forall m k pa kind, In m S -> contract_of T (m_class m) (m_name m) = Some k ->
    In pa (m_postargs m) -> borrow_kind T (m_class m) (m_name m) pa (ctx_of_contract k) = Some kind ->
    exists w, In w wv /\ v_class w = m_class m /\ v_site w = m_name m /\ v_what w = pa_callee pa /\ v_kind w = kind.
Proof.
  intros T S wv Hok m k pa kind Hm Hc Hpa Hk.
  assert (Hv : In (mkViol (m_class m) (m_name m) (pa_callee pa) kind) (violations_raw T S)).
  { unfold violations_raw. do 5 (apply in_or_app; right). apply in_or_app; left.
    unfold borrow_violations. apply in_flat_map. exists (m, k); split.
    - unfold roots. apply in_flat_map. exists m; split; [exact Hm|]. rewrite Hc. left; reflexivity.
    - unfold FUEL. cbn [collect_posts]. apply in_or_app; left.
      apply in_flat_map. exists pa; split; [exact Hpa|]. rewrite Hk.
      unfold site_name, seqb. rewrite String.eqb_refl. left; reflexivity. }
  destruct (discipline_ok_spec _ _ _ Hok _ Hv) as [w [Hw Heq]].
  apply viol_eqb_eq in Heq. cbn in Heq. destruct Heq as [E1 [E2 [E3 E4]]].
  exists w; repeat split; auto.
Qed.

(* ------------------------------------------------------------------ destructor paths *)
(* path-sensitivity of the teardown rule: a destructor all of whose paths execute join() exposes nothing, whatever the
   conditions read; and a path that skips join() on a member the thread writes exposes exactly that thread's tail *)
Lemma all_paths_joined_safe : forall thr paths,
  forallb (fun p => fst p) paths = true -> unjoined_uses thr paths = [].
Proof.
  intros thr paths H. unfold unjoined_uses. induction paths as [|p r IH]; [reflexivity|].
  cbn in H. apply andb_true_iff in H. destruct H as [Hp Hr].
  cbn [flat_map]. unfold path_unjoined_uses at 1. rewrite Hp. cbn. exact (IH Hr).
Qed.

Lemma skipped_path_exposes_tail : forall thr paths gs g t x,
  In (false, gs) paths -> gs <> [] -> In g gs -> thread_writes thr g = true -> In t thr -> In x (tail_after t g) ->
  mem x (unjoined_uses thr paths) = true.
Proof.
  intros thr paths gs g t x Hp Hne Hg Hw Ht Hx.
  assert (Hin : In x (unjoined_uses thr paths)).
  { unfold unjoined_uses. apply in_flat_map. exists (false, gs); split; [exact Hp|].
    unfold path_unjoined_uses. cbn [fst snd]. destruct gs as [|g0 r]; [congruence|].
    apply in_flat_map. exists g; split; [exact Hg|]. rewrite Hw.
    apply in_flat_map. exists t; split; [exact Ht|exact Hx]. }
  unfold mem. apply existsb_exists. exists x; split; [exact Hin|]. unfold seqb. apply String.eqb_refl.
Qed.

(* the static rule for registered callbacks *)
Theorem callback_checked : forall T S wv, discipline_ok S T wv = true ->
  forall m ra, In m S -> In ra (m_regargs m) -> mem (ra_target ra) (t_shared T) = true ->
    lookup3 (m_class m) (m_name m) (ra_callee ra) (t_lifetime_ok T) = false ->
    (seqb (ra_kind ra) "this" || seqb (ra_kind ra) "member") = true ->
    exists w, In w wv /\ v_class w = m_class m /\ v_site w = m_name m /\ v_what w = ra_callee ra /\
              v_kind w = "rawthis-callback"%string.
Proof.
  intros T S wv Hok m ra Hm Hra Hsh Hok2 Hk.
  assert (Hv : In (mkViol (m_class m) (m_name m) (ra_callee ra) "rawthis-callback") (violations_raw T S)).
  { unfold violations_raw. do 4 (apply in_or_app; right). apply in_or_app; left.
    unfold callback_violations. apply in_flat_map. exists m; split; [exact Hm|].
    apply in_flat_map. exists ra; split; [exact Hra|]. rewrite Hsh, Hok2, Hk. left; reflexivity. }
  destruct (discipline_ok_spec _ _ _ Hok _ Hv) as [w [Hw Heq]].
  apply viol_eqb_eq in Heq. cbn in Heq. destruct Heq as [E1 [E2 [E3 E4]]].
  exists w; repeat split; auto.
Qed.

(* ------------------------------------------------------------------ static storage *)
(* A member lives once per object, a static-storage variable once per program: whatever object an operation is invoked
   on, it touches THE SAME location.  [addr o v] is the location of variable v reached through object o. *)
Definition shared_static (addr : nat -> nat -> loc) (v : nat) : Prop := forall o1 o2, addr o1 v = addr o2 v.

(* soundness: if the class given to that one location is respected, accesses made through DIFFERENT objects by different
   threads are ordered like any others *)
Theorem static_storage_sound : forall cls owner tr addr v,
  wf_trace tr -> respects cls owner tr -> shared_static addr v ->
  forall o1 o2 i j ti tj ki kj, i < j ->
    nth_error tr i = Some (EAcc ti (addr o1 v) ki) -> nth_error tr j = Some (EAcc tj (addr o2 v) kj) ->
    ti <> tj -> (ki = W \/ kj = W) -> hb tr i j.
Proof.
  intros cls owner tr addr v Hwf Hres Hsh o1 o2 i j ti tj ki kj Hij Hi Hj Hne Hw.
  rewrite (Hsh o2 o1) in Hj.
  eapply discipline_sound; eauto.
Qed.

(* ... and what goes wrong when it is treated like a member: "confined to the loop of its object" is respected object by
   object (each access is made by the owner thread of the loop of the object it goes through), yet two objects on two
   loops write the same bytes (Buffer::readFd's extrabuf made static; AppendFile::buffer_ made static) *)
Lemma static_per_object_confinement_races :
  exists (tr : trace) (addr : nat -> nat -> loc) (owner_of_obj : nat -> tid) v i j,
    shared_static addr v /\ wf_trace tr /\
    nth_error tr i = Some (EAcc (owner_of_obj 1) (addr 1 v) W) /\
    nth_error tr j = Some (EAcc (owner_of_obj 2) (addr 2 v) W) /\
    conflicting tr i j /\ ~ hb tr i j /\ ~ hb tr j i.
Proof.
  exists [EAcc 1 0 W; EAcc 2 0 W], (fun _ _ => 0), (fun o => o), 0, 0, 1.
  assert (Hno : forall a b, hb [EAcc 1 0 W; EAcc 2 0 W] a b -> False).
  { intros a b H. induction H; try assumption.
    - destruct i as [|[|i]]; destruct j as [|[|j]]; cbn in *; try lia; try discriminate;
        try (rewrite nth_error_nil_none in *; discriminate).
      injection H0 as <-. injection H1 as <-. cbn in H2. discriminate.
    - destruct i as [|[|i]]; destruct j as [|[|j]]; cbn in *; try lia; try discriminate;
        try (rewrite nth_error_nil_none in *; discriminate).
      injection H0 as <-. injection H1 as <-. cbn in H2. discriminate. }
  split; [intros o1 o2; reflexivity|]. split.
  - split.
    + intros n e H. destruct n as [|[|n]]; cbn in H; try (injection H as <-; exact I).
      rewrite nth_error_nil_none in H; discriminate.
    + intros i j a b Ha Hb.
      destruct i as [|[|i]]; cbn in Ha; try (rewrite nth_error_nil_none in Ha; discriminate);
        injection Ha as <-; repeat split; exact I.
  - split; [reflexivity|]. split; [reflexivity|]. split.
    + exists 1, 2, 0, W, W. repeat split; try reflexivity; [discriminate|now left].
    + split; intros H; exact (Hno _ _ H).
Qed.

(* the static rule is part of the obligation *)
Theorem static_checked : forall T S wv, discipline_ok S T wv = true ->
  forall sv, In sv (t_statics T) ->
    (exists c, lookup1 (sv_name sv) (t_static_classes T) = Some c /\ static_ok sv c = true) \/
    (exists w, In w wv /\ v_class w = "static"%string /\ v_what w = sv_name sv).
Proof.
  intros T S wv Hok sv Hsv.
  destruct (lookup1 (sv_name sv) (t_static_classes T)) as [c|] eqn:Hc.
  - destruct (static_ok sv c) eqn:Hs; [left; exists c; split; auto|right].
    assert (Hv : In (mkViol "static" (sv_where sv) (sv_name sv) "staticclass") (violations_raw T S)).
    { unfold violations_raw. do 7 (apply in_or_app; right). apply in_or_app; left.
      unfold static_violations. apply in_flat_map. exists sv; split; [exact Hsv|]. rewrite Hc, Hs. left; reflexivity. }
    destruct (discipline_ok_spec _ _ _ Hok _ Hv) as [w [Hw Heq]].
    apply viol_eqb_eq in Heq. cbn in Heq. destruct Heq as [E1 [E2 [E3 E4]]]. exists w; repeat split; auto.
  - right.
    assert (Hv : In (mkViol "static" (sv_where sv) (sv_name sv) "nostaticclass") (violations_raw T S)).
    { unfold violations_raw. do 7 (apply in_or_app; right). apply in_or_app; left.
      unfold static_violations. apply in_flat_map. exists sv; split; [exact Hsv|]. rewrite Hc. left; reflexivity. }
    destruct (discipline_ok_spec _ _ _ Hok _ Hv) as [w [Hw Heq]].
    apply viol_eqb_eq in Heq. cbn in Heq. destruct Heq as [E1 [E2 [E3 E4]]]. exists w; repeat split; auto.
Qed.
