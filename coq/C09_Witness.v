(* C09_Witness: concrete histories on which the models of the OLD shapes of the code (ri = false: before
   bbde8b0; se = false / ne = false: before a5a0563) violate the property text (findings F-1 and F-14),
   each meeting every documented precondition of the Channel API -- and the same histories on the
   models of the current tree, where they run and report what the interest map says. *)
From Coq Require Import List ZArith NArith Lia Bool Arith.
From Muduo Require Import Gen_Consts Gen_C09 C09_Model.
Import ListNotations.

Definition any_hist : spec -> op -> Prop := fun _ _ => True.
Definition readyHUP : nat -> N := fun _ => POLLHUP.

(* F-1: enable, disable, remove, enable again -- the same Channel object *)
Definition w_reregister : list op :=
  [New 0 0; Upd UEnableR 0; Upd UDisableAll 0; Remove 0; Upd UEnableR 0].
(* F-14: disableAll twice, peer hangs up *)
Definition w_double_disable : list op :=
  [New 0 0; Upd UEnableR 0; Upd UDisableAll 0; Upd UDisableAll 0; Poll readyHUP []].
(* F-14: disableAll on a fresh channel, then remove (Acceptor destroyed before listen()) *)
Definition w_fresh_disable_remove : list op := [New 0 0; Upd UDisableAll 0; Remove 0].
Definition w_fresh_disable_poll : list op := [New 0 0; Upd UDisableAll 0; Poll readyHUP []].

Ltac no_taker :=
  intros [c__ [s__ [H__ [R__ F__]]]];
  do 2 (destruct c__ as [|c__]; [cbn in H__; try discriminate; try (injection H__ as <-; cbn in R__, F__; congruence)|]);
  cbn in H__; discriminate.

Ltac guard_upd := eexists; split; [reflexivity|]; first [left; reflexivity | right; no_taker].

Ltac hstep := cbn [hist_ok]; refine (conj _ (conj _ _)); cbn.
Ltac clean_by_compute := let s := fresh "s" in let H := fresh "H" in
  intros s H; injection H as <-; vm_compute; discriminate.

Lemma w_reregister_ok : hist_ok sclean spec0 w_reregister.
Proof.
  unfold w_reregister.
  hstep; [reflexivity|exact I|].
  hstep; [guard_upd|clean_by_compute|].
  hstep; [guard_upd| |].
  { intros s H. injection H as <-. intros _. split; [reflexivity|]. vm_compute. discriminate. }
  hstep; [eexists; split; [reflexivity|]; split; reflexivity|exact I|].
  hstep; [guard_upd|clean_by_compute|].
  exact I.
Qed.

Lemma w_reregister_faults : forall ne, pp_run false ne pp_init w_reregister = Fault.
Proof. intros [|]; vm_compute; reflexivity. Qed.
Lemma w_reregister_fixed_ok : forall ne, exists st outs, pp_run true ne pp_init w_reregister = Ok (st, outs).
Proof. intros [|]; vm_compute; eexists _, _; reflexivity. Qed.
Lemma w_reregister_epoll_ok : forall se, exists st outs, ep_run se ep_init w_reregister = Ok (st, outs).
Proof. intros [|]; vm_compute; eexists _, _; reflexivity. Qed.

Lemma w_double_disable_ok : hist_ok any_hist spec0 w_double_disable.
Proof.
  unfold w_double_disable, any_hist.
  hstep; [reflexivity|exact I|].
  hstep; [guard_upd|exact I|].
  hstep; [guard_upd|exact I|].
  hstep; [guard_upd|exact I|].
  hstep; [exact I|exact I|exact I].
Qed.

Lemma no_report_0 : forall sp ready c r, (forall c0 s, sp c0 = Some s -> s_ev s = 0%N) -> ~ spec_reports sp ready c r.
Proof. intros sp ready c r H [s [A [_ [B _]]]]. apply B. eapply H; eauto. Qed.

Lemma w_double_disable_spec : forall c r, ~ spec_reports (spec_run spec0 w_double_disable) readyHUP c r.
Proof.
  intros c r. apply no_report_0. intros c0 s. cbn.
  destruct c0 as [|c0]; cbn; [|discriminate]. intros H. injection H as <-. reflexivity.
Qed.

Lemma w_double_disable_epoll : exists st outs,
  ep_run false ep_init w_double_disable = Ok (st, outs) /\ last outs [] = [(0, POLLHUP)] /\
  callbacks (last outs []) = [(0, CbClose)].
Proof. vm_compute. eexists _, _. repeat split. Qed.
Lemma w_double_disable_poll : forall ri ne, exists st outs,
  pp_run ri ne pp_init w_double_disable = Ok (st, outs) /\ last outs [] = [].
Proof. intros [|] [|]; vm_compute; eexists _, _; repeat split. Qed.

Lemma w_fresh_disable_remove_ok : hist_ok any_hist spec0 w_fresh_disable_remove.
Proof.
  unfold w_fresh_disable_remove, any_hist.
  hstep; [reflexivity|exact I|].
  hstep; [guard_upd|exact I|].
  hstep; [eexists; split; [reflexivity|]; split; reflexivity|exact I|exact I].
Qed.
Lemma w_fresh_disable_remove_faults : forall ri, pp_run ri false pp_init w_fresh_disable_remove = Fault.
Proof. intros [|]; vm_compute; reflexivity. Qed.

Lemma w_fresh_disable_poll_ok : hist_ok any_hist spec0 w_fresh_disable_poll.
Proof.
  unfold w_fresh_disable_poll, any_hist.
  hstep; [reflexivity|exact I|].
  hstep; [guard_upd|exact I|].
  hstep; [exact I|exact I|exact I].
Qed.
Lemma w_fresh_disable_poll_spec : forall c r, ~ spec_reports (spec_run spec0 w_fresh_disable_poll) readyHUP c r.
Proof.
  intros c r. apply no_report_0. intros c0 s. cbn.
  destruct c0 as [|c0]; cbn; [|discriminate]. intros H. injection H as <-. reflexivity.
Qed.
Lemma w_fresh_disable_poll_both : forall ri, exists st outs st2 outs2,
  ep_run false ep_init w_fresh_disable_poll = Ok (st, outs) /\ last outs [] = [(0, POLLHUP)] /\
  pp_run ri false pp_init w_fresh_disable_poll = Ok (st2, outs2) /\ last outs2 [] = [(0, POLLHUP)].
Proof. intros [|]; vm_compute; eexists _, _, _, _; repeat split. Qed.

Lemma w_backends_differ :
  hist_ok any_hist spec0 w_double_disable /\
  (exists st outs, ep_run false ep_init w_double_disable = Ok (st, outs) /\ last outs [] = [(0, POLLHUP)]) /\
  (forall ri ne, exists st outs, pp_run ri ne pp_init w_double_disable = Ok (st, outs) /\ last outs [] = []).
Proof.
  split; [exact w_double_disable_ok|]. split; [|exact w_double_disable_poll].
  destruct w_double_disable_epoll as [st [outs [A [B _]]]]. eauto.
Qed.

(* a history with a swap-and-pop removal of a middle entry followed by an update of the moved channel *)
Definition w_swap : list op :=
  [New 0 0; New 1 1; New 2 2; Upd UEnableR 0; Upd UEnableR 1; Upd UEnableW 2;
   Upd UDisableAll 1; Remove 1; Upd UEnableR 2; Poll (fun _ => 5%N) []].
Definition both_extra (sp : spec) (o : op) : Prop := sclean sp o /\ sfresh sp o.

Ltac no_taker3 :=
  intros [c__ [s__ [H__ [R__ F__]]]];
  do 3 (destruct c__ as [|c__]; [cbn in H__; try discriminate; try (injection H__ as <-; cbn in R__, F__; congruence)|]);
  cbn in H__; discriminate.
Ltac guard_upd3 := eexists; split; [reflexivity|]; first [left; reflexivity | right; no_taker3].
Ltac extra_nz := split; [clean_by_compute|let s := fresh "s" in let H := fresh "H" in intros s H; injection H as <-; reflexivity].

Lemma w_swap_ok : hist_ok both_extra spec0 w_swap.
Proof.
  unfold w_swap, both_extra.
  hstep; [reflexivity|split; exact I|].
  hstep; [reflexivity|split; exact I|].
  hstep; [reflexivity|split; exact I|].
  hstep; [guard_upd3|extra_nz|].
  hstep; [guard_upd3|extra_nz|].
  hstep; [guard_upd3|extra_nz|].
  hstep; [guard_upd3| |].
  { split.
    - intros s H. injection H as <-. intros _. split; [reflexivity|]. vm_compute. discriminate.
    - intros s H. injection H as <-. reflexivity. }
  hstep; [eexists; split; [reflexivity|]; split; reflexivity|split; exact I|].
  hstep; [guard_upd3|extra_nz|].
  hstep; [exact I|split; exact I|exact I].
Qed.

(* ---- the current tree ---------------------------------------------------------------------------------- *)
(* F-1 is fixed: the witness history runs on the poll back-end of the current tree *)
Lemma w_reregister_current_ok : exists st outs, pp_run_current pp_init w_reregister = Ok (st, outs).
Proof. vm_compute. eexists _, _. reflexivity. Qed.

(* F-14 is fixed: after disableAll(); disableAll() NEITHER back-end of the current tree reports the
   hung-up descriptor; disableAll() on a fresh channel followed by remove() runs on both; a fresh
   channel that was only disabled is reported by neither *)
Lemma w_double_disable_current :
  (exists st outs, ep_run_current ep_init w_double_disable = Ok (st, outs) /\ last outs [] = []) /\
  (exists st outs, pp_run_current pp_init w_double_disable = Ok (st, outs) /\ last outs [] = []).
Proof. split; vm_compute; eexists _, _; split; reflexivity. Qed.
Lemma w_fresh_disable_remove_current :
  (exists st outs, ep_run_current ep_init w_fresh_disable_remove = Ok (st, outs)) /\
  (exists st outs, pp_run_current pp_init w_fresh_disable_remove = Ok (st, outs)).
Proof. split; vm_compute; eexists _, _; reflexivity. Qed.
Lemma w_fresh_disable_poll_current :
  (exists st outs, ep_run_current ep_init w_fresh_disable_poll = Ok (st, outs) /\ last outs [] = []) /\
  (exists st outs, pp_run_current pp_init w_fresh_disable_poll = Ok (st, outs) /\ last outs [] = []).
Proof. split; vm_compute; eexists _, _; split; reflexivity. Qed.

(* stale within the batch: channels 0 and 1 are both readable; the read callback of 0 disables 1 *)
Definition w_two : list op := [New 0 0; New 1 1; Upd UEnableR 0; Upd UEnableR 1].
Definition h_stale : handlers :=
  fun c k => match c, k with 0, CbRead => [Upd UDisableAll 1] | _, _ => [] end.
Definition all_run : nat -> bool := fun _ => true.
Definition readyIN : nat -> N := fun _ => POLLIN.

Lemma w_two_ok : hist_ok any_hist spec0 w_two.
Proof.
  unfold w_two, any_hist.
  hstep; [reflexivity|exact I|].
  hstep; [reflexivity|exact I|].
  hstep; [guard_upd|exact I|].
  hstep; [guard_upd|exact I|].
  exact I.
Qed.

(* the loop's own channels as the constructors leave them: timer channel 0 on descriptor 3, wake-up
   channel 1 on descriptor 4 *)
Definition w_loop_init : list op := [New 0 3; Upd UEnableR 0; New 1 4; Upd UEnableR 1].
Lemma w_loop_init_ok : hist_ok any_hist spec0 w_loop_init.
Proof.
  unfold w_loop_init, any_hist.
  hstep; [reflexivity|exact I|].
  hstep; [guard_upd|exact I|].
  hstep; [reflexivity|exact I|].
  hstep; [guard_upd|exact I|].
  exact I.
Qed.

(* the F-1 witness meets the preconditions (no extra hypothesis) *)
Lemma w_reregister_pre : hist_ok any_hist spec0 w_reregister.
Proof.
  unfold w_reregister, any_hist.
  hstep; [reflexivity|exact I|].
  hstep; [guard_upd|exact I|].
  hstep; [guard_upd|exact I|].
  hstep; [eexists; split; [reflexivity|]; split; reflexivity|exact I|].
  hstep; [guard_upd|exact I|].
  exact I.
Qed.

(* a run of three iterations: the timerfd becomes due; the timer callback queues functor 7, which (running
   in doPendingFunctors) queues functor 8 and therefore wakes the loop; 8 runs in the next iteration;
   then the loop is idle *)
Definition hq_ex : nat -> cb -> list nat := fun c k => match c, k with 0, CbRead => [7] | _, _ => [] end.
Definition fb_ex : fnbody := fun i => match i with 7 => ([], [8]) | _ => ([], []) end.
Definition env0 : kenv := mkKenv 0 0 (fun _ => 0%N).
