(* C09_Witness: concrete histories on which the faithful models violate the property text
   (findings F-1 and F-14), each meeting every documented precondition of the Channel API. *)
From Coq Require Import List ZArith NArith Lia Bool Arith.
From Muduo Require Import Gen_Consts Gen_C09 C09_Model.
Import ListNotations.

Definition any_hist : spec -> op -> Prop := fun _ _ => True.
Definition readyHUP : nat -> N := fun _ => POLLHUP.

(* F-1: enable, disable, remove, enable again -- the same Channel object *)
Definition w_reregister : list op :=
  [New 0 0; Upd UEnableR 0; Upd UDisableAll 0; Remove 0; Upd UEnableR 0].
(* F-14: disableAll twice, peer hangs up *)
Definition w_double_disable : list op :=
  [New 0 0; Upd UEnableR 0; Upd UDisableAll 0; Upd UDisableAll 0; Poll readyHUP []].
(* F-14: disableAll on a fresh channel, then remove (Acceptor destroyed before listen()) *)
Definition w_fresh_disable_remove : list op := [New 0 0; Upd UDisableAll 0; Remove 0].
Definition w_fresh_disable_poll : list op := [New 0 0; Upd UDisableAll 0; Poll readyHUP []].

Ltac no_taker :=
  let c := fresh "c" in let s := fresh "s" in let H := fresh "H" in let R := fresh "R" in let F := fresh "F" in
  intros [c [s [H [R F]]]];
  repeat (destruct c as [|c]; [cbn in H; try discriminate; try (injection H as <-; cbn in R, F; congruence)|]);
  cbn in H; discriminate.

Ltac guard_upd := eexists; split; [reflexivity|]; first [left; reflexivity | right; no_taker].

Lemma w_reregister_ok : hist_ok sclean spec0 w_reregister.
Proof.
  unfold w_reregister. cbn [hist_ok]. repeat split.
  - guard_upd.
  - cbn. intros s H. injection H as <-. vm_compute. discriminate.
  - cbn. guard_upd.
  - cbn. intros s H. injection H as <-. cbn. intros _. split; [reflexivity|]. vm_compute. discriminate.
  - cbn. eexists. split; [reflexivity|]. split; reflexivity.
  - cbn. guard_upd.
  - cbn. intros s H. injection H as <-. vm_compute. discriminate.
Qed.

Lemma w_reregister_faults : pp_run false pp_init w_reregister = Fault.
Proof. vm_compute. reflexivity. Qed.
Lemma w_reregister_fixed_ok : exists st outs, pp_run true pp_init w_reregister = Ok (st, outs).
Proof. vm_compute. eexists _, _. reflexivity. Qed.
Lemma w_reregister_epoll_ok : exists st outs, ep_run ep_init w_reregister = Ok (st, outs).
Proof. vm_compute. eexists _, _. reflexivity. Qed.

Lemma w_double_disable_ok : hist_ok any_hist spec0 w_double_disable.
Proof.
  unfold w_double_disable, any_hist. cbn [hist_ok]. repeat split.
  - guard_upd.
  - cbn. guard_upd.
  - cbn. guard_upd.
Qed.

Lemma no_report_0 : forall sp ready c r, (forall c0 s, sp c0 = Some s -> s_ev s = 0%N) -> ~ spec_reports sp ready c r.
Proof. intros sp ready c r H [s [A [_ [B _]]]]. apply B. eapply H; eauto. Qed.

Lemma w_double_disable_spec : forall c r, ~ spec_reports (spec_run spec0 w_double_disable) readyHUP c r.
Proof.
  intros c r. apply no_report_0. intros c0 s. cbn.
  destruct c0 as [|c0]; cbn; [|discriminate]. intros H. injection H as <-. reflexivity.
Qed.

Lemma w_double_disable_epoll : exists st outs,
  ep_run ep_init w_double_disable = Ok (st, outs) /\ last outs [] = [(0, POLLHUP)] /\
  callbacks (last outs []) = [(0, CbClose)].
Proof. vm_compute. eexists _, _. repeat split. Qed.
Lemma w_double_disable_poll : forall ri, exists st outs,
  pp_run ri pp_init w_double_disable = Ok (st, outs) /\ last outs [] = [].
Proof. intros [|]; vm_compute; eexists _, _; repeat split. Qed.

Lemma w_fresh_disable_remove_ok : hist_ok any_hist spec0 w_fresh_disable_remove.
Proof.
  unfold w_fresh_disable_remove, any_hist. cbn [hist_ok]. repeat split.
  - guard_upd.
  - cbn. eexists. split; [reflexivity|]. split; reflexivity.
Qed.
Lemma w_fresh_disable_remove_faults : forall ri, pp_run ri pp_init w_fresh_disable_remove = Fault.
Proof. intros [|]; vm_compute; reflexivity. Qed.

Lemma w_fresh_disable_poll_ok : hist_ok any_hist spec0 w_fresh_disable_poll.
Proof.
  unfold w_fresh_disable_poll, any_hist. cbn [hist_ok]. repeat split. guard_upd.
Qed.
Lemma w_fresh_disable_poll_spec : forall c r, ~ spec_reports (spec_run spec0 w_fresh_disable_poll) readyHUP c r.
Proof.
  intros c r. apply no_report_0. intros c0 s. cbn.
  destruct c0 as [|c0]; cbn; [|discriminate]. intros H. injection H as <-. reflexivity.
Qed.
Lemma w_fresh_disable_poll_both : forall ri, exists st outs st2 outs2,
  ep_run ep_init w_fresh_disable_poll = Ok (st, outs) /\ last outs [] = [(0, POLLHUP)] /\
  pp_run ri pp_init w_fresh_disable_poll = Ok (st2, outs2) /\ last outs2 [] = [(0, POLLHUP)].
Proof. intros [|]; vm_compute; eexists _, _, _, _; repeat split. Qed.
