(* C02_Proofs, part 1: the life cycle of ONE connection (Conn_Model), for every op list.
   Part 2 (the owners: TcpServer / TcpClient over several loops, holders, destruction) is in
   C02_SysProofs.v over C02_Model.v. *)
From Coq Require Import List ZArith Lia Bool Arith NArith.
From Coq.Strings Require Import Byte.
From Muduo Require Import Conn_Model Conn_Proofs.
Import ListNotations.

(* ---- the user-visible connection / message callbacks of a trace ------------------------- *)
Definition is_cbev (ev : event) : bool :=
  match ev with EvUp | EvDown | EvMsg _ => true | _ => false end.
Definition cblog (e : list event) : list event := filter is_cbev e.

Lemma cblog_app e1 e2 : cblog (e1 ++ e2) = cblog e1 ++ cblog e2.
Proof. apply filter_app. Qed.

Lemma cblog_s_evs c k : cblog (s_evs c k) = [].
Proof.
  unfold cblog, s_evs. destruct (s_direct c); [|reflexivity].
  destruct (effective c k) as [| |[]]; reflexivity.
Qed.

Definition all_msgs (l : list event) : Prop := Forall (fun ev => is_msg ev = true) l.

(* what one step can add to the callback log, by the state it starts from *)
Definition step_shape_spec (c c' : conn) (e : list event) : Prop :=
  match st c with
  | Connecting => (cblog e = [] /\ st c' = Connecting) \/ (cblog e = [EvUp] /\ st c' = Connected)
  | Connected | Disconnecting =>
      (cblog e = [] /\ up c') \/ (exists n, cblog e = [EvMsg n] /\ up c') \/
      (cblog e = [EvDown] /\ st c' = Disconnected)
  | Disconnected => cblog e = [] /\ st c' = Disconnected
  end.

Lemma step_shape c o c' e : Inv c -> step c o = Ok (c', e) -> step_shape_spec c c' e.
Proof.
  intros HI H. unfold step_shape_spec.
  pose proof (i_idle c HI) as Hidle. pose proof (i_fresh c HI) as Hfresh.
  pose proof (i_destroy c HI) as Hdes.
  step_cases H.
  all: rewrite ?cblog_app, ?cblog_s_evs.
  all: st_norm.
  all: destruct (st c) eqn:Est; try congruence.
  all: unfold up, closable in *; projs'; rewrite ?Est in *; cbn [cblog filter is_cbev app cstate_eqb orb] in *; try discriminate.
  all: try match goal with |- context [h_fin ?cc ?k] => destruct (h_fin cc k) end;
       try match goal with |- context [if writing ?cc then _ else _] => destruct (writing cc) eqn:Ew end;
       cbn [cblog filter is_cbev app].
  all: try solve [ split; [reflexivity|congruence]
                 | left; split; [reflexivity|auto; congruence]
                 | right; split; [reflexivity|auto; congruence]
                 | right; left; eexists; split; [reflexivity|auto; congruence]
                 | right; right; split; [reflexivity|auto; congruence] ].
  all: try (destruct Hidle as [Hw Hr]; [intros [?|?]; discriminate|]; rewrite ?Hr, ?Hw in *; cbn [andb orb] in *; try discriminate).
Qed.

(* the callback log of a connection, as a regular shape indexed by the state it ends in *)
Inductive shape : cstate -> list event -> Prop :=
| sh_new : shape Connecting []
| sh_up s msgs : s = Connected \/ s = Disconnecting -> all_msgs msgs -> shape s (EvUp :: msgs)
| sh_down msgs : all_msgs msgs -> shape Disconnected (EvUp :: msgs ++ [EvDown]).

Lemma all_msgs_snoc msgs n : all_msgs msgs -> all_msgs (msgs ++ [EvMsg n]).
Proof. intros H. apply Forall_app. split; [exact H|]. constructor; [reflexivity|constructor]. Qed.

Lemma shape_step c c' e h : shape (st c) h -> step_shape_spec c c' e -> shape (st c') (h ++ cblog e).
Proof.
  unfold step_shape_spec. intros Hs Hst. inversion Hs as [Hc | s msgs Hup Hm Hc | msgs Hm Hc]; subst h.
  - rewrite <- Hc in Hst. destruct Hst as [[-> ->]|[-> ->]]; cbn.
    + constructor.
    + apply sh_up; [left; reflexivity|constructor].
  - assert (Hst' : (cblog e = [] /\ up c') \/ (exists n, cblog e = [EvMsg n] /\ up c') \/
                   (cblog e = [EvDown] /\ st c' = Disconnected)).
    { destruct Hup as [Hup|Hup]; rewrite Hup in Hst; exact Hst. }
    destruct Hst' as [[-> Hu]|[(n & -> & Hu)|[-> ->]]].
    + rewrite app_nil_r. apply sh_up; assumption.
    + change ((EvUp :: msgs) ++ [EvMsg n]) with (EvUp :: (msgs ++ [EvMsg n])).
      apply sh_up; [exact Hu|apply all_msgs_snoc, Hm].
    + apply sh_down, Hm.
  - rewrite <- Hc in Hst. destruct Hst as [-> ->]. rewrite app_nil_r. apply sh_down, Hm.
Qed.

Lemma run_shape ops : forall c c' e h, Inv c -> shape (st c) h -> run c ops = Ok (c', e) ->
  shape (st c') (h ++ cblog e).
Proof.
  induction ops as [|o ops IH]; intros c c' e h HI Hs H.
  - cbn in H. injection H as <- <-. cbn. rewrite app_nil_r. exact Hs.
  - apply run_cons in H as (c1 & e1 & e2 & H1 & H2 & ->).
    rewrite cblog_app, app_assoc. apply (IH c1); [eapply step_inv; eassumption| |exact H2].
    apply (shape_step c c1 e1 h Hs). eapply step_shape; eassumption.
Qed.

Lemma P02_lifecycle : forall mark wc hw ops c e,
  run (init mark wc hw) ops = Ok (c, e) -> shape (st c) (cblog e).
Proof.
  intros mark wc hw ops c e H.
  apply (run_shape ops (init mark wc hw) c e [] (init_inv mark wc hw)); [constructor|exact H].
Qed.

(* ---- explicit corollaries ------------------------------------------------------------------ *)
Lemma all_msgs_no f msgs : (forall n, f (EvMsg n) = false) -> all_msgs msgs -> filter f msgs = [].
Proof.
  intros Hf. induction 1 as [|ev l Hev _ IH]; [reflexivity|].
  cbn. destruct ev; try discriminate. rewrite Hf. exact IH.
Qed.

Lemma all_msgs_notin msgs ev : all_msgs msgs -> is_msg ev = false -> ~ In ev msgs.
Proof.
  intros Hm Hev Hin. unfold all_msgs in Hm. rewrite Forall_forall in Hm.
  specialize (Hm ev Hin). congruence.
Qed.

(* UP: exactly once, and first *)
Lemma shape_inv s l : shape s l ->
  (s = Connecting /\ l = []) \/
  ((s = Connected \/ s = Disconnecting) /\ exists msgs, all_msgs msgs /\ l = EvUp :: msgs) \/
  (s = Disconnected /\ exists msgs, all_msgs msgs /\ l = EvUp :: msgs ++ [EvDown]).
Proof. destruct 1; eauto 8. Qed.

Lemma P02_up_once_first : forall mark wc hw ops c e,
  run (init mark wc hw) ops = Ok (c, e) ->
  (st c = Connecting /\ cblog e = []) \/
  (st c <> Connecting /\ exists rest, cblog e = EvUp :: rest /\ ~ In EvUp rest /\ count is_up e = 1).
Proof.
  intros mark wc hw ops c e H.
  destruct (P03_down_at_most_once mark wc hw ops c e H) as (Hu & _).
  assert (Hr : reach c) by (eapply run_reach; [apply reach_init|exact H]).
  pose proof (i_updown c (reach_inv c Hr)) as Hud.
  destruct (shape_inv _ _ (P02_lifecycle mark wc hw ops c e H))
    as [[Hc Hl]|[[Hup (msgs & Hm & Hl)]|[Hc (msgs & Hm & Hl)]]].
  - left. split; assumption.
  - right. split; [destruct Hup; congruence|]. exists msgs. split; [exact Hl|]. split.
    + apply all_msgs_notin; [exact Hm|reflexivity].
    + rewrite Hu. destruct Hup as [Hup|Hup]; rewrite Hup in Hud; apply Hud.
  - right. split; [congruence|]. exists (msgs ++ [EvDown]). split; [exact Hl|]. split.
    + intros Hin. apply in_app_or in Hin as [Hin|[Hin|[]]]; [|discriminate].
      revert Hin. apply all_msgs_notin; [exact Hm|reflexivity].
    + rewrite Hu. rewrite Hc in Hud. apply Hud.
Qed.

(* DOWN: at most once, last, and delivered exactly when the connection is Disconnected *)
Lemma P02_down_once_last : forall mark wc hw ops c e,
  run (init mark wc hw) ops = Ok (c, e) ->
  count is_down e <= 1 /\
  (st c = Disconnected <-> count is_down e = 1) /\
  (st c = Disconnected <-> exists msgs, all_msgs msgs /\ cblog e = EvUp :: msgs ++ [EvDown]) /\
  (st c = Connected \/ st c = Disconnecting <-> exists msgs, all_msgs msgs /\ cblog e = EvUp :: msgs) /\
  (st c = Connecting <-> cblog e = []).
Proof.
  intros mark wc hw ops c e H.
  destruct (P03_down_at_most_once mark wc hw ops c e H) as (_ & _ & Hu1 & Hdu & Hd).
  split; [lia|]. split; [symmetry; exact Hd|].
  assert (Hno : forall m1 m2, all_msgs m1 -> m1 = m2 ++ [EvDown] -> False).
  { intros m1 m2 Hm1 Hx. assert (Hin : In EvDown m1) by (rewrite Hx; apply in_or_app; right; left; reflexivity).
    revert Hin. apply all_msgs_notin; [exact Hm1|reflexivity]. }
  destruct (shape_inv _ _ (P02_lifecycle mark wc hw ops c e H))
    as [[Hc Hl]|[[Hup (msgs & Hm & Hl)]|[Hc (msgs & Hm & Hl)]]]; rewrite Hl.
  - split; [|split]; split.
    + congruence.
    + intros (m & _ & Hx). discriminate.
    + intros [Hx|Hx]; congruence.
    + intros (m & _ & Hx). discriminate.
    + reflexivity.
    + intros _. exact Hc.
  - split; [|split]; split.
    + destruct Hup; congruence.
    + intros (m2 & Hm2 & Hx). injection Hx as Hx. exfalso. exact (Hno msgs m2 Hm Hx).
    + intros _. exists msgs. split; [exact Hm|reflexivity].
    + intros _. exact Hup.
    + destruct Hup; congruence.
    + discriminate.
  - split; [|split]; split.
    + intros _. exists msgs. split; [exact Hm|reflexivity].
    + intros _. exact Hc.
    + intros [Hx|Hx]; congruence.
    + intros (m2 & Hm2 & Hx). injection Hx as Hx. exfalso. symmetry in Hx. exact (Hno m2 msgs Hm2 Hx).
    + congruence.
    + discriminate.
Qed.

(* after DOWN: no connection / message callback ever again, and the state stays Disconnected *)
Lemma P02_no_callback_after_down ops : forall c c' e, Inv c -> st c = Disconnected ->
  run c ops = Ok (c', e) -> cblog e = [] /\ st c' = Disconnected.
Proof.
  induction ops as [|o ops IH]; intros c c' e HI Hs H.
  - cbn in H. injection H as <- <-. split; [reflexivity|exact Hs].
  - apply run_cons in H as (c1 & e1 & e2 & H1 & H2 & ->).
    pose proof (step_shape c o c1 e1 HI H1) as Hsp. unfold step_shape_spec in Hsp. rewrite Hs in Hsp.
    destruct Hsp as [He1 Hs1].
    destruct (IH c1 c' e2 (step_inv c o c1 e1 HI H1) Hs1 H2) as [He2 Hs2].
    rewrite cblog_app, He1, He2. split; [reflexivity|exact Hs2].
Qed.

(* what connected() says inside each callback, and which ops can run it *)
Lemma P02_callback_states c o c' e : Inv c -> step c o = Ok (c', e) ->
  (In EvUp e -> o = Establish /\ st c = Connecting /\ st c' = Connected /\ e = [EvUp]) /\
  (In EvDown e -> up c /\ st c' = Disconnected /\ writing c' = false /\ rd_chan c' = false /\ e = [EvDown]) /\
  (forall n, In (EvMsg n) e -> up c /\ st c' = st c /\ exists d, o = EvReadData d /\ e = [EvMsg n]).
Proof.
  intros HI H.
  pose proof (i_idle c HI) as Hidle.
  step_cases H.
  all: st_norm.
  all: (split; [|split]); [intros Hin|intros Hin|intros nn Hin].
  all: try (apply in_app_or in Hin as [Hin|Hin]).
  all: try (apply s_evs_in in Hin; discriminate).
  all: try match goal with H : In _ (if h_fin ?cc ?k then _ else _) |- _ => destruct (h_fin cc k) end;
       try match goal with H : In _ (if writing ?cc then _ else _) |- _ => destruct (writing cc) eqn:Ew end.
  all: cbn [In] in Hin; repeat (destruct Hin as [Hin|Hin]; try discriminate Hin); try contradiction.
  all: unfold up, closable in *; projs'.
  all: try (destruct (st c) eqn:Est; cbn [cstate_eqb orb] in *; try discriminate; try congruence;
            repeat split; auto; try congruence).
  all: try (destruct Hidle as [Hw Hr]; [intros [?|?]; discriminate|]; rewrite ?Hr, ?Hw in *; cbn [andb orb] in *; try discriminate).
  all: try (eexists; split; [reflexivity|congruence]).
Qed.

(* ---- every close cause, once it takes effect on a connection that is up, reports DOWN ------- *)
Lemma destroys_zero_existsb l : destroys l = 0 -> existsb is_destroy l = false.
Proof.
  unfold destroys. induction l as [|f l IH]; cbn; [reflexivity|].
  destruct (is_destroy f); cbn; [discriminate|exact IH].
Qed.

Lemma P02_close_causes c : Inv c -> up c ->
  (rd_chan c = true -> exists c', step c EvReadEOF = Ok (c', [EvDown]) /\ st c' = Disconnected) /\
  (rd_chan c = true \/ writing c = true ->
     exists c', step c EvHup = Ok (c', [EvDown]) /\ st c' = Disconnected) /\
  (forall k rest, pending c = FForceClose :: rest ->
     exists c', step c (RunOne k) = Ok (c', [EvDown]) /\ st c' = Disconnected) /\
  (exists c', step c OwnerDestroy = Ok (c', [EvDown]) /\ st c' = Disconnected /\ registered c' = false /\
     writing c' = false /\ rd_chan c' = false) /\
  step c ForceClose = Ok (set_pending (set_st c Disconnecting) (pending c ++ [FForceClose]), []) /\
  (forall n, delayed c = S n -> step c DelayFire =
     Ok (set_aux (set_pending (set_st c Disconnecting) (pending c ++ [FForceClose])) (chk c) n, [])).
Proof.
  intros HI Hup. pose proof (i_reg c HI Hup) as Hreg.
  pose proof (proj2 (closable_up c) Hup) as Hcl.
  split; [|split; [|split; [|split; [|split]]]].
  - intros Hr. destruct (peer_close_down c HI Hup Hr) as (c' & H1 & H2 & _). eauto.
  - intros Hi. unfold step. cbn [user_op andb].
    assert (E : (rd_chan c || writing c) && registered c = true).
    { rewrite Hreg, andb_true_r. destruct Hi as [-> | ->]; [reflexivity|apply orb_true_r]. }
    rewrite E. unfold handleCloseChecked. rewrite Hcl. unfold handleClose. eexists. split; reflexivity.
  - intros k rest Hp. destruct (force_close_runs c k rest HI Hp Hup) as (c' & H1 & H2 & _). eauto.
  - unfold step. cbn [user_op andb]. rewrite Hreg.
    rewrite (destroys_zero_existsb _ (inv_up_nodestroy c HI Hup)). cbn [negb andb].
    rewrite connectDestroyed_nf, Hreg, Hcl. cbn [negb]. eexists. repeat split; reflexivity.
  - apply force_close_up, Hup.
  - intros n Hd. apply delay_fire_up; assumption.
Qed.

(* ---- unregistering (Channel::remove) ------------------------------------------------------- *)
(* the channel leaves the poller only through connectDestroyed, only once the connection is
   Disconnected and with no interest left; a DOWN still owed is delivered in that very step *)
Lemma P02_unregister c o c' e : Inv c -> step c o = Ok (c', e) ->
  registered c = true -> registered c' = false ->
  st c' = Disconnected /\ writing c' = false /\ rd_chan c' = false /\ downs c' = 1 /\
  (o = OwnerDestroy \/ exists k rest, o = RunOne k /\ pending c = FDestroy :: rest) /\
  ((up c /\ e = [EvDown]) \/ (st c = Disconnected /\ e = [])).
Proof.
  intros HI H Hr Hr'.
  pose proof (i_idle c HI) as Hidle. pose proof (i_updown c HI) as Hud. pose proof (i_fresh c HI) as Hfr.
  step_cases H; projs'; try congruence.
  all: try (match goal with H : registered (if ?b then _ else _) = false |- _ => destruct b; projs'; congruence end).
  all: st_norm; unfold up, closable in *; projs'.
  all: destruct (st c) eqn:Est; cbn [cstate_eqb orb] in *; try discriminate.
  all: try (destruct Hfr as (_ & _ & Hx & _); [reflexivity|congruence]).
  all: try (destruct Hidle as [Hw Hrd]; [intros [?|?]; discriminate|]).
  all: repeat split; auto; try lia; try (destruct Hud; lia).
  all: try (left; reflexivity); try (right; eauto); try (left; split; [auto|reflexivity]).
Qed.

(* once unregistered after its close, a connection is never registered again and never gets
   interest again (this is what the fix of F-14 established) *)
Lemma step_unregistered c o c' e : Inv c -> step c o = Ok (c', e) ->
  st c = Disconnected -> registered c = false ->
  st c' = Disconnected /\ registered c' = false /\ writing c' = false /\ rd_chan c' = false /\ cblog e = [].
Proof.
  intros HI H Hs Hr.
  destruct (i_idle c HI) as [Hw Hrd]; [rewrite not_up; right; exact Hs|].
  pose proof (i_destroy c HI) as Hde.
  step_cases H; projs'; st_norm; unfold closable in *; projs'; rewrite ?Hs, ?Hr, ?Hw, ?Hrd in *;
    cbn [cstate_eqb orb andb negb] in *; try discriminate; try congruence.
  all: rewrite ?cblog_app, ?cblog_s_evs.
  all: try (repeat split; auto; reflexivity).
  all: try (rewrite Epend in Hde; unfold destroys in Hde; cbn [filter is_destroy length] in Hde;
            destruct (length (filter is_destroy rest)); [destruct Hde; congruence|contradiction]).
Qed.

Lemma P02_unregistered_for_good ops : forall c c' e, Inv c -> st c = Disconnected -> registered c = false ->
  run c ops = Ok (c', e) ->
  st c' = Disconnected /\ registered c' = false /\ writing c' = false /\ rd_chan c' = false /\ cblog e = [].
Proof.
  induction ops as [|o ops IH]; intros c c' e HI Hs Hr H.
  - cbn in H. injection H as <- <-.
    destruct (i_idle c HI) as [Hw Hrd]; [rewrite not_up; right; exact Hs|]. auto.
  - apply run_cons in H as (c1 & e1 & e2 & H1 & H2 & ->).
    destruct (step_unregistered c o c1 e1 HI H1 Hs Hr) as (Hs1 & Hr1 & _ & _ & He1).
    destruct (IH c1 c' e2 (step_inv c o c1 e1 HI H1) Hs1 Hr1 H2) as (? & ? & ? & ? & He2).
    rewrite cblog_app, He1, He2. auto.
Qed.

(* at most one unregistration in a whole history *)
Definition unreg_step (c : conn) (o : op) : bool :=
  match step c o with Ok (c', _) => registered c && negb (registered c') | _ => false end.

Fixpoint unregs (c : conn) (ops : list op) : nat :=
  match ops with
  | [] => 0
  | o :: rest => match step c o with
                 | Ok (c', _) => (if unreg_step c o then 1 else 0) + unregs c' rest
                 | _ => 0
                 end
  end.

Lemma unregs_zero ops : forall c c' e, Inv c -> st c = Disconnected -> registered c = false ->
  run c ops = Ok (c', e) -> unregs c ops = 0.
Proof.
  induction ops as [|o ops IH]; intros c c' e HI Hs Hr H; [reflexivity|].
  apply run_cons in H as (c1 & e1 & e2 & H1 & H2 & ->).
  cbn [unregs]. unfold unreg_step. rewrite H1, Hr. cbn.
  destruct (step_unregistered c o c1 e1 HI H1 Hs Hr) as (Hs1 & Hr1 & _).
  eapply IH; [eapply step_inv; eassumption|exact Hs1|exact Hr1|exact H2].
Qed.

Lemma P02_unregister_at_most_once ops : forall c c' e, Inv c -> run c ops = Ok (c', e) -> unregs c ops <= 1.
Proof.
  induction ops as [|o ops IH]; intros c c' e HI H; [cbn; lia|].
  apply run_cons in H as (c1 & e1 & e2 & H1 & H2 & ->).
  cbn [unregs]. rewrite H1. unfold unreg_step. rewrite H1.
  pose proof (step_inv c o c1 e1 HI H1) as HI1.
  destruct (registered c) eqn:Er; cbn [andb]; [|apply (IH c1 c' e2 HI1 H2)].
  destruct (registered c1) eqn:Er1; cbn [negb]; [apply (IH c1 c' e2 HI1 H2)|].
  destruct (P02_unregister c o c1 e1 HI H1 Er Er1) as (Hs1 & _).
  rewrite (unregs_zero ops c1 c' e2 HI1 Hs1 Er1 H2). lia.
Qed.

(* none of the assertions of the C++ (handleClose's state assert, Channel::remove's
   isNoneEvent, Poller::removeChannel's "known channel") is reachable *)
Lemma P02_no_assert_reachable : forall mark wc hw ops, run (init mark wc hw) ops <> Fault.
Proof. intros. apply run_no_fault, init_inv. Qed.

(* ---- the statements of Properties_C02, part 1, over [reach] ---------------------------------- *)
Lemma P02_all_msgs_def : forall l, all_msgs l <-> forall ev, In ev l -> exists n, ev = EvMsg n.
Proof.
  intros l. unfold all_msgs. rewrite Forall_forall. split; intros H ev Hin; specialize (H ev Hin).
  - destruct ev; try discriminate. eauto.
  - destruct H as [n ->]. reflexivity.
Qed.

Lemma P02_callback_states_reach : forall c o c' e, reach c -> step c o = Ok (c', e) ->
  (In EvUp e -> o = Establish /\ st c = Connecting /\ st c' = Connected /\ e = [EvUp]) /\
  (In EvDown e -> up c /\ st c' = Disconnected /\ writing c' = false /\ rd_chan c' = false /\ e = [EvDown]) /\
  (forall n, In (EvMsg n) e -> up c /\ st c' = st c /\ exists d, o = EvReadData d /\ e = [EvMsg n]).
Proof. intros c o c' e Hr. apply P02_callback_states, reach_inv, Hr. Qed.

Lemma P02_close_causes_reach : forall c, reach c -> up c ->
  (rd_chan c = true -> exists c', step c EvReadEOF = Ok (c', [EvDown]) /\ st c' = Disconnected) /\
  (rd_chan c = true \/ writing c = true ->
     exists c', step c EvHup = Ok (c', [EvDown]) /\ st c' = Disconnected) /\
  (forall k rest, pending c = FForceClose :: rest ->
     exists c', step c (RunOne k) = Ok (c', [EvDown]) /\ st c' = Disconnected) /\
  (exists c', step c OwnerDestroy = Ok (c', [EvDown]) /\ st c' = Disconnected /\ registered c' = false /\
     writing c' = false /\ rd_chan c' = false) /\
  step c ForceClose = Ok (set_pending (set_st c Disconnecting) (pending c ++ [FForceClose]), []) /\
  (forall n, delayed c = S n -> step c DelayFire =
     Ok (set_aux (set_pending (set_st c Disconnecting) (pending c ++ [FForceClose])) (chk c) n, [])).
Proof. intros c Hr. apply P02_close_causes, reach_inv, Hr. Qed.

Lemma P02_no_callback_after_down_reach : forall c, reach c -> st c = Disconnected ->
  forall ops c' e, run c ops = Ok (c', e) -> cblog e = [] /\ st c' = Disconnected.
Proof.
  intros c Hr Hs ops c' e. apply P02_no_callback_after_down; [apply reach_inv, Hr|exact Hs].
Qed.

Lemma P02_unregister_reach : forall c o c' e, reach c -> step c o = Ok (c', e) ->
  registered c = true -> registered c' = false ->
  st c' = Disconnected /\ writing c' = false /\ rd_chan c' = false /\ downs c' = 1 /\
  (o = OwnerDestroy \/ exists k rest, o = RunOne k /\ pending c = FDestroy :: rest) /\
  ((up c /\ e = [EvDown]) \/ (st c = Disconnected /\ e = [])).
Proof. intros c o c' e Hr. apply P02_unregister, reach_inv, Hr. Qed.

Lemma P02_unregistered_for_good_reach : forall c, reach c -> st c = Disconnected -> registered c = false ->
  forall ops c' e, run c ops = Ok (c', e) ->
  st c' = Disconnected /\ registered c' = false /\ writing c' = false /\ rd_chan c' = false /\ cblog e = [].
Proof.
  intros c Hr Hs Hreg ops c' e. apply P02_unregistered_for_good; [apply reach_inv, Hr|exact Hs|exact Hreg].
Qed.

Lemma P02_unregister_at_most_once_init : forall mark wc hw ops c e,
  run (init mark wc hw) ops = Ok (c, e) -> unregs (init mark wc hw) ops <= 1.
Proof. intros mark wc hw ops c e. apply P02_unregister_at_most_once, init_inv. Qed.

Lemma P02_unregs_def : forall c o rest,
  unregs c [] = 0 /\
  unregs c (o :: rest) =
  match step c o with
  | Ok (c', _) => (if registered c && negb (registered c') then 1 else 0) + unregs c' rest
  | _ => 0
  end.
Proof.
  intros c o rest. split; [reflexivity|]. cbn [unregs]. unfold unreg_step.
  destruct (step c o) as [[c' e]| |]; reflexivity.
Qed.
