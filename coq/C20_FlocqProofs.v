(* C20_FlocqProofs: Timestamp::addTime's `static_cast<int64_t>(seconds * kMicroSecondsPerSecond)`
   as IEEE-754 binary64 arithmetic (Flocq): the product of the double [seconds] and 10^6 rounded
   to nearest-even, then truncated.  For which seconds is the microsecond delta exact?  Whenever
   the significand of [seconds] times 5^6 still fits 53 bits -- every double with at most 39
   significant bits, e.g. every whole number of seconds up to 576 460 752 303 (18 267 years) and
   every multiple of 2^-k seconds in that range -- the product is representable, nothing is
   rounded and the delta is the truncation of the exact product.  The bound is sharp for whole
   seconds: 576 460 752 305 s is rounded.  These statements are about real numbers and depend on
   the axioms of Coq's Reals (printed by Print Assumptions, named in the trusted base). *)
From Coq Require Import ZArith Reals Lia Lra.
From Flocq Require Import Core.
From Muduo Require Import Gen_C20 Gen_C20Ts.
Local Open Scope Z_scope.

Definition b64 : Z -> Z := FLT_exp (-1074) 53.
Definition rnd64 (x : R) : R := round radix2 b64 ZnearestE x.
(* x is a binary64 value *)
Definition is_double (x : R) : Prop := generic_format radix2 b64 x.

(* int64_t delta = static_cast<int64_t>(seconds * Timestamp::kMicroSecondsPerSecond): the int
   constant converts exactly, the product is rounded to binary64, the cast truncates *)
Definition addTime_delta (seconds : R) : Z := Ztrunc (rnd64 (seconds * IZR Timestamp_addTime_factor)).
(* addTime(timestamp, seconds).microSecondsSinceEpoch() *)
Definition addTime_value (timestamp : Z) (seconds : R) : Z := Timestamp_addTime timestamp (addTime_delta seconds).

Lemma factor_val : IZR Timestamp_addTime_factor = (15625 * bpow radix2 6)%R.
Proof. change Timestamp_addTime_factor with 1000000. change (bpow radix2 6) with 64%R. lra. Qed.

Lemma scaled_F2R m e : (F2R (Float radix2 m e) * IZR Timestamp_addTime_factor)%R = F2R (Float radix2 (m * 15625) (e + 6)).
Proof.
  rewrite factor_val. unfold F2R. cbn [Fnum Fexp]. rewrite mult_IZR, bpow_plus. ring.
Qed.

(* exactness: significand * 5^6 below 2^53 (and no underflow) *)
Theorem addTime_product_exact m e : Z.abs m * 15625 < 2 ^ 53 -> -1080 <= e ->
  let s := F2R (Float radix2 m e) in
  rnd64 (s * IZR Timestamp_addTime_factor) = (s * IZR Timestamp_addTime_factor)%R /\
  addTime_delta s = Ztrunc (s * 1000000).
Proof.
  intros Hm He s.
  assert (Hg : generic_format radix2 b64 (s * IZR Timestamp_addTime_factor)).
  { unfold s. rewrite scaled_F2R. apply generic_format_FLT.
    apply (FLT_spec radix2 (-1074) 53 _ (Float radix2 (m * 15625) (e + 6))); cbn [Fnum Fexp]; [reflexivity| |lia].
    rewrite Z.abs_mul. change (Z.abs 15625) with 15625. exact Hm. }
  assert (Hr : rnd64 (s * IZR Timestamp_addTime_factor) = (s * IZR Timestamp_addTime_factor)%R).
  { unfold rnd64. apply round_generic; [apply valid_rnd_N|exact Hg]. }
  split; [exact Hr|]. unfold addTime_delta. rewrite Hr. reflexivity.
Qed.

(* ... stated for the C++ cast only where the cast is defined: static_cast<int64_t> of a double is
   undefined unless the truncated value is an int64_t ([conv.fpint]), so the int64 range of the
   truncated product is a hypothesis.  (It forces |seconds| < 2^63 / 10^6 < 2^44: [seconds] and the
   product are finite doubles, far below the overflow threshold of the format, which [rnd64] --
   FLT, unbounded above -- does not model.) *)
Theorem addTime_product_exact_int64 m e : Z.abs m * 15625 < 2 ^ 53 -> -1080 <= e ->
  let s := F2R (Float radix2 m e) in
  - 2 ^ 63 <= Ztrunc (s * 1000000) < 2 ^ 63 ->
  rnd64 (s * IZR Timestamp_addTime_factor) = (s * IZR Timestamp_addTime_factor)%R /\
  addTime_delta s = Ztrunc (s * 1000000) /\ - 2 ^ 63 <= addTime_delta s < 2 ^ 63.
Proof.
  intros Hm He s Hr. destruct (addTime_product_exact m e Hm He) as [A B]. fold s in A, B.
  split; [exact A|]. split; [exact B|]. rewrite B. exact Hr.
Qed.

(* whole seconds *)
Theorem addTime_whole_seconds n : Z.abs n <= 576460752303 ->
  addTime_delta (IZR n) = n * 1000000 /\ forall t, addTime_value t (IZR n) = t + n * 1000000.
Proof.
  intros Hn.
  assert (E : IZR n = F2R (Float radix2 n 0)) by (unfold F2R; cbn [Fnum Fexp]; change (bpow radix2 0) with 1%R; ring).
  destruct (addTime_product_exact n 0 ltac:(lia) ltac:(lia)) as [_ H]. cbv zeta in H. rewrite <- E in H.
  assert (D : addTime_delta (IZR n) = n * 1000000).
  { rewrite H. rewrite <- mult_IZR. apply Ztrunc_IZR. }
  split; [exact D|]. intros t. unfold addTime_value, Timestamp_addTime. rewrite D. reflexivity.
Qed.

(* seconds given to k binary places: n / 2^k *)
Theorem addTime_binary_fraction n k : Z.abs n * 15625 < 2 ^ 53 -> 0 <= k <= 1080 ->
  addTime_delta (IZR n / IZR (2 ^ k)) = Ztrunc (IZR n / IZR (2 ^ k) * 1000000).
Proof.
  intros Hn Hk.
  assert (E : (IZR n / IZR (2 ^ k))%R = F2R (Float radix2 n (- k))).
  { unfold F2R. cbn [Fnum Fexp]. rewrite bpow_opp. rewrite <- IZR_Zpower by lia. reflexivity. }
  destruct (addTime_product_exact n (- k) Hn ltac:(lia)) as [_ H]. cbv zeta in H. rewrite <- E in H. exact H.
Qed.

(* both special cases stay inside int64_t (|product| < 2^59), so the cast is defined there *)
Lemma Ztrunc_bound x N : (Rabs x <= IZR N)%R -> - N <= Ztrunc x <= N.
Proof.
  intros H. apply Rabs_le_inv in H. destruct H as [H1 H2]. split.
  - apply Z.le_trans with (Ztrunc (IZR (- N))); [rewrite Ztrunc_IZR; lia|]. apply Ztrunc_le. rewrite opp_IZR. exact H1.
  - apply Z.le_trans with (Ztrunc (IZR N)); [|rewrite Ztrunc_IZR; lia]. apply Ztrunc_le. exact H2.
Qed.

Theorem addTime_whole_seconds_int64 n : Z.abs n <= 576460752303 ->
  addTime_delta (IZR n) = n * 1000000 /\ - 2 ^ 63 <= n * 1000000 < 2 ^ 63 /\
  forall t, addTime_value t (IZR n) = t + n * 1000000.
Proof.
  intros Hn. destruct (addTime_whole_seconds n Hn) as [A B]. split; [exact A|]. split; [lia|exact B].
Qed.

Theorem addTime_binary_fraction_int64 n k : Z.abs n * 15625 < 2 ^ 53 -> 0 <= k <= 1080 ->
  addTime_delta (IZR n / IZR (2 ^ k)) = Ztrunc (IZR n / IZR (2 ^ k) * 1000000) /\
  - 2 ^ 63 <= addTime_delta (IZR n / IZR (2 ^ k)) < 2 ^ 63.
Proof.
  intros Hn Hk. pose proof (addTime_binary_fraction n k Hn Hk) as E. split; [exact E|]. rewrite E.
  assert (Hq : (1 <= IZR (2 ^ k))%R) by (apply (IZR_le 1); lia).
  assert (Hb : (Rabs (IZR n / IZR (2 ^ k) * 1000000) <= IZR (Z.abs n * 1000000))%R).
  { rewrite mult_IZR, abs_IZR. unfold Rdiv. rewrite !Rabs_mult. rewrite (Rabs_pos_eq 1000000) by lra.
    rewrite Rabs_inv. rewrite (Rabs_pos_eq (IZR (2 ^ k))) by lra.
    pose proof (Rabs_pos (IZR n)) as Hp.
    assert (Hi : (0 < / IZR (2 ^ k) <= 1)%R).
    { split; [apply Rinv_0_lt_compat; lra|]. rewrite <- Rinv_1. apply Rinv_le; lra. }
    nra. }
  pose proof (Ztrunc_bound _ _ Hb) as Hz. lia.
Qed.

(* the bound is sharp for whole seconds: this product is not a binary64 value, so it is rounded *)
Theorem addTime_rounding_witness :
  rnd64 (IZR 576460752305 * IZR Timestamp_addTime_factor) <> (IZR 576460752305 * IZR Timestamp_addTime_factor)%R.
Proof.
  intros H.
  set (x := (IZR 576460752305 * IZR Timestamp_addTime_factor)%R) in *.
  assert (Hx : x = IZR 576460752305000000) by (unfold x; change Timestamp_addTime_factor with 1000000; rewrite <- mult_IZR; reflexivity).
  assert (Hg : generic_format radix2 b64 x) by (rewrite <- H; apply generic_format_round; [apply FLT_exp_valid; reflexivity|apply valid_rnd_N]).
  assert (Hmag : mag radix2 x = 60 :> Z).
  { apply mag_unique. rewrite Hx. rewrite <- abs_IZR. change (Z.abs 576460752305000000) with 576460752305000000.
    rewrite <- !IZR_Zpower by lia. split; [apply IZR_le; vm_compute; discriminate|apply IZR_lt; vm_compute; reflexivity]. }
  unfold generic_format, cexp in Hg. rewrite Hmag in Hg.
  change (b64 60) with 7 in Hg. unfold F2R in Hg. cbn [Fnum Fexp] in Hg.
  set (k := Ztrunc (scaled_mantissa radix2 b64 x)) in *.
  rewrite Hx in Hg at 1. change (bpow radix2 7) with 128%R in Hg. rewrite <- mult_IZR in Hg.
  apply eq_IZR in Hg. lia.
Qed.
