(* Conc_Proofs: generic facts about the monitor semantics of Conc_Model.
   - [wf]: mutual exclusion, holder_ = owner, a thread inside a call has a non-empty program
   - characterisation of quiescent states
   - the SIGNAL discipline ("wait-set of c non-empty => available resources <= number of
     released-but-not-yet-served c-clients"), and the BROADCAST discipline
   - lifting of per-section invariants over the history *)
From Coq Require Import List Arith Bool Lia.
From Muduo Require Import Conc_Model.
Import ListNotations.

Definition b2n (b : bool) : nat := if b then 1 else 0.

(* ------------------------------------------------------------------ lists *)
Section Lists.
  Context {A : Type}.

  Lemma upd_length : forall n (x : A) l, length (upd n x l) = length l.
  Proof. intros n x l; revert n; induction l as [|h t IH]; intros [|n]; cbn; auto. Qed.

  Lemma nth_error_upd_eq : forall n (x a : A) l, nth_error l n = Some a -> nth_error (upd n x l) n = Some x.
  Proof. intros n x a l; revert n; induction l as [|h t IH]; intros [|n] H; cbn in *; try discriminate; auto. Qed.

  Lemma nth_error_upd_neq : forall n m (x : A) l, n <> m -> nth_error (upd n x l) m = nth_error l m.
  Proof.
    intros n m x l; revert n m; induction l as [|h t IH]; intros [|n] [|m] H; cbn; auto; try congruence.
  Qed.

  Lemma Forall_upd : forall (P : A -> Prop) n x l, Forall P l -> P x -> Forall P (upd n x l).
  Proof.
    intros P n x l; revert n; induction l as [|h t IH]; intros [|n] HF Hx; cbn; auto;
      inversion HF; subst; constructor; auto.
  Qed.

  Lemma Forall_nth_error : forall (P : A -> Prop) l n a, Forall P l -> nth_error l n = Some a -> P a.
  Proof.
    intros P l n a HF Hn. rewrite Forall_forall in HF. apply HF. eapply nth_error_In; eauto.
  Qed.

  Lemma upd_same : forall n (a : A) l, nth_error l n = Some a -> upd n a l = l.
  Proof. intros n a l; revert n; induction l as [|h t IH]; intros [|n] H; cbn in *; try congruence. f_equal; auto. Qed.
End Lists.

Section Counting.
  Context {op : Type}.
  Implicit Types (f : thread op -> bool) (ths : list (thread op)).

  Lemma count_cons : forall f th ths, count f (th :: ths) = b2n (f th) + count f ths.
  Proof. intros f th ths. unfold count. cbn. destruct (f th); cbn; auto. Qed.

  Lemma count_nil : forall f, count f (@nil (thread op)) = 0.
  Proof. reflexivity. Qed.

  Lemma count_upd : forall f n x a ths, nth_error ths n = Some a ->
    count f (upd n x ths) + b2n (f a) = count f ths + b2n (f x).
  Proof.
    intros f n x a ths; revert n; induction ths as [|h t IH]; intros [|n] H; cbn in H; try discriminate.
    - inversion H; subst. cbn [upd]. rewrite !count_cons. lia.
    - cbn [upd]. rewrite !count_cons. specialize (IH _ H). lia.
  Qed.

  Lemma count_pos_nth : forall f ths n a, nth_error ths n = Some a -> f a = true -> count f ths > 0.
  Proof.
    intros f ths; induction ths as [|h t IH]; intros [|n] a H Hf; cbn in H; try discriminate.
    - inversion H; subst. rewrite count_cons, Hf. cbn. lia.
    - rewrite count_cons. specialize (IH _ _ H Hf). lia.
  Qed.

  Lemma count_zero_Forall : forall f ths, Forall (fun th => f th = false) ths -> count f ths = 0.
  Proof.
    intros f ths H; induction H as [|h t Hh Ht IH]; auto. rewrite count_cons, Hh, IH. reflexivity.
  Qed.

  Lemma count_pos_exists : forall f ths, count f ths > 0 -> exists n a, nth_error ths n = Some a /\ f a = true.
  Proof.
    intros f ths; induction ths as [|h t IH]; intro H.
    - cbn in H. lia.
    - rewrite count_cons in H. destruct (f h) eqn:E.
      + exists 0, h. auto.
      + cbn in H. destruct (IH H) as (n & a & Hn & Ha). exists (S n), a. auto.
  Qed.
End Counting.

(* ------------------------------------------------------------------ waking *)
Section Waking.
  Context {op : Type}.
  Implicit Types (ths : list (thread op)).

  (* b is a, or a released from a wait *)
  Definition wk (a b : thread op) : Prop := b = a \/ (exists c, st a = Waiting c /\ b = signalled_of a).
  Definition wakes := Forall2 wk.

  Lemma wakes_refl : forall ths, wakes ths ths.
  Proof. induction ths; constructor; auto. left; reflexivity. Qed.

  Lemma wk_trans : forall a b c, wk a b -> wk b c -> wk a c.
  Proof.
    intros a b c [Hab|(ca & Ha & Hab)] [Hbc|(cb & Hb & Hbc)]; subst.
    - left; reflexivity.
    - right; eauto.
    - right; eauto.
    - cbn in Hb. discriminate.
  Qed.

  Lemma wakes_trans : forall l1 l2 l3, wakes l1 l2 -> wakes l2 l3 -> wakes l1 l3.
  Proof.
    intros l1 l2 l3 H; revert l3; induction H; intros l3 H3; inversion H3; subst; constructor.
    - eapply wk_trans; eauto.
    - apply IHForall2; auto.
  Qed.

  Lemma upd_wakes : forall ths n th c, nth_error ths n = Some th -> st th = Waiting c ->
    wakes ths (upd n (signalled_of th) ths).
  Proof.
    induction ths as [|h t IH]; intros [|n] th c H Hs; cbn in H; try discriminate.
    - inversion H; subst. cbn. constructor; [right; eauto | apply wakes_refl].
    - cbn. constructor; [left; reflexivity | eapply IH; eauto].
  Qed.

  Lemma is_waiting_true : forall c (th : thread op), is_waiting c th = true <-> st th = Waiting c.
  Proof.
    intros c th. unfold is_waiting. destruct (st th) as [| |c'|]; try (split; congruence).
    rewrite Nat.eqb_eq. split; congruence.
  Qed.

  Lemma wake_first_spec : forall c ths,
    (count (is_waiting c) ths = 0 /\ wake_first c ths = ths) \/
    (exists n th, nth_error ths n = Some th /\ is_waiting c th = true /\
                  wake_first c ths = upd n (signalled_of th) ths).
  Proof.
    intros c; induction ths as [|h t IH].
    - left; auto.
    - cbn [wake_first]. rewrite count_cons. destruct (is_waiting c h) eqn:E.
      + right. exists 0, h. auto.
      + destruct IH as [(H0 & He)|(n & th & Hn & Hw & He)].
        * left. rewrite H0, He. auto.
        * right. exists (S n), th. cbn. rewrite He. auto.
  Qed.

  Lemma wake_one_spec : forall c w ths,
    (count (is_waiting c) ths = 0 /\ wake_one c w ths = ths) \/
    (exists n th, nth_error ths n = Some th /\ is_waiting c th = true /\
                  wake_one c w ths = upd n (signalled_of th) ths).
  Proof.
    intros c w ths. unfold wake_one. destruct (nth_error ths w) as [th|] eqn:E.
    - destruct (is_waiting c th) eqn:Ew.
      + right. exists w, th. auto.
      + apply wake_first_spec.
    - apply wake_first_spec.
  Qed.

  Lemma wake_one_wakes : forall c w ths, wakes ths (wake_one c w ths).
  Proof.
    intros c w ths. destruct (wake_one_spec c w ths) as [(_ & ->)|(n & th & Hn & Hw & ->)].
    - apply wakes_refl.
    - apply is_waiting_true in Hw. eapply upd_wakes; eauto.
  Qed.

  Lemma wake_all_wakes : forall c ths, wakes ths (wake_all c ths).
  Proof.
    intros c; induction ths as [|h t IH]; cbn; constructor; auto.
    destruct (is_waiting c h) eqn:E; [right|left; reflexivity].
    apply is_waiting_true in E. eauto.
  Qed.

  Lemma apply_signals_wakes : forall sg picks ths, wakes ths (apply_signals sg picks ths).
  Proof.
    induction sg as [|[c|c] r IH]; intros picks ths; cbn.
    - apply wakes_refl.
    - eapply wakes_trans; [apply wake_one_wakes | apply IH].
    - eapply wakes_trans; [apply wake_all_wakes | apply IH].
  Qed.

  Lemma wakes_nth_fwd : forall l l' n a, wakes l l' -> nth_error l n = Some a ->
    exists b, nth_error l' n = Some b /\ wk a b.
  Proof.
    intros l l' n a H; revert n; induction H; intros [|n] Hn; cbn in Hn; try discriminate.
    - inversion Hn; subst. eexists; split; [reflexivity|auto].
    - apply IHForall2; auto.
  Qed.

  Lemma wakes_nth_bwd : forall l l' n b, wakes l l' -> nth_error l' n = Some b ->
    exists a, nth_error l n = Some a /\ wk a b.
  Proof.
    intros l l' n b H; revert n; induction H; intros [|n] Hn; cbn in Hn; try discriminate.
    - inversion Hn; subst. eexists; split; [reflexivity|auto].
    - apply IHForall2; auto.
  Qed.

  Lemma wakes_Forall : forall (P : thread op -> Prop) l l',
    (forall a b, wk a b -> P a -> P b) -> wakes l l' -> Forall P l -> Forall P l'.
  Proof.
    intros P l l' HP H; induction H; intro HF; inversion HF; subst; constructor; eauto.
  Qed.

  Lemma wk_incs : forall a b, wk a b -> (st b = InCS <-> st a = InCS).
  Proof.
    intros a b [->|(c & Ha & ->)]; [tauto|]. cbn. rewrite Ha. split; discriminate.
  Qed.

  Lemma wk_prog : forall a b, wk a b -> prog b = prog a.
  Proof. intros a b [->|(c & Ha & ->)]; auto. Qed.

  (* counting under wake_all *)
  Lemma count_wake_all_self : forall c ths, count (is_waiting c) (wake_all c ths) = 0.
  Proof.
    intros c; induction ths as [|h t IH]; auto. cbn [wake_all map]. rewrite count_cons.
    fold (wake_all c t). rewrite IH. destruct (is_waiting c h) eqn:E; [reflexivity|]. rewrite E. reflexivity.
  Qed.

  Lemma count_wakes_le : forall f l l',
    (forall a b, wk a b -> f b = true -> f a = true) -> wakes l l' -> count f l' <= count f l.
  Proof.
    intros f l l' Hf H; induction H; auto. rewrite !count_cons.
    destruct (f y) eqn:Ey; [rewrite (Hf _ _ H Ey)|]; cbn; lia.
  Qed.

  Lemma count_wakes_ge : forall f l l',
    (forall a b, wk a b -> f a = true -> f b = true) -> wakes l l' -> count f l <= count f l'.
  Proof.
    intros f l l' Hf H; induction H; auto. rewrite !count_cons.
    destruct (f x) eqn:Ex; [rewrite (Hf _ _ H Ex)|]; cbn; lia.
  Qed.
End Waking.

(* ------------------------------------------------------------------ well-formedness *)
Section Generic.
  Variables S op res : Type.
  Variable body : op -> S -> outcome S res.
  Notation sys := (sys S op res).

  Definition busy (th : thread op) : Prop := st th <> Idle -> prog th <> [].

  Record wf (s : sys) : Prop := {
    wf_holder : holder s = owner s;
    wf_owner : forall t, owner s = Some t -> exists th, nth_error (threads s) t = Some th /\ st th = InCS;
    wf_incs : forall t th, nth_error (threads s) t = Some th -> st th = InCS -> owner s = Some t;
    wf_busy : Forall busy (threads s)
  }.

  Lemma reach_inv : forall (Inv : sys -> Prop) s0,
    Inv s0 -> (forall s l s', reach body s0 s -> Inv s -> step body s l = Some s' -> Inv s') ->
    forall s, reach body s0 s -> Inv s.
  Proof. intros Inv s0 H0 Hs s Hr; induction Hr; eauto. Qed.

  Lemma wf_init : forall s0 progs, wf (init_sys s0 progs).
  Proof.
    intros s0 progs. constructor; cbn; auto.
    - discriminate.
    - intros t th Hn Hs. apply nth_error_In in Hn. apply in_map_iff in Hn.
      destruct Hn as (p & <- & _). discriminate.
    - apply Forall_forall. intros th Hin. apply in_map_iff in Hin. destruct Hin as (p & <- & _).
      intro H. cbn in H. congruence.
  Qed.

  (* a step that puts thread t InCS and makes it the owner *)
  Lemma wf_enter : forall s t th, wf s -> nth_error (threads s) t = Some th -> owner s = None ->
    prog th <> [] ->
    wf (mkSys (shared s) (Some t) (Some t) (upd t (mkThread (prog th) InCS) (threads s)) (hist s)).
  Proof.
    intros s t th W Hn Ho Hp. constructor; cbn; auto.
    - intros t' E. inversion E; subst. eexists; split; [eapply nth_error_upd_eq; eauto|reflexivity].
    - intros t' th' Hn' Hs'. destruct (Nat.eq_dec t t') as [->|Hne]; auto.
      rewrite nth_error_upd_neq in Hn' by auto.
      rewrite (wf_incs _ W _ _ Hn' Hs') in Ho. discriminate.
    - apply Forall_upd; [apply (wf_busy _ W)|]. intro. cbn. auto.
  Qed.

  (* a step in which the owner t leaves the critical section and some waiters are released *)
  Lemma wf_leave : forall s t th th' ths' s1 h1, wf s -> nth_error (threads s) t = Some th -> st th = InCS ->
    st th' <> InCS -> busy th' -> wakes (upd t th' (threads s)) ths' ->
    wf (mkSys s1 None None ths' h1).
  Proof.
    intros s t th th' ths' s1 h1 W Hn Hs Hs' Hb Hw. constructor; cbn; auto.
    - discriminate.
    - intros t' b Hn' Hsb. exfalso.
      destruct (wakes_nth_bwd _ _ _ _ Hw Hn') as (a & Ha & Hk).
      apply (wk_incs _ _ Hk) in Hsb.
      destruct (Nat.eq_dec t t') as [->|Hne].
      + rewrite (nth_error_upd_eq _ _ _ _ Hn) in Ha. inversion Ha; subst. auto.
      + rewrite nth_error_upd_neq in Ha by auto.
        pose proof (wf_incs _ W _ _ Ha Hsb) as E1. pose proof (wf_incs _ W _ _ Hn Hs) as E2. congruence.
    - eapply wakes_Forall; [|exact Hw|].
      + intros a b Hk Hba Hne. rewrite (wk_prog _ _ Hk). apply Hba.
        destruct Hk as [->|(c & Ha & ->)]; [auto|]. rewrite Ha. discriminate.
      + apply Forall_upd; [apply (wf_busy _ W)|auto].
  Qed.

  Lemma wf_step : forall s l s', wf s -> step body s l = Some s' -> wf s'.
  Proof.
    intros s l s' W H. destruct l as [t|t picks|t|t]; cbn in H.
    - destruct (nth_error (threads s) t) as [th|] eqn:Hn; [|discriminate].
      destruct (owner s) eqn:Ho; [discriminate|].
      destruct (st th) eqn:Hs; try discriminate. destruct (prog th) as [|o rest] eqn:Hp; [discriminate|].
      inversion H; subst; clear H. rewrite <- Hp. apply wf_enter; auto. congruence.
    - destruct (nth_error (threads s) t) as [th|] eqn:Hn; [|discriminate].
      destruct (st th) eqn:Hs; try discriminate. destruct (prog th) as [|o rest] eqn:Hp; [discriminate|].
      destruct (body o (shared s)) as [s1 r sg|c] eqn:Hb; inversion H; subst; clear H.
      + eapply wf_leave with (th' := mkThread rest Idle); eauto.
        * cbn; discriminate.
        * intro Hc. cbn in Hc. congruence.
        * apply apply_signals_wakes.
      + eapply wf_leave with (th' := mkThread (o :: rest) (Waiting c)); eauto.
        * cbn; discriminate.
        * intro. cbn. discriminate.
        * apply wakes_refl.
    - destruct (nth_error (threads s) t) as [th|] eqn:Hn; [|discriminate].
      destruct (st th) eqn:Hs; try discriminate. inversion H; subst; clear H.
      assert (Hw : wakes (threads s) (upd t (signalled_of th) (threads s))) by (eapply upd_wakes; eauto).
      constructor; cbn.
      + apply (wf_holder _ W).
      + intros t' Ho. destruct (wf_owner _ W _ Ho) as (a & Ha & Hsa).
        destruct (wakes_nth_fwd _ _ _ _ Hw Ha) as (b & Hb & Hk). exists b. split; auto.
        apply (wk_incs _ _ Hk). auto.
      + intros t' b Hb Hsb. destruct (wakes_nth_bwd _ _ _ _ Hw Hb) as (a & Ha & Hk).
        apply (wk_incs _ _ Hk) in Hsb. eapply wf_incs; eauto.
      + eapply wakes_Forall; [|exact Hw|apply (wf_busy _ W)].
        intros a b Hk Hba Hne. rewrite (wk_prog _ _ Hk). apply Hba.
        destruct Hk as [->|(c' & Ha & ->)]; [auto|]. rewrite Ha. discriminate.
    - destruct (nth_error (threads s) t) as [th|] eqn:Hn; [|discriminate].
      destruct (owner s) eqn:Ho; [discriminate|].
      destruct (st th) eqn:Hs; try discriminate. inversion H; subst; clear H.
      apply wf_enter; auto.
      apply (Forall_nth_error _ _ _ _ (wf_busy _ W) Hn). congruence.
  Qed.

  Lemma set_prog_spec : forall t p (s s' : sys), set_prog t p s = Some s' ->
    exists th, nth_error (threads s) t = Some th /\ st th = Idle /\
      s' = mkSys (shared s) (owner s) (holder s) (upd t (mkThread p Idle) (threads s)) (hist s).
  Proof.
    intros t p s s' H. unfold set_prog in H. destruct (nth_error (threads s) t) as [th|] eqn:Hn; [|discriminate].
    destruct (st th) eqn:Hs; try discriminate. inversion H; subst. eauto.
  Qed.

  Lemma count_upd_idle : forall (f : thread op -> bool) t p th ths,
    (forall a, st a = Idle -> f a = false) -> nth_error ths t = Some th -> st th = Idle ->
    count f (upd t (mkThread p Idle) ths) = count f ths.
  Proof.
    intros f t p th ths Hf Hn Hs. pose proof (count_upd f t (mkThread p Idle) th ths Hn) as H.
    rewrite (Hf th Hs), (Hf (mkThread p Idle) eq_refl) in H. cbn in H. lia.
  Qed.

  (* set_prog preserves well-formedness *)
  Lemma wf_set_prog : forall t p s s', wf s -> set_prog t p s = Some s' -> wf s'.
  Proof.
    intros t p s s' W H. destruct (set_prog_spec _ _ _ _ H) as (th & Hn & Hs & ->). constructor; cbn.
    - apply (wf_holder _ W).
    - intros t' Ho. destruct (wf_owner _ W _ Ho) as (a & Ha & Hsa). exists a. split; auto.
      rewrite nth_error_upd_neq; auto. intro; subst. congruence.
    - intros t' a Ha Hsa. destruct (Nat.eq_dec t t') as [->|Hne].
      + rewrite (nth_error_upd_eq _ _ _ _ Hn) in Ha. inversion Ha; subst. discriminate.
      + rewrite nth_error_upd_neq in Ha by auto. eapply wf_incs; eauto.
    - apply Forall_upd; [apply (wf_busy _ W)|]. intro Hc. cbn in Hc. congruence.
  Qed.

  Theorem wf_reach : forall s0 progs s, reach body (init_sys s0 progs) s -> wf s.
  Proof.
    intros s0 progs. apply reach_inv; [apply wf_init|]. intros; eapply wf_step; eauto.
  Qed.

  (* ---------------------------------------------------------------- quiescence *)
  Theorem quiescent_shape : forall s, wf s -> quiescent body s ->
    owner s = None /\
    Forall (fun th => finished th \/ exists c, st th = Waiting c) (threads s).
  Proof.
    intros s W Q.
    assert (Ho : owner s = None).
    { destruct (owner s) as [t|] eqn:Ho; auto. exfalso.
      destruct (wf_owner _ W _ Ho) as (th & Hn & Hs).
      pose proof (Forall_nth_error _ _ _ _ (wf_busy _ W) Hn) as Hb.
      destruct (prog th) as [|o rest] eqn:Hp; [apply Hb; [congruence|auto]|].
      assert (exists s', step body s (LBody t []) = Some s') as (s' & Hst).
      { cbn. rewrite Hn, Hs, Hp. destruct (body o (shared s)); eauto. }
      destruct (Q _ _ Hst) as (t' & Hl). discriminate. }
    split; auto.
    apply Forall_forall. intros th Hin. apply In_nth_error in Hin. destruct Hin as (t & Hn).
    destruct (st th) eqn:Hs.
    - destruct (prog th) as [|o rest] eqn:Hp; [left; split; auto|]. exfalso.
      assert (exists s', step body s (LAcquire t) = Some s') as (s' & Hst).
      { cbn. rewrite Hn, Ho, Hs, Hp. eauto. }
      destruct (Q _ _ Hst) as (t' & Hl). discriminate.
    - rewrite (wf_incs _ W _ _ Hn Hs) in Ho. discriminate.
    - right; eauto.
    - exfalso.
      assert (exists s', step body s (LReacquire t) = Some s') as (s' & Hst).
      { cbn. rewrite Hn, Ho, Hs. eauto. }
      destruct (Q _ _ Hst) as (t' & Hl). discriminate.
  Qed.
End Generic.

(* ------------------------------------------------------------------ history invariants *)
Section History.
  Variables S op res : Type.
  Variable body : op -> S -> outcome S res.
  Variable R : S -> list (nat * op * res) -> Prop.
  Hypothesis R_step : forall t o s s' r sg h,
    R s h -> body o s = Ret s' r sg -> R s' (h ++ [(t, o, r)]).

  Lemma hist_step : forall s l s', R (shared s) (hist s) -> step body s l = Some s' -> R (shared s') (hist s').
  Proof.
    intros s1 l s2 HR H. destruct l as [t|t picks|t|t]; cbn in H.
    - destruct (nth_error (threads s1) t) as [th|]; [|discriminate].
      destruct (owner s1); [discriminate|]. destruct (st th); try discriminate.
      destruct (prog th); [discriminate|]. inversion H; subst; exact HR.
    - destruct (nth_error (threads s1) t) as [th|]; [|discriminate].
      destruct (st th); try discriminate. destruct (prog th) as [|o rest]; [discriminate|].
      destruct (body o (shared s1)) as [s' r sg|c] eqn:Hb; inversion H; subst; cbn [shared hist].
      + eapply R_step; eauto.
      + exact HR.
    - destruct (nth_error (threads s1) t) as [th|]; [|discriminate].
      destruct (st th); try discriminate. inversion H; subst; exact HR.
    - destruct (nth_error (threads s1) t) as [th|]; [|discriminate].
      destruct (owner s1); [discriminate|]. destruct (st th); try discriminate.
      inversion H; subst; exact HR.
  Qed.

  Theorem hist_inv : forall s0 progs s, R s0 [] ->
    reach body (init_sys s0 progs) s -> R (shared s) (hist s).
  Proof.
    intros s0 progs s H0.
    apply (reach_inv _ _ _ body (fun s => R (shared s) (hist s))); [exact H0|].
    intros s1 l s2 _ HR H. eapply hist_step; eauto.
  Qed.
End History.

(* ------------------------------------------------------------------ notification disciplines *)
Section Discipline.
  Variables S op res : Type.
  Variable body : op -> S -> outcome S res.
  Notation sys := (sys S op res).

  (* blocker c o: call o is a client of condition c (it may wait on c) *)
  Variable blocker : cond -> op -> bool.
  Hypothesis body_block : forall o s c, body o s = Block c -> blocker c o = true.
  Hypothesis blocker_unique : forall o c c', blocker c o = true -> blocker c' o = true -> c = c'.

  (* released (or about to re-test) clients of c: threads that hold or are about to get the
     mutex inside a call that is a client of c *)
  Definition wants (c : cond) (th : thread op) : bool :=
    match st th with
    | InCS | Signalled => match prog th with o :: _ => blocker c o | [] => false end
    | _ => false
    end.
  Definition nclients (c : cond) (s : sys) : nat := count (wants c) (threads s).

  Definition waits_ok (th : thread op) : Prop :=
    forall c, st th = Waiting c -> exists o rest, prog th = o :: rest /\ blocker c o = true.
  Definition wok (s : sys) : Prop := Forall waits_ok (threads s).

  Lemma wk_waits_ok : forall a b, wk a b -> waits_ok a -> waits_ok b.
  Proof.
    intros a b [->|(c & Ha & ->)] H; auto. intros c' Hc'. cbn in Hc'. discriminate.
  Qed.

  Lemma wok_step : forall s l s', wok s -> step body s l = Some s' -> wok s'.
  Proof.
    unfold wok. intros s l s' J H. destruct l as [t|t picks|t|t]; cbn in H.
    - destruct (nth_error (threads s) t) as [th|] eqn:Hn; [|discriminate].
      destruct (owner s); [discriminate|]. destruct (st th); try discriminate.
      destruct (prog th); [discriminate|]. inversion H; subst; cbn.
      apply Forall_upd; auto. intros c' Hc'. discriminate.
    - destruct (nth_error (threads s) t) as [th|] eqn:Hn; [|discriminate].
      destruct (st th); try discriminate. destruct (prog th) as [|o rest]; [discriminate|].
      destruct (body o (shared s)) as [s1 r sg|c] eqn:Hb; inversion H; subst; cbn.
      + eapply wakes_Forall; [apply wk_waits_ok|apply apply_signals_wakes|].
        apply Forall_upd; auto. intros c' Hc'. discriminate.
      + apply Forall_upd; auto. intros c' Hc'. cbn in Hc'. inversion Hc'; subst.
        exists o, rest. split; auto. eapply body_block; eauto.
    - destruct (nth_error (threads s) t) as [th|] eqn:Hn; [|discriminate].
      destruct (st th); try discriminate. inversion H; subst; cbn.
      apply Forall_upd; auto. intros c' Hc'. discriminate.
    - destruct (nth_error (threads s) t) as [th|] eqn:Hn; [|discriminate].
      destruct (owner s); [discriminate|]. destruct (st th); try discriminate.
      inversion H; subst; cbn. apply Forall_upd; auto. intros c' Hc'. discriminate.
  Qed.

  Lemma wok_set_prog : forall t p s s', wok s -> set_prog t p s = Some s' -> wok s'.
  Proof.
    unfold wok. intros t p s s' J H. destruct (set_prog_spec _ _ _ _ _ _ _ H) as (th & Hn & Hs & ->). cbn.
    apply Forall_upd; auto. intros c' Hc'. discriminate.
  Qed.

  Lemma wok_init : forall s0 progs, wok (@init_sys S op res s0 progs).
  Proof.
    intros s0 progs. unfold wok. cbn. apply Forall_forall. intros th Hin.
    apply in_map_iff in Hin. destruct Hin as (p & <- & _). intros c Hc. discriminate.
  Qed.

  Theorem wok_reach : forall s0 progs s, reach body (init_sys s0 progs) s -> wok s.
  Proof.
    intros s0 progs. apply reach_inv; [apply wok_init|]. intros; eapply wok_step; eauto.
  Qed.

  Definition is_notify (c : cond) (x : signal) : bool :=
    match x with Notify c' => Nat.eqb c c' | NotifyAll _ => false end.
  Definition is_bcast (c : cond) (x : signal) : bool :=
    match x with NotifyAll c' => Nat.eqb c c' | Notify _ => false end.
  Definition nnotify (c : cond) (sg : list signal) : nat := length (filter (is_notify c) sg).
  Definition has_bcast (c : cond) (sg : list signal) : bool := existsb (is_bcast c) sg.

  Lemma wk_waiting_back : forall c (a b : thread op), wk a b -> is_waiting c b = true -> is_waiting c a = true.
  Proof. intros c a b [->|(c' & Ha & ->)] H; auto. discriminate. Qed.

  Lemma wk_wants_fwd : forall c (a b : thread op), wk a b -> wants c a = true -> wants c b = true.
  Proof.
    intros c a b [->|(c' & Ha & ->)] H; auto. unfold wants in H. rewrite Ha in H. discriminate.
  Qed.

  Lemma wakes_nwaiting_le : forall c (l l' : list (thread op)), wakes l l' ->
    count (is_waiting c) l' <= count (is_waiting c) l.
  Proof. intros. apply count_wakes_le; auto. apply wk_waiting_back. Qed.

  Lemma wakes_nclients_ge : forall c (l l' : list (thread op)), wakes l l' ->
    count (wants c) l <= count (wants c) l'.
  Proof. intros. apply count_wakes_ge; auto. apply wk_wants_fwd. Qed.

  Lemma apply_signals_clients : forall c sg picks ths, Forall waits_ok ths ->
    count (is_waiting c) (apply_signals sg picks ths) > 0 ->
    has_bcast c sg = false /\
    count (wants c) (apply_signals sg picks ths) >= count (wants c) ths + nnotify c sg.
  Proof.
    intros c; induction sg as [|[c'|c'] r IH]; intros picks ths J Hpos; cbn [apply_signals] in *.
    - cbn. split; auto. unfold nnotify; cbn. lia.
    - remember (wake_one c' (hd 0 picks) ths) as ths1 eqn:Eths1.
      assert (J1 : Forall waits_ok ths1).
      { subst ths1. eapply wakes_Forall; [apply wk_waits_ok|apply wake_one_wakes|exact J]. }
      destruct (IH _ _ J1 Hpos) as (Hb & Hn).
      split; [cbn; auto|].
      unfold nnotify in *. cbn [filter is_notify].
      pose proof (wakes_nwaiting_le c _ _ (apply_signals_wakes r (tl picks) ths1)) as Hle.
      destruct (Nat.eqb c c') eqn:E.
      + apply Nat.eqb_eq in E; subst c'. cbn [length].
        destruct (wake_one_spec c (hd 0 picks) ths) as [(H0 & He)|(n & th & Hnth & Hw & He)].
        * exfalso. rewrite <- Eths1 in He. rewrite He in Hle, Hpos. lia.
        * rewrite <- Eths1 in He.
          pose proof (count_upd (wants c) n (signalled_of th) th ths Hnth) as Hc.
          rewrite <- He in Hc.
          apply is_waiting_true in Hw.
          destruct (Forall_nth_error _ _ _ _ J Hnth c Hw) as (o & rest & Hp & Hbl).
          assert (wants c th = false) as E1 by (unfold wants; rewrite Hw; reflexivity).
          assert (wants c (signalled_of th) = true) as E2 by (unfold wants; cbn; rewrite Hp; exact Hbl).
          rewrite E1, E2 in Hc. cbn in Hc. lia.
      + pose proof (wakes_nclients_ge c _ _ (wake_one_wakes c' (hd 0 picks) ths)) as Hge.
        rewrite <- Eths1 in Hge. lia.
    - remember (wake_all c' ths) as ths1 eqn:Eths1.
      assert (J1 : Forall waits_ok ths1).
      { subst ths1. eapply wakes_Forall; [apply wk_waits_ok|apply wake_all_wakes|exact J]. }
      destruct (IH _ _ J1 Hpos) as (Hb & Hn).
      pose proof (wakes_nwaiting_le c _ _ (apply_signals_wakes r picks ths1)) as Hle.
      cbn [has_bcast existsb is_bcast]. destruct (Nat.eqb c c') eqn:E.
      + exfalso. apply Nat.eqb_eq in E; subst c'. rewrite Eths1 in Hle, Hpos.
        rewrite count_wake_all_self in Hle. lia.
      + split; [exact Hb|]. unfold nnotify in *. cbn [filter is_notify].
        pose proof (wakes_nclients_ge c _ _ (wake_all_wakes c' ths)) as Hge. rewrite <- Eths1 in Hge. lia.
  Qed.

  (* ---- SIGNAL discipline for condition c with resource measure avail ---- *)
  Section Signal.
    Variable c : cond.
    Variable avail : S -> nat.
    (* SI: an invariant of the shared state the two conditions may rely on *)
    Variable SI : S -> Prop.
    Hypothesis SI_ret : forall o s s' r sg, SI s -> body o s = Ret s' r sg -> SI s'.
    Hypothesis H_block : forall o s, SI s -> body o s = Block c -> avail s = 0.
    Hypothesis H_ret : forall o s s' r sg, SI s -> body o s = Ret s' r sg ->
      has_bcast c sg = true \/ avail s' = 0 \/ avail s' + b2n (blocker c o) <= avail s + nnotify c sg.

    Definition disc (s : sys) : Prop := nwaiting c s > 0 -> avail (shared s) <= nclients c s.

    Lemma disc_step : forall s l s', SI (shared s) -> wok s -> disc s -> step body s l = Some s' -> disc s'.
    Proof.
      unfold disc, nwaiting, nclients. intros s l s' HSI J D H. destruct l as [t|t picks|t|t]; cbn in H.
      - destruct (nth_error (threads s) t) as [th|] eqn:Hn; [|discriminate].
        destruct (owner s); [discriminate|]. destruct (st th) eqn:Hs; try discriminate.
        destruct (prog th) as [|o rest] eqn:Hp; [discriminate|]. inversion H; subst; cbn [shared threads]; clear H.
        pose proof (count_upd (is_waiting c) t (mkThread (o :: rest) InCS) th _ Hn) as HW.
        pose proof (count_upd (wants c) t (mkThread (o :: rest) InCS) th _ Hn) as HN.
        assert (is_waiting c th = false) as E1 by (unfold is_waiting; rewrite Hs; reflexivity).
        assert (wants c th = false) as E2 by (unfold wants; rewrite Hs; reflexivity).
        rewrite E1 in HW. rewrite E2 in HN. cbn in HW, HN. intro Hpos.
        assert (count (is_waiting c) (threads s) > 0) as Hpos0 by lia. specialize (D Hpos0). lia.
      - destruct (nth_error (threads s) t) as [th|] eqn:Hn; [|discriminate].
        destruct (st th) eqn:Hs; try discriminate. destruct (prog th) as [|o rest] eqn:Hp; [discriminate|].
        assert (is_waiting c th = false) as E1 by (unfold is_waiting; rewrite Hs; reflexivity).
        assert (wants c th = blocker c o) as E2 by (unfold wants; rewrite Hs, Hp; reflexivity).
        destruct (body o (shared s)) as [s1 r sg|c'] eqn:Hb; inversion H; subst; cbn [shared threads]; clear H.
        + set (ths1 := upd t (mkThread rest Idle) (threads s)).
          pose proof (count_upd (is_waiting c) t (mkThread rest Idle) th _ Hn) as HW.
          pose proof (count_upd (wants c) t (mkThread rest Idle) th _ Hn) as HN.
          rewrite E1 in HW. rewrite E2 in HN. cbn in HW, HN. fold ths1 in HW, HN.
          intro Hpos.
          assert (J1 : Forall waits_ok ths1).
          { apply Forall_upd; auto. intros c0 Hc0. discriminate. }
          destruct (apply_signals_clients c sg picks ths1 J1 Hpos) as (Hnb & Hge).
          pose proof (wakes_nwaiting_le c _ _ (apply_signals_wakes sg picks ths1)) as Hle.
          assert (count (is_waiting c) (threads s) > 0) as Hpos0 by lia. specialize (D Hpos0).
          destruct (H_ret _ _ _ _ _ HSI Hb) as [Hx|[Hx|Hx]]; [congruence|lia|lia].
        + pose proof (count_upd (is_waiting c) t (mkThread (o :: rest) (Waiting c')) th _ Hn) as HW.
          pose proof (count_upd (wants c) t (mkThread (o :: rest) (Waiting c')) th _ Hn) as HN.
          rewrite E1 in HW. rewrite E2 in HN.
          destruct (Nat.eq_dec c c') as [<-|Hne].
          * intros _. rewrite (H_block _ _ HSI Hb). lia.
          * assert (is_waiting c (mkThread (o :: rest) (Waiting c')) = false) as E3.
            { unfold is_waiting; cbn. apply Nat.eqb_neq; auto. }
            assert (blocker c o = false) as E4.
            { destruct (blocker c o) eqn:E; auto. exfalso. apply Hne.
              eapply blocker_unique; eauto. }
            assert (wants c (mkThread (o :: rest) (Waiting c')) = false) as E5 by reflexivity.
            rewrite E3 in HW. rewrite E4, E5 in HN. cbn in HW, HN. intro Hpos.
            assert (count (is_waiting c) (threads s) > 0) as Hpos0 by lia. specialize (D Hpos0). lia.
      - destruct (nth_error (threads s) t) as [th|] eqn:Hn; [|discriminate].
        destruct (st th) eqn:Hs; try discriminate. inversion H; subst; cbn [shared threads]; clear H.
        assert (Hw : wakes (threads s) (upd t (signalled_of th) (threads s))) by (eapply upd_wakes; eauto).
        pose proof (wakes_nwaiting_le c _ _ Hw). pose proof (wakes_nclients_ge c _ _ Hw).
        intro Hpos. assert (count (is_waiting c) (threads s) > 0) as Hpos0 by lia. specialize (D Hpos0). lia.
      - destruct (nth_error (threads s) t) as [th|] eqn:Hn; [|discriminate].
        destruct (owner s); [discriminate|]. destruct (st th) eqn:Hs; try discriminate.
        inversion H; subst; cbn [shared threads]; clear H.
        pose proof (count_upd (is_waiting c) t (mkThread (prog th) InCS) th _ Hn) as HW.
        pose proof (count_upd (wants c) t (mkThread (prog th) InCS) th _ Hn) as HN.
        assert (is_waiting c th = false) as E1 by (unfold is_waiting; rewrite Hs; reflexivity).
        assert (wants c (mkThread (prog th) InCS) = wants c th) as E2 by (unfold wants; cbn; rewrite Hs; reflexivity).
        rewrite E1 in HW. rewrite E2 in HN. cbn in HW. intro Hpos.
        assert (count (is_waiting c) (threads s) > 0) as Hpos0 by lia. specialize (D Hpos0). lia.
    Qed.

    Lemma disc_set_prog : forall t p s s', disc s -> set_prog t p s = Some s' -> disc s'.
    Proof.
      unfold disc, nwaiting, nclients. intros t p s s' D H.
      destruct (set_prog_spec _ _ _ _ _ _ _ H) as (th & Hn & Hs & ->). cbn [shared threads].
      rewrite !(count_upd_idle _ _ _ _ th); auto.
      - intros a Ha. unfold wants. rewrite Ha. reflexivity.
      - intros a Ha. unfold is_waiting. rewrite Ha. reflexivity.
    Qed.

    Theorem disc_reach : forall s0 progs s, SI s0 -> reach body (init_sys s0 progs) s ->
      SI (shared s) /\ wok s /\ disc s.
    Proof.
      intros s0 progs s H0 Hr.
      assert (HSI : forall s1, reach body (init_sys s0 progs) s1 -> SI (shared s1)).
      { intros s1 Hr1. apply (hist_inv _ _ _ body (fun s _ => SI s)) with (s0 := s0) (progs := progs); auto.
        intros; eapply SI_ret; eauto. }
      split; [auto|]. revert s Hr. apply reach_inv.
      - split; [apply wok_init|]. unfold disc, nwaiting. cbn [init_sys shared threads]. intro Hpos. exfalso.
        apply count_pos_exists in Hpos. destruct Hpos as (n & a & Hn & Ha).
        apply nth_error_In in Hn. apply in_map_iff in Hn. destruct Hn as (p & <- & _). discriminate.
      - intros s l s' Hr (J & D) H. split; [eapply wok_step|eapply disc_step]; eauto.
    Qed.

    (* at quiescence nobody waits on c while a resource is available *)
    Theorem no_stuck_signal : forall s0 progs s t th,
      SI s0 -> reach body (init_sys s0 progs) s -> quiescent body s ->
      nth_error (threads s) t = Some th -> st th = Waiting c -> avail (shared s) = 0.
    Proof.
      intros s0 progs s t th H0 Hr Q Hn Hs.
      destruct (disc_reach _ _ _ H0 Hr) as (_ & _ & D).
      destruct (quiescent_shape _ _ _ body s (wf_reach _ _ _ body _ _ _ Hr) Q) as (_ & HF).
      assert (nclients c s = 0) as Hz.
      { apply count_zero_Forall. eapply Forall_impl; [|exact HF]. cbn.
        intros a [(Ha & _)|(c' & Ha)]; unfold wants; rewrite Ha; reflexivity. }
      assert (nwaiting c s > 0) as Hpos.
      { eapply count_pos_nth; eauto. apply is_waiting_true; auto. }
      specialize (D Hpos). lia.
    Qed.
  End Signal.

  (* ---- BROADCAST discipline: a waiter on c exists only while P holds ---- *)
  Section Broadcast.
    Variable c : cond.
    Variable P : S -> Prop.
    Hypothesis B_block : forall o s, body o s = Block c -> P s.
    Hypothesis B_ret : forall o s s' r sg, body o s = Ret s' r sg -> P s -> P s' \/ has_bcast c sg = true.

    Definition bdisc (s : sys) : Prop := nwaiting c s > 0 -> P (shared s).

    Lemma has_bcast_wakes_all : forall sg picks (ths : list (thread op)), has_bcast c sg = true ->
      count (is_waiting c) (apply_signals sg picks ths) = 0.
    Proof.
      induction sg as [|[c'|c'] r IH]; intros picks ths H; cbn in H; try discriminate; cbn [apply_signals].
      - apply IH; auto.
      - destruct (Nat.eqb c c') eqn:E.
        + apply Nat.eqb_eq in E; subst c'.
          pose proof (wakes_nwaiting_le c _ _ (apply_signals_wakes r picks (wake_all c ths))) as Hle.
          rewrite count_wake_all_self in Hle. lia.
        + apply IH; auto.
    Qed.

    Lemma bdisc_step : forall s l s', bdisc s -> step body s l = Some s' -> bdisc s'.
    Proof.
      unfold bdisc, nwaiting. intros s l s' D H. destruct l as [t|t picks|t|t]; cbn in H.
      - destruct (nth_error (threads s) t) as [th|] eqn:Hn; [|discriminate].
        destruct (owner s); [discriminate|]. destruct (st th) eqn:Hs; try discriminate.
        destruct (prog th) as [|o rest] eqn:Hp; [discriminate|]. inversion H; subst; cbn [shared threads]; clear H.
        pose proof (count_upd (is_waiting c) t (mkThread (o :: rest) InCS) th _ Hn) as HW.
        assert (is_waiting c th = false) as E1 by (unfold is_waiting; rewrite Hs; reflexivity).
        rewrite E1 in HW. cbn in HW. intro Hpos. apply D. lia.
      - destruct (nth_error (threads s) t) as [th|] eqn:Hn; [|discriminate].
        destruct (st th) eqn:Hs; try discriminate. destruct (prog th) as [|o rest] eqn:Hp; [discriminate|].
        assert (is_waiting c th = false) as E1 by (unfold is_waiting; rewrite Hs; reflexivity).
        destruct (body o (shared s)) as [s1 r sg|c'] eqn:Hb; inversion H; subst; cbn [shared threads]; clear H.
        + set (ths1 := upd t (mkThread rest Idle) (threads s)).
          pose proof (count_upd (is_waiting c) t (mkThread rest Idle) th _ Hn) as HW.
          rewrite E1 in HW. cbn in HW. fold ths1 in HW. intro Hpos.
          pose proof (wakes_nwaiting_le c _ _ (apply_signals_wakes sg picks ths1)) as Hle.
          assert (P (shared s)) as HP by (apply D; lia).
          destruct (B_ret _ _ _ _ _ Hb HP) as [Hx|Hx]; auto.
          rewrite (has_bcast_wakes_all sg picks ths1 Hx) in Hpos. lia.
        + destruct (Nat.eq_dec c c') as [<-|Hne]; [intros _; eapply B_block; eauto|].
          pose proof (count_upd (is_waiting c) t (mkThread (o :: rest) (Waiting c')) th _ Hn) as HW.
          assert (is_waiting c (mkThread (o :: rest) (Waiting c')) = false) as E3.
          { unfold is_waiting; cbn. apply Nat.eqb_neq; auto. }
          rewrite E1, E3 in HW. cbn in HW. intro Hpos. apply D. lia.
      - destruct (nth_error (threads s) t) as [th|] eqn:Hn; [|discriminate].
        destruct (st th) eqn:Hs; try discriminate. inversion H; subst; cbn [shared threads]; clear H.
        assert (Hw : wakes (threads s) (upd t (signalled_of th) (threads s))) by (eapply upd_wakes; eauto).
        pose proof (wakes_nwaiting_le c _ _ Hw). intro Hpos. apply D. lia.
      - destruct (nth_error (threads s) t) as [th|] eqn:Hn; [|discriminate].
        destruct (owner s); [discriminate|]. destruct (st th) eqn:Hs; try discriminate.
        inversion H; subst; cbn [shared threads]; clear H.
        pose proof (count_upd (is_waiting c) t (mkThread (prog th) InCS) th _ Hn) as HW.
        assert (is_waiting c th = false) as E1 by (unfold is_waiting; rewrite Hs; reflexivity).
        rewrite E1 in HW. cbn in HW. intro Hpos. apply D. lia.
    Qed.

    Lemma bdisc_set_prog : forall t p s s', bdisc s -> set_prog t p s = Some s' -> bdisc s'.
    Proof.
      unfold bdisc, nwaiting. intros t p s s' D H.
      destruct (set_prog_spec _ _ _ _ _ _ _ H) as (th & Hn & Hs & ->). cbn [shared threads].
      rewrite (count_upd_idle _ _ _ _ th); auto.
      intros a Ha. unfold is_waiting. rewrite Ha. reflexivity.
    Qed.

    Theorem bdisc_reach : forall s0 progs s, reach body (init_sys s0 progs) s -> bdisc s.
    Proof.
      intros s0 progs. apply reach_inv.
      - unfold bdisc, nwaiting. cbn [init_sys shared threads]. intro Hpos. exfalso.
        apply count_pos_exists in Hpos. destruct Hpos as (n & a & Hn & Ha).
        apply nth_error_In in Hn. apply in_map_iff in Hn. destruct Hn as (p & <- & _). discriminate.
      - intros s l s' _ D H. eapply bdisc_step; eauto.
    Qed.

    Theorem no_stuck_broadcast : forall s0 progs s t th,
      reach body (init_sys s0 progs) s ->
      nth_error (threads s) t = Some th -> st th = Waiting c -> P (shared s).
    Proof.
      intros s0 progs s t th Hr Hn Hs. apply (bdisc_reach _ _ _ Hr).
      eapply count_pos_nth; eauto. apply is_waiting_true; auto.
    Qed.
  End Broadcast.
End Discipline.


Section Run.
  Variables S op res : Type.
  Variable body : op -> S -> outcome S res.
  Lemma reach_run : forall ls s0 s s', reach body s0 s -> run body s ls = Some s' -> reach body s0 s'.
  Proof.
    induction ls as [|l r IH]; intros s0 s s' Hr H; cbn in H.
    - inversion H; subst; auto.
    - destruct (step body s l) as [s1|] eqn:E; [|discriminate].
      eapply IH; [|exact H]. eapply reach_step; eauto.
  Qed.
End Run.

(* ------------------------------------------------------------------ ranking: quiescence is reached *)
Section Ranking.
  Variables S op res : Type.
  Variable body : op -> S -> outcome S res.
  Notation sys := (sys S op res).
  Notation plen := (fun th : thread op => length (prog th)).

  Lemma tsum_upd : forall (f : thread op -> nat) n x a ths, nth_error ths n = Some a ->
    tsum f (upd n x ths) + f a = tsum f ths + f x.
  Proof.
    intros f n x a ths; revert n; induction ths as [|h t IH]; intros [|n] H; cbn in H; try discriminate.
    - inversion H; subst. cbn. lia.
    - cbn [upd tsum fold_right]. specialize (IH _ H). unfold tsum in IH. lia.
  Qed.

  Lemma rank_bounds : forall th : thread op, 1 <= rank th <= 3.
  Proof. intros th. unfold rank. destruct (st th); lia. Qed.

  Lemma tsum_rank_le : forall ths : list (thread op), tsum rank ths <= 3 * length ths.
  Proof.
    induction ths as [|h t IH]; cbn [tsum fold_right length]; [lia|].
    pose proof (rank_bounds h). unfold tsum in IH. lia.
  Qed.

  Lemma wakes_length : forall l l' : list (thread op), wakes l l' -> length l' = length l.
  Proof. intros l l' H; induction H; cbn; auto. Qed.

  Lemma wakes_plen : forall l l' : list (thread op), wakes l l' -> tsum plen l' = tsum plen l.
  Proof.
    intros l l' H; induction H; auto. cbn [tsum fold_right]. unfold tsum in IHForall2.
    rewrite (wk_prog _ _ H). lia.
  Qed.

  Lemma lex_lt : forall K a a' b b', a' < a -> b' < K -> K * a' + b' < K * a + b.
  Proof. intros K a a' b b' Ha Hb. assert (K * a' + K <= K * a) by nia. lia. Qed.

  Theorem measure_step : forall (s : sys) l s', step body s l = Some s' -> is_spurious l = false ->
    measure s' < measure s.
  Proof.
    intros s l s' H Hl. unfold measure. destruct l as [t|t picks|t|t]; cbn in H; try discriminate Hl.
    - destruct (nth_error (threads s) t) as [th|] eqn:Hn; [|discriminate].
      destruct (owner s); [discriminate|]. destruct (st th) eqn:Hs; try discriminate.
      destruct (prog th) as [|o rest] eqn:Hp; [discriminate|]. inversion H; subst; clear H; cbn [threads].
      rewrite upd_length.
      pose proof (tsum_upd plen t (mkThread (o :: rest) InCS) th _ Hn) as HP.
      pose proof (tsum_upd rank t (mkThread (o :: rest) InCS) th _ Hn) as HR.
      cbn [prog] in HP. rewrite Hp in HP.
      assert (R1 : rank th = 3) by (unfold rank; rewrite Hs; reflexivity).
      assert (R2 : rank (mkThread (o :: rest) InCS) = 2) by reflexivity. rewrite R1, R2 in HR.
      assert (E : tsum plen (upd t (mkThread (o :: rest) InCS) (threads s)) = tsum plen (threads s)) by lia.
      rewrite E. lia.
    - destruct (nth_error (threads s) t) as [th|] eqn:Hn; [|discriminate].
      destruct (st th) eqn:Hs; try discriminate. destruct (prog th) as [|o rest] eqn:Hp; [discriminate|].
      destruct (body o (shared s)) as [s1 r sg|c] eqn:Hb; inversion H; subst; clear H; cbn [threads].
      + set (ths1 := upd t (mkThread rest Idle) (threads s)).
        pose proof (apply_signals_wakes sg picks ths1) as Hw.
        rewrite (wakes_length _ _ Hw), (wakes_plen _ _ Hw). unfold ths1. rewrite upd_length.
        pose proof (tsum_upd plen t (mkThread rest Idle) th _ Hn) as HP.
        cbn [prog] in HP. rewrite Hp in HP. cbn [length] in HP.
        pose proof (tsum_rank_le (apply_signals sg picks ths1)) as HR.
        rewrite (wakes_length _ _ Hw) in HR. unfold ths1 in HR. rewrite upd_length in HR.
        apply lex_lt; lia.
      + rewrite upd_length.
        pose proof (tsum_upd plen t (mkThread (o :: rest) (Waiting c)) th _ Hn) as HP.
        pose proof (tsum_upd rank t (mkThread (o :: rest) (Waiting c)) th _ Hn) as HR.
        cbn [prog] in HP. rewrite Hp in HP.
        assert (R1 : rank th = 2) by (unfold rank; rewrite Hs; reflexivity).
        assert (R2 : rank (mkThread (o :: rest) (Waiting c)) = 1) by reflexivity. rewrite R1, R2 in HR.
        assert (E : tsum plen (upd t (mkThread (o :: rest) (Waiting c)) (threads s)) = tsum plen (threads s)) by lia.
        rewrite E. lia.
    - destruct (nth_error (threads s) t) as [th|] eqn:Hn; [|discriminate].
      destruct (owner s); [discriminate|]. destruct (st th) eqn:Hs; try discriminate.
      inversion H; subst; clear H; cbn [threads]. rewrite upd_length.
      pose proof (tsum_upd plen t (mkThread (prog th) InCS) th _ Hn) as HP.
      pose proof (tsum_upd rank t (mkThread (prog th) InCS) th _ Hn) as HR.
      cbn [prog] in HP.
      assert (R1 : rank th = 3) by (unfold rank; rewrite Hs; reflexivity).
      assert (R2 : rank (mkThread (prog th) InCS) = 2) by reflexivity. rewrite R1, R2 in HR.
      assert (E : tsum plen (upd t (mkThread (prog th) InCS) (threads s)) = tsum plen (threads s)) by lia.
      rewrite E. lia.
  Qed.

  Theorem measure_spurious : forall (s : sys) t s', step body s (LSpurious t) = Some s' ->
    measure s' = measure s + 2.
  Proof.
    intros s t s' H. unfold measure. cbn in H.
    destruct (nth_error (threads s) t) as [th|] eqn:Hn; [|discriminate].
    destruct (st th) eqn:Hs; try discriminate. inversion H; subst; clear H; cbn [threads]. rewrite upd_length.
    pose proof (tsum_upd plen t (signalled_of th) th _ Hn) as HP.
    pose proof (tsum_upd rank t (signalled_of th) th _ Hn) as HR.
    cbn [prog signalled_of] in HP.
    assert (R1 : rank th = 1) by (unfold rank; rewrite Hs; reflexivity).
    assert (R2 : rank (signalled_of th) = 3) by reflexivity. rewrite R1, R2 in HR.
    assert (E : tsum plen (upd t (signalled_of th) (threads s)) = tsum plen (threads s)) by lia.
    rewrite E. lia.
  Qed.

  (* every schedule: the number of steps that are not injected spurious wake-ups is bounded by the
     measure of the start state plus twice the number of spurious wake-ups *)
  Theorem run_bound : forall ls (s s' : sys), run body s ls = Some s' ->
    measure s' + nonspur ls <= measure s + 2 * nspur ls.
  Proof.
    induction ls as [|l r IH]; intros s s' H; cbn in H.
    - inversion H; subst. cbn. lia.
    - destruct (step body s l) as [s1|] eqn:E; [|discriminate]. specialize (IH _ _ H).
      unfold nonspur, nspur in *. cbn [filter]. destruct (is_spurious l) eqn:El; cbn [negb length].
      + destruct l; try discriminate. pose proof (measure_spurious _ _ _ E). lia.
      + pose proof (measure_step _ _ _ E El). lia.
  Qed.

  Lemma body_any_picks : forall (s : sys) t picks s', step body s (LBody t picks) = Some s' ->
    exists s'', step body s (LBody t []) = Some s''.
  Proof.
    intros s t picks s' H. cbn in *. destruct (nth_error (threads s) t) as [th|]; [|discriminate].
    destruct (st th); try discriminate. destruct (prog th) as [|o rest]; [discriminate|].
    destruct (body o (shared s)); eauto.
  Qed.

  Lemma step_in_range : forall (s : sys) l s', step body s l = Some s' ->
    match l with LAcquire t | LBody t _ | LSpurious t | LReacquire t => t < length (threads s) end.
  Proof.
    intros s l s' H. destruct l as [t|t picks|t|t]; cbn in H;
      (destruct (nth_error (threads s) t) eqn:Hn; [apply nth_error_Some; congruence|discriminate]).
  Qed.

  Lemma some_move_sound : forall (s : sys) l, some_move body s = Some l ->
    is_spurious l = false /\ exists s', step body s l = Some s'.
  Proof.
    intros s l H. unfold some_move in H.
    destruct (filter (can_move body s) (seq 0 (length (threads s)))) as [|t r] eqn:F; [discriminate|].
    assert (Hc : can_move body s t = true).
    { assert (In t (filter (can_move body s) (seq 0 (length (threads s))))) as Hin by (rewrite F; left; reflexivity).
      apply filter_In in Hin. tauto. }
    unfold can_move in Hc.
    destruct (step body s (LAcquire t)) as [s1|] eqn:E1.
    - inversion H; subst. split; [reflexivity|eauto].
    - destruct (step body s (LBody t [])) as [s2|] eqn:E2.
      + inversion H; subst. split; [reflexivity|eauto].
      + destruct (step body s (LReacquire t)) as [s3|] eqn:E3; [|discriminate].
        inversion H; subst. split; [reflexivity|eauto].
  Qed.

  Lemma some_move_none : forall s : sys, some_move body s = None -> quiescent body s.
  Proof.
    intros s H l s' Hst. unfold some_move in H.
    destruct (filter (can_move body s) (seq 0 (length (threads s)))) as [|t0 r] eqn:F.
    2: { destruct (step body s (LAcquire t0)); [discriminate|]. destruct (step body s (LBody t0 [])); discriminate. }
    assert (Hall : forall t, t < length (threads s) -> can_move body s t = false).
    { intros t Ht. destruct (can_move body s t) eqn:Ec; auto. exfalso.
      assert (In t (filter (can_move body s) (seq 0 (length (threads s))))) as Hin.
      { apply filter_In. split; auto. apply in_seq. lia. }
      rewrite F in Hin. destruct Hin. }
    pose proof (step_in_range _ _ _ Hst) as Hr.
    destruct l as [t|t picks|t|t]; eauto; exfalso; specialize (Hall _ Hr); unfold can_move in Hall.
    - rewrite Hst in Hall. discriminate.
    - destruct (body_any_picks _ _ _ _ Hst) as (s2 & E2). rewrite E2 in Hall.
      destruct (step body s (LAcquire t)); discriminate.
    - rewrite Hst in Hall. destruct (step body s (LAcquire t)); [discriminate|].
      destruct (step body s (LBody t [])); discriminate.
  Qed.

  (* from every state a quiescent state is reached without any spurious wake-up ... *)
  Theorem reaches_quiescence : forall s : sys, exists ls s',
    run body s ls = Some s' /\ nspur ls = 0 /\ quiescent body s'.
  Proof.
    intros s. remember (measure s) as n eqn:En. revert s En.
    induction n as [n IH] using lt_wf_ind. intros s En.
    destruct (some_move body s) as [l|] eqn:E.
    - destruct (some_move_sound _ _ E) as (Hl & s1 & Hs1).
      pose proof (measure_step _ _ _ Hs1 Hl) as Hm.
      destruct (IH (measure s1) ltac:(lia) s1 eq_refl) as (ls & s' & Hrun & Hsp & Hq).
      exists (l :: ls), s'. split; [cbn; rewrite Hs1; exact Hrun|]. split; auto.
      unfold nspur in *. cbn [filter]. rewrite Hl. exact Hsp.
    - exists [], s. split; [reflexivity|]. split; [reflexivity|]. apply some_move_none; auto.
  Qed.

  (* ... and EVERY schedule without spurious wake-ups is finite: at most [measure s] steps *)
  Corollary spurious_free_runs_are_finite : forall ls (s s' : sys),
    run body s ls = Some s' -> nspur ls = 0 -> length ls <= measure s.
  Proof.
    intros ls s s' H Hsp. pose proof (run_bound _ _ _ H) as Hb. rewrite Hsp in Hb.
    assert (length ls = nonspur ls + nspur ls) as El.
    { unfold nonspur, nspur. clear. induction ls as [|l r IH]; cbn; auto. destruct (is_spurious l); cbn; lia. }
    lia.
  Qed.
End Ranking.

(* ------------------------------------------------------------------ explicit shape of each step *)
Section StepInv.
  Variables S op res : Type.
  Variable body : op -> S -> outcome S res.
  Notation sys := (sys S op res).

  Lemma step_acquire_inv : forall (s s' : sys) t, step body s (LAcquire t) = Some s' ->
    exists th o rest, nth_error (threads s) t = Some th /\ st th = Idle /\ prog th = o :: rest /\ owner s = None /\
      s' = mkSys (shared s) (Some t) (Some t) (upd t (mkThread (o :: rest) InCS) (threads s)) (hist s).
  Proof.
    intros s s' t H. cbn in H. destruct (nth_error (threads s) t) as [th|] eqn:Hn; [|discriminate].
    destruct (owner s) eqn:Ho; [discriminate|]. destruct (st th) eqn:Hs; try discriminate.
    destruct (prog th) as [|o rest] eqn:Hp; [discriminate|]. inversion H; subst.
    exists th, o, rest. rewrite Hp. auto 10.
  Qed.

  Lemma step_body_inv : forall (s s' : sys) t picks, step body s (LBody t picks) = Some s' ->
    exists th o rest, nth_error (threads s) t = Some th /\ st th = InCS /\ prog th = o :: rest /\
      ((exists s1 r sg, body o (shared s) = Ret s1 r sg /\
          s' = mkSys s1 None None (apply_signals sg picks (upd t (mkThread rest Idle) (threads s))) (hist s ++ [(t, o, r)])) \/
       (exists c, body o (shared s) = Block c /\
          s' = mkSys (shared s) None None (upd t (mkThread (o :: rest) (Waiting c)) (threads s)) (hist s))).
  Proof.
    intros s s' t picks H. cbn in H. destruct (nth_error (threads s) t) as [th|] eqn:Hn; [|discriminate].
    destruct (st th) eqn:Hs; try discriminate. destruct (prog th) as [|o rest] eqn:Hp; [discriminate|].
    exists th, o, rest. repeat split; auto.
    destruct (body o (shared s)) as [s1 r sg|c] eqn:Hb; inversion H; subst; [left|right]; eauto 10.
  Qed.

  Lemma step_spurious_inv : forall (s s' : sys) t, step body s (LSpurious t) = Some s' ->
    exists th c, nth_error (threads s) t = Some th /\ st th = Waiting c /\
      s' = mkSys (shared s) (owner s) (holder s) (upd t (signalled_of th) (threads s)) (hist s).
  Proof.
    intros s s' t H. cbn in H. destruct (nth_error (threads s) t) as [th|] eqn:Hn; [|discriminate].
    destruct (st th) eqn:Hs; try discriminate. inversion H; subst. eauto 10.
  Qed.

  Lemma step_reacquire_inv : forall (s s' : sys) t, step body s (LReacquire t) = Some s' ->
    exists th, nth_error (threads s) t = Some th /\ st th = Signalled /\ owner s = None /\
      s' = mkSys (shared s) (Some t) (Some t) (upd t (mkThread (prog th) InCS) (threads s)) (hist s).
  Proof.
    intros s s' t H. cbn in H. destruct (nth_error (threads s) t) as [th|] eqn:Hn; [|discriminate].
    destruct (owner s) eqn:Ho; [discriminate|]. destruct (st th) eqn:Hs; try discriminate.
    inversion H; subst. eauto 10.
  Qed.
End StepInv.

(* ------------------------------------------------------------------ linearisability *)
Section Linearisable.
  Variables S op res : Type.
  Variable body : op -> S -> outcome S res.

  (* the completed sections, in the order in which they held the mutex, form a sequential execution
     of the monitor's calls that ends in the current shared state: every result any call has
     returned (values, sizes, flags) is the result of that call in that sequential execution *)
  Theorem linearisable : forall s0 progs (s : sys S op res), reach body (init_sys s0 progs) s ->
    seq_exec body s0 (hist s) (shared s).
  Proof.
    intros s0 progs s Hr.
    apply (hist_inv _ _ _ body (fun st h => seq_exec body s0 h st)) with (s0 := s0) (progs := progs); auto.
    - intros t o st st' r sg h H Hb. eapply seq_snoc; eauto.
    - constructor.
  Qed.

  Lemma seq_exec_inv : forall (R : S -> list (nat * op * res) -> Prop) s0,
    R s0 [] -> (forall t o s s' r sg h, R s h -> body o s = Ret s' r sg -> R s' (h ++ [(t, o, r)])) ->
    forall h s, seq_exec body s0 h s -> R s h.
  Proof. intros R s0 H0 Hs h s H. induction H; eauto. Qed.

  Lemma seq_exec_prefix : forall s0 h1 h2 s, seq_exec body s0 (h1 ++ h2) s -> exists s1, seq_exec body s0 h1 s1.
  Proof.
    intros s0 h1 h2; induction h2 as [|x h2 IH] using rev_ind; intros s H.
    - rewrite app_nil_r in H. eauto.
    - rewrite app_assoc in H. inversion H as [E|h s1 t o r s2 sg H1 Hb E].
      + exfalso. symmetry in E. apply app_eq_nil in E. destruct E as (_ & E). discriminate.
      + apply app_inj_tail in E. destruct E as (-> & _). eauto.
  Qed.

  (* every entry of the history returned what the call returns from the state its predecessors left *)
  Theorem seq_exec_entry : forall s0 h1 t o r h2 s, seq_exec body s0 (h1 ++ (t, o, r) :: h2) s ->
    exists s1 s2 sg, seq_exec body s0 h1 s1 /\ body o s1 = Ret s2 r sg.
  Proof.
    intros s0 h1 t o r h2 s H.
    replace (h1 ++ (t, o, r) :: h2) with ((h1 ++ [(t, o, r)]) ++ h2) in H by (rewrite <- app_assoc; reflexivity).
    destruct (seq_exec_prefix _ _ _ _ H) as (s2 & H2).
    inversion H2 as [E|h s1 t' o' r' s2' sg H1 Hb E].
    - exfalso. symmetry in E. apply app_eq_nil in E. destruct E as (_ & E). discriminate.
    - apply app_inj_tail in E. destruct E as (-> & E). inversion E; subst. eauto.
  Qed.
End Linearisable.
