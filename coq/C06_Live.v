(* C06_Live: "every registered timer does run while the loop keeps running".  The environment (kernel,
   clock, other threads, the application's callbacks) chooses every step; the only thing assumed about
   it is the timerfd contract (DESIGN 3.4): once the armed instant has passed, the next thing the loop
   does is TimerQueue::handleRead.  Section variable / hypothesis, visible in the theorem statements. *)
From Coq Require Import List ZArith Bool Lia Sorted Arith Permutation.
From Muduo Require Import Gen_Consts Gen_C06 C06_Model C06_Proofs C06_Hist C06_Order.
Import ListNotations.
Local Open Scope Z_scope.

(* handleRead is total on reachable states: never Rejected (a rejected callback op is skipped) *)
Lemma cb_run_not_rejected : forall cs st, cb_run st cs <> Rejected.
Proof.
  induction cs as [|c r IH]; intros st; cbn [cb_run]; [discriminate|].
  destruct (cb_step st c) as [[st1 e1]| |].
  - specialize (IH st1). destruct (cb_run st1 r) as [[st2 e2]| |]; cbn [bind]; congruence.
  - specialize (IH st). destruct (cb_run st r) as [[st2 e2]| |]; cbn [bind]; congruence.
  - discriminate.
Qed.
Lemma run_cbs_not_rejected : forall ex st script now, run_cbs st ex script now <> Rejected.
Proof.
  induction ex as [|[d a] ex IH]; intros st script now; cbn [run_cbs]; [discriminate|].
  unfold deref. destruct (hget a (heap st)); cbn [bind]; [|discriminate].
  pose proof (cb_run_not_rejected (hd [] script) st) as N.
  destruct (cb_run st (hd [] script)) as [[st1 e1]| |]; cbn [bind]; try congruence.
  specialize (IH st1 (tl script) now). destruct (run_cbs st1 ex (tl script) now) as [[st2 e2]| |]; cbn [bind]; congruence.
Qed.
Lemma insert_not_rejected : forall st a, insert st a <> Rejected.
Proof.
  intros st a. unfold insert, assert, deref. destruct (sizes_agree st); cbn [bind]; [|discriminate].
  destruct (hget a (heap st)); cbn [bind]; [|discriminate].
  destruct (kinsert _ (timers st)); [|discriminate]. destruct (kinsert _ (active st)); discriminate.
Qed.
Lemma reset_loop_not_rejected : forall ex st now, reset_loop st ex now <> Rejected.
Proof.
  induction ex as [|[d a] ex IH]; intros st now; cbn [reset_loop]; [discriminate|].
  unfold deref. destruct (hget a (heap st)) as [o|]; cbn [bind]; [|discriminate].
  destruct (o_repeat o && negb (kmem (a, o_seq o) (canceling st))).
  - pose proof (insert_not_rejected (set_heap st (hput a (mkT (o_seq o) (now + o_iv o) (o_iv o)) (heap st))) a) as N.
    destruct (insert _ a) as [[st2 e]| |]; cbn [bind]; [apply IH | congruence | discriminate].
  - apply IH.
Qed.
Lemma unactivate_not_rejected : forall ex st act, unactivate st ex act <> Rejected.
Proof.
  induction ex as [|[d a] ex IH]; intros st act; cbn [unactivate]; [discriminate|].
  unfold deref. destruct (hget a (heap st)) as [o|]; cbn [bind]; [|discriminate].
  destruct (kerase _ act); [apply IH|discriminate].
Qed.
Lemma fire_not_rejected : forall st script, fire st script <> Rejected.
Proof.
  intros st script. unfold fire, assert. destruct (sizes_agree (consume st)); cbn [bind]; [|discriminate].
  destruct (ksplit _ _) as [ex rest]. destruct (match rest with [] => true | (d, _) :: _ => clk st <? d end); cbn [bind]; [|discriminate].
  pose proof (unactivate_not_rejected ex (consume st) (active (consume st))) as N1.
  destruct (unactivate _ ex _) as [act| |]; cbn [bind]; try congruence.
  destruct (sizes_agree _); cbn [bind]; [|discriminate].
  pose proof (run_cbs_not_rejected ex (set_canceling (set_calling (set_sets (consume st) rest act) true) []) script (clk st)) as N2.
  destruct (run_cbs _ ex script (clk st)) as [[st4 evs]| |]; cbn [bind]; try congruence.
  pose proof (reset_loop_not_rejected ex (set_calling st4 false) (clk st)) as N3.
  destruct (reset_loop _ ex (clk st)) as [st6| |]; cbn [bind]; try congruence.
  destruct (timers st6) as [|[dq aq] r]; [discriminate|].
  unfold deref. destruct (hget aq (heap st6)) as [o|]; cbn [bind]; [|discriminate].
  destruct (0 <? o_exp o); [|discriminate]. destruct (reset_timerfd st6 (o_exp o)). discriminate.
Qed.
Lemma fire_total : forall st script, Top st -> exists r, fire st script = Ok r.
Proof.
  intros st script T. pose proof (fire_good st script T) as G. pose proof (fire_not_rejected st script) as N.
  destruct (fire st script) as [r| |]; [eauto|congruence|contradiction].
Qed.

Section Liveness.
(* the environment: from the step number and the current state it chooses the next loop event or
   foreign micro-step (any op, with any callback script) *)
Variable env : nat -> state -> op.
(* the timerfd contract: a timer is pending, the timerfd is armed for x and the clock has reached x --
   then the loop's next event is TimerQueue::handleRead *)
Hypothesis timerfd_contract : forall i st x, timers st <> [] -> armed st = Some x -> x <= clk st ->
  exists script, env i st = Fire script.

(* n steps chosen by the environment, starting with step number i *)
Fixpoint exec (n i : nat) (st : state) : result (state * list event) :=
  match n with
  | O => Ok (st, [])
  | S k => '(st1, e1) <- step st (env i st) ;; '(st2, e2) <- exec k (S i) st1 ;; Ok (st2, e1 ++ e2)
  end.
Fixpoint sched (n i : nat) (st : state) : list op :=
  match n with
  | O => []
  | S k => env i st :: match step st (env i st) with Ok (st1, _) => sched k (S i) st1 | _ => [] end
  end.
Lemma exec_run : forall n i st r, exec n i st = Ok r -> run st (sched n i st) = Ok r.
Proof.
  induction n as [|k IH]; intros i st r H; cbn [exec sched run] in *; auto.
  destruct (step st (env i st)) as [[st1 e1]| |]; cbn [bind] in *; try discriminate.
  destruct (exec k (S i) st1) as [[st2 e2]| |] eqn:E; cbn [bind] in H; try discriminate.
  rewrite (IH _ _ _ E). cbn [bind]. exact H.
Qed.
Lemma sched_nocancel : forall a s n i st, (forall j st', op_cancels a s (env j st') = false) ->
  forallb (fun o => negb (op_cancels a s o)) (sched n i st) = true.
Proof.
  intros a s. induction n as [|k IH]; intros i st NC; cbn [sched forallb]; auto.
  rewrite NC. cbn [negb andb]. destruct (step st (env i st)) as [[st1 e1]| |]; auto.
Qed.
Lemma exec_app : forall n m i st st1 e1 r, exec n i st = Ok (st1, e1) -> exec m (i + n) st1 = Ok r ->
  exec (n + m) i st = Ok (fst r, e1 ++ snd r).
Proof.
  induction n as [|k IH]; intros m i st st1 e1 r H1 H2; cbn [exec Nat.add] in *.
  - inversion H1; subst. rewrite Nat.add_0_r in H2. rewrite H2. destruct r; reflexivity.
  - destruct (step st (env i st)) as [[sa ea]| |]; cbn [bind] in *; try discriminate.
    destruct (exec k (S i) sa) as [[sb eb]| |] eqn:E; cbn [bind] in H1; try discriminate. inversion H1; subst.
    replace (i + S k)%nat with (S i + k)%nat in H2 by lia.
    rewrite (IH _ _ _ _ _ _ E H2). cbn [bind fst snd]. rewrite app_assoc. reflexivity.
Qed.

(* Liveness.  A is registered under deadline dA at a reachable state and the environment never issues a
   cancel of A's id.  After ANY number n of environment steps: A has run, or A is still registered, the
   timerfd is armed for an instant x <= max(dA, arm instant + floor), and -- as soon as the clock has
   reached both x and dA -- the environment's next step is (by the contract) an expiry, it succeeds, and A
   runs in it.  So A runs in the FIRST expiry processed at or after its deadline (liveness_bound), and
   such an expiry is the next loop event once max(dA, arm instant + floor) has passed. *)
Theorem liveness : forall c ops st evs a oA, run (init c) ops = Ok (st, evs) ->
  hget a (heap st) = Some oA -> In (o_exp oA, a) (timers st) ->
  existsb (pf_cancels a (o_seq oA)) (pending st) = false ->
  (forall j st', op_cancels a (o_seq oA) (env j st') = false) ->
  forall n stn evn, exec n 0 st = Ok (stn, evn) ->
  (exists nA tA, In (ERun (o_seq oA) (o_exp oA) nA tA) evn) \/
  (hget a (heap stn) = Some oA /\ In (o_exp oA, a) (timers stn) /\
   exists x, armed stn = Some x /\ x <= Z.max (o_exp oA) (arm_at stn + TimerQueue_floor_val) /\
     (x <= clk stn -> o_exp oA <= clk stn ->
      exists script st' ev' t, env n stn = Fire script /\ exec 1 n stn = Ok (st', ev') /\
                               In (ERun (o_seq oA) (o_exp oA) (clk stn) t) ev')).
Proof.
  intros c ops st evs a oA H G Hi NP NC n stn evn HE.
  pose proof (exec_run _ _ _ _ HE) as HR.
  destruct (deadline_order_nocancel _ _ _ _ _ _ _ _ _ H G Hi NP (sched_nocancel _ _ n 0%nat st NC) HR) as [_ [Ran|[Gn Hn]]]; [left; exact Ran|].
  right. split; auto. split; auto.
  assert (HT : run (init c) (ops ++ sched n 0 st) = Ok (stn, evs ++ evn)) by (eapply run_app; eauto).
  destruct (timers stn) as [|[d0 a0] r0] eqn:ET; [contradiction|].
  destruct (armed_for_earliest _ _ _ _ HT _ _ _ ET) as [Min (x & Ax & Lx)].
  assert (Ld : d0 <= o_exp oA) by (specialize (Min _ (eq_ind_r (fun l => In _ l) Hn ET)); exact Min).
  exists x. split; auto. split; [lia|]. intros Due Dl.
  destruct (timerfd_contract n stn x) as [script Es]; auto; [rewrite ET; discriminate|].
  destruct (fire_total stn script (reach_top _ _ _ _ HT)) as [[st' ev'] HF].
  assert (Hn' : In (o_exp oA, a) (timers stn)) by (rewrite ET; exact Hn).
  destruct (none_lost _ _ _ _ _ _ _ HT HF _ _ Hn' Dl) as (o' & t & G' & HRn). rewrite Gn in G'. inversion G'; subst o'.
  exists script, st', ev', t. split; auto. split; auto.
  cbn [exec]. rewrite Es. cbn [step]. rewrite HF. cbn [bind]. rewrite app_nil_r. reflexivity.
Qed.

(* bounded: the first expiry the loop processes at or after dA runs A (if it has not run already) *)
Theorem liveness_bound : forall c ops st evs a oA, run (init c) ops = Ok (st, evs) ->
  hget a (heap st) = Some oA -> In (o_exp oA, a) (timers st) ->
  existsb (pf_cancels a (o_seq oA)) (pending st) = false ->
  (forall j st', op_cancels a (o_seq oA) (env j st') = false) ->
  forall k stk evk script st' ev', exec k 0 st = Ok (stk, evk) -> env k stk = Fire script -> o_exp oA <= clk stk ->
  step stk (Fire script) = Ok (st', ev') ->
  exists nA tA, In (ERun (o_seq oA) (o_exp oA) nA tA) (evk ++ ev').
Proof.
  intros c ops st evs a oA H G Hi NP NC k stk evk script st' ev' HE Es Dl HF.
  pose proof (exec_run _ _ _ _ HE) as HR.
  destruct (deadline_order_nocancel _ _ _ _ _ _ _ _ _ H G Hi NP (sched_nocancel _ _ k 0%nat st NC) HR) as [_ [(nA & tA & Ran)|[Gn Hn]]].
  - exists nA, tA. apply in_or_app; auto.
  - assert (HT : run (init c) (ops ++ sched k 0 st) = Ok (stk, evs ++ evk)) by (eapply run_app; eauto).
    cbn [step] in HF. destruct (none_lost _ _ _ _ _ _ _ HT HF _ _ Hn Dl) as (o' & t & G' & HRn).
    rewrite Gn in G'. inversion G'; subst o'. exists (clk stk), t. apply in_or_app; auto.
Qed.
End Liveness.
