(* C20_TzLink: the finders generated from TimeZone.cc (Gen_C20Tz) are the hand-written
   find_utc / find_local of C20_Model, for ALL tables and arguments (no well-formedness
   needed: both sides are the same decision tree over the same binary search); the
   shifted-local column Data::addTransition stores is [tloc]. *)
From Coq Require Import List ZArith Bool Arith Lia.
From Muduo Require Import Gen_C20 C20_Model Gen_C20Tz C20_TzGen.
Import ListNotations.
Local Open Scope Z_scope.

(* the libstdc++ loop never leaves the range it was given *)
Lemma ub_loop_le key f : forall fuel first len, (ub_loop fuel key f first len <= first + len)%nat.
Proof.
  induction fuel as [|fu IH]; intros first len; cbn [ub_loop]; [lia|].
  destruct len as [|len']; [lia|].
  set (len := S len'). assert (Hh : (Nat.div2 len < len)%nat) by (apply Nat.lt_div2; lia).
  cbv zeta. destruct (key <? f (first + Nat.div2 len)%nat).
  - specialize (IH first (Nat.div2 len)). lia.
  - specialize (IH (first + Nat.div2 len + 1)%nat (len - Nat.div2 len - 1)%nat). lia.
Qed.

Lemma upper_bound_le key l : (upper_bound key l <= length l)%nat.
Proof. unfold upper_bound. pose proof (ub_loop_le key (fun i => nth i l 0) (length l) 0%nat (length l)). lia. Qed.

Lemma findLocalTime_utc_link tb t : findLocalTime_utc tb t = find_utc tb t.
Proof.
  unfold findLocalTime_utc, find_utc.
  pose proof (upper_bound_le t (map tutc (trans tb))) as Hle. rewrite map_length in Hle.
  destruct (trans tb) as [|a r] eqn:E; [reflexivity|].
  rewrite <- E in *. assert (Hn : length (trans tb) <> 0%nat) by (rewrite E; discriminate).
  assert (H0 : nth 0 (trans tb) tr0 = a) by (rewrite E; reflexivity).
  rewrite H0. destruct (Nat.eqb_spec (length (trans tb)) 0) as [|_]; [contradiction|]. cbn [orb].
  destruct (t <? tutc a); [reflexivity|]. cbv zeta.
  destruct (Nat.eqb_spec (upper_bound t (map tutc (trans tb))) (length (trans tb))) as [Heq|Hne]; cbn [negb].
  - rewrite Heq. rewrite Nat.ltb_irrefl. reflexivity.
  - destruct (Nat.ltb_spec (upper_bound t (map tutc (trans tb))) (length (trans tb))); [reflexivity|lia].
Qed.

Lemma findLocalTime_local_link tb lt post : findLocalTime_local tb lt post = find_local tb (fromUtc lt) post.
Proof.
  unfold findLocalTime_local, find_local. cbv zeta.
  destruct (trans tb) as [|a r] eqn:E; [reflexivity|].
  rewrite <- E in *. assert (Hn : length (trans tb) <> 0%nat) by (rewrite E; discriminate).
  assert (H0 : nth 0 (trans tb) tr0 = a) by (rewrite E; reflexivity).
  rewrite H0. destruct (Nat.eqb_spec (length (trans tb)) 0) as [|_]; [contradiction|]. cbn [orb].
  destruct (fromUtc lt <? tloc tb a); [reflexivity|].
  change (Z.to_nat 1) with 1%nat.
  set (j := upper_bound (fromUtc lt) (map (tloc tb) (trans tb))).
  destruct (j =? length (trans tb))%nat; [reflexivity|].
  destruct (tutc (nth j (trans tb) tr0) - 1 + off_of tb (tidx (nth (j - 1) (trans tb) tr0)) <? fromUtc lt);
    [destruct post; reflexivity|].
  destruct (j - 1 =? 0)%nat; cbn [negb].
  - destruct (fromUtc lt <=? _); destruct post; reflexivity.
  - destruct (fromUtc lt <=? _); destruct post; reflexivity.
Qed.

(* Data::addTransition(utcTime, idx) stores utcTime + localtimes.at(idx).utcOffset as `localtime` *)
Lemma addTransition_localtime_link tb tr : addTransition_localtime tb (tutc tr) (tidx tr) = tloc tb tr.
Proof. reflexivity. Qed.

(* hence toLocalTime / fromLocalTime over the generated finders are the model's *)
Lemma toLocalTime_g_link tb t : toLocalTime_g tb t = toLocalTime tb t.
Proof. unfold toLocalTime_g, toLocalTime. rewrite findLocalTime_utc_link. reflexivity. Qed.

Lemma fromLocalTime_g_link tb dt post : fromLocalTime_g tb dt post = fromLocalTime tb dt post.
Proof. unfold fromLocalTime_g, fromLocalTime, fromLocalSeconds. rewrite findLocalTime_local_link. reflexivity. Qed.
