(* C20_Ip6Proofs: inet_pton(AF_INET6) (inet_ntop(AF_INET6) a) = a for all 2^128 addresses, and
   the printed text is at most 39 <= INET6_ADDRSTRLEN - 1 characters (C20_Ip6Model). *)
From Coq Require Import List ZArith Bool Arith Lia.
From Coq.Strings Require Import Byte.
From Muduo Require Import Base_Bytes C20_Model C20_NetModel C20_Ip6Model C20_SweepDefs C20_TextProofs C20_NetProofs.
Import ListNotations.
Local Open Scope Z_scope.

(* ---- hex groups: all 65536 words, by a two-level sweep ---- *)
Definition chk_hex (w : Z) : bool :=
  match parse_hex16 (hex16 w) with Some v => v =? w | None => false end &&
  forallb (fun c => negb (is_colon c) && negb (Byte.eqb c ch_dot)) (hex16 w) &&
  (1 <=? length (hex16 w))%nat && (length (hex16 w) <=? 4)%nat.

Definition chk_hex_block (q : Z) : bool := forallb (fun r => chk_hex (256 * q + r)) (zs 0 256).

Lemma sweep_hex : forallb chk_hex_block (zs 0 256) = true.
Proof. vm_cast_no_check (eq_refl true). Qed.

Lemma hex_facts w : 0 <= w < 65536 ->
  parse_hex16 (hex16 w) = Some w /\
  Forall (fun c => is_colon c = false) (hex16 w) /\ has_dot (hex16 w) = false /\
  hex16 w <> [] /\ (length (hex16 w) <= 4)%nat.
Proof.
  intros Hw.
  assert (Hq : 0 <= w / 256 < 0 + Z.of_nat 256) by (Z.div_mod_to_equations; lia).
  assert (Hr : 0 <= w mod 256 < 0 + Z.of_nat 256) by (Z.div_mod_to_equations; lia).
  pose proof (forallb_zs _ _ _ sweep_hex (w / 256) Hq) as Hb. unfold chk_hex_block in Hb.
  pose proof (forallb_zs _ _ _ Hb (w mod 256) Hr) as Hc. cbv beta in Hc.
  replace (256 * (w / 256) + w mod 256) with w in Hc by (Z.div_mod_to_equations; lia).
  unfold chk_hex in Hc. rewrite !andb_true_iff in Hc. destruct Hc as [[[H1 H2] H3] H4].
  apply Nat.leb_le in H3, H4.
  split; [|split; [|split; [|split]]].
  - destruct (parse_hex16 (hex16 w)) as [v|]; [|discriminate]. apply Z.eqb_eq in H1. congruence.
  - rewrite forallb_forall in H2. apply Forall_forall. intros c Hc. specialize (H2 c Hc).
    rewrite andb_true_iff, !negb_true_iff in H2. tauto.
  - unfold has_dot. rewrite forallb_forall in H2.
    destruct (existsb (fun b => Byte.eqb b ch_dot) (hex16 w)) eqn:E; [|reflexivity].
    apply existsb_exists in E. destruct E as (c & Hc & Hd). specialize (H2 c Hc).
    rewrite andb_true_iff, !negb_true_iff in H2. destruct H2 as [_ H2]. congruence.
  - intros E. rewrite E in H3. cbn in H3. lia.
  - exact H4.
Qed.

(* ---- bytes <-> words ---- *)
Lemma bytes_words_pair h lo :
  byte_of_Z ((Z_of_byte h * 256 + Z_of_byte lo) / 256) = h /\ byte_of_Z ((Z_of_byte h * 256 + Z_of_byte lo) mod 256) = lo.
Proof.
  pose proof (Z_of_byte_range h). pose proof (Z_of_byte_range lo).
  replace ((Z_of_byte h * 256 + Z_of_byte lo) / 256) with (Z_of_byte h) by (Z.div_mod_to_equations; lia).
  replace ((Z_of_byte h * 256 + Z_of_byte lo) mod 256) with (Z_of_byte lo) by (Z.div_mod_to_equations; lia).
  rewrite !byte_of_Z_of_byte. auto.
Qed.

Lemma bytes_of_words_words n : forall a, length a = (2 * n)%nat -> bytes_of_words (words a) = a.
Proof.
  induction n as [|n IH]; intros a Hl.
  - destruct a; [reflexivity|discriminate].
  - destruct a as [|h [|lo r]]; try (cbn in Hl; lia).
    cbn [words bytes_of_words flat_map app]. destruct (bytes_words_pair h lo) as [-> ->].
    f_equal. f_equal. apply IH. cbn [length] in Hl. lia.
Qed.

Lemma words_spec n : forall a, length a = (2 * n)%nat ->
  length (words a) = n /\ Forall (fun w => 0 <= w < 65536) (words a).
Proof.
  induction n as [|n IH]; intros a Hl.
  - destruct a; [split; [reflexivity|constructor]|discriminate].
  - destruct a as [|h [|lo r]]; try (cbn in Hl; lia).
    cbn [words length]. destruct (IH r ltac:(cbn [length] in Hl; lia)) as [L F].
    split; [lia|]. constructor; [|exact F].
    pose proof (Z_of_byte_range h). pose proof (Z_of_byte_range lo). lia.
Qed.

Lemma words_skipn n : forall a, words (skipn (2 * n) a) = skipn n (words a).
Proof.
  induction n as [|n IH]; intros a; [reflexivity|].
  replace (2 * S n)%nat with (S (S (2 * n))) by lia.
  destruct a as [|h [|lo r]]; [reflexivity|reflexivity|]. cbn [skipn words]. apply IH.
Qed.

(* ---- the zero run ---- *)
Lemma zlen_spec : forall ws, (zlen ws <= length ws)%nat /\ forall k, (k < zlen ws)%nat -> nth k ws 0 = 0.
Proof.
  induction ws as [|w r [IH1 IH2]]; [split; [cbn; lia|intros k H; cbn in H; lia]|].
  cbn [zlen]. destruct (Z.eqb_spec w 0) as [->|Hne].
  - split; [cbn [length]; lia|]. intros k Hk. destruct k as [|k]; [reflexivity|]. cbn [nth]. apply IH2. lia.
  - split; [lia|]. intros k Hk. lia.
Qed.

Lemma best_from_spec : forall ws i b l, best_from ws i = Some (b, l) ->
  (2 <= l)%nat /\ (i <= b)%nat /\ (b - i + l <= length ws)%nat /\
  forall k, (b - i <= k < b - i + l)%nat -> nth k ws 0 = 0.
Proof.
  induction ws as [|w r IH]; intros i b l H; [discriminate|].
  cbn [best_from] in H.
  destruct (zlen_spec (w :: r)) as [Z1 Z2].
  set (here := zlen (w :: r)) in *.
  assert (Hhere : (2 <=? here)%nat = true -> forall b' l', Some (i, here) = Some (b', l') ->
            (2 <= l')%nat /\ (i <= b')%nat /\ (b' - i + l' <= length (w :: r))%nat /\
            forall k, (b' - i <= k < b' - i + l')%nat -> nth k (w :: r) 0 = 0).
  { intros H2 b' l' E. injection E as <- <-. apply Nat.leb_le in H2.
    replace (i - i)%nat with 0%nat by lia. repeat split; try lia. intros k Hk. apply Z2. lia. }
  assert (Hrest : forall b' l', best_from r (S i) = Some (b', l') ->
            (2 <= l')%nat /\ (i <= b')%nat /\ (b' - i + l' <= length (w :: r))%nat /\
            forall k, (b' - i <= k < b' - i + l')%nat -> nth k (w :: r) 0 = 0).
  { intros b' l' E. destruct (IH _ _ _ E) as (A & B & C & D). cbn [length].
    repeat split; try lia. intros k Hk. destruct k as [|k]; [lia|]. cbn [nth]. apply D. lia. }
  destruct (best_from r (S i)) as [[b0 l0]|] eqn:Er.
  - destruct (here <? l0)%nat; [injection H as <- <-; apply Hrest; reflexivity|].
    destruct (2 <=? here)%nat eqn:E2; [apply Hhere; [reflexivity|exact H]|injection H as <- <-; apply Hrest; reflexivity].
  - destruct (2 <=? here)%nat eqn:E2; [apply Hhere; [reflexivity|exact H]|discriminate].
Qed.

Lemma run_decompose (ws : list Z) b l : (b + l <= length ws)%nat ->
  (forall k, (b <= k < b + l)%nat -> nth k ws 0 = 0) ->
  ws = firstn b ws ++ repeat 0 l ++ skipn (b + l) ws.
Proof.
  revert ws l. induction b as [|b IH]; intros ws l Hl Hz.
  - cbn [firstn app Nat.add]. revert ws Hl Hz. induction l as [|l IHl]; intros ws Hl Hz; [reflexivity|].
    destruct ws as [|w r]; [cbn in Hl; lia|]. cbn [repeat app skipn].
    assert (Hw : w = 0) by (exact (Hz 0%nat ltac:(lia))). rewrite Hw at 1. f_equal.
    apply IHl; [cbn [length] in Hl; lia|]. intros k Hk. apply (Hz (S k)). lia.
  - destruct ws as [|w r]; [cbn in Hl; lia|]. cbn [firstn app Nat.add skipn]. f_equal.
    apply IH; [cbn [length] in Hl; lia|]. intros k Hk. apply (Hz (S k)). lia.
Qed.

(* ---- splitting at "::" ---- *)
Definition nocolon (g : list byte) : Prop := Forall (fun c => is_colon c = false) g.
Definition good (g : list byte) : Prop := g <> [] /\ nocolon g.

Definition prepend (g : list byte) (o : option (list byte * list byte)) : option (list byte * list byte) :=
  match o with Some (x, y) => Some (g ++ x, y) | None => None end.

Lemma sd_cons2 a b r : split_dcolon (a :: b :: r) =
  if is_colon a && is_colon b then Some ([], r)
  else match split_dcolon (b :: r) with Some (x, y) => Some (a :: x, y) | None => None end.
Proof. reflexivity. Qed.

Lemma sd_skip g t : nocolon g -> split_dcolon (g ++ t) = prepend g (split_dcolon t).
Proof.
  intros H. induction H as [|a g' Ha _ IH].
  - cbn [app prepend]. destruct (split_dcolon t) as [[x y]|]; reflexivity.
  - cbn [app]. destruct (g' ++ t) as [|b r] eqn:E.
    + destruct g'; [|discriminate]. cbn [app] in E. subst t. reflexivity.
    + rewrite sd_cons2, Ha. cbn [andb]. rewrite IH.
      destruct (split_dcolon t) as [[x y]|]; reflexivity.
Qed.

Lemma is_colon_colon : is_colon ch_colon = true.
Proof. reflexivity. Qed.

Lemma sd_found r : split_dcolon (ch_colon :: ch_colon :: r) = Some ([], r).
Proof. reflexivity. Qed.

Lemma sd_colon_then g t : good g -> split_dcolon (ch_colon :: g ++ t) = prepend [ch_colon] (split_dcolon (g ++ t)).
Proof.
  intros [Hne Hnc]. destruct g as [|c g']; [contradiction|]. inversion Hnc as [|? ? Hc _]; subst.
  cbn [app]. rewrite sd_cons2, Hc, andb_false_r.
  destruct (split_dcolon (c :: g' ++ t)) as [[x y]|]; reflexivity.
Qed.

Lemma sd_join_none gs : Forall good gs -> split_dcolon (join ch_colon gs) = None.
Proof.
  induction 1 as [|g r Hg Hr IH]; [reflexivity|].
  destruct r as [|g2 r2].
  - cbn [join]. rewrite <- (app_nil_r g). rewrite sd_skip by apply Hg. reflexivity.
  - change (join ch_colon (g :: g2 :: r2)) with (g ++ ch_colon :: join ch_colon (g2 :: r2)).
    rewrite sd_skip by apply Hg.
    inversion Hr as [|? ? Hg2 _]; subst.
    assert (E : join ch_colon (g2 :: r2) = g2 ++ match r2 with [] => [] | _ => ch_colon :: join ch_colon r2 end).
    { destruct r2; [cbn [join]; rewrite app_nil_r; reflexivity|reflexivity]. }
    rewrite E, (sd_colon_then g2 _ Hg2), <- E, IH. reflexivity.
Qed.

Lemma sd_join_found gs rest : Forall good gs ->
  split_dcolon (join ch_colon gs ++ dcolon ++ rest) = Some (join ch_colon gs, rest).
Proof.
  induction 1 as [|g r Hg Hr IH]; [reflexivity|].
  destruct r as [|g2 r2].
  - cbn [join]. rewrite sd_skip by apply Hg. unfold dcolon. cbn [app]. rewrite sd_found. cbn [prepend]. rewrite app_nil_r. reflexivity.
  - change (join ch_colon (g :: g2 :: r2)) with (g ++ ch_colon :: join ch_colon (g2 :: r2)).
    rewrite <- app_assoc. rewrite sd_skip by apply Hg. cbn [app].
    inversion Hr as [|? ? Hg2 _]; subst.
    assert (E : join ch_colon (g2 :: r2) = g2 ++ match r2 with [] => [] | _ => ch_colon :: join ch_colon r2 end).
    { destruct r2; [cbn [join]; rewrite app_nil_r; reflexivity|reflexivity]. }
    rewrite E at 1. rewrite <- app_assoc. rewrite (sd_colon_then g2 _ Hg2). rewrite app_assoc, <- E.
    rewrite IH. cbn [prepend app]. reflexivity.
Qed.

Lemma nocolon_eqb g : nocolon g -> Forall (fun b => Byte.eqb b ch_colon = false) g.
Proof. intros H. exact H. Qed.

Lemma split_join gs : Forall good gs -> gs <> [] -> split_all ch_colon (join ch_colon gs) = gs.
Proof.
  unfold split_all. induction 1 as [|g r Hg Hr IH]; intros Hne; [contradiction|].
  destruct r as [|g2 r2].
  - cbn [join]. apply split_last_field. apply Hg.
  - change (join ch_colon (g :: g2 :: r2)) with (g ++ ch_colon :: join ch_colon (g2 :: r2)).
    rewrite split_field by apply Hg. f_equal. apply IH. discriminate.
Qed.

Lemma join_nonempty gs : Forall good gs -> gs <> [] -> join ch_colon gs <> [].
Proof.
  intros H Hne. destruct gs as [|g r]; [contradiction|]. inversion H as [|? ? [Hg _] _]; subst.
  destruct g; [contradiction|]. destruct r; discriminate.
Qed.

(* ---- fields back to words ---- *)
Definition inrange (ws : list Z) : Prop := Forall (fun w => 0 <= w < 65536) ws.

Lemma good_hex ws : inrange ws -> Forall good (map hex16 ws).
Proof.
  induction 1 as [|w r Hw _ IH]; [constructor|]. cbn [map]. constructor; [|exact IH].
  destruct (hex_facts w Hw) as (_ & H2 & _ & H4 & _). split; assumption.
Qed.

Lemma side_words_hex v4 ws : inrange ws -> side_words v4 (map hex16 ws) = Some ws.
Proof.
  induction 1 as [|w r Hw Hr IH]; [reflexivity|].
  destruct (hex_facts w Hw) as (H1 & _ & H3 & _).
  cbn [map side_words]. destruct r as [|w2 r2].
  - cbn [map]. rewrite H3, andb_false_r, H1. reflexivity.
  - cbn [map] in *. rewrite H1, IH. reflexivity.
Qed.

Lemma side_words_cons v4 f rest : rest <> [] ->
  side_words v4 (f :: rest) =
  match parse_hex16 f, side_words v4 rest with Some w, Some ws => Some (w :: ws) | _, _ => None end.
Proof. destruct rest; [contradiction|reflexivity]. Qed.

Lemma side_words_app ws tailf tailw : inrange ws -> side_words true [tailf] = Some tailw ->
  side_words true (map hex16 ws ++ [tailf]) = Some (ws ++ tailw).
Proof.
  intros Hr Ht. induction Hr as [|w r Hw _ IH]; [exact Ht|].
  destruct (hex_facts w Hw) as (H1 & _).
  cbn [map app]. rewrite side_words_cons by (destruct (map hex16 r); discriminate).
  rewrite H1, IH. reflexivity.
Qed.

Lemma has_dot_ntop4 a b c d : has_dot (ntop4 [a; b; c; d]) = true.
Proof.
  unfold has_dot, ntop4. cbn [map join]. rewrite existsb_app. cbn [existsb].
  replace (Byte.eqb ch_dot ch_dot) with true by reflexivity. cbn [orb]. apply orb_true_r.
Qed.

Lemma ntop4_nocolon a b c d : nocolon (ntop4 [a; b; c; d]).
Proof.
  pose proof (ntop4_no_colon a b c d) as H. unfold has_colon in H. unfold nocolon. apply Forall_forall.
  intros x Hx. unfold is_colon. destruct (Byte.eqb x ch_colon) eqn:E; [|reflexivity].
  assert (existsb (fun b0 => Byte.eqb b0 ch_colon) (ntop4 [a; b; c; d]) = true) by (apply existsb_exists; exists x; auto).
  congruence.
Qed.

Lemma ntop4_nonempty a b c d : ntop4 [a; b; c; d] <> [].
Proof.
  unfold ntop4. cbn [map join]. destruct (octet_facts a) as (_ & _ & c0 & r0 & E & _). rewrite E. discriminate.
Qed.

Lemma side_v4 a b c d : side_words true [ntop4 [a; b; c; d]] = Some (words [a; b; c; d]).
Proof. cbn [side_words]. rewrite has_dot_ntop4, ipv4_roundtrip. reflexivity. Qed.

Lemma parse_side_join v4 ws : inrange ws -> parse_side v4 (join ch_colon (map hex16 ws)) = Some ws.
Proof.
  intros Hr. destruct ws as [|w r]; [reflexivity|].
  pose proof (good_hex _ Hr) as Hg.
  unfold parse_side. destruct (join ch_colon (map hex16 (w :: r))) eqn:E.
  - exfalso. apply (join_nonempty _ Hg); [discriminate|exact E].
  - rewrite <- E. rewrite split_join by (auto; discriminate). apply side_words_hex. exact Hr.
Qed.

(* ---- the round trip ---- *)
Lemma firstn_skipn_len {A} (l : list A) b n : length l = n -> (b <= n)%nat ->
  length (firstn b l) = b /\ length (skipn b l) = (n - b)%nat.
Proof. intros H Hb. rewrite firstn_length, skipn_length. lia. Qed.

Lemma inrange_firstn ws b : inrange ws -> inrange (firstn b ws).
Proof. unfold inrange. intros H. apply Forall_forall. intros x Hx. rewrite Forall_forall in H. apply H. rewrite <- (firstn_skipn b ws). apply in_or_app. left. exact Hx. Qed.
Lemma inrange_skipn ws b : inrange ws -> inrange (skipn b ws).
Proof. unfold inrange. intros H. apply Forall_forall. intros x Hx. rewrite Forall_forall in H. apply H. rewrite <- (firstn_skipn b ws). apply in_or_app. right. exact Hx. Qed.

Theorem ipv6_roundtrip a : length a = 16%nat -> pton6 (ntop6 a) = Some a.
Proof.
  intros Hl. destruct (words_spec 8 a Hl) as [Hw8 Hr]. fold (inrange (words a)) in Hr.
  pose proof (bytes_of_words_words 8 a Hl) as Hback.
  unfold ntop6. cbv zeta. set (ws := words a) in *.
  destruct (best_run ws) as [[b l]|] eqn:Eb.
  - unfold best_run in Eb. destruct (best_from_spec ws 0 b l Eb) as (Hl2 & _ & Hbl & Hz).
    replace (b - 0)%nat with b in * by lia. rewrite Hw8 in Hbl.
    pose proof (run_decompose ws b l ltac:(lia) Hz) as Hdec.
    destruct ((b =? 0)%nat && ((l =? 6)%nat || (l =? 5)%nat && (nth 5 ws 0 =? 65535))) eqn:Ev4.
    + (* dotted-quad tail *)
      apply andb_true_iff in Ev4. destruct Ev4 as [Eb0 Ev]. apply Nat.eqb_eq in Eb0. subst b.
      do 12 (destruct a as [|? a]; [discriminate|]). destruct a as [|q0 [|q1 [|q2 [|q3 [|? ?]]]]]; try discriminate.
      cbn [skipn]. unfold pton6, dcolon. cbn [app]. rewrite sd_found. cbn [parse_side].
      destruct (Nat.eqb_spec l 5) as [E5|N5].
      * subst l. cbn [orb andb] in Ev. apply Z.eqb_eq in Ev.
        assert (Hside : parse_side true (hex16 65535 ++ [ch_colon] ++ ntop4 [q0; q1; q2; q3]) = Some (65535 :: words [q0; q1; q2; q3])).
        { unfold parse_side. destruct (hex16 65535 ++ [ch_colon] ++ ntop4 [q0; q1; q2; q3]) eqn:E; [destruct (hex16 65535); discriminate|].
          rewrite <- E. unfold split_all. cbn [app].
          rewrite split_field by (destruct (hex_facts 65535 ltac:(lia)) as (_ & H & _); exact H).
          rewrite split_last_field by apply ntop4_nocolon.
          apply (side_words_app [65535] _ _ ltac:(constructor; [lia|constructor]) (side_v4 q0 q1 q2 q3)). }
        rewrite <- app_assoc. rewrite Hside. cbn [length Nat.add Nat.leb Nat.sub repeat app].
        rewrite <- Hback. f_equal. f_equal. rewrite Hdec. cbn [firstn app repeat Nat.add].
        change (0 + 5)%nat with 5%nat.
        assert (E5 : skipn 5 ws = 65535 :: skipn 6 ws).
        { unfold ws in *. cbn [words] in *. cbn [skipn nth] in *. rewrite Ev. reflexivity. }
        rewrite E5. unfold ws. cbn [words skipn]. reflexivity.
      * assert (l = 6)%nat by (destruct (Nat.eqb_spec l 6); [assumption|cbn [orb andb] in Ev; discriminate]). subst l.
        assert (Hside : parse_side true ([] ++ ntop4 [q0; q1; q2; q3]) = Some (words [q0; q1; q2; q3])).
        { cbn [app]. unfold parse_side. destruct (ntop4 [q0; q1; q2; q3]) eqn:E; [exfalso; exact (ntop4_nonempty _ _ _ _ E)|].
          rewrite <- E. unfold split_all. rewrite split_last_field by apply ntop4_nocolon. apply side_v4. }
        rewrite Hside. cbn [length Nat.add Nat.leb Nat.sub repeat app].
        rewrite <- Hback. f_equal. f_equal. rewrite Hdec. cbn [firstn app repeat Nat.add].
        unfold ws. cbn [words skipn]. reflexivity.
    + (* hex groups on both sides of "::" *)
      assert (Hb8 : (b <= 8)%nat) by lia.
      pose proof (inrange_firstn ws b Hr) as HrL. pose proof (inrange_skipn ws (b + l) Hr) as HrR.
      unfold pton6. rewrite sd_join_found by (apply good_hex; exact HrL).
      rewrite (parse_side_join false _ HrL), (parse_side_join true _ HrR).
      destruct (firstn_skipn_len ws b 8 Hw8 Hb8) as [LL _].
      destruct (firstn_skipn_len ws (b + l) 8 Hw8 ltac:(lia)) as [_ LR].
      rewrite LL, LR. destruct (Nat.leb_spec (b + (8 - (b + l))) 7) as [_|Hbad]; [|lia].
      replace (8 - b - (8 - (b + l)))%nat with l by lia. rewrite <- Hdec. rewrite Hback. reflexivity.
  - (* no run of two zero groups *)
    pose proof (good_hex ws Hr) as Hg.
    unfold pton6. rewrite sd_join_none by exact Hg. rewrite (parse_side_join true ws Hr).
    rewrite Hw8. cbn [Nat.eqb]. rewrite Hback. reflexivity.
Qed.

(* ---- length: at most 39 characters ---- *)
Lemma join_length_le gs k : Forall (fun g => (length g <= k)%nat) gs ->
  (length (join ch_colon gs) + 1 <= (k + 1) * length gs + (match gs with [] => 1 | _ => 0 end))%nat.
Proof.
  induction 1 as [|g r Hg _ IH]; [cbn; lia|].
  destruct r as [|g2 r2]; [cbn [join length]; lia|].
  change (join ch_colon (g :: g2 :: r2)) with (g ++ ch_colon :: join ch_colon (g2 :: r2)).
  rewrite app_length. cbn [length] in *. lia.
Qed.

Lemma hex_len_le ws : inrange ws -> Forall (fun g => (length g <= 4)%nat) (map hex16 ws).
Proof.
  induction 1 as [|w r Hw _ IH]; [constructor|]. cbn [map]. constructor; [|exact IH].
  destruct (hex_facts w Hw) as (_ & _ & _ & _ & H). exact H.
Qed.

Theorem ntop6_length a : length a = 16%nat -> (length (ntop6 a) <= 39)%nat.
Proof.
  intros Hl. destruct (words_spec 8 a Hl) as [Hw8 Hr]. fold (inrange (words a)) in Hr.
  unfold ntop6. cbv zeta. set (ws := words a) in *.
  destruct (best_run ws) as [[b l]|] eqn:Eb.
  - unfold best_run in Eb. destruct (best_from_spec ws 0 b l Eb) as (Hl2 & _ & Hbl & _).
    replace (b - 0)%nat with b in * by lia. rewrite Hw8 in Hbl.
    destruct ((b =? 0)%nat && ((l =? 6)%nat || (l =? 5)%nat && (nth 5 ws 0 =? 65535))).
    + do 12 (destruct a as [|? a]; [discriminate|]). destruct a as [|q0 [|q1 [|q2 [|q3 [|? ?]]]]]; try discriminate.
      cbn [skipn]. rewrite !app_length. pose proof (ntop4_len q0 q1 q2 q3).
      destruct (hex_facts 65535 ltac:(lia)) as (_ & _ & _ & _ & H5). change (length dcolon) with 2%nat.
      destruct (l =? 5)%nat; cbn [length]; [rewrite app_length; cbn [length]|]; lia.
    + pose proof (join_length_le _ 4 (hex_len_le _ (inrange_firstn ws b Hr))) as H1.
      pose proof (join_length_le _ 4 (hex_len_le _ (inrange_skipn ws (b + l) Hr))) as H2.
      rewrite !map_length, firstn_length in H1. rewrite !map_length, skipn_length in H2.
      rewrite !app_length. cbn [length dcolon].
      destruct (map hex16 (firstn b ws)); destruct (map hex16 (skipn (b + l) ws)); cbn [length] in *; lia.
  - pose proof (join_length_le _ 4 (hex_len_le _ Hr)) as H1. rewrite map_length, Hw8 in H1.
    destruct (map hex16 ws) as [|g0 gr]; [cbn [join length]; lia|lia].
Qed.
