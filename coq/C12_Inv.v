(* C12_Inv: the reachability invariant of the connector/client model under the contract of the theorems
   (C12_Model.contract: Idle at connect(), timely timers, destruction on the loop thread with destroy_ok,
   plus the loop-order contract of Down) and its consequences: no step of an admissible history is a Fault
   (no failed assert, no call through a dangling pointer to Connector / TcpClient / TcpConnection), every cycle
   starts with the initial delay, nothing is left behind at quiescence after destruction. *)
From Coq Require Import List ZArith Lia Bool Arith.
From Muduo Require Import Gen_Consts Gen_C12 C12_Model C12_Hyg C12_Trace.
Import ListNotations.
Local Open Scope Z_scope.

(* total-correctness triple: the computation does not Fault and its result satisfies Q *)
Definition wpT (m : M) (Q : st -> Prop) : Prop := match m with None => False | Some (s, _) => Q s end.
Lemma wpT_bind m f Q : wpT m (fun s => wpT (f s) Q) -> wpT (bind m f) Q.
Proof. unfold wpT, bind. destruct m as [[s e]|]; auto. destruct (f s) as [[s' e']|]; auto. Qed.
Lemma wpT_bind_some s e f Q : wpT (f s) Q -> wpT (bind (Some (s, e)) f) Q.
Proof. intros H. apply wpT_bind. exact H. Qed.
Lemma wpT_ret s (Q : st -> Prop) : Q s -> wpT (ret s) Q.
Proof. auto. Qed.
Lemma wpT_mono m (Q R : st -> Prop) : (forall s, Q s -> R s) -> wpT m Q -> wpT m R.
Proof. unfold wpT. destruct m as [[s e]|]; auto. Qed.

Lemma bind_some_inv' s0 e0 f s' ev : bind (Some (s0, e0)) f = Some (s', ev) -> exists rest, f s0 = Some (s', rest) /\ ev = e0 ++ rest.
Proof. unfold bind. destruct (f s0) as [[s2 e2]|]; [|discriminate]. intros [= <- <-]. eauto. Qed.

(* ------------------------------------------------------------------ counting functors / timers *)
Definition nretry (s : st) : nat := length (filter is_retry_timer (timers s)).
Definition nstart (q : list functor) : nat := length (filter is_FStart q).
Definition has_k (q : list functor) : bool := existsb is_kfunctor q.
Arguments nretry : simpl never.
Arguments nstart : simpl never.
Arguments has_k : simpl never.

Lemma nstart_snoc q f : nstart (q ++ [f]) = (nstart q + (if is_FStart f then 1 else 0))%nat.
Proof. unfold nstart. rewrite filter_app, app_length. cbn. destruct (is_FStart f); reflexivity. Qed.
Lemma nstart_cons q f : nstart (f :: q) = ((if is_FStart f then 1 else 0) + nstart q)%nat.
Proof. unfold nstart. cbn. destruct (is_FStart f); reflexivity. Qed.
Lemma has_k_snoc q f : has_k (q ++ [f]) = has_k q || is_kfunctor f.
Proof. unfold has_k. rewrite existsb_app. cbn. rewrite orb_false_r. reflexivity. Qed.
Lemma has_k_cons q f : has_k (f :: q) = is_kfunctor f || has_k q.
Proof. reflexivity. Qed.
Lemma has_k_false_in q f : has_k q = false -> In f q -> is_kfunctor f = false.
Proof.
  unfold has_k. intros H Hi. destruct (is_kfunctor f) eqn:E; auto.
  assert (existsb is_kfunctor q = true) by (apply existsb_exists; eauto). congruence.
Qed.
Lemma has_k_count_rc q : has_k q = false -> count_rc q = 0%nat.
Proof.
  unfold has_k, count_rc. induction q as [|f r IH]; cbn; auto.
  intros H. apply orb_false_elim in H. destruct H as [H1 H2]. unfold is_kfunctor in H1.
  apply orb_false_elim in H1. destruct H1 as [_ H1]. rewrite H1. auto.
Qed.
Lemma has_k_nstart q : has_k q = false -> nstart q = 0%nat.
Proof.
  unfold has_k, nstart. induction q as [|f r IH]; cbn; auto.
  intros H. apply orb_false_elim in H. destruct H as [H1 H2]. unfold is_kfunctor in H1.
  apply orb_false_elim in H1. destruct H1 as [H1 _]. apply orb_false_elim in H1. destruct H1 as [H1 _]. rewrite H1. auto.
Qed.
Lemma has_k_no_stop q : has_k q = false -> ~ In FStop q.
Proof. intros H Hi. pose proof (has_k_false_in _ _ H Hi). discriminate. Qed.
Lemma nretry_snoc_retry s t d : nretry (set_timers s (timers s ++ [(d, t)])) = (nretry s + (match t with TRetry => 1 | THack => 0 end))%nat.
Proof. unfold nretry. cbn. rewrite filter_app, app_length. cbn. destruct t; reflexivity. Qed.
Lemma count_rc_in q : In FResetChannel q -> count_rc q <> 0%nat.
Proof.
  unfold count_rc. induction q as [|f r IH]; cbn; [tauto|]. intros [->|H]; cbn; [lia|].
  destruct (is_FReset f); cbn; auto.
Qed.
Lemma existsb_count_rc q : existsb is_FReset q = false -> count_rc q = 0%nat.
Proof.
  unfold count_rc. induction q as [|f r IH]; cbn; auto. intros H. apply orb_false_elim in H. destruct H as [-> H]. auto.
Qed.

(* ------------------------------------------------------------------ K: the connector part of the invariant *)
Record Kinv (s : st) : Prop := {
  k_chan_ok : match k_chan s with
              | None => count_rc (pending s) = 0%nat /\ k_state s <> KConnecting
              | Some (_, true) => count_rc (pending s) = 0%nat /\ k_state s = KConnecting
              | Some (_, false) => count_rc (pending s) = 1%nat /\ k_state s <> KConnecting
              end;
  k_conn : connection s <> None -> k_state s = KConnected;
  k_rt : nretry s <> 0%nat -> k_state s = KDisconnected;
  k_rt1 : (nretry s <= 1)%nat;
  k_deadkc : alive s = false -> k_dead s = false -> timers s <> [] -> k_connect s = false;
  k_hack : alive s = true -> nretry s = length (timers s);
  k_kdead : k_dead s = true -> alive s = false /\ timers s = [] /\ k_chan s = None /\ has_k (pending s) = false;
  k_xc : xc s = true \/ nstart (pending s) <> 0%nat -> quiet s = true /\ k_delay s = Connector_kInitRetryDelayMs;
  k_xc1 : ((if xc s then 1 else 0) + nstart (pending s) <= 1)%nat;
  (* the Connector is not released while one of its raw-this functors is queued (settle will not assert) *)
  k_set0 : alive s = false -> k_dead s = false -> timers s = [] -> has_k (pending s) = false
}.
(* a Connector whose client is gone and which is still connecting has its stopInLoop queued *)
Definition Kdc (s : st) : Prop := alive s = false -> k_dead s = false -> k_state s = KConnecting -> In FStop (pending s).
Lemma Kdc_alive s : alive s = true -> Kdc s.
Proof. unfold Kdc. congruence. Qed.
Lemma Kdc_state s : k_state s <> KConnecting -> Kdc s.
Proof. unfold Kdc. congruence. Qed.
(* after `finish`: a Connector without owner and without timer is gone *)
Definition Ksettled (s : st) : Prop := alive s = false -> timers s = [] -> k_dead s = true.

Lemma quiet_spec s : quiet s = true <->
  k_state s = KDisconnected /\ k_chan s = None /\ nretry s = 0%nat /\ connection s = None.
Proof.
  unfold quiet, nretry. split.
  - intros H. repeat (apply andb_prop in H; destruct H as [H ?]).
    repeat split.
    + destruct (k_state s); cbn in H; congruence.
    + destruct (k_chan s); cbn in *; congruence.
    + destruct (existsb is_retry_timer (timers s)) eqn:E; cbn in *; try congruence.
      clear - E. induction (timers s) as [|t r IH]; cbn in *; auto. apply orb_false_elim in E. destruct E as [-> E]. auto.
    + destruct (connection s); cbn in *; congruence.
  - intros (A & B & C & D). rewrite A, B, D. cbn.
    assert (existsb is_retry_timer (timers s) = false) as ->; [|reflexivity].
    clear - C. induction (timers s) as [|t r IH]; cbn in *; auto. destruct (is_retry_timer t); cbn in *; [discriminate|auto].
Qed.

(* what the connector functions leave alone (the client/connection part), q = functors they appended *)
Definition sameC (s s' : st) (q : list functor) : Prop :=
  alive s' = alive s /\ connection s' = connection s /\ conns s' = conns s /\ dsnap s' = dsnap s /\
  pending s' = pending s ++ q /\ k_dead s' = k_dead s /\
  xc s' = xc s /\ xs s' = xs s /\ xd s' = xd s /\ c_retry s' = c_retry s /\ c_connect s' = c_connect s.

Ltac kdestr H := destruct H as [Kch Kcn Krt Krt1 Kdk Khk Kkd Kxc Kxc1 Ks0].

Lemma nretry_eq s s' : timers s' = timers s -> nretry s' = nretry s.
Proof. unfold nretry. intros ->. reflexivity. Qed.
Lemma nretry_arm s s' d : timers s' = timers s ++ [(d, TRetry)] -> nretry s' = S (nretry s).
Proof. unfold nretry. intros ->. rewrite filter_app, app_length. cbn. lia. Qed.

Lemma nretry_hack s s' d : timers s' = timers s ++ [(d, THack)] -> nretry s' = nretry s.
Proof. unfold nretry. intros ->. rewrite filter_app, app_length. cbn. lia. Qed.

Ltac kclause s0 :=
  try (rewrite ?(nretry_eq s0) by reflexivity);
  try solve [ intuition (try congruence; try lia) ].

Lemma startInLoop_K s :
  Kinv s -> k_dead s = false -> k_state s = KDisconnected ->
  (k_connect s = true -> alive s = true /\ k_chan s = None /\ nretry s = 0%nat /\ xc s = false /\ nstart (pending s) = 0%nat /\ connection s = None) ->
  wpT (startInLoop s) (fun s' => Kinv s' /\ Kdc s' /\ sameC s s' []).
Proof.
  intros K Hd Hs Hpre. unfold startInLoop. rewrite Hs. cbn [kstate_eqb negb].
  assert (SC : sameC s s []) by (unfold sameC; rewrite app_nil_r; repeat split; auto).
  destruct (k_connect s) eqn:Hk; [|apply wpT_ret; split; [auto|split; [apply Kdc_state; congruence|auto]]].
  destruct (Hpre eq_refl) as (Ha & Hc & Hr & Hx & Hn & Hcn). clear Hpre.
  kdestr K. rewrite Hc in Kch. destruct Kch as [Kch1 Kch2].
  unfold connect_. cbn [kq set_socks].
  assert (X : forall e s0, k_chan s0 = None -> k_state s0 = KDisconnected -> k_connect s0 = true -> k_dead s0 = false ->
             alive s0 = true -> xc s0 = false -> timers s0 = timers s -> pending s0 = pending s -> connection s0 = None ->
             sameC s s0 [] ->
             wpT (bind (Some (s0, [EvAttempt (length (socks s)) e]))
               (fun s1 => match classify e with
                          | ActConnecting => connecting s1 (length (socks s))
                          | ActRetry => retry s1 (length (socks s))
                          | ActClose => do_close s1 (length (socks s))
                          | ActLeak => ret s1 end)) (fun s' => Kinv s' /\ Kdc s' /\ sameC s s' [])).
  { intros e s0 E1 E2 E3 E4 E5 E6 E7 E8 E9 SC0. apply wpT_bind_some.
    assert (Hr0 : nretry s0 = 0%nat) by (rewrite (nretry_eq s); auto).
    assert (Hh0 : nretry s0 = length (timers s0)) by (rewrite (nretry_eq s), E7; auto).
    destruct (classify e).
    - unfold connecting. cbn. rewrite E1. cbn. split; [|split; [apply Kdc_alive; cbn; auto|unfold sameC in *; cbn; intuition]].
      split; cbn; rewrite ?E1, ?E2, ?E3, ?E4, ?E5, ?E6, ?E8, ?E9, ?Hn; kclause s0.
    - unfold retry, do_close. cbn. rewrite E3. cbn. split; [|split; [apply Kdc_alive; cbn; auto|unfold sameC in *; cbn; intuition]].
      split; cbn; rewrite ?E1, ?E2, ?E3, ?E4, ?E5, ?E6, ?E8, ?E9, ?Hn; kclause s0.
      + erewrite nretry_arm by reflexivity. rewrite Hr0. lia.
      + intros _. erewrite nretry_arm by reflexivity. rewrite app_length. cbn. lia.
    - unfold do_close. cbn. split; [|split; [apply Kdc_alive; cbn; auto|unfold sameC in *; cbn; intuition]].
      split; cbn; rewrite ?E1, ?E2, ?E3, ?E4, ?E5, ?E6, ?E8, ?E9, ?Hn; kclause s0.
    - cbn. split; [|split; [apply Kdc_alive; auto|auto]].
      split; cbn; rewrite ?E1, ?E2, ?E3, ?E4, ?E5, ?E6, ?E8, ?E9, ?Hn; kclause s0. }
  destruct (kq s) as [|e r]; apply X; cbn; auto;
    unfold sameC; cbn; rewrite app_nil_r; repeat split; auto.
Qed.

(* a step that touches only the client/connection part and queues / dequeues functors that are not the Connector's *)
Definition sameK (s s' : st) : Prop :=
  k_chan s' = k_chan s /\ k_state s' = k_state s /\ k_connect s' = k_connect s /\ k_delay s' = k_delay s /\
  k_dead s' = k_dead s /\ timers s' = timers s /\ alive s' = alive s /\ xc s' = xc s /\
  (connection s' <> None -> connection s <> None) /\ (connection s = None -> connection s' = None) /\
  count_rc (pending s') = count_rc (pending s) /\ nstart (pending s') = nstart (pending s) /\
  (has_k (pending s) = false -> has_k (pending s') = false) /\ (In FStop (pending s) -> In FStop (pending s')).

Lemma Kinv_same s s' : Kinv s -> sameK s s' -> Kinv s'.
Proof.
  intros K (E1 & E2 & E3 & E4 & E5 & E6 & E7 & E8 & E9 & E10 & E11 & E12 & E13 & E14). kdestr K.
  assert (Hq : quiet s = true -> quiet s' = true).
  { rewrite !quiet_spec. rewrite E1, E2, (nretry_eq s s' E6). intuition. }
  split; rewrite ?E1, ?E2, ?E3, ?E4, ?E5, ?E6, ?E7, ?E8, ?E11, ?E12, ?(nretry_eq s s' E6); auto.
  all: intuition.
Qed.

Lemma Kdc_same s s' : Kdc s -> sameK s s' -> Kdc s'.
Proof.
  intros K (E1 & E2 & E3 & E4 & E5 & E6 & E7 & E8 & E9 & E10 & E11 & E12 & E13 & E14). unfold Kdc. rewrite E2, E5, E7. auto.
Qed.
Lemma Ksettled_same s s' : Ksettled s -> timers s' = timers s -> alive s' = alive s -> k_dead s' = k_dead s -> Ksettled s'.
Proof. unfold Ksettled. intros H -> -> ->. auto. Qed.

(* taking the socket from the channel (removeAndResetChannel) and then retry: handleWrite / handleError with
   an error, and stopInLoop; st0 is the state stored before (stopInLoop stores kDisconnected first) *)
Lemma retry_after_unreg s i (b : bool) st0 :
  Kinv s -> Ksettled s -> k_state s = KConnecting -> k_chan s = Some (i, true) -> k_dead s = false ->
  wpT (retry (enq (set_k_chan (if b then set_k_state s st0 else s) (Some (i, false))) FResetChannel) i)
      (fun s' => Kinv s' /\ Kdc s' /\ sameC s s' [FResetChannel]).
Proof.
  intros K St Hs Hc Hd. kdestr K. rewrite Hc in Kch. destruct Kch as [Kch1 _].
  assert (Hcn : connection s = None). { destruct (connection s) eqn:E; auto. assert (k_state s = KConnected) by (apply Kcn; congruence). congruence. }
  assert (Hr : nretry s = 0%nat). { destruct (nretry s) eqn:E; auto. assert (k_state s = KDisconnected) by (apply Krt; congruence). congruence. }
  assert (Hx : xc s = false /\ nstart (pending s) = 0%nat).
  { destruct (xc s) eqn:X.
    - destruct (Kxc (or_introl eq_refl)) as [Q _]. apply quiet_spec in Q. destruct Q as (Q & _). congruence.
    - split; auto. destruct (nstart (pending s)) eqn:N; auto.
      destruct (Kxc (or_intror (Nat.neq_succ_0 _))) as [Q _]. apply quiet_spec in Q. destruct Q as (Q & _). congruence. }
  destruct Hx as [Hx Hn].
  assert (Hat : alive s = false -> timers s <> []).
  { intros A T. specialize (St A T). congruence. }
  unfold retry, do_close. destruct b; cbn; destruct (k_connect s) eqn:Hk; cbn.
  all: (split; [|split; [apply Kdc_state; cbn; congruence|unfold sameC; cbn; intuition]]).
  all: split; cbn; rewrite ?count_rc_snoc, ?nstart_snoc, ?has_k_snoc, ?Kch1, ?Hcn, ?Hx, ?Hn, ?Hd; cbn; kclause s.
  all: try (intros A; specialize (Khk A)); erewrite nretry_arm by reflexivity; rewrite ?app_length; cbn; lia.
Qed.

(* ------------------------------------------------------------------ C: the client / connection part, on components *)
Definition is_art (f : functor) : bool := match f with FSetCloseCb _ | FAddHack _ => true | _ => false end.
Definition refsC (cn : option nat) (cs : list cobj) (q : list functor) (c : nat) : nat :=
  ((match cn with Some d => if (d =? c)%nat then 1 else 0 | None => 0 end)
   + (match nth_error cs c with Some o => cuser o | None => 0 end)
   + length (filter (holds c) q))%nat.
(* no shutdownInLoop (raw this) is queued behind the connectDestroyed of the same connection *)
Fixpoint order_ok (q : list functor) : Prop :=
  match q with
  | [] => True
  | f :: r => match f with FConnDestroyed c => ~ In (FShutdown c) r | _ => True end /\ order_ok r
  end.

Record Cc (ex : option nat) (al : bool) (cn : option nat) (cs : list cobj) (q : list functor) : Prop := {
  c_noart : forall f, In f q -> is_art f = false;
  c_dead : al = false -> cn = None;
  c_conn : forall c, cn = Some c -> exists o, nth_error cs c = Some o /\ calive o = true /\ c_live (cst o) = true /\ ccb o = CbClient;
  c_cb : forall c o, nth_error cs c = Some o -> calive o = true -> c_live (cst o) = true -> ccb o = CbClient -> al = true /\ cn = Some c;
  c_cst : forall c o, nth_error cs c = Some o -> calive o = true ->
          cst o <> CConnecting /\ (c_live (cst o) = true -> creg o = true) /\ (cuser o <= 1)%nat;
  c_discreg : forall c o, nth_error cs c = Some o -> calive o = true -> cst o = CDisconnected -> creg o = true -> In (FConnDestroyed c) q;
  c_refs0 : forall c o, nth_error cs c = Some o -> calive o = true -> c_live (cst o) = true \/ creg o = true -> ex <> Some c -> (1 <= refsC cn cs q c)%nat;
  c_deadrefs : forall c o, nth_error cs c = Some o -> calive o = false -> refsC cn cs q c = 0%nat;
  c_ffc : forall c, In (FForceClose c) q -> exists o, nth_error cs c = Some o /\ ccb o = CbDetached;
  c_fcd : forall c, In (FConnDestroyed c) q -> exists o, nth_error cs c = Some o /\ cst o = CDisconnected;
  c_fsh : forall c, In (FShutdown c) q -> exists o, nth_error cs c = Some o /\ calive o = true /\ (c_live (cst o) = true \/ In (FConnDestroyed c) q);
  c_order : order_ok q;
  (* while resetChannel is queued, the connection it was queued with is still fresh (not yet in the poller's active set) *)
  c_fresh : forall c o, cn = Some c -> nth_error cs c = Some o -> cfresh o = false -> count_rc q = 0%nat
}.
Definition Cinv (s : st) : Prop := dsnap s = None /\ Cc None (alive s) (connection s) (conns s) (pending s).
(* after gc: every living connection object is referenced *)
Definition Crefs (s : st) : Prop :=
  forall c o, nth_error (conns s) c = Some o -> calive o = true -> (1 <= refsC (connection s) (conns s) (pending s) c)%nat.

Lemma refs_refsC s c : dsnap s = None -> refs s c = refsC (connection s) (conns s) (pending s) c.
Proof. intros D. unfold refs, refsC. rewrite D. lia. Qed.

Lemma order_ok_snoc q f : order_ok q -> (forall c, f = FShutdown c -> ~ In (FConnDestroyed c) q) -> order_ok (q ++ [f]).
Proof.
  induction q as [|g r IH]; cbn; intros H Hf; [split; auto; destruct f; auto|].
  destruct H as [H1 H2]. split.
  - destruct g; auto. intros Hi. apply in_app_or in Hi. destruct Hi as [Hi|[Hi|[]]]; [auto|].
    subst f. apply (Hf _ eq_refl). left. reflexivity.
  - apply IH; auto. intros c E Hi. apply (Hf c E). right. auto.
Qed.

Definition k_neutral (f : functor) : Prop := is_kfunctor f = true.
Lemma filter_holds_k c q : (forall f, In f q -> k_neutral f) -> filter (holds c) q = [].
Proof.
  induction q as [|f r IH]; cbn; auto. intros H.
  assert (Hf : k_neutral f) by (apply H; left; auto). destruct f; cbn in Hf; try discriminate; cbn; apply IH; intros g Hg; apply H; right; auto.
Qed.
Lemma order_ok_app_k q q' : order_ok q -> (forall f, In f q' -> k_neutral f) -> order_ok (q ++ q').
Proof.
  induction q as [|g r IH]; cbn; intros H Hk.
  - induction q' as [|f r' IH']; cbn; auto. split.
    + assert (Hf : k_neutral f) by (apply Hk; left; auto). destruct f; cbn in Hf; try discriminate; auto.
    + apply IH'. intros g Hg. apply Hk. right. auto.
  - destruct H as [H1 H2]. split; [|apply IH; auto].
    destruct g; auto. intros Hi. apply in_app_or in Hi. destruct Hi as [Hi|Hi]; [auto|].
    specialize (Hk _ Hi). discriminate.
Qed.

(* the connector's functions: components unchanged, only functors of the Connector appended *)
Lemma count_rc_app q q' : count_rc (q ++ q') = (count_rc q + count_rc q')%nat.
Proof. unfold count_rc. rewrite filter_app, app_length. reflexivity. Qed.
Lemma Cc_app_k ex al cn cs q q' : (forall f, In f q' -> k_neutral f) -> (cn = None \/ count_rc q' = 0%nat) ->
  Cc ex al cn cs q -> Cc ex al cn cs (q ++ q').
Proof.
  intros Hk Hz [A B C D E F G H I J K L Mf].
  assert (R : forall c, refsC cn cs (q ++ q') c = refsC cn cs q c).
  { intros c. unfold refsC. rewrite filter_app, app_length, (filter_holds_k c q' Hk). cbn. lia. }
  assert (NI : forall f, In f (q ++ q') -> In f q \/ k_neutral f).
  { intros f Hi. apply in_app_or in Hi. destruct Hi; auto. }
  split; auto.
  - intros f Hi. destruct (NI _ Hi) as [?|Hf]; auto. destruct f; cbn in Hf; try discriminate; reflexivity.
  - intros c o H1 H2 H3 H4. apply in_or_app. left. eauto.
  - intros c o H1 H2 H3. rewrite R. eauto.
  - intros c o H1 H2. rewrite R. eauto.
  - intros c Hi. destruct (NI _ Hi) as [?|Hf]; auto. discriminate.
  - intros c Hi. destruct (NI _ Hi) as [?|Hf]; auto. discriminate.
  - intros c Hi. destruct (NI _ Hi) as [Hi'|Hf]; [|discriminate].
    destruct (K _ Hi') as (o & H1 & H2 & [H3|H3]); exists o; repeat split; auto. right. apply in_or_app. auto.
  - apply order_ok_app_k; auto.
  - intros c o E0 H0 F0. rewrite count_rc_app. destruct Hz as [Hz|Hz]; [congruence|]. rewrite Hz, Nat.add_0_r. eauto.
Qed.

Lemma Cinv_sameC s s' q : sameC s s' q -> (forall f, In f q -> k_neutral f) -> (connection s = None \/ count_rc q = 0%nat) -> Cinv s -> Cinv s'.
Proof.
  intros (E1 & E2 & E3 & E4 & E5 & _) Hk Hz [D C]. unfold Cinv. rewrite E1, E2, E3, E4, E5. split; auto. apply Cc_app_k; auto.
Qed.
Lemma Crefs_sameC s s' q : sameC s s' q -> Crefs s -> Crefs s'.
Proof.
  intros (E1 & E2 & E3 & E4 & E5 & _) R. unfold Crefs. rewrite E2, E3, E5. intros c o H1 H2. specialize (R c o H1 H2).
  unfold refsC in *. rewrite filter_app, app_length. lia.
Qed.

(* ---- reference counts under the elementary changes *)
Lemma refsC_snoc cn cs q f c : refsC cn cs (q ++ [f]) c = (refsC cn cs q c + (if holds c f then 1 else 0))%nat.
Proof. unfold refsC. rewrite filter_app, app_length. cbn. destruct (holds c f); cbn; lia. Qed.
Lemma refsC_cons cn cs q f c : refsC cn cs (f :: q) c = (refsC cn cs q c + (if holds c f then 1 else 0))%nat.
Proof. unfold refsC. cbn. destruct (holds c f); cbn; lia. Qed.
Lemma refsC_upd cn cs q c c' f :
  (forall o, nth_error cs c' = Some o -> cuser (f o) = cuser o) -> refsC cn (upd cs c' f) q c = refsC cn cs q c.
Proof.
  intros Hf. unfold refsC. rewrite nth_error_upd. destruct (Nat.eq_dec c' c) as [->|]; auto.
  destruct (nth_error cs c) as [o|] eqn:E; cbn; auto.
Qed.
Lemma refsC_cn cn cs q c : refsC cn cs q c = ((match cn with Some d => if (d =? c)%nat then 1 else 0 | None => 0 end) + refsC None cs q c)%nat.
Proof. unfold refsC. lia. Qed.
Lemma refsC_app_conn cn cs q c o : (c < length cs)%nat -> refsC cn (cs ++ [o]) q c = refsC cn cs q c.
Proof. intros L. unfold refsC. rewrite nth_error_app1; auto. Qed.
Lemma holds_in c q : (0 < length (filter (holds c) q))%nat -> exists f, In f q /\ holds c f = true.
Proof.
  induction q as [|f r IH]; cbn; [lia|]. destruct (holds c f) eqn:E.
  - intros _. exists f. auto.
  - intros H. destruct (IH H) as (g & G1 & G2). exists g. auto.
Qed.
Lemma in_holds c q f : In f q -> holds c f = true -> (1 <= length (filter (holds c) q))%nat.
Proof.
  induction q as [|g r IH]; cbn; [tauto|]. intros [->|H] Hf.
  - rewrite Hf. cbn. lia.
  - destruct (holds c g); cbn; [lia|auto].
Qed.
Lemma holds_FCD c d : holds c (FConnDestroyed d) = (d =? c)%nat.
Proof. reflexivity. Qed.

Ltac cdestr H := destruct H as [Cna Cde Ccn Ccb Cst Cdr Crf Cdd Cff Cfd Cfs Cor Cfr].

(* ---- a field update of one connection object that changes nothing the invariant looks at *)
Lemma Cc_upd ex al cn cs q c f o :
  nth_error cs c = Some o ->
  calive (f o) = calive o -> c_live (cst (f o)) = c_live (cst o) -> (cst (f o) = CDisconnected <-> cst o = CDisconnected) ->
  cst (f o) <> CConnecting -> creg (f o) = creg o -> ccb (f o) = ccb o -> cuser (f o) = cuser o -> cfresh (f o) = cfresh o ->
  Cc ex al cn cs q -> Cc ex al cn (upd cs c f) q.
Proof.
  intros Ho F1 F2 F3 F4 F5 F6 F7 F8 C. cdestr C.
  assert (N : forall c' o', nth_error (upd cs c f) c' = Some o' ->
           (c' = c /\ o' = f o) \/ (c' <> c /\ nth_error cs c' = Some o')).
  { intros c' o'. rewrite nth_error_upd. destruct (Nat.eq_dec c c') as [<-|]; [rewrite Ho; cbn; intros [= <-]; auto|auto]. }
  assert (R : forall c', refsC cn (upd cs c f) q c' = refsC cn cs q c').
  { intros c'. apply refsC_upd. intros o' E. rewrite Ho in E. injection E as <-. auto. }
  split; auto.
  - intros c' E. destruct (Ccn _ E) as (o' & H1 & H2 & H3 & H4). destruct (Nat.eq_dec c' c) as [->|Ne].
    + exists (f o). rewrite nth_error_upd_same, Ho. rewrite Ho in H1. injection H1 as <-. cbn. rewrite F1, F2, F6. auto.
    + exists o'. rewrite nth_error_upd_other; auto.
  - intros c' o' H. destruct (N _ _ H) as [[-> ->]|[Ne H']]; [rewrite F1, F2, F6; apply (Ccb _ _ Ho)|apply (Ccb _ _ H')].
  - intros c' o' H. destruct (N _ _ H) as [[-> ->]|[Ne H']]; [|apply (Cst _ _ H')].
    rewrite F1, F2, F5, F7. intros A. destruct (Cst _ _ Ho A) as (S1 & S2 & S3). auto.
  - intros c' o' H. destruct (N _ _ H) as [[-> ->]|[Ne H']]; [|apply (Cdr _ _ H')].
    rewrite F1, F3, F5. apply (Cdr _ _ Ho).
  - intros c' o' H. rewrite R. destruct (N _ _ H) as [[-> ->]|[Ne H']]; [|apply (Crf _ _ H')].
    rewrite F1, F2, F5. apply (Crf _ _ Ho).
  - intros c' o' H. rewrite R. destruct (N _ _ H) as [[-> ->]|[Ne H']]; [|apply (Cdd _ _ H')].
    rewrite F1. apply (Cdd _ _ Ho).
  - intros c' Hi. destruct (Cff _ Hi) as (o' & H1 & H2). destruct (Nat.eq_dec c' c) as [->|Ne].
    + exists (f o). rewrite nth_error_upd_same, Ho. rewrite Ho in H1. injection H1 as <-. cbn. rewrite F6. auto.
    + exists o'. rewrite nth_error_upd_other; auto.
  - intros c' Hi. destruct (Cfd _ Hi) as (o' & H1 & H2). destruct (Nat.eq_dec c' c) as [->|Ne].
    + exists (f o). rewrite nth_error_upd_same, Ho. rewrite Ho in H1. injection H1 as <-. cbn. split; auto. apply F3; auto.
    + exists o'. rewrite nth_error_upd_other; auto.
  - intros c' Hi. destruct (Cfs _ Hi) as (o' & H1 & H2 & H3). destruct (Nat.eq_dec c' c) as [->|Ne].
    + exists (f o). rewrite nth_error_upd_same, Ho. rewrite Ho in H1. injection H1 as <-. cbn. rewrite F1, F2. auto.
    + exists o'. rewrite nth_error_upd_other; auto.
  - intros c' o' E H. destruct (N _ _ H) as [[-> ->]|[Ne H']]; [rewrite F8; apply (Cfr _ _ E Ho)|apply (Cfr _ _ E H')].
Qed.

(* TcpClient::newConnection: a fresh connection object becomes connection_ *)
Lemma Cc_new cs q i :
  Cc None true None cs q ->
  Cc None true (Some (length cs)) (cs ++ [mkC CConnected i true CbClient false true 0 true]) q.
Proof.
  intros C. cdestr C. set (o := mkC CConnected i true CbClient false true 0 true).
  assert (N : forall c' o', nth_error (cs ++ [o]) c' = Some o' ->
           (c' = length cs /\ o' = o) \/ (c' < length cs /\ nth_error cs c' = Some o')%nat).
  { intros c' o'. rewrite nth_error_snoc. destruct (Nat.eq_dec c' (length cs)) as [->|]; [intros [= <-]; auto|].
    intros H. right. split; auto. eapply nth_error_lt; eauto. }
  assert (R : forall c', (c' < length cs)%nat -> refsC (Some (length cs)) (cs ++ [o]) q c' = refsC None cs q c').
  { intros c' L. rewrite refsC_app_conn; auto. rewrite refsC_cn. destruct (Nat.eqb_spec (length cs) c'); [lia|]. reflexivity. }
  split; auto.
  - discriminate.
  - intros c [= <-]. exists o. rewrite nth_error_snoc. destruct (Nat.eq_dec (length cs) (length cs)); [|congruence]. cbn. auto.
  - intros c' o' H. destruct (N _ _ H) as [[-> ->]|[L H']]; [auto|].
    intros A B D. destruct (Ccb _ _ H' A B D) as [_ X]. discriminate.
  - intros c' o' H. destruct (N _ _ H) as [[-> ->]|[L H']]; [cbn; intros _; repeat split; auto; discriminate|apply (Cst _ _ H')].
  - intros c' o' H. destruct (N _ _ H) as [[-> ->]|[L H']]; [cbn; discriminate|apply (Cdr _ _ H')].
  - intros c' o' H. destruct (N _ _ H) as [[-> ->]|[L H']].
    + intros _ _ _. unfold refsC. rewrite Nat.eqb_refl. lia.
    + rewrite R; auto. apply (Crf _ _ H').
  - intros c' o' H. destruct (N _ _ H) as [[-> ->]|[L H']]; [cbn; discriminate|]. rewrite R; auto. apply (Cdd _ _ H').
  - intros c' Hi. destruct (Cff _ Hi) as (o' & H1 & H2). exists o'. rewrite nth_error_app1; auto. eapply nth_error_lt; eauto.
  - intros c' Hi. destruct (Cfd _ Hi) as (o' & H1 & H2). exists o'. rewrite nth_error_app1; auto. eapply nth_error_lt; eauto.
  - intros c' Hi. destruct (Cfs _ Hi) as (o' & H1 & H2). exists o'. rewrite nth_error_app1; auto. eapply nth_error_lt; eauto.
  - intros c o' [= <-] H. rewrite nth_error_snoc in H. destruct (Nat.eq_dec (length cs) (length cs)); [|congruence]. injection H as <-. cbn. discriminate.
Qed.

Lemma Cc_ex_weaken ex al cn cs q : Cc None al cn cs q -> Cc ex al cn cs q.
Proof. intros C. cdestr C. split; auto. intros c o H1 H2 H3 _. apply (Crf _ _ H1); auto. discriminate. Qed.

(* TcpConnection::handleClose: state kDisconnected, connectDestroyed queued; a connection still bound to the client
   is dropped from connection_ (TcpClient::removeConnection) *)
Lemma Cc_close ex al cn cs q c o :
  nth_error cs c = Some o -> calive o = true -> c_live (cst o) = true -> (ex = None \/ ex = Some c) ->
  Cc ex al cn cs q ->
  Cc None al (match ccb o with CbClient => None | CbDetached => cn end) (upd cs c (c_set_st CDisconnected)) (q ++ [FConnDestroyed c]).
Proof.
  intros Ho Ha Hl Hex C. cdestr C.
  assert (N : forall c' o', nth_error (upd cs c (c_set_st CDisconnected)) c' = Some o' ->
           (c' = c /\ o' = c_set_st CDisconnected o) \/ (c' <> c /\ nth_error cs c' = Some o')).
  { intros c' o'. rewrite nth_error_upd. destruct (Nat.eq_dec c c') as [<-|]; [rewrite Ho; cbn; intros [= <-]; auto|auto]. }
  assert (Hcn : match ccb o with CbClient => al = true /\ cn = Some c | CbDetached => cn <> Some c end).
  { destruct (ccb o) eqn:B; [apply (Ccb _ _ Ho); auto|].
    intros E. destruct (Ccn _ E) as (o' & H1 & _ & _ & H4). congruence. }
  set (cn' := match ccb o with CbClient => None | CbDetached => cn end).
  assert (R : forall c', c' <> c -> refsC cn' (upd cs c (c_set_st CDisconnected)) (q ++ [FConnDestroyed c]) c' = refsC cn cs q c').
  { intros c' Ne. rewrite refsC_snoc, refsC_upd by (intros x _; destruct x; reflexivity).
    rewrite holds_FCD. destruct (Nat.eqb_spec c c'); [congruence|]. rewrite Nat.add_0_r.
    subst cn'. destruct (ccb o); auto. destruct Hcn as [_ ->]. rewrite (refsC_cn (Some c)), (refsC_cn None).
    destruct (Nat.eqb_spec c c'); [congruence|]. reflexivity. }
  split.
  - intros f Hi. apply in_app_or in Hi. destruct Hi as [Hi|[<-|[]]]; auto.
  - intros A. subst cn'. destruct (ccb o); auto.
  - intros c' E. subst cn'. destruct (ccb o); [discriminate|].
    destruct (Ccn _ E) as (o' & H1 & H2). exists o'. rewrite nth_error_upd_other; auto. congruence.
  - intros c' o' H. destruct (N _ _ H) as [[-> ->]|[Ne H']]; [destruct o; cbn; discriminate|].
    intros A B D. destruct (Ccb _ _ H' A B D) as [X1 X2]. split; auto. subst cn'.
    destruct (ccb o); auto. destruct Hcn as [_ Hcn]. congruence.
  - intros c' o' H. destruct (N _ _ H) as [[-> ->]|[Ne H']]; [|apply (Cst _ _ H')].
    destruct (Cst _ _ Ho Ha) as (_ & _ & S3). destruct o; cbn in *. intros _. repeat split; auto; discriminate.
  - intros c' o' H. destruct (N _ _ H) as [[-> ->]|[Ne H']].
    + intros _ _ _. apply in_or_app. right. left. reflexivity.
    + intros A B D. apply in_or_app. left. apply (Cdr _ _ H'); auto.
  - intros c' o' H. destruct (N _ _ H) as [[-> ->]|[Ne H']].
    + intros _ _ _. rewrite refsC_snoc, holds_FCD, Nat.eqb_refl. lia.
    + intros A B _. rewrite R; auto. apply (Crf _ _ H'); auto. destruct Hex as [ -> | -> ]; congruence.
  - intros c' o' H. destruct (N _ _ H) as [[-> ->]|[Ne H']]; [destruct o; cbn in *; congruence|].
    intros A. rewrite R; auto. apply (Cdd _ _ H'); auto.
  - intros c' Hi. apply in_app_or in Hi. destruct Hi as [Hi|[Hi|[]]]; [|discriminate].
    destruct (Cff _ Hi) as (o' & H1 & H2). destruct (Nat.eq_dec c' c) as [->|Ne].
    + exists (c_set_st CDisconnected o). rewrite nth_error_upd_same, Ho. split; auto; rewrite Ho in H1; injection H1 as <-; destruct o; auto.
    + exists o'. rewrite nth_error_upd_other; auto.
  - intros c' Hi. destruct (Nat.eq_dec c' c) as [->|Ne].
    + exists (c_set_st CDisconnected o). rewrite nth_error_upd_same, Ho. split; auto.
    + apply in_app_or in Hi. destruct Hi as [Hi|[Hi|[]]]; [|congruence].
      destruct (Cfd _ Hi) as (o' & H1 & H2). exists o'. rewrite nth_error_upd_other; auto.
  - intros c' Hi. apply in_app_or in Hi. destruct Hi as [Hi|[Hi|[]]]; [|discriminate].
    destruct (Cfs _ Hi) as (o' & H1 & H2 & H3). destruct (Nat.eq_dec c' c) as [->|Ne].
    + exists (c_set_st CDisconnected o). rewrite nth_error_upd_same, Ho. rewrite Ho in H1. injection H1 as <-.
      split; [reflexivity|]. split; [destruct o; auto|]. right. apply in_or_app. right. left. reflexivity.
    + exists o'. rewrite nth_error_upd_other; auto. repeat split; auto. destruct H3; auto. right. apply in_or_app. auto.
  - apply order_ok_snoc; auto. intros; discriminate.
  - intros c' o' E H F0. rewrite count_rc_snoc. cbn. rewrite Nat.add_0_r. subst cn'. destruct (ccb o); [discriminate|].
    destruct (N _ _ H) as [[-> ->]|[Ne H']]; [apply (Cfr _ _ E Ho); destruct o; auto|apply (Cfr _ _ E H'); auto].
Qed.

(* queueing shutdownInLoop (raw this) for a connection that is up *)
Lemma Cc_enq_fsh ex al cn cs q c o :
  nth_error cs c = Some o -> calive o = true -> c_live (cst o) = true ->
  Cc ex al cn cs q -> Cc ex al cn cs (q ++ [FShutdown c]).
Proof.
  intros Ho Ha Hl C. cdestr C.
  assert (R : forall c', refsC cn cs (q ++ [FShutdown c]) c' = refsC cn cs q c') by (intros; rewrite refsC_snoc; cbn; lia).
  split; auto.
  - intros f Hi. apply in_app_or in Hi. destruct Hi as [Hi|[<-|[]]]; auto.
  - intros c' o' H A B D. apply in_or_app. left. apply (Cdr _ _ H); auto.
  - intros c' o' H. rewrite R. apply (Crf _ _ H).
  - intros c' o' H. rewrite R. apply (Cdd _ _ H).
  - intros c' Hi. apply in_app_or in Hi. destruct Hi as [Hi|[Hi|[]]]; [auto|discriminate].
  - intros c' Hi. apply in_app_or in Hi. destruct Hi as [Hi|[Hi|[]]]; [auto|discriminate].
  - intros c' Hi. apply in_app_or in Hi. destruct Hi as [Hi|[Hi|[]]].
    + destruct (Cfs _ Hi) as (o' & H1 & H2 & H3). exists o'. repeat split; auto. destruct H3; auto. right. apply in_or_app. auto.
    + injection Hi as <-. exists o. auto.
  - apply order_ok_snoc; auto. intros c' [= <-] Hi. destruct (Cfd _ Hi) as (o' & H1 & H2).
    rewrite Ho in H1. injection H1 as <-. rewrite H2 in Hl. discriminate.
  - intros c' o' E H F0. rewrite count_rc_snoc. cbn. rewrite Nat.add_0_r. eauto.
Qed.

(* ---- dequeuing *)
Lemma Cc_pop_neutral ex al cn cs f r :
  (forall c, holds c f = false) -> (forall c, f <> FConnDestroyed c) ->
  Cc ex al cn cs (f :: r) -> Cc ex al cn cs r.
Proof.
  intros Hh Hf C. cdestr C.
  assert (R : forall c, refsC cn cs r c = refsC cn cs (f :: r) c) by (intros c; rewrite refsC_cons, Hh; lia).
  assert (NI : forall c, In (FConnDestroyed c) (f :: r) -> In (FConnDestroyed c) r).
  { intros c [E|H]; auto. exfalso. eapply Hf; eauto. }
  split; auto.
  - intros g Hi. apply Cna. right. auto.
  - intros c o H A B D. apply NI. apply (Cdr _ _ H); auto.
  - intros c o H. rewrite R. apply (Crf _ _ H).
  - intros c o H. rewrite R. apply (Cdd _ _ H).
  - intros c Hi. apply Cff. right. auto.
  - intros c Hi. apply Cfd. right. auto.
  - intros c Hi. destruct (Cfs c (or_intror Hi)) as (o & H1 & H2 & H3). exists o. repeat split; auto. destruct H3; auto.
  - destruct Cor. auto.
  - intros c o E H F0. pose proof (Cfr _ _ E H F0) as Z. rewrite count_rc_cons in Z. lia.
Qed.

(* TcpConnection::connectDestroyed of a connection that is already kDisconnected: the channel leaves the poller *)
Lemma Cc_pop_fcd ex al cn cs c r :
  Cc ex al cn cs (FConnDestroyed c :: r) ->
  exists o, nth_error cs c = Some o /\ c_live (cst o) = false /\ Cc ex al cn (upd cs c (c_set_reg false)) r.
Proof.
  intros C. cdestr C. destruct (Cfd c (or_introl eq_refl)) as (o & Ho & Hd). exists o. split; auto. split; [rewrite Hd; reflexivity|].
  assert (N : forall c' o', nth_error (upd cs c (c_set_reg false)) c' = Some o' ->
           (c' = c /\ o' = c_set_reg false o) \/ (c' <> c /\ nth_error cs c' = Some o')).
  { intros c' o'. rewrite nth_error_upd. destruct (Nat.eq_dec c c') as [<-|]; [rewrite Ho; cbn; intros [= <-]; auto|auto]. }
  assert (R : forall c', refsC cn (upd cs c (c_set_reg false)) r c' = (refsC cn cs (FConnDestroyed c :: r) c' - (if (c =? c')%nat then 1 else 0))%nat).
  { intros c'. rewrite refsC_upd by (intros x _; destruct x; reflexivity). rewrite refsC_cons, holds_FCD. destruct (c =? c')%nat; lia. }
  assert (NI : forall c', c' <> c -> In (FConnDestroyed c') (FConnDestroyed c :: r) -> In (FConnDestroyed c') r).
  { intros c' Ne [E|H]; auto. congruence. }
  destruct Cor as [Co1 Co2].
  split; auto.
  - intros g Hi. apply Cna. right. auto.
  - intros c' E. destruct (Ccn _ E) as (o' & H1 & H2 & H3 & H4). exists o'. rewrite nth_error_upd_other; auto.
    intros <-. rewrite Ho in H1. injection H1 as <-. rewrite Hd in H3. discriminate.
  - intros c' o' H. destruct (N _ _ H) as [[-> ->]|[Ne H']]; [|apply (Ccb _ _ H')].
    destruct o; cbn in *. subst cst. discriminate.
  - intros c' o' H. destruct (N _ _ H) as [[-> ->]|[Ne H']]; [|apply (Cst _ _ H')].
    destruct o; cbn in *. subst cst. intros A. destruct (Cst _ _ Ho A) as (S1 & S2 & S3). cbn in *. repeat split; auto; discriminate.
  - intros c' o' H. destruct (N _ _ H) as [[-> ->]|[Ne H']]; [destruct o; cbn; discriminate|].
    intros A B D. apply NI; auto. apply (Cdr _ _ H'); auto.
  - intros c' o' H. rewrite R. destruct (N _ _ H) as [[-> ->]|[Ne H']].
    + destruct o; cbn in *. subst cst. cbn. intros _ [?|?]; discriminate.
    + intros A B E. destruct (Nat.eqb_spec c c'); [congruence|]. rewrite Nat.sub_0_r. apply (Crf _ _ H'); auto.
  - intros c' o' H. rewrite R. destruct (N _ _ H) as [[-> ->]|[Ne H']].
    + intros A. rewrite (Cdd _ _ Ho); auto.
    + intros A. rewrite (Cdd _ _ H'); auto.
  - intros c' Hi. destruct (Cff c' (or_intror Hi)) as (o' & H1 & H2). destruct (Nat.eq_dec c' c) as [->|Ne].
    + exists (c_set_reg false o). rewrite nth_error_upd_same, Ho. split; auto; rewrite Ho in H1; injection H1 as <-; destruct o; auto.
    + exists o'. rewrite nth_error_upd_other; auto.
  - intros c' Hi. destruct (Cfd c' (or_intror Hi)) as (o' & H1 & H2). destruct (Nat.eq_dec c' c) as [->|Ne].
    + exists (c_set_reg false o). rewrite nth_error_upd_same, Ho. split; auto; rewrite Ho in H1; injection H1 as <-; destruct o; auto.
    + exists o'. rewrite nth_error_upd_other; auto.
  - intros c' Hi. destruct (Nat.eq_dec c' c) as [->|Ne]; [contradiction|].
    destruct (Cfs c' (or_intror Hi)) as (o' & H1 & H2 & H3). exists o'. rewrite nth_error_upd_other; auto.
    repeat split; auto. destruct H3; auto.
  - intros c' o' E H F0. destruct (N _ _ H) as [[-> ->]|[Ne H']].
    + pose proof (Cfr _ _ E Ho) as Z. rewrite count_rc_cons in Z. cbn in Z. apply Z. destruct o; auto.
    + pose proof (Cfr _ _ E H' F0) as Z. rewrite count_rc_cons in Z. cbn in Z. exact Z.
Qed.

(* dequeuing forceCloseInLoop: its strong reference is gone; the connection's count is owed until handleClose re-queues *)
Lemma Cc_pop_ffc al cn cs c r :
  Cc None al cn cs (FForceClose c :: r) ->
  exists o, nth_error cs c = Some o /\ ccb o = CbDetached /\ calive o = true /\ Cc (Some c) al cn cs r /\
            (c_live (cst o) = false -> Cc None al cn cs r).
Proof.
  intros C. pose proof C as C0. cdestr C. destruct (Cff c (or_introl eq_refl)) as (o & Ho & Hb). exists o. split; auto. split; auto.
  assert (Ha : calive o = true).
  { destruct (calive o) eqn:A; auto. pose proof (Cdd _ _ Ho A) as Z. rewrite refsC_cons in Z. cbn in Z. rewrite Nat.eqb_refl in Z. lia. }
  split; auto.
  assert (R : forall c', refsC cn cs r c' = (refsC cn cs (FForceClose c :: r) c' - (if (c =? c')%nat then 1 else 0))%nat).
  { intros c'. rewrite refsC_cons. cbn. destruct (c =? c')%nat; lia. }
  assert (NI : forall c', In (FConnDestroyed c') (FForceClose c :: r) -> In (FConnDestroyed c') r).
  { intros c' [E|H]; auto. discriminate. }
  assert (X : forall ex, (ex = None -> c_live (cst o) = false) -> (ex = None \/ ex = Some c) -> Cc ex al cn cs r).
  { intros ex Hex Hex2. destruct Cor as [_ Co2]. split; auto.
    - intros g Hi. apply Cna. right. auto.
    - intros c' o' H A B D. apply NI. apply (Cdr _ _ H); auto.
    - intros c' o' H A B E. rewrite R. destruct (Nat.eqb_spec c c') as [<-|Ne].
      + destruct Hex2 as [ -> | -> ]; [|congruence]. rewrite Ho in H. injection H as <-.
        destruct B as [B|B]; [rewrite Hex in B; auto; discriminate|].
        assert (D : cst o = CDisconnected).
        { destruct (Cst _ _ Ho Ha) as (S1 & _). specialize (Hex eq_refl). destruct (cst o); cbn in *; congruence. }
        pose proof (NI _ (Cdr _ _ Ho Ha D B)) as Hi.
        rewrite refsC_cons. cbn. rewrite Nat.eqb_refl. unfold refsC.
        pose proof (in_holds c r (FConnDestroyed c) Hi ltac:(cbn; apply Nat.eqb_refl)). lia.
      + rewrite Nat.sub_0_r. apply (Crf _ _ H); auto. discriminate.
    - intros c' o' H A. rewrite R. rewrite (Cdd _ _ H A). reflexivity.
    - intros c' Hi. apply Cff. right. auto.
    - intros c' Hi. apply Cfd. right. auto.
    - intros c' Hi. destruct (Cfs c' (or_intror Hi)) as (o' & H1 & H2 & H3). exists o'. repeat split; auto. destruct H3; auto. }
  split; [apply X; auto; discriminate|]. intros L. apply X; auto.
Qed.

(* ---- ~TcpClient *)
Lemma Cc_ex_strengthen al cn cs q c : Cc (Some c) al cn cs q -> (1 <= refsC cn cs q c)%nat -> Cc None al cn cs q.
Proof.
  intros C L. cdestr C. split; auto. intros c' o H A B _. destruct (Nat.eq_dec c' c) as [->|Ne]; auto. apply (Crf _ _ H); auto. congruence.
Qed.

Lemma Cc_al_false ex al cs q : Cc ex al None cs q -> Cc ex false None cs q.
Proof.
  intros C. cdestr C. split; auto. intros c o H A B D. destruct (Ccb _ _ H A B D) as [_ X]. discriminate.
Qed.

(* the close callback is rebound and connection_ dropped: the connection is owed one reference *)
Lemma Cc_detach al cs q c :
  Cc None al (Some c) cs q -> Cc (Some c) false None (upd cs c (c_set_cb CbDetached)) q.
Proof.
  intros C. cdestr C. destruct (Ccn c eq_refl) as (o & Ho & Ha & Hl & Hb).
  assert (N : forall c' o', nth_error (upd cs c (c_set_cb CbDetached)) c' = Some o' ->
           (c' = c /\ o' = c_set_cb CbDetached o) \/ (c' <> c /\ nth_error cs c' = Some o')).
  { intros c' o'. rewrite nth_error_upd. destruct (Nat.eq_dec c c') as [<-|]; [rewrite Ho; cbn; intros [= <-]; auto|auto]. }
  assert (R : forall c', c' <> c -> refsC None (upd cs c (c_set_cb CbDetached)) q c' = refsC (Some c) cs q c').
  { intros c' Ne. rewrite refsC_upd by (intros x _; destruct x; reflexivity). rewrite (refsC_cn (Some c)).
    destruct (Nat.eqb_spec c c'); [congruence|]. reflexivity. }
  split; auto.
  - discriminate.
  - intros c' o' H. destruct (N _ _ H) as [[-> ->]|[Ne H']]; [destruct o; cbn; discriminate|].
    intros A B D. destruct (Ccb _ _ H' A B D) as [_ X]. congruence.
  - intros c' o' H. destruct (N _ _ H) as [[-> ->]|[Ne H']]; [|apply (Cst _ _ H')].
    destruct o; cbn in *. intros A. apply (Cst _ _ Ho A).
  - intros c' o' H. destruct (N _ _ H) as [[-> ->]|[Ne H']]; [|apply (Cdr _ _ H')].
    destruct o; cbn in *. apply (Cdr _ _ Ho).
  - intros c' o' H. destruct (N _ _ H) as [[-> ->]|[Ne H']]; [intros _ _ E; congruence|].
    intros A B _. rewrite R; auto. apply (Crf _ _ H'); auto. discriminate.
  - intros c' o' H. destruct (N _ _ H) as [[-> ->]|[Ne H']]; [destruct o; cbn in *; congruence|].
    intros A. rewrite R; auto. apply (Cdd _ _ H'); auto.
  - intros c' Hi. destruct (Cff _ Hi) as (o' & H1 & H2). destruct (Nat.eq_dec c' c) as [->|Ne].
    + exists (c_set_cb CbDetached o). rewrite nth_error_upd_same, Ho. split; auto; destruct o; auto.
    + exists o'. rewrite nth_error_upd_other; auto.
  - intros c' Hi. destruct (Cfd _ Hi) as (o' & H1 & H2). destruct (Nat.eq_dec c' c) as [->|Ne].
    + exists (c_set_cb CbDetached o). rewrite nth_error_upd_same, Ho. split; auto; rewrite Ho in H1; injection H1 as <-; destruct o; auto.
    + exists o'. rewrite nth_error_upd_other; auto.
  - intros c' Hi. destruct (Cfs _ Hi) as (o' & H1 & H2 & H3). destruct (Nat.eq_dec c' c) as [->|Ne].
    + exists (c_set_cb CbDetached o). rewrite nth_error_upd_same, Ho. rewrite Ho in H1. injection H1 as <-. destruct o; auto.
    + exists o'. rewrite nth_error_upd_other; auto.
  - discriminate.
Qed.

Lemma Cc_enq_ffc al cn cs q c o :
  nth_error cs c = Some o -> calive o = true -> ccb o = CbDetached ->
  Cc (Some c) al cn cs q -> Cc None al cn cs (q ++ [FForceClose c]).
Proof.
  intros Ho Ha Hb C. cdestr C.
  assert (R : forall c', refsC cn cs (q ++ [FForceClose c]) c' = (refsC cn cs q c' + (if (c =? c')%nat then 1 else 0))%nat).
  { intros c'. rewrite refsC_snoc. reflexivity. }
  split; auto.
  - intros f Hi. apply in_app_or in Hi. destruct Hi as [Hi|[<-|[]]]; auto.
  - intros c' o' H A B D. apply in_or_app. left. apply (Cdr _ _ H); auto.
  - intros c' o' H A B _. rewrite R. destruct (Nat.eqb_spec c c') as [<-|Ne]; [lia|]. rewrite Nat.add_0_r. apply (Crf _ _ H); auto. congruence.
  - intros c' o' H A. rewrite R. destruct (Nat.eqb_spec c c') as [<-|Ne]; [congruence|]. rewrite Nat.add_0_r. apply (Cdd _ _ H); auto.
  - intros c' Hi. apply in_app_or in Hi. destruct Hi as [Hi|[Hi|[]]]; [auto|]. injection Hi as <-. eauto.
  - intros c' Hi. apply in_app_or in Hi. destruct Hi as [Hi|[Hi|[]]]; [auto|discriminate].
  - intros c' Hi. apply in_app_or in Hi. destruct Hi as [Hi|[Hi|[]]]; [|discriminate].
    destruct (Cfs _ Hi) as (o' & H1 & H2 & H3). exists o'. repeat split; auto. destruct H3; auto. right. apply in_or_app. auto.
  - apply order_ok_snoc; auto. intros; discriminate.
  - intros c' o' E H F0. rewrite count_rc_snoc. cbn. rewrite Nat.add_0_r. eauto.
Qed.

(* ---- user references *)
Lemma Cc_set_user ex al cn cs q c o n :
  nth_error cs c = Some o -> calive o = true -> (n <= 1)%nat ->
  (c_live (cst o) = true \/ creg o = true -> ex <> Some c -> (1 + cuser o <= refsC cn cs q c + n)%nat) ->
  Cc ex al cn cs q -> Cc ex al cn (upd cs c (c_set_user n)) q.
Proof.
  intros Ho Ha Hn Hr C. cdestr C.
  assert (N : forall c' o', nth_error (upd cs c (c_set_user n)) c' = Some o' ->
           (c' = c /\ o' = c_set_user n o) \/ (c' <> c /\ nth_error cs c' = Some o')).
  { intros c' o'. rewrite nth_error_upd. destruct (Nat.eq_dec c c') as [<-|]; [rewrite Ho; cbn; intros [= <-]; auto|auto]. }
  assert (R : forall c', c' <> c -> refsC cn (upd cs c (c_set_user n)) q c' = refsC cn cs q c').
  { intros c' Ne. unfold refsC. rewrite nth_error_upd_other; auto. }
  assert (Rc : (refsC cn (upd cs c (c_set_user n)) q c + cuser o = refsC cn cs q c + n)%nat).
  { unfold refsC. rewrite nth_error_upd_same, Ho. cbn. destruct o; cbn. lia. }
  split; auto.
  - intros c' E. destruct (Ccn _ E) as (o' & H1 & H2 & H3 & H4). destruct (Nat.eq_dec c' c) as [->|Ne].
    + exists (c_set_user n o). rewrite nth_error_upd_same, Ho. rewrite Ho in H1. injection H1 as <-. destruct o; auto.
    + exists o'. rewrite nth_error_upd_other; auto.
  - intros c' o' H. destruct (N _ _ H) as [[-> ->]|[Ne H']]; [|apply (Ccb _ _ H')]. destruct o; cbn in *. apply (Ccb _ _ Ho).
  - intros c' o' H. destruct (N _ _ H) as [[-> ->]|[Ne H']]; [|apply (Cst _ _ H')].
    destruct o; cbn in *. intros A. destruct (Cst _ _ Ho A) as (S1 & S2 & S3). auto.
  - intros c' o' H. destruct (N _ _ H) as [[-> ->]|[Ne H']]; [|apply (Cdr _ _ H')]. destruct o; cbn in *. apply (Cdr _ _ Ho).
  - intros c' o' H. destruct (N _ _ H) as [[-> ->]|[Ne H']].
    + intros A B E. assert (B' : c_live (cst o) = true \/ creg o = true) by (destruct o; auto). specialize (Hr B' E). lia.
    + rewrite R; auto. apply (Crf _ _ H').
  - intros c' o' H. destruct (N _ _ H) as [[-> ->]|[Ne H']]; [destruct o; cbn in *; congruence|]. rewrite R; auto. apply (Cdd _ _ H').
  - intros c' Hi. destruct (Cff _ Hi) as (o' & H1 & H2). destruct (Nat.eq_dec c' c) as [->|Ne].
    + exists (c_set_user n o). rewrite nth_error_upd_same, Ho. split; auto; rewrite Ho in H1; injection H1 as <-; destruct o; auto.
    + exists o'. rewrite nth_error_upd_other; auto.
  - intros c' Hi. destruct (Cfd _ Hi) as (o' & H1 & H2). destruct (Nat.eq_dec c' c) as [->|Ne].
    + exists (c_set_user n o). rewrite nth_error_upd_same, Ho. split; auto; rewrite Ho in H1; injection H1 as <-; destruct o; auto.
    + exists o'. rewrite nth_error_upd_other; auto.
  - intros c' Hi. destruct (Cfs _ Hi) as (o' & H1 & H2 & H3). destruct (Nat.eq_dec c' c) as [->|Ne].
    + exists (c_set_user n o). rewrite nth_error_upd_same, Ho. rewrite Ho in H1. injection H1 as <-. destruct o; auto.
    + exists o'. rewrite nth_error_upd_other; auto.
  - intros c' o' E H F0. destruct (N _ _ H) as [[-> ->]|[Ne H']]; [apply (Cfr _ _ E Ho); destruct o; auto|apply (Cfr _ _ E H'); auto].
Qed.

(* ---- ~TcpConnection of an object nobody references *)
Lemma Cc_kill al cn cs q c o :
  nth_error cs c = Some o -> calive o = true -> refsC cn cs q c = 0%nat ->
  Cc None al cn cs q ->
  cst o = CDisconnected /\ creg o = false /\ Cc None al cn (upd cs c (c_set_alive false)) q.
Proof.
  intros Ho Ha Hz C. cdestr C.
  assert (Hnl : c_live (cst o) = false /\ creg o = false).
  { destruct (c_live (cst o)) eqn:L, (creg o) eqn:G; auto;
      (assert (1 <= refsC cn cs q c)%nat by (apply (Crf _ _ Ho); auto; discriminate); lia). }
  destruct Hnl as [Hl Hg]. destruct (Cst _ _ Ho Ha) as (S1 & _).
  split; [destruct (cst o); cbn in *; congruence|]. split; auto.
  assert (N : forall c' o', nth_error (upd cs c (c_set_alive false)) c' = Some o' ->
           (c' = c /\ o' = c_set_alive false o) \/ (c' <> c /\ nth_error cs c' = Some o')).
  { intros c' o'. rewrite nth_error_upd. destruct (Nat.eq_dec c c') as [<-|]; [rewrite Ho; cbn; intros [= <-]; auto|auto]. }
  assert (R : forall c', refsC cn (upd cs c (c_set_alive false)) q c' = refsC cn cs q c').
  { intros c'. apply refsC_upd. intros x _. destruct x; reflexivity. }
  assert (NH : forall f, In f q -> holds c f = false).
  { intros f Hi. destruct (holds c f) eqn:E; auto. pose proof (in_holds _ _ _ Hi E). unfold refsC in Hz. lia. }
  split; auto.
  - intros c' E. destruct (Ccn _ E) as (o' & H1 & H2 & H3 & H4). exists o'. rewrite nth_error_upd_other; auto.
    intros <-. unfold refsC in Hz. rewrite E, Nat.eqb_refl in Hz. lia.
  - intros c' o' H. destruct (N _ _ H) as [[-> ->]|[Ne H']]; [destruct o; cbn; discriminate|apply (Ccb _ _ H')].
  - intros c' o' H. destruct (N _ _ H) as [[-> ->]|[Ne H']]; [destruct o; cbn; discriminate|apply (Cst _ _ H')].
  - intros c' o' H. destruct (N _ _ H) as [[-> ->]|[Ne H']]; [destruct o; cbn; discriminate|apply (Cdr _ _ H')].
  - intros c' o' H. rewrite R. destruct (N _ _ H) as [[-> ->]|[Ne H']]; [destruct o; cbn; discriminate|apply (Crf _ _ H')].
  - intros c' o' H. rewrite R. destruct (N _ _ H) as [[-> ->]|[Ne H']]; [auto|apply (Cdd _ _ H')].
  - intros c' Hi. destruct (Cff _ Hi) as (o' & H1 & H2). destruct (Nat.eq_dec c' c) as [->|Ne].
    + pose proof (NH _ Hi) as Z. cbn in Z. rewrite Nat.eqb_refl in Z. discriminate.
    + exists o'. rewrite nth_error_upd_other; auto.
  - intros c' Hi. destruct (Cfd _ Hi) as (o' & H1 & H2). destruct (Nat.eq_dec c' c) as [->|Ne].
    + pose proof (NH _ Hi) as Z. cbn in Z. rewrite Nat.eqb_refl in Z. discriminate.
    + exists o'. rewrite nth_error_upd_other; auto.
  - intros c' Hi. destruct (Cfs _ Hi) as (o' & H1 & H2 & H3). destruct (Nat.eq_dec c' c) as [->|Ne].
    + rewrite Ho in H1. injection H1 as <-. destruct H3 as [H3|H3]; [congruence|].
      pose proof (NH _ H3) as Z. cbn in Z. rewrite Nat.eqb_refl in Z. discriminate.
    + exists o'. rewrite nth_error_upd_other; auto.
  - intros c' o' E H F0. destruct (N _ _ H) as [[-> ->]|[Ne H']]; [apply (Cfr _ _ E Ho); destruct o; auto|apply (Cfr _ _ E H'); auto].
Qed.

(* ------------------------------------------------------------------ state-level lemmas *)
Definition Post (s s' : st) : Prop :=
  Kinv s' /\ Kdc s' /\ Cinv s' /\ alive s' = alive s /\ xc s' = xc s /\ xs s' = xs s /\ xd s' = xd s.

Lemma sameC_post s s' q : Kinv s' -> Kdc s' -> sameC s s' q -> (forall f, In f q -> k_neutral f) ->
  (connection s = None \/ count_rc q = 0%nat) -> Cinv s -> Post s s'.
Proof.
  intros K Kd SC Hq Hz C. pose proof (Cinv_sameC _ _ _ SC Hq Hz C). unfold Post. unfold sameC in SC. intuition.
Qed.
Lemma reset_neutral : forall f, In f [FResetChannel] -> k_neutral f.
Proof. intros f [<-|[]]. reflexivity. Qed.
Lemma nil_neutral : forall f : functor, In f [] -> k_neutral f.
Proof. intros f []. Qed.

Lemma connecting_facts s i : Kinv s -> k_chan s = Some (i, true) ->
  k_state s = KConnecting /\ count_rc (pending s) = 0%nat /\ connection s = None /\ nretry s = 0%nat /\
  xc s = false /\ nstart (pending s) = 0%nat.
Proof.
  intros K Hc. kdestr K. rewrite Hc in Kch. destruct Kch as [Kch1 Hs].
  assert (Hcn : connection s = None). { destruct (connection s) eqn:E; auto. assert (k_state s = KConnected) by (apply Kcn; congruence). congruence. }
  assert (Hr : nretry s = 0%nat). { destruct (nretry s) eqn:E; auto. assert (k_state s = KDisconnected) by (apply Krt; congruence). congruence. }
  repeat split; auto.
  - destruct (xc s) eqn:X; auto. destruct (Kxc (or_introl eq_refl)) as [Q _]. apply quiet_spec in Q. destruct Q as (Q & _). congruence.
  - destruct (nstart (pending s)) eqn:N; auto.
    destruct (Kxc (or_intror (Nat.neq_succ_0 _))) as [Q _]. apply quiet_spec in Q. destruct Q as (Q & _). congruence.
Qed.

Lemma handleWrite_I s err selfc i :
  Kinv s -> Ksettled s -> Cinv s -> k_chan s = Some (i, true) -> k_dead s = false ->
  wpT (handleWrite s err selfc) (Post s).
Proof.
  intros K St C Hc Hd. destruct (connecting_facts _ _ K Hc) as (Hs & Hrc & Hcn & Hr & Hx & Hn).
  unfold handleWrite, removeAndResetChannel. rewrite Hs, Hc. cbn [kstate_eqb].
  assert (RT : wpT (retry (enq (set_k_chan s (Some (i, false))) FResetChannel) i) (Post s)).
  { eapply wpT_mono; [|apply (retry_after_unreg s i false KDisconnected); auto].
    intros s' (K' & Kd' & SC). eapply sameC_post; eauto using reset_neutral. }
  destruct (negb (err =? 0)); [exact RT|]. destruct selfc; [exact RT|]. clear RT.
  pose proof K as K0. kdestr K.
  assert (Hat : alive s = false -> timers s <> []). { intros A T. specialize (St A T). congruence. }
  destruct C as [D C].
  cbn. destruct (k_connect s) eqn:Hk.
  - assert (Ha : alive s = true). { destruct (alive s) eqn:A; auto. pose proof (Kdk eq_refl Hd (Hat eq_refl)). congruence. }
    unfold newConnection. cbn. rewrite Ha. cbn. unfold Post. split; [|split; [apply Kdc_state; cbn; congruence|split; [split; [exact D|]|cbn; auto]]].
    + split; cbn; rewrite ?count_rc_snoc, ?nstart_snoc, ?has_k_snoc, ?Hrc, ?Hx, ?Hn, ?Hd, ?Ha; cbn; kclause s.
    + cbn. rewrite Ha, Hcn in *. apply Cc_new. apply Cc_app_k; auto using reset_neutral.
  - unfold do_close. cbn. unfold Post. split; [|split; [apply Kdc_state; cbn; congruence|split; [split; [exact D|]|cbn; auto]]].
    + split; cbn; rewrite ?count_rc_snoc, ?nstart_snoc, ?has_k_snoc, ?Hrc, ?Hx, ?Hn, ?Hd, ?Hcn; cbn; kclause s.
    + cbn. apply Cc_app_k; auto using reset_neutral.
Qed.

Lemma handleError_I s i :
  Kinv s -> Ksettled s -> Cinv s -> k_chan s = Some (i, true) -> k_dead s = false ->
  wpT (handleError s) (Post s).
Proof.
  intros K St C Hc Hd. destruct (connecting_facts _ _ K Hc) as (Hs & _ & Hcn & _).
  unfold handleError, removeAndResetChannel. rewrite Hs, Hc. cbn [kstate_eqb].
  eapply wpT_mono; [|apply (retry_after_unreg s i false KDisconnected); auto].
  intros s' (K' & Kd' & SC). eapply sameC_post; eauto using reset_neutral.
Qed.

(* ------------------------------------------------------------------ the functor queue *)
Lemma pop_sameK s f r : pending s = f :: r -> is_kfunctor f = false -> sameK s (set_pending s r).
Proof.
  intros Hp Hf. unfold sameK. cbn. rewrite Hp, count_rc_cons, nstart_cons, has_k_cons, Hf.
  unfold is_kfunctor in Hf. apply orb_false_elim in Hf. destruct Hf as [Hf1 Hf3]. apply orb_false_elim in Hf1. destruct Hf1 as [Hf1 Hf2].
  rewrite Hf1, Hf3. cbn. repeat split; auto. intros [E|H]; auto. subst f. discriminate.
Qed.

Lemma Kinv_pop s f r : Kinv s -> pending s = f :: r -> is_kfunctor f = true -> is_FReset f = false ->
  Kinv (set_pending s r) /\ k_dead s = false.
Proof.
  intros K Hp Hk Hf. kdestr K.
  assert (Hd : k_dead s = false).
  { destruct (k_dead s) eqn:D; auto. destruct (Kkd eq_refl) as (_ & _ & _ & Hh). rewrite Hp, has_k_cons, Hk in Hh. discriminate. }
  split; auto. rewrite Hp, count_rc_cons, Hf in Kch. cbn in Kch.
  rewrite Hp, nstart_cons in Kxc, Kxc1.
  split; cbn; auto.
  - intros D. congruence.
  - intros H. apply Kxc. destruct H as [H|H]; auto. right. lia.
  - destruct (is_FStart f); lia.
  - intros A D T. specialize (Ks0 A D T). rewrite Hp, has_k_cons, Hk in Ks0. discriminate.
Qed.

Lemma Cinv_pop_neutral s f r : Cinv s -> pending s = f :: r -> (forall c, holds c f = false) -> (forall c, f <> FConnDestroyed c) ->
  Cinv (set_pending s r).
Proof. intros [D C] Hp H1 H2. split; auto. cbn. rewrite Hp in C. eapply Cc_pop_neutral; eauto. Qed.

Lemma run_FStart_I s r :
  Kinv s -> Ksettled s -> Cinv s -> pending s = FStart :: r -> wpT (run_functor (set_pending s r) FStart) (Post s).
Proof.
  intros K St C Hp. destruct (Kinv_pop _ _ _ K Hp eq_refl eq_refl) as [K' Hd].
  cbn [run_functor k_dead set_pending]. rewrite Hd. apply wpT_bind_some.
  pose proof K as K0. kdestr K0.
  assert (N : nstart (pending s) <> 0%nat) by (rewrite Hp, nstart_cons; cbn; lia).
  destruct (Kxc (or_intror N)) as [Q Dl]. apply quiet_spec in Q. destruct Q as (Q1 & Q2 & Q3 & Q4).
  rewrite Hp, nstart_cons in Kxc1. cbn in Kxc1.
  assert (Hx : xc s = false) by (destruct (xc s); auto; lia).
  assert (Hn : nstart r = 0%nat) by (destruct (xc s); lia).
  assert (C' : Cinv (set_pending s r)) by (eapply Cinv_pop_neutral; eauto; intros; discriminate).
  eapply wpT_mono; [|apply startInLoop_K; auto].
  - intros s' (K2 & Kd2 & SC). pose proof (sameC_post _ _ _ K2 Kd2 SC nil_neutral (or_intror eq_refl) C') as P. unfold Post in *. cbn in P. exact P.
  - intros Hk. cbn. repeat split; auto. destruct (alive s) eqn:A; auto.
    assert (T : timers s <> []). { intros T. specialize (St A T). congruence. }
    specialize (Kdk eq_refl Hd T). cbn in Hk. congruence.
Qed.

Lemma run_FStop_I s r :
  Kinv s -> Ksettled s -> Cinv s -> pending s = FStop :: r -> wpT (run_functor (set_pending s r) FStop) (Post s).
Proof.
  intros K St C Hp. destruct (Kinv_pop _ _ _ K Hp eq_refl eq_refl) as [K' Hd].
  cbn [run_functor k_dead set_pending]. rewrite Hd.
  assert (C' : Cinv (set_pending s r)) by (eapply Cinv_pop_neutral; eauto; intros; discriminate).
  assert (St' : Ksettled (set_pending s r)) by (eapply Ksettled_same; eauto).
  unfold stopInLoop. destruct (kstate_eqb (k_state (set_pending s r)) KConnecting) eqn:E.
  - assert (Hs : k_state (set_pending s r) = KConnecting) by (destruct (k_state (set_pending s r)); cbn in E; congruence).
    pose proof K' as K0. kdestr K0. destruct (k_chan (set_pending s r)) as [[i [|]]|] eqn:Hc; try (destruct Kch; congruence).
    unfold removeAndResetChannel. change (k_chan (set_k_state (set_pending s r) KDisconnected)) with (k_chan (set_pending s r)). rewrite Hc.
    eapply wpT_mono; [|apply (retry_after_unreg (set_pending s r) i true KDisconnected); auto].
    intros s' (K2 & Kd2 & SC).
    assert (Hcn0 : connection (set_pending s r) = None).
    { destruct (connection (set_pending s r)) eqn:E0; auto. assert (k_state (set_pending s r) = KConnected) by (apply Kcn; congruence). congruence. }
    pose proof (sameC_post _ _ _ K2 Kd2 SC reset_neutral (or_introl Hcn0) C') as P. unfold Post in *. cbn in P. exact P.
  - apply wpT_ret. unfold Post. split; [exact K'|split; [|split; [exact C'|cbn; auto]]].
    apply Kdc_state. intros Hs. rewrite Hs in E. discriminate.
Qed.

Lemma run_FReset_I s r :
  Kinv s -> Cinv s -> pending s = FResetChannel :: r -> wpT (run_functor (set_pending s r) FResetChannel) (Post s).
Proof.
  intros K C Hp. kdestr K.
  assert (Hd : k_dead s = false).
  { destruct (k_dead s) eqn:D; auto. destruct (Kkd eq_refl) as (_ & _ & _ & Hh). rewrite Hp in Hh. discriminate. }
  cbn [run_functor k_dead set_pending]. rewrite Hd. apply wpT_ret.
  rewrite Hp, count_rc_cons in Kch. cbn in Kch.
  destruct (k_chan s) as [[i [|]]|] eqn:Hc; try (destruct Kch; lia). destruct Kch as [Kch1 Kch2].
  assert (Hrc : count_rc r = 0%nat) by lia.
  assert (Hq : quiet s = false). { destruct (quiet s) eqn:Q; auto. apply quiet_spec in Q. destruct Q as (_ & Q & _). congruence. }
  rewrite Hp, nstart_cons in Kxc, Kxc1. cbn in Kxc, Kxc1.
  unfold Post. split; [|split; [apply Kdc_state; cbn; auto|split; [|cbn; auto]]].
  - split; cbn; rewrite ?Hrc; auto.
    + intros D. congruence.
    + intros H. destruct (Kxc H) as [Q _]. congruence.
    + intros A D T. specialize (Ks0 A D T). rewrite Hp in Ks0. discriminate.
  - eapply (Cinv_pop_neutral s); eauto; intros; discriminate.
Qed.

(* a step that changes only connection objects and queues functors that are not the Connector's *)
Lemma sameK_conns s f : sameK s (set_conns s f).
Proof. unfold sameK. cbn. repeat split; auto. Qed.
Lemma sameK_enq s f : is_kfunctor f = false -> sameK s (enq s f).
Proof.
  intros Hf. unfold sameK. cbn. rewrite count_rc_snoc, nstart_snoc, has_k_snoc, Hf.
  unfold is_kfunctor in Hf. apply orb_false_elim in Hf. destruct Hf as [Hf1 Hf3]. apply orb_false_elim in Hf1. destruct Hf1 as [Hf1 Hf2].
  rewrite Hf1, Hf3, Nat.add_0_r, Nat.add_0_r, orb_false_r. repeat split; auto. intros H. apply in_or_app. auto.
Qed.
Lemma sameK_trans s1 s2 s3 : sameK s1 s2 -> sameK s2 s3 -> sameK s1 s3.
Proof.
  unfold sameK. intros (A1 & A2 & A3 & A4 & A5 & A6 & A7 & A8 & A9 & A10 & A11 & A12 & A13 & A14)
                       (B1 & B2 & B3 & B4 & B5 & B6 & B7 & B8 & B9 & B10 & B11 & B12 & B13 & B14).
  repeat split; try congruence; auto.
Qed.

(* TcpConnection::handleClose of a living connection that is up *)
Lemma handleClose_I s c o :
  Kinv s -> Kdc s -> Cinv s -> nth_error (conns s) c = Some o -> calive o = true -> c_live (cst o) = true ->
  (ccb o = CbClient -> count_rc (pending s) = 0%nat) ->
  wpT (handleClose s c) (Post s).
Proof.
  intros K Kd [D C] Ho Ha Hl Hrc. unfold handleClose. rewrite Ho. apply wpT_bind_some.
  pose proof (Cc_close None _ _ _ _ _ _ Ho Ha Hl (or_introl eq_refl) C) as C1.
  set (s1 := setc s c (c_set_st CDisconnected)).
  assert (SK1 : sameK s s1) by apply sameK_conns.
  destruct (ccb o) eqn:Hb.
  - (* TcpClient::removeConnection *)
    pose proof C as C0. cdestr C0. destruct (Ccb _ _ Ho Ha Hl Hb) as [Al Cn].
    unfold removeConnection. cbn [alive connection s1 setc set_conns]. rewrite Al, Cn, Nat.eqb_refl. cbn [negb].
    set (s2 := enq (set_connection s1 None) (FConnDestroyed c)).
    assert (SK2 : sameK s s2).
    { unfold sameK. cbn. rewrite count_rc_snoc, nstart_snoc, has_k_snoc. cbn. rewrite !Nat.add_0_r, orb_false_r.
      repeat split; auto; try congruence. intros H. apply in_or_app. auto. }
    assert (K2 : Kinv s2) by (eapply Kinv_same; eauto).
    assert (C2 : Cinv s2) by (split; [exact D|exact C1]).
    destruct (c_retry s2 && c_connect s2).
    + (* Connector::restart *)
      unfold restart. apply wpT_bind_some.
      pose proof K as K0. kdestr K0.
      assert (Hs : k_state s = KConnected) by (apply Kcn; congruence).
      assert (Hr : nretry s = 0%nat). { destruct (nretry s) eqn:E; auto. assert (k_state s = KDisconnected) by (apply Krt; congruence). congruence. }
      specialize (Hrc eq_refl).
      assert (Hc : k_chan s = None). { destruct (k_chan s) as [[i [|]]|]; auto; destruct Kch; congruence. }
      assert (Hd : k_dead s = false). { destruct (k_dead s) eqn:E; auto. destruct (Kkd eq_refl). congruence. }
      assert (Hx : xc s = false /\ nstart (pending s) = 0%nat).
      { destruct (xc s) eqn:X.
        - destruct (Kxc (or_introl eq_refl)) as [Q _]. apply quiet_spec in Q. destruct Q as (Q & _). congruence.
        - split; auto. destruct (nstart (pending s)) eqn:N; auto.
          destruct (Kxc (or_intror (Nat.neq_succ_0 _))) as [Q _]. apply quiet_spec in Q. destruct Q as (Q & _). congruence. }
      destruct Hx as [Hx Hn].
      set (s3 := set_k_connect (set_k_delay (set_k_state s2 KDisconnected) Connector_kInitRetryDelayMs) true).
      assert (K3 : Kinv s3).
      { split; cbn; rewrite ?count_rc_snoc, ?nstart_snoc, ?has_k_snoc, ?Hrc, ?Hc, ?Hx, ?Hn, ?Hd, ?Al; cbn; kclause s. }
      eapply wpT_mono; [|apply startInLoop_K; auto].
      * intros s' (K' & Kd' & SC).
        assert (C3 : Cinv s3) by exact C2.
        pose proof (sameC_post _ _ _ K' Kd' SC nil_neutral (or_intror eq_refl) C3) as P. unfold Post in *. cbn in P. intuition.
      * intros _. cbn. rewrite nstart_snoc. cbn. repeat split; auto. lia.
    + apply wpT_ret. unfold Post. split; [exact K2|split; [eapply Kdc_same; eauto|split; [exact C2|cbn; auto]]].
  - apply wpT_ret. set (s2 := enq s1 (FConnDestroyed c)).
    assert (SK2 : sameK s s2) by (eapply sameK_trans; [exact SK1|apply sameK_enq; reflexivity]).
    unfold Post. split; [eapply Kinv_same; eauto|split; [eapply Kdc_same; eauto|split; [|cbn; auto]]].
    split; [exact D|exact C1].
Qed.

Lemma pop_post s f r s' :
  Kinv s -> Kdc s -> pending s = f :: r -> is_kfunctor f = false ->
  sameK (set_pending s r) s' -> Cinv s' -> alive s' = alive s -> xc s' = xc s -> xs s' = xs s -> xd s' = xd s -> Post s s'.
Proof.
  intros K Kd Hp Hf SK C' E1 E2 E3 E4.
  assert (SK0 : sameK s s') by (eapply sameK_trans; [eapply pop_sameK; eauto|exact SK]).
  unfold Post. split; [eapply Kinv_same; eauto|split; [eapply Kdc_same; eauto|auto]].
Qed.

Lemma run_FConnDestroyed_I s c r :
  Kinv s -> Kdc s -> Cinv s -> pending s = FConnDestroyed c :: r -> wpT (run_functor (set_pending s r) (FConnDestroyed c)) (Post s).
Proof.
  intros K Kd [D C] Hp. rewrite Hp in C. destruct (Cc_pop_fcd _ _ _ _ _ _ C) as (o & Ho & Hl & C').
  cbn [run_functor conns set_pending]. rewrite Ho, Hl. apply wpT_ret.
  eapply pop_post; eauto; [apply sameK_conns|split; [exact D|exact C']].
Qed.

Lemma run_FForceClose_I s c r :
  Kinv s -> Kdc s -> Cinv s -> pending s = FForceClose c :: r -> wpT (run_functor (set_pending s r) (FForceClose c)) (Post s).
Proof.
  intros K Kd [D C] Hp. rewrite Hp in C. destruct (Cc_pop_ffc _ _ _ _ _ C) as (o & Ho & Hb & Ha & Cx & Cn).
  cbn [run_functor conns set_pending]. rewrite Ho. destruct (c_live (cst o)) eqn:Hl.
  - unfold handleClose. cbn [conns set_pending]. rewrite Ho, Hb. apply wpT_bind_some. apply wpT_ret.
    pose proof (Cc_close (Some c) _ _ _ _ _ _ Ho Ha Hl (or_intror eq_refl) Cx) as C1. rewrite Hb in C1.
    eapply pop_post; eauto.
    + eapply sameK_trans; [apply sameK_conns|apply sameK_enq; reflexivity].
    + split; [exact D|exact C1].
  - apply wpT_ret. eapply pop_post; eauto.
    + unfold sameK. repeat split; auto.
    + split; [exact D|exact (Cn eq_refl)].
Qed.

Lemma run_FShutdown_I s c r :
  Kinv s -> Kdc s -> Cinv s -> pending s = FShutdown c :: r -> wpT (run_functor (set_pending s r) (FShutdown c)) (Post s).
Proof.
  intros K Kd [D C] Hp. rewrite Hp in C.
  pose proof C as C0. cdestr C0. destruct (Cfs c (or_introl eq_refl)) as (o & Ho & Ha & _).
  cbn [run_functor conns set_pending]. rewrite Ho, Ha. apply wpT_ret.
  assert (C1 : Cc None (alive s) (connection s) (conns s) r) by (eapply Cc_pop_neutral; [| |exact C]; intros; [reflexivity|discriminate]).
  eapply pop_post; eauto; [apply sameK_conns|split; [exact D|]].
  cbn. eapply Cc_upd; eauto; destruct o; cbn; auto; try tauto.
  destruct (Cst _ _ Ho Ha) as (S1 & _). exact S1.
Qed.

(* TcpConnection::shutdown() as called by TcpClient::disconnect() *)
Lemma conn_shutdown_I s c b :
  Kinv s -> Kdc s -> Cinv s -> connection s = Some c -> wpT (conn_shutdown s c b) (Post s).
Proof.
  intros K Kd [D C] Hcn. pose proof C as C0. cdestr C0. destruct (Ccn _ Hcn) as (o & Ho & Ha & Hl & Hb).
  unfold conn_shutdown. rewrite Ho.
  assert (P0 : Post s s) by (unfold Post; split; [exact K|split; [exact Kd|split; [split; [exact D|exact C]|auto]]]).
  destruct (cst o) eqn:Hs; try (apply wpT_ret; exact P0).
  assert (C1 : Cc None (alive s) (connection s) (upd (conns s) c (c_set_st CDisconnecting)) (pending s)).
  { eapply Cc_upd; eauto; destruct o; cbn in *; subst; auto; try discriminate. split; discriminate. }
  destruct b.
  - assert (Ho1 : nth_error (upd (conns s) c (c_set_st CDisconnecting)) c = Some (c_set_st CDisconnecting o)) by (rewrite nth_error_upd_same, Ho; reflexivity).
    assert (C2 : Cc None (alive s) (connection s) (upd (upd (conns s) c (c_set_st CDisconnecting)) c (c_set_fin true)) (pending s)).
    { eapply Cc_upd; eauto; destruct o; cbn in *; auto; try discriminate. tauto. }
    unfold Post. split; [eapply Kinv_same; eauto; eapply sameK_trans; apply sameK_conns|].
    split; [eapply Kdc_same; eauto; eapply sameK_trans; apply sameK_conns|]. split; [split; [exact D|exact C2]|cbn; auto].
  - apply wpT_ret.
    assert (Ho1 : nth_error (upd (conns s) c (c_set_st CDisconnecting)) c = Some (c_set_st CDisconnecting o)) by (rewrite nth_error_upd_same, Ho; reflexivity).
    assert (C2 : Cc None (alive s) (connection s) (upd (conns s) c (c_set_st CDisconnecting)) (pending s ++ [FShutdown c])).
    { eapply Cc_enq_fsh; eauto; destruct o; cbn in *; auto. }
    assert (SK : sameK s (enq (setc s c (c_set_st CDisconnecting)) (FShutdown c))) by (eapply sameK_trans; [apply sameK_conns|apply sameK_enq; reflexivity]).
    unfold Post. split; [eapply Kinv_same; eauto|split; [eapply Kdc_same; eauto|split; [split; [exact D|exact C2]|cbn; auto]]].
Qed.

(* ------------------------------------------------------------------ ~TcpClient on the loop thread *)
Definition PostD (s s' : st) : Prop :=
  Kinv s' /\ Kdc s' /\ Cinv s' /\ alive s' = false /\ xc s' = xc s /\ xs s' = xs s /\ xd s' = xd s.

Lemma existsb_has_k q : existsb is_kfunctor q = has_k q.
Proof. reflexivity. Qed.

Lemma destroy_I s :
  Kinv s -> Kdc s -> Cinv s -> Crefs s -> alive s = true -> xc s = false -> destroy_ok s = true ->
  wpT (destroy_rest s (connection s, match connection s with Some c => (refs s c =? 1)%nat | None => false end) true) (PostD s).
Proof.
  intros K Kd [D C] Cr Al Hx Hok. pose proof K as K0. kdestr K0.
  assert (Hd : k_dead s = false). { destruct (k_dead s) eqn:E; auto. destruct (Kkd eq_refl). congruence. }
  unfold destroy_rest. destruct (connection s) as [c|] eqn:Hcn.
  - (* with a connection: the Connector is released at once *)
    unfold destroy_ok in Hok. rewrite Hcn in Hok. cbn in Hok. rewrite existsb_has_k in Hok.
    assert (Hk : has_k (pending s) = false) by (destruct (has_k (pending s)); auto; discriminate).
    pose proof (has_k_count_rc _ Hk) as Hrc. pose proof (has_k_nstart _ Hk) as Hn.
    assert (Hs : k_state s = KConnected) by (apply Kcn; congruence).
    assert (Hc : k_chan s = None). { destruct (k_chan s) as [[i [|]]|]; auto; destruct Kch as [Kc1 Kc2]; try congruence; lia. }
    assert (Hr : nretry s = 0%nat). { destruct (nretry s) eqn:E; auto. assert (k_state s = KDisconnected) by (apply Krt; congruence). congruence. }
    assert (Ht : timers s = []). { specialize (Khk Al). rewrite Hr in Khk. destruct (timers s); auto; discriminate. }
    rewrite (refs_refsC _ _ D), Hcn.
    pose proof C as C0. cdestr C0. destruct (Ccn c eq_refl) as (o & Ho & Ha & Hl & Hb).
    pose proof (Cc_detach _ _ _ _ C) as C1.
    assert (Ho1 : nth_error (upd (conns s) c (c_set_cb CbDetached)) c = Some (c_set_cb CbDetached o)) by (rewrite nth_error_upd_same, Ho; reflexivity).
    destruct (refsC (Some c) (conns s) (pending s) c =? 1)%nat eqn:U.
    + unfold conn_forceClose. cbn [conns setc set_conns]. rewrite Ho1.
      assert (Hl1 : c_live (cst (c_set_cb CbDetached o)) = true) by (destruct o; auto). rewrite Hl1.
      assert (C2 : Cc (Some c) false None (upd (upd (conns s) c (c_set_cb CbDetached)) c (c_set_st CDisconnecting)) (pending s)).
      { eapply Cc_upd; eauto; destruct o; cbn in *; auto; try discriminate. split; intros; subst; discriminate. }
      assert (C3 : Cc None false None (upd (upd (conns s) c (c_set_cb CbDetached)) c (c_set_st CDisconnecting)) (pending s ++ [FForceClose c])).
      { apply (Cc_enq_ffc _ _ _ _ _ (c_set_st CDisconnecting (c_set_cb CbDetached o))); auto;
        try (rewrite nth_error_upd_same, Ho1; reflexivity); destruct o; auto. }
      cbn. unfold PostD. cbn. split; [|split; [apply Kdc_state; cbn; congruence|split; [split; [reflexivity|exact C3]|auto]]].
      split; cbn; rewrite ?count_rc_snoc, ?nstart_snoc, ?has_k_snoc, ?Hrc, ?Hn, ?Hk, ?Hc, ?Hx, ?Hd, ?Ht; cbn; kclause s.
    + assert (C2 : Cc None false None (upd (conns s) c (c_set_cb CbDetached)) (pending s)).
      { apply (Cc_ex_strengthen _ _ _ _ c); auto.
        rewrite refsC_upd by (intros x _; destruct x; reflexivity).
        pose proof (Cr _ _ Ho Ha) as R. rewrite Hcn in R. rewrite refsC_cn, Nat.eqb_refl in R.
        apply Nat.eqb_neq in U. rewrite refsC_cn, Nat.eqb_refl in U. lia. }
      cbn. unfold PostD. cbn. split; [|split; [apply Kdc_state; cbn; congruence|split; [split; [reflexivity|exact C2]|auto]]].
      split; cbn; rewrite ?Hrc, ?Hn, ?Hk, ?Hc, ?Hx, ?Hd, ?Ht; cbn; kclause s.
  - (* without: stop the connector, keep it alive for a second *)
    cbn. unfold PostD. cbn. split; [|split; [|split; [split; [reflexivity|]|auto]]].
    + split; cbn; rewrite ?count_rc_snoc, ?nstart_snoc, ?has_k_snoc, ?Hx, ?Hd; cbn; rewrite ?Nat.add_0_r; kclause s.
      * erewrite (nretry_hack s) by reflexivity. exact Krt.
      * erewrite (nretry_hack s) by reflexivity. exact Krt1.
      * intros [H|H]; [discriminate|]. destruct (Kxc (or_intror H)) as [Q Dl]. split; auto.
        rewrite quiet_spec in *. cbn. erewrite (nretry_hack s) by reflexivity. intuition.
      * intros _ _ E. destruct (timers s); discriminate.
    + unfold Kdc. cbn. intros _ _ _. apply in_or_app. right. left. reflexivity.
    + apply (Cc_al_false _ (alive s)). apply Cc_app_k; auto; try (intros f [<-|[]]; reflexivity); try (right; reflexivity).
Qed.

(* ------------------------------------------------------------------ gc, settle, finish *)
(* what gc leaves alone: everything but the connection objects' `alive` flags and the socket table *)
Definition gcsame (s s' : st) : Prop :=
  alive s' = alive s /\ connection s' = connection s /\ dsnap s' = dsnap s /\ pending s' = pending s /\
  k_dead s' = k_dead s /\ k_chan s' = k_chan s /\ k_state s' = k_state s /\ k_connect s' = k_connect s /\
  k_delay s' = k_delay s /\ timers s' = timers s /\ xc s' = xc s /\ xs s' = xs s /\ xd s' = xd s /\
  length (conns s') = length (conns s).
Lemma gcsame_refl s : gcsame s s.
Proof. unfold gcsame. repeat split; auto. Qed.
Lemma gcsame_trans s1 s2 s3 : gcsame s1 s2 -> gcsame s2 s3 -> gcsame s1 s3.
Proof. unfold gcsame. intuition congruence. Qed.
Lemma gcsame_sameK s s' : gcsame s s' -> sameK s s'.
Proof. unfold gcsame, sameK. intros (A1&A2&A3&A4&A5&A6&A7&A8&A9&A10&A11&A12&A13&A14). rewrite A4, A2. repeat split; auto. Qed.

Lemma gc_from_I n : forall c s,
  Cinv s -> (forall c' o, (c' < c)%nat -> nth_error (conns s) c' = Some o -> calive o = true -> (1 <= refsC (connection s) (conns s) (pending s) c')%nat) ->
  wpT (gc_from n c s) (fun s' => Cinv s' /\ gcsame s s' /\
     (forall c' o, (c' < c + n)%nat -> nth_error (conns s') c' = Some o -> calive o = true -> (1 <= refsC (connection s') (conns s') (pending s') c')%nat)).
Proof.
  induction n as [|n IH]; intros c s [D C] Hlt; cbn [gc_from].
  - apply wpT_ret. split; [split; auto|]. split; [apply gcsame_refl|]. intros c' o L. apply Hlt. lia.
  - destruct (nth_error (conns s) c) as [o|] eqn:Ho.
    + destruct (calive o && (refs s c =? 0)%nat) eqn:G.
      * apply andb_prop in G. destruct G as [Ga Gz]. apply Nat.eqb_eq in Gz. rewrite (refs_refsC _ _ D) in Gz.
        destruct (Cc_kill _ _ _ _ _ _ Ho Ga Gz C) as (Hs & Hg & C').
        rewrite Hs, Hg. apply wpT_bind_some.
        set (s1 := set_socks (setc s c (c_set_alive false)) (upd (socks s) (csock o) conn_close_state)).
        assert (R : forall c', refsC (connection s1) (conns s1) (pending s1) c' = refsC (connection s) (conns s) (pending s) c').
        { intros c'. cbn. apply refsC_upd. intros x _. destruct x; reflexivity. }
        eapply wpT_mono; [|apply (IH (S c) s1)].
        -- intros s' (C2 & G2 & H2). split; auto. split.
           ++ eapply gcsame_trans; [|exact G2]. unfold gcsame. cbn. rewrite length_upd. repeat split; auto.
           ++ intros c' o' L. apply H2. lia.
        -- split; [exact D|exact C'].
        -- intros c' o' L. rewrite R. cbn. rewrite nth_error_upd. destruct (Nat.eq_dec c c') as [<-|Ne].
           ++ rewrite Ho. cbn. intros [= <-]. destruct o; cbn. discriminate.
           ++ intros H A. apply (Hlt c' o'); auto. lia.
      * eapply wpT_mono; [|apply (IH (S c) s); [split; auto|]].
        -- intros s' (C2 & G2 & H2). split; auto. split; auto. intros c' o' L. apply H2. lia.
        -- intros c' o' L H A. destruct (Nat.eq_dec c' c) as [->|Ne]; [|apply (Hlt c' o'); auto; lia].
           rewrite Ho in H. injection H as <-. rewrite A in G. cbn in G. apply Nat.eqb_neq in G. rewrite (refs_refsC _ _ D) in G. lia.
    + apply wpT_ret. split; [split; auto|]. split; [apply gcsame_refl|].
      intros c' o' L H. assert (c' < length (conns s))%nat by (eapply nth_error_lt; eauto).
      assert (length (conns s) <= c)%nat by (apply nth_error_None; auto). apply Hlt; auto. lia.
Qed.

Definition Xinv (s : st) : Prop := alive s = false -> xc s = false /\ xs s = false /\ xd s = false.
Definition Inv (s : st) : Prop := Kinv s /\ Kdc s /\ Ksettled s /\ Cinv s /\ Crefs s /\ Xinv s.
Definition Inv0 (s : st) : Prop := Kinv s /\ Kdc s /\ Cinv s /\ Xinv s.

Lemma finish_I m : wpT m Inv0 -> wpT (finish m) Inv.
Proof.
  intros H. unfold finish. apply wpT_bind. apply wpT_bind. eapply wpT_mono; [|exact H].
  intros s (K & Kd & C & X). unfold gc.
  eapply wpT_mono; [|apply gc_from_I; [exact C|intros c' o L; lia]].
  intros s1 (C1 & G & R).
  assert (SK : sameK s s1) by (apply gcsame_sameK; auto).
  assert (K1 : Kinv s1) by (eapply Kinv_same; eauto).
  assert (Kd1 : Kdc s1) by (eapply Kdc_same; eauto).
  assert (Cr1 : Crefs s1). { intros c o Ho Ha. apply (R c o); auto. cbn. destruct G as (_&_&_&_&_&_&_&_&_&_&_&_&_&GL). rewrite <- GL. eapply nth_error_lt; eauto. }
  assert (X1 : Xinv s1). { destruct G as (A1&_&_&_&_&_&_&_&_&_&A11&A12&A13&_). unfold Xinv. rewrite A1, A11, A12, A13. exact X. }
  unfold settle.
  destruct (negb (alive s1) && negb (k_dead s1) && (length (timers s1) =? 0)%nat && negb (existsb is_addhack (pending s1))) eqn:E.
  - apply andb_prop in E. destruct E as [E E4]. apply andb_prop in E. destruct E as [E E3]. apply andb_prop in E. destruct E as [E1 E2].
    assert (A : alive s1 = false) by (destruct (alive s1); auto; discriminate).
    assert (Dd : k_dead s1 = false) by (destruct (k_dead s1); auto; discriminate).
    assert (T : timers s1 = []) by (destruct (timers s1); auto; discriminate).
    pose proof K1 as K0. kdestr K0. pose proof (Ks0 A Dd T) as Hk.
    assert (Hc : k_chan s1 = None).
    { pose proof (has_k_count_rc _ Hk) as Hrc. destruct (k_chan s1) as [[i [|]]|]; auto; destruct Kch as [Kc1 Kc2]; try lia.
      exfalso. apply (has_k_no_stop _ Hk). apply Kd1; auto. }
    rewrite Hc. apply wpT_ret. unfold Inv. split; [|split; [|split; [|split; [exact C1|split; [exact Cr1|exact X1]]]]].
    + split; cbn; rewrite ?Hc, ?A, ?T, ?Hk; auto; try congruence.
      rewrite Hc in Kch. exact Kch.
    + unfold Kdc. cbn. congruence.
    + unfold Ksettled. cbn. auto.
  - apply wpT_ret. unfold Inv. split; [exact K1|split; [exact Kd1|split; [|split; [exact C1|split; [exact Cr1|exact X1]]]]].
    unfold Ksettled. intros A T. rewrite A, T in E. cbn in E. destruct (k_dead s1); auto. cbn in E.
    destruct C1 as [_ C1]. destruct C1 as [Cna _ _ _ _ _ _ _ _ _ _ _].
    assert (existsb is_addhack (pending s1) = false); [|rewrite H0 in E; discriminate].
    destruct (existsb is_addhack (pending s1)) eqn:EE; auto. apply existsb_exists in EE. destruct EE as (f & Hf & Hh).
    specialize (Cna _ Hf). destruct f; cbn in *; discriminate.
Qed.

(* ------------------------------------------------------------------ assembling the step *)
Lemma post_inv0 s s' : Xinv s -> Post s s' -> Inv0 s'.
Proof.
  intros X (K & Kd & C & E1 & E2 & E3 & E4). unfold Inv0. split; [exact K|split; [exact Kd|split; [exact C|]]]. unfold Xinv in *. rewrite E1, E2, E3, E4. exact X.
Qed.

Lemma Cc_map ex al cn cs q f :
  (forall o, cst (f o) = cst o /\ calive (f o) = calive o /\ creg (f o) = creg o /\ ccb (f o) = ccb o /\ cuser (f o) = cuser o) ->
  (cn = None \/ count_rc q = 0%nat) ->
  Cc ex al cn cs q -> Cc ex al cn (map f cs) q.
Proof.
  intros Hf Hz C. cdestr C.
  assert (N : forall c o', nth_error (map f cs) c = Some o' -> exists o, nth_error cs c = Some o /\ o' = f o).
  { intros c o'. rewrite nth_error_map. destruct (nth_error cs c) as [o|]; cbn; [intros [= <-]; eauto|discriminate]. }
  assert (R : forall c, refsC cn (map f cs) q c = refsC cn cs q c).
  { intros c. unfold refsC. rewrite nth_error_map. destruct (nth_error cs c) as [o|]; cbn; auto. destruct (Hf o) as (_&_&_&_&->). auto. }
  split; auto.
  - intros c E. destruct (Ccn _ E) as (o & H1 & H2 & H3 & H4). exists (f o). rewrite nth_error_map, H1. cbn.
    destruct (Hf o) as (-> & -> & _ & -> & _). auto.
  - intros c o' H. destruct (N _ _ H) as (o & H1 & ->). destruct (Hf o) as (-> & -> & _ & -> & _). apply (Ccb _ _ H1).
  - intros c o' H. destruct (N _ _ H) as (o & H1 & ->). destruct (Hf o) as (-> & -> & -> & _ & ->). apply (Cst _ _ H1).
  - intros c o' H. destruct (N _ _ H) as (o & H1 & ->). destruct (Hf o) as (-> & -> & -> & _ & _). apply (Cdr _ _ H1).
  - intros c o' H. rewrite R. destruct (N _ _ H) as (o & H1 & ->). destruct (Hf o) as (-> & -> & -> & _ & _). apply (Crf _ _ H1).
  - intros c o' H. rewrite R. destruct (N _ _ H) as (o & H1 & ->). destruct (Hf o) as (_ & -> & _). apply (Cdd _ _ H1).
  - intros c Hi. destruct (Cff _ Hi) as (o & H1 & H2). exists (f o). rewrite nth_error_map, H1. cbn. destruct (Hf o) as (_&_&_& -> &_). auto.
  - intros c Hi. destruct (Cfd _ Hi) as (o & H1 & H2). exists (f o). rewrite nth_error_map, H1. cbn. destruct (Hf o) as (-> &_). auto.
  - intros c Hi. destruct (Cfs _ Hi) as (o & H1 & H2 & H3). exists (f o). rewrite nth_error_map, H1. cbn. destruct (Hf o) as (-> & -> &_). auto.
  - intros c o' E H F0. destruct Hz as [Hz|Hz]; [congruence|exact Hz].
Qed.

Lemma run_functor_I s f r :
  Inv s -> pending s = f :: r -> wpT (run_functor (set_pending s r) f) Inv0.
Proof.
  intros (K & Kd & St & C & Cr & X) Hp.
  destruct f.
  - eapply (wpT_mono _ (Post s)); [intros s' P; eapply post_inv0; eauto|]. apply run_FStart_I; auto.
  - eapply (wpT_mono _ (Post s)); [intros s' P; eapply post_inv0; eauto|]. apply run_FStop_I; auto.
  - eapply (wpT_mono _ (Post s)); [intros s' P; eapply post_inv0; eauto|]. apply run_FReset_I; auto.
  - eapply (wpT_mono _ (Post s)); [intros s' P; eapply post_inv0; eauto|]. apply run_FConnDestroyed_I; auto.
  - eapply (wpT_mono _ (Post s)); [intros s' P; eapply post_inv0; eauto|]. apply run_FForceClose_I; auto.
  - exfalso. destruct C as [_ C]. destruct C as [Cna _ _ _ _ _ _ _ _ _ _ _]. specialize (Cna (FSetCloseCb c)). rewrite Hp in Cna. specialize (Cna (or_introl eq_refl)). discriminate.
  - eapply (wpT_mono _ (Post s)); [intros s' P; eapply post_inv0; eauto|]. apply run_FShutdown_I; auto.
  - exfalso. destruct C as [_ C]. destruct C as [Cna _ _ _ _ _ _ _ _ _ _ _]. specialize (Cna (FAddHack due)). rewrite Hp in Cna. specialize (Cna (or_introl eq_refl)). discriminate.
Qed.

Lemma run_one_I s : Inv s -> wpT (run_one s) Inv.
Proof.
  intros I. unfold run_one. destruct (pending s) as [|f r] eqn:Hp; [apply wpT_ret; auto|].
  apply finish_I. apply run_functor_I; auto.
Qed.

Lemma run_n_I n : forall s, Inv s -> wpT (run_n n s) Inv.
Proof.
  induction n as [|n IH]; intros s I; cbn [run_n]; [apply wpT_ret; auto|].
  apply wpT_bind. eapply wpT_mono; [|apply run_one_I; auto]. intros s1 I1. apply IH; auto.
Qed.

(* ---- find_down / find_user *)
Lemma find_down_spec l : forall i acc c,
  find_down l i acc = Some c ->
  acc = Some c \/ exists o, nth_error l (c - i) = Some o /\ (i <= c)%nat /\ calive o = true /\ creg o = true /\ c_live (cst o) = true /\ cfresh o = false.
Proof.
  induction l as [|x r IH]; intros i acc c; cbn; auto.
  intros H. apply IH in H. destruct H as [H|(o & H1 & H2 & H3)].
  - destruct (calive x && creg x && c_live (cst x) && negb (cfresh x)) eqn:E; auto. injection H as <-. right.
    exists x. rewrite Nat.sub_diag. cbn. apply andb_prop in E. destruct E as [E E4]. apply andb_prop in E. destruct E as [E E3]. apply andb_prop in E. destruct E.
    repeat split; auto. destruct (cfresh x); auto; discriminate.
  - right. exists o. destruct (c - i)%nat as [|k] eqn:Ek; [lia|]. cbn. replace k with (c - S i)%nat by lia. repeat split; auto; try lia; tauto.
Qed.
Lemma find_user_none l : forall i, find_user l i = None -> forall c o, nth_error l c = Some o -> cuser o = 0%nat.
Proof.
  induction l as [|x r IH]; intros i H [|c] o; cbn [find_user nth_error] in *; try discriminate.
  - intros [= <-]. destruct (Nat.ltb_spec 0 (cuser x)); [discriminate H|lia].
  - destruct (0 <? cuser x)%nat; [discriminate H|]. eapply IH; eauto.
Qed.
Lemma find_user_some l : forall i c, find_user l i = Some c -> exists o, nth_error l (c - i) = Some o /\ (i <= c)%nat /\ (0 < cuser o)%nat.
Proof.
  induction l as [|x r IH]; intros i c; cbn [find_user]; [discriminate|].
  destruct (Nat.ltb_spec 0 (cuser x)) as [E|E].
  - intros [= <-]. exists x. rewrite Nat.sub_diag. cbn. auto.
  - intros H. destruct (IH _ _ H) as (o & H1 & H2 & H3). exists o. destruct (c - i)%nat as [|k] eqn:Ek; [lia|]. cbn. replace k with (c - S i)%nat by lia. auto with arith.
Qed.

(* ------------------------------------------------------------------ timers *)
Lemma sameC_trans_nil s1 s2 s3 : sameC s1 s2 [] -> sameC s2 s3 [] -> sameC s1 s3 [].
Proof.
  unfold sameC. rewrite !app_nil_r. intros (A1&A2&A3&A4&A5&A6&A7&A8&A9&A10&A11) (B1&B2&B3&B4&B5&B6&B7&B8&B9&B10&B11).
  repeat split; congruence.
Qed.

Lemma fire_all_I l : forall s, Kinv s -> Kdc s -> k_dead s = false ->
  (length (filter is_retry_timer l) <= 1)%nat ->
  (length (filter is_retry_timer l) <> 0%nat -> k_state s = KDisconnected /\
     (k_connect s = true -> alive s = true /\ k_chan s = None /\ nretry s = 0%nat /\ xc s = false /\ nstart (pending s) = 0%nat /\ connection s = None)) ->
  wpT (fire_all l s) (fun s' => Kinv s' /\ Kdc s' /\ sameC s s' []).
Proof.
  induction l as [|[d k] r IH]; intros s K Kd Hd Hle Hpre; cbn [fire_all].
  - apply wpT_ret. split; auto. split; auto. unfold sameC. rewrite app_nil_r. repeat split; auto.
  - apply wpT_bind. unfold fire. cbn [snd]. destruct k; cbn [filter is_retry_timer snd length] in Hle, Hpre.
    + destruct Hpre as [Hs Hk]; [lia|].
      eapply wpT_mono; [|apply startInLoop_K; auto].
      intros s' (K' & Kd' & SC).
      eapply wpT_mono; [|apply (IH s'); auto].
      * intros s'' (K2 & Kd2 & SC2). split; auto. split; auto. eapply sameC_trans_nil; eauto.
      * destruct SC as (_&_&_&_&_&E&_). congruence.
      * lia.
      * intros N. lia.
    + apply (IH s); auto.
Qed.

Lemma filter_len_split {A} (p q : A -> bool) l :
  length (filter p l) = (length (filter p (filter q l)) + length (filter p (filter (fun x => negb (q x)) l)))%nat.
Proof. induction l as [|x r IH]; cbn; auto. destruct (q x); cbn; destruct (p x); cbn; lia. Qed.
Lemma filter_len_insert p x l : length (filter p (insert_due x l)) = length (filter p (x :: l)).
Proof.
  induction l as [|y r IH]; cbn; auto. destruct (fst x <? fst y); cbn; auto.
  cbn in IH. destruct (p y); cbn; rewrite IH; destruct (p x); cbn; lia.
Qed.
Lemma filter_len_sort p l : length (filter p (sort_due l)) = length (filter p l).
Proof.
  unfold sort_due. induction l as [|x r IH]; cbn; auto. rewrite filter_len_insert. cbn. destruct (p x); cbn; lia.
Qed.
Lemma filter_len_le {A} (p : A -> bool) l : (length (filter p l) <= length l)%nat.
Proof. induction l as [|y r IH]; cbn; auto. destruct (p y); cbn; lia. Qed.
Lemma filter_all {A} (p : A -> bool) l : length (filter p l) = length l -> forall x, In x l -> p x = true.
Proof.
  induction l as [|y r IH]; cbn; [tauto|]. pose proof (filter_len_le p r). destruct (p y) eqn:E; cbn; intros H0 x [<-|Hi]; auto; try lia.
Qed.
Lemma filter_all_len {A} (p : A -> bool) l : (forall x, In x l -> p x = true) -> length (filter p l) = length l.
Proof.
  induction l as [|y r IH]; cbn; auto. intros H. rewrite (H y); auto. cbn. rewrite IH; auto.
Qed.
Lemma min_due_nonempty l t : min_due l = Some t -> l <> [].
Proof. destruct l; cbn; [discriminate|congruence]. Qed.

Lemma TimerFire_I s t0 :
  Inv s -> timely s = true -> min_due (timers s) = Some t0 ->
  let now' := Z.max (now s) t0 in
  wpT (fire_all (sort_due (filter (fun t => fst t <=? now') (timers s)))
                (set_now (set_timers s (filter (fun t => now' <? fst t) (timers s))) now')) Inv0.
Proof.
  intros (K & Kd & St & C & Cr & X) Ht Hm now'.
  set (rem := filter (fun t => now' <? fst t) (timers s)).
  set (exp := filter (fun t => fst t <=? now') (timers s)).
  set (s1 := set_now (set_timers s rem) now').
  pose proof K as K0. kdestr K0.
  assert (Tne : timers s <> []) by (eapply min_due_nonempty; eauto).
  assert (Hd : k_dead s = false). { destruct (k_dead s) eqn:E; auto. destruct (Kkd eq_refl) as (_ & T & _). congruence. }
  unfold timely in Ht. rewrite Hm in Ht. apply andb_prop in Ht. destruct Ht as [Ht1 Ht2].
  assert (Hrc : count_rc (pending s) = 0%nat). { apply existsb_count_rc. destruct (existsb is_FReset (pending s)); auto; discriminate. }
  assert (Erem : rem = filter (fun t => negb (fst t <=? now')) (timers s)).
  { unfold rem. apply filter_ext. intros t. rewrite Z.leb_antisym. rewrite negb_involutive. reflexivity. }
  assert (Hsplit : nretry s = (length (filter is_retry_timer exp) + nretry s1)%nat).
  { unfold nretry. cbn. rewrite Erem. apply filter_len_split. }
  assert (K1 : Kinv s1).
  { split; cbn; auto.
    - intros N. apply Krt. lia.
    - lia.
    - intros A. specialize (Khk A). pose proof (filter_all _ _ Khk) as All.
      unfold nretry. cbn. apply filter_all_len. intros x Hx. apply All. unfold rem in Hx. apply filter_In in Hx. tauto.
    - intros D. congruence.
    - intros H. destruct (Kxc H) as [Q Dl]. split; auto. rewrite quiet_spec in *. cbn. intuition; lia.
    - intros A D T. rewrite A in Ht2. cbn in Ht2. rewrite existsb_has_k in Ht2.
      destruct (has_k (pending s)); auto. cbn in Ht2. fold rem in Ht2.
      assert (existsb (fun t => Z.max (now s) t0 <? fst t) (timers s) = false); [|congruence].
      destruct (existsb (fun t => Z.max (now s) t0 <? fst t) (timers s)) eqn:EE; auto.
      apply existsb_exists in EE. destruct EE as (x & Hx1 & Hx2).
      assert (In x rem) by (apply filter_In; auto). cbn in T. rewrite T in H. destruct H. }
  assert (Kd1 : Kdc s1) by exact Kd.
  eapply (wpT_mono _ (fun s' => Kinv s' /\ Kdc s' /\ sameC s1 s' [])).
  - intros s' (K' & Kd' & SC).
    assert (C1 : Cinv s1) by exact C.
    pose proof (sameC_post _ _ _ K' Kd' SC nil_neutral (or_intror eq_refl) C1) as P.
    eapply (post_inv0 s); auto; unfold Post in *; cbn in P; exact P.
  - apply fire_all_I; auto.
    + rewrite filter_len_sort. fold exp. lia.
    + rewrite filter_len_sort. fold exp. intros N.
      assert (Nr : nretry s <> 0%nat) by lia.
      assert (Hs : k_state s = KDisconnected) by auto.
      split; auto. cbn. intros Hk.
      assert (Al : alive s = true). { destruct (alive s) eqn:A; auto. specialize (Kdk eq_refl Hd Tne). congruence. }
      assert (Hc : k_chan s = None). { destruct (k_chan s) as [[i [|]]|]; auto; destruct Kch as [Kc1 Kc2]; try congruence; lia. }
      assert (Hcn : connection s = None). { destruct (connection s) eqn:E; auto. assert (k_state s = KConnected) by (apply Kcn; congruence). congruence. }
      assert (Hx : xc s = false /\ nstart (pending s) = 0%nat).
      { destruct (xc s) eqn:Xc.
        - destruct (Kxc (or_introl eq_refl)) as [Q _]. apply quiet_spec in Q. tauto.
        - split; auto. destruct (nstart (pending s)) eqn:Ns; auto.
          destruct (Kxc (or_intror (Nat.neq_succ_0 _))) as [Q _]. apply quiet_spec in Q. tauto. }
      repeat split; try tauto. lia.
Qed.

(* ------------------------------------------------------------------ what one functor does to the queue and to connection_:
   needed to show that a whole batch (RunPending) runs every resetChannel that was queued while a connection is up *)
Lemma startInLoop_eff s s' ev : startInLoop s = Some (s', ev) -> pending s' = pending s /\ connection s' = connection s.
Proof.
  unfold startInLoop. destruct (negb _); [discriminate|]. destruct (k_connect s); [|intros [= <- _]; auto].
  unfold connect_. cbn [kq set_socks].
  assert (X : forall e s0, pending s0 = pending s -> connection s0 = connection s ->
     bind (Some (s0, [EvAttempt (length (socks s)) e]))
       (fun s1 => match classify e with
                  | ActConnecting => connecting s1 (length (socks s)) | ActRetry => retry s1 (length (socks s))
                  | ActClose => do_close s1 (length (socks s)) | ActLeak => ret s1 end) = Some (s', ev) ->
     pending s' = pending s /\ connection s' = connection s).
  { intros e s0 E1 E2 H. apply bind_some_inv' in H. destruct H as (rest & H & _). destruct (classify e).
    - unfold connecting in H. cbn in H. destruct (k_chan s0); [discriminate|]. injection H as <- _. cbn. auto.
    - unfold retry, do_close in H. cbn in H. destruct (k_connect s0); injection H as <- _; cbn; auto.
    - unfold do_close in H. injection H as <- _. cbn. auto.
    - injection H as <- _. auto. }
  destruct (kq s) as [|e r]; apply X; reflexivity.
Qed.

Lemma retry_unreg_eff s i (b : bool) st0 s' ev :
  retry (enq (set_k_chan (if b then set_k_state s st0 else s) (Some (i, false))) FResetChannel) i = Some (s', ev) ->
  pending s' = pending s ++ [FResetChannel] /\ connection s' = connection s.
Proof. unfold retry, do_close. destruct b; cbn; destruct (k_connect s); intros [= <- _]; cbn; auto. Qed.

Lemma stopInLoop_eff s s' ev : stopInLoop s = Some (s', ev) ->
  connection s' = connection s /\ (pending s' = pending s \/ (k_state s = KConnecting /\ pending s' = pending s ++ [FResetChannel])).
Proof.
  unfold stopInLoop. destruct (kstate_eqb (k_state s) KConnecting) eqn:E; [|intros [= <- _]; auto].
  assert (Hs : k_state s = KConnecting) by (destruct (k_state s); cbn in E; congruence).
  unfold removeAndResetChannel. change (k_chan (set_k_state s KDisconnected)) with (k_chan s).
  destruct (k_chan s) as [[i [|]]|]; try discriminate. intros H. apply (retry_unreg_eff s i true KDisconnected) in H. destruct H. auto.
Qed.

Lemma restart_eff s s' ev : restart s = Some (s', ev) -> pending s' = pending s /\ connection s' = connection s.
Proof. unfold restart. intros H. apply bind_some_inv' in H. destruct H as (rest & H & _). apply startInLoop_eff in H. cbn in H. exact H. Qed.

Lemma handleClose_eff s c s' ev : handleClose s c = Some (s', ev) ->
  exists app, pending s' = pending s ++ app /\ count_rc app = 0%nat /\ (connection s' = connection s \/ connection s' = None).
Proof.
  unfold handleClose. destruct (nth_error (conns s) c) as [o|]; [|discriminate]. intros H. apply bind_some_inv' in H. destruct H as (rest & H & _).
  destruct (ccb o).
  - unfold removeConnection in H. destruct (negb _); [discriminate|]. cbn [connection setc set_conns] in H.
    destruct (connection s) as [c'|]; [|discriminate]. destruct (negb _); [discriminate|].
    destruct (_ && _).
    + apply restart_eff in H. cbn in H. destruct H as [H1 H2]. exists [FConnDestroyed c]. auto.
    + injection H as <- _. cbn. exists [FConnDestroyed c]. auto.
  - injection H as <- _. cbn. exists [FConnDestroyed c]. auto.
Qed.

Lemma gc_from_eff n : forall c s s' ev, gc_from n c s = Some (s', ev) -> pending s' = pending s /\ connection s' = connection s.
Proof.
  induction n as [|n IH]; intros c s s' ev; cbn [gc_from]; [intros [= <- _]; auto|].
  destruct (nth_error (conns s) c) as [o|]; [|intros [= <- _]; auto]. destruct (_ && _); [|apply IH].
  destruct (cst o); try discriminate. destruct (creg o); [discriminate|]. intros H. apply bind_some_inv' in H. destruct H as (rest & H & _).
  apply IH in H. cbn in H. exact H.
Qed.
Lemma finish_eff m s' ev' : finish m = Some (s', ev') -> exists s0 ev0, m = Some (s0, ev0) /\ pending s' = pending s0 /\ connection s' = connection s0.
Proof.
  unfold finish, bind. destruct m as [[s0 ev0]|]; [|discriminate]. unfold gc. destruct (gc_from _ _ s0) as [[s1 e1]|] eqn:G; [|discriminate].
  apply gc_from_eff in G. destruct G as [G1 G2]. unfold settle. destruct (_ && _ && _ && _).
  - destruct (k_chan s1); [discriminate|]. cbn. intros [= <- _]. exists s0, ev0. cbn. auto.
  - cbn. intros [= <- _]. exists s0, ev0. auto.
Qed.

(* one functor: the rest of the queue plus what it appended; if connection_ is set afterwards it was set before and no
   resetChannel was appended *)
Definition eff1 (s s' : st) : Prop :=
  (pending s = [] /\ s' = s) \/
  exists f r app, pending s = f :: r /\ pending s' = r ++ app /\ (connection s' <> None -> connection s <> None /\ count_rc app = 0%nat).

Lemma run_one_eff s s' ev : Kinv s -> run_one s = Some (s', ev) -> eff1 s s'.
Proof.
  intros K. unfold run_one. destruct (pending s) as [|f r] eqn:Hp; [intros [= <- _]; left; auto|].
  intros H. apply finish_eff in H. destruct H as (s0 & ev0 & H & P & Cn). right. exists f, r.
  assert (X : exists app, pending s0 = r ++ app /\ (connection s0 <> None -> connection s <> None /\ count_rc app = 0%nat)).
  { destruct f; cbn [run_functor] in H.
    - destruct (k_dead _); [discriminate|]. apply bind_some_inv' in H. destruct H as (rest & H & _). apply startInLoop_eff in H. cbn in H.
      destruct H as [H1 H2]. exists []. rewrite app_nil_r, H2. auto.
    - destruct (k_dead _); [discriminate|]. apply stopInLoop_eff in H. cbn in H. destruct H as [H2 [H1|[Hs H1]]].
      + exists []. rewrite app_nil_r, H2. auto.
      + exists [FResetChannel]. rewrite H2. split; auto. intros N. exfalso.
        destruct K as [_ Kcn _ _ _ _ _ _ _ _]. specialize (Kcn N). congruence.
    - destruct (k_dead _); [discriminate|]. injection H as <- _. cbn. exists []. rewrite app_nil_r. auto.
    - destruct (nth_error _ c) as [o|]; [|discriminate]. destruct (c_live _); injection H as <- _; cbn; exists []; rewrite app_nil_r; auto.
    - destruct (nth_error _ c) as [o|]; [|discriminate]. destruct (c_live _).
      + apply handleClose_eff in H. cbn in H. destruct H as (app & H1 & H2 & [H3|H3]); exists app; rewrite H3; split; auto; congruence.
      + injection H as <- _. cbn. exists []. rewrite app_nil_r. auto.
    - injection H as <- _. cbn. exists []. rewrite app_nil_r. auto.
    - destruct (nth_error _ c) as [o|]; [|discriminate]. destruct (calive o); [|discriminate]. injection H as <- _. cbn. exists []. rewrite app_nil_r. auto.
    - injection H as <- _. cbn. exists []. rewrite app_nil_r. auto. }
  destruct X as (app & X1 & X2). exists app. rewrite P, Cn. auto.
Qed.

Lemma count_rc_skipn_le b : forall k, (count_rc (skipn k b) <= count_rc b)%nat.
Proof.
  induction b as [|y r IH]; intros [|k]; cbn [skipn]; auto. rewrite (count_rc_cons r y). specialize (IH k). lia.
Qed.
Lemma count_rc_skipn_app a b : forall k, (count_rc (skipn k (a ++ b)) <= count_rc (skipn k a) + count_rc b)%nat.
Proof.
  induction a as [|x r IH]; intros k.
  - rewrite skipn_nil. cbn [app]. pose proof (count_rc_skipn_le b k). unfold count_rc at 2. cbn. lia.
  - destruct k as [|k]; cbn [skipn app].
    + change (x :: r ++ b) with ((x :: r) ++ b). rewrite count_rc_app. lia.
    + apply IH.
Qed.

(* a batch of n functors: every resetChannel queued within the first n positions has run; none was appended while a
   connection is up *)
Lemma run_n_batch n : forall s, Inv s -> (connection s <> None -> count_rc (skipn n (pending s)) = 0%nat) ->
  wpT (run_n n s) (fun s' => Inv s' /\ (connection s' <> None -> count_rc (pending s') = 0%nat)).
Proof.
  induction n as [|n IH]; intros s I B; cbn [run_n]; [apply wpT_ret; auto|].
  pose proof (run_one_I s I) as W. destruct I as (K & I').
  apply wpT_bind. destruct (run_one s) as [[s1 e1]|] eqn:E; [|exact W]. cbn in W |- *.
  apply IH; auto. intros N. destruct (run_one_eff _ _ _ K E) as [[P ->]|(f & r & app & P & P1 & P2)].
  - rewrite P in *. destruct n; reflexivity.
  - destruct (P2 N) as [N0 Z]. specialize (B N0). rewrite P in B. cbn in B. rewrite P1.
    pose proof (count_rc_skipn_app r app n). lia.
Qed.

(* ------------------------------------------------------------------ one op *)
Lemma existsb_nstart q : existsb is_FStart q = false -> nstart q = 0%nat.
Proof.
  unfold nstart. induction q as [|f r IH]; cbn; auto. intros H. apply orb_false_elim in H. destruct H as [-> H]. auto.
Qed.
Lemma api_ok s : user_api_ok s = true -> alive s = true /\ dsnap s = None.
Proof. unfold user_api_ok. intros H. apply andb_prop in H. destruct H as [H1 H2]. split; auto. destruct (dsnap s); auto; discriminate. Qed.
Lemma negb_false_true b : negb b = false -> b = true.
Proof. destruct b; auto. Qed.

Ltac flagK K := (eapply Kinv_same; [exact K|unfold sameK; cbn; repeat split; auto]).
Ltac inv0 K Kd C X := unfold Inv0; split; [|split; [|split; [|try exact X]]].

Lemma step_core_I s o : Inv s -> contract s o = true ->
  match step_core s o with Some m => wpT m Inv0 | None => True end.
Proof.
  intros HI Hc. pose proof HI as (K & Kd & St & C & Cr & X).
  assert (P0 : forall s', Post s s' -> Inv0 s') by (intros s'; apply post_inv0; auto).
  assert (Hnd : alive s = true -> k_dead s = false).
  { intros A. destruct (k_dead s) eqn:E; auto. destruct K as [_ _ _ _ _ _ Kkd _ _ _]. destruct (Kkd E). congruence. }
  destruct o; cbn [step_core].
  - (* Connect *)
    destruct (negb (user_api_ok s)) eqn:U; [exact I|]. apply negb_false_true in U. destruct (api_ok _ U) as [Al _].
    cbn in Hc. unfold idle in Hc. apply andb_prop in Hc. destruct Hc as [Hc H4]. apply andb_prop in Hc. destruct Hc as [Hc H3].
    apply andb_prop in Hc. destruct Hc as [H1 H2]. apply quiet_spec in H1. destruct H1 as (Q1 & Q2 & Q3 & Q4).
    apply wpT_bind_some.
    set (s1 := set_k_connect (set_c_connect s true) true).
    assert (K1 : Kinv s1). { pose proof K as K0. kdestr K0. split; cbn; auto. intros A. congruence. }
    eapply wpT_mono; [|apply startInLoop_K; auto].
    + intros s' (K' & Kd' & SC). apply P0. assert (C1 : Cinv s1) by exact C.
      pose proof (sameC_post _ _ _ K' Kd' SC nil_neutral (or_intror eq_refl) C1) as P. unfold Post in *. cbn in P. exact P.
    + intros _. cbn. repeat split; auto. destruct (xc s); auto; discriminate.
      apply existsb_nstart. destruct (existsb is_FStart (pending s)); auto; discriminate.
  - (* Disconnect *)
    destruct (negb (user_api_ok s)) eqn:U; [exact I|].
    set (s1 := set_c_connect s false).
    assert (K1 : Kinv s1) by flagK K.
    destruct (connection s1) as [c|] eqn:Hcn.
    + eapply wpT_mono; [|apply (conn_shutdown_I s1 c true); auto; exact C].
      intros s' P. apply P0. unfold Post in *. cbn in P. exact P.
    + apply wpT_ret. inv0 K Kd C X; auto; exact C.
  - (* Stop *)
    destruct (negb (user_api_ok s)) eqn:U; [exact I|]. apply negb_false_true in U. destruct (api_ok _ U) as [Al _].
    cbn. inv0 K Kd C X.
    + pose proof K as K0. kdestr K0. split; cbn; rewrite ?count_rc_snoc, ?nstart_snoc, ?has_k_snoc; cbn; rewrite ?Nat.add_0_r; auto; try congruence;
        try (intros D; specialize (Hnd Al); congruence).
    + apply Kdc_alive. exact Al.
    + destruct C as [D C]. split; [exact D|]. cbn. apply Cc_app_k; auto; try (intros f [<-|[]]; reflexivity); try (right; reflexivity).
  - (* EnableRetry *)
    destruct (negb (user_api_ok s)) eqn:U; [exact I|]. apply wpT_ret. inv0 K Kd C X; [flagK K|exact Kd|exact C].
  - (* Destroy *)
    destruct (negb (user_api_ok s) || xc s || xs s || xd s) eqn:U; [exact I|].
    apply orb_false_elim in U. destruct U as [U U4]. apply orb_false_elim in U. destruct U as [U U3]. apply orb_false_elim in U. destruct U as [U U2].
    apply negb_false_true in U. destruct (api_ok _ U) as [Al _].
    eapply wpT_mono; [|apply destroy_I; auto].
    intros s' (K' & Kd' & C' & E1 & E2 & E3 & E4). unfold Inv0. split; [exact K'|split; [exact Kd'|split; [exact C'|]]].
    unfold Xinv. intros _. repeat split; congruence.
  - (* XConnectFlags *)
    destruct (negb (user_api_ok s) || xc s) eqn:U; [exact I|].
    apply orb_false_elim in U. destruct U as [U U2]. apply negb_false_true in U. destruct (api_ok _ U) as [Al _].
    cbn in Hc. unfold idle in Hc. apply andb_prop in Hc. destruct Hc as [Hc H4]. apply andb_prop in Hc. destruct Hc as [Hc H3].
    apply andb_prop in Hc. destruct Hc as [H1 H2]. apply Z.eqb_eq in H4.
    assert (Hn : nstart (pending s) = 0%nat) by (apply existsb_nstart; destruct (existsb is_FStart (pending s)); auto; discriminate).
    cbn. inv0 K Kd C X.
    + pose proof K as K0. kdestr K0. split; cbn; rewrite ?Hn; auto; try congruence;
        try (intros D; specialize (Hnd Al); congruence).
    + apply Kdc_alive. exact Al.
    + exact C.
    + unfold Xinv. cbn. congruence.
  - (* XConnectEnq *)
    destruct (negb (user_api_ok s) || negb (xc s)) eqn:U; [exact I|].
    apply orb_false_elim in U. destruct U as [U U2]. apply negb_false_true in U. apply negb_false_true in U2. destruct (api_ok _ U) as [Al _].
    apply wpT_ret. inv0 K Kd C X.
    + pose proof K as K0. kdestr K0. rewrite U2 in Kxc1. destruct (Kxc (or_introl U2)) as [Q Dl].
      split; cbn; rewrite ?count_rc_snoc, ?nstart_snoc, ?has_k_snoc; cbn; rewrite ?Nat.add_0_r; auto; try congruence; try lia;
        try (intros D; specialize (Hnd Al); congruence).
    + apply Kdc_alive. exact Al.
    + destruct C as [D C]. split; [exact D|]. cbn. apply Cc_app_k; auto; try (intros f [<-|[]]; reflexivity); try (right; reflexivity).
    + unfold Xinv. cbn. congruence.
  - (* XStopFlags *)
    destruct (negb (user_api_ok s) || xs s) eqn:U; [exact I|].
    apply orb_false_elim in U. destruct U as [U U2]. apply negb_false_true in U. destruct (api_ok _ U) as [Al _].
    cbn. inv0 K Kd C X.
    + pose proof K as K0. kdestr K0. split; cbn; auto; try congruence.
    + apply Kdc_alive. exact Al.
    + exact C.
    + unfold Xinv. cbn. congruence.
  - (* XStopEnq *)
    destruct (negb (user_api_ok s) || negb (xs s)) eqn:U; [exact I|].
    apply orb_false_elim in U. destruct U as [U U2]. apply negb_false_true in U. destruct (api_ok _ U) as [Al _].
    apply wpT_ret. inv0 K Kd C X.
    + pose proof K as K0. kdestr K0. split; cbn; rewrite ?count_rc_snoc, ?nstart_snoc, ?has_k_snoc; cbn; rewrite ?Nat.add_0_r; auto; try congruence;
        try (intros D; specialize (Hnd Al); congruence).
    + apply Kdc_alive. exact Al.
    + destruct C as [D C]. split; [exact D|]. cbn. apply Cc_app_k; auto; try (intros f [<-|[]]; reflexivity); try (right; reflexivity).
    + unfold Xinv. cbn. congruence.
  - (* XDisconnectFlag *)
    destruct (negb (user_api_ok s) || xd s) eqn:U; [exact I|].
    apply orb_false_elim in U. destruct U as [U U2]. apply negb_false_true in U. destruct (api_ok _ U) as [Al _].
    apply wpT_ret. inv0 K Kd C X; [flagK K|exact Kd|exact C|unfold Xinv; cbn; congruence].
  - (* XDisconnectRest *)
    destruct (negb (user_api_ok s) || negb (xd s)) eqn:U; [exact I|].
    apply orb_false_elim in U. destruct U as [U U2]. apply negb_false_true in U. destruct (api_ok _ U) as [Al _].
    set (s1 := set_xd s false).
    assert (K1 : Kinv s1) by flagK K.
    assert (X1 : Xinv s1) by (unfold Xinv; cbn; congruence).
    destruct (connection s1) as [c|] eqn:Hcn.
    + eapply wpT_mono; [|apply (conn_shutdown_I s1 c false); auto; exact C].
      intros s' P. eapply (post_inv0 s1); eauto.
    + apply wpT_ret. inv0 K Kd C X1; auto; exact C.
  - discriminate.
  - discriminate.
  - discriminate.
  - (* ConnectResult *)
    apply wpT_ret. inv0 K Kd C X; [flagK K|exact Kd|exact C].
  - (* EvWritable *)
    destruct (k_chan s) as [[i [|]]|] eqn:Hch; try exact I. destruct (k_dead s) eqn:Hd; [exact I|].
    eapply wpT_mono; [exact P0|]. eapply handleWrite_I; eauto.
  - (* EvError *)
    destruct (k_chan s) as [[i [|]]|] eqn:Hch; try exact I. destruct (k_dead s) eqn:Hd; [exact I|].
    eapply wpT_mono; [exact P0|]. eapply handleError_I; eauto.
  - (* TimerFire *)
    destruct (min_due (timers s)) as [t0|] eqn:Hm; [|exact I].
    apply TimerFire_I; auto.
  - (* RunPending *)
    apply wpT_bind. eapply wpT_mono; [|apply run_n_batch; [exact HI|]].
    + intros s1 ((K1 & Kd1 & St1 & C1 & Cr1 & X1) & B1). apply wpT_ret. inv0 K1 Kd1 C1 X1.
      * eapply Kinv_same; [exact K1|]. unfold sameK. cbn. repeat split; auto.
      * exact Kd1.
      * destruct C1 as [D1 C1]. split; [exact D1|]. cbn. apply Cc_map; auto; try (intros x; destruct x; cbn; auto; fail).
        destruct (connection s1) eqn:E1; auto. right. apply B1. congruence.
    + intros _. rewrite skipn_all. reflexivity.
  - (* RunOne *)
    destruct (pending s) eqn:Hp; [exact I|].
    eapply wpT_mono; [|apply run_one_I; exact HI]. intros s1 (K1 & Kd1 & St1 & C1 & Cr1 & X1). unfold Inv0. auto.
  - (* Down *)
    destruct (find_down (conns s) 0 None) as [c|] eqn:Hf; [|exact I].
    destruct (find_down_spec _ _ _ _ Hf) as [E|(o & Ho & _ & Ha & Hg & Hl & Hfr)]; [discriminate|]. rewrite Nat.sub_0_r in Ho.
    eapply wpT_mono; [exact P0|]. eapply handleClose_I; eauto.
    intros Hb. destruct C as [_ C]. pose proof C as C0. cdestr C0. destruct (Ccb _ _ Ho Ha Hl Hb) as [_ Cn]. apply (Cfr _ _ Cn Ho Hfr).
  - (* UserHold *)
    destruct (negb (user_api_ok s)) eqn:U; [exact I|]. destruct (connection s) as [c|] eqn:Hcn; [|exact I].
    destruct (find_user (conns s) 0) eqn:Hu; [exact I|]. apply wpT_ret.
    destruct C as [D C]. pose proof C as C0. cdestr C0. rewrite Hcn in *. destruct (Ccn c eq_refl) as (o & Ho & Ha & Hl & Hb).
    pose proof (find_user_none _ _ Hu _ _ Ho) as U0.
    inv0 K Kd C X.
    + eapply Kinv_same; [exact K|apply sameK_conns].
    + eapply Kdc_same; [exact Kd|apply sameK_conns].
    + split; [exact D|]. cbn. rewrite Hcn. eapply Cc_set_user; eauto. intros _ _. lia.
  - (* UserRelease *)
    destruct (find_user (conns s) 0) as [c|] eqn:Hu; [|exact I].
    destruct (nth_error (conns s) c) as [o|] eqn:Ho; [|exact I].
    assert (G : (refs s c =? 1)%nat && negb match cst o with CDisconnected => negb (creg o) | _ => false end = false).
    { cbn in Hc. unfold release_ok in Hc. rewrite Hu, Ho in Hc. destruct (_ && _); auto; discriminate. }
    apply wpT_ret. destruct C as [D C]. pose proof C as C0. cdestr C0.
    destruct (find_user_some _ _ _ Hu) as (o' & Ho' & _ & Hpos). rewrite Nat.sub_0_r, Ho in Ho'. injection Ho' as <-.
    assert (Ha : calive o = true).
    { destruct (calive o) eqn:A; auto. pose proof (Cdd _ _ Ho A) as Z. unfold refsC in Z. rewrite Ho in Z. lia. }
    destruct (Cst _ _ Ho Ha) as (S1 & S2 & S3).
    inv0 K Kd C X.
    + eapply Kinv_same; [exact K|apply sameK_conns].
    + eapply Kdc_same; [exact Kd|apply sameK_conns].
    + split; [exact D|]. cbn. eapply Cc_set_user; eauto. intros B _.
      pose proof (Cr _ _ Ho Ha) as R. rewrite (refs_refsC _ _ D) in G.
      apply andb_false_iff in G. destruct G as [G|G].
      * apply Nat.eqb_neq in G. lia.
      * apply negb_false_true in G. destruct (cst o); try discriminate. apply negb_true_iff in G.
        destruct B as [B|B]; [cbn in B; discriminate|congruence].
  - (* LoopEnd: under loop_outlives_cleanup nothing that is dropped unrun was still needed *)
    destruct (alive s || is_some (find_user (conns s) 0) || existsb is_addhack (pending s)) eqn:U; [exact I|].
    apply orb_false_elim in U. destruct U as [U U3]. apply orb_false_elim in U. destruct U as [Al U2].
    cbn in Hc. unfold loop_outlives_cleanup in Hc. apply andb_prop in Hc. destruct Hc as [Hch Hcs].
    assert (Ech : k_chan s = None) by (destruct (k_chan s); [discriminate|reflexivity]).
    unfold loop_end. cbn [k_chan set_timers set_pending]. rewrite Ech. apply wpT_ret.
    rewrite forallb_forall in Hcs.
    assert (Hdone : forall c o, nth_error (conns s) c = Some o -> calive o = true -> cst o = CDisconnected /\ creg o = false).
    { intros c o Ho Ha. specialize (Hcs o (nth_error_In _ _ Ho)). unfold conn_done in Hcs. rewrite Ha in Hcs. cbn in Hcs.
      destruct (cst o); try discriminate. split; auto. destruct (creg o); [discriminate|reflexivity]. }
    pose proof K as K0. kdestr K0. rewrite Ech in Kch. destruct Kch as [_ Kst].
    destruct (X Al) as (X1 & X2 & X3).
    unfold Inv0. split; [|split; [|split; [|exact X]]].
    + split; cbn; rewrite ?Ech; unfold nretry, nstart; cbn; auto; try congruence; try lia.
      intros [Z|Z]; [congruence|exfalso; apply Z; reflexivity].
    + unfold Kdc. cbn. congruence.
    + destruct C as [D C]. split; [exact D|]. cbn. pose proof C as C0. cdestr C0.
      pose proof (Cde Al) as Cn0. rewrite Cn0 in *.
      split.
      * intros f [].
      * auto.
      * intros c Z. discriminate.
      * exact Ccb.
      * exact Cst.
      * intros c o Ho Ha Hs Hr. destruct (Hdone _ _ Ho Ha). congruence.
      * intros c o Ho Ha [Hl|Hr] _; destruct (Hdone _ _ Ho Ha) as [Hs Hr']; [rewrite Hs in Hl; discriminate|congruence].
      * intros c o Ho Ha. pose proof (Cdd _ _ Ho Ha) as Z. unfold refsC in *. rewrite Ho in *. cbn. lia.
      * intros c [].
      * intros c [].
      * intros c [].
      * exact Logic.I.
      * intros c o Z. discriminate.
Qed.

(* ------------------------------------------------------------------ the invariant holds initially and along every admissible step *)
Lemma Inv_init : Inv init.
Proof.
  unfold Inv. split; [|split; [|split; [|split; [|split]]]].
  - split; cbn; auto; try congruence; try lia; try (split; [reflexivity|discriminate]);
      try (intros [H|H]; [discriminate|exfalso; apply H; reflexivity]).
  - apply Kdc_alive. reflexivity.
  - unfold Ksettled. cbn. discriminate.
  - split; [reflexivity|]. cbn. split; cbn; try tauto; try discriminate.
    + intros [|c] o; discriminate.
    + intros [|c] o; discriminate.
    + intros [|c] o; discriminate.
    + intros [|c] o; discriminate.
    + intros [|c] o; discriminate.
  - intros [|c] o; discriminate.
  - unfold Xinv. cbn. discriminate.
Qed.

Lemma Inv_set_now s t : Inv s -> Inv (set_now s t).
Proof.
  intros (K & Kd & St & C & Cr & X). unfold Inv. split; [|split; [exact Kd|split; [exact St|split; [exact C|split; [exact Cr|exact X]]]]].
  eapply Kinv_same; [exact K|]. unfold sameK. cbn. repeat split; auto.
Qed.

Lemma step_I s o : Inv s -> contract s o = true ->
  match step s o with Fault => False | Rejected => True | Ok s' _ => Inv s' end.
Proof.
  intros I Hc. unfold step. pose proof (step_core_I s o I Hc) as W.
  destruct (step_core s o) as [m|]; [|exact Logic.I].
  apply finish_I in W. destruct (finish m) as [[s1 e1]|]; [|exact W].
  apply Inv_set_now. exact W.
Qed.
