(* C18_HttpPtr: "no read outside the received bytes" for the HTTP request-line parser.

   C18_Model's processRequestLine works on lists (firstn / skipn / find_byte), where an over-read
   cannot even be written down.  Here HttpContext::processRequestLine(begin, end) is modelled at the
   level of its POINTERS: begin = offset 0, end = the length of the line (parseRequest calls it with
   buf->peek() and the position of the CRLF), a pointer is an offset, and EVERY dereference goes
   through [rd], which fails (result PF) outside [begin, end); the string literal "HTTP/1." is the
   8-byte array H T T P / 1 . NUL and every read of it goes through [rd] on that array:

     std::find(first, last, c)            p_find   reads *first, *(first+1), .. until found or = last
     string m(start, space) etc.          p_slice  reads every byte of [first, first+n)
     std::equal(start, end-1, "HTTP/1.")  p_equal  reads both ranges element by element, stops at the
                                                   first mismatch
     *(end-1)                             rd line (end-1)

   The length test in front of std::equal is NOT transcribed: it is the regenerated fact
   Gen_C18.processRequestLine_cmp3 (from the clang AST of the current HttpContext.cc, `end-start == 8`
   today).  Theorem p_processRequestLine_ok: for every line and prior request the pointer-level
   function never fails a read and returns exactly what the list-level model returns.  With the
   test weakened to `>= 8` (a mutant that ASan caught: global-buffer-overflow in std::equal) the
   theorem is false - p_equal walks off the 8-byte literal - and its proof breaks at
   [cmp3_is_eq8]. *)
From Coq Require Import List ZArith Lia Bool Arith NArith.
From Coq.Strings Require Import Byte.
From Muduo Require Import Base_Bytes Gen_C18 C18_Model C18_HttpProofs.
Import ListNotations.

Inductive pr (A : Type) : Type := PV (a : A) | PF.    (* PF: a dereference outside the range / the literal *)
Arguments PV {A} a.
Arguments PF {A}.

Definition pbind {A B} (x : pr A) (f : A -> pr B) : pr B := match x with PV a => f a | PF => PF end.
Notation "x <~ e ;; k" := (pbind e (fun x => k)) (at level 61, e at next level, right associativity).

(* *p for p = begin + off, inside [begin, begin + length mem) only *)
Definition rd (mem : list byte) (off : nat) : pr byte :=
  match nth_error mem off with Some x => PV x | None => PF end.

(* std::find(first, last, c) *)
Fixpoint p_find (mem : list byte) (fuel first last : nat) (c : byte) : pr nat :=
  match fuel with
  | O => PV last
  | S f =>
      if first =? last then PV last
      else x <~ rd mem first ;; if Byte.eqb x c then PV first else p_find mem f (S first) last c
  end.

(* std::string s(first, first + n): copies n bytes *)
Fixpoint p_slice (mem : list byte) (n first : nat) : pr (list byte) :=
  match n with
  | O => PV []
  | S k => x <~ rd mem first ;; l <~ p_slice mem k (S first) ;; PV (x :: l)
  end.

(* std::equal(first1, first1 + n, first2): element by element, stops at the first mismatch *)
Fixpoint p_equal (mem : list byte) (n first1 : nat) (lit : list byte) (first2 : nat) : pr bool :=
  match n with
  | O => PV true
  | S k => x <~ rd mem first1 ;; y <~ rd lit first2 ;;
           if Byte.eqb x y then p_equal mem k (S first1) lit (S first2) else PV false
  end.

(* the literal "HTTP/1." as the compiler lays it out: 7 characters and the terminating NUL *)
Definition lit_HTTP1dot : list byte := s_HTTP1dot ++ [x00].

Definition Zn := Z.of_nat.

(* HttpContext::processRequestLine(begin, end), begin = 0, end = length line; [len_test e s] is the
   comparison in front of std::equal applied to the addresses end and start *)
Definition p_processRequestLine (len_test : Z -> Z -> bool) (line : list byte) (r : request) : pr (option request) :=
  let e := length line in
  space <~ p_find line e 0 e SP ;;                              (* std::find(start, end, ' ') *)
  if space =? e then PV None else
  m <~ p_slice line space 0 ;;                                  (* setMethod(start, space): string m(start, space) *)
  let k := set_method m in
  if is_invalid k then PV None else
  let start := space + 1 in
  space2 <~ p_find line (e - start) start e SP ;;               (* std::find(start, end, ' ') *)
  if space2 =? e then PV None else
  question <~ p_find line (space2 - start) start space2 QMARK ;;  (* std::find(start, space, '?') *)
  pq <~ (if question =? space2
         then p <~ p_slice line (space2 - start) start ;; PV (p, q_query r)        (* setPath(start, space) *)
         else p <~ p_slice line (question - start) start ;;                        (* setPath(start, question) *)
              q <~ p_slice line (space2 - question) question ;; PV (p, q)) ;;      (* setQuery(question, space) *)
  let start2 := space2 + 1 in
  if len_test (Zn e) (Zn start2) then                           (* end-start == 8 *)
    eq <~ p_equal line (e - 1 - start2) start2 lit_HTTP1dot 0 ;;  (* std::equal(start, end-1, "HTTP/1.") *)
    if eq then
      c <~ rd line (e - 1) ;;                                   (* *(end-1) *)
      if Byte.eqb c x31 then PV (Some (mkReq k kHttp11 (fst pq) (snd pq) (q_headers r)))
      else if Byte.eqb c x30 then PV (Some (mkReq k kHttp10 (fst pq) (snd pq) (q_headers r)))
      else PV None
    else PV None
  else PV None.

(* ---- the primitives read in range and compute the list functions ------------------------------- *)
Lemma rd_ok mem off : off < length mem -> rd mem off = PV (nth off mem x00).
Proof.
  intros H. unfold rd. destruct (nth_error mem off) as [x|] eqn:E.
  - rewrite (nth_error_nth mem off x00 E). reflexivity.
  - apply nth_error_None in E. lia.
Qed.

Lemma skipn_nth_cons (mem : list byte) off : off < length mem ->
  skipn off mem = nth off mem x00 :: skipn (S off) mem.
Proof.
  revert off. induction mem as [|x t IH]; intros off H; cbn [length] in H; [lia|].
  destruct off as [|off]; [reflexivity|]. cbn [skipn nth]. apply IH. lia.
Qed.

Lemma p_find_ok mem c : forall fuel first last, first <= last -> last <= length mem -> last - first <= fuel ->
  p_find mem fuel first last c =
  PV (match find_byte c (firstn (last - first) (skipn first mem)) with Some k => first + k | None => last end).
Proof.
  induction fuel as [|f IH]; intros first last H1 H2 H3; cbn [p_find].
  - replace (last - first) with 0 by lia. reflexivity.
  - destruct (Nat.eqb_spec first last) as [E|E].
    + subst. rewrite Nat.sub_diag. reflexivity.
    + rewrite rd_ok by lia. cbn [pbind].
      rewrite (skipn_nth_cons mem first) by lia.
      replace (last - first) with (S (last - S first)) by lia. cbn [firstn find_byte].
      destruct (Byte.eqb (nth first mem x00) c); [f_equal; lia|].
      rewrite IH by lia. destruct (find_byte c _); cbn [option_map]; f_equal; lia.
Qed.

Lemma p_slice_ok mem : forall n first, first + n <= length mem ->
  p_slice mem n first = PV (firstn n (skipn first mem)).
Proof.
  induction n as [|n IH]; intros first H; cbn [p_slice]; [reflexivity|].
  rewrite rd_ok by lia. cbn [pbind]. rewrite IH by lia. cbn [pbind].
  rewrite (skipn_nth_cons mem first) by lia. reflexivity.
Qed.

Lemma p_equal_ok mem lit : forall n first1 first2, first1 + n <= length mem -> first2 + n <= length lit ->
  p_equal mem n first1 lit first2 = PV (bytes_eqb (firstn n (skipn first1 mem)) (firstn n (skipn first2 lit))).
Proof.
  induction n as [|n IH]; intros f1 f2 H1 H2; cbn [p_equal]; [reflexivity|].
  rewrite !rd_ok by lia. cbn [pbind].
  rewrite (skipn_nth_cons mem f1), (skipn_nth_cons lit f2) by lia. cbn [firstn bytes_eqb].
  destruct (Byte.eqb (nth f1 mem x00) (nth f2 lit x00)); [|reflexivity]. cbn [andb]. apply IH; lia.
Qed.

(* the regenerated comparison in front of std::equal IS `end - start == 8` *)
Lemma cmp3_is_eq8 (e s : Z) : Gen_C18.processRequestLine_cmp3 e s = (e - s =? 8)%Z.
Proof. reflexivity. Qed.

Lemma find_byte_lt c l k : find_byte c l = Some k -> k < length l.
Proof.
  revert k. induction l as [|x t IH]; intros k H; cbn [find_byte] in H; [discriminate|].
  destruct (Byte.eqb x c); [injection H as <-; cbn; lia|].
  destruct (find_byte c t) as [j|]; [|discriminate]. injection H as <-. specialize (IH j eq_refl). cbn. lia.
Qed.

(* ---- the pointer-level function never fails a read and is the list-level model ------------------ *)
Theorem p_processRequestLine_ok : forall line r,
  p_processRequestLine Gen_C18.processRequestLine_cmp3 line r = PV (processRequestLine line r).
Proof.
  intros line r. unfold p_processRequestLine, processRequestLine.
  set (e := length line).
  rewrite (p_find_ok line SP e 0 e) by lia. cbn [pbind]. change (skipn 0 line) with line.
  replace (firstn (e - 0) line) with line by (rewrite Nat.sub_0_r; unfold e; symmetry; apply firstn_all).
  destruct (find_byte SP line) as [i|] eqn:E1; [|rewrite Nat.eqb_refl; reflexivity].
  pose proof (find_byte_lt _ _ _ E1) as Hi. fold e in Hi. cbn [plus].
  destruct (Nat.eqb_spec i e); [lia|].
  rewrite (p_slice_ok line i 0) by lia. cbn [pbind]. change (skipn 0 line) with line.
  destruct (is_invalid (set_method (firstn i line))); [reflexivity|].
  set (rest1 := skipn (i + 1) line).
  assert (L1 : length rest1 = e - (i + 1)) by (unfold rest1; rewrite skipn_length; reflexivity).
  rewrite (p_find_ok line SP (e - (i + 1)) (i + 1) e) by lia. cbn [pbind].
  assert (F1 : firstn (e - (i + 1)) (skipn (i + 1) line) = rest1).
  { unfold rest1. apply firstn_all2. rewrite skipn_length. fold e. lia. }
  rewrite F1.
  destruct (find_byte SP rest1) as [j|] eqn:E2; [|rewrite Nat.eqb_refl; reflexivity].
  pose proof (find_byte_lt _ _ _ E2) as Hj. rewrite L1 in Hj.
  destruct (Nat.eqb_spec (i + 1 + j) e); [lia|].
  replace (i + 1 + j - (i + 1)) with j by lia.
  rewrite (p_find_ok line QMARK j (i + 1) (i + 1 + j)) by lia. cbn [pbind].
  replace (i + 1 + j - (i + 1)) with j by lia. fold rest1.
  set (target := firstn j rest1).
  assert (Lt : length target = j) by (unfold target; rewrite firstn_length; lia).
  (* path / query *)
  assert (PQ : (pq <~ (if (match find_byte QMARK target with Some k => i + 1 + k | None => i + 1 + j end) =? i + 1 + j
                      then p <~ p_slice line j (i + 1) ;; PV (p, q_query r)
                      else p <~ p_slice line ((match find_byte QMARK target with Some k => i + 1 + k | None => i + 1 + j end) - (i + 1)) (i + 1) ;;
                           q <~ p_slice line (i + 1 + j - (match find_byte QMARK target with Some k => i + 1 + k | None => i + 1 + j end))
                                             (match find_byte QMARK target with Some k => i + 1 + k | None => i + 1 + j end) ;; PV (p, q)) ;;
                 PV pq) =
               PV (match find_byte QMARK target with
                   | Some q => (firstn q target, skipn q target)
                   | None => (target, q_query r)
                   end)).
  { destruct (find_byte QMARK target) as [q|] eqn:E3.
    - pose proof (find_byte_lt _ _ _ E3) as Hq. rewrite Lt in Hq.
      destruct (Nat.eqb_spec (i + 1 + q) (i + 1 + j)); [lia|].
      rewrite (p_slice_ok line (i + 1 + q - (i + 1)) (i + 1)) by lia. cbn [pbind].
      rewrite (p_slice_ok line (i + 1 + j - (i + 1 + q)) (i + 1 + q)) by lia. cbn [pbind].
      fold rest1. replace (i + 1 + q - (i + 1)) with q by lia. replace (i + 1 + j - (i + 1 + q)) with (j - q) by lia.
      f_equal. f_equal.
      + unfold target. rewrite firstn_firstn. f_equal. lia.
      + unfold target, rest1. rewrite skipn_firstn_comm, skipn_add.
        first [reflexivity | f_equal; try lia; f_equal; lia].
    - rewrite Nat.eqb_refl. rewrite (p_slice_ok line j (i + 1)) by lia. cbn [pbind]. reflexivity. }
  (* bring the goal into the shape of PQ *)
  match goal with |- pbind ?X ?K = _ =>
    set (pqv := match find_byte QMARK target with
                | Some q => (firstn q target, skipn q target)
                | None => (target, q_query r)
                end) in *;
    assert (HX : X = PV pqv)
  end.
  { match type of PQ with pbind ?Y _ = _ => destruct Y as [pq|] eqn:EY; cbn [pbind] in PQ; [|discriminate PQ] end.
    injection PQ as ->. reflexivity. }
  rewrite HX. cbn [pbind]. clear HX PQ.
  (* the version *)
  set (ver := skipn (j + 1) rest1).
  assert (Lv : length ver = e - (i + 1 + j + 1)) by (unfold ver; rewrite skipn_length, L1; lia).
  rewrite cmp3_is_eq8. unfold Zn.
  assert (Hlen : ((Z.of_nat e - Z.of_nat (i + 1 + j + 1) =? 8)%Z) = (length ver =? 8)).
  { rewrite Lv. destruct (Z.eqb_spec (Z.of_nat e - Z.of_nat (i + 1 + j + 1)) 8); destruct (Nat.eqb_spec (e - (i + 1 + j + 1)) 8); try reflexivity; lia. }
  rewrite Hlen. destruct (Nat.eqb_spec (length ver) 8) as [E8|E8]; cbn [andb]; [|destruct pqv; reflexivity].
  rewrite Lv in E8.
  assert (Vs : ver = skipn (i + 1 + j + 1) line).
  { unfold ver, rest1. rewrite skipn_add. f_equal. lia. }
  rewrite (p_equal_ok line lit_HTTP1dot (e - 1 - (i + 1 + j + 1)) (i + 1 + j + 1) 0)
    by (cbn [length lit_HTTP1dot s_HTTP1dot app]; lia).
  cbn [pbind]. change (skipn 0 lit_HTTP1dot) with lit_HTTP1dot.
  replace (e - 1 - (i + 1 + j + 1)) with 7 by lia. rewrite <- Vs.
  change (firstn 7 lit_HTTP1dot) with s_HTTP1dot.
  destruct (bytes_eqb (firstn 7 ver) s_HTTP1dot); [|destruct pqv; reflexivity].
  rewrite rd_ok by lia. cbn [pbind].
  (* the last character *)
  assert (Hlast : skipn 7 ver = [nth (e - 1) line x00]).
  { rewrite Vs, skipn_add. replace (i + 1 + j + 1 + 7) with (e - 1) by lia.
    rewrite (skipn_nth_cons line (e - 1)) by lia. f_equal.
    replace (S (e - 1)) with e by lia. unfold e. apply skipn_all. }
  rewrite Hlast. destruct pqv as [pth qry]. cbn [fst snd].
  destruct (Byte.eqb (nth (e - 1) line x00) x31); [reflexivity|].
  destruct (Byte.eqb (nth (e - 1) line x00) x30); reflexivity.
Qed.

(* with the length test weakened to >= 8 the pointer-level function DOES read outside the literal:
   "GET / HTTP/1.\0\0" makes std::equal compare 8 bytes against the 8-byte array and then one more *)
Example p_processRequestLine_ge8_overreads :
  p_processRequestLine (fun e s => (e - s >=? 8)%Z)
    ([x47; x45; x54; x20; x2f; x20] ++ s_HTTP1dot ++ [x00; x00; x31]) empty_request = PF.
Proof. vm_compute. reflexivity. Qed.
