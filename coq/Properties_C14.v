(* Properties_C14: blocking queues and latch - FIFO, bounded, nothing lost, nobody left waiting.
   Statements only.  Models: C14_Model (bq_body = BlockingQueue.h, bbq_body cap =
   BoundedBlockingQueue.h, latch_body = CountDownLatch.cc) over the monitor semantics of
   Conc_Model.  Every theorem quantifies over ALL thread counts and programs ([progs]), all
   capacities, and all schedules: [reach] is closed under every enabled step, including which
   waiter a notify() releases and spurious wake-ups.  The tie to the C++ is the trace
   validation of bin/check C14 (every step the real classes make under the controlled
   scheduler must be accepted by the extracted [step]). *)
From Coq Require Import List ZArith Arith Bool Lia.
From Muduo Require Import Conc_Model Conc_Proofs C14_Model C14_Proofs.
Import ListNotations.
Open Scope nat_scope.

(* [hist s] lists the completed critical sections in the order in which they held the mutex.
   With puts := values put and rets := values handed out by take()/drain(), both in that order:
   rets is a prefix of puts; the k-th value handed out is the k-th value put (so every put is
   handed out at most once, in FIFO order); and for every class [f] of values (e.g. "put by
   producer p") the handed-out members of the class are a prefix of the put members of the
   class (per-producer order). *)
Theorem C14_fifo_linearisable :
  (forall progs s, reach bq_body (init_sys [] progs) s ->
     (exists rest, bq_puts (hist s) = rets (hist s) ++ rest) /\
     (forall k v, nth_error (rets (hist s)) k = Some v -> nth_error (bq_puts (hist s)) k = Some v) /\
     (forall f : Z -> bool, exists rest, filter f (bq_puts (hist s)) = filter f (rets (hist s)) ++ rest)) /\
  (forall cap progs s, reach (bbq_body cap) (init_sys [] progs) s ->
     (exists rest, bbq_puts (hist s) = rets (hist s) ++ rest) /\
     (forall k v, nth_error (rets (hist s)) k = Some v -> nth_error (bbq_puts (hist s)) k = Some v) /\
     (forall f : Z -> bool, exists rest, filter f (bbq_puts (hist s)) = filter f (rets (hist s)) ++ rest)).
Proof. exact fifo_linearisable. Qed.
Print Assumptions C14_fifo_linearisable.

(* per-producer order with the producer taken from the history: [bq_puts_by] lists the puts as
   (producing thread, value) in section order; the values handed out so far are exactly its first
   n entries, hence for every producer p the handed-out elements of p are a prefix of p's puts *)
Theorem C14_per_producer_order :
  (forall progs s, reach bq_body (init_sys [] progs) s ->
     let tagged := bq_puts_by (hist s) in let n := length (rets (hist s)) in
     map snd tagged = bq_puts (hist s) /\ map snd (firstn n tagged) = rets (hist s) /\
     forall p, exists rest, filter (put_by p) tagged = filter (put_by p) (firstn n tagged) ++ rest) /\
  (forall cap progs s, reach (bbq_body cap) (init_sys [] progs) s ->
     let tagged := bbq_puts_by (hist s) in let n := length (rets (hist s)) in
     map snd tagged = bbq_puts (hist s) /\ map snd (firstn n tagged) = rets (hist s) /\
     forall p, exists rest, filter (put_by p) tagged = filter (put_by p) (firstn n tagged) ++ rest).
Proof. exact per_producer_order. Qed.
Print Assumptions C14_per_producer_order.

(* LINEARISABILITY, for any monitor body (in particular put/take/drain/size, the bounded queue with
   empty/full/size/capacity, the latch): the completed critical sections, in the order in which they
   held the mutex, are a SEQUENTIAL execution of the calls from the initial state to the current
   shared state - every value, list, size or flag any call has returned, under whatever concurrent
   put/take traffic, is what that call returns in that sequential execution. *)
Theorem C14_linearisable : forall (S op res : Type) (body : op -> S -> outcome S res) s0 progs (s : sys S op res),
  reach body (init_sys s0 progs) s -> seq_exec body s0 (hist s) (shared s).
Proof. exact linearisable. Qed.
Print Assumptions C14_linearisable.

(* ... spelled out for the two queues: for EVERY completed call, with [before] = the queue it found
   (= the puts before it minus the elements handed out before it, in FIFO order): take() returned its
   head, drain() returned all of it, size()/empty()/full()/capacity() reported it exactly, a bounded
   put() found room *)
Theorem C14_observers :
  (forall progs s h1 t o r h2, reach bq_body (init_sys [] progs) s -> hist s = h1 ++ (t, o, r) :: h2 ->
     bq_puts h1 = rets h1 ++ bq_before h1 /\
     match o with
     | BPut _ => r = RUnit
     | BTake => exists x q', bq_before h1 = x :: q' /\ r = RVal x
     | BDrain => r = RList (bq_before h1)
     | BSize => r = RSize (length (bq_before h1))
     end) /\
  (forall cap progs s h1 t o r h2, reach (bbq_body cap) (init_sys [] progs) s -> hist s = h1 ++ (t, o, r) :: h2 ->
     bbq_puts h1 = rets h1 ++ bbq_before h1 /\ length (bbq_before h1) <= cap /\
     match o with
     | QPut _ => r = RUnit /\ length (bbq_before h1) < cap
     | QTake => exists x q', bbq_before h1 = x :: q' /\ r = RVal x
     | QSize => r = RSize (length (bbq_before h1))
     | QEmpty => r = RBool (Nat.eqb (length (bbq_before h1)) 0)
     | QFull => r = RBool (Nat.eqb (length (bbq_before h1)) cap)
     | QCapacity => r = RSize cap
     end).
Proof. exact observers. Qed.
Print Assumptions C14_observers.

(* in EVERY reachable state: handed out ++ still queued = put (nothing lost, nothing invented,
   nothing duplicated) *)
Theorem C14_nothing_lost :
  (forall progs s, reach bq_body (init_sys [] progs) s ->
     bq_puts (hist s) = rets (hist s) ++ shared s) /\
  (forall cap progs s, reach (bbq_body cap) (init_sys [] progs) s ->
     bbq_puts (hist s) = rets (hist s) ++ shared s).
Proof. exact nothing_lost. Qed.
Print Assumptions C14_nothing_lost.

Theorem C14_bounded : forall cap progs s,
  reach (bbq_body cap) (init_sys [] progs) s -> length (shared s) <= cap.
Proof. exact bbq_bounded. Qed.
Print Assumptions C14_bounded.

(* quiescent = no step but a spurious wake-up is possible.  Then every thread has finished its
   program or waits with its guard genuinely true: a consumer only on an empty queue, a producer
   only on a full one, a latch waiter only while count > 0 (the latter in every reachable state,
   quiescent or not). *)
Theorem C14_no_stuck_waiter :
  (forall progs s, reach bq_body (init_sys [] progs) s -> quiescent bq_body s ->
     Forall (fun th => finished th \/ (st th = Waiting notEmpty /\ shared s = [])) (threads s)) /\
  (forall cap progs s, reach (bbq_body cap) (init_sys [] progs) s -> quiescent (bbq_body cap) s ->
     Forall (fun th => finished th \/ (st th = Waiting notEmpty /\ shared s = []) \/
                       (st th = Waiting notFull /\ length (shared s) = cap)) (threads s)) /\
  (forall c0 progs s, reach latch_body (init_sys c0 progs) s ->
     (forall t th c, nth_error (threads s) t = Some th -> st th = Waiting c -> (shared s > 0)%Z) /\
     (quiescent latch_body s ->
      Forall (fun th => finished th \/ (st th = Waiting latchCond /\ (shared s > 0)%Z)) (threads s))).
Proof. exact no_stuck_waiter. Qed.
Print Assumptions C14_no_stuck_waiter.

(* the ranking argument behind "quiescence is reached" (any monitor body, in particular the three
   of C14): [measure] strictly decreases with every step that is not an injected spurious
   wake-up and grows by 2 with a spurious wake-up.  So from every reachable state EVERY schedule
   makes at most measure + 2 * (number of spurious wake-ups) further steps, a schedule without
   spurious wake-ups at most [measure s] steps, and a quiescent reachable state exists - in which, by
   C14_no_stuck_waiter, whoever is still blocked is blocked with its condition genuinely false. *)
Theorem C14_quiescence_reached : forall (S op res : Type) (body : op -> S -> outcome S res) s0 progs (s : sys S op res),
  reach body (init_sys s0 progs) s ->
  (forall ls s', run body s ls = Some s' -> measure s' + nonspur ls <= measure s + 2 * nspur ls) /\
  (forall ls s', run body s ls = Some s' -> nspur ls = 0 -> length ls <= measure s) /\
  (exists ls s', run body s ls = Some s' /\ nspur ls = 0 /\ reach body (init_sys s0 progs) s' /\ quiescent body s').
Proof. exact quiescence_reached. Qed.
Print Assumptions C14_quiescence_reached.

(* the countDown() that brings the count to zero empties the wait set: every thread that was
   waiting is released (Signalled, same program position) by that one step *)
Theorem C14_latch_releases_all : forall c0 progs (s s' : sys Z latch_op qres) t picks,
  reach latch_body (init_sys c0 progs) s ->
  step latch_body s (LBody t picks) = Some s' -> shared s' = 0%Z -> shared s <> 0%Z ->
  nwaiting latchCond s' = 0 /\
  forall u th, nth_error (threads s) u = Some th -> st th = Waiting latchCond ->
               exists th', nth_error (threads s') u = Some th' /\ st th' = Signalled /\ prog th' = prog th.
Proof. exact latch_releases_all. Qed.
Print Assumptions C14_latch_releases_all.

(* MutexLock::holder_ (with the UnassignGuard of Condition::wait), for any monitor body - in
   particular the three of C14: holder_ names exactly the thread inside the critical section;
   a waiting or released-but-not-yet-running thread is never the holder, so
   isLockedByThisThread()/assertLocked() is true exactly for the owner. *)
Theorem C14_holder_tracks_owner : forall (S op res : Type) (body : op -> S -> outcome S res) s0 progs (s : sys S op res),
  reach body (init_sys s0 progs) s ->
  holder s = owner s /\
  (forall t, owner s = Some t <-> exists th, nth_error (threads s) t = Some th /\ st th = InCS) /\
  (forall t th, nth_error (threads s) t = Some th -> isLockedByThisThread s t = true <-> st th = InCS).
Proof. exact holder_tracks_owner. Qed.
Print Assumptions C14_holder_tracks_owner.

(* ------------------------------------------------------------------ non-vacuity *)
(* a consumer blocks, a producer puts and wakes it, the consumer takes the value *)
Example C14_ex_bq_run :
  exists s, reach bq_body (init_sys [] [[BTake]; [BPut 5%Z; BPut 6%Z]]) s /\
            rets (hist s) = [5%Z] /\ bq_puts (hist s) = [5%Z; 6%Z] /\ shared s = [6%Z].
Proof.
  eexists. split.
  - eapply reach_run; [apply reach_refl|].
    instantiate (2 := [LAcquire 0; LBody 0 []; LAcquire 1; LBody 1 [0]; LAcquire 1; LBody 1 [];
                       LReacquire 0; LBody 0 []]).
    vm_compute. reflexivity.
  - vm_compute. auto.
Qed.

(* a reachable quiescent state with a (legitimately) waiting consumer *)
Example C14_ex_quiescent_waiter :
  exists s, reach bq_body (init_sys [] [[BTake]]) s /\ quiescent bq_body s /\
            exists th, nth_error (threads s) 0 = Some th /\ st th = Waiting notEmpty.
Proof.
  exists (mkSys [] None None [mkThread [BTake] (Waiting notEmpty)] []). split; [|split].
  - eapply reach_run; [apply reach_refl|].
    instantiate (1 := [LAcquire 0; LBody 0 []]). vm_compute. reflexivity.
  - intros l s' H. destruct l as [t|t p|t|t]; destruct t as [|t]; cbn in H; try discriminate;
      try (destruct t; discriminate). eauto.
  - eexists; split; reflexivity.
Qed.

(* bounded queue of capacity 1: the second put blocks on notFull, a take releases it *)
Example C14_ex_bbq_run :
  exists s, reach (bbq_body 1) (init_sys [] [[QPut 1%Z; QPut 2%Z]; [QTake]]) s /\
            rets (hist s) = [1%Z] /\ shared s = [2%Z].
Proof.
  eexists. split.
  - eapply reach_run; [apply reach_refl|].
    instantiate (2 := [LAcquire 0; LBody 0 []; LAcquire 0; LBody 0 []; LAcquire 1; LBody 1 [0];
                       LReacquire 0; LBody 0 []]).
    vm_compute. reflexivity.
  - vm_compute. auto.
Qed.

(* latch with two waiters released by one count-down (the hypotheses of C14_latch_releases_all) *)
Example C14_ex_latch_two_waiters :
  exists s s', reach latch_body (init_sys 1%Z [[LWait]; [LWait]; [LCountDown]]) s /\
    step latch_body s (LBody 2 []) = Some s' /\ shared s' = 0%Z /\ shared s <> 0%Z /\ nwaiting latchCond s = 2.
Proof.
  eexists. eexists. split; [|split].
  - eapply reach_run; [apply reach_refl|].
    instantiate (2 := [LAcquire 0; LBody 0 []; LAcquire 1; LBody 1 []; LAcquire 2]).
    vm_compute. reflexivity.
  - vm_compute. reflexivity.
  - vm_compute. repeat split; auto. discriminate.
Qed.

(* two producers: the tagged history attributes each handed-out value to its producer *)
Example C14_ex_two_producers :
  exists s, reach bq_body (init_sys [] [[BPut 11%Z; BPut 12%Z]; [BPut 21%Z]; [BTake; BTake]]) s /\
            bq_puts_by (hist s) = [(0, 11%Z); (1, 21%Z); (0, 12%Z)] /\ rets (hist s) = [11%Z; 21%Z] /\
            filter (put_by 0) (firstn 2 (bq_puts_by (hist s))) = [(0, 11%Z)].
Proof.
  eexists. split.
  - eapply reach_run; [apply reach_refl|].
    instantiate (2 := [LAcquire 0; LBody 0 []; LAcquire 1; LBody 1 []; LAcquire 0; LBody 0 [];
                       LAcquire 2; LBody 2 []; LAcquire 2; LBody 2 []]).
    vm_compute. reflexivity.
  - vm_compute. auto.
Qed.

(* the measure of a concrete start state, and a spurious wake-up raising it by 2 *)
Example C14_ex_measure :
  measure (init_sys ([] : list Z) [[BTake]; [BPut 1%Z]] : sys (list Z) bq_op qres) = 20 /\
  exists s s', reach bq_body (init_sys [] [[BTake]; [BPut 1%Z]]) s /\ step bq_body s (LSpurious 0) = Some s' /\
               measure s' = measure s + 2.
Proof.
  split; [reflexivity|]. eexists. eexists. split; [|split].
  - eapply reach_run; [apply reach_refl|]. instantiate (2 := [LAcquire 0; LBody 0 []]). vm_compute. reflexivity.
  - vm_compute. reflexivity.
  - vm_compute. reflexivity.
Qed.

(* drain() and size() under concurrent traffic: a history in which a drain returns two elements and a
   later size() reports the one element put afterwards *)
Example C14_ex_drain_size :
  exists s, reach bq_body (init_sys [] [[BPut 1%Z; BPut 2%Z; BPut 3%Z]; [BDrain; BSize]]) s /\
            hist s = [(0, BPut 1%Z, RUnit); (0, BPut 2%Z, RUnit); (1, BDrain, RList [1%Z; 2%Z]);
                      (0, BPut 3%Z, RUnit); (1, BSize, RSize 1)].
Proof.
  eexists. split.
  - eapply reach_run; [apply reach_refl|].
    instantiate (2 := [LAcquire 0; LBody 0 []; LAcquire 0; LBody 0 []; LAcquire 1; LBody 1 [];
                       LAcquire 0; LBody 0 []; LAcquire 1; LBody 1 []]).
    vm_compute. reflexivity.
  - vm_compute. reflexivity.
Qed.

Example C14_ex_bbq_observers :
  exists s, reach (bbq_body 1) (init_sys [] [[QPut 7%Z]; [QEmpty; QFull; QCapacity; QSize]]) s /\
            hist s = [(1, QEmpty, RBool true); (0, QPut 7%Z, RUnit); (1, QFull, RBool true);
                      (1, QCapacity, RSize 1); (1, QSize, RSize 1)].
Proof.
  eexists. split.
  - eapply reach_run; [apply reach_refl|].
    instantiate (2 := [LAcquire 1; LBody 1 []; LAcquire 0; LBody 0 []; LAcquire 1; LBody 1 [];
                       LAcquire 1; LBody 1 []; LAcquire 1; LBody 1 []]).
    vm_compute. reflexivity.
  - vm_compute. reflexivity.
Qed.
