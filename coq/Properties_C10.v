(* Properties_C10: Buffer behaves as an unbounded FIFO byte queue with a prepend area.
   Only statements, closed by [exact], with Print Assumptions and non-vacuity examples.
   The model (C10_Model) is tied to muduo/net/Buffer.{h,cc} by the correspondence
   check (bin/check C10) and by the regenerated constants (Gen_Consts). *)
From Coq Require Import List ZArith Lia Bool Arith NArith.
From Coq.Strings Require Import Byte.
From Muduo Require Import Base_Bytes Gen_Consts Gen_C10 C10_Model C10_Proofs C10_Cast C10_GenLink C10_Width.
Import ListNotations.

(* Every reachable concrete state [st] (any initial sizes, any accepted operation
   sequence) represents the abstract FIFO contents [s]; an operation is rejected
   exactly when its documented precondition (over the public size observers) fails,
   never faults, and otherwise produces the abstract output and abstract next state.
   spec_step says what does NOT change too: e.g. Append keeps the old content as a
   prefix, Retrieve removes only a prefix, EnsureWritable/Shrink keep the content,
   all ops but Swap / Assign leave the second buffer alone.  The op set is every public
   member of Buffer.h/.cc: append, prepend, retrieve, retrieveUntil, retrieveInt8/16/32/64,
   retrieveAll, retrieveAsString, retrieveAllAsString, toStringPiece, ensureWritableBytes,
   hasWritten, unwrite, shrink, internalCapacity, swap, copy assignment, readFd (data and
   error outcome), append/prepend/peek/readInt8/16/32/64, findCRLF()/findEOL() and their
   start-pointer overloads. *)
Theorem C10_refines_fifo : forall st s, reach st s ->
  readable (fst st) = fst s /\ readable (snd st) = snd s /\
  forall o,
    if guard (fst st) o then
      exists st', step st o = Ok (st', snd (spec_step s (fst st) o)) /\
                  reach st' (fst (spec_step s (fst st) o))
    else step st o = Rejected.
Proof. exact refines_fifo. Qed.
Print Assumptions C10_refines_fifo.

Theorem C10_run_reaches : forall st s ops st' outs,
  reach st s -> run st ops = Ok (st', outs) -> reach st' (spec_run st s ops).
Proof. exact run_reach. Qed.
Print Assumptions C10_run_reaches.

Theorem C10_sizes_consistent : forall st s, reach st s ->
  let b := fst st in
  ridx b <= widx b /\ widx b <= length (store b) /\
  readableBytes b = length (fst s) /\
  prependableBytes b + readableBytes b + writableBytes b = length (store b).
Proof. exact sizes_consistent. Qed.
Print Assumptions C10_sizes_consistent.

Theorem C10_ensure_writable : forall st s n st' o, reach st s ->
  step st (EnsureWritable n) = Ok (st', o) -> n <= writableBytes (fst st').
Proof. exact ensure_writable_post. Qed.
Print Assumptions C10_ensure_writable.

(* [up] is a ghost counter of the bytes the caller prepended since the reader
   index was last reset; with up = 0 this is "prependableBytes >= kCheapPrepend". *)
Theorem C10_cheap_prepend : forall st s, reach st s ->
  kCheapPrepend <= prependableBytes (fst st) + up (fst st).
Proof. exact cheap_prepend. Qed.
Print Assumptions C10_cheap_prepend.

(* No operation, accepted or rejected, ever performs an out-of-bounds access or
   trips an internal assertion (the spill path of readFd included). *)
Theorem C10_in_bounds : forall st s o, reach st s -> step st o <> Fault.
Proof. exact in_bounds. Qed.
Print Assumptions C10_in_bounds.

Theorem C10_readfd : forall st s avail, reach st s ->
  let cap := readFd_capacity (fst st) in
  let n := Nat.min cap (length avail) in
  exists st', step st (ReadFd (KData avail)) =
                Ok (st', ORead (mkRfd (Z.of_nat n) (readFd_iovcnt (fst st)) (writableBytes (fst st)) None)) /\
              readable (fst st') = readable (fst st) ++ firstn n avail /\
              readable (snd st') = readable (snd st).
Proof. exact readfd_exact. Qed.
Print Assumptions C10_readfd.

(* readv failed (n < 0): nothing in either buffer changes -- the concrete state, not only the
   readable bytes -- the call returns -1 and the errno value reaches *savedErrno. *)
Theorem C10_readfd_error : forall st e,
  step st (ReadFd (KErr e)) =
  Ok (st, ORead (mkRfd (-1) (readFd_iovcnt (fst st)) (writableBytes (fst st)) (Some e))).
Proof. exact readfd_error. Qed.
Print Assumptions C10_readfd_error.

(* the iovec choice: extrabuf is offered exactly when writable < sizeof extrabuf, the capacity
   offered to the kernel is the sum of the offered iovecs, at most 128 KiB - 1 when extrabuf is used *)
Theorem C10_readfd_iovcnt : forall b,
  readFd_iovcnt b = (if writableBytes b <? kExtraBuf then 2 else 1) /\
  readFd_capacity b = writableBytes b + (if readFd_iovcnt b =? 2 then kExtraBuf else 0) /\
  readFd_capacity b < 2 * Nat.max (writableBytes b) kExtraBuf + 1 /\
  (readFd_iovcnt b = 2 -> readFd_capacity b <= 2 * kExtraBuf - 1).
Proof. exact readfd_iovcnt. Qed.
Print Assumptions C10_readfd_iovcnt.

(* internalCapacity(): the model's answer is buffer_.size(), the lower bound std::vector
   guarantees for capacity(); it equals prependable + readable + writable *)
Theorem C10_capacity_bound : forall st s, reach st s ->
  step st InternalCapacity =
    Ok (st, ONat (prependableBytes (fst st) + readableBytes (fst st) + writableBytes (fst st))) /\
  internalCapacity_lb (fst st) = length (store (fst st)).
Proof. exact capacity_bound. Qed.
Print Assumptions C10_capacity_bound.

(* shrink(reserve): the content is kept (C10_refines_fifo), at least [reserve] bytes are writable
   afterwards and the prepend area is fresh *)
Theorem C10_shrink_reserve : forall st s r st' o, reach st s ->
  step st (Shrink r) = Ok (st', o) ->
  r <= writableBytes (fst st') /\ prependableBytes (fst st') = kCheapPrepend.
Proof. exact shrink_reserve. Qed.
Print Assumptions C10_shrink_reserve.

(* the constructor's assertions *)
Theorem C10_constructor : forall n,
  readableBytes (new_buf n) = 0 /\ writableBytes (new_buf n) = n /\
  prependableBytes (new_buf n) = kCheapPrepend /\ readable (new_buf n) = [].
Proof. exact constructor_asserts. Qed.
Print Assumptions C10_constructor.

(* "at least 8 prependable bytes are available whenever the caller has not used them":
   any accepted history without prepend / prependIntN, from any initial sizes *)
Theorem C10_cheap_prepend_unused : forall n m ops st outs,
  run (new_buf n, new_buf m) ops = Ok (st, outs) ->
  forallb (fun o => negb (prepends o)) ops = true ->
  kCheapPrepend <= prependableBytes (fst st) /\ kCheapPrepend <= prependableBytes (snd st).
Proof. exact cheap_prepend_unused. Qed.
Print Assumptions C10_cheap_prepend_unused.

Theorem C10_prepend_accepted_when_unused : forall n m ops st outs d,
  run (new_buf n, new_buf m) ops = Ok (st, outs) ->
  forallb (fun o => negb (prepends o)) ops = true ->
  length d <= kCheapPrepend ->
  exists st', step st (Prepend d) = Ok (st', OUnit) /\
              readable (fst st') = d ++ readable (fst st).
Proof. exact prepend_accepted_when_unused. Qed.
Print Assumptions C10_prepend_accepted_when_unused.

(* integers: for each of the four widths, every value in the signed range comes back from
   peekIntN and readIntN, and readIntN removes exactly its bytes *)
Theorem C10_int_roundtrip_append : forall st s w x st1 o1,
  reach st s -> fst s = [] -> signed_range (wbytes w) x ->
  step st (AppendInt w x) = Ok (st1, o1) ->
  step st1 (PeekInt w) = Ok (st1, OInt x) /\ readable (fst st1) = be_encode (wbytes w) x /\
  exists st2, step st1 (ReadInt w) = Ok (st2, OInt x) /\ readable (fst st2) = [].
Proof. exact append_peek_roundtrip. Qed.
Print Assumptions C10_int_roundtrip_append.

Theorem C10_int_roundtrip_prepend : forall st s w x st1 o1,
  reach st s -> signed_range (wbytes w) x ->
  step st (PrependInt w x) = Ok (st1, o1) ->
  step st1 (PeekInt w) = Ok (st1, OInt x) /\
  readable (fst st1) = be_encode (wbytes w) x ++ readable (fst st) /\
  exists st2, step st1 (ReadInt w) = Ok (st2, OInt x) /\ readable (fst st2) = readable (fst st).
Proof. exact prepend_peek_roundtrip. Qed.
Print Assumptions C10_int_roundtrip_prepend.

(* network byte order: most significant byte first, two's complement *)
Theorem C10_big_endian : forall n x, be_decode (be_encode n x) = (x mod 256 ^ Z.of_nat n)%Z.
Proof. exact be_decode_encode. Qed.
Print Assumptions C10_big_endian.

(* searches: [o] is the start-pointer overload with start = peek() + off, or the plain
   overload (off = 0).  Accepted exactly for peek() <= start <= beginWrite(); the result is the
   first match at or after start, wholly inside the readable region. *)
Theorem C10_find_first_crlf : forall st s off r o, reach st s ->
  o = FindCRLF off \/ (o = FindCRLF0 /\ off = 0%Z) ->
  step st o = Ok (st, OIdx r) ->
  let l := readable (fst st) in
  let from := Z.to_nat off in
  (0 <= off <= Z.of_nat (length l))%Z /\
  match r with
  | Some i => from <= i /\ crlf_at l i /\ S i < length l /\
              forall j, from <= j < i -> ~ crlf_at l j
  | None => forall j, from <= j -> ~ crlf_at l j
  end.
Proof. exact find_first_crlf. Qed.
Print Assumptions C10_find_first_crlf.

Theorem C10_find_first_eol : forall st s off r o, reach st s ->
  o = FindEOL off \/ (o = FindEOL0 /\ off = 0%Z) ->
  step st o = Ok (st, OIdx r) ->
  let l := readable (fst st) in
  let from := Z.to_nat off in
  (0 <= off <= Z.of_nat (length l))%Z /\
  match r with
  | Some i => from <= i /\ eol_at l i /\ i < length l /\
              forall j, from <= j < i -> ~ eol_at l j
  | None => forall j, from <= j -> ~ eol_at l j
  end.
Proof. exact find_first_eol. Qed.
Print Assumptions C10_find_first_eol.

(* ---- the source's own comparisons, assertions, index assignments and size arguments
   (Gen_C10, regenerated from the clang AST of Buffer.h / Buffer.cc on every run) are the
   ones of the model.  Every generated fact is a function over the record [obs] of NAMED
   observables (o_readerIndex, o_writerIndex, o_buffer_size, o_readableBytes, o_writableBytes,
   o_prependableBytes, o_peek, o_beginWrite, o_kCheapPrepend, o_len, o_n, ...): it is evaluated
   on [buf_obs b B e] = the model's values for buffer [b] under those names (B = begin(), an
   arbitrary address), every name that is not in scope taken from an ARBITRARY record [e], the
   parameters / locals in scope set by name.  A source operand replaced by another observable
   therefore changes the value of the fact (it is not a matter of argument position).
   Zn = Z.of_nat. ------------------------------------------------------------------------ *)
Local Notation Zn := Z.of_nat.

Theorem C10_gen_constructor : forall n B e,
  let o0 := set_initialSize (Zn n) (set_kCheapPrepend kCP e) in
  let o := set_initialSize (Zn n) (buf_obs (new_buf n) B e) in
  Buffer_init_buffer o0 = Zn (length (store (new_buf n))) /\
  Buffer_init_readerIndex o0 = Zn (ridx (new_buf n)) /\
  Buffer_init_writerIndex o0 = Zn (widx (new_buf n)) /\
  Buffer_assert0 o = true /\
  Buffer_assert1 o = true /\
  Buffer_assert2 o = true.
Proof. exact gen_constructor. Qed.
Print Assumptions C10_gen_constructor.

(* the bodies of the three size observers read the private members only *)
Theorem C10_gen_observers : forall b e, ridx b <= widx b -> widx b <= length (store b) ->
  readableBytes_ret (mem_obs b e) = Zn (readableBytes b) /\
  writableBytes_ret (mem_obs b e) = Zn (writableBytes b) /\
  prependableBytes_ret (mem_obs b e) = Zn (prependableBytes b).
Proof. exact gen_observers. Qed.
Print Assumptions C10_gen_observers.

Theorem C10_gen_pointer_asserts : forall b B off e, ridx b <= widx b ->
  let os := set_start (B + Zn (ridx b) + off)%Z (buf_obs b B e) in
  let oe := set_end (B + Zn (ridx b) + off)%Z (buf_obs b B e) in
  (findCRLF1_assert0 os && findCRLF1_assert1 os = ptr_ok off b) /\
  (findEOL1_assert0 os && findEOL1_assert1 os = ptr_ok off b) /\
  (retrieveUntil_assert0 oe && retrieveUntil_assert1 oe = ptr_ok off b) /\
  retrieveUntil_call0_retrieve oe = off.
Proof. exact gen_pointer_asserts. Qed.
Print Assumptions C10_gen_pointer_asserts.

Theorem C10_gen_retrieve : forall b n B e,
  let o := set_len (Zn n) (buf_obs b B e) in
  retrieve_assert0 o = (n <=? readableBytes b) /\
  retrieve_if0 o = (n <? readableBytes b) /\
  retrieve_set0_readerIndex o = Zn (ridx b + n) /\
  retrieveAll_set0_readerIndex (buf_obs b B e) = Zn (ridx (retrieveAll b)) /\
  retrieveAll_set1_writerIndex (buf_obs b B e) = Zn (widx (retrieveAll b)) /\
  retrieveAsString_assert0 o = (n <=? readableBytes b) /\
  retrieveAsString_call0_retrieve o = Zn n /\
  retrieveAllAsString_call0_retrieveAsString (buf_obs b B e) = Zn (readableBytes b).
Proof. exact gen_retrieve. Qed.
Print Assumptions C10_gen_retrieve.

Theorem C10_gen_widths : forall e,
  retrieveInt64_call0_retrieve e = Zn (wbytes W64) /\ retrieveInt32_call0_retrieve e = Zn (wbytes W32) /\
  retrieveInt16_call0_retrieve e = Zn (wbytes W16) /\ retrieveInt8_call0_retrieve e = Zn (wbytes W8) /\
  appendInt64_call0_append e = Zn (wbytes W64) /\ appendInt32_call0_append e = Zn (wbytes W32) /\
  appendInt16_call0_append e = Zn (wbytes W16) /\ appendInt8_call0_append e = Zn (wbytes W8) /\
  prependInt64_call0_prepend e = Zn (wbytes W64) /\ prependInt32_call0_prepend e = Zn (wbytes W32) /\
  prependInt16_call0_prepend e = Zn (wbytes W16) /\ prependInt8_call0_prepend e = Zn (wbytes W8).
Proof. exact gen_widths. Qed.
Print Assumptions C10_gen_widths.

Theorem C10_gen_peekInt_asserts : forall b B e,
  peekInt64_assert0 (buf_obs b B e) = (wbytes W64 <=? readableBytes b) /\
  peekInt32_assert0 (buf_obs b B e) = (wbytes W32 <=? readableBytes b) /\
  peekInt16_assert0 (buf_obs b B e) = (wbytes W16 <=? readableBytes b) /\
  peekInt8_assert0 (buf_obs b B e) = (wbytes W8 <=? readableBytes b).
Proof. exact gen_peekInt_asserts. Qed.
Print Assumptions C10_gen_peekInt_asserts.

Theorem C10_gen_write_side : forall b n B e,
  let o := set_len (Zn n) (buf_obs b B e) in
  ensureWritableBytes_if0 o = (writableBytes b <? n) /\
  ensureWritableBytes_call0_makeSpace o = Zn n /\
  ensureWritableBytes_assert0 o = (n <=? writableBytes b) /\
  hasWritten_assert0 o = (n <=? writableBytes b) /\
  hasWritten_set0_writerIndex o = Zn (widx b + n) /\
  unwrite_assert0 o = (n <=? readableBytes b) /\
  (n <= widx b -> unwrite_set0_writerIndex o = Zn (widx b - n)) /\
  prepend_assert0 o = (n <=? prependableBytes b) /\
  (n <= ridx b -> prepend_set0_readerIndex o = Zn (ridx b - n)) /\
  shrink_call0_ensureWritableBytes (set_reserve (Zn n) (buf_obs b B e)) = Zn (readableBytes b + n).
Proof. exact gen_write_side. Qed.
Print Assumptions C10_gen_write_side.

(* compaction branch: `readable` = the local copy of readableBytes() taken before the indices
   move; set1 reads the reader index set0 has just stored; assert1 holds of the buffer after
   both assignments *)
Theorem C10_gen_makeSpace : forall b len B e, ridx b <= widx b ->
  let o := set_len (Zn len) (buf_obs b B e) in
  let o1 := set_readable (Zn (readableBytes b)) o in
  let b' := mkBuf (store b) kCheapPrepend (kCheapPrepend + readableBytes b) 0 in
  makeSpace_if0 o = (writableBytes b + prependableBytes b <? len + kCheapPrepend) /\
  makeSpace_call0_resize o = Zn (widx b + len) /\
  makeSpace_assert0 o = (kCheapPrepend <? ridx b) /\
  makeSpace_set0_readerIndex o1 = Zn kCheapPrepend /\
  makeSpace_set1_writerIndex (set_readerIndex (makeSpace_set0_readerIndex o1) o1)
    = Zn (kCheapPrepend + readableBytes b) /\
  makeSpace_assert1 (set_readable (Zn (readableBytes b)) (set_len (Zn len) (buf_obs b' B e))) = true.
Proof. exact gen_makeSpace. Qed.
Print Assumptions C10_gen_makeSpace.

(* `writable` = the local copy of writableBytes() taken on entry, `n` = the result of readv *)
Theorem C10_gen_readFd : forall b n B e,
  let o := set_n (Zn n) (set_writable (Zn (writableBytes b)) (buf_obs b B e)) in
  let oerr := set_n (-1)%Z (set_writable (Zn (writableBytes b)) (buf_obs b B e)) in
  readFd_set0_iov_len o = Zn (writableBytes b) /\
  readFd_set1_iov_len o = Zn kExtraBuf /\
  readFd_let_iovcnt o = Zn (readFd_iovcnt b) /\
  readFd_if0 oerr = true /\ readFd_if0 o = false /\
  readFd_if1 o = (n <=? writableBytes b) /\
  readFd_set2_writerIndex o = Zn (widx b + n) /\
  readFd_set3_writerIndex o = Zn (length (store b)) /\
  (writableBytes b <= n -> readFd_call0_append o = Zn (n - writableBytes b)) /\
  readFd_ret o = Zn n /\ readFd_ret oerr = (-1)%Z.
Proof. exact gen_readFd. Qed.
Print Assumptions C10_gen_readFd.

Theorem C10_gen_append_lengths : forall b n B off e, ridx b <= widx b ->
  let o := set_len (Zn n) (buf_obs b B e) in
  let os := set_start (B + Zn (ridx b) + off)%Z (buf_obs b B e) in
  append1_call0_append (set_size (Zn n) (buf_obs b B e)) = Zn n /\
  append2_void_call0_append o = Zn n /\
  append2_char_call0_ensureWritableBytes o = Zn n /\
  append2_char_call1_hasWritten o = Zn n /\
  findEOL0_memchr0_len (buf_obs b B e) = Zn (readableBytes b) /\
  findEOL1_memchr0_len os = (Zn (readableBytes b) - off)%Z /\
  peekInt64_memcpy0_len e = Zn (wbytes W64) /\ peekInt32_memcpy0_len e = Zn (wbytes W32) /\
  peekInt16_memcpy0_len e = Zn (wbytes W16) /\
  retrieveAsString_string0_len o = Zn n.
Proof. exact gen_append_lengths. Qed.
Print Assumptions C10_gen_append_lengths.

(* ---- the statement TREES (review E-3): Gen_C10.<f>_tree is the control structure of member function f
   with every generated fact at its place (SAssert / SSet member / SLet local / SCall callee [integer args] /
   SIf cond then else / SRet / SOther).  [exec B tree b L] interprets a tree on a MODEL buffer: conditions and
   expressions on [buf_obs b B L] (L holds the parameters / locals by name), SSet stores an index, SCall runs the
   MODEL's function of that name ([call_sem]), SAssert stops with Failed; data movement (SOther: std::copy,
   memcpy) is not interpreted, so the comparison is on the index skeleton [sk] = (readerIndex_, writerIndex_,
   buffer_.size()) -- [agrees].  The interpreted tree of the CURRENT source IS the model's function: swapping the
   branches of an if, moving a statement across a branch, dropping or duplicating an index store or a call
   breaks these. *)
Theorem C10_tree_retrieve : forall b n B e,
  agrees (exec B retrieve_tree b (set_len (Zn n) e)) (retrieve n b).
Proof. exact tree_retrieve. Qed.
Print Assumptions C10_tree_retrieve.

Theorem C10_tree_ensureWritableBytes : forall b n B e,
  agrees (exec B ensureWritableBytes_tree b (set_len (Zn n) e)) (ensureWritable n b).
Proof. exact tree_ensureWritableBytes. Qed.
Print Assumptions C10_tree_ensureWritableBytes.

Theorem C10_tree_makeSpace : forall b len B e, ridx b <= widx b -> widx b <= length (store b) ->
  agrees (exec B makeSpace_tree b (set_len (Zn len) e)) (makeSpace len b).
Proof. exact tree_makeSpace. Qed.
Print Assumptions C10_tree_makeSpace.

(* readFd: [n] = the result of readv, supplied by name (the tree has SHavoc "n"); the returned value is compared too *)
Theorem C10_tree_readFd : forall b l k B e, Inv b l ->
  let nZ := match k with KData avail => Zn (length (firstn (readFd_capacity b) avail)) | KErr _ => (-1)%Z end in
  agrees_rd (exec B readFd_tree b (set_n nZ e)) (readFd k b).
Proof. exact tree_readFd. Qed.
Print Assumptions C10_tree_readFd.

Theorem C10_tree_straight_line : forall b l n d off B e, Inv b l ->
  agrees (exec B hasWritten_tree b (set_len (Zn n) e)) (hasWritten_idx n b) /\
  agrees (exec B unwrite_tree b (set_len (Zn n) e)) (unwrite n b) /\
  agrees (exec B prepend_tree b (set_len (Zn (length d)) e)) (prepend d b) /\
  agrees (exec B append2_char_tree b (set_len (Zn (length d)) e)) (append d b) /\
  agrees (exec B retrieveUntil_tree b (set_end (B + Zn (ridx b) + off)%Z e)) (retrieveUntil off b) /\
  exec B retrieveAll_tree b e = Done (mkBuf (store b) (ridx (retrieveAll b)) (widx (retrieveAll b)) (up b)) e.
Proof.
  intros b l n d off B e HI. pose proof (inv_sizes b l HI) as (S1 & S2 & _).
  exact (conj (tree_hasWritten b n B e) (conj (tree_unwrite b n B e S1) (conj (tree_prepend b d B e S1 S2)
        (conj (tree_append b l d B e HI) (conj (tree_retrieveUntil b off B e S1) (tree_retrieveAll b B e)))))).
Qed.
Print Assumptions C10_tree_straight_line.

(* hasWritten_idx is hasWrittenBytes without the bytes *)
Theorem C10_hasWritten_idx : forall d b,
  match hasWrittenBytes d b with
  | Ok b1 => exists b2, hasWritten_idx (length d) b = Ok b2 /\ sk b1 = sk b2
  | Rejected => hasWritten_idx (length d) b = Rejected
  | Fault => True
  end.
Proof. exact hasWritten_idx_spec. Qed.
Print Assumptions C10_hasWritten_idx.

(* both branches of retrieve / makeSpace are taken by the interpreter on concrete buffers *)
Example ex_tree_branches : forall e,
  let b := mkBuf (repeat x00 40) 12 20 0 in           (* readable 8, writable 20, prependable 12 *)
  exec 0%Z retrieve_tree b (set_len 3%Z e) = Done (mkBuf (store b) 15 20 0) (set_len 3%Z e) /\
  exec 0%Z retrieve_tree b (set_len 8%Z e) = Done (mkBuf (store b) 8 8 0) (set_len 8%Z e) /\
  exec 0%Z retrieve_tree b (set_len 9%Z e) = Failed /\
  exec 0%Z makeSpace_tree b (set_len 24%Z e) = Done (mkBuf (store b) 8 16 0) (set_readable 8%Z (set_len 24%Z e)) /\   (* compaction *)
  match exec 0%Z makeSpace_tree b (set_len 25%Z e) with Done b' _ => sk b' = (12, 20, 45) | _ => False end.       (* growth *)
Proof.
  intro e. cbn zeta.
  split; [vm_compute; reflexivity|]. split; [vm_compute; reflexivity|]. split; [vm_compute; reflexivity|].
  split; [vm_compute; reflexivity|]. vm_compute. reflexivity.
Qed.

(* ---- several Buffers in one process (seeded change C01_4) --------------------------------------------------
   The models are per object; a process with several Buffers (every connection has two, on several io threads) is the
   PRODUCT of their models if the objects share no state.  That is the obligation read off the clang AST of the
   current sources: the spill area `extrabuf` of Buffer::readFd is an automatic local (not static / thread_local /
   extern), class Buffer has no static data member other than the static const constants, no member function has a
   static local or refers to a non-const variable outside its object.  (Also exercised: the forced two-thread readFd
   case of the differential run, RF2.) *)
Theorem C10_buffers_share_no_state_generated :
  readFd_extrabuf_is_automatic = true /\ Buffer_shares_no_state = true.
Proof. exact C10_buffers_share_no_state. Qed.
Print Assumptions C10_buffers_share_no_state_generated.

(* the product theorem the obligation justifies: for ANY interleaving of the operations on two Buffer systems
   ([bsys] = a buffer pair with the outputs it produced, [bstep] = step_c, a refused op leaves it alone), each one
   is its own model run on its own operations in their order, whatever was done to the other *)
Theorem C10_buffers_independent : forall (ops : list (op + op)) (s : bsys * bsys),
  pair_run _ _ _ _ bstep bstep s ops = (brun (fst s) (lefts _ _ ops), brun (snd s) (rights _ _ ops)).
Proof. exact buffers_independent. Qed.
Print Assumptions C10_buffers_independent.

(* two buffers whose reads both spill, interleaved: each ends with exactly the bytes of its own descriptor *)
Example ex_two_spills :
  let a := repeat x41 30 in let b := repeat x42 40 in
  let s := pair_run _ _ _ _ bstep bstep (((new_buf 8, new_buf 0), []), ((new_buf 16, new_buf 0), []))
             [inl (ReadFd (KData a)); inr (ReadFd (KData b)); inl ToStringPiece; inr ToStringPiece] in
  readable (fst (fst (fst s))) = a /\ readable (fst (fst (snd s))) = b.
Proof. vm_compute. split; reflexivity. Qed.

(* ---- the int casts of toStringPiece() / shrink() (review B-3) -----------------------------
   Buffer.h:174 static_cast<int>(readableBytes()), Buffer.h:179/367 int StringPiece::size().
   [step] (all theorems above) ignores them; [step_c] models them (length wrapped to a signed
   32-bit int).  The source has exactly these two casts, both 32 bits wide (generated). *)
Theorem C10_gen_int_casts : forall b B e,
  narrowing_casts = 1%Z /\ signed_widening_casts = 1%Z /\
  toStringPiece_narrow0 = int_bits /\ append1_widen_signed0 = int_bits /\
  int_cast (toStringPiece_narrow0_arg (buf_obs b B e)) = toStringPiece_len b.
Proof. exact gen_int_casts. Qed.
Print Assumptions C10_gen_int_casts.

(* below 2^31 readable bytes the faithful step IS the step all theorems above are about;
   ops other than toStringPiece / shrink never see the cast *)
Theorem C10_cast_invisible_below_2_31 : forall st o,
  (Zn (readableBytes (fst st)) < 2 ^ 31)%Z -> step_c st o = step st o.
Proof. exact step_c_eq. Qed.
Print Assumptions C10_cast_invisible_below_2_31.

Theorem C10_cast_only_two_ops : forall st o,
  o <> ToStringPiece -> (forall r, o <> Shrink r) -> step_c st o = step st o.
Proof. exact step_c_other. Qed.
Print Assumptions C10_cast_only_two_ops.

(* PARTIAL: the refinement theorem for the faithful step holds under the STATED bound
   "fewer than 2^31 readable bytes" (the extra hypothesis; nothing else is missing) *)
Theorem C10_refines_fifo_cast_partial : forall st s, reach st s ->
  (Zn (length (fst s)) < 2 ^ 31)%Z ->
  readable (fst st) = fst s /\ readable (snd st) = snd s /\
  forall o,
    if guard (fst st) o then
      exists st', step_c st o = Ok (st', snd (spec_step s (fst st) o)) /\
                  reach st' (fst (spec_step s (fst st) o))
    else step_c st o = Rejected.
Proof. exact refines_fifo_cast. Qed.
Print Assumptions C10_refines_fifo_cast_partial.

Theorem C10_in_bounds_cast_partial : forall st s o, reach st s ->
  (Zn (length (fst s)) < 2 ^ 31)%Z -> step_c st o <> Fault.
Proof. exact in_bounds_cast. Qed.
Print Assumptions C10_in_bounds_cast_partial.

(* REFUTED beyond the bound: a legal history (one append of 2^31 bytes to a fresh buffer; the
   list is never computed) reaches a state where toStringPiece() yields a negative length and
   shrink() is not a FIFO operation (append(data, (size_t)negative): std::length_error) ... *)
Theorem C10_shrink_keeps_content_refuted :
  exists st s r, reach st s /\ step_c st (Shrink r) = Fault /\ step_c st ToStringPiece = Fault.
Proof. exact shrink_keeps_content_refuted. Qed.
Print Assumptions C10_shrink_keeps_content_refuted.

(* ... and with 2^32 + 5 readable bytes shrink() succeeds and silently keeps 5 of them *)
Theorem C10_shrink_truncates_refuted :
  exists st s r st', reach st s /\ step_c st (Shrink r) = Ok (st', OUnit) /\
    length (readable (fst st')) < length (readable (fst st)).
Proof. exact shrink_truncates_refuted. Qed.
Print Assumptions C10_shrink_truncates_refuted.

(* the exact behaviour in the two windows above the bound *)
Theorem C10_beyond_int_negative : forall st s r, reach st s ->
  (2 ^ 31 <= Zn (length (fst s)) < 2 ^ 32)%Z ->
  step_c st ToStringPiece = Fault /\ step_c st (Shrink r) = Fault.
Proof. exact beyond_int_negative. Qed.
Print Assumptions C10_beyond_int_negative.

Theorem C10_beyond_int_truncates : forall st s r, reach st s ->
  (2 ^ 32 <= Zn (length (fst s)) < 2 ^ 32 + 2 ^ 31)%Z ->
  let k := Z.to_nat (Zn (length (fst s)) - 2 ^ 32) in
  exists st', step_c st (Shrink r) = Ok (st', OUnit) /\
    readable (fst st') = firstn k (fst s) /\ k < length (fst s) /\
    step_c st ToStringPiece = Ok (st, OBytes (firstn k (fst s))).
Proof. exact beyond_int_truncates. Qed.
Print Assumptions C10_beyond_int_truncates.

Example ex_int_cast :
  int_cast 2147483647 = 2147483647%Z /\ int_cast 2147483648 = (-2147483648)%Z /\
  int_cast 4294967295 = (-1)%Z /\ int_cast 4294967301 = 5%Z.
Proof. exact int_cast_examples. Qed.

(* the bound's hypothesis is inhabited by every small history, and step_c runs there *)
Example ex_step_c : exists st, step_c (new_buf 8, new_buf 0) (Shrink 3) = Ok (st, OUnit) /\
  step_c (new_buf 8, new_buf 0) ToStringPiece = Ok ((new_buf 8, new_buf 0), OBytes []).
Proof. vm_compute. eexists. split; reflexivity. Qed.

(* the named record is not a disguise for positions: two records that differ only in the value
   filed under one name give different answers exactly for the facts that read that name *)
Example ex_named_operands : forall e,
  let b := mkBuf (repeat x00 20) 8 10 0 in        (* readable 2, writable 10, writerIndex_ 10 *)
  retrieve_assert0 (set_len 5%Z (buf_obs b 0%Z e)) = false /\
  hasWritten_assert0 (set_len 5%Z (buf_obs b 0%Z e)) = true /\
  retrieve_assert0 (set_len 5%Z (set_readableBytes 10%Z (buf_obs b 0%Z e))) = true.
Proof. intro e. vm_compute. repeat split. Qed.

(* ---- non-vacuity: a concrete history that compacts, grows, prepends, spills, fails a
   read, and uses every new member ------------------------------------------------------- *)
Definition ex_ops : list op :=
  [ Append (repeat x41 20); Retrieve 15; Append (repeat x42 18);   (* compaction: 32-byte buffer *)
    PrependInt W32 (-2)%Z; Append (repeat x43 40);                  (* growth *)
    ReadFd (KData (repeat x44 100)); PeekInt W32; FindEOL 0%Z; Swap; Append [x0d; x0a]; FindCRLF 0%Z;
    Swap; ReadFd (KErr 11%Z); RetrieveInt W32; RetrieveUntil 5%Z; ToStringPiece; InternalCapacity;
    Assign; RetrieveAllAsString; FindCRLF0 ].

Example ex_run_ok :
  exists st outs, run (new_buf 24, new_buf 0) ex_ops = Ok (st, outs) /\
    nth_error outs 5 = Some (ORead (mkRfd 100 2 0 None)) /\ nth_error outs 6 = Some (OInt (-2)%Z) /\
    nth_error outs 10 = Some (OIdx (Some 0)) /\
    nth_error outs 12 = Some (ORead (mkRfd (-1) 2 0 (Some 11%Z))) /\
    length (readable (snd st)) = 18 + 40 + 100 /\ readable (fst st) = [].
Proof. vm_compute. eexists _, _. repeat split. Qed.

(* violated preconditions (start before peek(), end beyond beginWrite(), too few bytes) *)
Example ex_rejected : step (new_buf 8, new_buf 0) (FindEOL (-1)%Z) = Rejected /\
  step (new_buf 8, new_buf 0) (RetrieveUntil 1%Z) = Rejected /\
  step (new_buf 8, new_buf 0) (PeekInt W8) = Rejected.
Proof. vm_compute. repeat split. Qed.

Example ex_reach : exists st s, reach st s /\ fst s <> [] /\ ridx (fst st) <> kCheapPrepend.
Proof.
  destruct (run (new_buf 24, new_buf 0) [Append [x41; x42; x43]; Retrieve 1]) as [[st outs]| |] eqn:E;
    try (vm_compute in E; discriminate).
  exists st, (spec_run (new_buf 24, new_buf 0) ([], []) [Append [x41; x42; x43]; Retrieve 1]).
  split; [eapply run_reach; [apply reach_init|exact E]|].
  vm_compute in E. injection E as <- _. vm_compute. split; discriminate.
Qed.

(* both iovec choices occur; the hypotheses of C10_cheap_prepend_unused are inhabited by a
   history that grows, compacts and spills *)
Example ex_iovcnt : readFd_iovcnt (new_buf 0) = 2 /\ readFd_iovcnt (new_buf (kExtraBuf)) = 1.
Proof. vm_compute. split; reflexivity. Qed.

Example ex_unused : exists st outs,
  run (new_buf 16, new_buf 0) [Append (repeat x41 12); Retrieve 10; Append (repeat x42 12);
                               Append (repeat x43 30); ReadFd (KData (repeat x44 70)); Shrink 3; Swap] = Ok (st, outs) /\
  forallb (fun o => negb (prepends o))
    [Append (repeat x41 12); Retrieve 10; Append (repeat x42 12);
     Append (repeat x43 30); ReadFd (KData (repeat x44 70)); Shrink 3; Swap] = true.
Proof. vm_compute. eexists _, _. split; reflexivity. Qed.

(* PINNED SHAPES (review F-2): the shape of EVERY generated tree ([all_trees]: 49 member functions) -- statements, order,
   branch, every call with the number of its integer arguments, every local that is the bare result of a free call --
   equals the committed list C10_GenLink.expected_shapes (re-pinned on purpose when the source legitimately changes).
   For the trees without an [exec] theorem above (one-line wrappers, readIntN = peekIntN THEN retrieveIntN,
   peekIntN = assert BEFORE memcpy, find*(start), shrink, swap, the constructor) this is the tie: deleting, adding
   or reordering a statement or a call in any member function breaks it. *)
Theorem C10_tree_shapes_all : shapes_of all_trees = expected_shapes.
Proof. exact tree_shapes_all. Qed.
Print Assumptions C10_tree_shapes_all.

(* what is handed to sockets::readv: the descriptor and the iovcnt computed just before; n is the bare result *)
Theorem C10_gen_readv_args : forall b B e,
  let o := set_writable (Zn (writableBytes b)) (buf_obs b B e) in
  readFd_readv0_arg0 o = o_fd e /\
  readFd_readv0_arg2 (set_iovcnt (readFd_let_iovcnt o) o) = Zn (readFd_iovcnt b).
Proof. exact gen_readv_args. Qed.
Print Assumptions C10_gen_readv_args.

(* the model's unbounded indices and sizes are faithful: readerIndex_, writerIndex_, the three size observers
   (unsigned) and readFd's signed result are 64-bit carriers (widths regenerated from the current header), so every
   value below 2^63 is kept unchanged; an `int` index or a 32-bit size observer breaks this statement *)
Theorem C10_index_width_faithful : forall n, (0 <= n < 2 ^ 63)%Z ->
  uwrap Buffer_readerIndex_bits n = n /\ uwrap Buffer_writerIndex_bits n = n /\
  uwrap Buffer_readableBytes_bits n = n /\ uwrap Buffer_writableBytes_bits n = n /\
  uwrap Buffer_prependableBytes_bits n = n /\ swrap10 Buffer_readFd_result_bits n = n /\
  Buffer_size_is_unsigned = 1%Z.
Proof. exact buffer_width_faithful. Qed.
Print Assumptions C10_index_width_faithful.
