(* Properties_C10: Buffer behaves as an unbounded FIFO byte queue with a prepend area.
   Only statements, closed by [exact], with Print Assumptions and non-vacuity examples.
   The model (C10_Model) is tied to muduo/net/Buffer.{h,cc} by the correspondence
   check (bin/check C10) and by the regenerated constants (Gen_Consts). *)
From Coq Require Import List ZArith Lia Bool Arith NArith.
From Coq.Strings Require Import Byte.
From Muduo Require Import Base_Bytes Gen_Consts C10_Model C10_Proofs.
Import ListNotations.

(* Every reachable concrete state [st] (any initial sizes, any accepted operation
   sequence) represents the abstract FIFO contents [s]; an operation is rejected
   exactly when its documented precondition (over the public size observers) fails,
   never faults, and otherwise produces the abstract output and abstract next state.
   spec_step says what does NOT change too: e.g. Append keeps the old content as a
   prefix, Retrieve removes only a prefix, EnsureWritable/Shrink keep the content,
   all ops but Swap leave the second buffer alone. *)
Theorem C10_refines_fifo : forall st s, reach st s ->
  readable (fst st) = fst s /\ readable (snd st) = snd s /\
  forall o,
    if guard (fst st) o then
      exists st', step st o = Ok (st', snd (spec_step s (readFd_capacity (fst st)) o)) /\
                  reach st' (fst (spec_step s (readFd_capacity (fst st)) o))
    else step st o = Rejected.
Proof. exact refines_fifo. Qed.
Print Assumptions C10_refines_fifo.

Theorem C10_run_reaches : forall st s ops st' outs,
  reach st s -> run st ops = Ok (st', outs) -> reach st' (spec_run st s ops).
Proof. exact run_reach. Qed.
Print Assumptions C10_run_reaches.

Theorem C10_sizes_consistent : forall st s, reach st s ->
  let b := fst st in
  ridx b <= widx b /\ widx b <= length (store b) /\
  readableBytes b = length (fst s) /\
  prependableBytes b + readableBytes b + writableBytes b = length (store b).
Proof. exact sizes_consistent. Qed.
Print Assumptions C10_sizes_consistent.

Theorem C10_ensure_writable : forall st s n st' o, reach st s ->
  step st (EnsureWritable n) = Ok (st', o) -> n <= writableBytes (fst st').
Proof. exact ensure_writable_post. Qed.
Print Assumptions C10_ensure_writable.

(* [up] is a ghost counter of the bytes the caller prepended since the reader
   index was last reset; with up = 0 this is "prependableBytes >= kCheapPrepend". *)
Theorem C10_cheap_prepend : forall st s, reach st s ->
  kCheapPrepend <= prependableBytes (fst st) + up (fst st).
Proof. exact cheap_prepend. Qed.
Print Assumptions C10_cheap_prepend.

(* No operation, accepted or rejected, ever performs an out-of-bounds access or
   trips an internal assertion (the spill path of readFd included). *)
Theorem C10_in_bounds : forall st s o, reach st s -> step st o <> Fault.
Proof. exact in_bounds. Qed.
Print Assumptions C10_in_bounds.

Theorem C10_readfd : forall st s avail, reach st s ->
  let cap := readFd_capacity (fst st) in
  let n := Nat.min cap (length avail) in
  exists st', step st (ReadFd avail) = Ok (st', ONat n) /\
              readable (fst st') = readable (fst st) ++ firstn n avail /\
              readable (snd st') = readable (snd st).
Proof. exact readfd_exact. Qed.
Print Assumptions C10_readfd.

Theorem C10_readfd_capacity : forall b,
  readFd_capacity b =
  if writableBytes b <? kExtraBuf then writableBytes b + kExtraBuf else writableBytes b.
Proof. reflexivity. Qed.

Theorem C10_int_roundtrip_append : forall st s k x st1 o1,
  reach st s -> fst s = [] -> 0 < k -> signed_range k x ->
  step st (AppendInt k x) = Ok (st1, o1) ->
  step st1 (PeekInt k) = Ok (st1, OInt x) /\ readable (fst st1) = be_encode k x.
Proof. exact append_peek_roundtrip. Qed.
Print Assumptions C10_int_roundtrip_append.

Theorem C10_int_roundtrip_prepend : forall st s k x st1 o1,
  reach st s -> 0 < k -> signed_range k x ->
  step st (PrependInt k x) = Ok (st1, o1) ->
  step st1 (PeekInt k) = Ok (st1, OInt x) /\
  readable (fst st1) = be_encode k x ++ readable (fst st).
Proof. exact prepend_peek_roundtrip. Qed.
Print Assumptions C10_int_roundtrip_prepend.

(* network byte order: most significant byte first, two's complement *)
Theorem C10_big_endian : forall n x, be_decode (be_encode n x) = (x mod 256 ^ Z.of_nat n)%Z.
Proof. exact be_decode_encode. Qed.
Print Assumptions C10_big_endian.

Theorem C10_find_first_crlf : forall st s from r, reach st s ->
  step st (FindCRLF from) = Ok (st, OIdx r) ->
  let l := readable (fst st) in
  from <= length l /\
  match r with
  | Some i => from <= i /\ crlf_at l i /\ S i < length l /\
              forall j, from <= j < i -> ~ crlf_at l j
  | None => forall j, from <= j -> ~ crlf_at l j
  end.
Proof. exact find_first_crlf. Qed.
Print Assumptions C10_find_first_crlf.

Theorem C10_find_first_eol : forall st s from r, reach st s ->
  step st (FindEOL from) = Ok (st, OIdx r) ->
  let l := readable (fst st) in
  from <= length l /\
  match r with
  | Some i => from <= i /\ eol_at l i /\ i < length l /\
              forall j, from <= j < i -> ~ eol_at l j
  | None => forall j, from <= j -> ~ eol_at l j
  end.
Proof. exact find_first_eol. Qed.
Print Assumptions C10_find_first_eol.

(* ---- non-vacuity: a concrete history that compacts, grows, prepends, spills -- *)
Definition ex_ops : list op :=
  [ Append (repeat x41 20); Retrieve 15; Append (repeat x42 18);   (* compaction: 32-byte buffer *)
    PrependInt 4 (-2)%Z; Append (repeat x43 40);                    (* growth *)
    ReadFd (repeat x44 100); PeekInt 4; FindEOL 0; Swap; Append [x0d; x0a]; FindCRLF 0 ].

Example ex_run_ok :
  exists st outs, run (new_buf 24, new_buf 0) ex_ops = Ok (st, outs) /\
    nth_error outs 5 = Some (ONat 100) /\ nth_error outs 6 = Some (OInt (-2)%Z) /\
    nth_error outs 10 = Some (OIdx (Some 0)) /\
    length (readable (snd st)) = 4 + 5 + 18 + 40 + 100.
Proof. vm_compute. eexists _, _. repeat split. Qed.

Example ex_reach : exists st s, reach st s /\ fst s <> [] /\ ridx (fst st) <> kCheapPrepend.
Proof.
  destruct (run (new_buf 24, new_buf 0) [Append [x41; x42; x43]; Retrieve 1]) as [[st outs]| |] eqn:E;
    try (vm_compute in E; discriminate).
  exists st, (spec_run (new_buf 24, new_buf 0) ([], []) [Append [x41; x42; x43]; Retrieve 1]).
  split; [eapply run_reach; [apply reach_init|exact E]|].
  vm_compute in E. injection E as <- _. vm_compute. split; discriminate.
Qed.
