(* Properties_C10: Buffer behaves as an unbounded FIFO byte queue with a prepend area.
   Only statements, closed by [exact], with Print Assumptions and non-vacuity examples.
   The model (C10_Model) is tied to muduo/net/Buffer.{h,cc} by the correspondence
   check (bin/check C10) and by the regenerated constants (Gen_Consts). *)
From Coq Require Import List ZArith Lia Bool Arith NArith.
From Coq.Strings Require Import Byte.
From Muduo Require Import Base_Bytes Gen_Consts Gen_C10 C10_Model C10_Proofs C10_GenLink.
Import ListNotations.

(* Every reachable concrete state [st] (any initial sizes, any accepted operation
   sequence) represents the abstract FIFO contents [s]; an operation is rejected
   exactly when its documented precondition (over the public size observers) fails,
   never faults, and otherwise produces the abstract output and abstract next state.
   spec_step says what does NOT change too: e.g. Append keeps the old content as a
   prefix, Retrieve removes only a prefix, EnsureWritable/Shrink keep the content,
   all ops but Swap / Assign leave the second buffer alone.  The op set is every public
   member of Buffer.h/.cc: append, prepend, retrieve, retrieveUntil, retrieveInt8/16/32/64,
   retrieveAll, retrieveAsString, retrieveAllAsString, toStringPiece, ensureWritableBytes,
   hasWritten, unwrite, shrink, internalCapacity, swap, copy assignment, readFd (data and
   error outcome), append/prepend/peek/readInt8/16/32/64, findCRLF()/findEOL() and their
   start-pointer overloads. *)
Theorem C10_refines_fifo : forall st s, reach st s ->
  readable (fst st) = fst s /\ readable (snd st) = snd s /\
  forall o,
    if guard (fst st) o then
      exists st', step st o = Ok (st', snd (spec_step s (fst st) o)) /\
                  reach st' (fst (spec_step s (fst st) o))
    else step st o = Rejected.
Proof. exact refines_fifo. Qed.
Print Assumptions C10_refines_fifo.

Theorem C10_run_reaches : forall st s ops st' outs,
  reach st s -> run st ops = Ok (st', outs) -> reach st' (spec_run st s ops).
Proof. exact run_reach. Qed.
Print Assumptions C10_run_reaches.

Theorem C10_sizes_consistent : forall st s, reach st s ->
  let b := fst st in
  ridx b <= widx b /\ widx b <= length (store b) /\
  readableBytes b = length (fst s) /\
  prependableBytes b + readableBytes b + writableBytes b = length (store b).
Proof. exact sizes_consistent. Qed.
Print Assumptions C10_sizes_consistent.

Theorem C10_ensure_writable : forall st s n st' o, reach st s ->
  step st (EnsureWritable n) = Ok (st', o) -> n <= writableBytes (fst st').
Proof. exact ensure_writable_post. Qed.
Print Assumptions C10_ensure_writable.

(* [up] is a ghost counter of the bytes the caller prepended since the reader
   index was last reset; with up = 0 this is "prependableBytes >= kCheapPrepend". *)
Theorem C10_cheap_prepend : forall st s, reach st s ->
  kCheapPrepend <= prependableBytes (fst st) + up (fst st).
Proof. exact cheap_prepend. Qed.
Print Assumptions C10_cheap_prepend.

(* No operation, accepted or rejected, ever performs an out-of-bounds access or
   trips an internal assertion (the spill path of readFd included). *)
Theorem C10_in_bounds : forall st s o, reach st s -> step st o <> Fault.
Proof. exact in_bounds. Qed.
Print Assumptions C10_in_bounds.

Theorem C10_readfd : forall st s avail, reach st s ->
  let cap := readFd_capacity (fst st) in
  let n := Nat.min cap (length avail) in
  exists st', step st (ReadFd (KData avail)) =
                Ok (st', ORead (mkRfd (Z.of_nat n) (readFd_iovcnt (fst st)) (writableBytes (fst st)) None)) /\
              readable (fst st') = readable (fst st) ++ firstn n avail /\
              readable (snd st') = readable (snd st).
Proof. exact readfd_exact. Qed.
Print Assumptions C10_readfd.

(* readv failed (n < 0): nothing in either buffer changes -- the concrete state, not only the
   readable bytes -- the call returns -1 and the errno value reaches *savedErrno. *)
Theorem C10_readfd_error : forall st e,
  step st (ReadFd (KErr e)) =
  Ok (st, ORead (mkRfd (-1) (readFd_iovcnt (fst st)) (writableBytes (fst st)) (Some e))).
Proof. exact readfd_error. Qed.
Print Assumptions C10_readfd_error.

(* the iovec choice: extrabuf is offered exactly when writable < sizeof extrabuf, the capacity
   offered to the kernel is the sum of the offered iovecs, at most 128 KiB - 1 when extrabuf is used *)
Theorem C10_readfd_iovcnt : forall b,
  readFd_iovcnt b = (if writableBytes b <? kExtraBuf then 2 else 1) /\
  readFd_capacity b = writableBytes b + (if readFd_iovcnt b =? 2 then kExtraBuf else 0) /\
  readFd_capacity b < 2 * Nat.max (writableBytes b) kExtraBuf + 1 /\
  (readFd_iovcnt b = 2 -> readFd_capacity b <= 2 * kExtraBuf - 1).
Proof. exact readfd_iovcnt. Qed.
Print Assumptions C10_readfd_iovcnt.

(* internalCapacity(): the model's answer is buffer_.size(), the lower bound std::vector
   guarantees for capacity(); it equals prependable + readable + writable *)
Theorem C10_capacity_bound : forall st s, reach st s ->
  step st InternalCapacity =
    Ok (st, ONat (prependableBytes (fst st) + readableBytes (fst st) + writableBytes (fst st))) /\
  internalCapacity_lb (fst st) = length (store (fst st)).
Proof. exact capacity_bound. Qed.
Print Assumptions C10_capacity_bound.

(* shrink(reserve): the content is kept (C10_refines_fifo), at least [reserve] bytes are writable
   afterwards and the prepend area is fresh *)
Theorem C10_shrink_reserve : forall st s r st' o, reach st s ->
  step st (Shrink r) = Ok (st', o) ->
  r <= writableBytes (fst st') /\ prependableBytes (fst st') = kCheapPrepend.
Proof. exact shrink_reserve. Qed.
Print Assumptions C10_shrink_reserve.

(* the constructor's assertions *)
Theorem C10_constructor : forall n,
  readableBytes (new_buf n) = 0 /\ writableBytes (new_buf n) = n /\
  prependableBytes (new_buf n) = kCheapPrepend /\ readable (new_buf n) = [].
Proof. exact constructor_asserts. Qed.
Print Assumptions C10_constructor.

(* "at least 8 prependable bytes are available whenever the caller has not used them":
   any accepted history without prepend / prependIntN, from any initial sizes *)
Theorem C10_cheap_prepend_unused : forall n m ops st outs,
  run (new_buf n, new_buf m) ops = Ok (st, outs) ->
  forallb (fun o => negb (prepends o)) ops = true ->
  kCheapPrepend <= prependableBytes (fst st) /\ kCheapPrepend <= prependableBytes (snd st).
Proof. exact cheap_prepend_unused. Qed.
Print Assumptions C10_cheap_prepend_unused.

Theorem C10_prepend_accepted_when_unused : forall n m ops st outs d,
  run (new_buf n, new_buf m) ops = Ok (st, outs) ->
  forallb (fun o => negb (prepends o)) ops = true ->
  length d <= kCheapPrepend ->
  exists st', step st (Prepend d) = Ok (st', OUnit) /\
              readable (fst st') = d ++ readable (fst st).
Proof. exact prepend_accepted_when_unused. Qed.
Print Assumptions C10_prepend_accepted_when_unused.

(* integers: for each of the four widths, every value in the signed range comes back from
   peekIntN and readIntN, and readIntN removes exactly its bytes *)
Theorem C10_int_roundtrip_append : forall st s w x st1 o1,
  reach st s -> fst s = [] -> signed_range (wbytes w) x ->
  step st (AppendInt w x) = Ok (st1, o1) ->
  step st1 (PeekInt w) = Ok (st1, OInt x) /\ readable (fst st1) = be_encode (wbytes w) x /\
  exists st2, step st1 (ReadInt w) = Ok (st2, OInt x) /\ readable (fst st2) = [].
Proof. exact append_peek_roundtrip. Qed.
Print Assumptions C10_int_roundtrip_append.

Theorem C10_int_roundtrip_prepend : forall st s w x st1 o1,
  reach st s -> signed_range (wbytes w) x ->
  step st (PrependInt w x) = Ok (st1, o1) ->
  step st1 (PeekInt w) = Ok (st1, OInt x) /\
  readable (fst st1) = be_encode (wbytes w) x ++ readable (fst st) /\
  exists st2, step st1 (ReadInt w) = Ok (st2, OInt x) /\ readable (fst st2) = readable (fst st).
Proof. exact prepend_peek_roundtrip. Qed.
Print Assumptions C10_int_roundtrip_prepend.

(* network byte order: most significant byte first, two's complement *)
Theorem C10_big_endian : forall n x, be_decode (be_encode n x) = (x mod 256 ^ Z.of_nat n)%Z.
Proof. exact be_decode_encode. Qed.
Print Assumptions C10_big_endian.

(* searches: [o] is the start-pointer overload with start = peek() + off, or the plain
   overload (off = 0).  Accepted exactly for peek() <= start <= beginWrite(); the result is the
   first match at or after start, wholly inside the readable region. *)
Theorem C10_find_first_crlf : forall st s off r o, reach st s ->
  o = FindCRLF off \/ (o = FindCRLF0 /\ off = 0%Z) ->
  step st o = Ok (st, OIdx r) ->
  let l := readable (fst st) in
  let from := Z.to_nat off in
  (0 <= off <= Z.of_nat (length l))%Z /\
  match r with
  | Some i => from <= i /\ crlf_at l i /\ S i < length l /\
              forall j, from <= j < i -> ~ crlf_at l j
  | None => forall j, from <= j -> ~ crlf_at l j
  end.
Proof. exact find_first_crlf. Qed.
Print Assumptions C10_find_first_crlf.

Theorem C10_find_first_eol : forall st s off r o, reach st s ->
  o = FindEOL off \/ (o = FindEOL0 /\ off = 0%Z) ->
  step st o = Ok (st, OIdx r) ->
  let l := readable (fst st) in
  let from := Z.to_nat off in
  (0 <= off <= Z.of_nat (length l))%Z /\
  match r with
  | Some i => from <= i /\ eol_at l i /\ i < length l /\
              forall j, from <= j < i -> ~ eol_at l j
  | None => forall j, from <= j -> ~ eol_at l j
  end.
Proof. exact find_first_eol. Qed.
Print Assumptions C10_find_first_eol.

(* ---- the source's own comparisons, assertions, index assignments and size arguments
   (Gen_C10, regenerated from the clang AST of Buffer.h / Buffer.cc on every run) are the
   ones of the model.  Zn = Z.of_nat; P is an arbitrary address (peek()). ---------------- *)
Local Notation Zn := Z.of_nat.

Theorem C10_gen_constructor : forall n,
  Buffer_init_buffer (Zn n) kCP = Zn (length (store (new_buf n))) /\
  Buffer_init_readerIndex kCP = Zn (ridx (new_buf n)) /\
  Buffer_init_writerIndex kCP = Zn (widx (new_buf n)) /\
  Buffer_assert0 (Zn (readableBytes (new_buf n))) = true /\
  Buffer_assert1 (Zn n) (Zn (writableBytes (new_buf n))) = true /\
  Buffer_assert2 kCP (Zn (prependableBytes (new_buf n))) = true.
Proof. exact gen_constructor. Qed.
Print Assumptions C10_gen_constructor.

Theorem C10_gen_observers : forall b, ridx b <= widx b -> widx b <= length (store b) ->
  readableBytes_ret (Zn (ridx b)) (Zn (widx b)) = Zn (readableBytes b) /\
  writableBytes_ret (Zn (length (store b))) (Zn (widx b)) = Zn (writableBytes b) /\
  prependableBytes_ret (Zn (ridx b)) = Zn (prependableBytes b).
Proof. exact gen_observers. Qed.
Print Assumptions C10_gen_observers.

Theorem C10_gen_pointer_asserts : forall b P off,
  let start := (P + off)%Z in
  let bw := (P + Zn (readableBytes b))%Z in
  (findCRLF1_assert0 P start && findCRLF1_assert1 bw start = ptr_ok off b) /\
  (findEOL1_assert0 P start && findEOL1_assert1 bw start = ptr_ok off b) /\
  (retrieveUntil_assert0 start P && retrieveUntil_assert1 bw start = ptr_ok off b) /\
  retrieveUntil_call0_retrieve start P = off.
Proof. exact gen_pointer_asserts. Qed.
Print Assumptions C10_gen_pointer_asserts.

Theorem C10_gen_retrieve : forall b n,
  retrieve_assert0 (Zn n) (Zn (readableBytes b)) = (n <=? readableBytes b) /\
  retrieve_if0 (Zn n) (Zn (readableBytes b)) = (n <? readableBytes b) /\
  retrieve_set0_readerIndex (Zn n) (Zn (ridx b)) = Zn (ridx b + n) /\
  retrieveAll_set0_readerIndex kCP = Zn (ridx (retrieveAll b)) /\
  retrieveAll_set1_writerIndex kCP = Zn (widx (retrieveAll b)) /\
  retrieveAsString_assert0 (Zn n) (Zn (readableBytes b)) = (n <=? readableBytes b) /\
  retrieveAsString_call0_retrieve (Zn n) = Zn n /\
  retrieveAllAsString_call0_retrieveAsString (Zn (readableBytes b)) = Zn (readableBytes b).
Proof. exact gen_retrieve. Qed.
Print Assumptions C10_gen_retrieve.

Theorem C10_gen_widths :
  retrieveInt64_call0_retrieve = Zn (wbytes W64) /\ retrieveInt32_call0_retrieve = Zn (wbytes W32) /\
  retrieveInt16_call0_retrieve = Zn (wbytes W16) /\ retrieveInt8_call0_retrieve = Zn (wbytes W8) /\
  appendInt64_call0_append = Zn (wbytes W64) /\ appendInt32_call0_append = Zn (wbytes W32) /\
  appendInt16_call0_append = Zn (wbytes W16) /\ appendInt8_call0_append = Zn (wbytes W8) /\
  prependInt64_call0_prepend = Zn (wbytes W64) /\ prependInt32_call0_prepend = Zn (wbytes W32) /\
  prependInt16_call0_prepend = Zn (wbytes W16) /\ prependInt8_call0_prepend = Zn (wbytes W8).
Proof. exact gen_widths. Qed.
Print Assumptions C10_gen_widths.

Theorem C10_gen_peekInt_asserts : forall b,
  peekInt64_assert0 (Zn (readableBytes b)) = (wbytes W64 <=? readableBytes b) /\
  peekInt32_assert0 (Zn (readableBytes b)) = (wbytes W32 <=? readableBytes b) /\
  peekInt16_assert0 (Zn (readableBytes b)) = (wbytes W16 <=? readableBytes b) /\
  peekInt8_assert0 (Zn (readableBytes b)) = (wbytes W8 <=? readableBytes b).
Proof. exact gen_peekInt_asserts. Qed.
Print Assumptions C10_gen_peekInt_asserts.

Theorem C10_gen_write_side : forall b n,
  ensureWritableBytes_if0 (Zn n) (Zn (writableBytes b)) = (writableBytes b <? n) /\
  ensureWritableBytes_call0_makeSpace (Zn n) = Zn n /\
  ensureWritableBytes_assert0 (Zn n) (Zn (writableBytes b)) = (n <=? writableBytes b) /\
  hasWritten_assert0 (Zn n) (Zn (writableBytes b)) = (n <=? writableBytes b) /\
  hasWritten_set0_writerIndex (Zn n) (Zn (widx b)) = Zn (widx b + n) /\
  unwrite_assert0 (Zn n) (Zn (readableBytes b)) = (n <=? readableBytes b) /\
  (n <= widx b -> unwrite_set0_writerIndex (Zn n) (Zn (widx b)) = Zn (widx b - n)) /\
  prepend_assert0 (Zn n) (Zn (prependableBytes b)) = (n <=? prependableBytes b) /\
  (n <= ridx b -> prepend_set0_readerIndex (Zn n) (Zn (ridx b)) = Zn (ridx b - n)) /\
  shrink_call0_ensureWritableBytes (Zn (readableBytes b)) (Zn n) = Zn (readableBytes b + n).
Proof. exact gen_write_side. Qed.
Print Assumptions C10_gen_write_side.

Theorem C10_gen_makeSpace : forall b len,
  makeSpace_if0 kCP (Zn len) (Zn (prependableBytes b)) (Zn (writableBytes b))
    = (writableBytes b + prependableBytes b <? len + kCheapPrepend) /\
  makeSpace_call0_resize (Zn len) (Zn (widx b)) = Zn (widx b + len) /\
  makeSpace_assert0 kCP (Zn (ridx b)) = (kCheapPrepend <? ridx b) /\
  makeSpace_set0_readerIndex kCP = Zn kCheapPrepend /\
  makeSpace_set1_writerIndex (Zn (readableBytes b)) (makeSpace_set0_readerIndex kCP)
    = Zn (kCheapPrepend + readableBytes b) /\
  makeSpace_assert1 (Zn (readableBytes b)) (Zn (readableBytes b)) = true.
Proof. exact gen_makeSpace. Qed.
Print Assumptions C10_gen_makeSpace.

Theorem C10_gen_readFd : forall b n,
  readFd_set0_iov_len (Zn (writableBytes b)) = Zn (writableBytes b) /\
  readFd_set1_iov_len = Zn kExtraBuf /\
  readFd_let_iovcnt (Zn (writableBytes b)) = Zn (readFd_iovcnt b) /\
  readFd_if0 (-1) = true /\ readFd_if0 (Zn n) = false /\
  readFd_if1 (Zn n) (Zn (writableBytes b)) = (n <=? writableBytes b) /\
  readFd_set2_writerIndex (Zn n) (Zn (widx b)) = Zn (widx b + n) /\
  readFd_set3_writerIndex (Zn (length (store b))) = Zn (length (store b)) /\
  (writableBytes b <= n -> readFd_call0_append (Zn n) (Zn (writableBytes b)) = Zn (n - writableBytes b)) /\
  readFd_ret (Zn n) = Zn n.
Proof. exact gen_readFd. Qed.
Print Assumptions C10_gen_readFd.

(* ---- non-vacuity: a concrete history that compacts, grows, prepends, spills, fails a
   read, and uses every new member ------------------------------------------------------- *)
Definition ex_ops : list op :=
  [ Append (repeat x41 20); Retrieve 15; Append (repeat x42 18);   (* compaction: 32-byte buffer *)
    PrependInt W32 (-2)%Z; Append (repeat x43 40);                  (* growth *)
    ReadFd (KData (repeat x44 100)); PeekInt W32; FindEOL 0%Z; Swap; Append [x0d; x0a]; FindCRLF 0%Z;
    Swap; ReadFd (KErr 11%Z); RetrieveInt W32; RetrieveUntil 5%Z; ToStringPiece; InternalCapacity;
    Assign; RetrieveAllAsString; FindCRLF0 ].

Example ex_run_ok :
  exists st outs, run (new_buf 24, new_buf 0) ex_ops = Ok (st, outs) /\
    nth_error outs 5 = Some (ORead (mkRfd 100 2 0 None)) /\ nth_error outs 6 = Some (OInt (-2)%Z) /\
    nth_error outs 10 = Some (OIdx (Some 0)) /\
    nth_error outs 12 = Some (ORead (mkRfd (-1) 2 0 (Some 11%Z))) /\
    length (readable (snd st)) = 18 + 40 + 100 /\ readable (fst st) = [].
Proof. vm_compute. eexists _, _. repeat split. Qed.

(* violated preconditions (start before peek(), end beyond beginWrite(), too few bytes) *)
Example ex_rejected : step (new_buf 8, new_buf 0) (FindEOL (-1)%Z) = Rejected /\
  step (new_buf 8, new_buf 0) (RetrieveUntil 1%Z) = Rejected /\
  step (new_buf 8, new_buf 0) (PeekInt W8) = Rejected.
Proof. vm_compute. repeat split. Qed.

Example ex_reach : exists st s, reach st s /\ fst s <> [] /\ ridx (fst st) <> kCheapPrepend.
Proof.
  destruct (run (new_buf 24, new_buf 0) [Append [x41; x42; x43]; Retrieve 1]) as [[st outs]| |] eqn:E;
    try (vm_compute in E; discriminate).
  exists st, (spec_run (new_buf 24, new_buf 0) ([], []) [Append [x41; x42; x43]; Retrieve 1]).
  split; [eapply run_reach; [apply reach_init|exact E]|].
  vm_compute in E. injection E as <- _. vm_compute. split; discriminate.
Qed.

(* both iovec choices occur; the hypotheses of C10_cheap_prepend_unused are inhabited by a
   history that grows, compacts and spills *)
Example ex_iovcnt : readFd_iovcnt (new_buf 0) = 2 /\ readFd_iovcnt (new_buf (kExtraBuf)) = 1.
Proof. vm_compute. split; reflexivity. Qed.

Example ex_unused : exists st outs,
  run (new_buf 16, new_buf 0) [Append (repeat x41 12); Retrieve 10; Append (repeat x42 12);
                               Append (repeat x43 30); ReadFd (KData (repeat x44 70)); Shrink 3; Swap] = Ok (st, outs) /\
  forallb (fun o => negb (prepends o))
    [Append (repeat x41 12); Retrieve 10; Append (repeat x42 12);
     Append (repeat x43 30); ReadFd (KData (repeat x44 70)); Shrink 3; Swap] = true.
Proof. vm_compute. eexists _, _. split; reflexivity. Qed.
