(* C20_TsLink: the text functions assembled from the GENERATED formats / arguments / buffer
   sizes (C20_TsGen) are the hand-written specifications of C20_Model (whose round trips are
   proved in C20_TextProofs) -- no truncation by the generated buffer sizes included; the
   generated Timestamp arithmetic (fromUnixTime, secondsSinceEpoch, addTime, timeDifference);
   Date::toIsoString. *)
From Coq Require Import List ZArith Bool Arith Lia.
From Coq.Strings Require Import Byte.
From Muduo Require Import Base_Bytes Gen_C20 Gen_C20Ts C20_Model C20_TsGen C20_SweepDefs C20_Sweep C20_Proofs C20_TextProofs.
Import ListNotations.
Local Open Scope Z_scope.

Lemma fmtsp_0 v : fmtsp 0 v = sdec v.
Proof. unfold fmtsp. cbn [Nat.sub repeat app]. reflexivity. Qed.

(* the generated formats, interpreted *)
Lemma printf_toString a b :
  printf_z Timestamp_toString_fmt None [a; b] = sdec a ++ [ch_dot] ++ fmt0 6 b.
Proof.
  unfold Timestamp_toString_fmt. cbv -[fmt0 fmtsp sdec app]. rewrite fmtsp_0, app_nil_r. reflexivity.
Qed.

Lemma printf_formatted_micro y mo d h mi s u :
  printf_z Timestamp_toFormattedString_fmt_micro None [y; mo; d; h; mi; s; u] =
  fmtsp 4 y ++ fmt0 2 mo ++ fmt0 2 d ++ [ch_space] ++ fmt0 2 h ++ [ch_colon] ++ fmt0 2 mi ++ [ch_colon] ++ fmt0 2 s ++
  ([ch_dot] ++ fmt0 6 u).
Proof.
  unfold Timestamp_toFormattedString_fmt_micro. cbv -[fmt0 fmtsp sdec app]. rewrite app_nil_r. reflexivity.
Qed.

Lemma printf_formatted_plain y mo d h mi s :
  printf_z Timestamp_toFormattedString_fmt_plain None [y; mo; d; h; mi; s] =
  fmtsp 4 y ++ fmt0 2 mo ++ fmt0 2 d ++ [ch_space] ++ fmt0 2 h ++ [ch_colon] ++ fmt0 2 mi ++ [ch_colon] ++ fmt0 2 s ++ [].
Proof.
  unfold Timestamp_toFormattedString_fmt_plain. cbv -[fmt0 fmtsp sdec app]. reflexivity.
Qed.

Lemma printf_iso y m d :
  printf_z Date_toIsoString_fmt None [y; m; d] = fmtsp 4 y ++ [ch_minus] ++ fmt0 2 m ++ [ch_minus] ++ fmt0 2 d.
Proof. unfold Date_toIsoString_fmt. cbv -[fmt0 fmtsp sdec app]. rewrite app_nil_r. reflexivity. Qed.

(* ---- lengths ---- *)
Lemma ndigits_max fuel n : (ndigits fuel n <= S fuel)%nat.
Proof.
  revert n. induction fuel as [|f IH]; intros n; cbn [ndigits]; [lia|].
  destruct (n <? 10); [lia|]. specialize (IH (n / 10)). lia.
Qed.

Lemma sdec_len n : (length (sdec n) <= 22)%nat.
Proof.
  unfold sdec, dec. destruct (n <? 0); cbn [length]; rewrite pad_length.
  - pose proof (ndigits_max 20 (- n)). lia.
  - pose proof (ndigits_max 20 n). lia.
Qed.

Lemma fmt0_6_len r : -1000000 < r < 1000000 -> (length (fmt0 6 r) <= 7)%nat.
Proof.
  intros Hr. unfold fmt0. destruct (Z.ltb_spec r 0).
  - cbn [length]. rewrite pad_length.
    assert ((ndigits 20 (- r) <= 6)%nat) by (apply ndigits_le; [change (10 ^ Z.of_nat 6) with 1000000; lia|lia]). lia.
  - rewrite pad_length.
    assert ((ndigits 20 r <= 6)%nat) by (apply ndigits_le; [change (10 ^ Z.of_nat 6) with 1000000; lia|lia]). lia.
Qed.

(* ---- Timestamp::toString: for EVERY value (the buffer never truncates) ---- *)
Lemma ts_toString_link us : ts_toString_g us = ts_toString us.
Proof.
  unfold ts_toString_g, snprintf_z, Timestamp_toString_args. cbv zeta. rewrite printf_toString.
  unfold ts_toString. apply firstn_all2.
  change (Z.to_nat (Timestamp_toString_bufsize - 1)) with 31%nat.
  rewrite !app_length. cbn [length].
  pose proof (sdec_len (Z.quot us kMicroSecondsPerSecond)).
  assert (Hr : -1000000 < Z.rem us kMicroSecondsPerSecond < 1000000).
  { change kMicroSecondsPerSecond with 1000000. Z.quot_rem_to_equations. lia. }
  pose proof (fmt0_6_len _ Hr). lia.
Qed.

(* ---- Timestamp::toFormattedString: non-negative timestamps whose date is in 1900..2500 ---- *)
Lemma ts_toFormatted_link us b : utc_first * 1000000 <= us < utc_end * 1000000 -> 0 <= us ->
  ts_toFormatted_g us b = ts_toFormatted us b.
Proof.
  intros Hr H0.
  assert (Ht : utc_first <= us / 1000000 < utc_end).
  { split; [apply Z.div_le_lower_bound; lia|apply Z.div_lt_upper_bound; lia]. }
  destruct (utc_roundtrip _ Ht) as [Hv _].
  unfold ts_toFormatted_g, ts_toFormatted, snprintf_z, Timestamp_toFormattedString_seconds,
    Timestamp_toFormattedString_args_micro, Timestamp_toFormattedString_args_plain. cbv zeta.
  assert (Hk : kMicroSecondsPerSecond = 1000000) by reflexivity. rewrite Hk.
  rewrite Z.quot_div_nonneg, Z.rem_mod_nonneg by lia.
  generalize dependent (break_utc (us / 1000000)). intros dt Hv.
  unfold valid_datetime, valid_date, first_year, last_year in Hv.
  rewrite !andb_true_iff, !Z.leb_le in Hv.
  pose proof (days_in_month_le (year dt) (month dt)) as H31.
  assert (Hm : 0 <= us mod 1000000 < 1000000) by (apply Z.mod_pos_bound; lia).
  replace (year dt - 1900 + 1900) with (year dt) by lia. replace (month dt - 1 + 1) with (month dt) by lia.
  change (Z.to_nat (Timestamp_toFormattedString_bufsize - 1)) with 63%nat.
  destruct b.
  - rewrite printf_formatted_micro. apply firstn_all2.
    rewrite (fmt0_2 (month dt)), (fmt0_2 (day dt)), (fmt0_2 (hour dt)), (fmt0_2 (minute dt)), (fmt0_2 (second dt)),
            (fmt0_6 (us mod 1000000)), (fmtsp_4 (year dt)) by lia.
    rewrite !app_length, !pad_length. cbn [length]. lia.
  - rewrite printf_formatted_plain. apply firstn_all2.
    rewrite (fmt0_2 (month dt)), (fmt0_2 (day dt)), (fmt0_2 (hour dt)), (fmt0_2 (minute dt)), (fmt0_2 (second dt)),
            (fmtsp_4 (year dt)) by lia.
    rewrite !app_length, !pad_length. cbn [length]. lia.
Qed.

(* ---- Date::toIsoString ---- *)
Lemma date_iso_shape y m d : valid_date y m d = true ->
  date_iso y m d = pad 4 y ++ [ch_minus] ++ pad 2 m ++ [ch_minus] ++ pad 2 d.
Proof.
  unfold valid_date, first_year, last_year. rewrite !andb_true_iff, !Z.leb_le. intros Hv.
  pose proof (days_in_month_le y m). unfold date_iso.
  rewrite (fmt0_2 m), (fmt0_2 d), (fmtsp_4 y) by lia. reflexivity.
Qed.

Lemma date_toIsoString_link j : jdn_first <= j <= jdn_last ->
  exists y m d, getYearMonthDay j = (y, m, d) /\ valid_date y m d = true /\ date_toIsoString_g j = date_iso y m d.
Proof.
  intros Hj. destruct (ymd_of_jdn j Hj) as (y & m & d & Hg & Hv & _). exists y, m, d.
  split; [exact Hg|split; [exact Hv|]].
  unfold date_toIsoString_g. rewrite Hg. unfold snprintf_z, Date_toIsoString_args. rewrite printf_iso.
  fold (date_iso y m d). apply firstn_all2. rewrite (date_iso_shape y m d Hv).
  change (Z.to_nat (Date_toIsoString_bufsize - 1)) with 31%nat.
  rewrite !app_length, !pad_length. cbn [length]. lia.
Qed.

Lemma date_iso_roundtrip y m d : valid_date y m d = true -> date_iso_parse (date_iso y m d) = (y, m, d).
Proof.
  intros Hv. rewrite (date_iso_shape y m d Hv).
  unfold valid_date, first_year, last_year in Hv. rewrite !andb_true_iff, !Z.leb_le in Hv.
  pose proof (days_in_month_le y m). unfold date_iso_parse.
  assert (F1 : firstn 4 (skipn 0 (pad 4 y ++ [ch_minus] ++ pad 2 m ++ [ch_minus] ++ pad 2 d)) = pad 4 y).
  { cbn [skipn]. rewrite <- (pad_length 4 y) at 1. apply firstn_app_exact. }
  assert (F2 : firstn 2 (skipn 5 (pad 4 y ++ [ch_minus] ++ pad 2 m ++ [ch_minus] ++ pad 2 d)) = pad 2 m).
  { replace (pad 4 y ++ [ch_minus] ++ pad 2 m ++ [ch_minus] ++ pad 2 d)
      with ((pad 4 y ++ [ch_minus]) ++ pad 2 m ++ ([ch_minus] ++ pad 2 d)) by (rewrite <- !app_assoc; reflexivity).
    replace 5%nat with (length (pad 4 y ++ [ch_minus])) by (rewrite app_length, pad_length; reflexivity).
    replace 2%nat with (length (pad 2 m)) at 1 by apply pad_length. apply firstn_skipn_field. }
  assert (F3 : firstn 2 (skipn 8 (pad 4 y ++ [ch_minus] ++ pad 2 m ++ [ch_minus] ++ pad 2 d)) = pad 2 d).
  { replace (pad 4 y ++ [ch_minus] ++ pad 2 m ++ [ch_minus] ++ pad 2 d)
      with ((pad 4 y ++ [ch_minus] ++ pad 2 m ++ [ch_minus]) ++ pad 2 d ++ []) by (rewrite app_nil_r, <- !app_assoc; reflexivity).
    replace 8%nat with (length (pad 4 y ++ [ch_minus] ++ pad 2 m ++ [ch_minus])) by (rewrite !app_length, !pad_length; reflexivity).
    replace 2%nat with (length (pad 2 d)) at 1 by apply pad_length. apply firstn_skipn_field. }
  rewrite F1, F2, F3, !parse_pad.
  change (10 ^ Z.of_nat 4) with 10000. change (10 ^ Z.of_nat 2) with 100.
  rewrite !Z.mod_small by lia. reflexivity.
Qed.

(* ---- Timestamp arithmetic (generated from Timestamp.h) ---- *)
Lemma timestamp_arith :
  (forall us, Timestamp_fromUnixTime (Timestamp_secondsSinceEpoch us) (Z.rem us kMicroSecondsPerSecond) = us) /\
  (forall t m, 0 <= t -> 0 <= m < 1000000 ->
     Timestamp_secondsSinceEpoch (Timestamp_fromUnixTime t m) = t /\
     Z.rem (Timestamp_fromUnixTime t m) kMicroSecondsPerSecond = m) /\
  (forall t m, -9000000000000 <= t <= 9000000000000 -> -2147483648 <= m <= 2147483647 ->
     Timestamp_fromUnixTime_fits t m = true) /\
  (forall us d, Timestamp_timeDifference_diff (Timestamp_addTime us d) us = d) /\
  (forall hi lo, Timestamp_addTime lo (Timestamp_timeDifference_diff hi lo) = hi) /\
  Timestamp_timeDifference_divisor = 1000000 /\ Timestamp_addTime_factor = 1000000.
Proof.
  assert (Hk : kMicroSecondsPerSecond = 1000000) by reflexivity.
  split; [|split; [|split; [|split; [|split; [|split]]]]].
  - intros us. unfold Timestamp_fromUnixTime, Timestamp_secondsSinceEpoch. rewrite Hk.
    pose proof (Z.quot_rem' us 1000000). lia.
  - intros t m Ht Hm. unfold Timestamp_fromUnixTime, Timestamp_secondsSinceEpoch. rewrite Hk.
    rewrite Z.quot_div_nonneg, Z.rem_mod_nonneg by lia. split; Z.div_mod_to_equations; lia.
  - intros t m Ht Hm. unfold Timestamp_fromUnixTime_fits. rewrite Hk. cbv zeta.
    unfold fits64. rewrite !andb_true_iff, !Z.leb_le. lia.
  - intros us d. unfold Timestamp_timeDifference_diff, Timestamp_addTime. lia.
  - intros hi lo. unfold Timestamp_timeDifference_diff, Timestamp_addTime. lia.
  - reflexivity.
  - reflexivity.
Qed.
