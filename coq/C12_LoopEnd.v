(* C12_LoopEnd (REVIEW_E E-2): the EventLoop is destroyed after the client (`LoopEnd` = EventLoop::~EventLoop once the loop has
   stopped for good): the queued functors and the timers are destroyed UNRUN.  Which client states make `Destroy; LoopEnd` safe,
   which do not (witnesses, replayed on the real classes: corpus/C12/e2_*.case), and the hypothesis `loop_outlives_cleanup`
   (clause of `contract` for LoopEnd) under which the positive theorems of C12_Proofs hold. *)
From Coq Require Import List ZArith Lia Bool Arith.
From Muduo Require Import Gen_Consts Gen_C12 C12_Model C12_Hyg C12_Trace C12_Inv C12_Proofs C12_Progress.
Import ListNotations.
Local Open Scope Z_scope.

(* ------------------------------------------------------------------ what gc / settle leave alone *)
Definition keeps (s s' : st) : Prop :=
  alive s' = alive s /\ pending s' = pending s /\ timers s' = timers s /\ k_chan s' = k_chan s /\ connection s' = connection s /\
  forall c o', nth_error (conns s') c = Some o' ->
    exists o, nth_error (conns s) c = Some o /\ cuser o' = cuser o /\ (conn_done o = true -> conn_done o' = true).
Lemma keeps_refl s : keeps s s.
Proof. unfold keeps. repeat split; auto. intros c o' H. exists o'. auto. Qed.
Lemma keeps_trans s1 s2 s3 : keeps s1 s2 -> keeps s2 s3 -> keeps s1 s3.
Proof.
  intros (A1 & A2 & A3 & A4 & A5 & A6) (B1 & B2 & B3 & B4 & B5 & B6). unfold keeps. repeat split; try congruence.
  intros c o3 H. destruct (B6 _ _ H) as (o2 & H2 & U2 & D2). destruct (A6 _ _ H2) as (o1 & H1 & U1 & D1).
  exists o1. repeat split; auto; congruence.
Qed.

Lemma gc_from_keeps n : forall c s s' ev, gc_from n c s = Some (s', ev) -> keeps s s'.
Proof.
  induction n as [|n IH]; intros c s s' ev; cbn [gc_from]; [intros [= <- _]; apply keeps_refl|].
  destruct (nth_error (conns s) c) as [o|] eqn:Ho; [|intros [= <- _]; apply keeps_refl].
  destruct (_ && _); [|apply IH].
  destruct (cst o); try discriminate. destruct (creg o); [discriminate|].
  intros H. apply bind_some_inv' in H. destruct H as (rest & H & _). apply IH in H.
  eapply keeps_trans; [|exact H]. unfold keeps. cbn. repeat split; auto.
  intros c' o'. rewrite nth_error_upd. destruct (Nat.eq_dec c c') as [<-|Ne].
  - rewrite Ho. cbn. intros [= <-]. exists o. repeat split; auto.
  - intros H'. exists o'. auto.
Qed.

Lemma finish_keeps m s' ev' : finish m = Some (s', ev') -> exists s0 ev0, m = Some (s0, ev0) /\ keeps s0 s'.
Proof.
  unfold finish, bind. destruct m as [[s0 ev0]|]; [|discriminate]. unfold gc. destruct (gc_from _ _ s0) as [[s1 e1]|] eqn:G; [|discriminate].
  apply gc_from_keeps in G. unfold settle. destruct (_ && _ && _ && _).
  - destruct (k_chan s1); [discriminate|]. cbn. intros [= <- _]. exists s0, ev0. split; auto.
  - cbn. intros [= <- _]. exists s0, ev0. split; auto.
Qed.

Lemma step_keeps s o s' ev : step s o = Ok s' ev -> exists s0 ev0, step_core s o = Some (Some (s0, ev0)) /\ keeps s0 s'.
Proof.
  unfold step. destruct (step_core s o) as [m|]; [|discriminate]. destruct (finish m) as [[s2 e2]|] eqn:F; [|discriminate].
  intros [= <- _]. destruct (finish_keeps _ _ _ F) as (s0 & ev0 & -> & K). exists s0, ev0. split; auto.
Qed.

Lemma reachable_step s o s' ev : reachable s -> contract s o = true -> step s o = Ok s' ev -> reachable s'.
Proof.
  intros (l & ev0 & A & R) Hc St. exists (l ++ [o]), (ev0 ++ ev). split.
  - eapply admissible_snoc; eauto.
  - rewrite run_app, R. cbn [run]. rewrite St. rewrite app_nil_r. reflexivity.
Qed.

Lemma find_user_none_iff l : forall i, (forall c o, nth_error l c = Some o -> cuser o = 0%nat) -> find_user l i = None.
Proof.
  induction l as [|o r IH]; intros i H; cbn; auto.
  pose proof (H 0%nat o eq_refl) as Z. rewrite Z. cbn. apply IH. intros c o' Ho. apply (H (S c) o'). exact Ho.
Qed.

Lemma loop_outlives_spec s : loop_outlives_cleanup s = true <->
  k_chan s = None /\ forall c o, nth_error (conns s) c = Some o -> conn_done o = true.
Proof.
  unfold loop_outlives_cleanup. rewrite andb_true_iff, forallb_forall. split.
  - intros [A B]. split; [destruct (k_chan s); [discriminate|reflexivity]|]. intros c o H. apply B. eapply nth_error_In; eauto.
  - intros [A B]. rewrite A. split; [reflexivity|]. intros o Hi. apply In_nth_error in Hi. destruct Hi as (c & Hc). eauto.
Qed.

(* ------------------------------------------------------------------ positive: LoopEnd under the hypothesis *)
(* the step exists (it is not a Fault) and leaves nothing behind: the Connector is gone, every connection object is destroyed and
   has closed its descriptor, every socket ever created is closed exactly once *)
Theorem loop_end_no_leak : forall s s' ev, reachable s -> loop_outlives_cleanup s = true -> step s LoopEnd = Ok s' ev ->
  k_dead s' = true /\ k_chan s' = None /\ pending s' = [] /\ timers s' = [] /\
  (forall c o, nth_error (conns s') c = Some o -> calive o = false /\ nth_error (socks s') (csock o) = Some (HandedClosed 1)) /\
  (forall i x, nth_error (socks s') i = Some x -> x = Closed 1 \/ x = HandedClosed 1).
Proof.
  intros s s' ev Hr Hc St.
  assert (Hr' : reachable s') by (eapply (reachable_step s LoopEnd); [exact Hr|exact Hc|exact St]).
  destruct (step_keeps _ _ _ _ St) as (s0 & ev0 & Core & (K1 & K2 & K3 & K4 & K5 & K6)).
  cbn [step_core] in Core.
  destruct (alive s || is_some (find_user (conns s) 0) || existsb is_addhack (pending s)) eqn:U; [discriminate|].
  apply orb_false_elim in U. destruct U as [U _]. apply orb_false_elim in U. destruct U as [Al Us].
  unfold loop_end in Core. cbn [k_chan set_timers set_pending] in Core. destruct (k_chan s); [discriminate|]. injection Core as <- _.
  cbn in K1, K2, K3, K6.
  assert (Hu : forall c o, nth_error (conns s') c = Some o -> cuser o = 0%nat).
  { intros c o' H. destruct (K6 _ _ H) as (o & Ho & Uo & _). rewrite Uo.
    destruct (find_user (conns s) 0) eqn:F; [discriminate|]. eapply find_user_none; eauto. }
  assert (Hal : alive s' = false) by congruence.
  destruct (destroyed_quiescent s' Hr' Hal K2 K3 Hu) as (D1 & D2 & _ & D4 & D5). auto 10.
Qed.

(* a reachable state whose LoopEnd is not Rejected and satisfies the hypothesis does step (restates step_safe for this op) *)
Theorem loop_end_safe : forall s, reachable s -> loop_outlives_cleanup s = true -> step s LoopEnd <> Fault.
Proof. intros s Hr Hc. apply step_safe; auto. Qed.

(* ... and conversely (REVIEW_F F-5): on reachable states on which LoopEnd is not Rejected, loop_outlives_cleanup is EXACTLY
   "LoopEnd does not fault".  So for this op the clause of `contract` is the negation of the fault condition (as H7 of C02), and
   no_fault / step_safe say nothing about LoopEnd beyond it; the content is in drained_outlives, loop_end_no_leak and
   destroy_then_loop_end_safe below (when the hypothesis holds, what it gives). *)
Lemma forallb_false {A} (f : A -> bool) l : forallb f l = false -> exists x, In x l /\ f x = false.
Proof.
  induction l as [|x r IH]; cbn; [discriminate|]. destruct (f x) eqn:E; cbn; [|intros _; exists x; auto].
  intros H. destruct (IH H) as (y & Hy & Fy). exists y. auto.
Qed.

Lemma gc_from_fault n : forall c s c' o, (c <= c' < c + n)%nat -> nth_error (conns s) c' = Some o ->
  refs s c' = 0%nat -> conn_done o = false -> gc_from n c s = None.
Proof.
  induction n as [|n IH]; intros c s c' o L Ho Hr Hd; [lia|]. cbn [gc_from].
  destruct (Nat.eq_dec c c') as [->|Ne].
  - rewrite Ho, Hr. unfold conn_done in Hd. destruct (calive o); [|discriminate]. cbn in *.
    destruct (cst o); try reflexivity. destruct (creg o); [reflexivity|discriminate].
  - destruct (nth_error (conns s) c) as [o1|] eqn:H1; [|exfalso].
    2:{ apply nth_error_None in H1. apply nth_error_lt in Ho. lia. }
    destruct (calive o1 && (refs s c =? 0)%nat).
    + destruct (cst o1); try reflexivity. destruct (creg o1); [reflexivity|].
      unfold bind. rewrite (IH (S c) _ c' o); [reflexivity|lia| | |exact Hd].
      * cbn. rewrite nth_error_upd_other; auto.
      * unfold refs in *. cbn. rewrite nth_error_upd_other; auto.
    + apply (IH (S c) s c' o); auto. lia.
Qed.

Theorem loop_outlives_exact : forall s, reachable s -> step_core s LoopEnd <> None ->
  (loop_outlives_cleanup s = true <-> step s LoopEnd <> Fault).
Proof.
  intros s Hr Nr. split; [intros Hc; apply step_safe; auto|]. intros NF.
  destruct (loop_outlives_cleanup s) eqn:Hc; [reflexivity|exfalso]. apply NF. clear NF.
  destruct (reachable_Inv _ Hr) as (_ & _ & _ & [D C] & _ & _). destruct C as [_ Cde _ _ _ _ _ _ _ _ _ _ _].
  unfold step. cbn [step_core] in *.
  destruct (alive s || is_some (find_user (conns s) 0) || existsb is_addhack (pending s)) eqn:U; [exfalso; apply Nr; reflexivity|].
  apply orb_false_elim in U. destruct U as [U _]. apply orb_false_elim in U. destruct U as [Al Us].
  unfold loop_end. cbn [k_chan set_timers set_pending]. unfold loop_outlives_cleanup in Hc.
  destruct (k_chan s) eqn:Ech; [reflexivity|]. cbn in Hc.
  destruct (forallb_false _ _ Hc) as (o & Hi & Hd). apply In_nth_error in Hi. destruct Hi as (c' & Ho).
  unfold finish, ret. cbn [bind]. unfold gc.
  rewrite (gc_from_fault _ 0%nat _ c' o); [reflexivity| | | |exact Hd].
  - cbn. apply nth_error_lt in Ho. lia.
  - exact Ho.
  - unfold refs. cbn. rewrite (Cde Al), Ho, D.
    destruct (find_user (conns s) 0) eqn:F; [discriminate|]. rewrite (find_user_none _ _ F _ _ Ho). reflexivity.
Qed.

(* the hypothesis holds once everything queued has run: functor queue and timer queue drained, no user reference *)
Theorem drained_outlives : forall s, reachable s -> alive s = false -> drained s = true ->
  (forall c o, nth_error (conns s) c = Some o -> cuser o = 0%nat) -> loop_outlives_cleanup s = true.
Proof.
  intros s Hr Al Dr Hu. unfold drained in Dr. destruct (pending s) eqn:P; [|discriminate]. destruct (timers s) eqn:T; [|discriminate].
  destruct (destroyed_quiescent s Hr Al P T Hu) as (_ & D2 & _ & D4 & _).
  apply loop_outlives_spec. split; auto. intros c o H. destruct (D4 _ _ H) as [Hd _]. unfold conn_done. rewrite Hd. reflexivity.
Qed.

(* ~TcpClient of a client that has no connection, no attempt in progress (no channel) and no half-torn-down connection object
   (idle, stopped, or backing off between two attempts) keeps the hypothesis: `Destroy; LoopEnd` is safe and leaks nothing,
   although stopInLoop and the 1 s timer (and a pending retry timer) are dropped unrun *)
Theorem destroy_then_loop_end_safe : forall s, reachable s ->
  user_api_ok s = true -> xc s = false -> xs s = false -> xd s = false ->
  connection s = None -> loop_outlives_cleanup s = true ->
  (forall c o, nth_error (conns s) c = Some o -> cuser o = 0%nat) ->
  exists s1 ev1 s2 ev2, step s Destroy = Ok s1 ev1 /\ contract s Destroy = true /\
    loop_outlives_cleanup s1 = true /\ step s1 LoopEnd = Ok s2 ev2 /\
    k_dead s2 = true /\ pending s2 = [] /\ timers s2 = [] /\
    (forall c o, nth_error (conns s2) c = Some o -> calive o = false) /\
    (forall i x, nth_error (socks s2) i = Some x -> x = Closed 1 \/ x = HandedClosed 1).
Proof.
  intros s Hr U X1 X2 X3 Cn Hc Hu.
  assert (Cd : contract s Destroy = true) by (cbn; unfold destroy_ok; rewrite Cn; reflexivity).
  pose proof (step_safe s Destroy Hr Cd) as NF.
  destruct (step s Destroy) as [s1 ev1| |] eqn:St.
  2:{ exfalso. unfold step in St. cbn [step_core] in St. rewrite U, X1, X2, X3 in St. cbn in St. destruct (finish _) as [[? ?]|]; discriminate. }
  2:{ congruence. }
  assert (Hr1 : reachable s1) by (eapply reachable_step; eauto).
  destruct (step_keeps _ _ _ _ St) as (s0 & ev0 & Core & (K1 & K2 & K3 & K4 & K5 & K6)).
  cbn [step_core] in Core. rewrite U, X1, X2, X3 in Core. cbn [negb orb] in Core. rewrite Cn in Core. unfold destroy_rest in Core.
  injection Core as <- _. cbn in K1, K2, K3, K4, K6.
  apply loop_outlives_spec in Hc. destruct Hc as [Hch Hcs].
  assert (Hc1 : loop_outlives_cleanup s1 = true).
  { apply loop_outlives_spec. split; [congruence|]. intros c o' H. destruct (K6 _ _ H) as (o & Ho & _ & Hd). apply Hd. eapply Hcs; eauto. }
  assert (Hu1 : forall c o, nth_error (conns s1) c = Some o -> cuser o = 0%nat).
  { intros c o' H. destruct (K6 _ _ H) as (o & Ho & Uo & _). rewrite Uo. eauto. }
  assert (Cl : contract s1 LoopEnd = true) by exact Hc1.
  pose proof (step_safe s1 LoopEnd Hr1 Cl) as NF1.
  destruct (step s1 LoopEnd) as [s2 ev2| |] eqn:St2.
  2:{ exfalso. unfold step in St2. cbn [step_core] in St2. rewrite K1, (find_user_none_iff _ 0%nat Hu1), K2 in St2.
      cbn [is_some orb] in St2. rewrite existsb_app in St2.
      destruct (reachable_Inv _ Hr) as (_ & _ & _ & [_ C] & _ & _). destruct C as [Cna _ _ _ _ _ _ _ _ _ _ _ _].
      assert (E : existsb is_addhack (pending s) = false).
      { destruct (existsb is_addhack (pending s)) eqn:E; auto. apply existsb_exists in E. destruct E as (f & Hf & Hh).
        specialize (Cna _ Hf). destruct f; cbn in *; discriminate. }
      rewrite E in St2. cbn in St2. destruct (finish _) as [[? ?]|]; discriminate. }
  2:{ congruence. }
  destruct (loop_end_no_leak _ _ _ Hr1 Hc1 St2) as (D1 & _ & D3 & D4 & D5 & D6).
  exists s1, ev1, s2, ev2. repeat split; auto. intros c o H. apply (D5 _ _ H).
Qed.

(* ------------------------------------------------------------------ negative: the witnesses (corpus/C12/e2_*.case) *)
Definition w_e2_connected : list op := [Connect; EvWritable 0 false; RunPending; Destroy; LoopEnd].
Definition w_e2_connecting : list op := [Connect; Destroy; LoopEnd].
Definition w_e2_one_batch : list op := [Connect; EvWritable 0 false; RunPending; Destroy; RunPending; LoopEnd].
Definition w_e2_peer_closed : list op := [Connect; EvWritable 0 false; RunPending; Down; Destroy; LoopEnd].
Definition w_e2_reset_queued : list op := [Connect; EvError; Destroy; LoopEnd].
(* ... and the safe ones *)
Definition w_e2_idle : list op := [Destroy; LoopEnd].
Definition w_e2_backoff : list op := [REF; Connect; Destroy; LoopEnd].
Definition w_e2_drained : list op := [Connect; EvWritable 0 false; RunPending; Destroy; RunPending; RunPending; LoopEnd].

Lemma admissible_b_complete c l : forall s, admissible_with c s l -> admissible_b c s l = true.
Proof.
  induction l as [|o r IH]; intros s; cbn [admissible_b admissible_with]; auto.
  destruct (step s o) as [s' ev| |]; auto. intros [H1 H2]. rewrite H1. cbn. auto.
Qed.

(* every hypothesis of the theorems as they stood before (contract without the LoopEnd clause) and everything the property text
   asks for holds along the witness, the prefix before LoopEnd is admissible and reaches a state in which the hypothesis is
   false, and LoopEnd faults *)
Definition e2_witness (w : list op) : Prop :=
  admissible_with contract_any_loop_end init w /\ text_admissible init w /\ run init w = None /\
  ~ admissible init w /\
  exists s ev, admissible init (removelast w) /\ run init (removelast w) = Some (s, ev) /\
               alive s = false /\ loop_outlives_cleanup s = false /\ step s LoopEnd = Fault.
(* stated for a generic list, so that the kernel never has to convert `admissible init w` for a concrete w (its lazy machine
   would evaluate the history) *)
Lemma not_admissible l : admissible_b contract init l = false -> ~ admissible init l.
Proof. intros E H. apply admissible_b_complete in H. rewrite E in H. discriminate H. Qed.
Ltac notadm := apply not_admissible; vm_compute; reflexivity.
Ltac e2w :=
  unfold e2_witness; split; [adm|split; [adm|split; [runs|split; [notadm|]]]];
  eexists _, _; split; [adm|split; [runs|split; [reflexivity|split; [reflexivity|vm_compute; reflexivity]]]].

Theorem destroy_then_loop_end_refuted :
  e2_witness w_e2_connected /\ e2_witness w_e2_connecting /\ e2_witness w_e2_one_batch /\
  e2_witness w_e2_peer_closed /\ e2_witness w_e2_reset_queued.
Proof. split; [|split; [|split; [|split]]]; e2w. Qed.

(* the hypothesis is needed: without it crash freedom (no_fault) is false *)
Theorem loop_outlives_cleanup_refuted :
  exists l, admissible_with contract_any_loop_end init l /\ run init l = None.
Proof. exists w_e2_connected. split; [adm|runs]. Qed.

Lemma loop_end_examples :
  (admissible init w_e2_idle /\ exists s ev, run init w_e2_idle = Some (s, ev) /\ k_dead s = true /\ pending s = [] /\ timers s = []) /\
  (admissible init w_e2_backoff /\ exists s ev, run init w_e2_backoff = Some (s, ev) /\ k_dead s = true /\ socks s = [Closed 1]) /\
  (admissible init w_e2_drained /\ exists s ev, run init w_e2_drained = Some (s, ev) /\ k_dead s = true /\ socks s = [HandedClosed 1]).
Proof.
  split; [|split]; (split; [adm|]); eexists _, _; (split; [runs|]); repeat split; reflexivity.
Qed.
