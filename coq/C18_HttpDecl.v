(* C18_HttpDecl: an INDEPENDENT definition of the HTTP request line and its equality with the
   parser's processRequestLine.

   C18_HttpRef.ref_http is independent of the parser only in its control structure: its request
   grammar over the lines calls the model's own processRequestLine.  Here the request line is
   defined from the grammar of the property text,

       request-line = METHOD SP target SP "HTTP/1." ("0" | "1")
       METHOD       = "GET" | "POST" | "HEAD" | "PUT" | "DELETE"
       target       = any bytes but SP (possibly none); path = up to the first "?", query = from it

   without any function of C18_Model's parser: the line is cut at EVERY space into its fields
   ([fields]); it is a request line iff there are exactly three fields, the first is one of the five
   method names (ASCII strings, compared with the standard library's list equality), the third is
   "HTTP/1.0" or "HTTP/1.1"; path / query are cut at the first question mark by their own two
   recursions.  [ref_request_line_eq]: processRequestLine = ref_request_line for EVERY line and
   prior request; [ref_http_decl] is ref_http with the independent request line, and the chunk-fed
   literal parser equals it on every stream and segmentation. *)
From Coq Require Import List ZArith Lia Bool Arith NArith.
From Coq.Strings Require Import Byte.
From Muduo Require Import Base_Bytes C18_Model C18_StreamProofs C18_HttpProofs C18_HttpRef.
Import ListNotations.

(* ---- the declarative side: nothing below mentions a function of the parser model ------------- *)
Definition b_SP : byte := " "%byte.
Definition b_Q : byte := "?"%byte.

Definition same_bytes (a b : list byte) : bool :=
  if list_eq_dec Byte.byte_eq_dec a b then true else false.

(* the fields of a line: cut at every SP (n spaces give n+1 fields, empty fields included) *)
Fixpoint fields (l : list byte) : list (list byte) :=
  match l with
  | [] => [[]]
  | x :: t =>
      if Byte.byte_eq_dec x b_SP then [] :: fields t
      else match fields t with
           | f :: fs => (x :: f) :: fs
           | [] => [[x]]
           end
  end.

Definition method_named (m : list byte) : option method :=
  if same_bytes m ["G"; "E"; "T"]%byte then Some kGet
  else if same_bytes m ["P"; "O"; "S"; "T"]%byte then Some kPost
  else if same_bytes m ["H"; "E"; "A"; "D"]%byte then Some kHead
  else if same_bytes m ["P"; "U"; "T"]%byte then Some kPut
  else if same_bytes m ["D"; "E"; "L"; "E"; "T"; "E"]%byte then Some kDelete
  else None.

Definition version_named (v : list byte) : option version :=
  if same_bytes v ["H"; "T"; "T"; "P"; "/"; "1"; "."; "1"]%byte then Some kHttp11
  else if same_bytes v ["H"; "T"; "T"; "P"; "/"; "1"; "."; "0"]%byte then Some kHttp10
  else None.

(* the target up to its first '?' / from its first '?' on *)
Fixpoint before_q (t : list byte) : list byte :=
  match t with
  | [] => []
  | x :: r => if Byte.byte_eq_dec x b_Q then [] else x :: before_q r
  end.
Fixpoint from_q (t : list byte) : option (list byte) :=
  match t with
  | [] => None
  | x :: r => if Byte.byte_eq_dec x b_Q then Some t else from_q r
  end.

(* the request line: prior request r0 supplies the query when the target has none (the parser
   leaves request_.query_ untouched) and the headers *)
Definition ref_request_line (line : list byte) (r0 : request) : option request :=
  match fields line with
  | [m; t; v] =>
      match method_named m, version_named v with
      | Some k, Some ver =>
          Some (mkReq k ver (before_q t) (match from_q t with Some q => q | None => q_query r0 end) (q_headers r0))
      | _, _ => None
      end
  | _ => None
  end.

(* ---- fields ---------------------------------------------------------------------------------- *)
Lemma fields_nonempty l : fields l <> [].
Proof.
  destruct l as [|x t]; cbn [fields]; [discriminate|].
  destruct (Byte.byte_eq_dec x b_SP); [discriminate|]. destruct (fields t); discriminate.
Qed.

Lemma fields_no_sp_single a : ~ In b_SP a -> fields a = [a].
Proof.
  induction a as [|x a IH]; intros H; cbn [fields]; [reflexivity|].
  destruct (Byte.byte_eq_dec x b_SP) as [E|E]; [exfalso; apply H; left; exact E|].
  rewrite IH by (intros Hi; apply H; right; exact Hi). reflexivity.
Qed.

Lemma fields_app a b : ~ In b_SP a -> fields (a ++ b_SP :: b) = a :: fields b.
Proof.
  induction a as [|x a IH]; intros H; cbn [app fields].
  - destruct (Byte.byte_eq_dec b_SP b_SP); [reflexivity|contradiction].
  - destruct (Byte.byte_eq_dec x b_SP) as [E|E]; [exfalso; apply H; left; exact E|].
    rewrite IH by (intros Hi; apply H; right; exact Hi). reflexivity.
Qed.

(* joining the fields with single spaces gives the line back; no field contains a space *)
Fixpoint join_sp (fs : list (list byte)) : list byte :=
  match fs with
  | [] => []
  | [f] => f
  | f :: rest => f ++ b_SP :: join_sp rest
  end.

Lemma fields_join l : join_sp (fields l) = l /\ Forall (fun f => ~ In b_SP f) (fields l).
Proof.
  induction l as [|x t IH]; cbn [fields].
  - split; [reflexivity|]. constructor; [intros []|constructor].
  - destruct IH as [IHj IHf]. pose proof (fields_nonempty t) as Hne.
    destruct (fields t) as [|f fs] eqn:Ef; [contradiction|].
    destruct (Byte.byte_eq_dec x b_SP) as [E|E].
    + subst x. split.
      * change (join_sp ([] :: f :: fs)) with (b_SP :: join_sp (f :: fs)). rewrite IHj. reflexivity.
      * constructor; [intros []|exact IHf].
    + pose proof (Forall_inv IHf) as Hf. pose proof (Forall_inv_tail IHf) as Hfs. cbv beta in Hf. split.
      * destruct fs as [|g gs].
        -- cbn [join_sp] in IHj |- *. rewrite IHj. reflexivity.
        -- change (join_sp ((x :: f) :: g :: gs)) with (x :: (f ++ b_SP :: join_sp (g :: gs))).
           change (join_sp (f :: g :: gs)) with (f ++ b_SP :: join_sp (g :: gs)) in IHj.
           rewrite IHj. reflexivity.
      * constructor; [|exact Hfs]. intros [Hi|Hi]; [apply E; exact Hi|exact (Hf Hi)].
Qed.

Lemma same_bytes_true a b : same_bytes a b = true <-> a = b.
Proof. unfold same_bytes. destruct (list_eq_dec Byte.byte_eq_dec a b); split; congruence. Qed.

(* ---- the declarative names are the model's ------------------------------------------------------ *)
Lemma method_named_spec m k : method_named m = Some k <-> (valid_method m /\ k = set_method m).
Proof.
  unfold method_named, valid_method. split.
  - intros H.
    destruct (same_bytes m _) eqn:E1; [apply same_bytes_true in E1; subst m; injection H as <-; split; [tauto|reflexivity]|].
    destruct (same_bytes m _) eqn:E2 in H; [apply same_bytes_true in E2; subst m; injection H as <-; split; [tauto|reflexivity]|].
    destruct (same_bytes m _) eqn:E3 in H; [apply same_bytes_true in E3; subst m; injection H as <-; split; [tauto|reflexivity]|].
    destruct (same_bytes m _) eqn:E4 in H; [apply same_bytes_true in E4; subst m; injection H as <-; split; [tauto|reflexivity]|].
    destruct (same_bytes m _) eqn:E5 in H; [apply same_bytes_true in E5; subst m; injection H as <-; split; [tauto|reflexivity]|].
    discriminate H.
  - intros [[H|[H|[H|[H|H]]]] ->]; subst m; reflexivity.
Qed.

Lemma version_named_spec v ver : version_named v = Some ver <->
  exists c, v = s_HTTP1dot ++ [c] /\ (c = x30 \/ c = x31) /\ ver = (if Byte.eqb c x31 then kHttp11 else kHttp10).
Proof.
  unfold version_named. split.
  - intros H.
    destruct (same_bytes v _) eqn:E1; [apply same_bytes_true in E1; subst v; injection H as <-; exists x31; auto|].
    destruct (same_bytes v _) eqn:E2 in H; [apply same_bytes_true in E2; subst v; injection H as <-; exists x30; auto|].
    discriminate H.
  - intros (c & -> & [->| ->] & ->); reflexivity.
Qed.

Lemma before_q_spec t : before_q t = match find_byte QMARK t with Some q => firstn q t | None => t end.
Proof.
  induction t as [|x r IH]; cbn [before_q find_byte]; [reflexivity|].
  destruct (Byte.byte_eq_dec x b_Q) as [E|E].
  - subst x. reflexivity.
  - assert (Hx : Byte.eqb x QMARK = false).
    { destruct (Byte.eqb x QMARK) eqn:Eb; [|reflexivity]. apply Byte.byte_dec_bl in Eb. contradiction. }
    rewrite Hx, IH. destruct (find_byte QMARK r); reflexivity.
Qed.

Lemma from_q_spec t : from_q t = match find_byte QMARK t with Some q => Some (skipn q t) | None => None end.
Proof.
  induction t as [|x r IH]; cbn [from_q find_byte]; [reflexivity|].
  destruct (Byte.byte_eq_dec x b_Q) as [E|E].
  - subst x. reflexivity.
  - assert (Hx : Byte.eqb x QMARK = false).
    { destruct (Byte.eqb x QMARK) eqn:Eb; [|reflexivity]. apply Byte.byte_dec_bl in Eb. contradiction. }
    rewrite Hx, IH. destruct (find_byte QMARK r); reflexivity.
Qed.

Lemma version_no_sp c : (c = x30 \/ c = x31) -> ~ In b_SP (s_HTTP1dot ++ [c]).
Proof. intros [->| ->] Hi; cbv in Hi; intuition discriminate. Qed.

(* ---- the parser's processRequestLine IS the declarative request line, for every input --------- *)
Theorem ref_request_line_eq : forall line r0, processRequestLine line r0 = ref_request_line line r0.
Proof.
  intros line r0. destruct (processRequestLine line r0) as [r'|] eqn:Ep.
  - (* accepted: the line has the shape, both sides compute the same request *)
    destruct (proj1 (request_line_accepted_iff line r0) (ex_intro _ r' Ep)) as (m & t & v & Hl & Hm & Ht & Hv).
    subst line. rewrite (request_line_result m t v r0 Hm Ht Hv) in Ep. injection Ep as <-.
    unfold ref_request_line.
    change (m ++ [SP] ++ t ++ [SP] ++ s_HTTP1dot ++ [v]) with (m ++ b_SP :: (t ++ b_SP :: (s_HTTP1dot ++ [v]))).
    rewrite (fields_app m _ (valid_method_no_SP m Hm)), (fields_app t _ Ht),
            (fields_no_sp_single _ (version_no_sp v Hv)).
    rewrite (proj2 (method_named_spec m (set_method m)) (conj Hm eq_refl)).
    rewrite (proj2 (version_named_spec (s_HTTP1dot ++ [v]) _) (ex_intro _ v (conj eq_refl (conj Hv eq_refl)))).
    rewrite before_q_spec, from_q_spec. destruct (find_byte QMARK t); reflexivity.
  - (* rejected: if the declarative side accepted, the line would have the shape *)
    unfold ref_request_line.
    destruct (fields_join line) as [Hj Hf].
    destruct (fields line) as [|m [|t [|v [|w ws]]]]; try reflexivity.
    destruct (method_named m) as [k|] eqn:Em; [|reflexivity].
    destruct (version_named v) as [ver|] eqn:Ev; [|reflexivity].
    exfalso.
    apply method_named_spec in Em as [Hm _]. apply version_named_spec in Ev as (c & -> & Hc & _).
    pose proof (Forall_inv (Forall_inv_tail Hf)) as Ht. cbv beta in Ht.
    assert (Hacc : exists r', processRequestLine line r0 = Some r').
    { apply request_line_accepted_iff. exists m, t, c. cbn [join_sp] in Hj. rewrite <- Hj.
      split; [reflexivity|]. split; [exact Hm|]. split; [exact Ht|exact Hc]. }
    destruct Hacc as (r' & Hr). rewrite Hr in Ep. discriminate Ep.
Qed.

(* ---- the reference over the whole stream, with the independent request line -------------------- *)
Fixpoint ref_lines_decl (c : hctx) (ls : list (list byte))
  : list hevent * hctx * list (list byte) * bool :=
  match ls with
  | [] => ([], c, [], false)
  | l :: t =>
      match h_state c with
      | kExpectRequestLine =>
          match ref_request_line l (h_req c) with
          | Some r => ref_lines_decl (mkCtx kExpectHeaders r) t
          | None => ([HBad], c, ls, true)
          end
      | kExpectHeaders =>
          match find_byte COLON l with
          | Some k => ref_lines_decl (mkCtx kExpectHeaders (add_header (h_req c) l k)) t
          | None => let '(e, c', u, a) := ref_lines_decl ctx0 t in (HReq (h_req c) :: e, c', u, a)
          end
      | _ => ([], c, ls, false)
      end
  end.

Definition ref_http_decl (s : list byte) : list hevent * dstate hctx :=
  let (ls, r) := split_lines (S (length s)) s in
  let '(e, c', u, a) := ref_lines_decl ctx0 ls in (e, mkD c' (join_lines u ++ r) a false).

Lemma ref_lines_decl_eq : forall ls c, ref_lines_decl c ls = ref_lines c ls.
Proof.
  induction ls as [|l t IH]; intros c; cbn [ref_lines_decl ref_lines]; [reflexivity|].
  destruct (h_state c); try reflexivity.
  - rewrite <- ref_request_line_eq. destruct (processRequestLine l (h_req c)); [apply IH|reflexivity].
  - destruct (find_byte COLON l); [apply IH|]. rewrite IH. reflexivity.
Qed.

Theorem http_equals_decl_reference : forall chunks,
  http_feed_all http_init chunks = ref_http_decl (concat chunks).
Proof.
  intros chunks. rewrite http_equals_reference. unfold ref_http, ref_http_decl, of_lines.
  destruct (split_lines _ _) as [ls r]. rewrite ref_lines_decl_eq. reflexivity.
Qed.
