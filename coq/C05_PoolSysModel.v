(* C05_PoolSysModel: EventLoopThreadPool::start() and ~EventLoopThreadPool as N embedded
   EventLoopThreads (C05_Model.elt), one owner thread (the base loop's thread) and N children.
     start():  for i in 0..N-1 { t = new EventLoopThread; loops_.push_back(t->startLoop()); }
               -- strictly sequential: thread i+1 is created after startLoop() of thread i returned;
     user code on the loops (any order) once start() has returned;
     ~EventLoopThreadPool: threads_ (vector of unique_ptr) is destroyed element by element, in order:
               ~EventLoopThread of thread i+1 starts after that of thread i has returned.
   A pool step is a step of ONE component; the owner's steps are guarded by this discipline, the
   children run freely.  Executable, no proofs. *)
From Coq Require Import List Bool Arith.
Import ListNotations.
From Muduo Require Import C04_Model C05_Model.

Inductive plabel :=
| PO (i : nat)       (* the owner acts on thread i *)
| PC (i : nat)       (* child i *)
| PCRead (i : nat)   (* child i: handleRead of its wake-up channel *)
| PSpur (i : nat).   (* spurious wake-up of the owner's wait on thread i's condition *)

Definition o_past_start (e : elt) : bool :=
  match eo e with OUser | ODtor | OQuit | OJoin | ODone => true | _ => false end.
Definition user_code_left (e : elt) : bool :=
  match eo e, fcode_at (ls e) 0 with OUser, _ :: _ => true | _, _ => false end.
Definition user_done (e : elt) : bool := o_past_start e && negb (user_code_left e).
Definition o_done (e : elt) : bool := match eo e with ODone => true | _ => false end.

(* may the owner take its next step on component i (= e) now *)
Definition owner_guard (els : list elt) (i : nat) (e : elt) : bool :=
  if negb (o_past_start e) then forallb o_past_start (firstn i els)        (* start(): in order *)
  else if user_code_left e then forallb o_past_start els                   (* user code: after start() *)
  else forallb user_done els && forallb o_done (firstn i els).             (* destruction: in order *)

Definition pstep1 (es : eshape) (sh : shape) (scr : scripts) (els : list elt) (i : nat) (l : elabel)
    (guard : elt -> bool) : option (list elt) :=
  match nth_error els i with
  | Some e =>
      if guard e then match estep es sh scr e l with Some e' => Some (upd els i e') | None => None end
      else None
  | None => None
  end.

Definition pstep (es : eshape) (sh : shape) (scr : scripts) (els : list elt) (lab : plabel) : option (list elt) :=
  match lab with
  | PO i => pstep1 es sh scr els i EO (owner_guard els i)
  | PC i => pstep1 es sh scr els i EC (fun _ => true)
  | PCRead i => pstep1 es sh scr els i ECRead (fun _ => true)
  | PSpur i => pstep1 es sh scr els i ESpur (fun _ => true)
  end.

(* one (thread-init callback, user code) pair per thread *)
Definition pinit (specs : list (list act * list act)) : list elt :=
  map (fun s => einit (fst s) (snd s)) specs.

Fixpoint prun (es : eshape) (sh : shape) (scr : scripts) (els : list elt) (labs : list plabel) : option (list elt) :=
  match labs with
  | [] => Some els
  | l :: r => match pstep es sh scr els l with Some els' => prun es sh scr els' r | None => None end
  end.

Definition pool_started (els : list elt) : bool := forallb o_past_start els.
Definition pool_destroyed (els : list elt) : bool := forallb o_done els.

(* a deterministic scheduler (first enabled label of `order`), for examples *)
Fixpoint first_enabled (es : eshape) (sh : shape) (scr : scripts) (order : list plabel) (p : list elt) : option (list elt) :=
  match order with
  | [] => None
  | l :: r => match pstep es sh scr p l with Some p' => Some p' | None => first_enabled es sh scr r p end
  end.
Fixpoint pauto (es : eshape) (sh : shape) (scr : scripts) (order : list plabel) (fuel : nat) (p : list elt) : list elt :=
  match fuel with
  | O => p
  | S f => match first_enabled es sh scr order p with Some p' => pauto es sh scr order f p' | None => p end
  end.
