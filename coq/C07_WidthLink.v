(* C07_WidthLink: uniqueness of sequence numbers survives the truncation to the machine widths.
   C06_Proofs.seq_unique is about the model's unbounded Z.  Here: in every reachable state whose creation
   counter is still below 2^63, two live timers whose sequences AS STORED in the C++ integers (truncated
   to the regenerated widths of Timer::sequence_ / TimerId::sequence_ / ActiveTimer::second) are equal
   are the same timer; and the stored sequence of every live timer is the model's. *)
From Coq Require Import List ZArith Lia.
From Muduo Require Import Gen_Consts C06_Model C06_Proofs C07_Width.
Local Open Scope Z_scope.

Lemma stored_seq_faithful : forall c ops st evs, run (init c) ops = Ok (st, evs) -> next_seq st < 2 ^ 63 ->
  forall a o, hget a (heap st) = Some o ->
    swrap Timer_numCreated_bits (o_seq o) = o_seq o /\ swrap Timer_sequence_bits (o_seq o) = o_seq o /\
    swrap TimerId_sequence_bits (o_seq o) = o_seq o /\ swrap TimerQueue_ActiveTimer_sequence_bits (o_seq o) = o_seq o.
Proof.
  intros c ops st evs H B a o G.
  destruct (seq_unique c ops st evs H) as [_ R]. specialize (R a o G).
  apply seq_width_faithful. lia.
Qed.

Lemma stored_seq_unique : forall c ops st evs, run (init c) ops = Ok (st, evs) -> next_seq st < 2 ^ 63 ->
  forall a b o p, hget a (heap st) = Some o -> hget b (heap st) = Some p ->
    swrap Timer_sequence_bits (o_seq o) = swrap TimerId_sequence_bits (o_seq p) -> a = b.
Proof.
  intros c ops st evs H B a b o p Ga Gb E.
  destruct (stored_seq_faithful c ops st evs H B a o Ga) as (_ & E1 & _).
  destruct (stored_seq_faithful c ops st evs H B b p Gb) as (_ & _ & E2 & _).
  rewrite E1, E2 in E.
  destruct (seq_unique c ops st evs H) as [U _]. exact (U a b o p Ga Gb E).
Qed.
