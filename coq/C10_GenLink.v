(* C10_GenLink: every comparison, assertion, index assignment and size argument of
   muduo::net::Buffer as translated from the clang AST of the current sources (Gen_C10,
   regenerated on every check by lib/gen_C10.py) is the one the hand model C10_Model uses.
   Sizes are the model's naturals embedded in Z; a pointer is an arbitrary address P plus
   an offset.  Flipping an operator or changing an operand in Buffer.h / Buffer.cc makes
   one of these lemmas false, i.e. breaks a proof obligation directly. *)
From Coq Require Import List ZArith Lia Bool Arith NArith.
From Coq.Strings Require Import Byte.
From Muduo Require Import Base_Bytes Gen_Consts Gen_C10 C10_Model.
Import ListNotations.
Local Open Scope Z_scope.

Local Notation Zn := Z.of_nat.
Definition kCP : Z := Gen_Consts.Buffer_kCheapPrepend.

Ltac zb :=
  repeat match goal with
  | |- context [Z.geb ?a ?b] => rewrite (Z.geb_leb a b)
  | |- context [Z.gtb ?a ?b] => rewrite (Z.gtb_ltb a b)
  | |- context [Z.ltb ?a ?b] => destruct (Z.ltb_spec a b)
  | |- context [Z.leb ?a ?b] => destruct (Z.leb_spec a b)
  | |- context [Z.eqb ?a ?b] => destruct (Z.eqb_spec a b)
  | |- context [Nat.ltb ?a ?b] => destruct (Nat.ltb_spec a b)
  | |- context [Nat.leb ?a ?b] => destruct (Nat.leb_spec a b)
  | |- context [Nat.eqb ?a ?b] => destruct (Nat.eqb_spec a b)
  end; cbn [andb orb negb]; try reflexivity; try lia.

Lemma kCP_nat : Zn kCheapPrepend = kCP.
Proof. unfold kCheapPrepend, kCP. apply Z2Nat.id. vm_compute. discriminate. Qed.

Lemma kExtra_nat : Zn kExtraBuf = Gen_Consts.Buffer_extrabuf_size.
Proof. unfold kExtraBuf. apply Z2Nat.id. vm_compute. discriminate. Qed.

Local Opaque kCheapPrepend kExtraBuf kInitialSize.

(* ---- constructor, Buffer.h:48-56 ---------------------------------------------- *)
Lemma gen_constructor n :
  Buffer_init_buffer (Zn n) kCP = Zn (length (store (new_buf n))) /\
  Buffer_init_readerIndex kCP = Zn (ridx (new_buf n)) /\
  Buffer_init_writerIndex kCP = Zn (widx (new_buf n)) /\
  Buffer_assert0 (Zn (readableBytes (new_buf n))) = true /\
  Buffer_assert1 (Zn n) (Zn (writableBytes (new_buf n))) = true /\
  Buffer_assert2 kCP (Zn (prependableBytes (new_buf n))) = true.
Proof.
  unfold Buffer_init_buffer, Buffer_init_readerIndex, Buffer_init_writerIndex,
    Buffer_assert0, Buffer_assert1, Buffer_assert2,
    readableBytes, writableBytes, prependableBytes, new_buf.
  cbn [store ridx widx]. rewrite repeat_length, <- kCP_nat.
  repeat split; zb.
Qed.

(* ---- size observers, Buffer.h:68-75 -------------------------------------------- *)
Lemma gen_observers b : (ridx b <= widx b)%nat -> (widx b <= length (store b))%nat ->
  readableBytes_ret (Zn (ridx b)) (Zn (widx b)) = Zn (readableBytes b) /\
  writableBytes_ret (Zn (length (store b))) (Zn (widx b)) = Zn (writableBytes b) /\
  prependableBytes_ret (Zn (ridx b)) = Zn (prependableBytes b).
Proof.
  intros H1 H2. unfold readableBytes_ret, writableBytes_ret, prependableBytes_ret,
    readableBytes, writableBytes, prependableBytes. repeat split; lia.
Qed.

(* ---- pointer preconditions: findCRLF(start), findEOL(start), retrieveUntil(end) -- *)
Lemma gen_pointer_asserts b P off :
  let start := P + off in
  let bw := P + Zn (readableBytes b) in
  (findCRLF1_assert0 P start && findCRLF1_assert1 bw start = ptr_ok off b) /\
  (findEOL1_assert0 P start && findEOL1_assert1 bw start = ptr_ok off b) /\
  (retrieveUntil_assert0 start P && retrieveUntil_assert1 bw start = ptr_ok off b) /\
  retrieveUntil_call0_retrieve start P = off.
Proof.
  cbn zeta. unfold findCRLF1_assert0, findCRLF1_assert1, findEOL1_assert0, findEOL1_assert1,
    retrieveUntil_assert0, retrieveUntil_assert1, retrieveUntil_call0_retrieve, ptr_ok.
  repeat split; zb.
Qed.

(* ---- retrieve family, Buffer.h:113-170 ------------------------------------------ *)
Lemma gen_retrieve b n :
  retrieve_assert0 (Zn n) (Zn (readableBytes b)) = (n <=? readableBytes b)%nat /\
  retrieve_if0 (Zn n) (Zn (readableBytes b)) = (n <? readableBytes b)%nat /\
  retrieve_set0_readerIndex (Zn n) (Zn (ridx b)) = Zn (ridx b + n) /\
  retrieveAll_set0_readerIndex kCP = Zn (ridx (retrieveAll b)) /\
  retrieveAll_set1_writerIndex kCP = Zn (widx (retrieveAll b)) /\
  retrieveAsString_assert0 (Zn n) (Zn (readableBytes b)) = (n <=? readableBytes b)%nat /\
  retrieveAsString_call0_retrieve (Zn n) = Zn n /\
  retrieveAllAsString_call0_retrieveAsString (Zn (readableBytes b)) = Zn (readableBytes b).
Proof.
  unfold retrieve_assert0, retrieve_if0, retrieve_set0_readerIndex, retrieveAll_set0_readerIndex,
    retrieveAll_set1_writerIndex, retrieveAsString_assert0, retrieveAsString_call0_retrieve,
    retrieveAllAsString_call0_retrieveAsString, retrieveAll.
  cbn [ridx widx]. rewrite <- kCP_nat. repeat split; zb.
Qed.

Lemma gen_widths :
  retrieveInt64_call0_retrieve = Zn (wbytes W64) /\ retrieveInt32_call0_retrieve = Zn (wbytes W32) /\
  retrieveInt16_call0_retrieve = Zn (wbytes W16) /\ retrieveInt8_call0_retrieve = Zn (wbytes W8) /\
  appendInt64_call0_append = Zn (wbytes W64) /\ appendInt32_call0_append = Zn (wbytes W32) /\
  appendInt16_call0_append = Zn (wbytes W16) /\ appendInt8_call0_append = Zn (wbytes W8) /\
  prependInt64_call0_prepend = Zn (wbytes W64) /\ prependInt32_call0_prepend = Zn (wbytes W32) /\
  prependInt16_call0_prepend = Zn (wbytes W16) /\ prependInt8_call0_prepend = Zn (wbytes W8).
Proof. repeat split; reflexivity. Qed.

Lemma gen_peekInt_asserts b :
  peekInt64_assert0 (Zn (readableBytes b)) = (wbytes W64 <=? readableBytes b)%nat /\
  peekInt32_assert0 (Zn (readableBytes b)) = (wbytes W32 <=? readableBytes b)%nat /\
  peekInt16_assert0 (Zn (readableBytes b)) = (wbytes W16 <=? readableBytes b)%nat /\
  peekInt8_assert0 (Zn (readableBytes b)) = (wbytes W8 <=? readableBytes b)%nat.
Proof.
  unfold peekInt64_assert0, peekInt32_assert0, peekInt16_assert0, peekInt8_assert0.
  cbn [wbytes]. repeat split; zb.
Qed.

(* ---- ensureWritableBytes / hasWritten / unwrite / prepend / shrink ---------------- *)
Lemma gen_write_side b n :
  ensureWritableBytes_if0 (Zn n) (Zn (writableBytes b)) = (writableBytes b <? n)%nat /\
  ensureWritableBytes_call0_makeSpace (Zn n) = Zn n /\
  ensureWritableBytes_assert0 (Zn n) (Zn (writableBytes b)) = (n <=? writableBytes b)%nat /\
  hasWritten_assert0 (Zn n) (Zn (writableBytes b)) = (n <=? writableBytes b)%nat /\
  hasWritten_set0_writerIndex (Zn n) (Zn (widx b)) = Zn (widx b + n) /\
  unwrite_assert0 (Zn n) (Zn (readableBytes b)) = (n <=? readableBytes b)%nat /\
  ((n <= widx b)%nat -> unwrite_set0_writerIndex (Zn n) (Zn (widx b)) = Zn (widx b - n)) /\
  prepend_assert0 (Zn n) (Zn (prependableBytes b)) = (n <=? prependableBytes b)%nat /\
  ((n <= ridx b)%nat -> prepend_set0_readerIndex (Zn n) (Zn (ridx b)) = Zn (ridx b - n)) /\
  shrink_call0_ensureWritableBytes (Zn (readableBytes b)) (Zn n) = Zn (readableBytes b + n).
Proof.
  unfold ensureWritableBytes_if0, ensureWritableBytes_call0_makeSpace, ensureWritableBytes_assert0,
    hasWritten_assert0, hasWritten_set0_writerIndex, unwrite_assert0, unwrite_set0_writerIndex,
    prepend_assert0, prepend_set0_readerIndex, shrink_call0_ensureWritableBytes.
  repeat split; zb.
Qed.

(* ---- makeSpace, Buffer.h:390-409 -------------------------------------------------- *)
Lemma gen_makeSpace b len :
  makeSpace_if0 kCP (Zn len) (Zn (prependableBytes b)) (Zn (writableBytes b))
    = (writableBytes b + prependableBytes b <? len + kCheapPrepend)%nat /\
  makeSpace_call0_resize (Zn len) (Zn (widx b)) = Zn (widx b + len) /\
  makeSpace_assert0 kCP (Zn (ridx b)) = (kCheapPrepend <? ridx b)%nat /\
  makeSpace_set0_readerIndex kCP = Zn kCheapPrepend /\
  makeSpace_set1_writerIndex (Zn (readableBytes b)) (makeSpace_set0_readerIndex kCP)
    = Zn (kCheapPrepend + readableBytes b) /\
  makeSpace_assert1 (Zn (readableBytes b)) (Zn (readableBytes b)) = true.
Proof.
  unfold makeSpace_if0, makeSpace_call0_resize, makeSpace_assert0, makeSpace_set0_readerIndex,
    makeSpace_set1_writerIndex, makeSpace_assert1.
  rewrite <- kCP_nat. repeat split; zb.
Qed.

(* ---- readFd, Buffer.cc:25-57 -------------------------------------------------------- *)
Lemma gen_readFd b n :
  readFd_set0_iov_len (Zn (writableBytes b)) = Zn (writableBytes b) /\
  readFd_set1_iov_len = Zn kExtraBuf /\
  readFd_let_iovcnt (Zn (writableBytes b)) = Zn (readFd_iovcnt b) /\
  readFd_if0 (-1) = true /\ readFd_if0 (Zn n) = false /\
  readFd_if1 (Zn n) (Zn (writableBytes b)) = (n <=? writableBytes b)%nat /\
  readFd_set2_writerIndex (Zn n) (Zn (widx b)) = Zn (widx b + n) /\
  readFd_set3_writerIndex (Zn (length (store b))) = Zn (length (store b)) /\
  ((writableBytes b <= n)%nat -> readFd_call0_append (Zn n) (Zn (writableBytes b)) = Zn (n - writableBytes b)) /\
  readFd_ret (Zn n) = Zn n.
Proof.
  unfold readFd_set0_iov_len, readFd_set1_iov_len, readFd_let_iovcnt, readFd_if0, readFd_if1,
    readFd_set2_writerIndex, readFd_set3_writerIndex, readFd_call0_append, readFd_ret, readFd_iovcnt.
  pose proof kExtra_nat as HE. change Gen_Consts.Buffer_extrabuf_size with 65536 in HE.
  repeat split; zb.
Qed.
