(* C10_GenLink: every comparison, assertion, index assignment and size argument of
   muduo::net::Buffer as translated from the clang AST of the current sources (Gen_C10,
   regenerated on every check by lib/gen_C10.py) is the one the hand model C10_Model uses.
   Sizes are the model's naturals embedded in Z; a pointer is an arbitrary address B (begin())
   plus an offset.
   Every generated fact is a function over the record [Gen_C10.obs] of NAMED observables
   (review B-2): the link lemmas evaluate it on [buf_obs b B e] -- the record whose fields
   o_readerIndex, o_writerIndex, o_buffer_size, o_readableBytes, o_writableBytes,
   o_prependableBytes, o_peek, o_beginWrite, o_kCheapPrepend are the model's values for the
   buffer [b], every other field taken from an ARBITRARY record [e] -- with the parameters /
   locals that are in scope set by name ([set_len], [set_n], ...).  So a fact that reads another
   observable than the model's test does (readableBytes() replaced by writableBytes() or
   writerIndex_, len by a name that is not in scope, ...) evaluates to a different term and
   the lemma no longer holds: flipping an operator or replacing an operand in Buffer.h /
   Buffer.cc breaks a proof obligation directly.  (Two names that denote the same value at
   that program point -- prependableBytes() and readerIndex_, the local `readable` and
   readableBytes() -- are interchangeable, as they are in the C++.) *)
From Coq Require Import List ZArith Lia Bool Arith NArith.
From Coq.Strings Require Import Byte.
From Muduo Require Import Base_Bytes Gen_Consts Gen_C10 C10_Model.
Import ListNotations.
Local Open Scope Z_scope.

Local Notation Zn := Z.of_nat.
Definition kCP : Z := Gen_Consts.Buffer_kCheapPrepend.

Ltac zb :=
  repeat match goal with
  | |- context [Z.geb ?a ?b] => rewrite (Z.geb_leb a b)
  | |- context [Z.gtb ?a ?b] => rewrite (Z.gtb_ltb a b)
  | |- context [Z.ltb ?a ?b] => destruct (Z.ltb_spec a b)
  | |- context [Z.leb ?a ?b] => destruct (Z.leb_spec a b)
  | |- context [Z.eqb ?a ?b] => destruct (Z.eqb_spec a b)
  | |- context [Nat.ltb ?a ?b] => destruct (Nat.ltb_spec a b)
  | |- context [Nat.leb ?a ?b] => destruct (Nat.leb_spec a b)
  | |- context [Nat.eqb ?a ?b] => destruct (Nat.eqb_spec a b)
  end; cbn [andb orb negb]; try reflexivity; try lia.

Lemma kCP_nat : Zn kCheapPrepend = kCP.
Proof. unfold kCheapPrepend, kCP. apply Z2Nat.id. vm_compute. discriminate. Qed.

Lemma kExtra_nat : Zn kExtraBuf = Gen_Consts.Buffer_extrabuf_size.
Proof. unfold kExtraBuf. apply Z2Nat.id. vm_compute. discriminate. Qed.

Local Opaque kCheapPrepend kExtraBuf kInitialSize.

(* the record of named observables of a model buffer whose storage begins at address B;
   everything that is not a buffer observable comes from [e] *)
Definition buf_obs (b : buf) (B : Z) (e : obs) : obs :=
  {| o_readerIndex := Zn (ridx b);
     o_writerIndex := Zn (widx b);
     o_buffer_size := Zn (length (store b));
     o_readableBytes := Zn (readableBytes b);
     o_writableBytes := Zn (writableBytes b);
     o_prependableBytes := Zn (prependableBytes b);
     o_peek := B + Zn (ridx b);
     o_beginWrite := B + Zn (widx b);
     o_kCheapPrepend := kCP;
     o_len := o_len e; o_initialSize := o_initialSize e; o_reserve := o_reserve e;
     o_start := o_start e; o_end := o_end e; o_size := o_size e; o_n := o_n e;
     o_writable := o_writable e; o_readable := o_readable e; o_x := o_x e; o_result := o_result e |}.

(* only the three private members (what the bodies of the size observers may read) *)
Definition mem_obs (b : buf) (e : obs) : obs :=
  set_readerIndex (Zn (ridx b)) (set_writerIndex (Zn (widx b)) (set_buffer_size (Zn (length (store b))) e)).

Ltac gl := unfold buf_obs, mem_obs; obs_red.

(* ---- constructor, Buffer.h:48-56 ---------------------------------------------- *)
Lemma gen_constructor n B e :
  let o0 := set_initialSize (Zn n) (set_kCheapPrepend kCP e) in
  let o := set_initialSize (Zn n) (buf_obs (new_buf n) B e) in
  Buffer_init_buffer o0 = Zn (length (store (new_buf n))) /\
  Buffer_init_readerIndex o0 = Zn (ridx (new_buf n)) /\
  Buffer_init_writerIndex o0 = Zn (widx (new_buf n)) /\
  Buffer_assert0 o = true /\
  Buffer_assert1 o = true /\
  Buffer_assert2 o = true.
Proof.
  cbn zeta.
  unfold Buffer_init_buffer, Buffer_init_readerIndex, Buffer_init_writerIndex,
    Buffer_assert0, Buffer_assert1, Buffer_assert2. gl.
  unfold readableBytes, writableBytes, prependableBytes, new_buf.
  cbn [store ridx widx]. rewrite repeat_length, <- kCP_nat.
  repeat split; zb.
Qed.

(* ---- size observers, Buffer.h:68-75 -------------------------------------------- *)
Lemma gen_observers b e : (ridx b <= widx b)%nat -> (widx b <= length (store b))%nat ->
  readableBytes_ret (mem_obs b e) = Zn (readableBytes b) /\
  writableBytes_ret (mem_obs b e) = Zn (writableBytes b) /\
  prependableBytes_ret (mem_obs b e) = Zn (prependableBytes b).
Proof.
  intros H1 H2. unfold readableBytes_ret, writableBytes_ret, prependableBytes_ret. gl.
  unfold readableBytes, writableBytes, prependableBytes. repeat split; lia.
Qed.

(* ---- pointer preconditions: findCRLF(start), findEOL(start), retrieveUntil(end) --
   peek() = B + readerIndex_, beginWrite() = B + writerIndex_, the argument = peek() + off *)
Lemma gen_pointer_asserts b B off e : (ridx b <= widx b)%nat ->
  let os := set_start (B + Zn (ridx b) + off) (buf_obs b B e) in
  let oe := set_end (B + Zn (ridx b) + off) (buf_obs b B e) in
  (findCRLF1_assert0 os && findCRLF1_assert1 os = ptr_ok off b) /\
  (findEOL1_assert0 os && findEOL1_assert1 os = ptr_ok off b) /\
  (retrieveUntil_assert0 oe && retrieveUntil_assert1 oe = ptr_ok off b) /\
  retrieveUntil_call0_retrieve oe = off.
Proof.
  intros H. cbn zeta. unfold findCRLF1_assert0, findCRLF1_assert1, findEOL1_assert0, findEOL1_assert1,
    retrieveUntil_assert0, retrieveUntil_assert1, retrieveUntil_call0_retrieve, ptr_ok. gl.
  unfold readableBytes.
  repeat split; zb.
Qed.

(* ---- retrieve family, Buffer.h:113-170 ------------------------------------------ *)
Lemma gen_retrieve b n B e :
  let o := set_len (Zn n) (buf_obs b B e) in
  retrieve_assert0 o = (n <=? readableBytes b)%nat /\
  retrieve_if0 o = (n <? readableBytes b)%nat /\
  retrieve_set0_readerIndex o = Zn (ridx b + n) /\
  retrieveAll_set0_readerIndex (buf_obs b B e) = Zn (ridx (retrieveAll b)) /\
  retrieveAll_set1_writerIndex (buf_obs b B e) = Zn (widx (retrieveAll b)) /\
  retrieveAsString_assert0 o = (n <=? readableBytes b)%nat /\
  retrieveAsString_call0_retrieve o = Zn n /\
  retrieveAllAsString_call0_retrieveAsString (buf_obs b B e) = Zn (readableBytes b).
Proof.
  cbn zeta.
  unfold retrieve_assert0, retrieve_if0, retrieve_set0_readerIndex, retrieveAll_set0_readerIndex,
    retrieveAll_set1_writerIndex, retrieveAsString_assert0, retrieveAsString_call0_retrieve,
    retrieveAllAsString_call0_retrieveAsString, retrieveAll. gl.
  cbn [ridx widx]. rewrite <- kCP_nat. repeat split; zb.
Qed.

Lemma gen_widths e :
  retrieveInt64_call0_retrieve e = Zn (wbytes W64) /\ retrieveInt32_call0_retrieve e = Zn (wbytes W32) /\
  retrieveInt16_call0_retrieve e = Zn (wbytes W16) /\ retrieveInt8_call0_retrieve e = Zn (wbytes W8) /\
  appendInt64_call0_append e = Zn (wbytes W64) /\ appendInt32_call0_append e = Zn (wbytes W32) /\
  appendInt16_call0_append e = Zn (wbytes W16) /\ appendInt8_call0_append e = Zn (wbytes W8) /\
  prependInt64_call0_prepend e = Zn (wbytes W64) /\ prependInt32_call0_prepend e = Zn (wbytes W32) /\
  prependInt16_call0_prepend e = Zn (wbytes W16) /\ prependInt8_call0_prepend e = Zn (wbytes W8).
Proof. repeat split; reflexivity. Qed.

Lemma gen_peekInt_asserts b B e :
  peekInt64_assert0 (buf_obs b B e) = (wbytes W64 <=? readableBytes b)%nat /\
  peekInt32_assert0 (buf_obs b B e) = (wbytes W32 <=? readableBytes b)%nat /\
  peekInt16_assert0 (buf_obs b B e) = (wbytes W16 <=? readableBytes b)%nat /\
  peekInt8_assert0 (buf_obs b B e) = (wbytes W8 <=? readableBytes b)%nat.
Proof.
  unfold peekInt64_assert0, peekInt32_assert0, peekInt16_assert0, peekInt8_assert0. gl.
  cbn [wbytes]. repeat split; zb.
Qed.

(* ---- ensureWritableBytes / hasWritten / unwrite / prepend / shrink ---------------- *)
Lemma gen_write_side b n B e :
  let o := set_len (Zn n) (buf_obs b B e) in
  ensureWritableBytes_if0 o = (writableBytes b <? n)%nat /\
  ensureWritableBytes_call0_makeSpace o = Zn n /\
  ensureWritableBytes_assert0 o = (n <=? writableBytes b)%nat /\
  hasWritten_assert0 o = (n <=? writableBytes b)%nat /\
  hasWritten_set0_writerIndex o = Zn (widx b + n) /\
  unwrite_assert0 o = (n <=? readableBytes b)%nat /\
  ((n <= widx b)%nat -> unwrite_set0_writerIndex o = Zn (widx b - n)) /\
  prepend_assert0 o = (n <=? prependableBytes b)%nat /\
  ((n <= ridx b)%nat -> prepend_set0_readerIndex o = Zn (ridx b - n)) /\
  shrink_call0_ensureWritableBytes (set_reserve (Zn n) (buf_obs b B e)) = Zn (readableBytes b + n).
Proof.
  cbn zeta.
  unfold ensureWritableBytes_if0, ensureWritableBytes_call0_makeSpace, ensureWritableBytes_assert0,
    hasWritten_assert0, hasWritten_set0_writerIndex, unwrite_assert0, unwrite_set0_writerIndex,
    prepend_assert0, prepend_set0_readerIndex, shrink_call0_ensureWritableBytes. gl.
  repeat split; zb.
Qed.

(* ---- makeSpace, Buffer.h:390-409 --------------------------------------------------
   the compaction branch: `readable` is the local copy of readableBytes() taken before the
   indices move; set1 reads the reader index set0 has just stored; assert1 is evaluated on the
   buffer after both assignments *)
Lemma gen_makeSpace b len B e : (ridx b <= widx b)%nat ->
  let o := set_len (Zn len) (buf_obs b B e) in
  let o1 := set_readable (Zn (readableBytes b)) o in
  let b' := mkBuf (store b) kCheapPrepend (kCheapPrepend + readableBytes b) 0 in
  makeSpace_if0 o = (writableBytes b + prependableBytes b <? len + kCheapPrepend)%nat /\
  makeSpace_call0_resize o = Zn (widx b + len) /\
  makeSpace_assert0 o = (kCheapPrepend <? ridx b)%nat /\
  makeSpace_set0_readerIndex o1 = Zn kCheapPrepend /\
  makeSpace_set1_writerIndex (set_readerIndex (makeSpace_set0_readerIndex o1) o1)
    = Zn (kCheapPrepend + readableBytes b) /\
  makeSpace_assert1 (set_readable (Zn (readableBytes b)) (set_len (Zn len) (buf_obs b' B e))) = true.
Proof.
  intros H. cbn zeta.
  unfold makeSpace_if0, makeSpace_call0_resize, makeSpace_assert0, makeSpace_set0_readerIndex,
    makeSpace_set1_writerIndex, makeSpace_assert1. gl.
  unfold readableBytes, writableBytes, prependableBytes. cbn [ridx widx store].
  rewrite <- kCP_nat. repeat split; zb.
Qed.

(* ---- readFd, Buffer.cc:25-57 --------------------------------------------------------
   `writable` is the local copy of writableBytes() taken on entry, `n` the result of readv *)
Lemma gen_readFd b n B e :
  let o := set_n (Zn n) (set_writable (Zn (writableBytes b)) (buf_obs b B e)) in
  let oerr := set_n (-1) (set_writable (Zn (writableBytes b)) (buf_obs b B e)) in
  readFd_set0_iov_len o = Zn (writableBytes b) /\
  readFd_set1_iov_len o = Zn kExtraBuf /\
  readFd_let_iovcnt o = Zn (readFd_iovcnt b) /\
  readFd_if0 oerr = true /\ readFd_if0 o = false /\
  readFd_if1 o = (n <=? writableBytes b)%nat /\
  readFd_set2_writerIndex o = Zn (widx b + n) /\
  readFd_set3_writerIndex o = Zn (length (store b)) /\
  ((writableBytes b <= n)%nat -> readFd_call0_append o = Zn (n - writableBytes b)) /\
  readFd_ret o = Zn n /\ readFd_ret oerr = (-1).
Proof.
  cbn zeta.
  unfold readFd_set0_iov_len, readFd_set1_iov_len, readFd_let_iovcnt, readFd_if0, readFd_if1,
    readFd_set2_writerIndex, readFd_set3_writerIndex, readFd_call0_append, readFd_ret, readFd_iovcnt. gl.
  pose proof kExtra_nat as HE. change Gen_Consts.Buffer_extrabuf_size with 65536 in HE.
  repeat split; zb.
Qed.

(* ---- append overloads, the lengths handed to memchr / memcpy / string(ptr, len) ----------- *)
Lemma gen_append_lengths b n B off e : (ridx b <= widx b)%nat ->
  let o := set_len (Zn n) (buf_obs b B e) in
  let os := set_start (B + Zn (ridx b) + off) (buf_obs b B e) in
  append1_call0_append (set_size (Zn n) (buf_obs b B e)) = Zn n /\
  append2_void_call0_append o = Zn n /\
  append2_char_call0_ensureWritableBytes o = Zn n /\
  append2_char_call1_hasWritten o = Zn n /\
  findEOL0_memchr0_len (buf_obs b B e) = Zn (readableBytes b) /\
  findEOL1_memchr0_len os = Zn (readableBytes b) - off /\
  peekInt64_memcpy0_len e = Zn (wbytes W64) /\ peekInt32_memcpy0_len e = Zn (wbytes W32) /\
  peekInt16_memcpy0_len e = Zn (wbytes W16) /\
  retrieveAsString_string0_len o = Zn n.
Proof.
  intros H. cbn zeta.
  unfold append1_call0_append, append2_void_call0_append, append2_char_call0_ensureWritableBytes,
    append2_char_call1_hasWritten, findEOL0_memchr0_len, findEOL1_memchr0_len, peekInt64_memcpy0_len,
    peekInt32_memcpy0_len, peekInt16_memcpy0_len, retrieveAsString_string0_len. gl.
  unfold readableBytes. cbn [wbytes]. repeat split; zb.
Qed.

(* ---- the integer casts the expression translator looks through (review B-3) --------------
   exactly one narrowing cast in Buffer.h/.cc: toStringPiece()'s static_cast<int>(readableBytes());
   exactly one signed value widened to size_t: StringPiece::size() in append(const StringPiece&);
   both are the 32-bit int of C10_Model.int_cast, and the operand of the first is the model's *)
Lemma gen_int_casts b B e :
  narrowing_casts = 1 /\ signed_widening_casts = 1 /\
  toStringPiece_narrow0 = int_bits /\ append1_widen_signed0 = int_bits /\
  int_cast (toStringPiece_narrow0_arg (buf_obs b B e)) = toStringPiece_len b.
Proof. repeat split; reflexivity. Qed.
